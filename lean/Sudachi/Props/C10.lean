import Sudachi.Proofs.Recycle
import Sudachi.Proofs.RecycleObs
import Sudachi.Proofs.RecycleFast
import Sudachi.Proofs.RecycleTotal
import Sudachi.Proofs.RecycleBridge
import Sudachi.Props.C01
/-!
# C10 — Results do not depend on what a tokenizer or result list processed before

Model: `Recycle` (`Model/Recycle.lean`): `StatefulTokenizer` + `InputBuffer` + `Lattice` + `MorphemeList`s as
one state with every recycled buffer explicit; operations are the literal buffer events of the Rust; what
is pushed is an abstract `Payload` (so the theorems hold for every dictionary, plugin stack and text).
`ObsEq` = what a caller can observe of a finished analysis (result path, every buffer field except the
private scratch string, subset, mode).  The theorems quantify over ARBITRARY prior working states, which
covers every history; the two buffers `reset` does not clear (`top_path_ids`, `replaces`) are empty
between calls by `analyse_keeps_invariant` / `fresh_invariant` / `run_keeps_invariant`.

`StatefulTokenizer::reset` exists in two variants (`Recycle.ResetVariant`): `cur` = the tree as it was (only an
existing result path is cleared), `fix` = the repair (`get_or_insert_with(Vec::new).clear()`).  Theorems with a
parameter `v` hold for both.  For `fix` the property holds in full (`history_independent`, `failure_recoverable`,
`ok_analysis_collectable`, `run_history_independent`); for `cur` it is false (`top_path_none_counterexample`) and
only the `…_partial` statements ("result path present") hold.
-/
namespace C10
open Recycle

variable {E F : Type}

/-- **reset_establishes / history independence, core statement.**  Take ANY two tokenizer working states
(any lattice rows, any stale input tables, any scratch contents, any OOV scratch - e.g. the state after an
arbitrary history and a freshly created tokenizer) that have the same mode and effective field subset, whose
result path is present in both or absent in both, and that agree on the two drain-maintained buffers.  Then
analysing the same text gives the same outcome (Ok / which error / panic) and, when Ok, the same observable
result.  Hypothesis `OffsetsInRange`: the position loop stays below the lattice size (`mod_c2b` has one entry
per character + sentinel; a payload fact established by `InputBuffer::build`, C08). -/
theorem reset_establishes (v : ResetVariant) (P : Payload E) (t t' : Tok E) (text : List E)
    (hrep : t.input.replaces = t'.input.replaces) (hids : t.topPathIds = t'.topPathIds)
    (hpath : t.topPath.isSome = t'.topPath.isSome) (hs : t.subset = t'.subset) (hm : t.mode = t'.mode)
    (hlen : OffsetsInRange v P t text) :
    (t.analyse v P text).2 = (t'.analyse v P text).2 ∧
    ((t.analyse v P text).2 = .ok → ObsEq (t.analyse v P text).1 (t'.analyse v P text).1) :=
  analyse_congr v P t t' text hrep hids (fun _ => hpath) hs hm hlen

/-- **reset_establishes for the repaired `reset`**: the hypothesis on the result path is gone - `reset` itself
establishes it.  Any two working states with the same mode, effective subset and drain-maintained buffers. -/
theorem reset_establishes_fix (P : Payload E) (t t' : Tok E) (text : List E)
    (hrep : t.input.replaces = t'.input.replaces) (hids : t.topPathIds = t'.topPathIds)
    (hs : t.subset = t'.subset) (hm : t.mode = t'.mode) (hlen : OffsetsInRange .fix P t text) :
    (t.analyse .fix P text).2 = (t'.analyse .fix P text).2 ∧
    ((t.analyse .fix P text).2 = .ok → ObsEq (t.analyse .fix P text).1 (t'.analyse .fix P text).1) :=
  analyse_congr .fix P t t' text hrep hids (fun h => by cases h) hs hm hlen

/-- the invariant on the two buffers that `reset` leaves alone holds for a new tokenizer … -/
theorem fresh_invariant (m : Mode) (s : Option Subset) : Inv (Tok.freshFor (E := E) m s) := by
  cases s <;> exact ⟨rfl, rfl⟩

/-- … and is re-established by every analysis at every exit (Ok, `TooLong` at `start_build` or `commit`,
`Disconnect` in the loop or at EOS, error or panic after the path was taken), for both variants of `reset`. -/
theorem analyse_keeps_invariant (v : ResetVariant) (P : Payload E) (t : Tok E) (text : List E) (h : Inv t) :
    Inv (t.analyse v P text).1 :=
  analyse_inv v P t text h

/-- **the invariant over whole operation histories** (`World.run`): starting from a new tokenizer, after ANY
sequence of `set_mode`, `set_subset`, analyses (whatever their outcome), `collect_results` into any list
(also the panicking half-swap), new lists, `empty_clone`, `clear`, `split_into`, `lookup` (also failing) - each
with its own payload - the tokenizer satisfies `Inv` and so does every `InputPart` that a later
`collect_results` can swap into it.  Both variants of `reset`. -/
theorem run_keeps_invariant (v : ResetVariant) (m : Mode) (ops : List (Payload E × Op E)) :
    Inv ((World.init m).run v ops).tok ∧ ∀ p ∈ ((World.init m).run v ops).parts, p.input.replaces = [] :=
  run_inv v ops _ (WInv.init m)

/-- **history_independent** (for a tokenizer whose result path is present - see
`top_path_none_counterexample` for why this cannot be dropped).  A tokenizer in ANY working state `t` that
satisfies the invariant (every state reached by analyses does) reports for a text exactly what a tokenizer
created now with the same mode and the same effective subset reports.

Full statement of the property also covers `t.topPath = none` (after a failure behind `resolve_best_path`);
that part is `top_path_none_recovers` (non-empty normalised text) and is FALSE for an empty text. -/
theorem history_independent_partial (v : ResetVariant) (P : Payload E) (t : Tok E) (text : List E) (hinv : Inv t)
    (hpath : t.topPath.isSome = true) (hlen : OffsetsInRange v P t text) :
    let fresh : Tok E := { Tok.create t.mode with subset := t.subset }
    (t.analyse v P text).2 = (fresh.analyse v P text).2 ∧
    ((t.analyse v P text).2 = .ok → ObsEq (t.analyse v P text).1 (fresh.analyse v P text).1) := by
  intro fresh
  apply analyse_congr v P t fresh text
  · rw [hinv.2]; rfl
  · rw [hinv.1]; rfl
  · intro _; rw [hpath]; rfl
  · rfl
  · rfl
  · exact hlen

/-- **history_independent, FULL statement, for the repaired `reset`.**  A tokenizer in ANY working state `t` that
satisfies the drain invariant `Inv` (every state reached by any history does: `run_keeps_invariant`) - whatever
its lattice rows, tables, scratch buffers, and whether its result path is present or was taken by an analysis that
failed afterwards - reports for every text exactly what a tokenizer created now with the same mode and the same
effective subset reports: same outcome and, when Ok, the same observable result (path, buffers, subset, mode).
No hypothesis on `t.topPath`. -/
theorem history_independent (P : Payload E) (t : Tok E) (text : List E) (hinv : Inv t)
    (hlen : OffsetsInRange .fix P t text) :
    let fresh : Tok E := { Tok.create t.mode with subset := t.subset }
    (t.analyse .fix P text).2 = (fresh.analyse .fix P text).2 ∧
    ((t.analyse .fix P text).2 = .ok → ObsEq (t.analyse .fix P text).1 (fresh.analyse .fix P text).1) := by
  intro fresh
  apply analyse_congr .fix P t fresh text
  · rw [hinv.2]; rfl
  · rw [hinv.1]; rfl
  · intro h; cases h
  · rfl
  · rfl
  · exact hlen

/-- **history independence over whole histories, repaired `reset`** (`World.run` induction assembled with
`history_independent`).  Start from a new tokenizer, run ANY history of API calls (each with its own payload, any
outcomes); the tokenizer then analyses any text exactly as a tokenizer created now with the mode and effective
subset the history left. -/
theorem run_history_independent (m : Mode) (ops : List (Payload E × Op E)) (P : Payload E) (text : List E)
    (hlen : OffsetsInRange .fix P ((World.init m).run .fix ops).tok text) :
    let t := ((World.init m).run .fix ops).tok
    let fresh : Tok E := { Tok.create t.mode with subset := t.subset }
    (t.analyse .fix P text).2 = (fresh.analyse .fix P text).2 ∧
    ((t.analyse .fix P text).2 = .ok → ObsEq (t.analyse .fix P text).1 (fresh.analyse .fix P text).1) :=
  history_independent P _ text (run_inv .fix ops _ (WInv.init m)).1 hlen

/-- the same for the `reset` as it was: needs the result path to be present after the history -/
theorem run_history_independent_partial (v : ResetVariant) (m : Mode) (ops : List (Payload E × Op E)) (P : Payload E)
    (text : List E) (hpath : ((World.init m).run v ops).tok.topPath.isSome = true)
    (hlen : OffsetsInRange v P ((World.init m).run v ops).tok text) :
    let t := ((World.init m).run v ops).tok
    let fresh : Tok E := { Tok.create t.mode with subset := t.subset }
    (t.analyse v P text).2 = (fresh.analyse v P text).2 ∧
    ((t.analyse v P text).2 = .ok → ObsEq (t.analyse v P text).1 (fresh.analyse v P text).1) :=
  history_independent_partial v P _ text (run_inv v ops _ (WInv.init m)).1 hpath hlen

/-- **failure_recoverable, partial (both variants).**  After an analysis that failed with `TooLong` or `Disconnect`
(both are raised before the result path is taken) the tokenizer analyses the next text exactly as a new one. -/
theorem failure_recoverable_partial (v : ResetVariant) (P P' : Payload E) (t : Tok E) (bad text : List E) (e : Err)
    (he : e ≠ .other) (hinv : Inv t) (hpath : t.topPath.isSome = true) (hfail : (t.analyse v P bad).2 = .err e)
    (hlen : OffsetsInRange v P' (t.analyse v P bad).1 text) :
    let t1 := (t.analyse v P bad).1
    let fresh : Tok E := { Tok.create t1.mode with subset := t1.subset }
    (t1.analyse v P' text).2 = (fresh.analyse v P' text).2 ∧
    ((t1.analyse v P' text).2 = .ok → ObsEq (t1.analyse v P' text).1 (fresh.analyse v P' text).1) := by
  intro t1 fresh
  have hp : t1.topPath.isSome = true := by
    show (t.analyse v P bad).1.topPath.isSome = true
    rw [analyse_err_keeps_path v P t bad e he hfail]; exact resetPath_isSome v _ hpath
  exact history_independent_partial v P' t1 text (analyse_inv v P t bad hinv) hp hlen

/-- **failure_recoverable, FULL statement, for the repaired `reset`.**  After an analysis that failed in ANY way -
`TooLong` at `start_build` or inside `commit`, an input-plugin error, `Disconnect` in the loop or at EOS, and also
an `Err` or a panic AFTER `resolve_best_path` took the result path (word-info error, path-rewrite plugin error,
panic in `split_path`) - the tokenizer, whatever state it was in before, analyses the next text exactly as a new
one with the same mode and effective subset.  No hypothesis on the path, before or after the failure. -/
theorem failure_recoverable (P P' : Payload E) (t : Tok E) (bad text : List E) (hinv : Inv t)
    (_hfail : (t.analyse .fix P bad).2 ≠ .ok) (hlen : OffsetsInRange .fix P' (t.analyse .fix P bad).1 text) :
    let t1 := (t.analyse .fix P bad).1
    let fresh : Tok E := { Tok.create t1.mode with subset := t1.subset }
    (t1.analyse .fix P' text).2 = (fresh.analyse .fix P' text).2 ∧
    ((t1.analyse .fix P' text).2 = .ok → ObsEq (t1.analyse .fix P' text).1 (fresh.analyse .fix P' text).1) :=
  history_independent P' _ text (analyse_inv .fix P t bad hinv) hlen

/-- **an Ok analysis can always be collected (repaired `reset`).**  Whatever state the tokenizer is in (result
path taken or not), an analysis that returns Ok leaves a result path, so `collect_results` into any list does not
panic (`self.top_path.as_mut().unwrap()` in `swap_result`).  This is the clause the `reset` as it was violates
(`top_path_none_counterexample`). -/
theorem ok_analysis_collectable (P : Payload E) (w : World E) (text : List E) (j : Nat)
    (hok : (w.step .fix P (.analyse text)).2 = .ok) :
    (w.step .fix P (.analyse text)).1.tok.topPath.isSome = true ∧
    ((w.step .fix P (.analyse text)).1.collect j).2 = .ok := by
  have hp : (w.tok.analyse .fix P text).1.topPath.isSome = true := analyse_ok_path .fix P w.tok text rfl hok
  refine ⟨hp, ?_⟩
  show (World.collect { w with tok := (w.tok.analyse .fix P text).1 } j).2 = .ok
  unfold World.collect
  dsimp only
  split
  · rfl
  · split
    · rfl
    · split
      · rename_i hnone
        rw [hnone] at hp; cases hp
      · rfl

/-- mode and effective subset are changed by `set_mode` / `set_subset` only: an analysis, whatever its outcome
and for both variants of `reset`, keeps them (so "the same mode and effective subset" in the statements above is
what the last `set_mode` / `set_subset` left) -/
theorem analyse_keeps_mode_subset (v : ResetVariant) (P : Payload E) (t : Tok E) (text : List E) :
    (t.analyse v P text).1.mode = t.mode ∧ (t.analyse v P text).1.subset = t.subset :=
  analyse_mode_subset v P t text

/-- **lattice_reset_clears_all_rows.**  `Lattice::reset` empties EVERY allocated row of the three parallel
vectors - also those at or above the new `size` - except for the BOS entry of `ends[0]`; no row is dropped. -/
theorem lattice_reset_clears_all_rows (P : Payload E) (l : Lattice E) (n k : Nat) :
    rowAt (Lattice.reset P l n).ends k = (if k = 0 then [P.bos] else []) ∧
    rowAt (Lattice.reset P l n).endsFull k = [] ∧
    rowAt (Lattice.reset P l n).indices k = [] ∧
    (Lattice.reset P l n).ends.length = max l.ends.length (n + 1) ∧
    (Lattice.reset P l n).size = n + 1 ∧ (Lattice.reset P l n).eos = none := by
  refine ⟨?_, rowAt_of_all_nil _ (resetVec_all_nil _ _) k, rowAt_of_all_nil _ (resetVec_all_nil _ _) k, ?_, rfl, rfl⟩
  · show rowAt (pushRow (resetVec l.ends (n + 1)) 0 P.bos) k = _
    by_cases hk : k = 0
    · subst hk
      have hlen := resetVec_length l.ends (n + 1)
      have hnil := resetVec_all_nil l.ends (n + 1)
      cases hr : resetVec l.ends (n + 1) with
      | nil => rw [hr] at hlen; simp at hlen; omega
      | cons r rs =>
        rw [hr] at hnil
        have : r = [] := hnil r (by simp)
        simp [pushRow, rowAt, this]
    · rw [rowAt_pushRow_ne _ _ _ _ hk, rowAt_of_all_nil _ (resetVec_all_nil _ _)]
      simp [hk]
  · show (pushRow (resetVec l.ends (n + 1)) 0 P.bos).length = _
    rw [pushRow_length, resetVec_length]

/-- the visible part of the lattice after `reset` is the same whatever the lattice held before -/
theorem lattice_reset_history_free (P : Payload E) (l l' : Lattice E) (n : Nat) :
    (Lattice.reset P l n).vis = (Lattice.reset P l' n).vis := by
  rw [Lattice.reset_vis, Lattice.reset_vis]

/-- **m2o_2 / modified_2 self-cleaning.**  The two buffers `InputBuffer::reset` deliberately skips never
influence an analysis: two buffers that differ only there have the same outcome of
`start_build; rewrite_input; build` and afterwards agree on every field but the private scratch string. -/
theorem scratch_buffers_self_cleaning (P : Payload E) (i : Input E) (junk2 junkMap : List E) :
    (Input.prepare P { i with modified2 := junk2, m2o2 := junkMap }).2 = (Input.prepare P i).2 ∧
    ((Input.prepare P i).2 = .ok →
      (Input.prepare P { i with modified2 := junk2, m2o2 := junkMap }).1.view = (Input.prepare P i).1.view) := by
  have h := Input.editView_prepare P { i with modified2 := junk2, m2o2 := junkMap } i rfl
  exact ⟨h.1, fun hok => h.2.2 (by rw [h.1]; exact hok)⟩

/-- **top_path_none_recovers.**  When the previous analysis failed after the path was taken (`top_path` is
`None`), an analysis that reaches `resolve_best_path` (non-empty normalised text) behaves exactly as with a
present, cleared path: `unwrap_or_else(Vec::new)` re-creates it. -/
theorem top_path_none_recovers (P : Payload E) (t : Tok E) :
    Tok.resolveAndRewrite P { t with topPath := none } = Tok.resolveAndRewrite P { t with topPath := some [] } := rfl

/-- `collect_results` moves exactly the tokenizer's path, input buffer and subset into the list, whatever
the list held (reused or cross-used list): nothing of the list's previous content survives in it. -/
theorem collect_transfers (w : World E) (j : Nat) (L : MList E) (p : Part E) (path : List E)
    (hL : w.lists[j]? = some L) (hp : w.parts[L.part]? = some p) (ht : w.tok.topPath = some path) :
    (w.collect j).2 = .ok ∧
    (w.collect j).1.lists = w.lists.set j { L with nodes := path } ∧
    (w.collect j).1.parts = w.parts.set L.part ⟨w.tok.input, w.tok.subset⟩ ∧
    (w.collect j).1.tok.input = p.input ∧ (w.collect j).1.tok.topPath = some L.nodes := by
  unfold World.collect
  simp [hL, hp, ht]


/-! ### the OBSERVABLE result (morpheme list) is a function of (text, mode, field request) -/

/-- **effective_subset_covers_request** (the design's `subset_monotone`, corrected).  After ANY history (both
variants of `reset`) the tokenizer's effective field subset, closed under `InfoSubset::normalize`, contains the subset
of a tokenizer created now with the current mode and the last field request.  Without the closure this is false
(`subset_monotone_counterexample`: `HEAD_WORD_LENGTH`). -/
theorem effective_subset_covers_request (v : ResetVariant) (m : Mode) (ops : List (Payload E × Op E)) :
    let w := (World.init m).run v ops
    Subset.le (freshSubset w.tok.mode w.request) w.tok.subset.normalize = true :=
  run_covers v ops _ (Covers.init m)

/-- **history_independent_requested_fields** (repaired `reset`, tokenizer level).  A tokenizer in ANY working
state with the drain invariant versus a tokenizer created NOW for the same mode and the field request `req` - the
two may run with DIFFERENT effective subsets (earlier `set_mode` calls leave extra fields loaded).  If the payload
cannot tell the two subsets apart through the projection `proj` onto the requested fields (`FieldsFree` = C11's
`subset_fields_eq` as a hypothesis on the path phase), every text gives the same outcome and, when Ok, the same
result path seen through `proj`, the same input buffer and mode. -/
theorem history_independent_requested_fields (P : Payload E) (proj : E → F) (t : Tok E) (req : Option Subset)
    (text : List E) (hinv : Inv t) (hlen : OffsetsInRange .fix P t text)
    (hfree : FieldsFree P proj t.subset (freshSubset t.mode req)) :
    (t.analyse .fix P text).2 = ((Tok.freshFor t.mode req).analyse .fix P text).2 ∧
    ((t.analyse .fix P text).2 = .ok →
      ObsP proj (t.analyse .fix P text).1 ((Tok.freshFor t.mode req).analyse .fix P text).1) :=
  analyse_vs_freshFor P proj t req text hinv hlen (by rw [freshSubset_eq]; exact hfree)

/-- **observable_result_history_free** - FULL statement of the property for the repaired `reset`.  Start from a new
tokenizer, run ANY history (set_mode / set_subset sequences, analyses that are Ok, empty, rejected as too long,
disconnected, failing or panicking after the path was taken, `collect_results` with its buffer swaps into reused and
cross-used lists, new lists, clones, clear, `split_into` and `lookup` on result lists - each with its own payload).
Then analyse `text` and collect into ANY existing list `j`.  Compare with: a tokenizer created now for the mode and
the LAST FIELD REQUEST the history left (`World.fresh`), one new list, the same analysis, collect.  The outcomes are
equal and, when Ok, both collects succeed and what the caller reads - the morphemes of the list seen through
`proj` (ranges, word ids, requested fields) and the input buffer they refer to (surface, offsets) - is THE SAME:
a function of (payload = dictionary + text, mode, request) alone.

Hypotheses: `hj` the list exists; `OffsetsInRange` (as before); `hfree` = C11 for this payload: any subset that
covers the fresh tokenizer's subset is indistinguishable from it through `proj`.  That the history's effective
subset does cover it is PROVED (`effective_subset_covers_request`), not assumed. -/
theorem observable_result_history_free (proj : E → F) (m0 : Mode) (ops : List (Payload E × Op E)) (P : Payload E)
    (text : List E) (j : Nat)
    (hj : j < ((World.init m0).run .fix ops).lists.length)
    (hlen : OffsetsInRange .fix P ((World.init m0).run .fix ops).tok text)
    (hfree : ∀ s, Subset.le (freshSubset ((World.init m0).run .fix ops).tok.mode ((World.init m0).run .fix ops).request)
        s.normalize = true →
      FieldsFree P proj s (freshSubset ((World.init m0).run .fix ops).tok.mode ((World.init m0).run .fix ops).request)) :
    let w := (World.init m0).run .fix ops
    let a := w.step .fix P (.analyse text)
    let f : World E := ((World.fresh w.tok.mode w.request).step .fix P .newList).1
    let b := f.step .fix P (.analyse text)
    a.2 = b.2 ∧
    (a.2 = .ok → (a.1.collect j).2 = .ok ∧ (b.1.collect 0).2 = .ok ∧
      World.result proj (a.1.collect j).1 j = World.result proj (b.1.collect 0).1 0) := by
  intro w
  have hinv := (run_inv .fix ops _ (WInv.init m0)).1
  have hcov := run_covers .fix ops _ (Covers.init (E := E) m0)
  have hok := run_listsOk .fix ops _ (ListsOk.init (E := E) m0)
  have h := history_independent_requested_fields P proj w.tok w.request text hinv hlen (hfree w.tok.subset hcov)
  exact result_eq_of_obs proj P w (Tok.freshFor w.tok.mode w.request) w.request text j hj hok h.1 h.2

/-- **observable_result_same_subset** - the same WITHOUT any payload hypothesis, when the comparison tokenizer is
given the history's effective subset: for every projection (in particular the identity: the nodes themselves). -/
theorem observable_result_same_subset (proj : E → F) (m0 : Mode) (ops : List (Payload E × Op E)) (P : Payload E)
    (text : List E) (j : Nat)
    (hj : j < ((World.init m0).run .fix ops).lists.length)
    (hlen : OffsetsInRange .fix P ((World.init m0).run .fix ops).tok text) :
    let w := (World.init m0).run .fix ops
    let a := w.step .fix P (.analyse text)
    let f : World E := ((⟨{ Tok.create w.tok.mode with subset := w.tok.subset }, [], [], w.request⟩ : World E).step
      .fix P .newList).1
    let b := f.step .fix P (.analyse text)
    a.2 = b.2 ∧
    (a.2 = .ok → (a.1.collect j).2 = .ok ∧ (b.1.collect 0).2 = .ok ∧
      World.result proj (a.1.collect j).1 j = World.result proj (b.1.collect 0).1 0) := by
  intro w
  have hinv := (run_inv .fix ops _ (WInv.init m0)).1
  have hok := run_listsOk .fix ops _ (ListsOk.init (E := E) m0)
  have h := history_independent P w.tok text hinv hlen
  refine result_eq_of_obs proj P w _ w.request text j hj hok h.1 (fun hk => ?_)
  obtain ⟨a1, a2, -, a4⟩ := h.2 hk
  exact ⟨by rw [a1], a2, a4⟩



/-! ### the lift to the CONCRETE pipeline: `Recycle` instantiated with the phases of `Total.tokenize`

`RecycleTotal.payload v lv D` (`Model/RecycleTotal.lean`) fills the recycled buffers with what the phases of
`Total.tokenize v lv (D.cfg mode subset)` compute (start_build, plugin stack + commit, build, one position of build_lattice,
connect_node, connect_eos, fill_top_path, resolve_best_path, word info + rewrite stage, split_path).  The payload hypotheses
of the generic theorems are DISCHARGED for it (`RecycleTotal.payload_offsetsInRange`) or reduced to the one place where the
field subset reaches the pipeline (`RecycleTotal.payload_fieldsFree` from `RewriteFree`, C11's statement for the split
fields).  `RecycleTotal.report w j` = what a caller reads from list `j` as `Total`-level data (node ranges, offset tables). -/

open RecycleTotal in
/-- **concrete_tokenizer_history_free** - the property for the concrete pipeline.  `D` any configuration (input-text plugin
stack, buffer builder, OOV provider stack, lexicon, connection matrix, word-info/rewrite stage), `v`/`lv` the probed code
variants.  Start from a new tokenizer, run ANY history (`World.run`: set_mode / set_subset, analyses with any outcome,
collects into reused and cross-used lists, new lists, clones, clear, split_into, lookup - each call with ANY payload, in
particular the concrete payload of any other configuration), leaving the tokenizer in some mode with some last field request
(the probe's mode and subset are the last `set_mode` / `set_subset` of the history).  Then analyse `text` with the concrete
pipeline and collect into ANY existing list `j`; compare with a tokenizer created NOW for that mode and request and one new
list.  Same outcome and, when Ok, both collects succeed and the morphemes and offset tables the two lists report are EQUAL.
The only hypothesis left on the configuration is `hfree` (C11): the word-info/rewrite stage gives the same ranges and unit
lengths for every subset covering the requested one.  `OffsetsInRange` is proved for the instance. -/
theorem concrete_tokenizer_history_free (v : Total.SplitV) (lv : EditM.LenV) (D : Dict) (m0 : Mode)
    (ops : List (Payload Elem × Op Elem)) (text : List Nat) (j : Nat)
    (hj : j < ((World.init m0).run .fix ops).lists.length)
    (hfree : ∀ s, Subset.le (freshSubset ((World.init m0).run .fix ops).tok.mode ((World.init m0).run .fix ops).request)
        s.normalize = true →
      RewriteFree D s (freshSubset ((World.init m0).run .fix ops).tok.mode ((World.init m0).run .fix ops).request)) :
    let w := (World.init m0).run .fix ops
    let P := payload v lv D
    let a := w.step .fix P (.analyse (text.map .nat))
    let f : World Elem := ((World.fresh w.tok.mode w.request).step .fix P .newList).1
    let b := f.step .fix P (.analyse (text.map .nat))
    a.2 = b.2 ∧
    (a.2 = .ok → (a.1.collect j).2 = .ok ∧ (b.1.collect 0).2 = .ok ∧
      report (a.1.collect j).1 j = report (b.1.collect 0).1 0) := by
  intro w P a f b
  have h := observable_result_history_free (id : Elem → Elem) m0 ops P (text.map .nat) j hj
    (payload_offsetsInRange .fix v lv D _ _) (fun s hs => payload_fieldsFree v lv D id s _ (hfree s hs))
  refine ⟨h.1, fun hok => ?_⟩
  obtain ⟨h1, h2, h3⟩ := h.2 hok
  refine ⟨h1, h2, ?_⟩
  unfold report
  rw [h3]

open RecycleTotal in
/-- **history_reports_new** - core of the lift: if the analysis of `text` on a NEW tokenizer (mode the history left, subset of
a tokenizer created now for the last request; `RecycleTotal.analyseNew`) is Ok and decodes to morphemes `ms` and tables `tb`,
then after ANY history the analysis on the recycled tokenizer is Ok, collecting into ANY existing list succeeds, and that list
reports exactly `ms` and `tb`. -/
theorem history_reports_new (v : Total.SplitV) (lv : EditM.LenV) (D : Dict) (m0 : Mode)
    (ops : List (Payload Elem × Op Elem)) (text : List Nat) (j : Nat)
    (hj : j < ((World.init m0).run .fix ops).lists.length)
    (hfree : ∀ s, Subset.le (freshSubset ((World.init m0).run .fix ops).tok.mode ((World.init m0).run .fix ops).request)
        s.normalize = true →
      RewriteFree D s (freshSubset ((World.init m0).run .fix ops).tok.mode ((World.init m0).run .fix ops).request))
    (r : Total.Result)
    (hnew : (analyseNew v lv D ((World.init m0).run .fix ops).tok.mode
        (freshSubset ((World.init m0).run .fix ops).tok.mode ((World.init m0).run .fix ops).request) text).2 = .ok ∧
      morphsOf (analyseNew v lv D ((World.init m0).run .fix ops).tok.mode
        (freshSubset ((World.init m0).run .fix ops).tok.mode ((World.init m0).run .fix ops).request) text).1 = some r.morphs ∧
      tablesOf (analyseNew v lv D ((World.init m0).run .fix ops).tok.mode
        (freshSubset ((World.init m0).run .fix ops).tok.mode ((World.init m0).run .fix ops).request) text).1.input = r.tables) :
    let w := (World.init m0).run .fix ops
    let a := w.step .fix (payload v lv D) (.analyse (text.map .nat))
    a.2 = .ok ∧ (a.1.collect j).2 = .ok ∧ report (a.1.collect j).1 j = some (r.morphs, r.tables) := by
  intro w a
  have hinv := (run_inv .fix ops _ (WInv.init m0)).1
  have hcov := run_covers .fix ops _ (Covers.init (E := Elem) m0)
  have hok := run_listsOk .fix ops _ (ListsOk.init (E := Elem) m0)
  have h := history_independent_requested_fields (payload v lv D) (id : Elem → Elem) w.tok w.request (text.map .nat) hinv
    (payload_offsetsInRange .fix v lv D _ _) (payload_fieldsFree v lv D id _ _ (hfree w.tok.subset hcov))
  rw [newTok_eq_freshFor] at h
  obtain ⟨b1, b2, b3⟩ := hnew
  have haok : (w.tok.analyse .fix (payload v lv D) (text.map .nat)).2 = .ok := h.1.trans b1
  obtain ⟨o1, o2, -⟩ := h.2 haok
  have hpa := analyse_ok_path .fix (payload v lv D) w.tok (text.map .nat) rfl haok
  have ra := analyse_collect_result .fix (id : Elem → Elem) (payload v lv D) w (text.map .nat) j hj hok hpa
  refine ⟨haok, ra.1, ?_⟩
  unfold report
  rw [ra.2]
  simp only [Option.map_some]
  rw [getD_map_of_obs id _ _ o1, o2]
  unfold morphsOf at b2
  unfold analyseNew at b2 b3
  cases hp : ((newTok w.tok.mode (freshSubset w.tok.mode w.request)).analyse .fix (payload v lv D) (text.map .nat)).1.topPath with
  | none => rw [hp] at b2; cases b2
  | some p =>
    rw [hp] at b2
    simp only [Option.map_some, Option.some.injEq] at b2
    simp only [Option.getD_some, List.map_id, b2]
    show some (r.morphs, tablesOf _) = _
    rw [show ∀ i : Input Elem, tablesOf i.view = tablesOf i from fun _ => rfl, b3]

open RecycleTotal in
/-- **history_reports_tokenize** - FULL: the recycled objects report what `Total.tokenize` computes.  After ANY history,
whenever `Total.tokenize` - for the mode the history left and the subset of a tokenizer created now for the last field request -
returns a result `r` for `text`, the analysis on the recycled tokenizer is Ok, collecting into ANY existing list succeeds, and
that list reports exactly `r.morphs` and `r.tables`.  No bridge hypothesis: `RecycleTotal.bridge_ok_general` PROVES that the
discipline model with the concrete payload on a new tokenizer computes `Total.tokenize`'s result, for every configuration
satisfying `ConfigOk` (committed batches ≤ 65 535 bytes; well-formed buffer over the given characters). -/
theorem history_reports_tokenize (v : Total.SplitV) (lv : EditM.LenV) (D : Dict) (m0 : Mode)
    (ops : List (Payload Elem × Op Elem)) (text : List Nat) (j : Nat)
    (hj : j < ((World.init m0).run .fix ops).lists.length)
    (hfree : ∀ s, Subset.le (freshSubset ((World.init m0).run .fix ops).tok.mode ((World.init m0).run .fix ops).request)
        s.normalize = true →
      RewriteFree D s (freshSubset ((World.init m0).run .fix ops).tok.mode ((World.init m0).run .fix ops).request))
    (hcfg : ConfigOk lv D text)
    (r : Total.Result)
    (htok : Total.tokenize v lv (D.cfg ((World.init m0).run .fix ops).tok.mode
      (freshSubset ((World.init m0).run .fix ops).tok.mode ((World.init m0).run .fix ops).request)) text = .ok r) :
    let w := (World.init m0).run .fix ops
    let a := w.step .fix (payload v lv D) (.analyse (text.map .nat))
    a.2 = .ok ∧ (a.1.collect j).2 = .ok ∧ report (a.1.collect j).1 j = some (r.morphs, r.tables) :=
  history_reports_new v lv D m0 ops text j hj hfree r (bridge_ok_of_config v lv D _ _ text hcfg r htok)

open RecycleTotal in
/-- the same from the Boolean `Bridge` (what the driver evaluates on every analysis of every `hpipe` line) instead of
`ConfigOk` -/
theorem history_reports_tokenize_of_bridge (v : Total.SplitV) (lv : EditM.LenV) (D : Dict) (m0 : Mode)
    (ops : List (Payload Elem × Op Elem)) (text : List Nat) (j : Nat)
    (hj : j < ((World.init m0).run .fix ops).lists.length)
    (hfree : ∀ s, Subset.le (freshSubset ((World.init m0).run .fix ops).tok.mode ((World.init m0).run .fix ops).request)
        s.normalize = true →
      RewriteFree D s (freshSubset ((World.init m0).run .fix ops).tok.mode ((World.init m0).run .fix ops).request))
    (hbridge : Bridge v lv D ((World.init m0).run .fix ops).tok.mode
      (freshSubset ((World.init m0).run .fix ops).tok.mode ((World.init m0).run .fix ops).request) text)
    (r : Total.Result)
    (htok : Total.tokenize v lv (D.cfg ((World.init m0).run .fix ops).tok.mode
      (freshSubset ((World.init m0).run .fix ops).tok.mode ((World.init m0).run .fix ops).request)) text = .ok r) :
    let w := (World.init m0).run .fix ops
    let a := w.step .fix (payload v lv D) (.analyse (text.map .nat))
    a.2 = .ok ∧ (a.1.collect j).2 = .ok ∧ report (a.1.collect j).1 j = some (r.morphs, r.tables) :=
  history_reports_new v lv D m0 ops text j hj hfree r (bridge_ok v lv D _ _ text hbridge r htok)

open RecycleTotal in
/-- **history_outcome_is_tokenize** - the OUTCOME side of the lift (C03's subject): after ANY history the analysis of `text`
on the recycled tokenizer ends in the outcome class of `Total.tokenize` for the mode the history left and the subset of a
tokenizer created now - Ok, `InputTooLong`, `EosBosDisconnect`, another `Err`, or a panic - so "`Total.tokenize` does not
panic / succeeds within the limits" (C03 `tokenize_total`) transfers to every analysis of every history.  Same hypotheses
as `history_reports_tokenize`. -/
theorem history_outcome_is_tokenize (v : Total.SplitV) (lv : EditM.LenV) (D : Dict) (m0 : Mode)
    (ops : List (Payload Elem × Op Elem)) (text : List Nat)
    (hfree : ∀ s, Subset.le (freshSubset ((World.init m0).run .fix ops).tok.mode ((World.init m0).run .fix ops).request)
        s.normalize = true →
      RewriteFree D s (freshSubset ((World.init m0).run .fix ops).tok.mode ((World.init m0).run .fix ops).request))
    (hbridge : Bridge v lv D ((World.init m0).run .fix ops).tok.mode
      (freshSubset ((World.init m0).run .fix ops).tok.mode ((World.init m0).run .fix ops).request) text) :
    let w := (World.init m0).run .fix ops
    (w.step .fix (payload v lv D) (.analyse (text.map .nat))).2 =
      classOf (Total.tokenize v lv (D.cfg w.tok.mode (freshSubset w.tok.mode w.request)) text) := by
  intro w
  have hinv := (run_inv .fix ops _ (WInv.init m0)).1
  have hcov := run_covers .fix ops _ (Covers.init (E := Elem) m0)
  have h := history_independent_requested_fields (payload v lv D) (id : Elem → Elem) w.tok w.request (text.map .nat) hinv
    (payload_offsetsInRange .fix v lv D _ _) (payload_fieldsFree v lv D id _ _ (hfree w.tok.subset hcov))
  rw [newTok_eq_freshFor] at h
  show (w.tok.analyse .fix (payload v lv D) (text.map .nat)).2 = _
  rw [h.1]
  cases ht : Total.tokenize v lv (D.cfg w.tok.mode (freshSubset w.tok.mode w.request)) text with
  | ok r => exact (bridge_ok v lv D _ _ text hbridge r ht).1
  | err k =>
    have := bridge_fail v lv D _ _ text hbridge (fun r hr => by rw [ht] at hr; cases hr)
    rw [ht] at this; exact this
  | panic wh =>
    have := bridge_fail v lv D _ _ text hbridge (fun r hr => by rw [ht] at hr; cases hr)
    rw [ht] at this; exact this

open RecycleTotal in
/-- **recycled_too_long_rejected** - an instance of the lift WITHOUT the bridge hypothesis (`RecycleTotal.bridge_tooLong` proves
it for every configuration): after ANY history, whatever the recycled buffers hold, a text above 49 149 bytes is rejected with
`InputTooLong` by the concrete pipeline - as `Total.tokenize` and a new tokenizer do. -/
theorem recycled_too_long_rejected (v : Total.SplitV) (lv : EditM.LenV) (D : Dict) (m0 : Mode)
    (ops : List (Payload Elem × Op Elem)) (text : List Nat) (hlong : text.length > EditM.MAX_LENGTH)
    (hfree : ∀ s, Subset.le (freshSubset ((World.init m0).run .fix ops).tok.mode ((World.init m0).run .fix ops).request)
        s.normalize = true →
      RewriteFree D s (freshSubset ((World.init m0).run .fix ops).tok.mode ((World.init m0).run .fix ops).request)) :
    (((World.init m0).run .fix ops).step .fix (payload v lv D) (.analyse (text.map .nat))).2 = .err .tooLong := by
  have h := history_outcome_is_tokenize v lv D m0 ops text hfree (bridge_tooLong v lv D _ _ text hlong)
  simp only at h
  rw [h]
  have ht : ∀ m s, Total.tokenize v lv (D.cfg m s) text = .err "TooLong" := by
    intro m s
    unfold Total.tokenize EditM.startBuild
    rw [if_pos hlong]
  rw [ht]
  decide

open RecycleTotal in
/-- **lifted** - the corollary schema.  ANY predicate `Φ` of (configuration, mode, text, result) that holds of
`Total.tokenize` - i.e. of one analysis on a new tokenizer - holds of what EVERY analysis in EVERY history reports: the
theorems stated for one analysis (C01 `tokens_partition_original`, C02 optimality, C03 totality of the accessors, C07, C09,
C13, C14 as far as they speak about `Total.tokenize`'s result) transfer verbatim to long-lived tokenizers and reused lists. -/
theorem lifted (Φ : Total.Cfg → Mode → List Nat → Total.Result → Prop)
    (v : Total.SplitV) (lv : EditM.LenV) (D : Dict) (m0 : Mode)
    (ops : List (Payload Elem × Op Elem)) (text : List Nat) (j : Nat)
    (hj : j < ((World.init m0).run .fix ops).lists.length)
    (hfree : ∀ s, Subset.le (freshSubset ((World.init m0).run .fix ops).tok.mode ((World.init m0).run .fix ops).request)
        s.normalize = true →
      RewriteFree D s (freshSubset ((World.init m0).run .fix ops).tok.mode ((World.init m0).run .fix ops).request))
    (hcfg : ConfigOk lv D text)
    (hΦ : ∀ r, Total.tokenize v lv (D.cfg ((World.init m0).run .fix ops).tok.mode
        (freshSubset ((World.init m0).run .fix ops).tok.mode ((World.init m0).run .fix ops).request)) text = .ok r →
      Φ (D.cfg ((World.init m0).run .fix ops).tok.mode
        (freshSubset ((World.init m0).run .fix ops).tok.mode ((World.init m0).run .fix ops).request))
        ((World.init m0).run .fix ops).tok.mode text r)
    (r : Total.Result)
    (htok : Total.tokenize v lv (D.cfg ((World.init m0).run .fix ops).tok.mode
      (freshSubset ((World.init m0).run .fix ops).tok.mode ((World.init m0).run .fix ops).request)) text = .ok r) :
    let w := (World.init m0).run .fix ops
    let a := w.step .fix (payload v lv D) (.analyse (text.map .nat))
    a.2 = .ok ∧ (a.1.collect j).2 = .ok ∧
    ∃ ms tb, report (a.1.collect j).1 j = some (ms, tb) ∧
      Φ (D.cfg w.tok.mode (freshSubset w.tok.mode w.request)) w.tok.mode text ⟨tb, ms⟩ := by
  intro w a
  obtain ⟨h1, h2, h3⟩ := history_reports_tokenize v lv D m0 ops text j hj hfree hcfg r htok
  exact ⟨h1, h2, r.morphs, r.tables, h3, hΦ r htok⟩

open RecycleTotal Total Partition Oov EditM in
/-- **recycled_tokens_partition_original** - `lifted` at C01: after ANY history, the morphemes a reused list reports for a
text are a partition of the ORIGINAL text with every accessor defined (the conclusion of `C01.tokens_partition_original`,
under its hypotheses on the configuration `D.cfg mode subset`), whenever the pipeline returns a result for the text. -/
theorem recycled_tokens_partition_original (lv : LenV) (D : Dict) (m0 : Recycle.Mode)
    (ops : List (Payload Elem × Op Elem)) (orig : List Nat) (j : Nat)
    (hj : j < ((World.init m0).run .fix ops).lists.length)
    (hfree : ∀ s, Subset.le (freshSubset ((World.init m0).run .fix ops).tok.mode ((World.init m0).run .fix ops).request)
        s.normalize = true →
      RewriteFree D s (freshSubset ((World.init m0).run .fix ops).tok.mode ((World.init m0).run .fix ops).request))
    (hshort : ∀ l0, startBuild orig = some l0 → ShortRun lv D.inputPlugins l0)
    (cfg : Cfg)
    (hcfg : cfg = D.cfg ((World.init m0).run .fix ops).tok.mode
      (freshSubset ((World.init m0).run .fix ops).tok.mode ((World.init m0).run .fix ops).request))
    (horig : BoOf orig 0)
    (hplug : ∀ p ∈ cfg.inputPlugins, PluginOk orig p)
    (hutf : ∀ l0 l chars, startBuild orig = some l0 → rewriteInput lv cfg.inputPlugins l0 = .ok l →
      Wire.utf8Decode (textOf l) = some chars → chars.length = nchars (textOf l))
    (rvar : Oov.Variant) (bowFix : Bool) (tab : List (Nat × Nat))
    (hmk : ∀ chars, Oov.mkBufV rvar bowFix tab chars = some (cfg.mkBuf chars))
    (hrowsz : ∀ chars nodes, Reaches lv cfg orig chars → Oov.buildLattice cfg.providers cfg.lex (cfg.mkBuf chars) = .ok nodes →
      ∀ e, (nodes.map toVit).countP (fun n => n.e == e) ≤ 4294967295)
    (hrew : ∀ (tb2c tc2b : List Nat) (nc nb : Nat) path path', PathOk tb2c tc2b nc nb path → cfg.rewrite path = .ok path' →
      PathOk tb2c tc2b nc nb (path'.map (·.1)))
    (r : Result) (h : tokenize .d6fix lv cfg orig = .ok r) :
    let w := (World.init m0).run .fix ops
    let a := w.step .fix (payload .d6fix lv D) (.analyse (orig.map .nat))
    a.2 = .ok ∧ (a.1.collect j).2 = .ok ∧
    ∃ ms tb, report (a.1.collect j).1 j = some (ms, tb) ∧
      ((textOf tb = [] ∧ ms = []) ∨
       (textOf tb ≠ [] ∧ ms ≠ [] ∧ ∃ acs, accessAll orig ⟨tb, ms⟩ = .ok acs ∧
         IsPartition orig (acs.map (fun a => (a.b, a.e))) ∧
         ∀ a ∈ acs, a.sb = a.b ∧ a.se = a.e ∧ a.bc = nchars (orig.take a.b) ∧ a.ec = nchars (orig.take a.e))) := by
  intro w a
  subst hcfg
  have hc : ConfigOk lv D orig :=
    ⟨hshort, fun chars => (mkBufV_ok rvar bowFix tab chars _ (hmk chars)).1,
     fun chars => (mkBufV_ok rvar bowFix tab chars _ (hmk chars)).2.2⟩
  obtain ⟨h1, h2, h3⟩ := history_reports_tokenize .d6fix lv D m0 ops orig j hj hfree hc r h
  refine ⟨h1, h2, r.morphs, r.tables, h3, ?_⟩
  exact C01.tokens_partition_original lv _ orig horig hplug hutf rvar bowFix tab hmk hrowsz hrew r h


/-! #### non-vacuity of the hypotheses of the concrete theorems -/

/-- a configuration whose word-info stage is NOT independent of the field subset: a two-character token gets its A units
only when the split field is loaded -/
def tinyDict : RecycleTotal.Dict :=
  { inputPlugins := [], mkBuf := fun cs => ⟨cs, cs.map (fun _ => 1), cs.map (fun _ => 1), cs.map (fun _ => true)⟩,
    providers := [.simple ⟨0, 0, 100, 0⟩],
    lex := [⟨[97], 0, 0, 5⟩, ⟨[97, 98], 0, 0, 5⟩], conn := fun _ _ => 10,
    rewrite := fun m s p => .ok (p.map (fun n => (n, if m = .A ∧ s.splitA = true ∧ n.ec = n.bc + 2 then [1, 1] else []))) }

open RecycleTotal in
/-- `hj`, `hfree`, `hbridge`, `htok` of `concrete_tokenizer_history_free` / `history_reports_tokenize(_of_bridge)` /
`history_outcome_is_tokenize` / `lifted` hold
together on the history of `subset_monotone_counterexample` (`new list; set_subset(POS); set_mode(A)`): the list exists;
EVERY subset covering the fresh tokenizer's has the split field, so the stage cannot tell it from the fresh one (`hfree`) -
although the stage does distinguish subsets in general; the bridge holds for the probe (here the empty text; a text with a lattice is the next example, and the
driver evaluates `bridgeHolds` on every analysis of every `hpipe` line); `Total.tokenize` returns a result. -/
example :
    let P := payload .d6fix .final tinyDict
    let ops : List (Payload Elem × Op Elem) :=
      [(P, .newList), (P, .setSubset { Subset.empty with pos := true }), (P, .setMode .A)]
    let w := (World.init .C).run .fix ops
    0 < w.lists.length ∧ w.tok.subset ≠ freshSubset w.tok.mode w.request ∧
    (∀ s, Subset.le (freshSubset w.tok.mode w.request) s.normalize = true →
      RewriteFree tinyDict s (freshSubset w.tok.mode w.request)) ∧
    ¬ RewriteFree tinyDict Subset.empty Subset.all ∧
    Bridge .d6fix .final tinyDict w.tok.mode (freshSubset w.tok.mode w.request) [] ∧
    ∃ r, Total.tokenize .d6fix .final (tinyDict.cfg w.tok.mode (freshSubset w.tok.mode w.request)) [] = .ok r := by
  intro P ops w
  have hm : w.tok.mode = .A := by decide
  have hf : freshSubset w.tok.mode w.request = ⟨false, true, true, false, false, false, true, false, false, false⟩ := by
    decide
  have u0 : Wire.utf8Decode [] = some [] := by simp [Wire.utf8Decode]
  refine ⟨by decide, by decide, ?_, ?_, ?_, ?_⟩
  · intro s hs m p
    rw [hf] at hs ⊢
    rw [Subset.le_iff, Subset.normalize_fields] at hs
    have ha : s.splitA = true := hs.2.2.2.2.2.2.1 rfl
    simp [tinyDict, ha]
  · intro h
    have := h .A [⟨0, 2, 0, 2⟩]
    simp [tinyDict, Subset.empty, Subset.all] at this
  · rw [hf, hm]
    unfold Bridge bridgeHolds analyseNew
    simp [Total.tokenize, EditM.startBuild, Total.rewriteInput, tinyDict, Dict.cfg, EditM.textOf, EditM.identFrom, u0,
      newTok, Tok.analyse, Tok.resetWith, Tok.doTokenize, Input.prepare, Input.startBuild, Input.reset, Tok.create,
      Input.empty, payload, Input.rewriteAll, Input.build, nats, charsOf, morphsOf, tablesOf, resetPath, rangesEq, pairs,
      rns, EditM.MAX_LENGTH, Elem.pair?]
  · rw [hf, hm]
    simp [Total.tokenize, EditM.startBuild, Total.rewriteInput, tinyDict, Dict.cfg, EditM.textOf, EditM.identFrom, u0,
      EditM.MAX_LENGTH]

open RecycleTotal in
/-- `hbridge` on a text the lattice IS built for, kernel-checked: `ab` in mode A with all fields - the lattice path is `ab`,
the A split gives `a | b`; the instance on a new tokenizer and `Total.tokenize` agree (outcome, morphemes, tables), and the
result has two morphemes.  (`Wire.utf8Decode` is unfolded by `simp` on the concrete bytes; larger instances are evaluated by
the driver: `sim=1` on every `hpipe` line.) -/
example :
    Bridge .d6fix .final tinyDict .A Subset.all [97, 98] ∧
    (Total.morphCount (Total.tokenize .d6fix .final (tinyDict.cfg .A Subset.all) [97, 98]) = some 2) := by
  have u : Wire.utf8Decode [97, 98] = some [97, 98] := by simp [Wire.utf8Decode]
  constructor
  · unfold Bridge bridgeHolds analyseNew
    simp [Total.tokenize, EditM.startBuild, Total.rewriteInput, tinyDict, Dict.cfg, EditM.textOf, EditM.identFrom, u,
      newTok, Tok.analyse, Tok.resetWith, Tok.doTokenize, Input.prepare, Input.startBuild, Input.reset, Tok.create,
      Input.empty, payload, Input.rewriteAll, Input.build, nats, charsOf, morphsOf, tablesOf, resetPath, pairs, rns,
      EditM.MAX_LENGTH, Elem.pair?, Elem.nat?, Tok.buildLattice, Lattice.reset, Lattice.empty, resetVec, pushRow, buildLoop,
      buildStep, Lattice.hasPrev, rowAt, Lattice.insert, Lattice.connectEos, Tok.resolveAndRewrite, List.range,
      List.range.loop, resize, applyWrites, Input.view]
    decide
  · simp [Total.tokenize, EditM.startBuild, Total.rewriteInput, tinyDict, Dict.cfg, EditM.textOf, EditM.identFrom, u,
      EditM.MAX_LENGTH]
    decide

open RecycleTotal in
/-- `hcfg` (`ConfigOk`) of `history_reports_tokenize` / `lifted` holds for `tinyDict` on every text of at most 65 535 bytes that
decodes (here `ab`), and `Total.tokenize` returns a result there (previous example: two morphemes); `ShortRun` is also met by a
plugin that DOES edit (inserts `!` in front of `a`). -/
example :
    ConfigOk .final tinyDict [97, 98] ∧
    ShortRun .final [fun _ => .ok [⟨0, 0, [33]⟩]] (EditM.identFrom 0 [97]) := by
  refine ⟨⟨fun _ _ => trivial, ?_, fun _ => rfl⟩, ?_⟩
  · intro chars
    refine ⟨by simp [tinyDict], by simp [tinyDict], by simp [tinyDict], ?_⟩
    intro i c h
    simp only [tinyDict, List.getElem?_map, Option.map_eq_some_iff] at h
    obtain ⟨a, ha, rfl⟩ := h
    have hi : i < chars.length := by
      rcases Nat.lt_or_ge i chars.length with hlt | hge
      · exact hlt
      · rw [List.getElem?_eq_none_iff.mpr hge] at ha; cases ha
    exact ⟨Nat.le_refl 1, hi⟩
  · intro es l1 hp hc
    cases hp
    have e : EditM.commitV .final (EditM.identFrom 0 [97]) [⟨0, 0, [33]⟩] =
        some (EditM.resolve (EditM.identFrom 0 [97]) [⟨0, 0, [33]⟩]) := by rfl
    rw [e] at hc
    cases hc
    exact ⟨by decide, trivial⟩

open RecycleTotal in
/-- **bridge_not_unconditional** - `Bridge` is a genuine hypothesis on the configuration, not a tautology: for a configuration
with an EMPTY OOV provider stack (rejected when a dictionary is loaded, so no tokenizer exists for it) the two models differ on
the text `b`, which no lexicon word covers: `Total.tokenize` panics (`oov_providers.last().unwrap()` in `build_lattice`), the
discipline model - whose candidate payload has no panic outcome - reports `EosBosDisconnect`.  With at least one provider, a
well-formed buffer and the repaired regex provider `Oov.stepAt` never panics (`stepAt_noPanic`). -/
theorem bridge_not_unconditional : ¬ Bridge .d6fix .final { tinyDict with providers := [] } .C Subset.all [98] := by
  have u : Wire.utf8Decode [98] = some [98] := by simp [Wire.utf8Decode]
  unfold Bridge bridgeHolds analyseNew
  simp [Total.tokenize, EditM.startBuild, Total.rewriteInput, tinyDict, Dict.cfg, EditM.textOf, EditM.identFrom, u,
    newTok, Tok.analyse, Tok.resetWith, Tok.doTokenize, Input.prepare, Input.startBuild, Input.reset, Tok.create,
    Input.empty, payload, Input.rewriteAll, Input.build, nats, charsOf, morphsOf, tablesOf, resetPath, pairs, rns,
    EditM.MAX_LENGTH, Elem.pair?, Elem.nat?, Tok.buildLattice, Lattice.reset, Lattice.empty, resetVec, pushRow, buildLoop,
    buildStep, Lattice.hasPrev, rowAt, Lattice.insert, Lattice.connectEos, Tok.resolveAndRewrite, List.range,
    List.range.loop, resize, applyWrites, Input.view]
  decide

/-! ### the Python binding -/

/-- **py_tokenize_is_a_history.**  One `Tokenizer.tokenize(text, mode=, out=)` of the Python binding
(`World.pyTokenize`: per-call mode override restored by the scope guard on every exit, `do_tokenize`, the result
collected into `out` or into a new list) leaves exactly the state of a plain history of API calls
(`pyOps`: `[set_mode m]; analyse; [new list]; collect; [set_mode default]`, without the collect when the analysis
failed) - so every theorem above about histories covers Python sessions on one long-lived `Tokenizer` with reused
`out` lists.  Both variants of `reset`. -/
theorem py_tokenize_is_a_history (v : ResetVariant) (P : Payload E) (w : World E) (mode : Option Mode)
    (out : Option Nat) (text : List E) :
    let w1 := match mode with
      | some m => (w.step v P (.setMode m)).1
      | none => w
    (w.pyTokenize v P mode out text).1 =
      w.run v (pyOps P w.tok.mode w.lists.length mode out text (decide ((w1.step v P (.analyse text)).2 = .ok))) :=
  pyTokenize_eq_run v P w mode out text

/-- **py_tokenize_restores_mode.**  Whatever happens inside the call (Ok, the text rejected as too long, Disconnect, an
error or a panic after the path was taken, `collect_results` failing), the tokenizer is left in the mode it had. -/
theorem py_tokenize_restores_mode (v : ResetVariant) (P : Payload E) (w : World E) (mode : Option Mode)
    (out : Option Nat) (text : List E) : (w.pyTokenize v P mode out text).1.tok.mode = w.tok.mode :=
  pyTokenize_mode v P w mode out text

/-! ### the executed representation (array rows) is the list model -/

/-- **executed_step_eq_model.**  The driver keeps the three row vectors of the lattice as `Array (Array E)`
(`Model/RecycleFast.lean`; the list model is quadratic in the text length).  One API call on the executed state,
seen through the abstraction `XWorld.abs`, IS the call of the list model the theorems above speak about: same
state, same outcome - for every payload, operation and variant of `reset`. -/
theorem executed_step_eq_model (v : ResetVariant) (P : Payload E) (x : XWorld E) (op : Op E) :
    ((x.step v P op).1.abs, (x.step v P op).2) = x.abs.step v P op :=
  XWorld.step_abs v P x op

/-- whole histories from a new tokenizer -/
theorem executed_history_eq_model (v : ResetVariant) (m : Mode) (ops : List (Payload E × Op E)) :
    ((XWorld.init m).run v ops).abs = (World.init m).run v ops := by
  rw [XWorld.run_abs, XWorld.init_abs]

/-- **driver_answer_eq_model.**  The answer line the driver prints for a C10 case (array rows, array look-up of the
candidates) is the answer line of the list model (`handleL`: `World.step` on `List (List Nat)` rows, `payloadOf`). -/
theorem driver_answer_eq_model (toks : List (List Char)) : Recycle.IO.handle toks = Recycle.IO.handleL toks :=
  Recycle.IO.handle_eq toks

/-! ### the code as it stands violates the property: an Ok analysis whose result cannot be collected -/

/-- payload of an analysis of a one-character text that fails after `resolve_best_path` took the path
(e.g. `get_word_info_subset` → `Err`, or a panic in `split_path`) -/
def failingAfterTake : Payload Nat := Recycle.IO.payloadOf [] [[1]] true .fail 0 0 true
def plain : Payload Nat := Recycle.IO.plainPayload

/-- **top_path_none_counterexample** (negation of `history_independent` / "a failed analysis leaves the
tokenizer usable" on a concrete history).  History: `new list; analyse "a"` (fails after the path was taken);
`analyse ""`.  The second analysis returns Ok - as on a new tokenizer - but `top_path` is still `None`, so
`collect_results` panics (`self.top_path.as_mut().unwrap()`), whereas a new tokenizer collects an empty
result.  The model mirrors stateful_tokenizer.rs:107-110 (`reset` only clears an existing path), :124-126
(early `return Ok(())` for an empty text), :176 (`mem::replace(&mut self.top_path, None)`), :214 (`unwrap`). -/
theorem top_path_none_counterexample :
    let w0 : World Nat := (World.init .C).run .cur [(plain, .newList)]
    let w1 := w0.run .cur [(failingAfterTake, .analyse [1])]
    -- the failing analysis
    (w0.step .cur failingAfterTake (.analyse [1])).2 = .err .other ∧
    -- then an empty text: Ok on both, …
    (w1.step .cur plain (.analyse [])).2 = .ok ∧ (w0.step .cur plain (.analyse [])).2 = .ok ∧
    -- … but only the fresh tokenizer's result can be collected
    ((w1.step .cur plain (.analyse [])).1.collect 0).2 = .panic ∧
    ((w0.step .cur plain (.analyse [])).1.collect 0).2 = .ok ∧
    (w1.step .cur plain (.analyse [])).1.tok.topPath = none ∧
    (w0.step .cur plain (.analyse [])).1.tok.topPath = some [] := by
  decide

/-- the same failure by a panic after the path was taken (`split_path`, caught by the caller) -/
def panickingAfterTake : Payload Nat := Recycle.IO.payloadOf [] [[1]] true .unwind 0 0 true

/-- **top_path_none_fixed_example** (the mirror of `top_path_none_counterexample` for the repaired `reset`).
The same history - `new list; analyse "a"` failing after the path was taken (once with `Err`, once with a panic),
the path is `None` afterwards; `analyse ""` - now returns Ok WITH a path, `collect_results` succeeds, and
tokenizer and list are exactly what a new tokenizer gives. -/
theorem top_path_none_fixed_example :
    let w0 : World Nat := (World.init .C).run .fix [(plain, .newList)]
    let w1 := w0.run .fix [(failingAfterTake, .analyse [1])]
    let w2 := w0.run .fix [(panickingAfterTake, .analyse [1])]
    -- the failing analyses: the path is taken and not given back
    (w0.step .fix failingAfterTake (.analyse [1])).2 = .err .other ∧ w1.tok.topPath = none ∧
    (w0.step .fix panickingAfterTake (.analyse [1])).2 = .panic ∧ w2.tok.topPath = none ∧
    -- then an empty text: Ok on all three, with an empty result path
    (w1.step .fix plain (.analyse [])).2 = .ok ∧ (w2.step .fix plain (.analyse [])).2 = .ok ∧
    (w0.step .fix plain (.analyse [])).2 = .ok ∧
    (w1.step .fix plain (.analyse [])).1.tok.topPath = some [] ∧
    (w2.step .fix plain (.analyse [])).1.tok.topPath = some [] ∧
    (w0.step .fix plain (.analyse [])).1.tok.topPath = some [] ∧
    -- and every result can be collected, giving the same (empty) list as the new tokenizer
    ((w1.step .fix plain (.analyse [])).1.collect 0).2 = .ok ∧
    ((w2.step .fix plain (.analyse [])).1.collect 0).2 = .ok ∧
    ((w0.step .fix plain (.analyse [])).1.collect 0).2 = .ok ∧
    (((w1.step .fix plain (.analyse [])).1.collect 0).1.lists.map (fun L => (L.part, L.nodes)) = [(0, [])]) ∧
    (((w2.step .fix plain (.analyse [])).1.collect 0).1.lists.map (fun L => (L.part, L.nodes)) = [(0, [])]) ∧
    (((w0.step .fix plain (.analyse [])).1.collect 0).1.lists.map (fun L => (L.part, L.nodes)) = [(0, [])]) := by
  decide

/-- set_subset then set_mode: the reused tokenizer's flag set is NOT a superset of the flag set of a new
tokenizer with the same mode and request (`HEAD_WORD_LENGTH` is missing).  Harmless in the code because the
word-info parser reads that light field whenever a split field is requested (C11); recorded because the
design's `subset_monotone` cannot be stated for flags. -/
theorem subset_monotone_counterexample :
    let req : Subset := { Subset.empty with pos := true }
    let reused : Tok Nat := ((Tok.create .C).setSubset req).setMode .A
    let fresh : Tok Nat := Tok.freshFor .A (some req)
    Subset.le fresh.subset reused.subset = false ∧
    Subset.le fresh.subset (reused.subset.union { Subset.empty with headLen := true }) = true := by
  decide

/-- mode changes only ever add flags -/
theorem set_mode_only_adds (t : Tok E) (m : Mode) : Subset.le t.subset (t.setMode m).subset = true := by
  cases m <;> simp [Tok.setMode, Subset.le, Subset.union, Subset.ofMode, Subset.empty]

/-- `set_subset` forgets every earlier request and mode-induced flag: the new subset is a function of the
current mode and the request only -/
theorem set_subset_history_free (t t' : Tok E) (s : Subset) (h : t.mode = t'.mode) :
    (t.setSubset s).subset = (t'.setSubset s).subset := by
  simp [Tok.setSubset, h]

/-! ### non-vacuity -/

/-- the hypotheses of `reset_establishes` / `history_independent_partial` / `failure_recoverable_partial` are
met by a concrete history, for both variants of `reset`: a tokenizer that analysed a longer text (Ok), then a
failing one (`Disconnect`), is in a state with stale lattice rows and tables, satisfies `Inv`, keeps its path, and
`OffsetsInRange` holds. -/
example : ∀ v : ResetVariant,
    let P1 : Payload Nat := Recycle.IO.payloadOf [] [[1], [2], [3]] true (.path 3) 0 0 true
    let P2 : Payload Nat := Recycle.IO.payloadOf [] [[1], []] false .none 0 0 true
    let t0 : Tok Nat := Tok.create .C
    let t1 := (t0.analyse v P1 [1, 1, 1]).1
    let t2 := (t1.analyse v P2 [1, 1]).1
    (t0.analyse v P1 [1, 1, 1]).2 = .ok ∧ (t1.analyse v P2 [1, 1]).2 = .err .disconnect ∧
    (t2.topPathIds = [] ∧ t2.input.replaces = []) ∧ t2.topPath.isSome = true ∧ t2.lattice.ends.length = 4 ∧
    (Input.prepare P1 (t2.resetWith v [1, 1, 1]).input).2 = .ok ∧
    (Input.prepare P1 (t2.resetWith v [1, 1, 1]).input).1.modC2b.length - 1 ≤
      (Input.prepare P1 (t2.resetWith v [1, 1, 1]).input).1.modChars.length := by
  intro v; cases v <;> decide

/-- the hypotheses of `history_independent` / `failure_recoverable` / `ok_analysis_collectable` (repaired `reset`)
are met by the histories the `cur` variant fails on: a tokenizer that analysed a longer text (Ok) and then failed
AFTER the path was taken - with an `Err` (`t2`) or with a panic (`t2'`) - has stale rows, NO result path, satisfies
`Inv`; the failure hypothesis holds, `OffsetsInRange` holds for the next text (here a longer one and the empty
one), and the next analysis is Ok. -/
example :
    let P1 : Payload Nat := Recycle.IO.payloadOf [] [[1], [2], [3]] true (.path 3) 0 0 true
    let t0 : Tok Nat := Tok.create .C
    let t1 := (t0.analyse .fix P1 [1, 1, 1]).1
    let t2 := (t1.analyse .fix failingAfterTake [1]).1
    let t2' := (t1.analyse .fix panickingAfterTake [1]).1
    (t1.analyse .fix failingAfterTake [1]).2 = .err .other ∧ (t1.analyse .fix failingAfterTake [1]).2 ≠ .ok ∧
    (t1.analyse .fix panickingAfterTake [1]).2 = .panic ∧ (t1.analyse .fix panickingAfterTake [1]).2 ≠ .ok ∧
    t2.topPath = none ∧ t2'.topPath = none ∧
    (t2.topPathIds = [] ∧ t2.input.replaces = []) ∧ (t2'.topPathIds = [] ∧ t2'.input.replaces = []) ∧
    t2.lattice.ends.length = 4 ∧
    (Input.prepare P1 (t2.resetWith .fix [1, 1, 1]).input).2 = .ok ∧
    (Input.prepare P1 (t2.resetWith .fix [1, 1, 1]).input).1.modC2b.length - 1 ≤
      (Input.prepare P1 (t2.resetWith .fix [1, 1, 1]).input).1.modChars.length ∧
    (Input.prepare plain (t2.resetWith .fix []).input).2 = .ok ∧
    (Input.prepare plain (t2.resetWith .fix []).input).1.modC2b.length - 1 ≤
      (Input.prepare plain (t2.resetWith .fix []).input).1.modChars.length ∧
    (t2.analyse .fix P1 [1, 1, 1]).2 = .ok ∧ (t2.analyse .fix plain []).2 = .ok ∧
    (t2'.analyse .fix plain []).2 = .ok := by
  decide

/-- `run_history_independent` on a concrete history with a failure after the path was taken and a collect in
between: the hypothesis `OffsetsInRange` holds, and the conclusion is not vacuous (the probe is Ok). -/
example :
    let P1 : Payload Nat := Recycle.IO.payloadOf [] [[1], [2], [3]] true (.path 3) 0 0 true
    let ops : List (Payload Nat × Op Nat) :=
      [(plain, .newList), (P1, .analyse [1, 1, 1]), (plain, .collect 0), (failingAfterTake, .analyse [1]),
       (plain, .collect 0), (plain, .setMode .A)]
    let t := ((World.init .C).run .fix ops).tok
    t.topPath = none ∧
    (Input.prepare plain (t.resetWith .fix []).input).1.modC2b.length - 1 ≤
      (Input.prepare plain (t.resetWith .fix []).input).1.modChars.length ∧
    (t.analyse .fix plain []).2 = .ok := by
  decide

/-- the hypotheses of `run_history_independent_partial` (both variants of `reset`) are met by a history without a
failure behind `resolve_best_path` (Ok, collect, `TooLong`-free `Disconnect`, mode change): the path is present. -/
example : ∀ v : ResetVariant,
    let P1 : Payload Nat := Recycle.IO.payloadOf [] [[1], [2], [3]] true (.path 3) 0 0 true
    let P2 : Payload Nat := Recycle.IO.payloadOf [] [[1], []] false .none 0 0 true
    let ops : List (Payload Nat × Op Nat) :=
      [(plain, .newList), (P1, .analyse [1, 1, 1]), (plain, .collect 0), (P2, .analyse [1, 1]), (plain, .setMode .A)]
    let t := ((World.init .C).run v ops).tok
    t.topPath.isSome = true ∧
    (Input.prepare P1 (t.resetWith v [1, 1, 1]).input).1.modC2b.length - 1 ≤
      (Input.prepare P1 (t.resetWith v [1, 1, 1]).input).1.modChars.length ∧
    (t.analyse v P1 [1, 1, 1]).2 = .ok := by
  intro v; cases v <;> decide

/-- a payload whose nodes DEPEND on the effective subset (a node carries +100 when the head-word length is loaded),
read through the projection that forgets that (`% 100`) -/
def subsetSensitive : Payload Nat :=
  { Recycle.IO.payloadOf [] [[1], [2], [3]] true .none 0 0 true with
    pathNodes := fun s _ _ _ ids => .nodes (ids.map (fun x => x % 100 + 7 + if s.headLen then 100 else 0)),
    rewritePath := fun _ _ _ p => .nodes p }

/-- `FieldsFree` (hypothesis `hfree` of `observable_result_history_free` / `history_independent_requested_fields`) is
met by a payload that is NOT subset independent: all subsets are indistinguishable through `% 100` … -/
example : ∀ s s' : Subset, FieldsFree subsetSensitive (· % 100) s s' := by
  intro s s' m inp full ends ids path0
  simp only [pathPhase, subsetSensitive, PathRes.mapP, List.map_append, List.map_map]
  congr 2
  apply List.map_congr_left
  intro x _
  simp only [Function.comp]
  split <;> split <;> omega

/-- … although the raw nodes differ, and the other hypotheses hold on the history of
`subset_monotone_counterexample` (`set_subset(POS); set_mode(A)`: effective subset ≠ the fresh tokenizer's), with a
list that was used before, a rejected and an empty text in between: the list exists, `OffsetsInRange` holds, the
analysis is Ok, the effective subset differs from the fresh one, and the conclusion's two results are equal and
non-trivial. -/
example :
    let P1 : Payload Nat := Recycle.IO.payloadOf [] [[1], [2], [3]] true (.path 3) 0 0 true
    let ops : List (Payload Nat × Op Nat) :=
      [(plain, .newList), (plain, .setSubset { Subset.empty with pos := true }), (P1, .analyse [1, 1, 1]),
       (plain, .collect 0), (plain, .setMode .A), ({ plain with maxLen := 2 }, .analyse [1, 1, 1]), (plain, .analyse []),
       (plain, .collect 0)]
    let w := (World.init .C).run .fix ops
    let a := w.step .fix subsetSensitive (.analyse [1, 1, 1])
    let f : World Nat := ((World.fresh w.tok.mode w.request).step .fix subsetSensitive .newList).1
    let b := f.step .fix subsetSensitive (.analyse [1, 1, 1])
    0 < w.lists.length ∧ w.tok.subset ≠ freshSubset w.tok.mode w.request ∧
    (Input.prepare subsetSensitive (w.tok.resetWith .fix [1, 1, 1]).input).1.modC2b.length - 1 ≤
      (Input.prepare subsetSensitive (w.tok.resetWith .fix [1, 1, 1]).input).1.modChars.length ∧
    (w.step .fix { plain with maxLen := 2 } (.analyse [1, 1, 1])).2 = .err .tooLong ∧
    a.2 = .ok ∧ b.2 = .ok ∧
    (World.result (· % 100) (a.1.collect 0).1 0).map (·.1) = (World.result (· % 100) (b.1.collect 0).1 0).map (·.1) ∧
    (World.result (· % 100) (a.1.collect 0).1 0).map (·.1) = some [7] ∧
    (World.result id (a.1.collect 0).1 0).map (·.1) ≠ (World.result id (b.1.collect 0).1 0).map (·.1) ∧
    (World.result id (a.1.collect 0).1 0).map (·.2.original) = some [1, 1, 1] := by
  decide


end C10
