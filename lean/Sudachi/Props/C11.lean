import Sudachi.Proofs.Subset
import Sudachi.Proofs.SubsetTok
/-!
# C11 — Loading a subset of word fields never changes the fields that were requested

Model: `Subset.parse` (`WordInfoParser::parse`, the `parse_field!` macro unfolded over the ten
fields with their byte-level readers and skip functions), `Subset.normalize`
(`InfoSubset::normalize`, variant `cur` = the tree, `fix` = with the repair of D10),
`Subset.getWordInfo` (`WordInfos::get_word_info`), the accessors, `setMode`/`setSubset`,
`Subset.getWordInfoSubset` (`LexiconSet::get_word_info_subset` with the per-field POS / dictionary-id
fix-ups of user dictionaries), `Subset.tokenize` (`resolve_best_path` + `split_path` +
`NodeSplitIterator::next` on the best path the lattice search hands over).
Quantifiers: every word the binary format can represent (`WF`: scalar values, at most 32 767
UTF-16 units per string, at most 255 array elements, 16/32-bit numbers), every request mask
(all 1 024 subsets, junk bits included), arbitrary bytes after the record.
-/
namespace C11
open Subset

/-- **Clause 1, stored fields (full).**  For every representable word, every request `S` and any
bytes after the record: the subset parse and the full parse both succeed (so every skip advanced
exactly as the corresponding parse, and the early return never cut a requested field), and every
field requested in `S` has the same stored value in both. -/
theorem subset_fields_eq (w : WordInfoData) (hw : WF w) (S : Nat) (rest : Bytes) :
    ∃ i1 i2, parse S (encodeBytes w ++ rest) = .ok i1 ∧ parse ALL (encodeBytes w ++ rest) = .ok i2 ∧
      FieldsEq S i1 i2 ∧ FieldsEq S i1 w := by
  obtain ⟨i1, e1, l1, _⟩ := parse_spec w hw S rest
  obtain ⟨i2, e2, l2, _⟩ := parse_spec w hw ALL rest
  exact ⟨i1, i2, e1, e2, fieldsEq_of_proj l1 l2 (fun _ _ h => h) (fun _ hj _ => all_testBit hj),
    fieldsEq_of_proj (w := w) (U := S) l1 (fun _ _ => rfl) (fun _ _ h => h) (fun _ _ h => h)⟩

/-- The parser is total on well-formed records for *every* request: no request makes a skip run
off the record (`skip_wid_array` would panic) or a reader fail. -/
theorem parse_total (w : WordInfoData) (hw : WF w) (S : Nat) (rest : Bytes) :
    ∃ i, parse S (encodeBytes w ++ rest) = .ok i := by
  obtain ⟨i, e, _⟩ := parse_spec w hw S rest
  exact ⟨i, e⟩

/-- Light fields are read whenever a later field is requested.  `set_mode` ORs SPLIT_A/SPLIT_B
into the subset *without* normalising (stateful_tokenizer.rs:81), so the head-word length that
`NodeSplitIterator` needs is not in the mask; it is loaded all the same. -/
theorem head_word_length_loaded_with_splits (w : WordInfoData) (hw : WF w) (S : Nat) (rest : Bytes)
    (h : S.testBit SPLIT_A = true ∨ S.testBit SPLIT_B = true) :
    ∃ i, parse S (encodeBytes w ++ rest) = .ok i ∧ i.headWordLength = w.headWordLength := by
  obtain ⟨i, e, l, _⟩ := parse_spec w hw S rest
  refine ⟨i, e, ?_⟩
  have : Loaded S 1 := by
    refine ⟨by omega, Or.inr ⟨Or.inl rfl, ?_⟩⟩
    rcases h with h | h
    · exact ⟨6, by omega, h⟩
    · exact ⟨7, by omega, h⟩
  simpa [proj] using l 1 this

/-- requested accessors agree (everything except the dictionary-form string, which needs the
lexicon: see `dictionary_form_eq_fix`) -/
structure AccEq (S : Nat) (a b : WordInfoData) : Prop where
  fields : FieldsEq S a b
  normalizedForm : S.testBit NORMALIZED_FORM = true → accNormalizedForm a = accNormalizedForm b
  readingForm : S.testBit READING_FORM = true → accReadingForm a = accReadingForm b

/-- **Clause 1, accessors of one record (full, both variants of `normalize`).**  What the analyser
loads for a request `S` is `normalize S`; every accessor of a field in `S` — including the
fall-back to the surface of `normalized_form()` / `reading_form()` — equals the full load. -/
theorem accessor_eq (v : NzVariant) (w : WordInfoData) (hw : WF w) (S : Nat) (rest : Bytes) :
    ∃ i1 i2, parse (normalize v S) (encodeBytes w ++ rest) = .ok i1 ∧
      parse ALL (encodeBytes w ++ rest) = .ok i2 ∧ AccEq S i1 i2 := by
  obtain ⟨i1, e1, l1, _⟩ := parse_spec w hw (normalize v S) rest
  obtain ⟨i2, e2, l2, _⟩ := parse_spec w hw ALL rest
  have hf : FieldsEq S i1 i2 :=
    fieldsEq_of_proj l1 l2 (fun j _ h => testBit_normalize_of v S j h) (fun _ hj _ => all_testBit hj)
  have hsurf : (normalize v S).testBit SURFACE = true → i1.surface = i2.surface := by
    intro h
    have a := l1 0 ⟨by omega, Or.inl h⟩
    have b := l2 0 ⟨by omega, Or.inl (by decide)⟩
    simp only [proj] at a b
    simp at a b
    rw [a, b]
  refine ⟨i1, i2, e1, e2, hf, ?_, ?_⟩
  · intro h
    have hs := hsurf (normalize_surface_of_forms v S (Or.inr h))
    simp only [accNormalizedForm, hf.normalizedForm h, hs]
  · intro h
    have hs := hsurf (normalize_surface_of_forms v S (Or.inl h))
    simp only [accReadingForm, hf.readingForm h, hs]

/-- **Clause 1, dictionary form (full for the repaired `normalize`).**  In a lexicon of
representable words whose dictionary-form references stay inside the lexicon, for every request
containing DIC_FORM_WORD_ID: `get_word_info` with `normalize S` and with all fields both succeed
and `dictionary_form()` agrees — also for words that are their own dictionary form (id -1 or own
id), where the accessor falls back to the surface. -/
theorem dictionary_form_eq_fix (ws : List WordInfoData) (hwf : ∀ w ∈ ws, WF w) (hdf : DfOk ws) (hasSyn : Bool)
    (k : Nat) (hk : k < ws.length) (S : Nat) (hS : S.testBit DIC_FORM_WORD_ID = true) :
    ∃ i1 i2, getWordInfo (lexOf ws hasSyn) k (normalize .fix S) = .ok i1 ∧
      getWordInfo (lexOf ws hasSyn) k ALL = .ok i2 ∧
      accDictionaryForm i1 = accDictionaryForm i2 ∧ i1.dictionaryFormWordId = i2.dictionaryFormWordId := by
  have eff : ∀ T : Nat, ∀ j, j ≠ SYNONYM_GROUP_ID → T.testBit j = true → (effSubset hasSyn T).testBit j = true := by
    intro T j hj h
    unfold effSubset
    split
    · rw [testBit_remove, h]; simp [Ne.symm hj]
    · exact h
  have n4 : (normalize .fix S).testBit 4 = true := testBit_normalize_of _ S 4 hS
  have n0 : (normalize .fix S).testBit 0 = true := normalize_fix_surface_of_dicform S hS
  have L1 : ∀ j, (j = 0 ∨ j = 4) → Loaded (effSubset hasSyn (normalize .fix S)) j := by
    intro j hj
    rcases hj with rfl | rfl
    · exact ⟨by omega, Or.inl (eff _ 0 (by decide) n0)⟩
    · exact ⟨by omega, Or.inl (eff _ 4 (by decide) n4)⟩
  have L2 : ∀ j, (j = 0 ∨ j = 4) → Loaded (effSubset hasSyn ALL) j := by
    intro j hj
    rcases hj with rfl | rfl
    · exact ⟨by omega, Or.inl (eff _ 0 (by decide) (by decide))⟩
    · exact ⟨by omega, Or.inl (eff _ 4 (by decide) (by decide))⟩
  obtain ⟨i1, e1, l1, d1⟩ := getWordInfo_spec ws hwf hdf hasSyn k hk (normalize .fix S) (L1 4 (Or.inr rfl))
  obtain ⟨i2, e2, l2, d2⟩ := getWordInfo_spec ws hwf hdf hasSyn k hk ALL (L2 4 (Or.inr rfl))
  have s1 := l1 0 (L1 0 (Or.inl rfl))
  have s2 := l2 0 (L2 0 (Or.inl rfl))
  have f1 := l1 4 (L1 4 (Or.inr rfl))
  have f2 := l2 4 (L2 4 (Or.inr rfl))
  simp only [proj] at s1 s2 f1 f2
  simp at s1 s2 f1 f2
  refine ⟨i1, i2, e1, e2, ?_, by rw [f1, f2]⟩
  simp only [accDictionaryForm, d1, d2, s1, s2]

/-- **Clause 1 at `WordInfos::get_word_info` (full).**  In a lexicon of representable words whose
dictionary-form references stay inside the lexicon, for EVERY request `S` (junk bits included), with or
without synonym ids in the header: `get_word_info S` and `get_word_info ALL` both succeed and agree on
every stored field of `S` (synonym ids only when the header announces them: the reader drops that flag
otherwise).  For requests that do not reach the dictionary-form id the id keeps its default 0 and the
code consults word 0 for a dictionary form; that consult cannot fail
(`get_word_info_unloaded_defaults`), which is what the earlier `_partial` version was missing. -/
theorem get_word_info_fields_eq (ws : List WordInfoData) (hwf : ∀ w ∈ ws, WF w) (hdf : DfOk ws)
    (hasSyn : Bool) (k : Nat) (hk : k < ws.length) (S : Nat) :
    ∃ i1 i2, getWordInfo (lexOf ws hasSyn) k S = .ok i1 ∧ getWordInfo (lexOf ws hasSyn) k ALL = .ok i2 ∧
      FieldsEq (effSubset hasSyn S) i1 i2 := by
  obtain ⟨i1, e1, l1, _⟩ := getWordInfo_spec_full ws hwf hdf hasSyn k hk S
  obtain ⟨i2, e2, l2, _⟩ := getWordInfo_spec_full ws hwf hdf hasSyn k hk ALL
  exact ⟨i1, i2, e1, e2, fieldsEq_of_proj l1 l2 (fun _ _ h => h) (effSubset_all_of hasSyn S)⟩

/-- **Fields that are not loaded keep their defaults** (`WordInfoData::default()`), for every request,
at `get_word_info` level: a heavy field that is not requested, and a light field with no request bit
at or above it, read 0 / empty.  Consequence spelled out for the dictionary form: when the id is not
loaded the code still runs its consult with the default id 0 — the stored `dictionary_form` is then the
surface of word 0 (empty for word 0 itself), and the call succeeds. -/
theorem get_word_info_unloaded_defaults (ws : List WordInfoData) (hwf : ∀ w ∈ ws, WF w) (hdf : DfOk ws)
    (hasSyn : Bool) (k : Nat) (hk : k < ws.length) (S : Nat) :
    ∃ i, getWordInfo (lexOf ws hasSyn) k S = .ok i ∧
      (∀ b, Unloaded (effSubset hasSyn S) b → proj b i = proj b {}) ∧
      (Unloaded (effSubset hasSyn S) 4 →
        i.dictionaryFormWordId = 0 ∧
        i.dictionaryForm = if k = 0 then [] else (ws[0]'(by omega)).surface) := by
  obtain ⟨i, e, _, u, _, du⟩ := getWordInfo_spec_full ws hwf hdf hasSyn k hk S
  refine ⟨i, e, u, fun h => ⟨by simpa [proj] using u 4 h, ?_⟩⟩
  rw [du h]
  have h0 : 0 < ws.length := by omega
  by_cases hk0 : k = 0
  · simp [dicFormOf, hk0]
  · have : ¬ ((0 : Int) = (k : Int)) := by omega
    simp [dicFormOf, hk0, this, List.getElem?_eq_getElem h0]

/-- a one-word lexicon: `あ`, its own dictionary form (`*` in the CSV, id -1), nothing else -/
def d10Word : WordInfoData := { surface := [12354], headWordLength := 3, dictionaryFormWordId := -1 }

/-- **D10 (the tree's `normalize` violates clause 1).**  Request = {DIC_FORM_WORD_ID}: the tree's
`normalize` leaves it alone, `get_word_info` loads no surface and `dictionary_form()` is empty,
while the full load answers `あ`.  With the repaired `normalize` the same request answers `あ`. -/
theorem accessor_eq_counterexample :
    WF d10Word ∧ DfOk [d10Word] ∧
    normalize .cur (2 ^ DIC_FORM_WORD_ID) = 2 ^ DIC_FORM_WORD_ID ∧
    (getWordInfo (lexOf [d10Word] true) 0 (normalize .cur (2 ^ DIC_FORM_WORD_ID))).bind (fun i => .ok (accDictionaryForm i)) = .ok [] ∧
    (getWordInfo (lexOf [d10Word] true) 0 ALL).bind (fun i => .ok (accDictionaryForm i)) = .ok [12354] ∧
    (getWordInfo (lexOf [d10Word] true) 0 (normalize .fix (2 ^ DIC_FORM_WORD_ID))).bind (fun i => .ok (accDictionaryForm i)) = .ok [12354] := by
  refine ⟨?_, ?_, by decide, by decide, by decide, by decide⟩
  · refine ⟨⟨?_, by decide⟩, by decide, by decide, ⟨by simp [d10Word], by decide⟩, by decide, by decide,
      ⟨by simp [d10Word], by decide⟩, ⟨by decide, by simp [d10Word]⟩, ⟨by decide, by simp [d10Word]⟩,
      ⟨by decide, by simp [d10Word]⟩, ⟨by decide, by simp [d10Word]⟩⟩
    intro c hc
    simp [d10Word] at hc
    subst hc
    left; decide
  · intro w hw
    simp at hw
    subst hw
    left; decide

/-! ### tokenizer: every order of `set_mode` / `set_subset` -/

/-- `s ⊇ t` on masks -/
def Contains (s t : Nat) : Prop := ∀ j, t.testBit j = true → s.testBit j = true

/-- `set_subset` loads at least what was asked for, whatever the mode and the previous subset -/
theorem set_subset_contains_request (v : NzVariant) (st : TokState) (S : Nat) :
    Contains (setSubset v st S).subset S := by
  intro j h
  simp only [setSubset, Nat.testBit_or]
  have : (normalize v (S ||| modeSubset st.mode)).testBit j = true :=
    testBit_normalize_of v _ j (by simp [Nat.testBit_or, h])
  simp [this]

/-- `set_mode` never drops a loaded field -/
theorem set_mode_keeps_subset (st : TokState) (m : Mode) : Contains (setMode st m).subset st.subset := by
  intro j h
  simp [setMode, Nat.testBit_or, h]

/-- **Every order.**  After any sequence of `set_mode` / `set_subset` calls on a fresh tokenizer
the split list of the *current* mode is in the loaded subset (so `split_path` sees the same split
lists as the full-field analysis; the head-word lengths follow by
`head_word_length_loaded_with_splits`). -/
theorem mode_flag_loaded_any_order (v : NzVariant) (m0 : Mode) (ops : List Op) :
    Contains (applyOps v (newTok m0) ops).subset (modeSubset (applyOps v (newTok m0) ops).mode) := by
  have step : ∀ (st : TokState) (op : Op), Contains st.subset (modeSubset st.mode) →
      Contains (applyOp v st op).subset (modeSubset (applyOp v st op).mode) := by
    intro st op _
    cases op with
    | mode m => intro j h; simp only [applyOp, setMode] at h ⊢; rw [Nat.testBit_or, h]; simp
    | subset s => intro j h; simp only [applyOp, setSubset] at h ⊢; rw [Nat.testBit_or, h]; simp
  have gen : ∀ (ops : List Op) (st : TokState), Contains st.subset (modeSubset st.mode) →
      Contains (applyOps v st ops).subset (modeSubset (applyOps v st ops).mode) := by
    intro ops
    induction ops with
    | nil => intro st h; exact h
    | cons op ops ih => intro st h; exact ih (applyOp v st op) (step st op h)
  apply gen
  intro j h
  cases m0 <;> simp [newTok, modeSubset, Nat.testBit_two_pow] at h ⊢ <;> (subst h; decide)

/-- and a request survives every later `set_mode` -/
theorem request_survives_set_mode (v : NzVariant) (st : TokState) (S : Nat) (ms : List Mode) :
    Contains (applyOps v (setSubset v st S) (ms.map Op.mode)).subset S := by
  have gen : ∀ (ms : List Mode) (st' : TokState), Contains st'.subset S →
      Contains (applyOps v st' (ms.map Op.mode)).subset S := by
    intro ms
    induction ms with
    | nil => intro st' h; exact h
    | cons m ms ih =>
      intro st' h
      exact ih (setMode st' m) (fun j hj => set_mode_keeps_subset st' m j (h j hj))
  exact gen ms _ (set_subset_contains_request v st S)

/-! ### `LexiconSet::get_word_info_subset` and the analysis after the lattice search -/

/-- **Clause 1 at `LexiconSet::get_word_info_subset` (full), any number of user dictionaries.**  In a
lexicon set of representable words (dictionary forms inside their own lexicon, one POS offset per
lexicon), for every word id of the set and EVERY request `S`: the subset load and the full load both
succeed and agree on every stored field of `S` *after* the fix-ups of user dictionaries — the POS id
re-based by the dictionary's offset, the `U`-references of SPLIT_A / SPLIT_B / WORD_STRUCTURE
re-stamped with the dictionary's own number (synonym ids only when the header announces them). -/
theorem get_word_info_subset_fields_eq (src : Src) (po : List Nat) (nsys : Nat) (hok : LexSetOk src po)
    (id : Nat) (hd : widDic id < src.length) (hk : widWord id < (src[widDic id]).1.length) (S : Nat) :
    ∃ i1 i2, getWordInfoSubset (lexSetOf src po nsys) id S = .ok i1 ∧
      getWordInfoSubset (lexSetOf src po nsys) id ALL = .ok i2 ∧
      FieldsEq (effSubset (src[widDic id]).2 S) i1 i2 := by
  obtain ⟨i1, e1, f1, _⟩ := getWordInfoSubset_spec src po nsys hok id hd hk S
  obtain ⟨i2, e2, f2, _⟩ := getWordInfoSubset_spec src po nsys hok id hd hk ALL
  have up := effSubset_all_of (src[widDic id]).2 S
  refine ⟨i1, i2, e1, e2, ?_⟩
  constructor
  · intro h; rw [f1.surface h, f2.surface (up 0 (by omega) h)]
  · intro h; rw [f1.headWordLength h, f2.headWordLength (up 1 (by omega) h)]
  · intro h; rw [f1.posId h, f2.posId (up 2 (by omega) h)]
  · intro h; rw [f1.normalizedForm h, f2.normalizedForm (up 3 (by omega) h)]
  · intro h; rw [f1.dictionaryFormWordId h, f2.dictionaryFormWordId (up 4 (by omega) h)]
  · intro h; rw [f1.readingForm h, f2.readingForm (up 5 (by omega) h)]
  · intro h; rw [f1.aUnitSplit h, f2.aUnitSplit (up 6 (by omega) h)]
  · intro h; rw [f1.bUnitSplit h, f2.bUnitSplit (up 7 (by omega) h)]
  · intro h; rw [f1.wordStructure h, f2.wordStructure (up 8 (by omega) h)]
  · intro h; rw [f1.synonymGroupIds h, f2.synonymGroupIds (up 9 (by omega) h)]

/-- **The dictionary-id fix-up is per field.**  Each of the three id lists is re-stamped as soon as
ITS OWN flag is in the request — whatever the other two flags are (a request with exactly one of
SPLIT_A / SPLIT_B / WORD_STRUCTURE included): the loaded list is `update_dict_id` of the stored one. -/
theorem rebase_needs_only_own_flag (src : Src) (po : List Nat) (nsys : Nat) (hok : LexSetOk src po)
    (id : Nat) (hd : widDic id < src.length) (hk : widWord id < (src[widDic id]).1.length) (S : Nat) :
    ∃ i, getWordInfoSubset (lexSetOf src po nsys) id S = .ok i ∧
      (S.testBit SPLIT_A = true →
        i.aUnitSplit = updateDictId ((src[widDic id]).1[widWord id]).aUnitSplit (widDic id)) ∧
      (S.testBit SPLIT_B = true →
        i.bUnitSplit = updateDictId ((src[widDic id]).1[widWord id]).bUnitSplit (widDic id)) ∧
      (S.testBit WORD_STRUCTURE = true →
        i.wordStructure = updateDictId ((src[widDic id]).1[widWord id]).wordStructure (widDic id)) := by
  obtain ⟨i, e, f, _⟩ := getWordInfoSubset_spec src po nsys hok id hd hk S
  exact ⟨i, e, fun h => f.aUnitSplit (testBit_effSubset (by decide) h),
    fun h => f.bUnitSplit (testBit_effSubset (by decide) h),
    fun h => f.wordStructure (testBit_effSubset (by decide) h)⟩

/-- **What the fix-up does to one reference** (`update_dict_id`, dictionary number `d < 16`): the list
keeps its length; a reference into the system dictionary is unchanged; every other reference (the
builder writes `U`-references with number 1, also inside the second, third, … user dictionary) gets
number `d` — the dictionary the word was read from — and keeps its word number. -/
theorem rebase_user_references (split : List Nat) (d : Nat) (hd : d < 16) :
    (updateDictId split d).length = split.length ∧
    ∀ i (hi : i < split.length) (hi' : i < (updateDictId split d).length),
      (widDic split[i] = 0 → (updateDictId split d)[i] = split[i]) ∧
      (widDic split[i] > 0 → widDic (updateDictId split d)[i] = d ∧
        widWord (updateDictId split d)[i] = widWord split[i]) :=
  updateDictId_spec split d hd

/-- **Clause 2 (full for configurations without path-rewrite plugins): boundaries and word identities
do not depend on the subset.**  For every well-formed lexicon set (any number of user dictionaries),
every initial mode and EVERY sequence of `set_mode` / `set_subset` calls, every rewritten text and every
best path handed over by the lattice search (which reads word parameters only — the subset is not an
input of it): the word ids and byte boundaries produced by `resolve_best_path` + `split_path` under the
subset the tokenizer ends up with equal those of a full-field analysis in the same final mode; a
failure (an ill-formed split reference) is the same failure in both.  The only word-info fields read
on the way are the split list of the mode — loaded and re-stamped because its flag is in the subset
after any order of calls (`mode_flag_loaded_any_order`, `rebase_needs_only_own_flag`) — and the
head-word length — loaded because a later flag is requested although `set_mode` does not normalise. -/
theorem boundaries_subset_free (v : NzVariant) (src : Src) (po : List Nat) (nsys : Nat) (hok : LexSetOk src po)
    (m0 : Mode) (ops : List Op) (text : Bytes) (path : List PNode) :
    shapeRes (tokenize (lexSetOf src po nsys) (applyOps v (newTok m0) ops) text path) =
    shapeRes (tokenize (lexSetOf src po nsys) (newTok (applyOps v (newTok m0) ops).mode) text path) := by
  have hflag := mode_flag_loaded_any_order v m0 ops
  exact tokenize_agree (lexSetOf src po nsys) (applyOps v (newTok m0) ops).mode
    (applyOps v (newTok m0) ops).subset ALL
    (gwisAgree_all src po nsys hok _ _ hflag) text path

/-! ### non-vacuity -/

/-- `WF`, `DfOk` are inhabited by a word with every kind of field (astral character, 2-byte length
prefix boundary not needed here), and the theorems apply to the concrete bytes the writer emits. -/
example : WF { surface := [26481, 20140, 134071], headWordLength := 9, posId := 5, normalizedForm := [97],
               dictionaryFormWordId := 0, readingForm := [12488], aUnitSplit := [1, 2], synonymGroupIds := [4294967295] } := by
  refine ⟨⟨?_, by decide⟩, by decide, by decide, ⟨?_, by decide⟩, by decide, by decide, ⟨?_, by decide⟩,
    ⟨by decide, ?_⟩, ⟨by decide, by simp⟩, ⟨by decide, by simp⟩, ⟨by decide, ?_⟩⟩
  · intro c hc; simp at hc; rcases hc with rfl | rfl | rfl <;> (unfold Scalar; omega)
  · intro c hc; simp at hc; subst hc; unfold Scalar; omega
  · intro c hc; simp at hc; subst hc; unfold Scalar; omega
  · intro c hc; simp at hc; rcases hc with rfl | rfl <;> omega
  · intro c hc; simp at hc; subst hc; omega

example : encodeBytes d10Word = [1, 66, 48, 3, 0, 0, 0, 255, 255, 255, 255, 0, 0, 0, 0, 0] := by decide

example : parse (2 ^ READING_FORM) (encodeBytes d10Word ++ [7, 7]) =
    .ok { headWordLength := 3, dictionaryFormWordId := -1 } := by decide

/-! ### non-vacuity of `LexSetOk`: three dictionaries, `U`-references inside the SECOND user dictionary -/

/-- system dictionary `a`; first user dictionary `b`; second user dictionary `c` and `cca` whose A split,
B split and word structure are all `U0 / 0` — stored as (dictionary 1, word 0), (dictionary 0, word 0) -/
def exSrc : Src :=
  [([{ surface := [97], headWordLength := 1 }], true),
   ([{ surface := [98], headWordLength := 1 }], true),
   ([{ surface := [99], headWordLength := 1 },
     { surface := [99, 99, 97], headWordLength := 3, aUnitSplit := [268435456, 0], bUnitSplit := [268435456, 0],
       wordStructure := [268435456, 0] }], false)]

example : LexSetOk exSrc [0, 3, 4] := by
  refine ⟨?_, ?_, rfl⟩
  · intro p hp w hw
    simp [exSrc] at hp
    rcases hp with rfl | rfl | rfl
    · simp at hw; subst hw
      exact wf_basic [97] 1 [] [] [] (strOk_one 97 (by omega)) (by omega) arrOk_nil arrOk_nil arrOk_nil
    · simp at hw; subst hw
      exact wf_basic [98] 1 [] [] [] (strOk_one 98 (by omega)) (by omega) arrOk_nil arrOk_nil arrOk_nil
    · simp at hw
      rcases hw with rfl | rfl
      · exact wf_basic [99] 1 [] [] [] (strOk_one 99 (by omega)) (by omega) arrOk_nil arrOk_nil arrOk_nil
      · refine wf_basic [99, 99, 97] 3 _ _ _ ⟨?_, by decide⟩ (by omega) arrOk_u0_s0 arrOk_u0_s0 arrOk_u0_s0
        intro x hx; simp at hx; rcases hx with rfl | rfl <;> (left; omega)
  · intro p hp w hw
    simp [exSrc] at hp
    rcases hp with rfl | rfl | rfl <;> simp at hw
    · subst hw; right; decide
    · subst hw; right; decide
    · rcases hw with rfl | rfl <;> (right; decide)

example : (getWordInfoSubset (lexSetOf exSrc [0, 3, 4] 3) (widNew 2 1) (2 ^ SPLIT_A)).bind
    (fun i => .ok (i.aUnitSplit, i.bUnitSplit, i.wordStructure)) = .ok ([536870912, 0], [], []) := by decide
example : (getWordInfoSubset (lexSetOf exSrc [0, 3, 4] 3) (widNew 2 1) (2 ^ WORD_STRUCTURE)).bind
    (fun i => .ok (i.aUnitSplit, i.bUnitSplit, i.wordStructure)) = .ok ([], [], [536870912, 0]) := by decide

example : shapeRes (tokenize (lexSetOf exSrc [0, 3, 4] 3) (applyOps .fix (newTok .C) [.subset 0, .mode .A])
      [99, 99, 97] [⟨widNew 2 1, 0, 3, []⟩]) = .ok [(536870912, 0, 1), (0, 1, 3)] := by decide

/-- hypotheses `Unloaded`, `widDic id < …`, `widWord id < …` are inhabited: request {SURFACE} does not
reach the dictionary-form id; the consult of word 0 then shows through (`c` is word 0 of `exSrc[2]`) -/
example : Unloaded (effSubset false (2 ^ SURFACE)) 4 := by
  refine ⟨by omega, ?_⟩
  rw [if_pos (by omega)]
  intro c hc
  have : (2 ^ SURFACE).testBit c = true := effSubset_testBit hc
  rw [Nat.testBit_two_pow] at this
  have h0 : SURFACE = c := of_decide_eq_true this
  unfold SURFACE at h0
  omega

example : (getWordInfo (lexOf (exSrc[2]).1 false) 1 (2 ^ SURFACE)).bind
    (fun i => .ok (i.dictionaryFormWordId, i.dictionaryForm)) = .ok (0, [99]) := by decide

example : ∃ hd : widDic (widNew 2 1) < exSrc.length, widWord (widNew 2 1) < (exSrc[widDic (widNew 2 1)]).1.length := by
  decide
end C11
