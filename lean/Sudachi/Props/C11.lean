import Sudachi.Proofs.Subset
import Sudachi.Proofs.SubsetTok
import Sudachi.Proofs.SubsetRw
/-!
# C11 — Loading a subset of word fields never changes the fields that were requested

Model: `Subset.parse` (`WordInfoParser::parse`, the `parse_field!` macro unfolded over the ten
fields with their byte-level readers and skip functions), `Subset.normalize`
(`InfoSubset::normalize`, variant `cur` = the tree, `fix` = with the repair of D10),
`Subset.getWordInfo` (`WordInfos::get_word_info`), the accessors, `setMode`/`setSubset`,
`Subset.getWordInfoSubset` (`LexiconSet::get_word_info_subset` with the per-field POS / dictionary-id
fix-ups of user dictionaries), `Subset.tokenize` (`resolve_best_path` + `split_path` +
`NodeSplitIterator::next` on the best path the lattice search hands over), `Subset.tokenizeRw`
(the same with the path-rewrite plugins between `resolve_best_path` and `split_path`: the plugin model
of C14, `Sudachi.Model.Rewrite`, run on the word infos loaded with the tokenizer's subset; `set_subset`
variant `pw = cur` = the tree, `fix` = the request widened by the fields the configured plugins declare).
Quantifiers: every word the binary format can represent (`WF`: scalar values, at most 32 767
UTF-16 units per string, at most 255 array elements, 16/32-bit numbers), every request mask
(all 1 024 subsets, junk bits included), arbitrary bytes after the record.
-/
namespace C11
open Subset

/-- **Clause 1, stored fields (full).**  For every representable word, every request `S` and any
bytes after the record: the subset parse and the full parse both succeed (so every skip advanced
exactly as the corresponding parse, and the early return never cut a requested field), and every
field requested in `S` has the same stored value in both. -/
theorem subset_fields_eq (w : WordInfoData) (hw : WF w) (S : Nat) (rest : Bytes) :
    ∃ i1 i2, parse S (encodeBytes w ++ rest) = .ok i1 ∧ parse ALL (encodeBytes w ++ rest) = .ok i2 ∧
      FieldsEq S i1 i2 ∧ FieldsEq S i1 w := by
  obtain ⟨i1, e1, l1, _⟩ := parse_spec w hw S rest
  obtain ⟨i2, e2, l2, _⟩ := parse_spec w hw ALL rest
  exact ⟨i1, i2, e1, e2, fieldsEq_of_proj l1 l2 (fun _ _ h => h) (fun _ hj _ => all_testBit hj),
    fieldsEq_of_proj (w := w) (U := S) l1 (fun _ _ => rfl) (fun _ _ h => h) (fun _ _ h => h)⟩

/-- The parser is total on well-formed records for *every* request: no request makes a skip run
off the record (`skip_wid_array` would panic) or a reader fail. -/
theorem parse_total (w : WordInfoData) (hw : WF w) (S : Nat) (rest : Bytes) :
    ∃ i, parse S (encodeBytes w ++ rest) = .ok i := by
  obtain ⟨i, e, _⟩ := parse_spec w hw S rest
  exact ⟨i, e⟩

/-- Light fields are read whenever a later field is requested.  `set_mode` ORs SPLIT_A/SPLIT_B
into the subset *without* normalising (stateful_tokenizer.rs:81), so the head-word length that
`NodeSplitIterator` needs is not in the mask; it is loaded all the same. -/
theorem head_word_length_loaded_with_splits (w : WordInfoData) (hw : WF w) (S : Nat) (rest : Bytes)
    (h : S.testBit SPLIT_A = true ∨ S.testBit SPLIT_B = true) :
    ∃ i, parse S (encodeBytes w ++ rest) = .ok i ∧ i.headWordLength = w.headWordLength := by
  obtain ⟨i, e, l, _⟩ := parse_spec w hw S rest
  refine ⟨i, e, ?_⟩
  have : Loaded S 1 := by
    refine ⟨by omega, Or.inr ⟨Or.inl rfl, ?_⟩⟩
    rcases h with h | h
    · exact ⟨6, by omega, h⟩
    · exact ⟨7, by omega, h⟩
  simpa [proj] using l 1 this

/-- requested accessors agree (everything except the dictionary-form string, which needs the
lexicon: see `dictionary_form_eq_fix`) -/
structure AccEq (S : Nat) (a b : WordInfoData) : Prop where
  fields : FieldsEq S a b
  normalizedForm : S.testBit NORMALIZED_FORM = true → accNormalizedForm a = accNormalizedForm b
  readingForm : S.testBit READING_FORM = true → accReadingForm a = accReadingForm b

/-- **Clause 1, accessors of one record (full, both variants of `normalize`).**  What the analyser
loads for a request `S` is `normalize S`; every accessor of a field in `S` — including the
fall-back to the surface of `normalized_form()` / `reading_form()` — equals the full load. -/
theorem accessor_eq (v : NzVariant) (w : WordInfoData) (hw : WF w) (S : Nat) (rest : Bytes) :
    ∃ i1 i2, parse (normalize v S) (encodeBytes w ++ rest) = .ok i1 ∧
      parse ALL (encodeBytes w ++ rest) = .ok i2 ∧ AccEq S i1 i2 := by
  obtain ⟨i1, e1, l1, _⟩ := parse_spec w hw (normalize v S) rest
  obtain ⟨i2, e2, l2, _⟩ := parse_spec w hw ALL rest
  have hf : FieldsEq S i1 i2 :=
    fieldsEq_of_proj l1 l2 (fun j _ h => testBit_normalize_of v S j h) (fun _ hj _ => all_testBit hj)
  have hsurf : (normalize v S).testBit SURFACE = true → i1.surface = i2.surface := by
    intro h
    have a := l1 0 ⟨by omega, Or.inl h⟩
    have b := l2 0 ⟨by omega, Or.inl (by decide)⟩
    simp only [proj] at a b
    simp at a b
    rw [a, b]
  refine ⟨i1, i2, e1, e2, hf, ?_, ?_⟩
  · intro h
    have hs := hsurf (normalize_surface_of_forms v S (Or.inr h))
    simp only [accNormalizedForm, hf.normalizedForm h, hs]
  · intro h
    have hs := hsurf (normalize_surface_of_forms v S (Or.inl h))
    simp only [accReadingForm, hf.readingForm h, hs]

/-- **Clause 1, dictionary form (full for the repaired `normalize`).**  In a lexicon of
representable words whose dictionary-form references stay inside the lexicon, for every request
containing DIC_FORM_WORD_ID: `get_word_info` with `normalize S` and with all fields both succeed
and `dictionary_form()` agrees — also for words that are their own dictionary form (id -1 or own
id), where the accessor falls back to the surface. -/
theorem dictionary_form_eq_fix (ws : List WordInfoData) (hwf : ∀ w ∈ ws, WF w) (hdf : DfOk ws) (hasSyn : Bool)
    (k : Nat) (hk : k < ws.length) (S : Nat) (hS : S.testBit DIC_FORM_WORD_ID = true) :
    ∃ i1 i2, getWordInfo (lexOf ws hasSyn) k (normalize .fix S) = .ok i1 ∧
      getWordInfo (lexOf ws hasSyn) k ALL = .ok i2 ∧
      accDictionaryForm i1 = accDictionaryForm i2 ∧ i1.dictionaryFormWordId = i2.dictionaryFormWordId := by
  have eff : ∀ T : Nat, ∀ j, j ≠ SYNONYM_GROUP_ID → T.testBit j = true → (effSubset hasSyn T).testBit j = true := by
    intro T j hj h
    unfold effSubset
    split
    · rw [testBit_remove, h]; simp [Ne.symm hj]
    · exact h
  have n4 : (normalize .fix S).testBit 4 = true := testBit_normalize_of _ S 4 hS
  have n0 : (normalize .fix S).testBit 0 = true := normalize_fix_surface_of_dicform S hS
  have L1 : ∀ j, (j = 0 ∨ j = 4) → Loaded (effSubset hasSyn (normalize .fix S)) j := by
    intro j hj
    rcases hj with rfl | rfl
    · exact ⟨by omega, Or.inl (eff _ 0 (by decide) n0)⟩
    · exact ⟨by omega, Or.inl (eff _ 4 (by decide) n4)⟩
  have L2 : ∀ j, (j = 0 ∨ j = 4) → Loaded (effSubset hasSyn ALL) j := by
    intro j hj
    rcases hj with rfl | rfl
    · exact ⟨by omega, Or.inl (eff _ 0 (by decide) (by decide))⟩
    · exact ⟨by omega, Or.inl (eff _ 4 (by decide) (by decide))⟩
  obtain ⟨i1, e1, l1, d1⟩ := getWordInfo_spec ws hwf hdf hasSyn k hk (normalize .fix S) (L1 4 (Or.inr rfl))
  obtain ⟨i2, e2, l2, d2⟩ := getWordInfo_spec ws hwf hdf hasSyn k hk ALL (L2 4 (Or.inr rfl))
  have s1 := l1 0 (L1 0 (Or.inl rfl))
  have s2 := l2 0 (L2 0 (Or.inl rfl))
  have f1 := l1 4 (L1 4 (Or.inr rfl))
  have f2 := l2 4 (L2 4 (Or.inr rfl))
  simp only [proj] at s1 s2 f1 f2
  simp at s1 s2 f1 f2
  refine ⟨i1, i2, e1, e2, ?_, by rw [f1, f2]⟩
  simp only [accDictionaryForm, d1, d2, s1, s2]

/-- **Clause 1 at `WordInfos::get_word_info` (full).**  In a lexicon of representable words whose
dictionary-form references stay inside the lexicon, for EVERY request `S` (junk bits included), with or
without synonym ids in the header: `get_word_info S` and `get_word_info ALL` both succeed and agree on
every stored field of `S` (synonym ids only when the header announces them: the reader drops that flag
otherwise).  For requests that do not reach the dictionary-form id the id keeps its default 0 and the
code consults word 0 for a dictionary form; that consult cannot fail
(`get_word_info_unloaded_defaults`), which is what the earlier `_partial` version was missing. -/
theorem get_word_info_fields_eq (ws : List WordInfoData) (hwf : ∀ w ∈ ws, WF w) (hdf : DfOk ws)
    (hasSyn : Bool) (k : Nat) (hk : k < ws.length) (S : Nat) :
    ∃ i1 i2, getWordInfo (lexOf ws hasSyn) k S = .ok i1 ∧ getWordInfo (lexOf ws hasSyn) k ALL = .ok i2 ∧
      FieldsEq (effSubset hasSyn S) i1 i2 := by
  obtain ⟨i1, e1, l1, _⟩ := getWordInfo_spec_full ws hwf hdf hasSyn k hk S
  obtain ⟨i2, e2, l2, _⟩ := getWordInfo_spec_full ws hwf hdf hasSyn k hk ALL
  exact ⟨i1, i2, e1, e2, fieldsEq_of_proj l1 l2 (fun _ _ h => h) (effSubset_all_of hasSyn S)⟩

/-- **Fields that are not loaded keep their defaults** (`WordInfoData::default()`), for every request,
at `get_word_info` level: a heavy field that is not requested, and a light field with no request bit
at or above it, read 0 / empty.  Consequence spelled out for the dictionary form: when the id is not
loaded the code still runs its consult with the default id 0 — the stored `dictionary_form` is then the
surface of word 0 (empty for word 0 itself), and the call succeeds. -/
theorem get_word_info_unloaded_defaults (ws : List WordInfoData) (hwf : ∀ w ∈ ws, WF w) (hdf : DfOk ws)
    (hasSyn : Bool) (k : Nat) (hk : k < ws.length) (S : Nat) :
    ∃ i, getWordInfo (lexOf ws hasSyn) k S = .ok i ∧
      (∀ b, Unloaded (effSubset hasSyn S) b → proj b i = proj b {}) ∧
      (Unloaded (effSubset hasSyn S) 4 →
        i.dictionaryFormWordId = 0 ∧
        i.dictionaryForm = if k = 0 then [] else (ws[0]'(by omega)).surface) := by
  obtain ⟨i, e, _, u, _, du⟩ := getWordInfo_spec_full ws hwf hdf hasSyn k hk S
  refine ⟨i, e, u, fun h => ⟨by simpa [proj] using u 4 h, ?_⟩⟩
  rw [du h]
  have h0 : 0 < ws.length := by omega
  by_cases hk0 : k = 0
  · simp [dicFormOf, hk0]
  · have : ¬ ((0 : Int) = (k : Int)) := by omega
    simp [dicFormOf, hk0, this, List.getElem?_eq_getElem h0]

/-- a one-word lexicon: `あ`, its own dictionary form (`*` in the CSV, id -1), nothing else -/
def d10Word : WordInfoData := { surface := [12354], headWordLength := 3, dictionaryFormWordId := -1 }

/-- **D10 (the tree's `normalize` violates clause 1).**  Request = {DIC_FORM_WORD_ID}: the tree's
`normalize` leaves it alone, `get_word_info` loads no surface and `dictionary_form()` is empty,
while the full load answers `あ`.  With the repaired `normalize` the same request answers `あ`. -/
theorem accessor_eq_counterexample :
    WF d10Word ∧ DfOk [d10Word] ∧
    normalize .cur (2 ^ DIC_FORM_WORD_ID) = 2 ^ DIC_FORM_WORD_ID ∧
    (getWordInfo (lexOf [d10Word] true) 0 (normalize .cur (2 ^ DIC_FORM_WORD_ID))).bind (fun i => .ok (accDictionaryForm i)) = .ok [] ∧
    (getWordInfo (lexOf [d10Word] true) 0 ALL).bind (fun i => .ok (accDictionaryForm i)) = .ok [12354] ∧
    (getWordInfo (lexOf [d10Word] true) 0 (normalize .fix (2 ^ DIC_FORM_WORD_ID))).bind (fun i => .ok (accDictionaryForm i)) = .ok [12354] := by
  refine ⟨?_, ?_, by decide, by decide, by decide, by decide⟩
  · refine ⟨⟨?_, by decide⟩, by decide, by decide, ⟨by simp [d10Word], by decide⟩, by decide, by decide,
      ⟨by simp [d10Word], by decide⟩, ⟨by decide, by simp [d10Word]⟩, ⟨by decide, by simp [d10Word]⟩,
      ⟨by decide, by simp [d10Word]⟩, ⟨by decide, by simp [d10Word]⟩⟩
    intro c hc
    simp [d10Word] at hc
    subst hc
    left; decide
  · intro w hw
    simp at hw
    subst hw
    left; decide

/-! ### tokenizer: every order of `set_mode` / `set_subset` -/

/-- `s ⊇ t` on masks -/
def Contains (s t : Nat) : Prop := ∀ j, t.testBit j = true → s.testBit j = true

/-- `set_subset` loads at least what was asked for, whatever the mode and the previous subset -/
theorem set_subset_contains_request (v : NzVariant) (st : TokState) (S : Nat) :
    Contains (setSubset v st S).subset S := by
  intro j h
  simp only [setSubset, Nat.testBit_or]
  have : (normalize v (S ||| modeSubset st.mode)).testBit j = true :=
    testBit_normalize_of v _ j (by simp [Nat.testBit_or, h])
  simp [this]

/-- `set_mode` never drops a loaded field -/
theorem set_mode_keeps_subset (st : TokState) (m : Mode) : Contains (setMode st m).subset st.subset := by
  intro j h
  simp [setMode, Nat.testBit_or, h]

/-- **Every order.**  After any sequence of `set_mode` / `set_subset` calls on a fresh tokenizer
the split list of the *current* mode is in the loaded subset (so `split_path` sees the same split
lists as the full-field analysis; the head-word lengths follow by
`head_word_length_loaded_with_splits`). -/
theorem mode_flag_loaded_any_order (v : NzVariant) (m0 : Mode) (ops : List Op) :
    Contains (applyOps v (newTok m0) ops).subset (modeSubset (applyOps v (newTok m0) ops).mode) := by
  have step : ∀ (st : TokState) (op : Op), Contains st.subset (modeSubset st.mode) →
      Contains (applyOp v st op).subset (modeSubset (applyOp v st op).mode) := by
    intro st op _
    cases op with
    | mode m => intro j h; simp only [applyOp, setMode] at h ⊢; rw [Nat.testBit_or, h]; simp
    | subset s => intro j h; simp only [applyOp, setSubset] at h ⊢; rw [Nat.testBit_or, h]; simp
  have gen : ∀ (ops : List Op) (st : TokState), Contains st.subset (modeSubset st.mode) →
      Contains (applyOps v st ops).subset (modeSubset (applyOps v st ops).mode) := by
    intro ops
    induction ops with
    | nil => intro st h; exact h
    | cons op ops ih => intro st h; exact ih (applyOp v st op) (step st op h)
  apply gen
  intro j h
  cases m0 <;> simp [newTok, modeSubset, Nat.testBit_two_pow] at h ⊢ <;> (subst h; decide)

/-- and a request survives every later `set_mode` -/
theorem request_survives_set_mode (v : NzVariant) (st : TokState) (S : Nat) (ms : List Mode) :
    Contains (applyOps v (setSubset v st S) (ms.map Op.mode)).subset S := by
  have gen : ∀ (ms : List Mode) (st' : TokState), Contains st'.subset S →
      Contains (applyOps v st' (ms.map Op.mode)).subset S := by
    intro ms
    induction ms with
    | nil => intro st' h; exact h
    | cons m ms ih =>
      intro st' h
      exact ih (setMode st' m) (fun j hj => set_mode_keeps_subset st' m j (h j hj))
  exact gen ms _ (set_subset_contains_request v st S)

/-! ### `LexiconSet::get_word_info_subset` and the analysis after the lattice search -/

/-- **Clause 1 at `LexiconSet::get_word_info_subset` (full), any number of user dictionaries.**  In a
lexicon set of representable words (dictionary forms inside their own lexicon, one POS offset per
lexicon), for every word id of the set and EVERY request `S`: the subset load and the full load both
succeed and agree on every stored field of `S` *after* the fix-ups of user dictionaries — the POS id
re-based by the dictionary's offset, the `U`-references of SPLIT_A / SPLIT_B / WORD_STRUCTURE
re-stamped with the dictionary's own number (synonym ids only when the header announces them). -/
theorem get_word_info_subset_fields_eq (src : Src) (po : List Nat) (nsys : Nat) (hok : LexSetOk src po)
    (id : Nat) (hd : widDic id < src.length) (hk : widWord id < (src[widDic id]).1.length) (S : Nat) :
    ∃ i1 i2, getWordInfoSubset (lexSetOf src po nsys) id S = .ok i1 ∧
      getWordInfoSubset (lexSetOf src po nsys) id ALL = .ok i2 ∧
      FieldsEq (effSubset (src[widDic id]).2 S) i1 i2 := by
  obtain ⟨i1, e1, f1, _⟩ := getWordInfoSubset_spec src po nsys hok id hd hk S
  obtain ⟨i2, e2, f2, _⟩ := getWordInfoSubset_spec src po nsys hok id hd hk ALL
  have up := effSubset_all_of (src[widDic id]).2 S
  refine ⟨i1, i2, e1, e2, ?_⟩
  constructor
  · intro h; rw [f1.surface h, f2.surface (up 0 (by omega) h)]
  · intro h; rw [f1.headWordLength h, f2.headWordLength (up 1 (by omega) h)]
  · intro h; rw [f1.posId h, f2.posId (up 2 (by omega) h)]
  · intro h; rw [f1.normalizedForm h, f2.normalizedForm (up 3 (by omega) h)]
  · intro h; rw [f1.dictionaryFormWordId h, f2.dictionaryFormWordId (up 4 (by omega) h)]
  · intro h; rw [f1.readingForm h, f2.readingForm (up 5 (by omega) h)]
  · intro h; rw [f1.aUnitSplit h, f2.aUnitSplit (up 6 (by omega) h)]
  · intro h; rw [f1.bUnitSplit h, f2.bUnitSplit (up 7 (by omega) h)]
  · intro h; rw [f1.wordStructure h, f2.wordStructure (up 8 (by omega) h)]
  · intro h; rw [f1.synonymGroupIds h, f2.synonymGroupIds (up 9 (by omega) h)]

/-- **The dictionary-id fix-up is per field.**  Each of the three id lists is re-stamped as soon as
ITS OWN flag is in the request — whatever the other two flags are (a request with exactly one of
SPLIT_A / SPLIT_B / WORD_STRUCTURE included): the loaded list is `update_dict_id` of the stored one. -/
theorem rebase_needs_only_own_flag (src : Src) (po : List Nat) (nsys : Nat) (hok : LexSetOk src po)
    (id : Nat) (hd : widDic id < src.length) (hk : widWord id < (src[widDic id]).1.length) (S : Nat) :
    ∃ i, getWordInfoSubset (lexSetOf src po nsys) id S = .ok i ∧
      (S.testBit SPLIT_A = true →
        i.aUnitSplit = updateDictId ((src[widDic id]).1[widWord id]).aUnitSplit (widDic id)) ∧
      (S.testBit SPLIT_B = true →
        i.bUnitSplit = updateDictId ((src[widDic id]).1[widWord id]).bUnitSplit (widDic id)) ∧
      (S.testBit WORD_STRUCTURE = true →
        i.wordStructure = updateDictId ((src[widDic id]).1[widWord id]).wordStructure (widDic id)) := by
  obtain ⟨i, e, f, _⟩ := getWordInfoSubset_spec src po nsys hok id hd hk S
  exact ⟨i, e, fun h => f.aUnitSplit (testBit_effSubset (by decide) h),
    fun h => f.bUnitSplit (testBit_effSubset (by decide) h),
    fun h => f.wordStructure (testBit_effSubset (by decide) h)⟩

/-- **What the fix-up does to one reference** (`update_dict_id`, dictionary number `d < 16`): the list
keeps its length; a reference into the system dictionary is unchanged; every other reference (the
builder writes `U`-references with number 1, also inside the second, third, … user dictionary) gets
number `d` — the dictionary the word was read from — and keeps its word number. -/
theorem rebase_user_references (split : List Nat) (d : Nat) (hd : d < 16) :
    (updateDictId split d).length = split.length ∧
    ∀ i (hi : i < split.length) (hi' : i < (updateDictId split d).length),
      (widDic split[i] = 0 → (updateDictId split d)[i] = split[i]) ∧
      (widDic split[i] > 0 → widDic (updateDictId split d)[i] = d ∧
        widWord (updateDictId split d)[i] = widWord split[i]) :=
  updateDictId_spec split d hd

/-- **Clause 2 (full for configurations without path-rewrite plugins): boundaries and word identities
do not depend on the subset.**  For every well-formed lexicon set (any number of user dictionaries),
every initial mode and EVERY sequence of `set_mode` / `set_subset` calls, every rewritten text and every
best path handed over by the lattice search (which reads word parameters only — the subset is not an
input of it): the word ids and byte boundaries produced by `resolve_best_path` + `split_path` under the
subset the tokenizer ends up with equal those of a full-field analysis in the same final mode; a
failure (an ill-formed split reference) is the same failure in both.  The only word-info fields read
on the way are the split list of the mode — loaded and re-stamped because its flag is in the subset
after any order of calls (`mode_flag_loaded_any_order`, `rebase_needs_only_own_flag`) — and the
head-word length — loaded because a later flag is requested although `set_mode` does not normalise. -/
theorem boundaries_subset_free (v : NzVariant) (src : Src) (po : List Nat) (nsys : Nat) (hok : LexSetOk src po)
    (m0 : Mode) (ops : List Op) (text : Bytes) (path : List PNode) :
    shapeRes (tokenize (lexSetOf src po nsys) (applyOps v (newTok m0) ops) text path) =
    shapeRes (tokenize (lexSetOf src po nsys) (newTok (applyOps v (newTok m0) ops).mode) text path) := by
  have hflag := mode_flag_loaded_any_order v m0 ops
  exact tokenize_agree (lexSetOf src po nsys) (applyOps v (newTok m0) ops).mode
    (applyOps v (newTok m0) ops).subset ALL
    (gwisAgree_all src po nsys hok _ _ hflag) text path

/-! ### the skip functions -/

/-- **Skipping a field consumes exactly the bytes parsing it consumes (full): every one of the ten field
codecs, EVERY input.**  Whenever the "true" function of a `parse_field!` invocation (`utf16_string_parser`,
`u32_array_parser` / `u32_wid_array_parser`, `string_length_parser`, `le_u16`, `le_i32`) succeeds on ANY
byte string — a well-formed record or not, any length prefix incl. the two-byte form, any count byte —
its "false" function (`skip_u16_string`, `skip_wid_array`, `skip_u32_array`, the light fields' own reader)
succeeds as well and leaves the SAME remaining input.  (`skip_u16_string` must therefore honour the
two-byte length prefix, `skip_*_array` the one-byte count.) -/
theorem skip_eq_parse_then_drop (f : Field) (hf : f ∈ fields) (bs : Bytes)
    (upd : WordInfoData → WordInfoData) (next : Bytes) (h : f.tfn bs = .ok (upd, next)) : f.ffn bs = .ok next := by
  simp only [fields, List.mem_cons, List.not_mem_nil, or_false] at hf
  rcases hf with rfl | rfl | rfl | rfl | rfl | rfl | rfl | rfl | rfl | rfl
  · obtain ⟨v, hv⟩ := assign_ok h; exact utf16String_ok_skip hv
  · obtain ⟨v, hv⟩ := assign_ok h; exact forget_of_ok hv
  · obtain ⟨v, hv⟩ := assign_ok h; exact forget_of_ok hv
  · obtain ⟨v, hv⟩ := assign_ok h; exact utf16String_ok_skip hv
  · obtain ⟨v, hv⟩ := assign_ok h; exact forget_of_ok hv
  · obtain ⟨v, hv⟩ := assign_ok h; exact utf16String_ok_skip hv
  · obtain ⟨v, hv⟩ := assign_ok h; exact u32Array_ok_skip hv
  · obtain ⟨v, hv⟩ := assign_ok h; exact u32Array_ok_skip hv
  · obtain ⟨v, hv⟩ := assign_ok h; exact u32Array_ok_skip hv
  · obtain ⟨v, hv⟩ := assign_ok h; exact u32Array_ok_skip hv

/-- **…and on what the writer emits both succeed and consume exactly the encoding (full), all lengths.**
For every representable string (0 … 32 767 UTF-16 units; the writer `write_len` uses ONE length byte below
127 units and TWO from 127 on, the reader switches at 128 — both read 127 back) the parser returns the
string, the skip function returns the same rest, and the number of bytes stepped over is
`(1 or 2) + 2·units`. -/
theorem skip_string_consumes_encoding (s : List Nat) (hs : StrOk s) (rest : Bytes) :
    utf16String (encStr s ++ rest) = .ok (s, rest) ∧ skipU16String (encStr s ++ rest) = .ok rest ∧
    (encStr s).length = (if (toUtf16 s).length < 127 then 1 else 2) + 2 * (toUtf16 s).length :=
  ⟨utf16String_encStr hs rest, skipU16String_encStr hs rest, length_encStr s⟩

/-- the same for the id arrays (one count byte, 0 … 255 elements of four bytes): `skip_wid_array` /
`skip_u32_array` step over `1 + 4·count` bytes, exactly what `u32_wid_array_parser` / `u32_array_parser`
consume -/
theorem skip_array_consumes_encoding (a : List Nat) (ha : ArrOk a) (rest : Bytes) :
    u32Array (encArr a ++ rest) = .ok (a, rest) ∧ skipArray (encArr a ++ rest) = .ok rest ∧
    (encArr a).length = 1 + 4 * a.length :=
  ⟨u32Array_encArr ha rest, skipArray_encArr ha rest, length_encArr a⟩

/-- the boundary values of the length prefix, as the writer emits them and as the reader takes them -/
example : encLen 0 = [0] ∧ encLen 126 = [126] ∧ encLen 127 = [128, 127] ∧ encLen 128 = [128, 128] ∧
    encLen 255 = [128, 255] ∧ encLen 256 = [129, 0] ∧ encLen 32767 = [255, 255] := by decide
example (rest : Bytes) : stringLength ([127] ++ rest) = .ok (127, rest) := stringLength_short (by omega) rest
example (rest : Bytes) : stringLength ([128, 127] ++ rest) = .ok (127, rest) := stringLength_encLen (n := 127) (by omega) rest
/-- strings of exactly 126 / 127 / 128 / 32 767 units and arrays of 0 / 1 / 127 / 255 elements are
inside the quantifier of the two theorems above -/
example (rest : Bytes) : skipU16String (encStr (List.replicate 127 97) ++ rest) = .ok rest :=
  (skip_string_consumes_encoding _ (strOk_replicate 127 (by omega)) rest).2.1
example (rest : Bytes) : skipU16String (encStr (List.replicate 128 97) ++ rest) = .ok rest :=
  (skip_string_consumes_encoding _ (strOk_replicate 128 (by omega)) rest).2.1
example (rest : Bytes) : skipU16String (encStr (List.replicate 32767 97) ++ rest) = .ok rest ∧
    (encStr (List.replicate 32767 97)).length = 2 + 2 * 32767 := by
  obtain ⟨_, h2, h3⟩ := skip_string_consumes_encoding _ (strOk_replicate 32767 (by omega)) rest
  refine ⟨h2, ?_⟩
  rw [h3, toUtf16_replicate, List.length_replicate]
  rfl
example (rest : Bytes) : skipArray (encArr (List.replicate 127 7) ++ rest) = .ok rest :=
  (skip_array_consumes_encoding _ (arrOk_replicate 127 (by omega)) rest).2.1
example (rest : Bytes) : skipArray (encArr (List.replicate 255 7) ++ rest) = .ok rest :=
  (skip_array_consumes_encoding _ (arrOk_replicate 255 (by omega)) rest).2.1
example (rest : Bytes) : skipArray (encArr [] ++ rest) = .ok rest ∧ skipArray (encArr [7] ++ rest) = .ok rest :=
  ⟨(skip_array_consumes_encoding _ arrOk_nil rest).2.1, (skip_array_consumes_encoding _ (arrOk_replicate 1 (by omega)) rest).2.1⟩
/-- the hypothesis of `skip_eq_parse_then_drop` is inhabited by inputs that are NOT encodings of a word:
a two-byte length prefix for a one-unit string -/
example : skipU16String [128, 1, 97, 0, 5] = .ok [5] ∧ (utf16String [128, 1, 97, 0, 5]) = .ok ([97], [5]) := by decide

/-! ### second clause WITH path-rewrite plugins -/

/-- **`set_subset` closes the request, `set_mode` never opens it again.**  After any sequence of
`set_mode` / `set_subset` on a fresh tokenizer: if NORMALIZED_FORM is loaded so is SURFACE — i.e. the
accessor `normalized_form()` (stored form, or the surface when that is empty), which is what
`JoinNumericPlugin` reads, is the full-load one as soon as the flag NORMALIZED_FORM is in the subset. -/
theorem surface_loaded_with_normalized_form (v : NzVariant) (m0 : Mode) (ops : List Op) :
    (applyOps v (newTok m0) ops).subset.testBit NORMALIZED_FORM = true →
    (applyOps v (newTok m0) ops).subset.testBit SURFACE = true := by
  have hms : ∀ m : Mode, (modeSubset m).testBit NORMALIZED_FORM = false := by intro m; cases m <;> decide
  have step : ∀ (st : TokState) (op : Op),
      (st.subset.testBit NORMALIZED_FORM = true → st.subset.testBit SURFACE = true) →
      ((applyOp v st op).subset.testBit NORMALIZED_FORM = true → (applyOp v st op).subset.testBit SURFACE = true) := by
    intro st op ih
    cases op with
    | mode m =>
      intro h
      simp only [applyOp, setMode, Nat.testBit_or, hms, Bool.or_false] at h ⊢
      simp [ih h]
    | subset s =>
      intro h
      simp only [applyOp, setSubset, Nat.testBit_or, hms, Bool.or_false] at h ⊢
      rw [normalize_testBit_ge2 v _ NORMALIZED_FORM (by decide)] at h
      simp [normalize_surface_of_forms v _ (Or.inr h)]
  have gen : ∀ (ops : List Op) (st : TokState),
      (st.subset.testBit NORMALIZED_FORM = true → st.subset.testBit SURFACE = true) →
      ((applyOps v st ops).subset.testBit NORMALIZED_FORM = true → (applyOps v st ops).subset.testBit SURFACE = true) := by
    intro ops
    induction ops with
    | nil => intro st h; exact h
    | cons op ops ih => intro st h; exact ih (applyOp v st op) (step st op h)
  exact gen ops (newTok m0) (fun _ => all_testBit (by decide))

/-- **Clause 2 with path-rewrite plugins, under the exact condition (full).**  For every well-formed
lexicon set, every initial mode and sequence of `set_mode` / `set_subset`, every rewritten text with its
character classes, every behaviour `P` of the numeric parser, EVERY stack of `JoinNumericPlugin` /
`JoinKatakanaOovPlugin` instances (any order, any settings, both variants of the numeric loop) and every
best path: if the subset the tokenizer ended up with holds POS_ID and NORMALIZED_FORM — the two fields
`JoinNumericPlugin` reads through `pos_id()` / `normalized_form()`; SURFACE then follows
(`surface_loaded_with_normalized_form`) — the word ids and byte boundaries of `resolve_best_path` + the
plugin stack + `split_path` (and the failure, if any) equal those of a full-field analysis in the same
final mode.  Everything else the plugins touch (`reading_form`, `dictionary_form`, its id, synonym ids,
word structure, the split list of the other modes) is only copied into merged nodes and never decides. -/
theorem boundaries_subset_free_plugins (v : NzVariant) (nv : Rewrite.NVariant) (src : Src) (po : List Nat) (nsys : Nat)
    (hok : LexSetOk src po) (m0 : Mode) (ops : List Op) (text : Bytes) (cat : List Nat) (P : List Char → Rewrite.POut)
    (pls : List Rewrite.Plugin) (path : List XNode)
    (hp : (applyOps v (newTok m0) ops).subset.testBit POS_ID = true)
    (hn : (applyOps v (newTok m0) ops).subset.testBit NORMALIZED_FORM = true) :
    shapeOut (tokenizeRw nv (lexSetOf src po nsys) (applyOps v (newTok m0) ops) text cat P pls path) =
    shapeOut (tokenizeRw nv (lexSetOf src po nsys) (newTok (applyOps v (newTok m0) ops).mode) text cat P pls path) := by
  have hflag := mode_flag_loaded_any_order v m0 ops
  have hs := surface_loaded_with_normalized_form v m0 ops hn
  exact tokenizeRw_agree nv (lexSetOf src po nsys) true (applyOps v (newTok m0) ops).mode
    (applyOps v (newTok m0) ops).subset ALL
    (gwisAgreeRW_all src po nsys hok true _ _ (fun _ => ⟨hs, hp, hn⟩) ⟨3, by omega, by omega, hn⟩ hflag)
    text cat P pls (fun _ => rfl) path

/-- **Stacks without `JoinNumericPlugin` need no word-info string at all.**  `JoinKatakanaOovPlugin`
decides from word ids, character ranges and character classes only; the merged node adds the head-word
lengths in a `u16`, so the only thing the request must not change is whether the reader reaches the
head-word length: true in modes A and B (the split flag is behind it), in mode C as soon as any flag
other than SURFACE / SYNONYM_GROUP_ID is requested.  (For the remaining requests — {} and {SURFACE} in
mode C — see `boundaries_subset_free_katakana_any_request`: equality under the hypothesis that the `u16`
sum cannot overflow, which holds on the real code because head-word lengths are key lengths.) -/
theorem boundaries_subset_free_katakana (v : NzVariant) (nv : Rewrite.NVariant) (src : Src) (po : List Nat) (nsys : Nat)
    (hok : LexSetOk src po) (m0 : Mode) (ops : List Op) (text : Bytes) (cat : List Nat) (P : List Char → Rewrite.POut)
    (pls : List Rewrite.Plugin) (path : List XNode) (hk : ¬ HasNumeric pls)
    (hh : (applyOps v (newTok m0) ops).mode ≠ .C ∨ HwlLoaded (applyOps v (newTok m0) ops).subset) :
    shapeOut (tokenizeRw nv (lexSetOf src po nsys) (applyOps v (newTok m0) ops) text cat P pls path) =
    shapeOut (tokenizeRw nv (lexSetOf src po nsys) (newTok (applyOps v (newTok m0) ops).mode) text cat P pls path) := by
  have hflag := mode_flag_loaded_any_order v m0 ops
  have hl : HwlLoaded (applyOps v (newTok m0) ops).subset := by
    rcases hh with hm | hl
    · revert hflag hm
      generalize (applyOps v (newTok m0) ops) = st
      intro hflag hm
      cases hmode : st.mode with
      | A => exact ⟨6, by omega, by omega, hflag 6 (by rw [hmode]; decide)⟩
      | B => exact ⟨7, by omega, by omega, hflag 7 (by rw [hmode]; decide)⟩
      | C => exact absurd hmode hm
    · exact hl
  exact tokenizeRw_agree nv (lexSetOf src po nsys) false (applyOps v (newTok m0) ops).mode
    (applyOps v (newTok m0) ops).subset ALL
    (gwisAgreeRW_all src po nsys hok false _ _ (fun h => by cases h) hl hflag)
    text cat P pls (fun h => absurd h hk) path

/-- **Stacks without `JoinNumericPlugin`, EVERY request (full under the no-overflow hypothesis).**  The
residual of `boundaries_subset_free_katakana` — requests under which the reader does not even reach the
head-word length ({} and {SURFACE} in mode C) — closed under the only thing that can tell the two analyses
apart: the `u16` addition of head-word lengths in `concat_oov_nodes`.  If that sum over the best path
overflows neither under the request nor under the full load (head-word lengths are byte lengths of keys
of a text of at most 65 535 bytes: true of every dictionary the builder produces, but not a consequence of
the record format, hence a hypothesis), word ids and byte boundaries are those of the full-field analysis
for EVERY sequence of `set_mode` / `set_subset` — the plugin's decisions read word ids, character ranges
and character classes only. -/
theorem boundaries_subset_free_katakana_any_request (v : NzVariant) (nv : Rewrite.NVariant) (src : Src) (po : List Nat)
    (nsys : Nat) (hok : LexSetOk src po) (m0 : Mode) (ops : List Op) (text : Bytes) (cat : List Nat)
    (P : List Char → Rewrite.POut) (pls : List Rewrite.Plugin) (path : List XNode) (hk : ¬ HasNumeric pls)
    (hfit : ∀ ns, resolvePathX (lexSetOf src po nsys) (applyOps v (newTok m0) ops).subset path = .ok ns →
      Rewrite.sumHwl ns < 65536)
    (hfitAll : ∀ ns, resolvePathX (lexSetOf src po nsys) ALL path = .ok ns → Rewrite.sumHwl ns < 65536) :
    shapeOut (tokenizeRw nv (lexSetOf src po nsys) (applyOps v (newTok m0) ops) text cat P pls path) =
    shapeOut (tokenizeRw nv (lexSetOf src po nsys) (newTok (applyOps v (newTok m0) ops).mode) text cat P pls path) := by
  have hflag := mode_flag_loaded_any_order v m0 ops
  exact tokenizeRw_agree0 nv (lexSetOf src po nsys) (applyOps v (newTok m0) ops).mode
    (applyOps v (newTok m0) ops).subset ALL
    (gwisAgree_all src po nsys hok _ _ hflag) text cat P pls hk path hfit hfitAll

/-- **Repaired `set_subset` (variant `fix`): the fields the configured plugins declare are always
loaded.**  After any sequence of `set_mode` / `set_subset` on a fresh tokenizer of a dictionary whose
plugin stack is `pls`, the subset contains `required_fields()` of every plugin. -/
theorem set_subset_fix_loads_plugin_fields (v : NzVariant) (pls : List Rewrite.Plugin) (m0 : Mode) (ops : List Op)
    (j : Nat) (hj : j < 10) (h : (reqOfStack pls).testBit j = true) :
    (applyOpsP v .fix pls (newTok m0) ops).subset.testBit j = true := by
  have step : ∀ (st : TokState) (op : Op), st.subset.testBit j = true →
      (applyOp v st (widenOp (reqOfStack pls) op)).subset.testBit j = true := by
    intro st op ih
    cases op with
    | mode m => simp [widenOp, applyOp, setMode, Nat.testBit_or, ih]
    | subset s =>
      simp only [widenOp, applyOp, setSubset, Nat.testBit_or]
      have : (normalize v (s ||| reqOfStack pls ||| modeSubset st.mode)).testBit j = true :=
        testBit_normalize_of v _ j (by simp [Nat.testBit_or, h])
      simp [this]
  have gen : ∀ (ops : List Op) (st : TokState), st.subset.testBit j = true →
      (applyOps v st (ops.map (widenOp (reqOfStack pls)))).subset.testBit j = true := by
    intro ops
    induction ops with
    | nil => intro st h; exact h
    | cons op ops ih => intro st h; exact ih _ (step st op h)
  exact gen ops (newTok m0) (all_testBit hj)

/-- **Clause 2 with a `JoinNumericPlugin`, repaired `set_subset` (full, no condition on the request).**
With the variant `fix` every request — the empty one included — yields the word ids and byte boundaries
of the full-field analysis, for every stack that contains a `JoinNumericPlugin`. -/
theorem boundaries_subset_free_plugins_fix (v : NzVariant) (nv : Rewrite.NVariant) (src : Src) (po : List Nat) (nsys : Nat)
    (hok : LexSetOk src po) (m0 : Mode) (ops : List Op) (text : Bytes) (cat : List Nat) (P : List Char → Rewrite.POut)
    (pls : List Rewrite.Plugin) (hnum : HasNumeric pls) (path : List XNode) :
    shapeOut (tokenizeRw nv (lexSetOf src po nsys) (applyOpsP v .fix pls (newTok m0) ops) text cat P pls path) =
    shapeOut (tokenizeRw nv (lexSetOf src po nsys) (newTok (applyOpsP v .fix pls (newTok m0) ops).mode) text cat P pls path) := by
  obtain ⟨r2, r3⟩ := reqOfStack_numeric pls hnum
  have hp := set_subset_fix_loads_plugin_fields v pls m0 ops POS_ID (by decide) r2
  have hn := set_subset_fix_loads_plugin_fields v pls m0 ops NORMALIZED_FORM (by decide) r3
  unfold applyOpsP at hp hn ⊢
  exact boundaries_subset_free_plugins v nv src po nsys hok m0 _ text cat P pls path hp hn

/-- system dictionary of the witness: the numerals `1` and `2` (POS id 1 = the numeral POS) -/
def numSrc : Src :=
  [([{ surface := [49], headWordLength := 1, posId := 1, dictionaryFormWordId := -1 },
     { surface := [50], headWordLength := 1, posId := 1, dictionaryFormWordId := -1 }], true)]

/-- a numeric parser that accepts every string and renders it unchanged (the theorems hold for every `P`) -/
def idParser (acc : List Char) : Rewrite.POut := { n := acc.length, err := 0, done := true, norm := acc }

/-- **The condition is needed on the unchanged tree (`set_subset` does not widen the request for the
plugins).**  Dictionary `1`, `2` (numerals), `JoinNumericPlugin` configured, text `12`, best path `1 | 2`:
`StatefulTokenizer::new(dic, Mode::C); set_subset(SURFACE)` loads the subset {SURFACE} — no POS id — and the
analysis answers `1 | 2`; the full-field analysis answers the joined `12`.  With the repaired `set_subset`
the same call sequence loads {SURFACE, POS_ID, NORMALIZED_FORM} and answers `12`. -/
theorem plugin_fields_needed_counterexample :
    LexSetOk numSrc [0] ∧
    (applyOpsP .fix .cur [.numeric ⟨1, true⟩] (newTok .C) [.subset (2 ^ SURFACE)]).subset = 2 ^ SURFACE ∧
    shapeOut (tokenizeRw .fix (lexSetOf numSrc [0] 2) (applyOpsP .fix .cur [.numeric ⟨1, true⟩] (newTok .C) [.subset (2 ^ SURFACE)])
      [49, 50] [16, 16] idParser [.numeric ⟨1, true⟩] [⟨0, 0, 1, 0, 1, [49]⟩, ⟨1, 1, 2, 1, 2, [50]⟩]) = .ok [(0, 0, 1), (1, 1, 2)] ∧
    shapeOut (tokenizeRw .fix (lexSetOf numSrc [0] 2) (newTok .C)
      [49, 50] [16, 16] idParser [.numeric ⟨1, true⟩] [⟨0, 0, 1, 0, 1, [49]⟩, ⟨1, 1, 2, 1, 2, [50]⟩]) = .ok [(4294967295, 0, 2)] ∧
    (applyOpsP .fix .fix [.numeric ⟨1, true⟩] (newTok .C) [.subset (2 ^ SURFACE)]).subset = 2 ^ SURFACE ||| 2 ^ POS_ID ||| 2 ^ NORMALIZED_FORM ∧
    shapeOut (tokenizeRw .fix (lexSetOf numSrc [0] 2) (applyOpsP .fix .fix [.numeric ⟨1, true⟩] (newTok .C) [.subset (2 ^ SURFACE)])
      [49, 50] [16, 16] idParser [.numeric ⟨1, true⟩] [⟨0, 0, 1, 0, 1, [49]⟩, ⟨1, 1, 2, 1, 2, [50]⟩]) = .ok [(4294967295, 0, 2)] := by
  refine ⟨⟨?_, ?_, rfl⟩, by decide, by decide, by decide, by decide, by decide⟩
  · intro p hp w hw
    simp [numSrc] at hp
    subst hp
    simp at hw
    rcases hw with rfl | rfl
    · exact ⟨strOk_one 49 (by omega), by decide, by decide, ⟨by simp, by simp [toUtf16]⟩, by decide, by decide,
        ⟨by simp, by simp [toUtf16]⟩, arrOk_nil, arrOk_nil, arrOk_nil, ⟨by simp, by simp⟩⟩
    · exact ⟨strOk_one 50 (by omega), by decide, by decide, ⟨by simp, by simp [toUtf16]⟩, by decide, by decide,
        ⟨by simp, by simp [toUtf16]⟩, arrOk_nil, arrOk_nil, arrOk_nil, ⟨by simp, by simp⟩⟩
  · intro p hp w hw
    simp [numSrc] at hp
    subst hp
    simp at hw
    rcases hw with rfl | rfl <;> (left; decide)

/-! ### non-vacuity of the hypotheses of the plugin theorems -/

/-- `hp`, `hn` of `boundaries_subset_free_plugins`: a request for POS id and normalised form in mode C
(SURFACE comes with it), and — junk excluded — a request that `set_mode` extends afterwards -/
example : (applyOps .fix (newTok .C) [.subset (2 ^ POS_ID ||| 2 ^ NORMALIZED_FORM)]).subset = 13 := by decide
example : (applyOps .fix (newTok .C) [.subset (2 ^ POS_ID ||| 2 ^ NORMALIZED_FORM), .mode .A]).subset.testBit POS_ID = true ∧
    (applyOps .fix (newTok .C) [.subset (2 ^ POS_ID ||| 2 ^ NORMALIZED_FORM), .mode .A]).subset.testBit NORMALIZED_FORM = true := by
  decide
/-- … and they FAIL for the request {SURFACE} on the unchanged `set_subset`: that is the witness above -/
example : (applyOps .fix (newTok .C) [.subset (2 ^ SURFACE)]).subset.testBit POS_ID = false := by decide
example : HasNumeric [.katakana ⟨0, 2⟩, .numeric ⟨1, false⟩] := ⟨⟨1, false⟩, by simp⟩
example : ¬ HasNumeric [.katakana ⟨0, 2⟩] := by
  rintro ⟨cfg, h⟩
  simp at h
example : HwlLoaded (2 ^ POS_ID) := ⟨2, by omega, by omega, by decide⟩
example : ¬ HwlLoaded (2 ^ SURFACE) := by
  rintro ⟨c, h1, _, h⟩
  rw [Nat.testBit_two_pow] at h
  have : SURFACE = c := of_decide_eq_true h
  unfold SURFACE at this
  omega
/-- `hfit` / `hfitAll` of `boundaries_subset_free_katakana_any_request` hold on the witness path (sums 0 and 2),
for the empty request in mode C — the case the theorem adds -/
example : (resolvePathX (lexSetOf numSrc [0] 2) (applyOps .fix (newTok .C) [.subset 0]).subset
      [⟨0, 0, 1, 0, 1, [49]⟩, ⟨1, 1, 2, 1, 2, [50]⟩]).bind (fun ns => .ok (Rewrite.sumHwl ns)) = .ok 0 := by decide
example : (resolvePathX (lexSetOf numSrc [0] 2) ALL [⟨0, 0, 1, 0, 1, [49]⟩, ⟨1, 1, 2, 1, 2, [50]⟩]).bind
    (fun ns => .ok (Rewrite.sumHwl ns)) = .ok 2 := by decide
/-- the theorem applies to the witness configuration with a request that feeds the plugin: joined `12` -/
example : shapeOut (tokenizeRw .fix (lexSetOf numSrc [0] 2)
      (applyOps .fix (newTok .C) [.subset (2 ^ POS_ID ||| 2 ^ NORMALIZED_FORM)])
      [49, 50] [16, 16] idParser [.numeric ⟨1, true⟩] [⟨0, 0, 1, 0, 1, [49]⟩, ⟨1, 1, 2, 1, 2, [50]⟩]) = .ok [(4294967295, 0, 2)] := by
  decide

/-! ### non-vacuity -/

/-- `WF`, `DfOk` are inhabited by a word with every kind of field (astral character, 2-byte length
prefix boundary not needed here), and the theorems apply to the concrete bytes the writer emits. -/
example : WF { surface := [26481, 20140, 134071], headWordLength := 9, posId := 5, normalizedForm := [97],
               dictionaryFormWordId := 0, readingForm := [12488], aUnitSplit := [1, 2], synonymGroupIds := [4294967295] } := by
  refine ⟨⟨?_, by decide⟩, by decide, by decide, ⟨?_, by decide⟩, by decide, by decide, ⟨?_, by decide⟩,
    ⟨by decide, ?_⟩, ⟨by decide, by simp⟩, ⟨by decide, by simp⟩, ⟨by decide, ?_⟩⟩
  · intro c hc; simp at hc; rcases hc with rfl | rfl | rfl <;> (unfold Scalar; omega)
  · intro c hc; simp at hc; subst hc; unfold Scalar; omega
  · intro c hc; simp at hc; subst hc; unfold Scalar; omega
  · intro c hc; simp at hc; rcases hc with rfl | rfl <;> omega
  · intro c hc; simp at hc; subst hc; omega

example : encodeBytes d10Word = [1, 66, 48, 3, 0, 0, 0, 255, 255, 255, 255, 0, 0, 0, 0, 0] := by decide

example : parse (2 ^ READING_FORM) (encodeBytes d10Word ++ [7, 7]) =
    .ok { headWordLength := 3, dictionaryFormWordId := -1 } := by decide

/-! ### non-vacuity of `LexSetOk`: three dictionaries, `U`-references inside the SECOND user dictionary -/

/-- system dictionary `a`; first user dictionary `b`; second user dictionary `c` and `cca` whose A split,
B split and word structure are all `U0 / 0` — stored as (dictionary 1, word 0), (dictionary 0, word 0) -/
def exSrc : Src :=
  [([{ surface := [97], headWordLength := 1 }], true),
   ([{ surface := [98], headWordLength := 1 }], true),
   ([{ surface := [99], headWordLength := 1 },
     { surface := [99, 99, 97], headWordLength := 3, aUnitSplit := [268435456, 0], bUnitSplit := [268435456, 0],
       wordStructure := [268435456, 0] }], false)]

example : LexSetOk exSrc [0, 3, 4] := by
  refine ⟨?_, ?_, rfl⟩
  · intro p hp w hw
    simp [exSrc] at hp
    rcases hp with rfl | rfl | rfl
    · simp at hw; subst hw
      exact wf_basic [97] 1 [] [] [] (strOk_one 97 (by omega)) (by omega) arrOk_nil arrOk_nil arrOk_nil
    · simp at hw; subst hw
      exact wf_basic [98] 1 [] [] [] (strOk_one 98 (by omega)) (by omega) arrOk_nil arrOk_nil arrOk_nil
    · simp at hw
      rcases hw with rfl | rfl
      · exact wf_basic [99] 1 [] [] [] (strOk_one 99 (by omega)) (by omega) arrOk_nil arrOk_nil arrOk_nil
      · refine wf_basic [99, 99, 97] 3 _ _ _ ⟨?_, by decide⟩ (by omega) arrOk_u0_s0 arrOk_u0_s0 arrOk_u0_s0
        intro x hx; simp at hx; rcases hx with rfl | rfl <;> (left; omega)
  · intro p hp w hw
    simp [exSrc] at hp
    rcases hp with rfl | rfl | rfl <;> simp at hw
    · subst hw; right; decide
    · subst hw; right; decide
    · rcases hw with rfl | rfl <;> (right; decide)

example : (getWordInfoSubset (lexSetOf exSrc [0, 3, 4] 3) (widNew 2 1) (2 ^ SPLIT_A)).bind
    (fun i => .ok (i.aUnitSplit, i.bUnitSplit, i.wordStructure)) = .ok ([536870912, 0], [], []) := by decide
example : (getWordInfoSubset (lexSetOf exSrc [0, 3, 4] 3) (widNew 2 1) (2 ^ WORD_STRUCTURE)).bind
    (fun i => .ok (i.aUnitSplit, i.bUnitSplit, i.wordStructure)) = .ok ([], [], [536870912, 0]) := by decide

example : shapeRes (tokenize (lexSetOf exSrc [0, 3, 4] 3) (applyOps .fix (newTok .C) [.subset 0, .mode .A])
      [99, 99, 97] [⟨widNew 2 1, 0, 3, []⟩]) = .ok [(536870912, 0, 1), (0, 1, 3)] := by decide

/-- hypotheses `Unloaded`, `widDic id < …`, `widWord id < …` are inhabited: request {SURFACE} does not
reach the dictionary-form id; the consult of word 0 then shows through (`c` is word 0 of `exSrc[2]`) -/
example : Unloaded (effSubset false (2 ^ SURFACE)) 4 := by
  refine ⟨by omega, ?_⟩
  rw [if_pos (by omega)]
  intro c hc
  have : (2 ^ SURFACE).testBit c = true := effSubset_testBit hc
  rw [Nat.testBit_two_pow] at this
  have h0 : SURFACE = c := of_decide_eq_true this
  unfold SURFACE at h0
  omega

example : (getWordInfo (lexOf (exSrc[2]).1 false) 1 (2 ^ SURFACE)).bind
    (fun i => .ok (i.dictionaryFormWordId, i.dictionaryForm)) = .ok (0, [99]) := by decide

example : ∃ hd : widDic (widNew 2 1) < exSrc.length, widWord (widNew 2 1) < (exSrc[widDic (widNew 2 1)]).1.length := by
  decide
end C11
