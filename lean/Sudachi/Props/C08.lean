import Sudachi.Proofs.Edit
/-!
# C08 — Code-point offsets agree with byte offsets; the offset map is monotone and anchored

Model: `EditM.resolve` (`edit.rs: resolve_edits`/`add_replace`), `EditM.commitV`/`commitAllV`
(`with_editor` → `commit`, successive batches; `lv : LenV` = which length guard the tree has: `running` = the
pinned `commit`/`commitAll`, `final` = the repaired one — every theorem below holds for both), `EditM.identFrom` (`start_build`), `EditM.origB2C`
(`fill_orig_b2c`), `EditM.c2b` (`build`).  Texts are byte lists; `isStart` marks first bytes of
characters; a *character boundary* of a text is its end or the offset of a first byte (`BoOf`).
`m2o[i]` is `valAt l i` (= `(snds l)[i]`, lemma `snds_getElem?`).

Hypothesis `BatchesOk`: every batch is sorted, non-overlapping, in range, on character boundaries of
the text it is applied to, and leaves the text non-empty — exactly the property's "any sequence of
ordered, non-overlapping replacements … that leave the text non-empty".
-/
namespace C08
open EditM

/-- **Offset map after any sequence of batches** (second sentence of the property): the map has one
entry per byte plus one; it is non-decreasing; start ↦ start; end ↦ end; every character boundary of the
rewritten text is sent to a character boundary of the original. -/
theorem m2o_inv (o : List Nat) (hne : o ≠ []) (h0 : BoOf o 0)
    (bs : List (List (Edit Nat))) (l : List (P Nat))
    (hok : BatchesOk isStart (identFrom 0 o) bs) (lv : LenV) (h : commitAllV lv (identFrom 0 o) bs = some l) :
    (snds l).length = (textOf l).length + 1 ∧
    Mono (snds l) ∧
    valAt l 0 = 0 ∧
    valAt l (textOf l).length = o.length ∧
    (∀ i (hi : i < l.length), isB isStart l[i] → BoOf o (valAt l i)) := by
  have hi := commitAllV_inv lv isStart (BoOf o) o.length h0 bs _ l (ident_inv o hne) hok h
  exact ⟨inv_length hi, hi.mono, hi.first, inv_last hi, fun i hlt hb => inv_boundary hi i hlt hb⟩

/-- **Unreplaced characters map to themselves**: after any admissible sequence of batches every
entry `(byte, offset)` of the map is either an entry of the identity map — the byte `o[offset]` of
the original text with its own offset —, or the sentinel, or the first entry (forced to 0: a leading
deletion attaches to the first character), or was written by a replacement. -/
theorem unreplaced_keep_offset (o : List Nat) (hne : o ≠ []) (h0 : BoOf o 0)
    (bs : List (List (Edit Nat))) (l : List (P Nat))
    (hok : BatchesOk isStart (identFrom 0 o) bs) (lv : LenV) (h : commitAllV lv (identFrom 0 o) bs = some l) :
    ∀ p ∈ l, (∃ hlt : p.2 < o.length, p.1 = some o[p.2]) ∨ p = (none, o.length) ∨ p.2 = 0 ∨
      FromRepl (identFrom 0 o) bs p := by
  intro p hp
  rcases commitAllV_mem lv isStart (BoOf o) o.length h0 bs _ l (ident_inv o hne) hok h p hp with h1 | h1 | h1
  · rcases ident_mem o p h1 with h2 | h2
    · exact Or.inr (Or.inl h2)
    · exact Or.inl h2
  · exact Or.inr (Or.inr (Or.inl h1))
  · exact Or.inr (Or.inr (Or.inr h1))

/-- a replacement maps its first byte to the start of the replaced span and every other byte to its
end; a deletion writes nothing (so deleted text attaches to the neighbouring entry) -/
theorem replacement_entries (l : List (P Nat)) (ed : Edit Nat) :
    (ed.w = [] → repl l ed = []) ∧
    (∀ b bs, ed.w = b :: bs → snds (repl l ed) = valAt l ed.s :: List.replicate bs.length (valAt l ed.e)) := by
  constructor
  · intro h; simp [repl, h]
  · intro b bs h; rw [snds_repl]; simp [h]

/-- **Code-point offsets** (first sentence): at every character boundary `b` of the original text
the table consulted by `begin_c`/`end_c` holds the number of code points of the original text before
byte `b`; with `m2o_inv` (boundaries ↦ boundaries) every morpheme offset is such a `b`. -/
theorem origB2C_counts (o : List Nat) (hne : 0 < nchars o) (b : Nat) (hb : BoOf o b) :
    (origB2C o)[b]? = some (some (nchars (o.take b))) :=
  EditM.origB2C_counts o hne b hb

/-- every entry of the character → byte table of the rewritten text is a character boundary of it,
the table is non-decreasing, starts at 0 and ends at the text length -/
theorem c2b_boundaries (t : List Nat) (h0 : BoOf t 0) :
    Mono (c2b t) ∧ (∀ x ∈ c2b t, BoOf t x) ∧ (c2b t)[0]? = some 0 ∧ (c2b t)[nchars t]? = some t.length :=
  ⟨(c2b_spec t).1, (c2b_spec t).2, c2b_head t h0, c2b_last t⟩

/-- the length guard of `commit` in the pinned tree (variant `running`): a batch is rejected exactly when the
running length exceeds 65535.  (For the repaired tree, variant `final`, the batch is rejected exactly when the
length of the rewritten text exceeds 65535: `C03.commit_final_too_long_iff`.) -/
theorem commit_too_long (l : List (P Nat)) (es : List (Edit Nat)) (hne : es ≠ []) :
    commit l es = none ↔ lenOk REALLY_MAX_LENGTH ((l.length : Int) - 1) es = false := by
  unfold commit
  have : es.isEmpty = false := by cases es <;> simp_all
  simp [this]

/-- non-vacuity: the repository's own example `宇宙人` (9 bytes), first character replaced by six
bytes, then (second batch) the third character deleted: hypotheses hold, map as expected. -/
example :
    let o := [0xE5, 0xAE, 0x87, 0xE5, 0xAE, 0x99, 0xE4, 0xBA, 0xBA]
    let b1 : List (Edit Nat) := [⟨0, 3, [0xE3, 0x81, 0x82, 0xE3, 0x81, 0x84]⟩]
    let b2 : List (Edit Nat) := [⟨9, 12, []⟩]
    BoOf o 0 ∧
    (commitAll (identFrom 0 o) [b1, b2]).map snds = some [0, 3, 3, 3, 3, 3, 3, 4, 5, 9] := by
  refine ⟨Or.inr ⟨by decide, by decide⟩, by decide⟩

end C08
