import Sudachi.Proofs.Edit
import Sudachi.Proofs.EditAccess
import Sudachi.Proofs.EditExact
import Sudachi.Proofs.EditGhost
import Sudachi.Proofs.EditTok
import Sudachi.Props.C01
/-!
# C08 — Code-point offsets agree with byte offsets; the offset map is monotone and anchored

Model: `EditM.resolve` (`edit.rs: resolve_edits`/`add_replace`), `EditM.commitV`/`commitAllV`
(`with_editor` → `commit`, successive batches; `lv : LenV` = which length guard the tree has: `running` = the
pinned `commit`/`commitAll`, `final` = the repaired one — every theorem below holds for both), `EditM.identFrom` (`start_build`), `EditM.origB2C`
(`fill_orig_b2c`), `EditM.c2b` (`build`).  Texts are byte lists; `isStart` marks first bytes of
characters; a *character boundary* of a text is its end or the offset of a first byte (`BoOf`).
`m2o[i]` is `valAt l i` (= `(snds l)[i]`, lemma `snds_getElem?`).

Hypothesis `BatchesOk`: every batch is sorted, non-overlapping, in range, on character boundaries of
the text it is applied to, and leaves the text non-empty — exactly the property's "any sequence of
ordered, non-overlapping replacements … that leave the text non-empty".
-/
namespace C08
open EditM

/-- **Offset map after any sequence of batches** (second sentence of the property): the map has one
entry per byte plus one; it is non-decreasing; start ↦ start; end ↦ end; every character boundary of the
rewritten text is sent to a character boundary of the original. -/
theorem m2o_inv (o : List Nat) (hne : o ≠ []) (h0 : BoOf o 0)
    (bs : List (List (Edit Nat))) (l : List (P Nat))
    (hok : BatchesOk isStart (identFrom 0 o) bs) (lv : LenV) (h : commitAllV lv (identFrom 0 o) bs = some l) :
    (snds l).length = (textOf l).length + 1 ∧
    Mono (snds l) ∧
    valAt l 0 = 0 ∧
    valAt l (textOf l).length = o.length ∧
    (∀ i (hi : i < l.length), isB isStart l[i] → BoOf o (valAt l i)) := by
  have hi := commitAllV_inv lv isStart (BoOf o) o.length h0 bs _ l (ident_inv o hne) hok h
  exact ⟨inv_length hi, hi.mono, hi.first, inv_last hi, fun i hlt hb => inv_boundary hi i hlt hb⟩

/-- **Unreplaced characters map to themselves**: after any admissible sequence of batches every
entry `(byte, offset)` of the map is either an entry of the identity map — the byte `o[offset]` of
the original text with its own offset —, or the sentinel, or the first entry (forced to 0: a leading
deletion attaches to the first character), or was written by a replacement. -/
theorem unreplaced_keep_offset (o : List Nat) (hne : o ≠ []) (h0 : BoOf o 0)
    (bs : List (List (Edit Nat))) (l : List (P Nat))
    (hok : BatchesOk isStart (identFrom 0 o) bs) (lv : LenV) (h : commitAllV lv (identFrom 0 o) bs = some l) :
    ∀ p ∈ l, (∃ hlt : p.2 < o.length, p.1 = some o[p.2]) ∨ p = (none, o.length) ∨ p.2 = 0 ∨
      FromRepl (identFrom 0 o) bs p := by
  intro p hp
  rcases commitAllV_mem lv isStart (BoOf o) o.length h0 bs _ l (ident_inv o hne) hok h p hp with h1 | h1 | h1
  · rcases ident_mem o p h1 with h2 | h2
    · exact Or.inr (Or.inl h2)
    · exact Or.inl h2
  · exact Or.inr (Or.inr (Or.inl h1))
  · exact Or.inr (Or.inr (Or.inr h1))

/-- a replacement maps its first byte to the start of the replaced span and every other byte to its
end; a deletion writes nothing (so deleted text attaches to the neighbouring entry) -/
theorem replacement_entries (l : List (P Nat)) (ed : Edit Nat) :
    (ed.w = [] → repl l ed = []) ∧
    (∀ b bs, ed.w = b :: bs → snds (repl l ed) = valAt l ed.s :: List.replicate bs.length (valAt l ed.e)) := by
  constructor
  · intro h; simp [repl, h]
  · intro b bs h; rw [snds_repl]; simp [h]

/-- **Code-point offsets** (first sentence): at every character boundary `b` of the original text
the table consulted by `begin_c`/`end_c` holds the number of code points of the original text before
byte `b`; with `m2o_inv` (boundaries ↦ boundaries) every morpheme offset is such a `b`. -/
theorem origB2C_counts (o : List Nat) (hne : 0 < nchars o) (b : Nat) (hb : BoOf o b) :
    (origB2C o)[b]? = some (some (nchars (o.take b))) :=
  EditM.origB2C_counts o hne b hb

/-- every entry of the character → byte table of the rewritten text is a character boundary of it,
the table is non-decreasing, starts at 0 and ends at the text length -/
theorem c2b_boundaries (t : List Nat) (h0 : BoOf t 0) :
    Mono (c2b t) ∧ (∀ x ∈ c2b t, BoOf t x) ∧ (c2b t)[0]? = some 0 ∧ (c2b t)[nchars t]? = some t.length :=
  ⟨(c2b_spec t).1, (c2b_spec t).2, c2b_head t h0, c2b_last t⟩

/-- the length guard of `commit` in the pinned tree (variant `running`): a batch is rejected exactly when the
running length exceeds 65535.  (For the repaired tree, variant `final`, the batch is rejected exactly when the
length of the rewritten text exceeds 65535: `C03.commit_final_too_long_iff`.) -/
theorem commit_too_long (l : List (P Nat)) (es : List (Edit Nat)) (hne : es ≠ []) :
    commit l es = none ↔ lenOk REALLY_MAX_LENGTH ((l.length : Int) - 1) es = false := by
  unfold commit
  have : es.isEmpty = false := by cases es <;> simp_all
  simp [this]

/-- non-vacuity: the repository's own example `宇宙人` (9 bytes), first character replaced by six
bytes, then (second batch) the third character deleted: hypotheses hold, map as expected. -/
example :
    let o := [0xE5, 0xAE, 0x87, 0xE5, 0xAE, 0x99, 0xE4, 0xBA, 0xBA]
    let b1 : List (Edit Nat) := [⟨0, 3, [0xE3, 0x81, 0x82, 0xE3, 0x81, 0x84]⟩]
    let b2 : List (Edit Nat) := [⟨9, 12, []⟩]
    BoOf o 0 ∧
    (commitAll (identFrom 0 o) [b1, b2]).map snds = some [0, 3, 3, 3, 3, 3, 3, 4, 5, 9] := by
  refine ⟨Or.inr ⟨by decide, by decide⟩, by decide⟩

/-! ## depth round: the code-point offsets of a morpheme, the two routes, and the accessor family of `InputBuffer`

`EditM.Reached o bs lv l` (`Proofs/EditAccess.lean`) abbreviates the hypotheses of `m2o_inv`: `l` is the buffer (`modified` + `m2o`) reached
from the non-empty original text `o` (which begins with a character's first byte) by the admissible batches `bs`
under either length guard.  A node of the result has a CHARACTER range `bc..ec` and a BYTE range `bb..eb` of the
rewritten text; `resolve_best_path`/`NodeSplitIterator::next` make them consistent: `bb = mod_c2b[bc]`,
`eb = mod_c2b[ec]` (C01 `PathOk`; hypotheses `hb`, `he` where the byte route is involved). -/

/-- **`morpheme_codepoints`** (first sentence of the property, full strength): for a buffer reached by any admissible
batches, a node whose character range is `[bc, ec)` of the rewritten text has `begin()`/`end()` defined
(`to_orig_byte_idx`: no index out of range), `begin ≤ end ≤ |original|`, both character boundaries of the original, and
`begin_c()`/`end_c()` (`to_orig_char_idx`: never the `usize::MAX` marker, so the `debug_assert_ne!` cannot fire) are the
numbers of code points of the ORIGINAL text before the byte offsets `begin()`/`end()` report; they are ordered. -/
theorem morpheme_codepoints (o : List Nat) (bs : List (List (Edit Nat))) (lv : LenV) (l : List (P Nat))
    (hr : Reached o bs lv l) (bc ec : Nat) (hbe : bc ≤ ec) (hec : ec ≤ nchars (textOf l)) :
    ∃ b e, toOrigByteIdx l bc = some b ∧ toOrigByteIdx l ec = some e ∧
      b ≤ e ∧ e ≤ o.length ∧ BoOf o b ∧ BoOf o e ∧
      toOrigCharIdx o l bc = some (nchars (o.take b)) ∧ toOrigCharIdx o l ec = some (nchars (o.take e)) ∧
      nchars (o.take b) ≤ nchars (o.take e) := by
  have hinv := hr.inv
  obtain ⟨x, hx, _, _, _, hxb, hxo, _⟩ := toOrigByteIdx_spec o l hinv bc (by omega)
  obtain ⟨y, hy, hyl, _, _, hyb, hyo, hyn⟩ := toOrigByteIdx_spec o l hinv ec hec
  have hxy : x ≤ y := c2b_getElem_mono _ _ _ _ _ hbe hx hy
  have hle : valAt l x ≤ valAt l y := mono_valAt hinv.mono hxy hyl
  have hpos := nchars_pos_of o hr.1 hr.2.1
  refine ⟨_, _, hxb, hyb, hle, hyn, hxo, hyo, ?_, ?_, nchars_take_mono o hle⟩
  · unfold toOrigCharIdx; rw [hxb]; simp only []; rw [EditM.origB2C_counts o hpos _ hxo]
  · unfold toOrigCharIdx; rw [hyb]; simp only []; rw [EditM.origB2C_counts o hpos _ hyo]

/-- **the character route and the byte route of `Morpheme` agree**: `begin()`/`end()` go through `mod_c2b` then `m2o`
(`morphRangeC`), `surface()` slices `original[m2o[bb]..m2o[eb]]` (`morphRangeB`); for a node whose byte range is the
`mod_c2b` image of its character range they are the same pair (also when undefined).  (C09 `routes_agree` shows that
split units satisfy `hb`/`he`; C01 `PathOk` carries them through the whole analysis.) -/
theorem routes_agree (l : List (P Nat)) (n : NodeRange)
    (hb : (c2b (textOf l))[n.bc]? = some n.bb) (he : (c2b (textOf l))[n.ec]? = some n.eb) :
    morphRangeC l n = morphRangeB l n := by
  simp [morphRangeC, morphRangeB, toOrigByteIdx, hb, he]

/-- **slicing by code points = slicing by bytes** (`slice_agree`): with `b..e` the byte offsets and `cb..ce` the
code-point offsets a node reports, character number `cb` (`ce`) of the ORIGINAL text begins at byte `b` (`e`) - so the
code-point slice `original[cb:ce]` (what Python's `text[m.begin():m.end()]` and the pre-tokenizer's
`string.slice(begin_c..end_c)` take) is the byte slice `original[b..e]` = `surface()` -, and Python's
`len(m) = end_c - begin_c` is the number of code points of that surface. -/
theorem slice_agree (o : List Nat) (bs : List (List (Edit Nat))) (lv : LenV) (l : List (P Nat))
    (hr : Reached o bs lv l) (bc ec : Nat) (hbe : bc ≤ ec) (hec : ec ≤ nchars (textOf l)) :
    ∃ b e cb ce, toOrigByteIdx l bc = some b ∧ toOrigByteIdx l ec = some e ∧
      toOrigCharIdx o l bc = some cb ∧ toOrigCharIdx o l ec = some ce ∧
      (c2b o)[cb]? = some b ∧ (c2b o)[ce]? = some e ∧ ce - cb = nchars (slice o b e) := by
  obtain ⟨b, e, h1, h2, h3, _, h5, h6, h7, h8, _⟩ := morpheme_codepoints o bs lv l hr bc ec hbe hec
  exact ⟨b, e, _, _, h1, h2, h7, h8, c2b_nchars_take o b h5, c2b_nchars_take o e h6, (nchars_slice o h3).symm⟩

/-- **code-point offsets are anchored**: the end of the rewritten text reports the number of code points of the
original; its start reports 0 (hypothesis `h0t`: the rewritten text begins with a character's first byte - true of
every Rust `String`, not implied by `BatchesOk`, which does not constrain the replacement bytes). -/
theorem codepoints_anchored (o : List Nat) (bs : List (List (Edit Nat))) (lv : LenV) (l : List (P Nat))
    (hr : Reached o bs lv l) :
    toOrigCharIdx o l (nchars (textOf l)) = some (nchars o) ∧
    (BoOf (textOf l) 0 → toOrigByteIdx l 0 = some 0 ∧ toOrigCharIdx o l 0 = some 0) := by
  have hinv := hr.inv
  have hlen := shape_length hinv.shape
  have hpos := nchars_pos_of o hr.1 hr.2.1
  constructor
  · have h1 : toOrigByteIdx l (nchars (textOf l)) = some o.length := by
      unfold toOrigByteIdx
      rw [c2b_last]; simp only []
      rw [snds_getElem? l _ (by omega), inv_last hinv]
    unfold toOrigCharIdx
    rw [h1]; simp only []
    rw [EditM.origB2C_counts o hpos _ (Or.inl rfl)]; simp
  · intro h0t
    have h1 : toOrigByteIdx l 0 = some 0 := by
      unfold toOrigByteIdx
      rw [c2b_head _ h0t]; simp only []
      rw [snds_getElem? l _ (by omega), hinv.first]
    refine ⟨h1, ?_⟩
    unfold toOrigCharIdx
    rw [h1]; simp only []
    rw [EditM.origB2C_counts o hpos _ hr.2.1]; simp [nchars]

/-- **every offset accessor of a morpheme is defined and both routes give the surface**
(`EditAcc.morpheme` = `Morpheme::{begin, end, begin_c, end_c, surface}` with every index check, `debug_assert!` and `str`
slice check of the debug profile; `EditAcc.pyOffsets` = Python `begin()/end()/len()`): for a reached buffer and a node
inside the text whose byte range is the `mod_c2b` image of its character range, nothing panics, `surface()` is
`original[begin..end]`, `begin_c`/`end_c` are the code points before `begin`/`end`, and `len(m)` is the number of code
points of the surface. -/
theorem morpheme_accessors_total (o : List Nat) (bs : List (List (Edit Nat))) (lv : LenV) (l : List (P Nat))
    (hr : Reached o bs lv l) (n : NodeRange) (hbe : n.bc ≤ n.ec) (hec : n.ec ≤ nchars (textOf l))
    (hb : (c2b (textOf l))[n.bc]? = some n.bb) (he : (c2b (textOf l))[n.ec]? = some n.eb) :
    ∃ B E, B ≤ E ∧ E ≤ o.length ∧
      EditAcc.morpheme ⟨o, l⟩ n = .ok ⟨B, E, nchars (o.take B), nchars (o.take E), slice o B E⟩ ∧
      EditAcc.pyOffsets ⟨o, l⟩ n = .ok (nchars (o.take B), nchars (o.take E), nchars (slice o B E)) := by
  have hinv := hr.inv
  obtain ⟨B, E, h1, h2, h3, h4, h5, h6, h7, h8, h9⟩ := morpheme_codepoints o bs lv l hr n.bc n.ec hbe hec
  have hpos := nchars_pos_of o hr.1 hr.2.1
  obtain ⟨hbb, hbl⟩ := c2b_getElem_boOf _ _ _ hb
  obtain ⟨heb, hel⟩ := c2b_getElem_boOf _ _ _ he
  have hlen := shape_length hinv.shape
  -- the byte route reads the same two map entries
  have hB : (snds l)[n.bb]? = some B := by
    have := h1; unfold toOrigByteIdx at this; rw [hb] at this; exact this
  have hE : (snds l)[n.eb]? = some E := by
    have := h2; unfold toOrigByteIdx at this; rw [he] at this; exact this
  have a1 := EditAcc.toOrigByteIdxA_eq ⟨o, l⟩ n.bc B h1
  have a2 := EditAcc.toOrigByteIdxA_eq ⟨o, l⟩ n.ec E h2
  have a3 := EditAcc.toOrigCharIdxA_eq ⟨o, l⟩ n.bc B _ h1 (EditM.origB2C_counts o hpos _ h5)
  have a4 := EditAcc.toOrigCharIdxA_eq ⟨o, l⟩ n.ec E _ h2 (EditM.origB2C_counts o hpos _ h6)
  have a5 : EditAcc.origSlice ⟨o, l⟩ n.bb n.eb = .ok (slice o B E) := by
    unfold EditAcc.origSlice
    rw [if_pos ⟨EditAcc.isCharBoundary_of_boOf _ _ hbb, EditAcc.isCharBoundary_of_boOf _ _ heb⟩]
    unfold EditAcc.toOrig
    simp only [EditAcc.Buf.m2o]
    rw [EditAcc.idx_ok _ _ _ _ hB, EditAcc.idx_ok _ _ _ _ hE]
    simp only []
    exact EditAcc.strSlice_ok o B E h3 h5 h6
  refine ⟨B, E, h3, h4, ?_, ?_⟩
  · unfold EditAcc.morpheme
    rw [a1, a2, a3, a4, a5]
  · unfold EditAcc.pyOffsets
    rw [a3, a4]; simp only []
    rw [if_pos h9, nchars_slice o h3]

/-- **`get_original_index`, exactly**: on a character boundary of the rewritten text (`str::is_char_boundary`) it
returns the map entry, which is a character boundary of the original inside it; anywhere else (inside a character,
beyond the end) the `debug_assert!` fires. -/
theorem get_original_index_spec (o : List Nat) (bs : List (List (Edit Nat))) (lv : LenV) (l : List (P Nat))
    (hr : Reached o bs lv l) (i : Nat) :
    (EditAcc.isCharBoundary (textOf l) i = true →
      EditAcc.getOriginalIndex ⟨o, l⟩ i = .ok (valAt l i) ∧ BoOf o (valAt l i) ∧ valAt l i ≤ o.length) ∧
    (EditAcc.isCharBoundary (textOf l) i = false → ∃ w, EditAcc.getOriginalIndex ⟨o, l⟩ i = .panic w) := by
  have hinv := hr.inv
  have hlen := shape_length hinv.shape
  constructor
  · intro hb
    have hil : i ≤ (textOf l).length ∧ BoOf o (valAt l i) := by
      rcases Nat.eq_zero_or_pos i with rfl | hpos
      · exact ⟨Nat.zero_le _, by rw [hinv.first]; exact hr.2.1⟩
      · have hbo := EditAcc.boOf_of_isCharBoundary _ _ hpos hb
        have hle : i ≤ (textOf l).length := by rcases hbo with h | ⟨h, _⟩ <;> omega
        exact ⟨hle, inv_boundary hinv i (by omega) (isB_of_boOf hinv.shape i hbo (by omega))⟩
    refine ⟨?_, hil.2, inv_le_last hinv i hil.1⟩
    unfold EditAcc.getOriginalIndex
    simp only [EditAcc.Buf.cur, hb, if_true]
    exact EditAcc.idx_ok _ _ _ _ (snds_getElem? l i (by omega))
  · intro hb
    exact ⟨_, by unfold EditAcc.getOriginalIndex; simp only [EditAcc.Buf.cur, hb]; rfl⟩

/-- **`char_distance`, exactly** (any buffer): inside the text it is `offset` cut off at the end of the text (it never
reports a position beyond the last character: the repaired MeCab provider relies on it); a start beyond the end is
`attempt to subtract with overflow` in the debug profile. -/
theorem char_distance_spec (b : EditAcc.Buf) (cpt off : Nat) :
    (cpt ≤ b.nch → EditAcc.charDistance b cpt off = .ok (Nat.min off (b.nch - cpt)) ∧ cpt + Nat.min off (b.nch - cpt) ≤ b.nch) ∧
    (b.nch < cpt → ∃ w, EditAcc.charDistance b cpt off = .panic w) := by
  constructor
  · intro h
    have h1 : cpt ≤ Nat.min (cpt + off) b.nch := by
      show cpt ≤ min (cpt + off) b.nch
      omega
    have h2 : Nat.min (cpt + off) b.nch - cpt = Nat.min off (b.nch - cpt) := by
      show min (cpt + off) b.nch - cpt = min off (b.nch - cpt)
      omega
    refine ⟨?_, ?_⟩
    · unfold EditAcc.charDistance
      simp only []
      rw [if_pos h1, h2]
    · show cpt + min off (b.nch - cpt) ≤ b.nch
      omega
  · intro h
    have h1 : ¬ cpt ≤ Nat.min (cpt + off) b.nch := by
      show ¬ cpt ≤ min (cpt + off) b.nch
      omega
    exact ⟨_, by unfold EditAcc.charDistance; simp only []; rw [if_neg h1]⟩

/-- **`ch_idx ∘ to_curr_byte_idx` is the identity** (any text with at least one character; what
`NodeSplitIterator::next` relies on when it snaps a byte end to a character start): for every character index `i` up
to and including the end index both look-ups are in range and `mod_b2c[mod_c2b[i]] = i`; beyond the sentinel
`to_curr_byte_idx` is an index panic. -/
theorem ch_idx_roundtrip (b : EditAcc.Buf) (hpos : 0 < b.nch) (i : Nat) :
    (i ≤ b.nch → ∃ x, EditAcc.toCurrByteIdx b i = .ok x ∧ x ≤ b.cur.length ∧ EditAcc.chIdx b x = .ok i) ∧
    (b.nch < i → ∃ w, EditAcc.toCurrByteIdx b i = .panic w) := by
  constructor
  · intro hi
    obtain ⟨x, hx⟩ := c2b_getElem_some b.cur i hi
    exact ⟨x, EditAcc.idx_ok _ _ _ _ hx, (c2b_getElem_boOf _ _ _ hx).2,
      EditAcc.idx_ok _ _ _ _ (b2c_c2b b.cur i x hi hpos hx)⟩
  · intro hi
    exact ⟨_, by unfold EditAcc.toCurrByteIdx EditAcc.idx; rw [c2b_getElem_none _ _ hi]⟩

/-- **the slices by character index** (`curr_slice_c`, `orig_slice_c`) of a reached buffer, for `s ≤ e` inside the
text: both are defined; `curr_slice_c` is the rewritten text between the two characters' first bytes and `orig_slice_c`
is the slice of the ORIGINAL between their images - the same bytes `orig_slice` returns for that byte range. -/
theorem slices_by_chars (o : List Nat) (bs : List (List (Edit Nat))) (lv : LenV) (l : List (P Nat))
    (hr : Reached o bs lv l) (s e : Nat) (hse : s ≤ e) (hen : e ≤ nchars (textOf l)) :
    ∃ x y, (c2b (textOf l))[s]? = some x ∧ (c2b (textOf l))[e]? = some y ∧ x ≤ y ∧
      EditAcc.currSliceC ⟨o, l⟩ s e = .ok (slice (textOf l) x y) ∧
      EditAcc.origSliceC ⟨o, l⟩ s e = .ok (slice o (valAt l x) (valAt l y)) ∧
      EditAcc.origSlice ⟨o, l⟩ x y = .ok (slice o (valAt l x) (valAt l y)) := by
  have hinv := hr.inv
  obtain ⟨x, hx, hxl, _, hxb, hxo, hxB, _⟩ := toOrigByteIdx_spec o l hinv s (by omega)
  obtain ⟨y, hy, hyl, _, hyb, hyo, hyB, _⟩ := toOrigByteIdx_spec o l hinv e hen
  have hxy : x ≤ y := c2b_getElem_mono _ _ _ _ _ hse hx hy
  have hle : valAt l x ≤ valAt l y := mono_valAt hinv.mono hxy hyl
  have hsl := EditAcc.strSlice_ok o _ _ hle hxB hyB
  refine ⟨x, y, hx, hy, hxy, ?_, ?_, ?_⟩
  · unfold EditAcc.currSliceC EditAcc.toCurrByteIdx
    simp only [EditAcc.Buf.cur]
    rw [EditAcc.idx_ok _ _ _ _ hx, EditAcc.idx_ok _ _ _ _ hy]
    simp only []
    exact EditAcc.strSlice_ok _ _ _ hxy hxb hyb
  · unfold EditAcc.origSliceC
    rw [EditAcc.toOrigByteIdxA_eq ⟨o, l⟩ s _ hxo, EditAcc.toOrigByteIdxA_eq ⟨o, l⟩ e _ hyo]
    simp only []
    exact hsl
  · unfold EditAcc.origSlice
    rw [if_pos ⟨EditAcc.isCharBoundary_of_boOf _ _ hxb, EditAcc.isCharBoundary_of_boOf _ _ hyb⟩]
    unfold EditAcc.toOrig
    simp only [EditAcc.Buf.m2o]
    rw [EditAcc.idx_ok _ _ _ _ (snds_getElem? l x hxl), EditAcc.idx_ok _ _ _ _ (snds_getElem? l y hyl)]
    simp only []
    exact hsl

/-- non-vacuity of `Reached`, `h0t`, `hb`/`he` and the range hypotheses: `宇宙人`, first character replaced by `あい`, then
the third character of the result deleted (two batches): the node "characters 1..3" (`い宙`, bytes 3..9) of the rewritten
text `あい宙人`... reports bytes 3..6, code points 1..2, surface `宙`; the last node reports the end of the original. -/
example :
    let o := [0xE5, 0xAE, 0x87, 0xE5, 0xAE, 0x99, 0xE4, 0xBA, 0xBA]
    let b1 : List (Edit Nat) := [⟨0, 3, [0xE3, 0x81, 0x82, 0xE3, 0x81, 0x84]⟩]
    let b2 : List (Edit Nat) := [⟨9, 12, []⟩]
    ∃ l, commitAllV .final (identFrom 0 o) [b1, b2] = some l ∧ o ≠ [] ∧ BoOf o 0 ∧ BoOf (textOf l) 0 ∧
      nchars (textOf l) = 3 ∧ (c2b (textOf l))[1]? = some 3 ∧ (c2b (textOf l))[3]? = some 9 ∧
      EditAcc.morpheme ⟨o, l⟩ ⟨1, 3, 3, 9⟩ = .ok ⟨3, 9, 1, 3, [0xE5, 0xAE, 0x99, 0xE4, 0xBA, 0xBA]⟩ ∧
      EditAcc.pyOffsets ⟨o, l⟩ ⟨1, 3, 3, 9⟩ = .ok (1, 3, 2) ∧
      EditAcc.morpheme ⟨o, l⟩ ⟨0, 1, 0, 3⟩ = .ok ⟨0, 3, 0, 1, [0xE5, 0xAE, 0x87]⟩ := by
  refine ⟨_, rfl, by decide, Or.inr ⟨by decide, by decide⟩, Or.inr ⟨by decide, by decide⟩, by decide, by decide,
    by decide, by decide, by decide, by decide⟩

/-- non-vacuity of the panic branches: inside a character `get_original_index` asserts; `char_distance` from beyond the end
underflows; `to_orig_char_idx` on a map entry inside a character (NOT reachable by admissible batches: here a hand-made
map) meets the `usize::MAX` marker -/
example :
    let o := [0xE5, 0xAE, 0x87, 0x61]
    EditAcc.getOriginalIndex ⟨o, identFrom 0 o⟩ 1 = .panic "debug_assert: off char boundary" ∧
    EditAcc.getOriginalIndex ⟨o, identFrom 0 o⟩ 3 = .ok 3 ∧
    EditAcc.charDistance ⟨o, identFrom 0 o⟩ 3 1 = .panic "attempt to subtract with overflow" ∧
    EditAcc.charDistance ⟨o, identFrom 0 o⟩ 1 5 = .ok 1 ∧
    EditAcc.toOrigCharIdxA ⟨o, [(some 0x61, 0), (some 0x61, 1), (none, 4)]⟩ 1 = .panic "debug_assert_ne: usize::MAX marker" := by
  decide

/-- observations OUTSIDE the property's quantifier (it asks for a non-empty text after every batch), reproduced on the real
buffer by the directed `acc` cases 0 and 1: for an EMPTY original `to_orig_char_idx(0)` is 1 (`fill_orig_b2c` writes `max + 1`
with `max = 0` although there is no character; likewise the `mod_b2c` sentinel: `ch_idx(0) = 1`), and when a batch deletes
the WHOLE text the only map entry left is the sentinel, which "the first entry MUST be 0" overwrites: end ↦ 0, not end ↦ 1. -/
example :
    EditAcc.toOrigCharIdxA ⟨[], identFrom 0 []⟩ 0 = .ok 1 ∧ EditAcc.chIdx ⟨[], identFrom 0 []⟩ 0 = .ok 1 ∧
    (commitAllV .final (identFrom 0 [0x61]) [[⟨0, 1, []⟩]]).map snds = some [0] := by
  decide

/-! ## `unreplaced_exact`: deletions as ghost state

`EditG.commitAllVG` (`Model/EditGhost.lean`) is the SAME loop as `resolve_edits` run on bytes that carry a ghost `Tag`
(`org = some k`: byte `k` of the original, never written by a replacement; `att = some d`: a deletion run is attached after the
byte and its image in the original ends at `d`; `lead`: the byte has been the first entry of a batch result).  The ghost state is
write-only; erasing it gives the executed buffer (`mapP Prod.fst lg = l`).  `EditG.Deleted (identFrom 0 o) bs j`: the original
offset `j` lies in the image `[m2o[s], m2o[e])` of an edit `s..e ↦ ""` of one of the batches (`m2o` = the map that batch is applied
to).  `EditG.startOf t k = if t.lead then 0 else k`, `EditG.endOf t k = match t.att with | none => k + 1 | some d => d`. -/

/-- **`unreplaced_exact`** (last clause of the property, FULL statement of DESIGN §3 C08; any number of successive batches, either
length guard).  The ghost-tagged run of the executed batches exists and erases to the executed buffer `l` (same bytes, same map
values).  For EVERY entry `i` of it that carries an unreplaced byte (`org = some k`: byte `k` of the original text, copied by
every batch, never written by a replacement):
* it is not the sentinel entry (`i + 1` is an entry) and still carries the byte `o[k]`;
* its image `[m2o[i], m2o[i+1])` STARTS at its own offset `k` - or at 0 if it has become the first entry of a batch result
  (`lead`), and then every original offset before `k` lies in the image of a deleting edit (a leading deletion);
* its image ENDS EXACTLY at its own end `k + 1`, unless a deletion run is attached after it (`att = some d`), in which case it
  ends exactly at `d ≥ k + 1`, the end of that run, and every original offset in `[k + 1, d)` lies in the image of a deleting
  edit;
* no map value lies strictly inside the image.
The property's sentence "maps each unreplaced character to itself" is the special case "not adjacent to a deletion"
(`unreplaced_maps_to_itself` below). -/
theorem unreplaced_exact (o : List Nat) (bs : List (List (Edit Nat))) (lv : LenV) (l : List (P Nat))
    (hr : Reached o bs lv l) :
    ∃ lg : List (P EditG.GB),
      EditG.commitAllVG lv (EditG.ghostIdent o) bs = some lg ∧ mapP Prod.fst lg = l ∧ snds lg = snds l ∧
      ∀ (i : Nat) (hi : i < lg.length) (b : Nat) (t : EditG.Tag) (k : Nat), (lg[i]).1 = some (b, t) → t.org = some k →
        ∃ h : i + 1 < lg.length,
          (∃ hk : k < o.length, b = o[k]) ∧
          (lg[i]).2 = EditG.startOf t k ∧
          (lg[i + 1]).2 = EditG.endOf t k ∧
          k + 1 ≤ EditG.endOf t k ∧
          (t.lead = true → ∀ j, j < k → EditG.Deleted (identFrom 0 o) bs j) ∧
          (∀ d, t.att = some d → ∀ j, k + 1 ≤ j → j < d → EditG.Deleted (identFrom 0 o) bs j) ∧
          (∀ (j : Nat) (hj : j < lg.length), ¬ ((lg[i]).2 < (lg[j]).2 ∧ (lg[j]).2 < (lg[i + 1]).2)) := by
  obtain ⟨lg, h1, h2, hinvg⟩ := EditG.ghost_run o bs lv l hr.2.2.1 hr.2.2.2
  have h3 : snds lg = snds l := by rw [← h2, snds_mapP]
  refine ⟨lg, h1, h2, h3, ?_⟩
  intro i hi b t k hb hk
  have hinv := hr.inv
  -- an entry that carries a byte is not the sentinel entry
  have hi' : i + 1 < lg.length := by
    obtain ⟨body, hbody, _⟩ := hinv.shape
    have hl2 : lg.length = body.length + 1 := by rw [← mapP_length Prod.fst lg, h2, hbody]; simp
    rcases Nat.lt_or_ge (i + 1) lg.length with h' | h'
    · exact h'
    · exfalso
      have hib : i = body.length := by omega
      have h4 : (mapP Prod.fst lg)[i]? = some ((none : Option Nat), o.length) := by rw [h2, hbody, hib]; simp
      unfold mapP at h4
      rw [List.getElem?_map, List.getElem?_eq_getElem hi] at h4
      simp [hb] at h4
  refine ⟨hi', ?_⟩
  obtain ⟨g1, g2⟩ := hinvg.val lg[i] (List.getElem_mem _) b t k hb hk
  have g3 : (lg[i + 1]).2 = EditG.endOf t k := chain_getElem lg hinvg.chain i hi' b t k hb hk
  have gcov := hinvg.cov lg[i] (List.getElem_mem _) b t k
  have g4 : k + 1 ≤ EditG.endOf t k := by
    cases hat : t.att with
    | none => simp [EditG.endOf, hat]
    | some d => simpa [EditG.endOf, hat] using (gcov d hb hk hat).1
  refine ⟨g1, g2, g3, g4, fun hl => hinvg.lead lg[i] (List.getElem_mem _) b t k hb hk hl,
    fun d hd => (gcov d hb hk hd).2, ?_⟩
  intro j hj ⟨c1, c2⟩
  have hm : Mono (snds lg) := by rw [h3]; exact hinv.mono
  have hp := List.pairwise_iff_getElem.mp hm
  have hv : ∀ (a : Nat) (ha : a < lg.length), (snds lg)[a]'(by simpa [snds] using ha) = (lg[a]).2 := by
    intro a ha; simp [snds]
  rcases Nat.lt_or_ge i j with hij | hij
  · rcases Nat.lt_or_ge (i + 1) j with h' | h'
    · have := hp (i + 1) j (by simpa [snds] using hi') (by simpa [snds] using hj) h'
      rw [hv _ hi', hv _ hj] at this; omega
    · have : j = i + 1 := by omega
      subst this; omega
  · rcases Nat.lt_or_ge j i with h' | h'
    · have := hp j i (by simpa [snds] using hj) (by simpa [snds] using hi) h'
      rw [hv _ hj, hv _ hi] at this; omega
    · have : j = i := by omega
      subst this; omega

/-- **"maps each unreplaced character to itself"**, the property's own sentence, as the special case "not adjacent to a
deletion" of `unreplaced_exact`: an unreplaced byte `k` with no deletion run attached after it (`att = none`) that has not
become a first entry after a leading deletion (`lead = false`, or it is byte 0 itself) has the image `[k, k + 1)` - exactly
itself.  For a character (all its bytes unreplaced and adjacent, edits being on character boundaries) the images of its bytes
tile its own byte range. -/
theorem unreplaced_maps_to_itself (o : List Nat) (bs : List (List (Edit Nat))) (lv : LenV) (l : List (P Nat))
    (hr : Reached o bs lv l) (lg : List (P EditG.GB)) (hg : EditG.commitAllVG lv (EditG.ghostIdent o) bs = some lg)
    (i : Nat) (hi : i < lg.length) (b : Nat) (t : EditG.Tag) (k : Nat) (hb : (lg[i]).1 = some (b, t)) (hk : t.org = some k)
    (hatt : t.att = none) (hlead : t.lead = false ∨ k = 0) :
    ∃ h : i + 1 < lg.length, (lg[i]).2 = k ∧ (lg[i + 1]).2 = k + 1 ∧ valAt l i = k ∧ valAt l (i + 1) = k + 1 := by
  obtain ⟨lg', h1, h2, h3, h4⟩ := unreplaced_exact o bs lv l hr
  have : lg' = lg := by rw [h1] at hg; exact Option.some.inj hg
  subst this
  obtain ⟨h, _, g2, g3, _⟩ := h4 i hi b t k hb hk
  have e1 : (lg'[i]).2 = k := by
    rw [g2]
    rcases hlead with hl | hl
    · simp [EditG.startOf, hl]
    · subst hl; simp [EditG.startOf]
  have e2 : (lg'[i + 1]).2 = k + 1 := by rw [g3]; simp [EditG.endOf, hatt]
  have hv : ∀ a, valAt l a = valAt lg' a := by intro a; rw [← h2, valAt_mapP]
  refine ⟨h, e1, e2, ?_, ?_⟩
  · rw [hv, valAt_eq lg' i hi]; exact e1
  · rw [hv, valAt_eq lg' (i + 1) h]; exact e2

/-- **without deletions every unreplaced byte maps exactly to itself**: when no edit of any batch has an empty replacement, the
image of every byte that no replacement wrote is `[k, k + 1)` (nothing can be attached, nothing can be forced). -/
theorem no_deletion_exact (o : List Nat) (bs : List (List (Edit Nat))) (lv : LenV) (l : List (P Nat))
    (hr : Reached o bs lv l) (hnd : ∀ es ∈ bs, ∀ ed ∈ es, ed.w ≠ [])
    (lg : List (P EditG.GB)) (hg : EditG.commitAllVG lv (EditG.ghostIdent o) bs = some lg)
    (i : Nat) (hi : i < lg.length) (b : Nat) (t : EditG.Tag) (k : Nat) (hb : (lg[i]).1 = some (b, t)) (hk : t.org = some k) :
    ∃ h : i + 1 < lg.length, (lg[i]).2 = k ∧ (lg[i + 1]).2 = k + 1 := by
  have hno : ∀ (bs' : List (List (Edit Nat))) (l' : List (P Nat)) (j : Nat), (∀ es ∈ bs', ∀ ed ∈ es, ed.w ≠ []) →
      ¬ EditG.Deleted l' bs' j := by
    intro bs'
    induction bs' with
    | nil => intro l' j _ h; exact h
    | cons es rest ih =>
      intro l' j hn h
      rcases h with ⟨ed, hed, hw, _⟩ | h
      · exact hn es (by simp) ed hed hw
      · exact ih _ j (fun es' he => hn es' (by simp [he])) h
  obtain ⟨lg', h1, h2, h3, h4⟩ := unreplaced_exact o bs lv l hr
  have : lg' = lg := by rw [h1] at hg; exact Option.some.inj hg
  subst this
  obtain ⟨h, _, g2, g3, g4, g5, g6, _⟩ := h4 i hi b t k hb hk
  refine ⟨h, ?_, ?_⟩
  · rw [g2]
    cases hl : t.lead with
    | false => simp [EditG.startOf, hl]
    | true =>
      have : k = 0 := by
        rcases Nat.eq_zero_or_pos k with h0 | h0
        · exact h0
        · exact absurd (g5 hl 0 h0) (hno bs _ 0 hnd)
      subst this; simp [EditG.startOf]
  · rw [g3]
    cases hat : t.att with
    | none => simp [EditG.endOf, hat]
    | some d =>
      have h5 : k + 1 ≤ d := by simpa [EditG.endOf, hat] using g4
      rcases Nat.lt_or_ge (k + 1) d with h6 | h6
      · exact absurd (g6 d hat (k + 1) (Nat.le_refl _) h6) (hno bs _ (k + 1) hnd)
      · simp only [EditG.endOf, hat]; omega

/-- **two unreplaced bytes that are neighbours in the rewritten text**: the second has never been forced to 0 and its own offset
`k'` is exactly where the image of the first ends - `k' = k + 1` (neighbours in the original too) unless a deletion run is attached
after the first, and then everything in between, `[k + 1, k')`, lies in the image of deleting edits.  (This is the character-level
reading: the bytes of an unreplaced character, and two unreplaced characters that follow each other, tile their own original range.) -/
theorem unreplaced_neighbours (o : List Nat) (bs : List (List (Edit Nat))) (lv : LenV) (l : List (P Nat))
    (hr : Reached o bs lv l) (lg : List (P EditG.GB)) (hg : EditG.commitAllVG lv (EditG.ghostIdent o) bs = some lg)
    (i : Nat) (hi : i + 1 < lg.length) (b b' : Nat) (t t' : EditG.Tag) (k k' : Nat)
    (hb : (lg[i]).1 = some (b, t)) (hk : t.org = some k) (hb' : (lg[i + 1]).1 = some (b', t')) (hk' : t'.org = some k') :
    t'.lead = false ∧ k' = EditG.endOf t k ∧ k + 1 ≤ k' ∧ (lg[i + 1]).2 = k' ∧
      (t.att = none → k' = k + 1) ∧ (∀ j, k + 1 ≤ j → j < k' → t.att ≠ none ∧ EditG.Deleted (identFrom 0 o) bs j) := by
  obtain ⟨lg', h1, h2, h3, h4⟩ := unreplaced_exact o bs lv l hr
  have : lg' = lg := by rw [h1] at hg; exact Option.some.inj hg
  subst this
  obtain ⟨_, _, _, g3, g4, _, g6, _⟩ := h4 i (by omega) b t k hb hk
  obtain ⟨_, _, f2, _⟩ := h4 (i + 1) hi b' t' k' hb' hk'
  have hl : t'.lead = false := by
    cases hl : t'.lead with
    | false => rfl
    | true =>
      have : (lg'[i + 1]).2 = 0 := by rw [f2]; simp [EditG.startOf, hl]
      omega
  have hs : EditG.startOf t' k' = k' := by simp [EditG.startOf, hl]
  have hkk : k' = EditG.endOf t k := by rw [← g3, f2, hs]
  refine ⟨hl, hkk, by omega, by rw [f2, hs], ?_, ?_⟩
  · intro hat; rw [hkk]; simp [EditG.endOf, hat]
  · intro j hj1 hj2
    cases hat : t.att with
    | none =>
      have : EditG.endOf t k = k + 1 := by simp [EditG.endOf, hat]
      omega
    | some d =>
      have : EditG.endOf t k = d := by simp [EditG.endOf, hat]
      exact ⟨by simp, g6 d hat j hj1 (by omega)⟩

/-- **what the driver predicts is the map**: the `edits` answer line lists, for the `i`-th byte of the rewritten text whose ghost
state `t` (`EditG.tagsOf`: the ghost states of the entries in order - the sentinel entry has none, so position `i` in that list IS
byte offset `i`) says "unreplaced byte `k`", the image `[startOf t k, endOf t k)` computed from the ghost state alone
(`EditG.predicted`); that pair is `[m2o[i], m2o[i+1])` of the EXECUTED buffer.  (The harness compares the same pair with
`get_original_index` on the real buffer: the kernel-checked half of the `uimg=` tie.) -/
theorem predicted_image_is_map (o : List Nat) (bs : List (List (Edit Nat))) (lv : LenV) (l : List (P Nat))
    (hr : Reached o bs lv l) (lg : List (P EditG.GB)) (hg : EditG.commitAllVG lv (EditG.ghostIdent o) bs = some lg)
    (i : Nat) (t : EditG.Tag) (k : Nat) (ht : (EditG.tagsOf lg)[i]? = some t) (hk : t.org = some k) :
    i + 1 ≤ (textOf l).length ∧ valAt l i = EditG.startOf t k ∧ valAt l (i + 1) = EditG.endOf t k := by
  obtain ⟨lg', h1, h2, h3, h4⟩ := unreplaced_exact o bs lv l hr
  have : lg' = lg := by rw [h1] at hg; exact Option.some.inj hg
  subst this
  have hinv := hr.inv
  have hshape : Shape o.length (mapP Prod.fst lg') := by rw [h2]; exact hinv.shape
  obtain ⟨body, s, hlg, hs, hall⟩ := EditG.shape_of_erase lg' o.length hshape
  subst hlg
  obtain ⟨hi, b, hb⟩ := EditG.tagsOf_getElem body s hall hs i t ht
  have hi' : i < (body ++ [s]).length := by simp; omega
  have hget : (body ++ [s])[i] = body[i] := List.getElem_append_left hi
  obtain ⟨h, _, g2, g3, _⟩ := h4 i hi' b t k (by rw [hget]; exact hb) hk
  have hv : ∀ a, valAt l a = valAt (body ++ [s]) a := by intro a; rw [← h2, valAt_mapP]
  have hlen := shape_length hinv.shape
  have hl2 : l.length = body.length + 1 := by rw [← h2, mapP_length]; simp
  refine ⟨by omega, ?_, ?_⟩
  · rw [hv, valAt_eq _ i hi']; exact g2
  · rw [hv, valAt_eq _ (i + 1) h]; exact g3

/-- non-vacuity of the ghost-tagged run: `abcd`, batch 1 deletes `a` (leading deletion) and `c`, batch 2 inserts `xy` before `b`:
`b` is tagged `1`, has been a first entry (`lead`, value 0: the deleted `a` attaches to it) and the deleted `c` is attached after
it (`att = some 3`: its image ends at 3, not at 2); `d` maps to itself; the inserted bytes are tagged "written by a
replacement".  Predicted images `[0, 3)` and `[3, 4)` = the map values. -/
example :
    EditG.commitAllVG .final (EditG.ghostIdent [0x61, 0x62, 0x63, 0x64]) [[⟨0, 1, []⟩, ⟨2, 3, []⟩], [⟨0, 0, [0x78, 0x79]⟩]]
      = some [(some (0x78, ⟨none, none, true⟩), 0), (some (0x79, ⟨none, none, false⟩), 0),
              (some (0x62, ⟨some 1, some 3, true⟩), 0), (some (0x64, ⟨some 3, none, false⟩), 3), (none, 4)] ∧
    EditG.Deleted (identFrom 0 [0x61, 0x62, 0x63, 0x64]) [[⟨0, 1, []⟩, ⟨2, 3, []⟩], [⟨0, 0, [0x78, 0x79]⟩]] 2 ∧
    EditG.Deleted (identFrom 0 [0x61, 0x62, 0x63, 0x64]) [[⟨0, 1, []⟩, ⟨2, 3, []⟩], [⟨0, 0, [0x78, 0x79]⟩]] 0 := by
  refine ⟨by decide, Or.inl ⟨⟨2, 3, []⟩, by simp, rfl, by decide, by decide⟩, Or.inl ⟨⟨0, 1, []⟩, by simp, rfl, by decide, by decide⟩⟩

/-- non-vacuity of `no_deletion_exact`'s hypothesis and of "the image may end later only next to a deletion": `宇宙人` with the
second character replaced by `x` (no deletion): the bytes of `宇` and `人` map to themselves; the replacement byte has the image
`[3, 6)` -/
example :
    (EditG.commitAllVG .final (EditG.ghostIdent [0xE5, 0xAE, 0x87, 0xE5, 0xAE, 0x99, 0xE4, 0xBA, 0xBA]) [[⟨3, 6, [0x78]⟩]]).map
      (fun lg => (snds lg, EditG.predicted 0 (EditG.tagsOf lg)))
      = some ([0, 1, 2, 3, 6, 7, 8, 9], ["0:0:1", "1:1:2", "2:2:3", "4:6:7", "5:7:8", "6:8:9"]) ∧
    (∀ es ∈ [[(⟨3, 6, [0x78]⟩ : Edit Nat)]], ∀ ed ∈ es, ed.w ≠ []) := by
  decide

/-! ## the whole tokenizer: code-point offsets of every morpheme, no `hb`/`he` -/

open Total Partition Oov in
/-- **`tokenizer_morpheme_codepoints`** (first sentence of the property for the WHOLE of `do_tokenize`; `C01.tokens_partition_original`
composed with `slice_agree`'s arithmetic - the hypotheses `hb`/`he` of `routes_agree`/`morpheme_accessors_total` are gone: that the
byte range of a morpheme is the `mod_c2b` image of its character range is what C01's `PathOk` carries through the lattice, the
rewrite stage and `split_path`).  For EVERY morpheme `m` of EVERY result `Total.tokenize` returns (every mode, dictionary, plugin
stack; hypotheses exactly those of `C01.tokens_partition_original`): all five accessors are defined (`Total.access` = `begin`,
`end`, `begin_c`, `end_c`, `surface` with every index check and debug assertion), `begin ≤ end ≤ |original|` on character
boundaries of the ORIGINAL, `begin_c`/`end_c` are the numbers of code points of the original before `begin()`/`end()`, character
number `begin_c` (`end_c`) of the original begins at byte `begin()` (`end()`) - slicing the original by code points IS slicing it
by bytes -, `end_c - begin_c` is the number of code points of that slice (Python `len(m)`), and `surface()` is that slice
(`sb = begin`, `se = end`: the byte route gives the same range). -/
theorem tokenizer_morpheme_codepoints (lv : LenV) (cfg : Cfg) (orig : List Nat) (horig : BoOf orig 0)
    (hplug : ∀ p ∈ cfg.inputPlugins, PluginOk orig p)
    (hutf : ∀ l0 l chars, startBuild orig = some l0 → rewriteInput lv cfg.inputPlugins l0 = .ok l →
      Wire.utf8Decode (textOf l) = some chars → chars.length = nchars (textOf l))
    (rv : Oov.Variant) (bowFix : Bool) (tab : List (Nat × Nat))
    (hmk : ∀ chars, Oov.mkBufV rv bowFix tab chars = some (cfg.mkBuf chars))
    (hrowsz : ∀ chars nodes, Reaches lv cfg orig chars → Oov.buildLattice cfg.providers cfg.lex (cfg.mkBuf chars) = .ok nodes →
      ∀ e, (nodes.map toVit).countP (fun n => n.e == e) ≤ 4294967295)
    (hrew : ∀ (tb2c tc2b : List Nat) (nc nb : Nat) path path', PathOk tb2c tc2b nc nb path → cfg.rewrite path = .ok path' →
      PathOk tb2c tc2b nc nb (path'.map (·.1)))
    (r : Result) (h : tokenize .d6fix lv cfg orig = .ok r) :
    ∀ m ∈ r.morphs, ∃ a, access orig r.tables m = .ok a ∧
      a.b ≤ a.e ∧ a.e ≤ orig.length ∧ BoOf orig a.b ∧ BoOf orig a.e ∧
      a.bc = nchars (orig.take a.b) ∧ a.ec = nchars (orig.take a.e) ∧
      (c2b orig)[a.bc]? = some a.b ∧ (c2b orig)[a.ec]? = some a.e ∧
      a.ec - a.bc = nchars (slice orig a.b a.e) ∧
      a.sb = a.b ∧ a.se = a.e := by
  exact codepoints_of_partition orig r
    (C01.tokens_partition_original lv cfg orig horig hplug hutf rv bowFix tab hmk hrowsz hrew r h)

open Total Partition Oov in
/-- **`tokenizer_morpheme_codepoints` for the configuration a `pipe` case line is executed with** (`TotalIO.mkCfg`: the SAME instance
of the SAME function the driver runs against the real tokenizer in C03's correspondence stream; `C01.pipe_tokens_partition`
composed): `hmk` and `hrew` are discharged there (buffer over the compiled `char.def`, word-info stage with ANY unit table = any
split mode and any - also ill-formed - split declarations), `hutf` is in its honest form (the rewritten text IS the UTF-8 encoding
of the characters it decodes to).  Remaining: `horig` (a `&str`), `hplug` (the input-text plugins emit sorted, non-overlapping,
in-range edits on character starts), `hrowsz` (< 65536 candidates per boundary). -/
theorem pipe_morpheme_codepoints (lv : LenV) (orig : List Nat) (horig : BoOf orig 0)
    (plugins : List (List Nat → Outcome (List (Edit Nat)))) (rv : Oov.Variant) (bowFix : Bool)
    (rs : List CharCat.CatRange) (ps : List Oov.Provider) (lex : List Oov.Word) (conn : Nat → Nat → Int)
    (units : EditM.NodeRange → List Nat)
    (hplug : ∀ p ∈ plugins, PluginOk orig p)
    (hutf : ∀ l0 l chars, startBuild orig = some l0 → rewriteInput lv plugins l0 = .ok l →
      Wire.utf8Decode (textOf l) = some chars → textOf l = TotalIO.encode chars)
    (hrowsz : ∀ chars nodes, Reaches lv (TotalIO.mkCfg plugins rv bowFix rs ps lex conn units) orig chars →
      Oov.buildLattice ps lex (TotalIO.mkBufOf rv bowFix (CharCat.compile rs) chars) = .ok nodes →
      ∀ e, (nodes.map toVit).countP (fun n => n.e == e) ≤ 4294967295)
    (r : Result) (h : tokenize .d6fix lv (TotalIO.mkCfg plugins rv bowFix rs ps lex conn units) orig = .ok r) :
    ∀ m ∈ r.morphs, ∃ a, access orig r.tables m = .ok a ∧
      a.b ≤ a.e ∧ a.e ≤ orig.length ∧ BoOf orig a.b ∧ BoOf orig a.e ∧
      a.bc = nchars (orig.take a.b) ∧ a.ec = nchars (orig.take a.e) ∧
      (c2b orig)[a.bc]? = some a.b ∧ (c2b orig)[a.ec]? = some a.e ∧
      a.ec - a.bc = nchars (slice orig a.b a.e) ∧
      a.sb = a.b ∧ a.se = a.e :=
  codepoints_of_partition orig r
    (C01.pipe_tokens_partition lv orig horig plugins rv bowFix rs ps lex conn units hplug hutf hrowsz r h)

end C08
