import Sudachi.Proofs.Split
import Sudachi.Proofs.SplitJoin
/-!
# C09 — Modes A and B refine mode C with exactly the dictionary's split units

Model: `Model/Split.lean` (`resolve_best_path` incl. the byte range it computes from `mod_c2b`,
`split_path`, `NodeSplitIterator::next`, `MorphemeList::split_into`, `set_mode`/`set_subset`/`normalize`,
the early-exit word-info reader, `update_dict_id`, `Morpheme::begin/end` and `Morpheme::surface`).

A path is a list of `Node`s with character range `cb..ce` and byte range `bb..be` in the rewritten
text.  `Linked p c b c' b'` = the nodes start at `(c, b)`, abut, and end at `(c', b')`; this is the
shape the lattice search returns (C02) and the path-rewrite plugins preserve (C14).
-/
namespace C09
open Split

/-- **Clause 1 (all dictionaries, all histories): A/B boundaries ⊇ C boundaries, tokens without
declared splits unchanged.**  For every lexicon set (well-formed or not), every loaded subset,
every offset table and every path: if `split_path` returns, every begin/end (characters and bytes)
of a node of the input path is a begin/end of a node of the output path, and every node that
declares at most one unit is itself a node of the output. -/
theorem boundaries_refine (cx : Ctx) (m : Mode) (path out : List Node)
    (h : splitPath cx m path = .ok out) :
    (∀ n ∈ path, n.cb ∈ out.map (·.cb) ∧ n.bb ∈ out.map (·.bb) ∧ n.ce ∈ out.map (·.ce) ∧ n.be ∈ out.map (·.be)) ∧
    (∀ n ∈ path, numSplits n m ≤ 1 → n ∈ out) := by
  unfold splitPath at h
  by_cases hm : m = Mode.C
  · simp only [hm, if_true] at h
    cases h
    refine ⟨fun n hn => ⟨?_, ?_, ?_, ?_⟩, fun n hn _ => hn⟩ <;> exact List.mem_map.mpr ⟨n, hn, rfl⟩
  · simp only [hm, if_false] at h
    have key : ∀ n ∈ path, ∃ o1 us o2, out = o1 ++ us ++ o2 ∧ expand cx m n = .ok us := by
      intro n hn
      obtain ⟨p1, p2, rfl⟩ := List.append_of_mem hn
      obtain ⟨o1, us, o2, ho, _, hus, _⟩ := splitPathGo_decompose cx m p1 n p2 out h
      exact ⟨o1, us, o2, ho, hus⟩
    constructor
    · intro n hn
      obtain ⟨o1, us, o2, rfl, hus⟩ := key n hn
      have hl := expand_linked cx m n us hus
      obtain ⟨h1, h2, h3, h4⟩ := Linked_bounds us _ _ _ _ (expand_ne_nil cx m n us hus) hl
      simp only [List.map_append, List.mem_append]
      exact ⟨Or.inl (Or.inr h1), Or.inl (Or.inr h2), Or.inl (Or.inr h3), Or.inl (Or.inr h4)⟩
    · intro n hn hle
      obtain ⟨o1, us, o2, rfl, hus⟩ := key n hn
      simp only [expand, hle, if_true] at hus
      cases hus
      simp

/-- **Chain form of clause 1** (the hypothesis `C01.surfaces_partition` needs, before the
monotonicity supplied by `units_exact`): if the mode C path is a linked chain from `(c, b)` to
`(c', b')` then so is the A/B path — same start, same end, every token begins where the previous
one ended, in characters and in bytes.  Holds for all dictionaries. -/
theorem chain_preserved (cx : Ctx) (m : Mode) (path out : List Node)
    (c b c' b' : Nat) (h : splitPath cx m path = .ok out) (hl : Linked path c b c' b') :
    Linked out c b c' b' := by
  unfold splitPath at h
  by_cases hm : m = Mode.C
  · simp only [hm, if_true] at h; cases h; exact hl
  · simp only [hm, if_false] at h
    exact splitPathGo_linked cx m path out _ _ _ _ h hl

/-- the sub-tokens of a split node carry the declared unit ids, in order (all dictionaries) -/
theorem units_ids (cx : Ctx) (m : Mode) (n : Node) (us : List Node)
    (h : split cx n m = .ok us) : us.map (·.wid) = splitsOf n m := by
  cases m
  · exact splitGo_wids cx _ _ _ _ _ us h
  · exact splitGo_wids cx _ _ _ _ _ us h
  · simp [split] at h

/-- what the offset tables of the buffer must satisfy (established by `InputBuffer::build`; for
`mod_b2c` proved of the table construction in `mkB2c_ok`; checked on the real tables by the harness):
`mod_b2c` at the byte offset of character `k` is `k`; (repaired variant only) `mod_c2b[k]` is that
byte offset; the text is shorter than 65536 bytes (`start_build`/`commit` enforce 49149/65535). -/
structure TextOk (cx : Ctx) (w : Nat → Nat) (cs : List Nat) : Prop where
  b2c : B2cOk w cs cx.b2c
  c2b : cx.v = Variant.d6fix → C2bOk w cs cx.c2b
  size : pre w cs cs.length < 65536 ∧ cs.length < 65536

/-- **The property's own hypothesis** for one parent node `n` over the rewritten text `cs`
(scalar values, `w` = UTF-8 width): `key u` is the key (CSV column 0) of unit `u`; the declared
units' keys concatenate to the text the parent covers — which is the parent's key, lookup being an
exact match (C04) —; the parent's byte range is the byte image of its character range; each unit's
word info loads and its stored `head_word_length` is the byte length of its key (what
`dic/build/lexicon.rs: write_word_info` writes). -/
structure SplitsConcat (cx : Ctx) (w : Nat → Nat) (cs : List Nat) (key : Nat → List Nat) (n : Node) (m : Mode) : Prop where
  range : n.cb ≤ n.ce ∧ n.ce ≤ cs.length
  bytes : n.bb = pre w cs n.cb ∧ n.be = pre w cs n.ce
  concat : ((splitsOf n m).map key).flatten = (cs.drop n.cb).take (n.ce - n.cb)
  keys : KeysLoaded cx w key (splitsOf n m)

/-- **Clause 2: under `SplitsConcat` the sub-tokens are exactly the declared units, in order, and
their ranges partition the parent's.**  For a parent declaring at least one unit, in either variant
of the iterator: `split` does not panic; the sub-tokens carry the declared ids in order; sub-token
`i` covers exactly the characters of unit `i`'s key (`unitsSpec`: starts where unit `i-1` ended,
is `|key i|` characters long, byte range = byte image of the character range); the text under it
IS that key; the sub-tokens form a linked chain from the parent's start to the parent's end and
each runs forward. -/
theorem units_exact (cx : Ctx) (w : Nat → Nat) (cs : List Nat) (key : Nat → List Nat) (n : Node) (m : Mode)
    (ht : TextOk cx w cs) (hs : SplitsConcat cx w cs key n m) (h0 : numSplits n m ≠ 0) :
    ∃ us, split cx n m = .ok us ∧
      us.map (·.wid) = splitsOf n m ∧
      us.map Node.core = unitsSpec w cs key (splitsOf n m) n.cb ∧
      us.map (fun u => (cs.drop u.cb).take (u.ce - u.cb)) = (splitsOf n m).map key ∧
      Linked us n.cb n.bb n.ce n.be ∧
      (∀ u ∈ us, u.cb ≤ u.ce ∧ u.bb ≤ u.be) := by
  have hne : splitsOf n m ≠ [] := by
    intro h; simp [numSplits, h] at h0
  have hmC : m ≠ Mode.C := by
    intro h; subst h; simp [splitsOf] at hne
  obtain ⟨us, hus, hcore⟩ := splitGo_exact cx w cs key ht.b2c ht.c2b ht.size n.ce hs.range.2
    (splitsOf n m) n.cb hne hs.range.1 hs.keys hs.concat
  rw [← hs.bytes.1, ← hs.bytes.2] at hus
  have hsplit : split cx n m = .ok us := by
    cases m
    · exact hus
    · exact hus
    · exact absurd rfl hmC
  refine ⟨us, hsplit, units_ids cx m n us hsplit, hcore, ?_, split_linked cx n m us h0 hsplit, ?_⟩
  · have := unitsSpec_text w cs key n.ce (splitsOf n m) n.cb hs.range.1 hs.concat
    rw [← hcore, List.map_map] at this
    exact this
  · exact (unitsSpec_chain w cs key (splitsOf n m) n.cb us hcore).2

/-- **Partition lemma in the form `C01.surfaces_partition` consumes.**  If the mode C path is a
linked chain of forward-running nodes from `(c, b)` to `(c', b')` (lattice path, C02/C14) and every
node that gets split (≥ 2 declared units) satisfies `SplitsConcat`, then the A/B path is a linked
chain with the same ends and its cut points (token ends, in bytes and in characters of the
rewritten text) are non-decreasing: `Mono (b :: cuts)` with last cut `b'`. -/
theorem partition_chain (cx : Ctx) (w : Nat → Nat) (cs : List Nat) (key : Nat → List Nat) (m : Mode)
    (path out : List Node) (c b c' b' : Nat) (ht : TextOk cx w cs)
    (h : splitPath cx m path = .ok out) (hl : Linked path c b c' b')
    (hf : ∀ n ∈ path, n.cb ≤ n.ce ∧ n.bb ≤ n.be)
    (hs : ∀ n ∈ path, 2 ≤ numSplits n m → SplitsConcat cx w cs key n m) :
    Linked out c b c' b' ∧ (b :: out.map (·.be)).Pairwise (· ≤ ·) ∧
      (c :: out.map (·.ce)).Pairwise (· ≤ ·) ∧ b ≤ b' ∧ c ≤ c' := by
  have hlo := chain_preserved cx m path out c b c' b' h hl
  have hfo : ∀ u ∈ out, u.cb ≤ u.ce ∧ u.bb ≤ u.be := by
    unfold splitPath at h
    by_cases hm : m = Mode.C
    · simp only [hm, if_true] at h; cases h; exact hf
    · simp only [hm, if_false] at h
      intro u hu
      obtain ⟨n, hn, us, hus, huu⟩ := splitPathGo_mem cx m path out u h hu
      unfold expand at hus
      by_cases hle : numSplits n m ≤ 1
      · simp only [hle, if_true] at hus
        cases hus
        simp only [List.mem_singleton] at huu
        subst huu
        exact hf _ hn
      · simp only [hle, if_false] at hus
        obtain ⟨us', hus', _, _, _, _, hfw⟩ := units_exact cx w cs key n m ht (hs n hn (by omega)) (by omega)
        rw [hus] at hus'
        cases hus'
        exact hfw u huu
  obtain ⟨h1, h2, h3, h4⟩ := linked_cuts_mono out c b c' b' hlo hfo
  exact ⟨hlo, h1, h2, h3, h4⟩

/-- **Clause 3a: words declaring no unit.**  `split_into` reports `false` and appends nothing. -/
theorem ondemand_none (cx : Ctx) (m : Mode) (n : Node)
    (h0 : numSplits n m = 0) : splitInto cx m n = .ok (false, []) := by
  simp [splitInto, h0]

/-- **Clause 3b: on demand = direct.**  For a node declaring two or more units, wherever it stands
in a mode C path: the A/B path is (output for the nodes before) ++ `us` ++ (output for the nodes
after), where `us` is exactly what `split_into` appends for that node, and `split_into` reports
`true`.  (Both sides read word infos with the same subset `s`; see `subset_irrelevant_partial`.) -/
theorem ondemand_eq_direct (cx : Ctx) (m : Mode) (p1 p2 : List Node)
    (n : Node) (out : List Node) (h2 : 2 ≤ numSplits n m)
    (h : splitPath cx m (p1 ++ n :: p2) = .ok out) :
    ∃ o1 us o2, out = o1 ++ us ++ o2 ∧ splitInto cx m n = .ok (true, us) ∧
      splitPath cx m p1 = .ok o1 ∧ splitPath cx m p2 = .ok o2 := by
  have hm : m ≠ Mode.C := by
    intro hc; subst hc; simp [numSplits, splitsOf] at h2
  simp only [splitPath, hm, if_false] at h ⊢
  obtain ⟨o1, us, o2, ho, h1, hus, h3⟩ := splitPathGo_decompose cx m p1 n p2 out h
  refine ⟨o1, us, o2, ho, ?_, h1, h3⟩
  have hgt : ¬ numSplits n m ≤ 1 := by omega
  have hne : numSplits n m ≠ 0 := by omega
  simp only [expand, hgt, if_false] at hus
  simp [splitInto, hne, hus]

/-- a failing on-demand split is a failing direct tokenisation and vice versa (≥ 2 units) -/
theorem ondemand_fails_iff_direct (cx : Ctx) (m : Mode) (n : Node)
    (h2 : 2 ≤ numSplits n m) :
    (∃ us, splitInto cx m n = .ok (true, us)) ↔ (∃ us, splitPath cx m [n] = .ok us) := by
  have hm : m ≠ Mode.C := by
    intro hc; subst hc; simp [numSplits, splitsOf] at h2
  have hgt : ¬ numSplits n m ≤ 1 := by omega
  have hne : numSplits n m ≠ 0 := by omega
  simp only [splitPath, hm, if_false, splitPathGo, expand, hgt, splitInto, hne]
  cases split cx n m <;> simp

/-- **Re-stamping (`update_dict_id`).**  Reading word `id` of dictionary `dicOf id` with the A (B)
split requested returns the stored list with every user reference (`dic > 0`) replaced by
(owning dictionary, same word number) and every system reference unchanged; the key length is
returned as stored. -/
theorem restamp (lex : Lex) (id : Nat) (s : Subset) (l : List Entry) (e : Entry)
    (hd : dicOf id < 16) (hl : lex[dicOf id]? = some l) (he : l[wordOf id]? = some e)
    (hs : SPLIT_A ∈ s ∨ SPLIT_B ∈ s) :
    ∃ info, getWordInfoSubset lex id s = .ok info ∧ info.hwl = e.hwl ∧
      (SPLIT_A ∈ s → info.a = e.a.map (Split.restamp (dicOf id))) ∧
      (SPLIT_B ∈ s → info.b = e.b.map (Split.restamp (dicOf id))) := by
  refine ⟨_, getWordInfoSubset_eq lex id s l e hd hl he, ?_, ?_, ?_⟩
  · have : HEAD_WORD_LENGTH ∈ readFields s := by
      rcases hs with h | h
      · exact hwl_read_of_later s _ h (by decide)
      · exact hwl_read_of_later s _ h (by decide)
    simp [this]
  · intro h; simp [h]
  · intro h; simp [h]

/-- the two inputs of the iterator that depend on the subset — the unit's key length and the unit
list of the mode — are the same under any two subsets that hold the split field, for every existing
word (the step lemma of `subset_irrelevant`, kept because the oracle's `winfo` stream checks exactly this) -/
theorem subset_irrelevant_inputs (lex : Lex) (id : Nat) (s s' : Subset) (l : List Entry) (e : Entry)
    (hd : dicOf id < 16) (hl : lex[dicOf id]? = some l) (he : l[wordOf id]? = some e) :
    (SPLIT_A ∈ s → SPLIT_A ∈ s' → ∃ i i', getWordInfoSubset lex id s = .ok i ∧
      getWordInfoSubset lex id s' = .ok i' ∧ i.hwl = i'.hwl ∧ i.a = i'.a) ∧
    (SPLIT_B ∈ s → SPLIT_B ∈ s' → ∃ i i', getWordInfoSubset lex id s = .ok i ∧
      getWordInfoSubset lex id s' = .ok i' ∧ i.hwl = i'.hwl ∧ i.b = i'.b) := by
  constructor
  · intro h h'
    obtain ⟨i, hi, h1, h2, _⟩ := restamp lex id s l e hd hl he (Or.inl h)
    obtain ⟨i', hi', h1', h2', _⟩ := restamp lex id s' l e hd hl he (Or.inl h')
    exact ⟨i, i', hi, hi', by rw [h1, h1'], by rw [h2 h, h2' h']⟩
  · intro h h'
    obtain ⟨i, hi, h1, _, h3⟩ := restamp lex id s l e hd hl he (Or.inr h)
    obtain ⟨i', hi', h1', _, h3'⟩ := restamp lex id s' l e hd hl he (Or.inr h')
    exact ⟨i, i', hi, hi', by rw [h1, h1'], by rw [h3 h, h3' h']⟩

/-- **The other subset bits do not matter (FULL; formerly `subset_irrelevant_partial`).**  For every
lexicon set (well-formed or not), variant of the iterator, offset tables and path found by the
lattice search (word ids are `u32`: 4-bit dictionary ids): two tokenizers whose subsets both hold the
split field of mode `m` (every history does: `history_loads_split_field`) produce the same outcome
— same panic, or the same tokens with the same ids, character ranges and byte ranges
(`Node.core`).  The induction over `NodeSplitIterator::next` that the partial version lacked is
`Split.splitGo_agree`; the sub-tokens' own word infos do differ (each is loaded with its subset). -/
theorem subset_irrelevant (v : Variant) (lex : Lex) (b2c c2b : List Nat) (s s' : Subset) (m : Mode)
    (raws : List RawNode) (hs : ∀ x ∈ modeSubset m, x ∈ s) (hs' : ∀ x ∈ modeSubset m, x ∈ s')
    (hd : ∀ r ∈ raws, dicOf r.wid < 16) :
    directCore v lex b2c c2b s m raws = directCore v lex b2c c2b s' m raws := by
  unfold directCore
  rcases resolvePath_agree lex c2b s s' m hs hs' raws hd with ⟨w, h1, h2⟩ | ⟨p, p', h1, h2, hp⟩
  · simp [h1, h2]
  · simp only [h1, h2]
    exact splitPath_agree v lex b2c c2b s s' m hs hs' p p' hp

/-- **Clause 3 across subsets: the list the morpheme lives in may have been made with another subset
than the direct tokenizer.**  A path node resolved by a mode-C tokenizer with subset `s'` and split on
demand (`split_into` reads the units with the LIST's subset `s'`, copied by `collect_results`) gives
the same sub-tokens — ids and ranges — as the loop body of `split_path` in a direct tokenizer with
subset `s`, whenever both subsets hold the split field of the mode and the word declares ≥ 2 units.
(A list made WITHOUT the split field has nothing loaded: `ondemand_none` applies — the documented
opt-out "you need to load splits if you want to use split".) -/
theorem ondemand_other_subset (v : Variant) (lex : Lex) (b2c c2b : List Nat) (s s' : Subset) (m : Mode)
    (r : RawNode) (n n' : Node) (hs : ∀ x ∈ modeSubset m, x ∈ s) (hs' : ∀ x ∈ modeSubset m, x ∈ s')
    (hd : dicOf r.wid < 16) (hn : resolveNode lex s c2b r = .ok n) (hn' : resolveNode lex s' c2b r = .ok n')
    (h2 : 2 ≤ numSplits n m) :
    2 ≤ numSplits n' m ∧
    coreOut (expand ⟨v, lex, s, b2c, c2b⟩ m n) =
      coreOut (match splitInto ⟨v, lex, s', b2c, c2b⟩ m n' with
        | .ok (_, us) => .ok us | .err k => .err k | .panic w => .panic w) := by
  rcases resolveNode_agree lex c2b s s' m hs hs' r hd with ⟨w, h1, _⟩ | ⟨a, a', h1, h1', ha⟩
  · rw [hn] at h1; cases h1
  · rw [hn] at h1; rw [hn'] at h1'
    cases h1; cases h1'
    have hnum : numSplits n' m = numSplits n m := by
      simp only [numSplits, splitsOf_eq, ha.2.2.2.2.2.1]
    refine ⟨by omega, ?_⟩
    rw [expand_agree v lex b2c c2b s s' m hs hs' n n' ha]
    have hgt : ¬ numSplits n' m ≤ 1 := by omega
    have hne : numSplits n' m ≠ 0 := by omega
    simp only [expand, hgt, if_false, splitInto, hne]
    cases split ⟨v, lex, s', b2c, c2b⟩ n' m <;> rfl

/-- **The reviewer's question, settled: `new(C); set_subset(S); set_mode(M)` against `new(M); set_subset(S)`.**
`set_subset` adds only the flag of the CURRENT mode and normalises; a later `set_mode` ORs the new
mode's flag without re-normalising.  So after the first history the HEAD_WORD_LENGTH bit may be
missing where the second history has it (`set_mode_does_not_normalize`, e.g. `S = {SURFACE}`:
`{SURFACE, SPLIT_A}` vs `{SURFACE, HEAD_WORD_LENGTH, SPLIT_A}`) — and that is the ONLY difference,
and it is invisible: for every request `S` and every splitting mode `M` the two tokenizers are in the
same mode, their subsets agree on every other bit, the reader loads exactly the same fields
(`readFields`: the key length is a light field, written whenever the reader walks past it to a split
list), and the whole analysis — `resolve_best_path` + `split_path`, outcome, tokens, ranges AND the
loaded word infos — is identical for every lexicon set, iterator variant, offset table and path.
Not a defect of C09/C10/C11. -/
theorem set_subset_then_set_mode_eq_new (S : Subset) (M : Mode) (hM : M ≠ Mode.C) :
    let t1 := (runOps [.new .C, .sub S, .md M] (create .C) []).1
    let t2 := (runOps [.new M, .sub S] (create .C) []).1
    t1.mode = M ∧ t2.mode = M ∧
    (∀ x, x ≠ HEAD_WORD_LENGTH → (x ∈ t1.subset ↔ x ∈ t2.subset)) ∧
    HEAD_WORD_LENGTH ∈ t2.subset ∧
    readFields t1.subset = readFields t2.subset ∧
    (∀ lex id, getWordInfoSubset lex id t1.subset = getWordInfoSubset lex id t2.subset) ∧
    (∀ v lex b2c c2b raws,
      (match resolvePath lex t1.subset c2b raws with
        | .ok p => splitPath ⟨v, lex, t1.subset, b2c, c2b⟩ t1.mode p | .err k => .err k | .panic w => .panic w) =
      (match resolvePath lex t2.subset c2b raws with
        | .ok p => splitPath ⟨v, lex, t2.subset, b2c, c2b⟩ t2.mode p | .err k => .err k | .panic w => .panic w)) := by
  intro t1 t2
  have e1 : t1.subset = normalize (S ++ []) ++ [] ++ modeSubset M := rfl
  have e2 : t2.subset = normalize (S ++ modeSubset M) ++ modeSubset M := rfl
  have m1 : t1.mode = M := rfl
  have m2 : t2.mode = M := rfl
  have hms : ∀ x ∈ modeSubset M, x = SPLIT_A ∨ x = SPLIT_B := by
    intro x hx; cases M <;> simp [modeSubset] at hx <;> simp [hx]
  have hagree : ∀ x, x ≠ HEAD_WORD_LENGTH → (x ∈ t1.subset ↔ x ∈ t2.subset) := by
    intro x hx
    rw [e1, e2]
    simp only [List.append_nil, List.mem_append, mem_normalize]
    constructor
    · rintro (h | h)
      · rcases h with h | ⟨rfl, h⟩ | ⟨rfl, _⟩
        · left; left; left; exact h
        · left; right; left
          exact ⟨rfl, by rcases h with h | h | h <;> simp [h]⟩
        · exact absurd rfl hx
      · right; exact h
    · rintro (h | h)
      · rcases h with (h | h) | ⟨rfl, h⟩ | ⟨rfl, _⟩
        · left; left; exact h
        · right; exact h
        · left; right; left
          refine ⟨rfl, ?_⟩
          rcases h with (h | h) | (h | h) | (h | h)
          · exact Or.inl h
          · rcases hms _ h with h' | h' <;> simp [READING_FORM, SPLIT_A, SPLIT_B] at h'
          · exact Or.inr (Or.inl h)
          · rcases hms _ h with h' | h' <;> simp [NORMALIZED_FORM, SPLIT_A, SPLIT_B] at h'
          · exact Or.inr (Or.inr h)
          · rcases hms _ h with h' | h' <;> simp [DIC_FORM_WORD_ID, SPLIT_A, SPLIT_B] at h'
        · exact absurd rfl hx
      · right; exact h
  obtain ⟨g, hg, hg'⟩ : ∃ g, g ∈ modeSubset M ∧ (g = SPLIT_A ∨ g = SPLIT_B) := by
    cases M
    · exact ⟨SPLIT_A, by simp [modeSubset], Or.inl rfl⟩
    · exact ⟨SPLIT_B, by simp [modeSubset], Or.inr rfl⟩
    · exact absurd rfl hM
  have hg1 : g ∈ t1.subset := by rw [e1]; exact List.mem_append_right _ hg
  have hg0 : g ≠ SURFACE := by rcases hg' with rfl | rfl <;> decide
  have hgh : g ≠ HEAD_WORD_LENGTH := by rcases hg' with rfl | rfl <;> decide
  have hgw : ∀ lex id, getWordInfoSubset lex id t1.subset = getWordInfoSubset lex id t2.subset :=
    fun lex id => gwis_hwl_bit_irrelevant lex id _ _ hagree g hg1 hg0 hgh
  refine ⟨m1, m2, hagree, ?_, readFields_hwl_bit_irrelevant _ _ hagree g hg1 hg0 hgh, hgw, ?_⟩
  · rw [e2]
    apply List.mem_append_left
    rw [mem_normalize]
    refine Or.inr (Or.inr ⟨rfl, ?_⟩)
    rcases hg' with rfl | rfl
    · exact Or.inl (List.mem_append_right _ hg)
    · exact Or.inr (List.mem_append_right _ hg)
  · intro v lex b2c c2b raws
    rw [m1, m2, resolvePath_congr lex c2b _ _ (hgw lex) raws]
    cases resolvePath lex t2.subset c2b raws with
    | err k => rfl
    | panic w => rfl
    | ok p => exact splitPath_congr v lex b2c c2b _ _ (hgw lex) M p

/-- what re-stamping does to one reference: system references stay, user references get the
owner's dictionary id and keep their word number -/
theorem restamp_id (d r : Nat) (hd : d < 16) :
    (dicOf r = 0 → Split.restamp d r = r) ∧
    (0 < dicOf r → dicOf (Split.restamp d r) = d ∧ wordOf (Split.restamp d r) = wordOf r) := by
  constructor
  · intro h; simp [Split.restamp, h]
  · intro h
    have hr : Split.restamp d r = mkId d (wordOf r) := by simp [Split.restamp, h]
    rw [hr]
    unfold mkId dicOf wordOf DIC_SHIFT
    constructor <;> omega

/-- **`set_mode` / `set_subset`: the split field of the mode is always loaded.**  After any
sequence of `new`, `set_subset`, `set_mode` calls the subset contains the split field of the
current mode. -/
theorem history_loads_split_field (ops : List Op) :
    ModeLoaded (runOps ops (create Mode.C) []).1 :=
  runOps_loaded ops _ _ (create_loaded _)

/-- the key length needed by `NodeSplitIterator` is loaded whenever a split list is requested:
`set_subset` adds the `HEAD_WORD_LENGTH` bit (`normalize`), `set_mode` does NOT — but the reader
writes `head_word_length` unconditionally when it has to walk past it to reach the split lists -/
theorem split_loads_key_length (s : Subset) (h : SPLIT_A ∈ s ∨ SPLIT_B ∈ s) :
    HEAD_WORD_LENGTH ∈ readFields s := by
  rcases h with h | h
  · exact hwl_read_of_later s _ h (by decide)
  · exact hwl_read_of_later s _ h (by decide)

/-- `set_mode` alone does not put `HEAD_WORD_LENGTH` into the subset (only `set_subset` does):
`new(C); set_subset({POS_ID}); set_mode(A)` ends with `{POS_ID, SPLIT_A}`. -/
theorem set_mode_does_not_normalize :
    toBits (runOps [.new .C, .sub [POS_ID], .md .A] (create .C) []).1.subset = 68 := by decide

/-- **Clause 1 at full strength for the code that exists (repaired iterator): A/B tokenisation always
returns, and refines C — no "if `split_path` returns".**  For EVERY lexicon set whose stored
references name existing words (`LexClosed`: what the builder's `validate_entries` enforces;
well-formedness of the declarations is NOT assumed — unit keys of any length, in any order), every
subset, every buffer whose tables have the range facts of a built buffer (`TablesRange`), every path
of nodes inside the text whose word ids exist or are synthesised (`RawOk`): `resolve_best_path`
succeeds, `split_path` succeeds — `NodeSplitIterator::next` never indexes out of range and never
fails to read a unit — and every begin/end of a mode-C node is a begin/end of an A/B node, nodes
declaring ≤ 1 unit are unchanged, a linked chain stays a linked chain. -/
theorem boundaries_refine_total (lex : Lex) (s : Subset) (b2c c2b : List Nat) (nb : Nat) (m : Mode)
    (raws : List RawNode) (hc : LexClosed lex) (hr : TablesRange b2c c2b nb)
    (hraw : ∀ r ∈ raws, RawOk lex c2b nb r) :
    ∃ path out, resolvePath lex s c2b raws = .ok path ∧
      path.map (fun n => (n.cb, n.ce, n.wid)) = raws.map (fun r => (r.cb, r.ce, r.wid)) ∧
      splitPath ⟨.d6fix, lex, s, b2c, c2b⟩ m path = .ok out ∧
      (∀ n ∈ path, n.cb ∈ out.map (·.cb) ∧ n.bb ∈ out.map (·.bb) ∧ n.ce ∈ out.map (·.ce) ∧ n.be ∈ out.map (·.be)) ∧
      (∀ n ∈ path, numSplits n m ≤ 1 → n ∈ out) ∧
      (∀ c b c' b', Linked path c b c' b' → Linked out c b c' b') := by
  obtain ⟨path, hp, hok, hmap⟩ := resolvePath_ok lex hc s c2b nb raws hraw
  have : ∃ out, splitPath ⟨.d6fix, lex, s, b2c, c2b⟩ m path = .ok out := by
    unfold splitPath
    by_cases hm : m = Mode.C
    · exact ⟨path, by simp [hm]⟩
    · simp only [hm, if_false]
      exact splitPathGo_d6fix_ok ⟨.d6fix, lex, s, b2c, c2b⟩ rfl hc nb hr m path hok
  obtain ⟨out, ho⟩ := this
  obtain ⟨h1, h2⟩ := boundaries_refine _ m path out ho
  exact ⟨path, out, hp, hmap, ho, h1, h2, fun c b c' b' hl => chain_preserved _ m path out c b c' b' ho hl⟩

/-- **`resolve_best_path` computes the byte range from the character range** (`to_curr_byte_idx`), so the
field `bytes` of `SplitsConcat` is not an assumption about path nodes: under `C2bOk` (the table
`InputBuffer::build` makes) every node of a resolved path has `bb = pre w cs cb`, `be = pre w cs ce`. -/
theorem resolved_byte_range (lex : Lex) (s : Subset) (w : Nat → Nat) (cs : List Nat) (c2b : List Nat)
    (hc : C2bOk w cs c2b) (hsz : pre w cs cs.length < 65536) (r : RawNode) (n : Node)
    (hr : r.cb ≤ cs.length ∧ r.ce ≤ cs.length) (h : resolveNode lex s c2b r = .ok n) :
    n.cb = r.cb ∧ n.ce = r.ce ∧ n.wid = r.wid ∧ n.bb = pre w cs n.cb ∧ n.be = pre w cs n.ce := by
  simp only [resolveNode] at h
  generalize (if (r.syn || isOov r.wid) = true then Outcome.ok Info.empty else getWordInfoSubset lex r.wid s) = io at h
  cases io with
  | err k => simp at h
  | panic w => simp at h
  | ok i =>
    simp only [currByteIdx, hc _ hr.1, hc _ hr.2, Outcome.ok.injEq] at h
    subst h
    have l1 : pre w cs r.cb < 65536 := Nat.lt_of_le_of_lt (pre_le_total w cs _ hr.1) hsz
    have l2 : pre w cs r.ce < 65536 := Nat.lt_of_le_of_lt (pre_le_total w cs _ hr.2) hsz
    exact ⟨rfl, rfl, rfl, asU16_id _ l1, asU16_id _ l2⟩

/-- **The character route and the byte route to the original text agree** for every token of the
repaired code, all dictionaries: each node of the A/B path begins and ends on a character start
(`mod_c2b[cb] = bb`, `mod_c2b[ce] = be` — path nodes by `resolve_best_path`, non-last units by the
snap of the repaired iterator, last units by inheritance), hence whenever `surface()` returns, its
byte range in the original text is `begin()..end()`. -/
theorem routes_agree (lex : Lex) (s : Subset) (b2c c2b m2o : List Nat) (m : Mode) (raws : List RawNode)
    (path out : List Node) (hb : Small b2c) (hc : Small c2b)
    (hp : resolvePath lex s c2b raws = .ok path) (ho : splitPath ⟨.d6fix, lex, s, b2c, c2b⟩ m path = .ok out) :
    ∀ u ∈ out, OnChar c2b u ∧
      ∀ ob oe, surfaceRange b2c c2b m2o u.bb u.be = .ok (ob, oe) →
        origIdx c2b m2o u.cb = .ok ob ∧ origIdx c2b m2o u.ce = .ok oe := by
  have hpath := resolvePath_onChar lex s c2b hc raws path hp
  have hon : ∀ u ∈ out, OnChar c2b u := by
    unfold splitPath at ho
    by_cases hm : m = Mode.C
    · simp only [hm, if_true] at ho; cases ho; exact hpath
    · simp only [hm, if_false] at ho
      intro u hu
      obtain ⟨n, hn, us, hus, huu⟩ := splitPathGo_mem _ m path out u ho hu
      unfold expand at hus
      by_cases hle : numSplits n m ≤ 1
      · simp only [hle, if_true] at hus
        cases hus
        simp only [List.mem_singleton] at huu
        subst huu
        exact hpath _ hn
      · simp only [hle, if_false] at hus
        obtain ⟨h1, h2⟩ := hpath n hn
        cases m
        · exact splitGo_onChar ⟨.d6fix, lex, s, b2c, c2b⟩ rfl hb hc n.ce n.be h2 _ _ _ us h1 hus u huu
        · exact splitGo_onChar ⟨.d6fix, lex, s, b2c, c2b⟩ rfl hb hc n.ce n.be h2 _ _ _ us h1 hus u huu
        · exact absurd rfl hm
  intro u hu
  refine ⟨hon u hu, ?_⟩
  obtain ⟨h1, h2⟩ := hon u hu
  intro ob oe hs
  obtain ⟨hb', he'⟩ := surfaceRange_ok b2c c2b m2o u.bb u.be ob oe hs
  simp [origIdx, h1, h2, hb', he']

/-- **Clause 2, last sentence, in the ORIGINAL text: the sub-tokens' `begin()..end()` ranges partition
the parent's.**  Under the hypotheses of `units_exact`, if `begin()`/`end()` are defined on the
sub-tokens' boundaries and the offset map is monotone (`OrigMono`: C08 `offset map monotone`), the
original-text ranges of the sub-tokens form a chain: the first begins at the parent's `begin()`, each
next one where the previous ended, none runs backwards, the last ends at the parent's `end()`. -/
theorem units_partition_original (cx : Ctx) (w : Nat → Nat) (cs : List Nat) (key : Nat → List Nat) (n : Node) (m : Mode)
    (m2o : List Nat) (ht : TextOk cx w cs) (hs : SplitsConcat cx w cs key n m) (h0 : numSplits n m ≠ 0)
    (hm : OrigMono cx.c2b m2o) (o : Nat) (hbeg : origIdx cx.c2b m2o n.cb = .ok o)
    (hdef : ∀ c, n.cb ≤ c → c ≤ n.ce → ∃ x, origIdx cx.c2b m2o c = .ok x) :
    ∃ us o', split cx n m = .ok us ∧ origIdx cx.c2b m2o n.ce = .ok o' ∧ OrigLinked cx.c2b m2o us o o' := by
  obtain ⟨us, hus, _, hcore, _, hl, hf⟩ := units_exact cx w cs key n m ht hs h0
  have hin : ∀ u ∈ us, n.cb ≤ u.ce ∧ u.ce ≤ n.ce := by
    obtain ⟨_, h2, _, h4⟩ := linked_cuts_mono us _ _ _ _ hl hf
    rw [List.pairwise_cons] at h2
    intro u hu
    refine ⟨h2.1 _ (List.mem_map.mpr ⟨u, hu, rfl⟩), ?_⟩
    -- every cut is ≤ the last cut = the parent's end
    have : ∀ (l : List Node) (c b c' b' : Nat), Linked l c b c' b' → (∀ x ∈ l, x.cb ≤ x.ce ∧ x.bb ≤ x.be) →
        ∀ x ∈ l, x.ce ≤ c' := by
      intro l
      induction l with
      | nil => intro _ _ _ _ _ _ x hx; simp at hx
      | cons a r ih =>
        intro c b c' b' hlk hfw x hx
        obtain ⟨_, _, hr⟩ := hlk
        obtain ⟨_, _, _, g4⟩ := linked_cuts_mono r _ _ _ _ hr (fun y hy => hfw y (List.mem_cons_of_mem _ hy))
        rcases List.mem_cons.mp hx with rfl | hx
        · exact g4
        · exact ih _ _ _ _ hr (fun y hy => hfw y (List.mem_cons_of_mem _ hy)) x hx
    exact this us _ _ _ _ hl hf u hu
  obtain ⟨o', ho', hlk⟩ := origLinked_of_linked cx.c2b m2o hm us n.cb n.bb n.ce n.be o hl (fun u hu => (hf u hu).1)
    (fun u hu => hdef u.ce (hin u hu).1 (hin u hu).2) hbeg
  exact ⟨us, o', hus, ho', hlk⟩

/-- **FINDING (recycled result list): `MorphemeList::lookup` leaves the list's subset stale, `split_into`
then reads the units with it.**  `lookup(query, subset)` reads the found words with the subset of the
call but does not store it in the list (`InputPart.subset` keeps what the last `collect_results` put
there).  Witness: a list that collected the results of a tokenizer after `set_subset(SURFACE)`, then
`lookup("東京都", all)`: the morpheme found (word 2, A split `東京/都`) has its split loaded, `split_into(A)`
reads the units with `{SURFACE}` — the reader stops before `head_word_length` — and places `東京` on
`[0,0)` and `都` on `[0,3)` instead of `[0,2)`, `[2,3)`.  (Model variant `LookupV.cur`, the code as it
stands; confirmed on the real code by the `lookup` stream of the harness.) -/
theorem lookup_stale_subset_counterexample :
    (match lookup .cur [[⟨6, [], []⟩, ⟨3, [], []⟩, ⟨9, [0, 1], []⟩]] [SURFACE] Subset.all 3 9 [2] with
     | .ok (ns, after) => ns.map (fun n =>
        match splitInto ⟨.d6fix, [[⟨6, [], []⟩, ⟨3, [], []⟩, ⟨9, [0, 1], []⟩]], after, [0, 0, 0, 1, 1, 1, 2, 2, 2, 3], [0, 3, 6, 9]⟩ .A n with
        | .ok (_, us) => us.map Node.core | _ => [])
     | _ => []) = [[(0, 0, 0, 0, 0), (1, 0, 3, 0, 9)]] := by decide

/-- the proposed repair (`lookup` records the subset of the call in the list, variant `LookupV.fix`) on the
same input: `[0,2)`/bytes `[0,6)` and `[2,3)`/bytes `[6,9)` -/
theorem lookup_split_repaired :
    (match lookup .fix [[⟨6, [], []⟩, ⟨3, [], []⟩, ⟨9, [0, 1], []⟩]] [SURFACE] Subset.all 3 9 [2] with
     | .ok (ns, after) => ns.map (fun n =>
        match splitInto ⟨.d6fix, [[⟨6, [], []⟩, ⟨3, [], []⟩, ⟨9, [0, 1], []⟩]], after, [0, 0, 0, 1, 1, 1, 2, 2, 2, 3], [0, 3, 6, 9]⟩ .A n with
        | .ok (_, us) => us.map Node.core | _ => [])
     | _ => []) = [[(0, 0, 2, 0, 6), (1, 2, 3, 6, 9)]] := by decide

/-- **With the repair, what `lookup` + `split_into` return does not depend on what the list went through
before** (`ls`, `ls'` = any two earlier subsets of the list): same nodes, and the subset the units will be
read with is the subset of the call.  For the code as it stands the subset afterwards is the stale one. -/
theorem lookup_history_free (lex : Lex) (ls ls' sl : Subset) (ce be : Nat) (wids : List Nat) :
    lookup .fix lex ls sl ce be wids = lookup .fix lex ls' sl ce be wids ∧
    (∀ ns after, lookup .fix lex ls sl ce be wids = .ok (ns, after) → after = sl) ∧
    (∀ ns after, lookup .cur lex ls sl ce be wids = .ok (ns, after) → after = ls) := by
  refine ⟨rfl, ?_, ?_⟩
  · intro ns after h
    unfold lookup at h
    cases hn : lookupNodes lex sl ce be wids <;> simp [hn] at h
    exact h.2.symm
  · intro ns after h
    unfold lookup at h
    cases hn : lookupNodes lex sl ce be wids <;> simp [hn] at h
    exact h.2.symm

/-- D6 (C03/C06 territory, witness kept here because the C09 generator reaches it): `東` with the
A split `東京都/京` — the first unit's key (9 bytes) is longer than the parent (3 bytes), the
byte end 9 lies outside `mod_b2c` (length 4) and `ch_idx` panics. -/
theorem d6_counterexample :
    splitPath ⟨.cur, [[⟨9, [], []⟩, ⟨3, [], []⟩, ⟨3, [0, 1], []⟩]], Subset.all, [0, 0, 0, 1], [0, 3]⟩ .A
      [⟨0, 1, 0, 3, 2, ⟨3, [0, 1], []⟩⟩] = .panic "mod_b2c: index out of bounds" := by decide

/-- D6, second shape: the text continues after the parent (`東あいう`, 12 bytes), nothing panics
but the first unit ends at character 3 and the last unit "inherits" the parent's end 1: the
sub-token `[3, 1)` runs backwards. -/
theorem d6_backwards_counterexample :
    (match splitPath ⟨.cur, [[⟨9, [], []⟩, ⟨3, [], []⟩, ⟨3, [0, 1], []⟩]], Subset.all,
        [0, 0, 0, 1, 1, 1, 2, 2, 2, 3, 3, 3, 4], [0, 3, 6, 9, 12]⟩ .A [⟨0, 1, 0, 3, 2, ⟨3, [0, 1], []⟩⟩] with
     | .ok us => us.map (fun u => (u.cb, u.ce))
     | _ => []) = [(0, 3), (3, 1)] := by decide

/-- the candidate repair of D6 (variant `d6fix`: clamp to the parent's end, snap to a character
start) removes both shapes: `東` ↦ units `[0,1)`, `[1,1)` — no panic, no backwards range -/
theorem d6_repaired :
    (match splitPath ⟨.d6fix, [[⟨9, [], []⟩, ⟨3, [], []⟩, ⟨3, [0, 1], []⟩]], Subset.all, [0, 0, 0, 1], [0, 3]⟩ .A
        [⟨0, 1, 0, 3, 2, ⟨3, [0, 1], []⟩⟩] with
     | .ok us => us.map (fun u => (u.cb, u.ce, u.bb, u.be))
     | _ => []) = [(0, 1, 0, 3), (1, 1, 3, 3)] := by decide

/-- non-vacuity of clauses 1 and 3: `東京都` (ids 0 `東京`, 1 `都`, 2 `東京都` with A split `0/1`)
followed by `あ` (OOV): mode A replaces the first node by its two units, the second is unchanged,
and `split_into` returns the same two units / `false`. -/
example :
    splitPath ⟨.cur, [[⟨6, [], []⟩, ⟨3, [], []⟩, ⟨9, [0, 1], []⟩]], Subset.all, [0, 0, 0, 1, 1, 1, 2, 2, 2, 3, 3, 3, 4], [0, 3, 6, 9, 12]⟩ .A
      [⟨0, 3, 0, 9, 2, ⟨9, [0, 1], []⟩⟩, ⟨3, 4, 9, 12, 4026531840, Info.empty⟩]
      = .ok [⟨0, 2, 0, 6, 0, ⟨6, [], []⟩⟩, ⟨2, 3, 6, 9, 1, ⟨3, [], []⟩⟩, ⟨3, 4, 9, 12, 4026531840, Info.empty⟩] ∧
    splitInto ⟨.cur, [[⟨6, [], []⟩, ⟨3, [], []⟩, ⟨9, [0, 1], []⟩]], Subset.all, [0, 0, 0, 1, 1, 1, 2, 2, 2, 3, 3, 3, 4], [0, 3, 6, 9, 12]⟩ .A
      ⟨0, 3, 0, 9, 2, ⟨9, [0, 1], []⟩⟩ = .ok (true, [⟨0, 2, 0, 6, 0, ⟨6, [], []⟩⟩, ⟨2, 3, 6, 9, 1, ⟨3, [], []⟩⟩]) ∧
    splitInto ⟨.cur, [[⟨6, [], []⟩, ⟨3, [], []⟩, ⟨9, [0, 1], []⟩]], Subset.all, [0, 0, 0, 1, 1, 1, 2, 2, 2, 3, 3, 3, 4], [0, 3, 6, 9, 12]⟩ .A
      ⟨3, 4, 9, 12, 4026531840, Info.empty⟩ = .ok (false, []) ∧
    2 ≤ numSplits ⟨0, 3, 0, 9, 2, ⟨9, [0, 1], []⟩⟩ .A ∧ numSplits ⟨3, 4, 9, 12, 4026531840, Info.empty⟩ .A = 0 ∧
    Linked [⟨0, 3, 0, 9, 2, ⟨9, [0, 1], []⟩⟩, ⟨3, 4, 9, 12, 4026531840, Info.empty⟩] 0 0 4 12 := by
  refine ⟨by decide, by decide, by decide, by decide, by decide, ?_⟩
  exact ⟨rfl, rfl, rfl, rfl, rfl, rfl⟩

/-- non-vacuity of `TextOk` / `SplitsConcat` / `units_exact`: the text `ab𠮷` (widths 1, 1, 4) with the
word `ab𠮷` (id 2) declaring the units `ab` (id 0) / `𠮷` (id 1): the hypotheses hold for the table
`mkB2cFrom` builds, and the sub-tokens are `[0,2)`/bytes `[0,2)` and `[2,3)`/bytes `[2,6)`. -/
example :
    let w : Nat → Nat := fun c => if c < 128 then 1 else 4
    let cs : List Nat := [97, 98, 134071]
    let key : Nat → List Nat := fun id => if id = 0 then [97, 98] else if id = 1 then [134071] else [97, 98, 134071]
    let cx : Ctx := ⟨.cur, [[⟨2, [], []⟩, ⟨4, [], []⟩, ⟨6, [0, 1], []⟩]], Subset.all, mkB2cFrom w 0 cs, [0, 1, 2, 6]⟩
    let n : Node := ⟨0, 3, 0, 6, 2, ⟨6, [0, 1], []⟩⟩
    TextOk cx w cs ∧ SplitsConcat cx w cs key n .A ∧ numSplits n .A ≠ 0 ∧
      (match split cx n .A with | .ok us => us.map Node.core | _ => []) = [(0, 0, 2, 0, 2), (1, 2, 3, 2, 6)] := by
  intro w cs key cx n
  refine ⟨⟨?_, ?_, ?_⟩, ⟨?_, ?_, ?_, ?_⟩, ?_, ?_⟩
  · exact mkB2c_ok w (by intro c; simp only [w]; split <;> omega) cs
  · intro h; cases h
  · decide
  · decide
  · decide
  · decide
  · intro wid hwid
    simp only [n, splitsOf, List.mem_cons, List.not_mem_nil, or_false] at hwid
    rcases hwid with rfl | rfl
    · exact ⟨⟨2, [], []⟩, by decide, by decide⟩
    · exact ⟨⟨4, [], []⟩, by decide, by decide⟩
  · decide
  · decide

/-- non-vacuity of `restamp`: word 1 of the second user dictionary (dictionary id 2) stores the
references `U0` (dictionary 1 as written by the builder) and system word 1 -/
example :
    getWordInfoSubset [[⟨3, [], []⟩, ⟨3, [], []⟩], [⟨3, [], []⟩], [⟨3, [], []⟩, ⟨6, [mkId 1 0, 1], []⟩]]
      (mkId 2 1) Subset.all = .ok ⟨6, [mkId 2 0, 1], []⟩ := by decide

/-- non-vacuity of `subset_irrelevant` / `ondemand_other_subset`: `東京都` (word 2, A split `0/1`) read by a
tokenizer with subset `{POS_ID, SPLIT_A}` (no HEAD_WORD_LENGTH bit) and by one with all fields: the
hypotheses hold, both resolve the node (to DIFFERENT word infos: only one holds the B split), it declares two
units, and both give the sub-tokens
`[0,2)`/bytes `[0,6)` and `[2,3)`/bytes `[6,9)` -/
example :
    let lex : Lex := [[⟨6, [], []⟩, ⟨3, [], []⟩, ⟨9, [0, 1], [0, 1]⟩]]
    let s : Subset := [POS_ID, SPLIT_A]
    let r : RawNode := ⟨0, 3, 2, false⟩
    (∀ x ∈ modeSubset .A, x ∈ s) ∧ (∀ x ∈ modeSubset .A, x ∈ Subset.all) ∧ dicOf r.wid < 16 ∧
    (∃ n n', resolveNode lex s [0, 3, 6, 9] r = .ok n ∧ resolveNode lex Subset.all [0, 3, 6, 9] r = .ok n' ∧
      2 ≤ numSplits n .A ∧ n ≠ n') ∧
    directCore .d6fix lex [0, 0, 0, 1, 1, 1, 2, 2, 2, 3] [0, 3, 6, 9] s .A [r] = .ok [(0, 0, 2, 0, 6), (1, 2, 3, 6, 9)] ∧
    directCore .d6fix lex [0, 0, 0, 1, 1, 1, 2, 2, 2, 3] [0, 3, 6, 9] Subset.all .A [r] = .ok [(0, 0, 2, 0, 6), (1, 2, 3, 6, 9)] := by
  refine ⟨by decide, by decide, by decide, ⟨_, _, rfl, rfl, by decide, by decide⟩, by decide, by decide⟩

/-- the reviewer's sequence on `S = {SURFACE}`, mode A: the subsets really differ — `{SURFACE, SPLIT_A}` = 65
without the HEAD_WORD_LENGTH bit against `{SURFACE, HEAD_WORD_LENGTH, SPLIT_A}` = 67 — while the loaded
fields are the same list (`set_subset_then_set_mode_eq_new`) -/
example :
    toBits (runOps [.new .C, .sub [SURFACE], .md .A] (create .C) []).1.subset = 65 ∧
    toBits (runOps [.new .A, .sub [SURFACE]] (create .C) []).1.subset = 67 ∧
    readFields (runOps [.new .C, .sub [SURFACE], .md .A] (create .C) []).1.subset = [0, 1, 2, 4, 6] ∧
    readFields (runOps [.new .A, .sub [SURFACE]] (create .C) []).1.subset = [0, 1, 2, 4, 6] := by decide

/-- non-vacuity of `boundaries_refine_total` on an ILL-FORMED dictionary (D6: `東` = word 2 with the A split
`東京都/京`), text `東`: the hypotheses hold and the repaired code returns `[0,1)`, `[1,1)` -/
example :
    let lex : Lex := [[⟨9, [], []⟩, ⟨3, [], []⟩, ⟨3, [0, 1], []⟩]]
    LexClosed lex ∧ TablesRange [0, 0, 0, 1] [0, 3] 3 ∧ RawOk lex [0, 3] 3 ⟨0, 1, 2, false⟩ ∧
    (match resolvePath lex Subset.all [0, 3] [⟨0, 1, 2, false⟩] with
      | .ok p => (match splitPath ⟨.d6fix, lex, Subset.all, [0, 0, 0, 1], [0, 3]⟩ .A p with
        | .ok us => us.map (fun u => (u.cb, u.ce, u.bb, u.be)) | _ => [])
      | _ => []) = [(0, 1, 0, 3), (1, 1, 3, 3)] := by
  intro lex
  refine ⟨?_, ?_, ?_, by decide⟩
  · intro d l hd hl e he r hr
    cases d with
    | succ d => simp [lex] at hl
    | zero =>
      simp only [lex, List.getElem?_cons_zero, Option.some.injEq] at hl
      subst hl
      simp only [List.mem_cons, List.not_mem_nil, or_false] at he
      rcases he with rfl | rfl | rfl
      · simp at hr
      · simp at hr
      · simp only [List.append_nil, List.mem_cons, List.not_mem_nil, or_false] at hr
        rcases hr with rfl | rfl
        · exact ⟨by decide, _, _, rfl, rfl⟩
        · exact ⟨by decide, _, _, rfl, rfl⟩
  · intro i hi
    have : i = 0 ∨ i = 1 ∨ i = 2 ∨ i = 3 := by omega
    rcases this with rfl | rfl | rfl | rfl <;> exact ⟨_, rfl, _, rfl⟩
  · exact ⟨⟨0, rfl⟩, ⟨3, rfl, by decide⟩, Or.inr ⟨by decide, _, _, rfl, rfl⟩⟩

/-- non-vacuity of `resolved_byte_range`, `routes_agree`, `units_partition_original`: text `ab𠮷`
(widths 1, 1, 4), tables as built, identity offset map: `C2bOk`, `Small`, `OrigMono` hold; the node
`ab𠮷` resolves to bytes `[0,6)`; the sub-tokens' surfaces are `[0,2)` and `[2,6)` by both routes -/
example :
    let w : Nat → Nat := fun c => if c < 128 then 1 else 4
    let cs : List Nat := [97, 98, 134071]
    let c2b : List Nat := [0, 1, 2, 6]
    let b2c : List Nat := mkB2cFrom w 0 cs
    let m2o : List Nat := [0, 1, 2, 3, 4, 5, 6]
    let lex : Lex := [[⟨2, [], []⟩, ⟨4, [], []⟩, ⟨6, [0, 1], []⟩]]
    C2bOk w cs c2b ∧ Small c2b ∧ Small b2c ∧ OrigMono c2b m2o ∧ pre w cs cs.length < 65536 ∧
    resolveNode lex Subset.all c2b ⟨0, 3, 2, false⟩ = .ok ⟨0, 3, 0, 6, 2, ⟨6, [0, 1], []⟩⟩ ∧
    (match split ⟨.d6fix, lex, Subset.all, b2c, c2b⟩ ⟨0, 3, 0, 6, 2, ⟨6, [0, 1], []⟩⟩ .A with
      | .ok us => us.map (fun u => (surfaceRange b2c c2b m2o u.bb u.be, origIdx c2b m2o u.cb, origIdx c2b m2o u.ce))
      | _ => []) = [(.ok (0, 2), .ok 0, .ok 2), (.ok (2, 6), .ok 2, .ok 6)] := by
  intro w cs c2b b2c m2o lex
  refine ⟨?_, by decide, by decide, origMono_of_sorted _ _ (by decide) (by decide), by decide, by decide, by decide⟩
  intro k hk
  have : k = 0 ∨ k = 1 ∨ k = 2 ∨ k = 3 := by simp [cs] at hk; omega
  rcases this with rfl | rfl | rfl | rfl <;> decide


/-! ## tokens made by the path-rewrite plugins, units of units, the other entry points (depth round 4) -/

/-- **A token joined by a path-rewrite plugin declares no units** (`concat_nodes` of JoinNumericPlugin,
`concat_oov_nodes` of JoinKatakanaOovPlugin: `..Default::default()` for the split lists), whatever its
parts declare — in every mode; its key length is the sum of the parts' key lengths (a `u16`). -/
theorem joined_declares_no_units (k : JoinKind) (parts : List Node) (j : Node)
    (h : joinNodes k parts = .ok j) (m : Mode) :
    numSplits j m = 0 ∧ j.info.a = [] ∧ j.info.b = [] ∧
    j.info.hwl = (parts.map (·.info.hwl)).sum ∧ j.info.hwl < 65536 := by
  obtain ⟨first, rest, last, hw, hp, _, hs, rfl⟩ := joinNodes_ok k parts j h
  have hsum : hw = (parts.map (·.info.hwl)).sum ∧ hw < 65536 := by
    rcases sumHwl_eq parts 0 hw hs with ⟨h1, h2⟩ | ⟨h1, _⟩
    · exact ⟨by omega, h2⟩
    · rw [hp] at h1; cases h1
  refine ⟨?_, rfl, rfl, hsum.1, hsum.2⟩
  cases m <;> simp [numSplits, splitsOf]

/-- **First and third sentence for joined tokens (the statement seeded change C09d breaks), full strength:**
for every lexicon set, subset, table, iterator variant, mode and every run of parts — also when the HEAD of
the run is a compound numeral with declared units — the joined token stands unchanged in the A/B path
wherever it is in the path, `split_into` reports that nothing was split and appends nothing, and the
deprecated `Morpheme::split` returns the token itself. -/
theorem joined_token_unchanged (cx : Ctx) (m : Mode) (k : JoinKind) (parts : List Node) (j : Node)
    (h : joinNodes k parts = .ok j) :
    expand cx m j = .ok [j] ∧ splitInto cx m j = .ok (false, []) ∧ splitDeprecated cx m j = .ok [j] ∧
    (∀ p1 p2 out, splitPath cx m (p1 ++ j :: p2) = .ok out →
      ∃ o1 o2, out = o1 ++ j :: o2 ∧ splitPath cx m p1 = .ok o1 ∧ splitPath cx m p2 = .ok o2) := by
  have h0 : numSplits j m = 0 := (joined_declares_no_units k parts j h m).1
  have he : expand cx m j = .ok [j] := by simp [expand, h0]
  have hi : splitInto cx m j = .ok (false, []) := by simp [splitInto, h0]
  refine ⟨he, hi, by simp [splitDeprecated, hi], ?_⟩
  intro p1 p2 out hout
  by_cases hm : m = Mode.C
  · simp only [splitPath, hm, if_true, Outcome.ok.injEq] at hout ⊢
    exact ⟨p1, p2, hout.symm, rfl, rfl⟩
  · simp only [splitPath, hm, if_false] at hout ⊢
    obtain ⟨o1, us, o2, ho, h1, hus, h3⟩ := splitPathGo_decompose cx m p1 j p2 out hout
    rw [he] at hus
    cases hus
    exact ⟨o1, o2, by simpa using ho, h1, h3⟩

/-- **The joined token covers exactly the run it replaces**: first part's begin, last part's end, in
characters and in bytes — a linked chain of parts from `(c, b)` to `(c', b')` becomes the one-node chain
with the same ends (texts shorter than 65 536 characters: the `as u16` casts are the identity), so the
hypotheses of `chain_preserved` / `partition_chain` survive the path-rewrite plugins. -/
theorem joined_range (k : JoinKind) (parts : List Node) (j : Node) (h : joinNodes k parts = .ok j)
    (c b c' b' : Nat) (hl : Linked parts c b c' b') (hc : c < 65536) (hc' : c' < 65536) :
    Linked [j] c b c' b' := by
  obtain ⟨first, rest, last, hw, hp, hlast, _, rfl⟩ := joinNodes_ok k parts j h
  obtain ⟨e1, e2⟩ := Linked_last parts c b c' b' last hl hlast
  subst hp
  obtain ⟨f1, f2, _⟩ := hl
  refine ⟨?_, f2, ?_, e2⟩
  · show asU16 first.cb = c
    rw [f1]; exact Nat.mod_eq_of_lt hc
  · show asU16 last.ce = c'
    rw [e1]; exact Nat.mod_eq_of_lt hc'

/-- **A joined token never carries the id of a dictionary word**: `WordId::INVALID` (dictionary 15) for
`concat_nodes`; for `concat_oov_nodes` the largest id of the run if that is an OOV id, else word number
`MAX_WORD` of its dictionary.  This is how the harness (and `Morpheme::is_oov`/`dictionary_id` users)
tell synthesised tokens from words — formerly a trusted statement. -/
theorem joined_wid_synthetic (k : JoinKind) (parts : List Node) (j : Node) (h : joinNodes k parts = .ok j) :
    isOov j.wid = true ∨ wordOf j.wid = WORD_MASK := by
  obtain ⟨first, rest, last, hw, _, _, _, rfl⟩ := joinNodes_ok k parts j h
  cases k
  · left
    show isOov INVALID_ID = true
    decide
  · show isOov (kataWid parts) = true ∨ wordOf (kataWid parts) = WORD_MASK
    unfold kataWid
    by_cases ho : isOov (parts.foldl (fun acc n => max acc n.wid) 0) = true
    · left; simp [ho]
    · right; simp only [ho]; exact wordOf_mkId_mask _

/-- **A path that no plugin touched resolves as before**: the grouped path of this round's case lines
degenerates to `resolve_best_path` alone, so every theorem about `resolvePath` applies to it. -/
theorem groups_plain_eq_resolvePath (lex : Lex) (s : Subset) (c2b : List Nat) (raws : List RawNode) :
    resolveGroups lex s c2b (plainGroups raws) = resolvePath lex s c2b raws := by
  induction raws with
  | nil => rfl
  | cons r rest ih =>
    simp only [plainGroups, List.map_cons] at ih ⊢
    simp only [resolveGroups, resolveG2, resolveG1s, resolveG1, resolvePath, ih]
    cases resolveNode lex s c2b r <;> simp [closeGroup]

/-- **Units of units are NOT split further by one call; a second call splits them** (statement).  For a
node declaring two or more units the A/B path holds exactly one token per DECLARED unit (no more, even
when a unit declares units of its own in that mode), and splitting such a unit `u` on demand afterwards
is `NodeSplitIterator` run over `u`'s own list inside `u`'s range. -/
theorem one_level_only (cx : Ctx) (m : Mode) (n : Node) (us : List Node)
    (h2 : 2 ≤ numSplits n m) (h : expand cx m n = .ok us) :
    us.map (·.wid) = splitsOf n m ∧ us.length = numSplits n m ∧
    (∀ u ∈ us, ∀ us2, 1 ≤ numSplits u m →
      (splitInto cx m u = .ok (true, us2) ↔ splitGo cx (splitsOf u m) u.cb u.bb u.ce u.be = .ok us2)) := by
  have hgt : ¬ numSplits n m ≤ 1 := by omega
  simp only [expand, hgt, if_false] at h
  have hw := units_ids cx m n us h
  refine ⟨hw, ?_, ?_⟩
  · have := congrArg List.length hw
    simpa [numSplits] using this
  · intro u _ us2 h1
    have hne : numSplits u m ≠ 0 := by omega
    have hm : m ≠ Mode.C := by
      intro hc; subst hc; simp [numSplits, splitsOf] at h1
    cases m
    · simp only [splitInto, hne, if_false, split]
      cases splitGo cx (splitsOf u Mode.A) u.cb u.bb u.ce u.be <;> simp
    · simp only [splitInto, hne, if_false, split]
      cases splitGo cx (splitsOf u Mode.B) u.cb u.bb u.ce u.be <;> simp
    · exact absurd rfl hm

/-- kernel-checked witness of `one_level_only` being sharp — `split_path` is NOT idempotent: `二十万`
(word 5, B units `二十`/`万` = words 3/2; `二十` itself declares the B units `二`/`十` = words 0/1).  Mode B
gives `[二十, 万]`; the token `二十` still declares two B units and stays whole; a second `split_into` on it
gives `[二, 十]`. -/
theorem units_of_units_witness :
    let lex : Lex := [[⟨3, [], []⟩, ⟨3, [], []⟩, ⟨3, [], []⟩, ⟨6, [0, 1], [0, 1]⟩, ⟨6, [1, 2], []⟩, ⟨9, [0, 1, 2], [3, 2]⟩]]
    let cx : Ctx := ⟨.d6fix, lex, Subset.all, [0, 0, 0, 1, 1, 1, 2, 2, 2, 3], [0, 3, 6, 9]⟩
    let u : Node := ⟨0, 2, 0, 6, 3, ⟨6, [0, 1], [0, 1]⟩⟩
    splitPath cx .B [⟨0, 3, 0, 9, 5, ⟨9, [0, 1, 2], [3, 2]⟩⟩] = .ok [u, ⟨2, 3, 6, 9, 2, ⟨3, [], []⟩⟩] ∧
    numSplits u .B = 2 ∧
    splitPath cx .B [u, ⟨2, 3, 6, 9, 2, ⟨3, [], []⟩⟩] ≠ .ok [u, ⟨2, 3, 6, 9, 2, ⟨3, [], []⟩⟩] ∧
    splitInto cx .B u = .ok (true, [⟨0, 1, 0, 3, 0, ⟨3, [], []⟩⟩, ⟨1, 2, 3, 6, 1, ⟨3, [], []⟩⟩]) := by
  decide

/-- **The deprecated `Morpheme::split` / `MorphemeList::split`** is `split_path`'s loop body whenever the
node does not declare exactly one unit (units for two or more, the node itself for none); for ONE declared
unit it returns that unit while `split_path` keeps the parent (the case the property text leaves out). -/
theorem deprecated_split_eq_expand (cx : Ctx) (m : Mode) (n : Node) (h1 : numSplits n m ≠ 1) :
    splitDeprecated cx m n = expand cx m n := by
  by_cases h0 : numSplits n m = 0
  · simp [splitDeprecated, splitInto, expand, h0]
  · have hgt : ¬ numSplits n m ≤ 1 := by omega
    simp only [splitDeprecated, splitInto, h0, if_false, expand, hgt]
    cases split cx n m <;> simp

/-- non-vacuity of the `joined_*` theorems: `二十` (word 3, A and B units `二`/`十`) + `二` joined by
`concat_nodes` — the HEAD declares units, the joined token (`WordId::INVALID`, key length 9) declares
none, is unchanged in mode A and `split_into` reports nothing; the same run through `concat_oov_nodes`
gets word number `MAX_WORD` of dictionary 0. -/
example :
    let lex : Lex := [[⟨3, [], []⟩, ⟨3, [], []⟩, ⟨3, [], []⟩, ⟨6, [0, 1], [0, 1]⟩]]
    let cx : Ctx := ⟨.d6fix, lex, Subset.all, [0, 0, 0, 1, 1, 1, 2, 2, 2, 3], [0, 3, 6, 9]⟩
    let head : Node := ⟨0, 2, 0, 6, 3, ⟨6, [0, 1], [0, 1]⟩⟩
    let j : Node := ⟨0, 3, 0, 9, 4294967295, ⟨9, [], []⟩⟩
    numSplits head .A = 2 ∧
    joinNodes .num [head, ⟨2, 3, 6, 9, 0, ⟨3, [], []⟩⟩] = .ok j ∧
    splitPath cx .A [j] = .ok [j] ∧ splitInto cx .A j = .ok (false, []) ∧
    joinNodes .kata [head, ⟨2, 3, 6, 9, 0, ⟨3, [], []⟩⟩] = .ok ⟨0, 3, 0, 9, 268435455, ⟨9, [], []⟩⟩ ∧
    Linked [head, ⟨2, 3, 6, 9, 0, ⟨3, [], []⟩⟩] 0 0 3 9 ∧
    resolveGroups lex Subset.all [0, 3, 6, 9] [⟨none, [⟨some .num, [⟨0, 2, 3, false⟩, ⟨2, 3, 0, false⟩]⟩]⟩] = .ok [j] := by
  refine ⟨by decide, by decide, by decide, by decide, by decide, ?_, by decide⟩
  exact ⟨rfl, rfl, rfl, rfl, rfl, rfl⟩


end C09
