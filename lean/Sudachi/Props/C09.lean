import Sudachi.Proofs.Split
/-!
# C09 — Modes A and B refine mode C with exactly the dictionary's split units

Model: `Model/Split.lean` (`split_path`, `NodeSplitIterator::next`, `MorphemeList::split_into`,
`set_mode`/`set_subset`/`normalize`, the early-exit word-info reader, `update_dict_id`).

A path is a list of `Node`s with character range `cb..ce` and byte range `bb..be` in the rewritten
text.  `Linked p c b c' b'` = the nodes start at `(c, b)`, abut, and end at `(c', b')`; this is the
shape the lattice search returns (C02) and the path-rewrite plugins preserve (C14).
-/
namespace C09
open Split

/-- **Clause 1 (all dictionaries, all histories): A/B boundaries ⊇ C boundaries, tokens without
declared splits unchanged.**  For every lexicon set (well-formed or not), every loaded subset,
every offset table and every path: if `split_path` returns, every begin/end (characters and bytes)
of a node of the input path is a begin/end of a node of the output path, and every node that
declares at most one unit is itself a node of the output. -/
theorem boundaries_refine (cx : Ctx) (m : Mode) (path out : List Node)
    (h : splitPath cx m path = .ok out) :
    (∀ n ∈ path, n.cb ∈ out.map (·.cb) ∧ n.bb ∈ out.map (·.bb) ∧ n.ce ∈ out.map (·.ce) ∧ n.be ∈ out.map (·.be)) ∧
    (∀ n ∈ path, numSplits n m ≤ 1 → n ∈ out) := by
  unfold splitPath at h
  by_cases hm : m = Mode.C
  · simp only [hm, if_true] at h
    cases h
    refine ⟨fun n hn => ⟨?_, ?_, ?_, ?_⟩, fun n hn _ => hn⟩ <;> exact List.mem_map.mpr ⟨n, hn, rfl⟩
  · simp only [hm, if_false] at h
    have key : ∀ n ∈ path, ∃ o1 us o2, out = o1 ++ us ++ o2 ∧ expand cx m n = .ok us := by
      intro n hn
      obtain ⟨p1, p2, rfl⟩ := List.append_of_mem hn
      obtain ⟨o1, us, o2, ho, _, hus, _⟩ := splitPathGo_decompose cx m p1 n p2 out h
      exact ⟨o1, us, o2, ho, hus⟩
    constructor
    · intro n hn
      obtain ⟨o1, us, o2, rfl, hus⟩ := key n hn
      have hl := expand_linked cx m n us hus
      obtain ⟨h1, h2, h3, h4⟩ := Linked_bounds us _ _ _ _ (expand_ne_nil cx m n us hus) hl
      simp only [List.map_append, List.mem_append]
      exact ⟨Or.inl (Or.inr h1), Or.inl (Or.inr h2), Or.inl (Or.inr h3), Or.inl (Or.inr h4)⟩
    · intro n hn hle
      obtain ⟨o1, us, o2, rfl, hus⟩ := key n hn
      simp only [expand, hle, if_true] at hus
      cases hus
      simp

/-- **Chain form of clause 1** (the hypothesis `C01.surfaces_partition` needs, before the
monotonicity supplied by `units_exact`): if the mode C path is a linked chain from `(c, b)` to
`(c', b')` then so is the A/B path — same start, same end, every token begins where the previous
one ended, in characters and in bytes.  Holds for all dictionaries. -/
theorem chain_preserved (cx : Ctx) (m : Mode) (path out : List Node)
    (c b c' b' : Nat) (h : splitPath cx m path = .ok out) (hl : Linked path c b c' b') :
    Linked out c b c' b' := by
  unfold splitPath at h
  by_cases hm : m = Mode.C
  · simp only [hm, if_true] at h; cases h; exact hl
  · simp only [hm, if_false] at h
    exact splitPathGo_linked cx m path out _ _ _ _ h hl

/-- the sub-tokens of a split node carry the declared unit ids, in order (all dictionaries) -/
theorem units_ids (cx : Ctx) (m : Mode) (n : Node) (us : List Node)
    (h : split cx n m = .ok us) : us.map (·.wid) = splitsOf n m := by
  cases m
  · exact splitGo_wids cx _ _ _ _ _ us h
  · exact splitGo_wids cx _ _ _ _ _ us h
  · simp [split] at h

/-- what the offset tables of the buffer must satisfy (established by `InputBuffer::build`; for
`mod_b2c` proved of the table construction in `mkB2c_ok`; checked on the real tables by the harness):
`mod_b2c` at the byte offset of character `k` is `k`; (repaired variant only) `mod_c2b[k]` is that
byte offset; the text is shorter than 65536 bytes (`start_build`/`commit` enforce 49149/65535). -/
structure TextOk (cx : Ctx) (w : Nat → Nat) (cs : List Nat) : Prop where
  b2c : B2cOk w cs cx.b2c
  c2b : cx.v = Variant.d6fix → C2bOk w cs cx.c2b
  size : pre w cs cs.length < 65536 ∧ cs.length < 65536

/-- **The property's own hypothesis** for one parent node `n` over the rewritten text `cs`
(scalar values, `w` = UTF-8 width): `key u` is the key (CSV column 0) of unit `u`; the declared
units' keys concatenate to the text the parent covers — which is the parent's key, lookup being an
exact match (C04) —; the parent's byte range is the byte image of its character range; each unit's
word info loads and its stored `head_word_length` is the byte length of its key (what
`dic/build/lexicon.rs: write_word_info` writes). -/
structure SplitsConcat (cx : Ctx) (w : Nat → Nat) (cs : List Nat) (key : Nat → List Nat) (n : Node) (m : Mode) : Prop where
  range : n.cb ≤ n.ce ∧ n.ce ≤ cs.length
  bytes : n.bb = pre w cs n.cb ∧ n.be = pre w cs n.ce
  concat : ((splitsOf n m).map key).flatten = (cs.drop n.cb).take (n.ce - n.cb)
  keys : KeysLoaded cx w key (splitsOf n m)

/-- **Clause 2: under `SplitsConcat` the sub-tokens are exactly the declared units, in order, and
their ranges partition the parent's.**  For a parent declaring at least one unit, in either variant
of the iterator: `split` does not panic; the sub-tokens carry the declared ids in order; sub-token
`i` covers exactly the characters of unit `i`'s key (`unitsSpec`: starts where unit `i-1` ended,
is `|key i|` characters long, byte range = byte image of the character range); the text under it
IS that key; the sub-tokens form a linked chain from the parent's start to the parent's end and
each runs forward. -/
theorem units_exact (cx : Ctx) (w : Nat → Nat) (cs : List Nat) (key : Nat → List Nat) (n : Node) (m : Mode)
    (ht : TextOk cx w cs) (hs : SplitsConcat cx w cs key n m) (h0 : numSplits n m ≠ 0) :
    ∃ us, split cx n m = .ok us ∧
      us.map (·.wid) = splitsOf n m ∧
      us.map Node.core = unitsSpec w cs key (splitsOf n m) n.cb ∧
      us.map (fun u => (cs.drop u.cb).take (u.ce - u.cb)) = (splitsOf n m).map key ∧
      Linked us n.cb n.bb n.ce n.be ∧
      (∀ u ∈ us, u.cb ≤ u.ce ∧ u.bb ≤ u.be) := by
  have hne : splitsOf n m ≠ [] := by
    intro h; simp [numSplits, h] at h0
  have hmC : m ≠ Mode.C := by
    intro h; subst h; simp [splitsOf] at hne
  obtain ⟨us, hus, hcore⟩ := splitGo_exact cx w cs key ht.b2c ht.c2b ht.size n.ce hs.range.2
    (splitsOf n m) n.cb hne hs.range.1 hs.keys hs.concat
  rw [← hs.bytes.1, ← hs.bytes.2] at hus
  have hsplit : split cx n m = .ok us := by
    cases m
    · exact hus
    · exact hus
    · exact absurd rfl hmC
  refine ⟨us, hsplit, units_ids cx m n us hsplit, hcore, ?_, split_linked cx n m us h0 hsplit, ?_⟩
  · have := unitsSpec_text w cs key n.ce (splitsOf n m) n.cb hs.range.1 hs.concat
    rw [← hcore, List.map_map] at this
    exact this
  · exact (unitsSpec_chain w cs key (splitsOf n m) n.cb us hcore).2

/-- **Partition lemma in the form `C01.surfaces_partition` consumes.**  If the mode C path is a
linked chain of forward-running nodes from `(c, b)` to `(c', b')` (lattice path, C02/C14) and every
node that gets split (≥ 2 declared units) satisfies `SplitsConcat`, then the A/B path is a linked
chain with the same ends and its cut points (token ends, in bytes and in characters of the
rewritten text) are non-decreasing: `Mono (b :: cuts)` with last cut `b'`. -/
theorem partition_chain (cx : Ctx) (w : Nat → Nat) (cs : List Nat) (key : Nat → List Nat) (m : Mode)
    (path out : List Node) (c b c' b' : Nat) (ht : TextOk cx w cs)
    (h : splitPath cx m path = .ok out) (hl : Linked path c b c' b')
    (hf : ∀ n ∈ path, n.cb ≤ n.ce ∧ n.bb ≤ n.be)
    (hs : ∀ n ∈ path, 2 ≤ numSplits n m → SplitsConcat cx w cs key n m) :
    Linked out c b c' b' ∧ (b :: out.map (·.be)).Pairwise (· ≤ ·) ∧
      (c :: out.map (·.ce)).Pairwise (· ≤ ·) ∧ b ≤ b' ∧ c ≤ c' := by
  have hlo := chain_preserved cx m path out c b c' b' h hl
  have hfo : ∀ u ∈ out, u.cb ≤ u.ce ∧ u.bb ≤ u.be := by
    unfold splitPath at h
    by_cases hm : m = Mode.C
    · simp only [hm, if_true] at h; cases h; exact hf
    · simp only [hm, if_false] at h
      intro u hu
      obtain ⟨n, hn, us, hus, huu⟩ := splitPathGo_mem cx m path out u h hu
      unfold expand at hus
      by_cases hle : numSplits n m ≤ 1
      · simp only [hle, if_true] at hus
        cases hus
        simp only [List.mem_singleton] at huu
        subst huu
        exact hf _ hn
      · simp only [hle, if_false] at hus
        obtain ⟨us', hus', _, _, _, _, hfw⟩ := units_exact cx w cs key n m ht (hs n hn (by omega)) (by omega)
        rw [hus] at hus'
        cases hus'
        exact hfw u huu
  obtain ⟨h1, h2, h3, h4⟩ := linked_cuts_mono out c b c' b' hlo hfo
  exact ⟨hlo, h1, h2, h3, h4⟩

/-- **Clause 3a: words declaring no unit.**  `split_into` reports `false` and appends nothing. -/
theorem ondemand_none (cx : Ctx) (m : Mode) (n : Node)
    (h0 : numSplits n m = 0) : splitInto cx m n = .ok (false, []) := by
  simp [splitInto, h0]

/-- **Clause 3b: on demand = direct.**  For a node declaring two or more units, wherever it stands
in a mode C path: the A/B path is (output for the nodes before) ++ `us` ++ (output for the nodes
after), where `us` is exactly what `split_into` appends for that node, and `split_into` reports
`true`.  (Both sides read word infos with the same subset `s`; see `subset_irrelevant_partial`.) -/
theorem ondemand_eq_direct (cx : Ctx) (m : Mode) (p1 p2 : List Node)
    (n : Node) (out : List Node) (h2 : 2 ≤ numSplits n m)
    (h : splitPath cx m (p1 ++ n :: p2) = .ok out) :
    ∃ o1 us o2, out = o1 ++ us ++ o2 ∧ splitInto cx m n = .ok (true, us) ∧
      splitPath cx m p1 = .ok o1 ∧ splitPath cx m p2 = .ok o2 := by
  have hm : m ≠ Mode.C := by
    intro hc; subst hc; simp [numSplits, splitsOf] at h2
  simp only [splitPath, hm, if_false] at h ⊢
  obtain ⟨o1, us, o2, ho, h1, hus, h3⟩ := splitPathGo_decompose cx m p1 n p2 out h
  refine ⟨o1, us, o2, ho, ?_, h1, h3⟩
  have hgt : ¬ numSplits n m ≤ 1 := by omega
  have hne : numSplits n m ≠ 0 := by omega
  simp only [expand, hgt, if_false] at hus
  simp [splitInto, hne, hus]

/-- a failing on-demand split is a failing direct tokenisation and vice versa (≥ 2 units) -/
theorem ondemand_fails_iff_direct (cx : Ctx) (m : Mode) (n : Node)
    (h2 : 2 ≤ numSplits n m) :
    (∃ us, splitInto cx m n = .ok (true, us)) ↔ (∃ us, splitPath cx m [n] = .ok us) := by
  have hm : m ≠ Mode.C := by
    intro hc; subst hc; simp [numSplits, splitsOf] at h2
  have hgt : ¬ numSplits n m ≤ 1 := by omega
  have hne : numSplits n m ≠ 0 := by omega
  simp only [splitPath, hm, if_false, splitPathGo, expand, hgt, splitInto, hne]
  cases split cx n m <;> simp

/-- **Re-stamping (`update_dict_id`).**  Reading word `id` of dictionary `dicOf id` with the A (B)
split requested returns the stored list with every user reference (`dic > 0`) replaced by
(owning dictionary, same word number) and every system reference unchanged; the key length is
returned as stored. -/
theorem restamp (lex : Lex) (id : Nat) (s : Subset) (l : List Entry) (e : Entry)
    (hd : dicOf id < 16) (hl : lex[dicOf id]? = some l) (he : l[wordOf id]? = some e)
    (hs : SPLIT_A ∈ s ∨ SPLIT_B ∈ s) :
    ∃ info, getWordInfoSubset lex id s = .ok info ∧ info.hwl = e.hwl ∧
      (SPLIT_A ∈ s → info.a = e.a.map (Split.restamp (dicOf id))) ∧
      (SPLIT_B ∈ s → info.b = e.b.map (Split.restamp (dicOf id))) := by
  refine ⟨_, getWordInfoSubset_eq lex id s l e hd hl he, ?_, ?_, ?_⟩
  · have : HEAD_WORD_LENGTH ∈ readFields s := by
      rcases hs with h | h
      · exact hwl_read_of_later s _ h (by decide)
      · exact hwl_read_of_later s _ h (by decide)
    simp [this]
  · intro h; simp [h]
  · intro h; simp [h]

/-- Full statement (NOT proved): for two tokenizer histories whose subsets both contain the split
field of mode `m`, `split` yields sub-tokens with the same ids and ranges (`Node.core`) — so the
on-demand split of a C list made with one subset equals the direct tokenisation made with another.
Proved here: the two inputs of the iterator that depend on the subset — the unit's key length and
the unit list of the mode — are the same under both subsets, for every existing word.  Missing: the
induction over `splitGo` lifting this to the whole sub-token list.  The generated cases always use
different histories for the direct tokenizer and the C list, so the full statement is exercised by
the oracle and the correspondence on every run. -/
theorem subset_irrelevant_partial (lex : Lex) (id : Nat) (s s' : Subset) (l : List Entry) (e : Entry)
    (hd : dicOf id < 16) (hl : lex[dicOf id]? = some l) (he : l[wordOf id]? = some e) :
    (SPLIT_A ∈ s → SPLIT_A ∈ s' → ∃ i i', getWordInfoSubset lex id s = .ok i ∧
      getWordInfoSubset lex id s' = .ok i' ∧ i.hwl = i'.hwl ∧ i.a = i'.a) ∧
    (SPLIT_B ∈ s → SPLIT_B ∈ s' → ∃ i i', getWordInfoSubset lex id s = .ok i ∧
      getWordInfoSubset lex id s' = .ok i' ∧ i.hwl = i'.hwl ∧ i.b = i'.b) := by
  constructor
  · intro h h'
    obtain ⟨i, hi, h1, h2, _⟩ := restamp lex id s l e hd hl he (Or.inl h)
    obtain ⟨i', hi', h1', h2', _⟩ := restamp lex id s' l e hd hl he (Or.inl h')
    exact ⟨i, i', hi, hi', by rw [h1, h1'], by rw [h2 h, h2' h']⟩
  · intro h h'
    obtain ⟨i, hi, h1, _, h3⟩ := restamp lex id s l e hd hl he (Or.inr h)
    obtain ⟨i', hi', h1', _, h3'⟩ := restamp lex id s' l e hd hl he (Or.inr h')
    exact ⟨i, i', hi, hi', by rw [h1, h1'], by rw [h3 h, h3' h']⟩

/-- what re-stamping does to one reference: system references stay, user references get the
owner's dictionary id and keep their word number -/
theorem restamp_id (d r : Nat) (hd : d < 16) :
    (dicOf r = 0 → Split.restamp d r = r) ∧
    (0 < dicOf r → dicOf (Split.restamp d r) = d ∧ wordOf (Split.restamp d r) = wordOf r) := by
  constructor
  · intro h; simp [Split.restamp, h]
  · intro h
    have hr : Split.restamp d r = mkId d (wordOf r) := by simp [Split.restamp, h]
    rw [hr]
    unfold mkId dicOf wordOf DIC_SHIFT
    constructor <;> omega

/-- **`set_mode` / `set_subset`: the split field of the mode is always loaded.**  After any
sequence of `new`, `set_subset`, `set_mode` calls the subset contains the split field of the
current mode. -/
theorem history_loads_split_field (ops : List Op) :
    ModeLoaded (runOps ops (create Mode.C) []).1 :=
  runOps_loaded ops _ _ (create_loaded _)

/-- the key length needed by `NodeSplitIterator` is loaded whenever a split list is requested:
`set_subset` adds the `HEAD_WORD_LENGTH` bit (`normalize`), `set_mode` does NOT — but the reader
writes `head_word_length` unconditionally when it has to walk past it to reach the split lists -/
theorem split_loads_key_length (s : Subset) (h : SPLIT_A ∈ s ∨ SPLIT_B ∈ s) :
    HEAD_WORD_LENGTH ∈ readFields s := by
  rcases h with h | h
  · exact hwl_read_of_later s _ h (by decide)
  · exact hwl_read_of_later s _ h (by decide)

/-- `set_mode` alone does not put `HEAD_WORD_LENGTH` into the subset (only `set_subset` does):
`new(C); set_subset({POS_ID}); set_mode(A)` ends with `{POS_ID, SPLIT_A}`. -/
theorem set_mode_does_not_normalize :
    toBits (runOps [.new .C, .sub [POS_ID], .md .A] (create .C) []).1.subset = 68 := by decide

/-- D6 (C03/C06 territory, witness kept here because the C09 generator reaches it): `東` with the
A split `東京都/京` — the first unit's key (9 bytes) is longer than the parent (3 bytes), the
byte end 9 lies outside `mod_b2c` (length 4) and `ch_idx` panics. -/
theorem d6_counterexample :
    splitPath ⟨.cur, [[⟨9, [], []⟩, ⟨3, [], []⟩, ⟨3, [0, 1], []⟩]], Subset.all, [0, 0, 0, 1], [0, 3]⟩ .A
      [⟨0, 1, 0, 3, 2, ⟨3, [0, 1], []⟩⟩] = .panic "mod_b2c: index out of bounds" := by decide

/-- D6, second shape: the text continues after the parent (`東あいう`, 12 bytes), nothing panics
but the first unit ends at character 3 and the last unit "inherits" the parent's end 1: the
sub-token `[3, 1)` runs backwards. -/
theorem d6_backwards_counterexample :
    (match splitPath ⟨.cur, [[⟨9, [], []⟩, ⟨3, [], []⟩, ⟨3, [0, 1], []⟩]], Subset.all,
        [0, 0, 0, 1, 1, 1, 2, 2, 2, 3, 3, 3, 4], [0, 3, 6, 9, 12]⟩ .A [⟨0, 1, 0, 3, 2, ⟨3, [0, 1], []⟩⟩] with
     | .ok us => us.map (fun u => (u.cb, u.ce))
     | _ => []) = [(0, 3), (3, 1)] := by decide

/-- the candidate repair of D6 (variant `d6fix`: clamp to the parent's end, snap to a character
start) removes both shapes: `東` ↦ units `[0,1)`, `[1,1)` — no panic, no backwards range -/
theorem d6_repaired :
    (match splitPath ⟨.d6fix, [[⟨9, [], []⟩, ⟨3, [], []⟩, ⟨3, [0, 1], []⟩]], Subset.all, [0, 0, 0, 1], [0, 3]⟩ .A
        [⟨0, 1, 0, 3, 2, ⟨3, [0, 1], []⟩⟩] with
     | .ok us => us.map (fun u => (u.cb, u.ce, u.bb, u.be))
     | _ => []) = [(0, 1, 0, 3), (1, 1, 3, 3)] := by decide

/-- non-vacuity of clauses 1 and 3: `東京都` (ids 0 `東京`, 1 `都`, 2 `東京都` with A split `0/1`)
followed by `あ` (OOV): mode A replaces the first node by its two units, the second is unchanged,
and `split_into` returns the same two units / `false`. -/
example :
    splitPath ⟨.cur, [[⟨6, [], []⟩, ⟨3, [], []⟩, ⟨9, [0, 1], []⟩]], Subset.all, [0, 0, 0, 1, 1, 1, 2, 2, 2, 3, 3, 3, 4], [0, 3, 6, 9, 12]⟩ .A
      [⟨0, 3, 0, 9, 2, ⟨9, [0, 1], []⟩⟩, ⟨3, 4, 9, 12, 4026531840, Info.empty⟩]
      = .ok [⟨0, 2, 0, 6, 0, ⟨6, [], []⟩⟩, ⟨2, 3, 6, 9, 1, ⟨3, [], []⟩⟩, ⟨3, 4, 9, 12, 4026531840, Info.empty⟩] ∧
    splitInto ⟨.cur, [[⟨6, [], []⟩, ⟨3, [], []⟩, ⟨9, [0, 1], []⟩]], Subset.all, [0, 0, 0, 1, 1, 1, 2, 2, 2, 3, 3, 3, 4], [0, 3, 6, 9, 12]⟩ .A
      ⟨0, 3, 0, 9, 2, ⟨9, [0, 1], []⟩⟩ = .ok (true, [⟨0, 2, 0, 6, 0, ⟨6, [], []⟩⟩, ⟨2, 3, 6, 9, 1, ⟨3, [], []⟩⟩]) ∧
    splitInto ⟨.cur, [[⟨6, [], []⟩, ⟨3, [], []⟩, ⟨9, [0, 1], []⟩]], Subset.all, [0, 0, 0, 1, 1, 1, 2, 2, 2, 3, 3, 3, 4], [0, 3, 6, 9, 12]⟩ .A
      ⟨3, 4, 9, 12, 4026531840, Info.empty⟩ = .ok (false, []) ∧
    2 ≤ numSplits ⟨0, 3, 0, 9, 2, ⟨9, [0, 1], []⟩⟩ .A ∧ numSplits ⟨3, 4, 9, 12, 4026531840, Info.empty⟩ .A = 0 ∧
    Linked [⟨0, 3, 0, 9, 2, ⟨9, [0, 1], []⟩⟩, ⟨3, 4, 9, 12, 4026531840, Info.empty⟩] 0 0 4 12 := by
  refine ⟨by decide, by decide, by decide, by decide, by decide, ?_⟩
  exact ⟨rfl, rfl, rfl, rfl, rfl, rfl⟩

/-- non-vacuity of `TextOk` / `SplitsConcat` / `units_exact`: the text `ab𠮷` (widths 1, 1, 4) with the
word `ab𠮷` (id 2) declaring the units `ab` (id 0) / `𠮷` (id 1): the hypotheses hold for the table
`mkB2cFrom` builds, and the sub-tokens are `[0,2)`/bytes `[0,2)` and `[2,3)`/bytes `[2,6)`. -/
example :
    let w : Nat → Nat := fun c => if c < 128 then 1 else 4
    let cs : List Nat := [97, 98, 134071]
    let key : Nat → List Nat := fun id => if id = 0 then [97, 98] else if id = 1 then [134071] else [97, 98, 134071]
    let cx : Ctx := ⟨.cur, [[⟨2, [], []⟩, ⟨4, [], []⟩, ⟨6, [0, 1], []⟩]], Subset.all, mkB2cFrom w 0 cs, [0, 1, 2, 6]⟩
    let n : Node := ⟨0, 3, 0, 6, 2, ⟨6, [0, 1], []⟩⟩
    TextOk cx w cs ∧ SplitsConcat cx w cs key n .A ∧ numSplits n .A ≠ 0 ∧
      (match split cx n .A with | .ok us => us.map Node.core | _ => []) = [(0, 0, 2, 0, 2), (1, 2, 3, 2, 6)] := by
  intro w cs key cx n
  refine ⟨⟨?_, ?_, ?_⟩, ⟨?_, ?_, ?_, ?_⟩, ?_, ?_⟩
  · exact mkB2c_ok w (by intro c; simp only [w]; split <;> omega) cs
  · intro h; cases h
  · decide
  · decide
  · decide
  · decide
  · intro wid hwid
    simp only [n, splitsOf, List.mem_cons, List.not_mem_nil, or_false] at hwid
    rcases hwid with rfl | rfl
    · exact ⟨⟨2, [], []⟩, by decide, by decide⟩
    · exact ⟨⟨4, [], []⟩, by decide, by decide⟩
  · decide
  · decide

/-- non-vacuity of `restamp`: word 1 of the second user dictionary (dictionary id 2) stores the
references `U0` (dictionary 1 as written by the builder) and system word 1 -/
example :
    getWordInfoSubset [[⟨3, [], []⟩, ⟨3, [], []⟩], [⟨3, [], []⟩], [⟨3, [], []⟩, ⟨6, [mkId 1 0, 1], []⟩]]
      (mkId 2 1) Subset.all = .ok ⟨6, [mkId 2 0, 1], []⟩ := by decide

end C09
