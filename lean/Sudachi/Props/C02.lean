import Sudachi.Proofs.Lattice
import Sudachi.Proofs.LatticeRec
import Sudachi.Proofs.LatticeI32
import Sudachi.Proofs.LatticeLex
import Sudachi.Proofs.TotalPathCost
import Sudachi.Proofs.RowWrap
import Sudachi.Props.C04
/-!
# C02 — The chosen segmentation is a minimum-cost lattice path (Viterbi optimality)

Model: `Vit.connect`/`insert`/`build` (`lattice.rs: connect_node, insert`; `build_lattice` inserts
candidates position by position), `Vit.eosCost` (`connect_eos`).  `conn a b` is
`matrix.cost(left_word.right_id = a, right_word.left_id = b)`; costs are unbounded integers here
(the `i32` accumulator is C03's subject).  `F` is the list of candidate nodes in insertion order.

Hypotheses, both guaranteed by `build_lattice`: every candidate is non-empty (`WF`: `b < e`) and
candidates are inserted in non-decreasing order of their begin position.
A *covering sequence* is `ws` with `IsChain F bos ws` (every word a candidate, each beginning where
the previous ended, the first at 0) and `lastEnd bos ws = len`; its cost `chainCost conn bos ws`
is the sum of word costs plus connection costs including the BOS and EOS connections.

Back-pointers: the model recomputes the pointer of a node by `Vit.argmin` on the finished lattice
instead of storing it at insertion (`argmin_spec`, `stored_total_is_connect`: same value);
`Vit.bestPath` follows the pointers from EOS (`fill_top_path`).  `viterbi_path`, `total_prefix`,
`path_contiguous` are the theorems about the returned chain; `*_exec` restate them for the
vector-of-rows lattice the driver executed in the first round.

Second round (what `vdriver` executes now): `Vit.Lat` is the RECYCLED `struct Lattice` — three parallel row
vectors that never shrink, `size`, `eos`, `reset`/`reset_vec`/`connect_bos`, stored `indices` — and the
`recycled_*` theorems transfer everything above to it for EVERY previous state
(`reset_then_build_eq_fresh`); `partial_clear_counterexample` is the seeded change C02b;
`i32_lattice_eq_model` is the side condition under which the `i32` code (C03's model) equals this one.

Third round (what `vdriver` executes now, op `build`): the position loop of `LatticeBuilder::build_lattice` with the
DICTIONARY inside the model (`Model/LatticeLex.lean`): `has_previous_node` on the recycled state, the look-up by its
C04 contract (`lookup_is_c04_spec`), the `can_bow` filter, `get_word_param`, `ch_idx`, dictionary words before the
providers' nodes, the early `Err(EosBosDisconnect)`.  `builder_eq_candidate_list`, `lattice_has_every_candidate`,
`optimal_over_dictionary`, `early_exit_leaves_eos_none`: the lattice holds EVERY candidate the dictionaries and
providers offer at every reachable position, so the optimality theorems range over all sequences of words of the
dictionary + providers (`CandChain`), not over the rows of the lattice.
-/
namespace C02
open Vit

variable (conn : Nat → Nat → Int)

/-- every stored cumulative cost is the minimum over all candidate chains BOS → … → that node
(`none` iff no chain reaches it), and every candidate is stored in the row of its end -/
theorem viterbi_min (F : List Node) (hwf : WF F) (hs : F.Pairwise (fun a b => a.b ≤ b.b)) :
    (∀ e, ∀ ent ∈ build conn F init e, Opt conn F ent.1 ent.2) ∧
    (∀ m ∈ F, ∃ t, (m, t) ∈ build conn F init m.e) :=
  Vit.viterbi_min conn F hwf (ordered_of_sorted F hwf hs)

/-- **Optimality**: the final path cost is no larger than the cost of any sequence of candidate
words covering the text, sentence-start and sentence-end connections included -/
theorem no_cheaper_covering (F : List Node) (hwf : WF F) (hs : F.Pairwise (fun a b => a.b ≤ b.b))
    (len : Nat) (ws : List Node) (hc : IsChain F bos ws) (hl : lastEnd bos ws = len) :
    ∃ v, eosCost conn (build conn F init) len = some v ∧ v ≤ chainCost conn bos ws := by
  have h := eos_opt conn F hwf (ordered_of_sorted F hwf hs) len
  have hcomp : Complete conn F len (chainCost conn bos ws) := by
    have := chain_complete conn F ws bos 0 Reach.bos hc
    rw [hl] at this
    simpa using this
  cases hres : eosCost conn (build conn F init) len with
  | none => rw [hres] at h; exact absurd hcomp (h _)
  | some v => rw [hres] at h; exact ⟨v, rfl, h.2 _ hcomp⟩

/-- **Attainment**: the final path cost is the cost of some covering sequence of candidates -/
theorem eos_attained (F : List Node) (hwf : WF F) (hs : F.Pairwise (fun a b => a.b ≤ b.b))
    (len : Nat) (v : Int) (h : eosCost conn (build conn F init) len = some v) :
    ∃ ws, IsChain F bos ws ∧ lastEnd bos ws = len ∧ chainCost conn bos ws = v := by
  have ho := eos_opt conn F hwf (ordered_of_sorted F hwf hs) len
  rw [h] at ho
  obtain ⟨⟨m, t, hm, he, hv⟩, _⟩ := ho
  obtain ⟨ws, h1, h2, h3, _, _⟩ := complete_chain conn F hm
  refine ⟨ws, h1, by rw [h2, he], ?_⟩
  have := h3 (conn m.r 0)
  omega

/-- the search reports "disconnected" exactly when no covering sequence exists -/
theorem disconnected_iff (F : List Node) (hwf : WF F) (hs : F.Pairwise (fun a b => a.b ≤ b.b)) (len : Nat) :
    eosCost conn (build conn F init) len = none ↔ ¬ ∃ ws, IsChain F bos ws ∧ lastEnd bos ws = len := by
  constructor
  · intro h ⟨ws, hc, hl⟩
    obtain ⟨v, hv, _⟩ := no_cheaper_covering conn F hwf hs len ws hc hl
    rw [h] at hv; cases hv
  · intro h
    cases hres : eosCost conn (build conn F init) len with
    | none => rfl
    | some v =>
      obtain ⟨ws, h1, h2, _⟩ := eos_attained conn F hwf hs len v hres
      exact absurd ⟨ws, h1, h2⟩ h

/-! ## back-pointers: the returned path (`connect_node` index half, `fill_top_path`, `resolve_best_path`) -/

/-- **Back-pointer of `connect_node`.**  `argmin` (the `(prev_idx, min_cost)` pair of the Rust loop)
reports a position iff `connect` reports a cost, and it is the same cost; the position holds a
connected entry `(m, t)` with `v = t + conn m.r n.l + n.c`; no entry of the row offers less and every
EARLIER entry offers strictly more, i.e. `i` is the first index attaining the minimum (strict `<`). -/
theorem argmin_spec (row : List Entry) (n : Node) (v : Int) :
    ((∃ i, argmin conn row n = some (i, v)) ↔ connect conn row n = some v) ∧
    ∀ i, argmin conn row n = some (i, v) →
      ∃ m t, row[i]? = some (m, some t) ∧ v = t + conn m.r n.l + n.c ∧
        (∀ (j : Nat) (m' : Node) (t' : Int), row[j]? = some (m', some t') → v ≤ t' + conn m'.r n.l + n.c) ∧
        (∀ (j : Nat) (m' : Node) (t' : Int), j < i → row[j]? = some (m', some t') → v < t' + conn m'.r n.l + n.c) := by
  refine ⟨⟨?_, connect_argmin conn row n v⟩, ?_⟩
  · rintro ⟨i, hi⟩; rw [← argmin_connect, hi]; rfl
  · intro i hi
    obtain ⟨⟨m, t, hg, hv⟩, hmin, hfirst⟩ := argmin_some conn row n i v hi
    exact ⟨m, t, hg, hv, fun j m' t' hj => hmin j _ ⟨m', t', hj, rfl⟩,
      fun j m' t' hlt hj => hfirst j _ hlt ⟨m', t', hj, rfl⟩⟩

/-- **Stored totals are `connect_node` over the FINAL rows.**  In the fully built lattice every stored
entry `(n, t)` other than BOS has `t = connect conn (rows n.b) n` where `rows` is the finished lattice:
the row at `n.b` did not change after `n` was inserted (insertion order).  Hence recomputing the
back-pointer by `argmin` on the finished lattice gives the pointer `insert` stored. -/
theorem stored_total_is_connect (F : List Node) (hwf : WF F) (hs : F.Pairwise (fun a b => a.b ≤ b.b))
    (e : Nat) (n : Node) (t : Option Int) (h : (n, t) ∈ build conn F init e) (hn : n ≠ bos) :
    t = connect conn (build conn F init n.b) n :=
  stored_total conn F hwf (ordered_of_sorted F hwf hs) e (n, t) h hn

/-- **The returned path** (`viterbi_path` of DESIGN §3 C02).  When EOS is connected with cost `v`, the
chain obtained by following the back-pointers from EOS is a covering sequence of candidates (each a
candidate, the first beginning at 0, each beginning where the previous one ended, the last ending at
`len`) and its recomputed cost, BOS and EOS connections included, is exactly `v` — so by
`no_cheaper_covering` it is a minimum-cost covering sequence.  Termination of `fill_top_path`: the
walk reaches BOS within `len + 1` steps; any larger fuel returns the same path. -/
theorem viterbi_path (F : List Node) (hwf : WF F) (hs : F.Pairwise (fun a b => a.b ≤ b.b))
    (len : Nat) (v : Int) (h : eosCost conn (build conn F init) len = some v) :
    IsChain F bos (bestPath conn (build conn F init) len) ∧
    lastEnd bos (bestPath conn (build conn F init) len) = len ∧
    chainCost conn bos (bestPath conn (build conn F init) len) = v ∧
    ∀ fuel, len + 1 ≤ fuel →
      pathFrom conn (build conn F init) fuel (eosNode len) [] = bestPath conn (build conn F init) len := by
  have hord := ordered_of_sorted F hwf hs
  obtain ⟨done', hinv, _⟩ := build_inv conn F hwf hord
  have hst := stored_total conn F hwf hord
  have hp := pathFrom_spec conn F hwf (build conn F init) done' hinv hst len v (len + 1) (eosNode len) []
    (by simp [eosNode]) ⟨v, h⟩ (by
      intro m t hmem hc
      have hme := (hinv.sound _ (m, some t) hmem).1
      simp only [eosNode] at hme hc
      have hc' : eosCost conn (build conn F init) len = some (t + conn m.r 0 + 0) := hc
      rw [h] at hc'
      simp only [Option.some.injEq] at hc'
      exact ⟨trivial, hme, by simp only [chainCost]; omega, trivial⟩)
  refine ⟨hp.1, hp.2.1, hp.2.2.1, ?_⟩
  intro fuel hf
  obtain ⟨d, rfl⟩ := Nat.exists_eq_add_of_le hf
  exact pathFrom_fuel conn F hwf _ (fun e ent he => ⟨(hinv.sound e ent he).1, (hinv.sound e ent he).2.1⟩)
    (eosNode len) [] (len + 1) (by simp [eosNode]) d

/-- **Cumulative costs along the returned path** (`total_prefix`; what `Morpheme::total_cost` reports in
mode C).  For every prefix `p₁ ++ [n]` of the returned path, the node `n` is stored in the lattice with
the total `prefixCost conn bos (p₁ ++ [n])` = word costs + connection costs from BOS up to and
including `n`, WITHOUT the connection to EOS; and every entry stored for `n` carries that total. -/
theorem total_prefix (F : List Node) (hwf : WF F) (hs : F.Pairwise (fun a b => a.b ≤ b.b))
    (len : Nat) (v : Int) (h : eosCost conn (build conn F init) len = some v)
    (p₁ p₂ : List Node) (n : Node) (hp : bestPath conn (build conn F init) len = p₁ ++ n :: p₂) :
    (n, some (prefixCost conn bos (p₁ ++ [n]))) ∈ build conn F init n.e ∧
    ∀ t, (n, t) ∈ build conn F init n.e → t = some (prefixCost conn bos (p₁ ++ [n])) := by
  have hord := ordered_of_sorted F hwf hs
  obtain ⟨done', hinv, _⟩ := build_inv conn F hwf hord
  have hst := stored_total conn F hwf hord
  have hpath := pathFrom_spec conn F hwf (build conn F init) done' hinv hst len v (len + 1) (eosNode len) []
    (by simp [eosNode]) ⟨v, h⟩ (by
      intro m t hmem hc
      have hme := (hinv.sound _ (m, some t) hmem).1
      simp only [eosNode] at hme hc
      have hc' : eosCost conn (build conn F init) len = some (t + conn m.r 0 + 0) := hc
      rw [h] at hc'
      simp only [Option.some.injEq] at hc'
      exact ⟨trivial, hme, by simp only [chainCost]; omega, trivial⟩)
  have htight : Tight conn (build conn F init) bos 0 (p₁ ++ n :: p₂) := by
    have := hpath.2.2.2; unfold bestPath at hp; rw [hp] at this; exact this
  have hmem := tight_prefix conn (build conn F init) n p₂ p₁ bos 0 htight
  simp only [Int.zero_add] at hmem
  have hnF : n ∈ F := by
    have hc := hpath.1; unfold bestPath at hp; rw [hp] at hc
    exact isChain_mem F _ bos hc n (by simp)
  have hne : n ≠ bos := by
    intro hc; have := hwf n hnF; rw [hc] at this; simp [bos] at this
  refine ⟨hmem, ?_⟩
  intro t ht
  have e1 : t = connect conn (build conn F init n.b) n := hst n.e (n, t) ht hne
  have e2 : some (prefixCost conn bos (p₁ ++ [n])) = connect conn (build conn F init n.b) n :=
    hst n.e (n, some _) hmem hne
  rw [e1, e2]

/-- the complete path cost is the cumulative cost of the last word plus its connection to EOS -/
theorem path_cost_is_last_total_plus_eos (F : List Node) (hwf : WF F) (hs : F.Pairwise (fun a b => a.b ≤ b.b))
    (len : Nat) (v : Int) (h : eosCost conn (build conn F init) len = some v) :
    v = prefixCost conn bos (bestPath conn (build conn F init) len) +
        conn (lastNode bos (bestPath conn (build conn F init) len)).r 0 := by
  rw [← chainCost_prefix, (viterbi_path conn F hwf hs len v h).2.2.1]

/-- **Contiguity of the returned path** (`path_contiguous` of DESIGN §3 C01), in the form
`C01.surfaces_partition` consumes.  `tab` is any non-decreasing table indexed by character position
with `len < tab.length` (the character→byte table `mod_c2b` of `resolve_best_path`:
`byte_end = to_curr_byte_idx(node.end())`).  The nodes start at 0, each begins where the previous one
ended, ends strictly increase, the last ends at `len`; consequently the byte ends
`cuts = path.map (tab[·.e])` form a non-decreasing chain from `tab[0]` to `tab[len]` and every table
access is in range. -/
theorem path_contiguous (F : List Node) (hwf : WF F) (hs : F.Pairwise (fun a b => a.b ≤ b.b))
    (len : Nat) (v : Int) (h : eosCost conn (build conn F init) len = some v)
    (tab : List Nat) (htab : tab.Pairwise (· ≤ ·)) (hlen : len < tab.length) :
    let p := bestPath conn (build conn F init) len
    IsChain F bos p ∧ lastEnd bos p = len ∧ p.Pairwise (fun a b => a.e < b.e) ∧
    (((tab[0]?).getD 0) :: p.map (fun n => (tab[n.e]?).getD 0)).Pairwise (· ≤ ·) ∧
    (((tab[0]?).getD 0) :: p.map (fun n => (tab[n.e]?).getD 0)).getLast (by simp) = (tab[len]?).getD 0 ∧
    ∀ n ∈ p, n.e < tab.length := by
  intro p
  obtain ⟨h1, h2, _, _⟩ := viterbi_path conn F hwf hs len v h
  obtain ⟨c1, c2, c3⟩ := chain_cuts F hwf tab htab p h1 (by rw [h2]; exact hlen)
  refine ⟨h1, h2, (chain_ends F hwf p bos h1).2.1, ?_, ?_, c3⟩
  · simpa [bos] using c1
  · rw [h2] at c2; simpa [bos] using c2

/-! ### the same statements about the executed vector-of-rows lattice (`buildL`, what `vdriver` runs) -/

/-- the rows the driver computes are the rows the theorems speak about -/
theorem exec_rows (F : List Node) : rowAt (buildL conn F initL) = build conn F init := by
  rw [rowAt_buildL, rowAt_initL]

/-- `viterbi_path` for the executed lattice -/
theorem viterbi_path_exec (F : List Node) (hwf : WF F) (hs : F.Pairwise (fun a b => a.b ≤ b.b))
    (len : Nat) (v : Int) (h : eosCost conn (rowAt (buildL conn F initL)) len = some v) :
    IsChain F bos (bestPath conn (rowAt (buildL conn F initL)) len) ∧
    lastEnd bos (bestPath conn (rowAt (buildL conn F initL)) len) = len ∧
    chainCost conn bos (bestPath conn (rowAt (buildL conn F initL)) len) = v := by
  rw [exec_rows] at h ⊢
  obtain ⟨h1, h2, h3, _⟩ := viterbi_path conn F hwf hs len v h
  exact ⟨h1, h2, h3⟩

/-- `total_prefix` and `stored_total_is_connect` for the executed lattice -/
theorem total_prefix_exec (F : List Node) (hwf : WF F) (hs : F.Pairwise (fun a b => a.b ≤ b.b))
    (len : Nat) (v : Int) (h : eosCost conn (rowAt (buildL conn F initL)) len = some v)
    (p₁ p₂ : List Node) (n : Node) (hp : bestPath conn (rowAt (buildL conn F initL)) len = p₁ ++ n :: p₂) :
    (n, some (prefixCost conn bos (p₁ ++ [n]))) ∈ rowAt (buildL conn F initL) n.e ∧
    (∀ t, (n, t) ∈ rowAt (buildL conn F initL) n.e → t = some (prefixCost conn bos (p₁ ++ [n]))) ∧
    connect conn (rowAt (buildL conn F initL) n.b) n = some (prefixCost conn bos (p₁ ++ [n])) := by
  rw [exec_rows] at h hp ⊢
  obtain ⟨h1, h2⟩ := total_prefix conn F hwf hs len v h p₁ p₂ n hp
  refine ⟨h1, h2, ?_⟩
  have hnF : n ∈ F := by
    have hc := (viterbi_path conn F hwf hs len v h).1; rw [hp] at hc
    exact isChain_mem F _ bos hc n (by simp)
  have hne : n ≠ bos := by
    intro hc; have := hwf n hnF; rw [hc] at this; simp [bos] at this
  exact (stored_total_is_connect conn F hwf hs n.e n _ h1 hne).symm

/-! ## the RECYCLED lattice (`Lattice::reset`/`reset_vec`, `size`, `connect_bos`, stored `indices`)

`Vit.Lat` (`Model/LatticeRec.lean`) is `struct Lattice` as it is: three parallel row vectors that never
shrink, `size`, `eos`; `reset`, `insertS`, `connectEosS`, `fillTopPath`, `nodeS` transcribe the Rust
functions, `none` = the Rust code would panic (index out of bounds, `size - 1` underflow) or `fill_top_path`
would not terminate.  `s` below is ANY previous state: any rows (also inconsistent ones), any `size`, any
`eos`.  `F` is the list of candidates of the new text in insertion order, all inside the text
(`n.e ≤ len`; proved of the builder in C03 `candidates_inside_text`). -/

/-- **`reset` then the insertion sequence = the lattice built from scratch.**  For EVERY previous state:
`reset(len)` and all `insert`s succeed (no index panic), `size = len + 1`, `eos = None`, and on every valid
row `e ≤ len` the three vectors are exactly the images of the functional rows `build conn F init e` the
optimality theorems speak about: `ends[e]` = (right id, total) of every entry incl. the BOS entry of row 0,
`ends_full[e]` = the nodes (without BOS), `indices[e]` = the `connect_node` pointers `buildP`.  Rows past
`size` that stay allocated are EMPTY, and each vector holds `max(previous length, len + 1)` rows (it never
shrinks).  No hypothesis on the order or shape of `F` beyond lying inside the text. -/
theorem reset_then_build_eq_fresh (s : Lat) (len : Nat) (F : List Node) (hF : ∀ n ∈ F, n.b ≤ len ∧ n.e ≤ len) :
    ∃ s1 s2, reset s len = some s1 ∧ buildS conn F s1 = some s2 ∧ s2.size = len + 1 ∧ s2.eos = none ∧
      (∀ e, e ≤ len →
        s2.ends[e]? = some ((build conn F init e).map vn) ∧
        s2.full[e]? = some (((build conn F init e).map (·.1)).drop (off e)) ∧
        s2.idx[e]? = some (buildP conn F init initP e)) ∧
      (∀ e, len < e → (∀ row, s2.ends[e]? = some row → row = []) ∧ (∀ row, s2.full[e]? = some row → row = []) ∧
        (∀ row, s2.idx[e]? = some row → row = [])) ∧
      s2.ends.length = max s.ends.length (len + 1) ∧ s2.full.length = max s.full.length (len + 1) ∧
      s2.idx.length = max s.idx.length (len + 1) := by
  obtain ⟨s1, s2, h1, h2, hsim, h4, l1, l2, l3, _⟩ := analyse_spec conn s len F hF
  exact ⟨s1, s2, h1, h2, hsim.size, h4, fun e he => ⟨hsim.ends e he, hsim.full e he, hsim.idx e he⟩, hsim.clean,
    l1, l2, l3⟩

/-- the same, as the history-independence it is: whatever the lattice held before, the valid rows after
`reset` + inserts are those of a NEW tokenizer (`Lattice::default()`) -/
theorem recycled_eq_new_tokenizer (s : Lat) (len : Nat) (F : List Node) (hF : ∀ n ∈ F, n.b ≤ len ∧ n.e ≤ len) :
    ∃ s2 t2, (reset s len).bind (buildS conn F) = some s2 ∧ (reset Lat.empty len).bind (buildS conn F) = some t2 ∧
      s2.size = t2.size ∧ s2.eos = t2.eos ∧
      ∀ e, e < s2.size → s2.ends[e]? = t2.ends[e]? ∧ s2.full[e]? = t2.full[e]? ∧ s2.idx[e]? = t2.idx[e]? := by
  obtain ⟨s1, s2, a1, a2, a3, a4, a5, _⟩ := reset_then_build_eq_fresh conn s len F hF
  obtain ⟨t1, t2, b1, b2, b3, b4, b5, _⟩ := reset_then_build_eq_fresh conn Lat.empty len F hF
  refine ⟨s2, t2, by simp [a1, a2], by simp [b1, b2], by rw [a3, b3], by rw [a4, b4], ?_⟩
  intro e he
  rw [a3] at he
  obtain ⟨x1, x2, x3⟩ := a5 e (by omega)
  obtain ⟨y1, y2, y3⟩ := b5 e (by omega)
  exact ⟨by rw [x1, y1], by rw [x2, y2], by rw [x3, y3]⟩

/-- **The seeded partial clear is NOT covered** (`seeded/C02b`: `reset_vec` clears only the first
`min(previous size, new size)` rows).  Kernel-checked witness with connection cost 0: the texts have
3, 1, 3 characters; the first leaves a node `1..3` of cost -500 (total -400) in row 3, the second clears rows
0..1 only and sets `size = 2`, the third clears rows 0..1 again.  Its candidates are three one-character words
of cost 100: the stale entry in row 3 (total -400) wins `connect_eos`, although the only covering sequence
costs 300 — while `reset` (the code) returns 300 from the same previous state. -/
theorem partial_clear_counterexample :
    let conn : Nat → Nat → Int := fun _ _ => 0
    let t1 : List Node := [⟨0, 1, 0, 0, 100⟩, ⟨1, 3, 0, 0, -500⟩]
    let t2 : List Node := [⟨0, 1, 0, 0, 100⟩]
    let t3 : List Node := [⟨0, 1, 0, 0, 100⟩, ⟨1, 2, 0, 0, 100⟩, ⟨2, 3, 0, 0, 100⟩]
    let run := fun (rst : Lat → Nat → Option Lat) (s : Lat) (len : Nat) (F : List Node) =>
      ((rst s len).bind (buildS conn F)).bind (connectEosS conn)
    -- the seeded variant, three analyses on one lattice
    (((run resetSeed Lat.empty 3 t1).bind (fun x => run resetSeed x.1 1 t2)).bind
        (fun x => run resetSeed x.1 3 t3)).map (fun x => x.1.eos) = some (some ((3, 0), -400)) ∧
    -- the code, same three analyses
    (((run reset Lat.empty 3 t1).bind (fun x => run reset x.1 1 t2)).bind
        (fun x => run reset x.1 3 t3)).map (fun x => x.1.eos) = some (some ((3, 0), 300)) ∧
    -- the only covering sequence of the third text costs 300
    eosCost conn (build conn t3 init) 3 = some 300 := by
  refine ⟨by decide, by decide, by decide⟩

/-- **`viterbi_min` for the recycled lattice.**  After `reset` + inserts on any previous state, every valid
row is the image of a list of entries whose totals are the minimum over all candidate chains from BOS
(`none` = `i32::MAX` iff no chain reaches the node), and every candidate is stored in the row of its end. -/
theorem recycled_viterbi_min (s : Lat) (len : Nat) (F : List Node) (hwf : WF F)
    (hs : F.Pairwise (fun a b => a.b ≤ b.b)) (hF : ∀ n ∈ F, n.e ≤ len) :
    ∃ s2, (reset s len).bind (buildS conn F) = some s2 ∧
      ∀ e, e ≤ len → ∃ row : List Entry,
        s2.ends[e]? = some (row.map vn) ∧ s2.full[e]? = some ((row.map (·.1)).drop (off e)) ∧
        (∀ ent ∈ row, Opt conn F ent.1 ent.2) ∧ ∀ m ∈ F, m.e = e → ∃ t, (m, t) ∈ row := by
  have hF' : ∀ n ∈ F, n.b ≤ len ∧ n.e ≤ len := fun n hn => ⟨by have := hwf n hn; have := hF n hn; omega, hF n hn⟩
  obtain ⟨s1, s2, a1, a2, _, _, a5, _⟩ := reset_then_build_eq_fresh conn s len F hF'
  obtain ⟨v1, v2⟩ := viterbi_min conn F hwf hs
  refine ⟨s2, by simp [a1, a2], ?_⟩
  intro e he
  obtain ⟨x1, x2, _⟩ := a5 e he
  exact ⟨build conn F init e, x1, x2, v1 e, fun m hm hme => by obtain ⟨t, ht⟩ := v2 m hm; exact ⟨t, hme ▸ ht⟩⟩

/-- **The search on a recycled lattice never panics and reports the functional `eosCost`.**  For every
previous state, `reset`, all inserts and `connect_eos` succeed; `Err(EosBosDisconnect)` (`false`, `eos` stays
`None`) iff no covering sequence of candidates exists; otherwise `eos = Some((len, j), v)` where `v` is
attained by a covering sequence and no covering sequence is cheaper (BOS and EOS connections included) and
`j` is the first index of row `len` attaining it. -/
theorem recycled_optimal (s : Lat) (len : Nat) (F : List Node) (hwf : WF F)
    (hs : F.Pairwise (fun a b => a.b ≤ b.b)) (hF : ∀ n ∈ F, n.e ≤ len) :
    ∃ s3 b, analyse conn s len F = some (s3, b) ∧ s3.size = len + 1 ∧
      (b = false ↔ ¬ ∃ ws, IsChain F bos ws ∧ lastEnd bos ws = len) ∧
      (b = false → s3.eos = none) ∧
      (b = true → ∃ j v, s3.eos = some ((len, j), v) ∧
        argmin conn (build conn F init len) (eosNode len) = some (j, v) ∧
        (∃ ws, IsChain F bos ws ∧ lastEnd bos ws = len ∧ chainCost conn bos ws = v) ∧
        ∀ ws, IsChain F bos ws → lastEnd bos ws = len → v ≤ chainCost conn bos ws) := by
  have hF' : ∀ n ∈ F, n.b ≤ len ∧ n.e ≤ len := fun n hn => ⟨by have := hwf n hn; have := hF n hn; omega, hF n hn⟩
  obtain ⟨s1, s2, _, _, hsim, h4, _, _, _, ha⟩ := analyse_spec conn s len F hF'
  have hd := disconnected_iff conn F hwf hs len
  cases hv : eosCost conn (build conn F init) len with
  | none =>
    rw [hv] at ha
    exact ⟨s2, false, ha, hsim.size, ⟨fun _ => hd.mp hv, fun _ => rfl⟩, fun _ => h4, fun h => (by cases h)⟩
  | some v =>
    rw [hv] at ha
    refine ⟨_, true, ha, hsim.size, ⟨fun h => (by cases h), fun h => ?_⟩, fun h => (by cases h), fun _ => ?_⟩
    · have := hd.mpr h; rw [hv] at this; cases this
    · obtain ⟨j, hj⟩ := connect_argmin conn (build conn F init len) (eosNode len) v hv
      refine ⟨j, v, by simp only [hj, ptrOf], hj, eos_attained conn F hwf hs len v hv, ?_⟩
      intro ws hc hl
      obtain ⟨v', e1, e2⟩ := no_cheaper_covering conn F hwf hs len ws hc hl
      rw [hv] at e1; cases e1; exact e2

/-- **`viterbi_path` / `total_prefix` / `path_contiguous` for the recycled lattice, over the STORED
back-pointers.**  Whenever the analysis of a non-empty text on ANY previous state ends with `Ok` (`true`):
`fill_top_path` — the walk over the stored `indices` from `eos`, nothing recomputed — terminates within
`size` steps without leaving the vectors, `Lattice::node` succeeds on every index, and the resulting
`(node, cost)` list `p` (the `ResultNode`s of `resolve_best_path`) satisfies: its nodes are exactly
`bestPath` of the functional model (so the `argmin` recomputation there and the stored pointers agree), they
form a covering sequence of candidates whose recomputed cost is the `eos` cost `v` (minimal by
`recycled_optimal`), ends strictly increase, and the cost carried by the k-th node is `some` of the prefix sum
of word and connection costs from BOS up to and including it (`Morpheme::total_cost` in mode C). -/
theorem recycled_path (s : Lat) (len : Nat) (hlen : 0 < len) (F : List Node) (hwf : WF F)
    (hs : F.Pairwise (fun a b => a.b ≤ b.b)) (hF : ∀ n ∈ F, n.e ≤ len)
    (s3 : Lat) (h : analyse conn s len F = some (s3, true)) :
    ∃ id v p, s3.eos = some (id, v) ∧ resolvePath s3 = some p ∧
      p.map (·.1) = bestPath conn (build conn F init) len ∧
      IsChain F bos (p.map (·.1)) ∧ lastEnd bos (p.map (·.1)) = len ∧ chainCost conn bos (p.map (·.1)) = v ∧
      (p.map (·.1)).Pairwise (fun a b => a.e < b.e) ∧
      ∀ (q₁ q₂ : List (Node × Option Int)) (n : Node) (t : Option Int), p = q₁ ++ (n, t) :: q₂ →
        t = some (prefixCost conn bos (q₁.map (·.1) ++ [n])) := by
  have hF' : ∀ n ∈ F, n.b ≤ len ∧ n.e ≤ len := fun n hn => ⟨by have := hwf n hn; have := hF n hn; omega, hF n hn⟩
  obtain ⟨s1, s2, _, _, hsim, h4, _, _, _, ha⟩ := analyse_spec conn s len F hF'
  have hfin := fin_build conn F hwf (ordered_of_sorted F hwf hs)
  cases hv : eosCost conn (build conn F init) len with
  | none => rw [hv, h] at ha; cases ha
  | some v =>
    rw [hv, h] at ha
    simp only [Option.some.injEq, Prod.mk.injEq, and_true] at ha
    obtain ⟨p, r1, r2, r3⟩ := resolve_spec conn hsim hfin hlen v hv
    rw [← ha] at r1
    obtain ⟨c1, c2, c3, _⟩ := viterbi_path conn F hwf hs len v hv
    refine ⟨_, v, p, by rw [ha], r1, r2, by rw [r2]; exact c1, by rw [r2]; exact c2, by rw [r2]; exact c3,
      by rw [r2]; exact (chain_ends F hwf _ bos c1).2.1, ?_⟩
    intro q₁ q₂ n t hp
    have hb : bestPath conn (build conn F init) len = q₁.map (·.1) ++ n :: q₂.map (·.1) := by
      rw [← r2, hp]; simp
    have hmem : (n, t) ∈ build conn F init n.e := r3 (n, t) (by rw [hp]; simp)
    exact (total_prefix conn F hwf hs len v hv _ _ n hb).2 t hmem

/-- `path_contiguous` for the recycled lattice: the nodes `resolve_best_path` reads through the stored
back-pointers start at 0, abut, end at `len`; the byte ends read from any non-decreasing character→byte
table form a non-decreasing chain ending at `tab[len]`, every access in range (what
`C01.lattice_tokens_partition` consumes — so the partition theorem holds on recycled tokenizers too). -/
theorem recycled_path_contiguous (s : Lat) (len : Nat) (hlen : 0 < len) (F : List Node) (hwf : WF F)
    (hs : F.Pairwise (fun a b => a.b ≤ b.b)) (hF : ∀ n ∈ F, n.e ≤ len)
    (s3 : Lat) (h : analyse conn s len F = some (s3, true))
    (tab : List Nat) (htab : tab.Pairwise (· ≤ ·)) (hlt : len < tab.length) :
    ∃ p, resolvePath s3 = some p ∧ IsChain F bos (p.map (·.1)) ∧ lastEnd bos (p.map (·.1)) = len ∧
      (((tab[0]?).getD 0) :: (p.map (·.1)).map (fun n => (tab[n.e]?).getD 0)).Pairwise (· ≤ ·) ∧
      (((tab[0]?).getD 0) :: (p.map (·.1)).map (fun n => (tab[n.e]?).getD 0)).getLast (by simp) = (tab[len]?).getD 0 ∧
      ∀ x ∈ p, x.1.e < tab.length := by
  obtain ⟨_, v, p, _, r1, r2, c1, c2, _, _, _⟩ := recycled_path conn s len hlen F hwf hs hF s3 h
  obtain ⟨d1, d2, d3⟩ := chain_cuts F hwf tab htab (p.map (·.1)) c1 (by rw [c2]; exact hlt)
  refine ⟨p, r1, c1, c2, by simpa [bos] using d1, ?_, fun x hx => d3 x.1 (List.mem_map.mpr ⟨x, hx, rfl⟩)⟩
  rw [c2] at d2; simpa [bos] using d2

/-- non-vacuity of the recycled theorems: a DIRTY previous state — five allocated rows, `size = 5`, a stale
`eos`, a stale cheap node (total -400) in row 3 and a disconnected one in row 4, i.e. beyond the new `size` —
then the five-candidate text of three characters used above.  The analysis succeeds with the cost `-1` of the
functional model, the back-pointer stored for EOS is `(3, 1)`, the walk over the stored `indices` visits
`(2, 0), (3, 1)`, `resolve_best_path` returns the optimal chain with the stored totals `-7, -4`, row 4 is
empty afterwards; the candidates lie inside the text and the text is non-empty. -/
example :
    let conn : Nat → Nat → Int := fun a b => (3 : Int) * a - 2 * b
    let F : List Node := [⟨0, 1, 1, 1, 5⟩, ⟨0, 2, 2, 2, -3⟩, ⟨1, 2, 3, 3, 4⟩, ⟨1, 3, 1, 2, 7⟩, ⟨2, 3, 2, 1, 1⟩]
    let s : Lat := ⟨[[⟨0, some 0⟩], [], [], [⟨7, some (-400)⟩], [⟨1, none⟩]],
      [[], [], [], [⟨1, 3, 0, 7, -500⟩], [⟨2, 4, 1, 1, 5⟩]], [[], [], [], [(1, 0)], [(65535, 4294967295)]], some ((3, 0), -400), 5⟩
    (∀ n ∈ F, n.b ≤ 3 ∧ n.e ≤ 3) ∧ 0 < 3 ∧
    (analyse conn s 3 F).map (fun x => (x.2, x.1.eos, x.1.size)) = some (true, some ((3, 1), -1), 4) ∧
    (analyse conn s 3 F).bind (fun x => fillTopPath x.1) = some [(2, 0), (3, 1)] ∧
    (analyse conn s 3 F).bind (fun x => resolvePath x.1) =
      some [(⟨0, 2, 2, 2, -3⟩, some (-7)), (⟨2, 3, 2, 1, 1⟩, some (-4))] ∧
    (analyse conn s 3 F).map (fun x => (x.1.ends[4]?, x.1.full[4]?, x.1.idx[4]?)) = some (some [], some [], some []) ∧
    -- a disconnected text on the same dirty state: `Err(EosBosDisconnect)`, `eos` reset to `None`
    (analyse conn s 3 [⟨0, 1, 1, 1, 5⟩]).map (fun x => (x.2, x.1.eos)) = some (false, none) := by
  refine ⟨by decide, by decide, by decide, by decide, by decide, by decide, by decide⟩

/-! ## unbounded costs vs the `i32` accumulator: the side condition under which they coincide -/

/-- **C02 ∘ C03.**  The model above keeps totals in `Int` and writes `none` for the sentinel `i32::MAX`;
`lattice.rs` adds in `i32` (`(total + connect_cost) + node_cost`, panic on overflow in a debug build) and
compares with the sentinel.  C03's model `Total.buildAll addI32 I32_MAX` does exactly that.  Under the side
condition of `C03.cost_no_overflow_partial` — every connection cost in `i16` (`I16Conn`), every candidate
non-empty, inside the text and with an `i16` word cost (`NodeOk`), at most **32767 characters** — the two
models coincide: every `i32` insert succeeds, on every row the `i32` lattice holds the same nodes with the
totals `enc` of the unbounded model (`none` ↦ `i32::MAX`), every connected total of a node ending at `e` lies
within `± 65536·e` (so `|total| ≤ 2^31 - 65536` and it is never mistaken for the sentinel), and `connect_eos`
returns `EosBosDisconnect` / the cost and back-pointer that `argmin` gives on the unbounded rows.  Hence all
optimality theorems of this file hold for the `i32` code within these limits; beyond them D7 (C03) applies. -/
theorem i32_lattice_eq_model (hconn : Total.I16Conn conn) (len : Nat) (hlen : len ≤ 32767) (F : List Node)
    (hF : ∀ n ∈ F, Total.NodeOk len n) :
    ∃ rows ents, Total.buildAll Total.addI32 Total.I32_MAX conn F (Total.reset len) [] = .ok (rows, ents) ∧
      (∀ e, e ≤ len → ∃ row, rows[e]? = some row ∧
        row.map (fun x => (x.node, x.total)) = (build conn F init e).map (fun ent => (ent.1, enc ent.2))) ∧
      (∀ e, e ≤ len → ∀ ent ∈ build conn F init e, ∀ v, ent.2 = some v →
        -((e : Int) * 65536) ≤ v ∧ v ≤ (e : Int) * 65536 ∧ v < 2147483647) ∧
      Total.connectEos Total.addI32 Total.I32_MAX conn rows len =
        (match argmin conn (build conn F init len) (eosNode len) with
         | none => .err "Disconnect"
         | some (j, v) => .ok (v, len, Total.asU32 j)) := by
  obtain ⟨rows, ents, h1, h2, h3⟩ := buildAll_rep conn hconn len hlen F (Total.reset len) init []
    (Total.reset_inv len) (reset_rep len) hF
  refine ⟨rows, ents, h1, ?_, ?_, connectEos_rep conn hconn len hlen rows _ h2 h3⟩
  · intro e he
    obtain ⟨row, g, rep⟩ := h3 e he
    exact ⟨row, g, rep.1⟩
  · intro e he ent hent v hv
    obtain ⟨row, g, rep⟩ := h3 e he
    have hne := rep.2 ent hent v hv
    have hm : (ent.1, enc ent.2) ∈ row.map (fun x => (x.node, x.total)) := by
      rw [rep.1]; exact List.mem_map.mpr ⟨ent, hent, rfl⟩
    obtain ⟨x, hx, hxe⟩ := List.mem_map.mp hm
    simp only [Prod.mk.injEq, hv, enc] at hxe
    have hb := h2.2 e row g x hx
    rw [hxe.2] at hb
    have hb' := hb.resolve_left hne
    have : (e : Int) ≤ 32767 := by omega
    omega

/-- non-vacuity of the side condition (and the limit is tight for the invariant: see `C03.cost_overflow_counterexample`) -/
example : Total.I16Conn (fun _ _ => 32767) ∧ (2 : Nat) ≤ 32767 ∧
    (∀ n ∈ [(⟨0, 1, 0, 0, 32767⟩ : Node), ⟨1, 2, 0, 0, -32768⟩], Total.NodeOk 2 n) ∧
    eosCost (fun _ _ => 32767) (build (fun _ _ => 32767) [⟨0, 1, 0, 0, 32767⟩, ⟨1, 2, 0, 0, -32768⟩] init) 2 = some 98300 := by
  refine ⟨fun _ _ => by constructor <;> simp, by decide, ?_, by decide⟩
  intro n hn
  simp only [List.mem_cons, List.not_mem_nil, or_false] at hn
  rcases hn with rfl | rfl <;> simp [Total.NodeOk]

/-- **the path `fill_top_path` returns costs the minimum `connect_eos` stored** - the executed fixed-width model
(`Model/Total.lean`: checked `i32` additions, `as u16` end boundary, `as u32` row index of the back-pointer).  For candidates
inside a text of at most 65535 characters, fewer than 2^32 of them ending at any one boundary: when `build_lattice` and
`connect_eos` succeed with minimum `c` and back-pointer `(pe, pi)`, the walk from `(pe, pi)` returns a path (entries in text
order) that is a COST CHAIN from BOS - every stored total is the previous total + connection cost + word cost - and `c` is
the sum of connection and word costs recomputed along that path (BOS connection included) plus the connection to EOS.
This is the clause the `u16` row index of the pinned tree broke (ROW-WRAP, repaired by 9fb3dd8): the totals were right, the
back-pointer named another entry of the row (`C03.row_index_u16_wraps_counterexample`); the proof uses the row bound exactly
where the stored index has to be the index (`Total.insert_costInv`, `asU32_id`). -/
theorem chosen_path_cost_is_stored_minimum (len : Nat) (hlen : len ≤ 65535) (hlen0 : 1 ≤ len) (nodes : List Node)
    (hnodes : ∀ n ∈ nodes, n.b < n.e ∧ n.e ≤ len)
    (hcnt : ∀ e, nodes.countP (fun n => n.e == e) ≤ 4294967295)
    (rows : Total.Rows) (ents : List Total.Entry)
    (hb : Total.buildAll Total.addI32 Total.I32_MAX conn nodes (Total.reset len) [] = .ok (rows, ents))
    (c : Int) (pe pi : Nat) (he : Total.connectEos Total.addI32 Total.I32_MAX conn rows len = .ok (c, pe, pi)) :
    ∃ path, Total.topPath rows (len + 1) (pe, pi) [] = .ok path ∧ Total.ChainFrom conn bos.r 0 path ∧
      c = Total.pathCostFrom conn bos.r path + conn (Total.chainEnd bos.r 0 path).1 0 :=
  Total.chosen_path_cost conn len hlen nodes hnodes hlen0 hcnt rows ents hb c pe pi he

/-- **ROW-WRAP end to end (the pinned tree's `u16` row index, kernel-checked on a small-width instance).**  `Total.buildAllW W`
/ `connectEosW W` are the lattice of `Model/Total.lean` with the back-pointer's row index stored as `i % W`; for `W = 2^32` they
ARE the model (`Total.buildAllW_u32`, `connectEosW_u32`).  A text of two characters, five candidates over the first character
(costs 50, 40, 30, 20, 10) and one over the second: with width 4 (standing for 65536) the lattice stores the right minimum 10
and `fill_top_path` returns the chain through the FIRST candidate, whose recomputed cost is 50 - the returned path is not a
cheapest path, `chosen_path_cost_is_stored_minimum` fails without its row bound; with the width of the tree both are 10.
(At full size the harness ran it on the real tokenizer: 16400 letters, 65600 candidates in one row; directed case `row-wrap`.) -/
theorem row_wrap_returns_dearer_path_counterexample :
    Total.wrapOutcome 4 = some (10, 50) ∧ Total.wrapOutcome 4294967296 = some (10, 10) ∧
    (∀ ns rows acc, Total.buildAllW 4294967296 Total.addI32 Total.I32_MAX conn ns rows acc =
      Total.buildAll Total.addI32 Total.I32_MAX conn ns rows acc) ∧
    (∀ rows k, Total.connectEosW 4294967296 Total.addI32 Total.I32_MAX conn rows k =
      Total.connectEos Total.addI32 Total.I32_MAX conn rows k) :=
  ⟨Total.row_wrap_returns_dearer_path.1, Total.row_wrap_returns_dearer_path.2,
    Total.buildAllW_u32 Total.addI32 Total.I32_MAX conn, Total.connectEosW_u32 Total.addI32 Total.I32_MAX conn⟩

/-- **C02 for the executed fixed-width lattice: the returned path is a cheapest path.**  Under the side condition of
`i32_lattice_eq_model` (connection costs and word costs in `i16`, candidates non-empty and inside a text of 1..32767
characters) and fewer than 2^32 candidates per boundary: if the unbounded model's optimum is `v`
(`eosCost … = some v`: the minimum over ALL chains of candidates from BOS to EOS, `viterbi_min` / `eos_attained` /
`no_cheaper_covering`), then the `i32`/`u32` lattice builds, `connect_eos` reports `v`, and `fill_top_path` returns a path
whose cost RECOMPUTED from word costs and connection costs (BOS and EOS connection included) is `v`. -/
theorem chosen_path_is_cheapest (hconn : Total.I16Conn conn) (len : Nat) (hlen : len ≤ 32767) (hlen0 : 1 ≤ len)
    (F : List Node) (hF : ∀ n ∈ F, Total.NodeOk len n)
    (hcnt : ∀ e, F.countP (fun n => n.e == e) ≤ 4294967295)
    (v : Int) (hopt : eosCost conn (build conn F init) len = some v) :
    ∃ rows ents pe pi path,
      Total.buildAll Total.addI32 Total.I32_MAX conn F (Total.reset len) [] = .ok (rows, ents) ∧
      Total.connectEos Total.addI32 Total.I32_MAX conn rows len = .ok (v, pe, pi) ∧
      Total.topPath rows (len + 1) (pe, pi) [] = .ok path ∧ Total.ChainFrom conn bos.r 0 path ∧
      v = Total.pathCostFrom conn bos.r path + conn (Total.chainEnd bos.r 0 path).1 0 := by
  obtain ⟨rows, ents, h1, _, _, h4⟩ := i32_lattice_eq_model conn hconn len hlen F hF
  obtain ⟨j, hj⟩ := ((argmin_spec conn (build conn F init len) (eosNode len) v).1).mpr hopt
  rw [hj] at h4
  obtain ⟨path, p1, p2, p3⟩ := chosen_path_cost_is_stored_minimum conn len (by omega) hlen0 F
    (fun n hn => ⟨(hF n hn).1, (hF n hn).2.1⟩) hcnt rows ents h1 v len (Total.asU32 j) h4
  exact ⟨rows, ents, len, Total.asU32 j, path, h1, h4, p1, p2, p3⟩

/-- non-vacuity of `chosen_path_is_cheapest`: two positions, three candidates; the optimum -20 is the two-word chain -/
example : eosCost (fun _ _ => 0) (build (fun _ _ => 0) [⟨0, 1, 0, 0, -10⟩, ⟨0, 2, 0, 0, -5⟩, ⟨1, 2, 0, 0, -10⟩] init) 2 = some (-20) ∧
    (∀ n ∈ [(⟨0, 1, 0, 0, -10⟩ : Node), ⟨0, 2, 0, 0, -5⟩, ⟨1, 2, 0, 0, -10⟩], Total.NodeOk 2 n) ∧
    (∀ e, [(⟨0, 1, 0, 0, -10⟩ : Node), ⟨0, 2, 0, 0, -5⟩, ⟨1, 2, 0, 0, -10⟩].countP (fun n => n.e == e) ≤ 4294967295) := by
  refine ⟨by decide, ?_, ?_⟩
  · intro n hn
    simp only [List.mem_cons, List.not_mem_nil, or_false] at hn
    rcases hn with rfl | rfl | rfl <;> simp [Total.NodeOk]
  · intro e
    exact Nat.le_trans List.countP_le_length (by decide)

/-- non-vacuity: three positions, five overlapping candidates, a negative word cost and negative connection costs -/
example :
    let conn : Nat → Nat → Int := fun a b => (3 : Int) * a - 2 * b
    let F : List Node := [⟨0, 1, 1, 1, 5⟩, ⟨0, 2, 2, 2, -3⟩, ⟨1, 2, 3, 3, 4⟩, ⟨1, 3, 1, 2, 7⟩, ⟨2, 3, 2, 1, 1⟩]
    WF F ∧ F.Pairwise (fun a b => a.b ≤ b.b) ∧
    eosCost conn (build conn F init) 3 = some (-1) ∧
    chainCost conn bos [⟨0, 2, 2, 2, -3⟩, ⟨2, 3, 2, 1, 1⟩] = -1 := by
  refine ⟨by intro n hn; simp at hn; rcases hn with rfl | rfl | rfl | rfl | rfl <;> decide, by decide, by decide, by decide⟩

/-- non-vacuity of the path theorems on the same lattice (executed vector-of-rows version): the
back-pointer walk returns the optimal chain `[0..2, 2..3]`; the totals stored along it are the prefix
sums `(0 - 4) - 3 = -7` and `-7 + (6 - 4) + 1 = -4`; with the EOS connection `3 - 0` the path costs
`-1`; and the tie rule of `argmin` picks the FIRST minimal connected entry -/
example :
    let conn : Nat → Nat → Int := fun a b => (3 : Int) * a - 2 * b
    let F : List Node := [⟨0, 1, 1, 1, 5⟩, ⟨0, 2, 2, 2, -3⟩, ⟨1, 2, 3, 3, 4⟩, ⟨1, 3, 1, 2, 7⟩, ⟨2, 3, 2, 1, 1⟩]
    bestPath conn (rowAt (buildL conn F initL)) 3 = [⟨0, 2, 2, 2, -3⟩, ⟨2, 3, 2, 1, 1⟩] ∧
    prefixCost conn bos [⟨0, 2, 2, 2, -3⟩] = -7 ∧
    prefixCost conn bos [⟨0, 2, 2, 2, -3⟩, ⟨2, 3, 2, 1, 1⟩] = -4 ∧
    rowAt (buildL conn F initL) 2 = [(⟨0, 2, 2, 2, -3⟩, some (-7)), (⟨1, 2, 3, 3, 4⟩, some 4)] ∧
    -- ties: two entries offering the same cost, the first one is the back-pointer
    argmin (fun _ _ => 0) [(⟨0, 1, 0, 0, 0⟩, some 5), (⟨0, 1, 1, 1, 0⟩, none), (⟨0, 1, 2, 2, 0⟩, some 3),
      (⟨0, 1, 3, 3, 0⟩, some 3)] ⟨1, 2, 0, 0, 1⟩ = some (2, 4) := by
  refine ⟨by decide, by decide, by decide, by decide, by decide⟩

/-- non-vacuity of `path_contiguous`: a character→byte table of a three-character text (1+3+2 bytes) -/
example : [0, 1, 4, 6].Pairwise (· ≤ ·) ∧ 3 < [0, 1, 4, 6].length ∧
    ([⟨0, 2, 2, 2, -3⟩, ⟨2, 3, 2, 1, 1⟩] : List Node).map (fun n => ([0, 1, 4, 6][n.e]?).getD 0) = [4, 6] := by
  refine ⟨by decide, by decide, by decide⟩


/-! ## Third round: the position loop of `build_lattice` with the DICTIONARY inside (`Model/LatticeLex.lean`)

`Vit.buildLattice conn x s` is `LatticeBuilder::build_lattice` on ANY previous lattice state `s`: `reset`, the loop over the
character positions (`has_previous_node`, `LexiconSet::lookup`, the `can_bow` filter, `get_word_param`, `ch_idx`, one
`insert` per word, then the providers' nodes, the early `Err(EosBosDisconnect)`), `connect_eos`.  `Vit.collect x ps []` is
the same candidates as a list.  The theorems below say that the loop inserts exactly that list, that the list is exactly
"every dictionary hit that may end where it ends + every provider node, at every position a previous node ends at", and
that the reported `eos` cost is minimal over ALL sequences of such words — the dictionary is inside the statement. -/

/-- **The stateful position loop equals the functional candidate list, on every previous lattice.**  Whatever state `s`
the recycled `Lattice` was left in, if the candidate list of the text is `F` (`fin = true`: the loop of `build_lattice`
ran over all positions; `fin = false`: it returned `Err(EosBosDisconnect)` at a reachable position where neither the
lexicon nor the providers created a word) and every node lies inside the text, then: `reset` succeeds (`s1`), the
position loop on `s1` — which decides `has_previous_node` by READING the recycled `ends` vector — performs exactly the
inserts `buildS conn F` and panics nowhere (`s2`), `eos` is still `None` after the loop, and `build_lattice` as a whole is
`reset` + those inserts + `connect_eos` (`analyse`, the subject of the `recycled_*` theorems) when the loop ran to its
end, and `(s2, Err)` without touching `eos` otherwise. -/
theorem builder_eq_candidate_list (x : BIn) (s : Lat) (ps : List (Nat × Nat)) (F : List Node) (fin : Bool)
    (hps : positions x = some ps) (hpos : ∀ p ∈ ps, p.1 ≤ x.nchars)
    (hc : collect x ps [] = some (F, fin)) (hF : ∀ n ∈ F, n.b ≤ x.nchars ∧ n.e ≤ x.nchars) :
    ∃ s1 s2, reset s x.nchars = some s1 ∧ buildS conn F s1 = some s2 ∧ buildLatS conn x ps s1 = some (s2, fin) ∧
      s2.eos = none ∧
      buildLattice conn x s = (if fin then analyse conn s x.nchars F else some (s2, false)) := by
  obtain ⟨s1, r1, r2, r3, _⟩ := reset_sim s x.nchars
  obtain ⟨rest, s2, e1, e2, e3, _, e5⟩ := buildLatS_collect conn x x.nchars ps [] s1 F fin hpos r2 hc hF
  simp only [List.nil_append] at e1
  subst e1
  refine ⟨s1, s2, r1, e3, e2, by rw [e5, r3], ?_⟩
  simp only [buildLattice, r1, hps, e2, analyse, e3]
  cases fin <;> rfl

/-- **The lattice holds every dictionary/provider candidate of every reachable position, and nothing else.**
`F` = the nodes `build_lattice` inserted (loop ran to its end), each of positive length.  (1) at every character
position `o` (byte `bo`) at which some inserted node ends (or `o = 0`) the look-up did not panic and everything it
produced (`candsAt`: dictionary words first, then the providers' nodes) is in the lattice; (2) spelled out: every
entry `(word id, end)` of `LexiconSet::lookup(bytes, bo)` — by `lookup_is_c04_spec` exactly the indexed rows of all
dictionaries whose surface is a prefix of the text at `bo` — that ends at the text end or where a word may begin
(`can_bow`) is in the lattice as the node `(o, ch_idx(end), left as u16, right as u16, cost)` of ITS row
(`get_word_param`), and so is every node the providers pushed at `o`; (3) every node of the lattice is such a
candidate of some position; (4) nodes are inserted in non-decreasing order of begin (what `WF`/`Pairwise` in the
`recycled_*` theorems ask for). -/
theorem lattice_has_every_candidate (x : BIn) (ps : List (Nat × Nat)) (F : List Node)
    (hps : positions x = some ps) (hc : collect x ps [] = some (F, true)) (hwf : WF F) :
    (∀ o bo, (o, bo) ∈ ps → reachable F o = true → ∃ new, candsAt x o bo = some new ∧ ∀ n ∈ new, n ∈ F) ∧
    (∀ o bo, (o, bo) ∈ ps → reachable F o = true →
      (∀ w e, (w, e) ∈ dictLookup x bo → (x.text.length ≤ e ∨ x.bow[e]? = some true) →
        ∃ p ec, wordParam x w = some p ∧ x.b2c[e]? = some ec ∧
          (⟨o, ec, toU16 p.left, toU16 p.right, p.cost⟩ : Node) ∈ F) ∧
      ∀ n ∈ x.oov, n.b = o → n ∈ F) ∧
    (∀ n ∈ F, ∃ o bo new, (o, bo) ∈ ps ∧ candsAt x o bo = some new ∧ n ∈ new) ∧
    F.Pairwise (fun a b => a.b ≤ b.b) := by
  obtain ⟨r, e1, e2, e3, e4⟩ := collect_spec x ps [] F (positions_sorted x ps hps) hc hwf
  simp only [List.nil_append] at e1
  subst e1
  refine ⟨e3, ?_, e2, e4⟩
  intro o bo hm hre
  obtain ⟨new, c1, c2⟩ := e3 o bo hm hre
  refine ⟨?_, fun n hn hb => c2 n (candsAt_oov x o bo new c1 n hn hb)⟩
  intro w e hw hb
  obtain ⟨p, ec, g1, g2, g3⟩ := candsAt_dict x o bo new c1 w e hw hb
  exact ⟨p, ec, g1, g2, c2 _ g3⟩

/-- **Optimality over the dictionary.**  For every previous lattice state: `build_lattice` (with its own look-ups)
does not panic; it returns `Err(EosBosDisconnect)` iff NO sequence of dictionary/provider candidates (`Cand`: a hit of
`LexiconSet::lookup` at the position that passes `can_bow`, with the parameters of its row, or a provider node of
that position) starting at 0, each word beginning where the previous ended, reaches the end of the text; otherwise
`eos = Some((len, j), v)` where `v` is the cost of such a sequence (word costs + connection costs, BOS and EOS
included) and NO such sequence is cheaper.  The quantifier ranges over sequences of words of the dictionaries and
providers, not over rows of the lattice. -/
theorem optimal_over_dictionary (x : BIn) (s : Lat) (ps : List (Nat × Nat)) (F : List Node)
    (hps : positions x = some ps) (hpos : ∀ p ∈ ps, p.1 ≤ x.nchars)
    (hc : collect x ps [] = some (F, true)) (hwf : WF F) (hin : ∀ n ∈ F, n.e ≤ x.nchars) :
    ∃ s3 b, buildLattice conn x s = some (s3, b) ∧
      (b = false ↔ ¬ ∃ ws, CandChain x ps bos ws ∧ lastEnd bos ws = x.nchars) ∧
      (b = false → s3.eos = none) ∧
      (b = true → ∃ j v, s3.eos = some ((x.nchars, j), v) ∧
        (∃ ws, CandChain x ps bos ws ∧ lastEnd bos ws = x.nchars ∧ chainCost conn bos ws = v) ∧
        ∀ ws, CandChain x ps bos ws → lastEnd bos ws = x.nchars → v ≤ chainCost conn bos ws) := by
  have hF : ∀ n ∈ F, n.b ≤ x.nchars ∧ n.e ≤ x.nchars :=
    fun n hn => ⟨by have := hwf n hn; have := hin n hn; omega, hin n hn⟩
  obtain ⟨_, _, _, _, _, _, hb⟩ := builder_eq_candidate_list conn x s ps F true hps hpos hc hF
  simp only [if_true] at hb
  obtain ⟨b1, _, b3, b4⟩ := lattice_has_every_candidate x ps F hps hc hwf
  have to : ∀ ws, CandChain x ps bos ws → IsChain F bos ws :=
    fun ws h => candChain_isChain x ps F b1 ws bos (Or.inl rfl) h
  have from_ : ∀ ws, IsChain F bos ws → CandChain x ps bos ws :=
    fun ws h => isChain_candChain x ps F b3 ws bos h
  obtain ⟨s3, b, r1, _, r3, r4, r5⟩ := recycled_optimal conn s x.nchars F hwf b4 hin
  refine ⟨s3, b, by rw [hb, r1], ?_, r4, ?_⟩
  · rw [r3]
    constructor
    · rintro h ⟨ws, w1, w2⟩; exact h ⟨ws, to ws w1, w2⟩
    · rintro h ⟨ws, w1, w2⟩; exact h ⟨ws, from_ ws w1, w2⟩
  · intro hbt
    obtain ⟨j, v, q1, _, ⟨ws, w1, w2, w3⟩, q4⟩ := r5 hbt
    exact ⟨j, v, q1, ⟨ws, from_ ws w1, w2, w3⟩, fun ws' h1 h2 => q4 ws' (to ws' h1) h2⟩

/-- **The early exit leaves `eos = None`.**  If at some reachable position neither the lexicon nor the providers create
a word (`collect … = some (F, false)`), `build_lattice` on any previous state returns `Err(EosBosDisconnect)` from
inside the loop: the nodes inserted so far are in the lattice, `connect_eos` is never called and `eos` is `None` — not
the `eos` of the previous text. -/
theorem early_exit_leaves_eos_none (x : BIn) (s : Lat) (ps : List (Nat × Nat)) (F : List Node)
    (hps : positions x = some ps) (hpos : ∀ p ∈ ps, p.1 ≤ x.nchars)
    (hc : collect x ps [] = some (F, false)) (hF : ∀ n ∈ F, n.b ≤ x.nchars ∧ n.e ≤ x.nchars) :
    ∃ s2, buildLattice conn x s = some (s2, false) ∧ s2.eos = none ∧
      (reset s x.nchars).bind (buildS conn F) = some s2 := by
  obtain ⟨s1, s2, a1, a2, _, a4, a5⟩ := builder_eq_candidate_list conn x s ps F false hps hpos hc hF
  exact ⟨s2, by simpa using a5, a4, by simp [a1, a2]⟩

/-- **Composition with C04: the look-up inside the builder model is what C04 proves of the real trie walk.**  For every
stack of source row lists compiled into lexicons (the hypotheses of `C04.lookup_spec`, evaluated by the driver for
every lexicon of a run) whose `(surface, left id)` columns are the dictionaries of the case, every text and every
byte offset: `LexiconSet::lookup` — double-array traversal, word-id table, dictionary stamping — returns exactly
`dictLookup x off`, the list `build_lattice` iterates over in `buildLattice`. -/
theorem lookup_is_c04_spec (x : BIn) (ws : List (List Trie.Entry × Trie.Lex)) (set : List Trie.Lex)
    (hset : Trie.mkSet (ws.map (·.2)) = some set) (hcmp : ∀ w ∈ ws, Trie.CompiledRaw w.1 w.2)
    (hs : ∀ w ∈ ws, w.1.all Trie.surfaceOk = true)
    (hsrc : ws.map (·.1) = x.dicts.map (·.map toEntry)) (hn : ∀ b ∈ x.text, b < 256) (off : Nat) :
    Trie.setLookup true set x.text off = some (dictLookup x off) := by
  rw [dictLookup_eq_spec, ← hsrc]
  exact C04.lookup_spec ws set hset hcmp hs x.text off hn

/-- Non-vacuity of the hypotheses of the third-round theorems, on the text "abc" (three one-byte characters; a word may
begin at bytes 0 and 1 but not at byte 2).  System dictionary: "a", "ab", "abc", "b", "c" and a row "bc" with
`left = -1` (not indexed); user dictionary: a homograph "a" with the same right id and another left id; the providers
pushed one node (1, 3).  The loop inserts, in this order: the USER "a" (later dictionaries first), the system "a", "abc"
("ab" ends at byte 2 where no word may begin: filtered), then at position 1 only the provider node ("b" ends at byte 2,
"bc" is not indexed); position 2 has no previous node and is skipped, so "c" is never looked at.  All hypotheses of
`builder_eq_candidate_list`, `lattice_has_every_candidate`, `optimal_over_dictionary` hold; `build_lattice` on a new
and on a dirty recycled lattice reports the same `eos`; without the provider node the loop returns
`Err(EosBosDisconnect)` at position 1 and `eos` is `None`. -/
example :
    let x : BIn :=
      { text := [97, 98, 99], nchars := 3, c2b := [0, 1, 2, 3], b2c := [0, 1, 2, 3], bow := [true, true, false],
        dicts := [[⟨[97], 1, 1, 100⟩, ⟨[97, 98], 2, 2, 50⟩, ⟨[97, 98, 99], 3, 3, 700⟩, ⟨[98], 4, 4, 100⟩,
                   ⟨[99], 5, 5, 100⟩, ⟨[98, 99], -1, 6, 10⟩],
                  [⟨[97], 9, 1, 80⟩]],
        oov := [⟨1, 3, 7, 7, 500⟩] }
    let ps : List (Nat × Nat) := [(0, 0), (1, 1), (2, 2)]
    let F : List Node := [⟨0, 1, 9, 1, 80⟩, ⟨0, 1, 1, 1, 100⟩, ⟨0, 3, 3, 3, 700⟩, ⟨1, 3, 7, 7, 500⟩]
    let conn : Nat → Nat → Int := fun a b => if a == 0 && b == 9 then 1000 else 0
    let dirty : Lat := ⟨[[⟨0, some 0⟩], [], [], [⟨7, some (-400)⟩], [⟨1, none⟩]],
      [[], [], [], [⟨1, 3, 0, 7, -500⟩], [⟨2, 4, 1, 1, 5⟩]], [[], [], [], [(1, 0)], [(65535, 4294967295)]], some ((3, 0), -400), 5⟩
    positions x = some ps ∧ (∀ p ∈ ps, p.1 ≤ x.nchars) ∧
    dictLookup x 0 = [(268435456, 1), (0, 1), (1, 2), (2, 3)] ∧ dictLookup x 1 = [(3, 2)] ∧
    candsAt x 1 1 = some [⟨1, 3, 7, 7, 500⟩] ∧
    collect x ps [] = some (F, true) ∧ (∀ n ∈ F, n.b < n.e) ∧ (∀ n ∈ F, n.b ≤ x.nchars ∧ n.e ≤ x.nchars) ∧
    (buildLattice conn x Lat.empty).map (fun r => (r.2, r.1.eos)) = some (true, some ((3, 1), 600)) ∧
    (buildLattice conn x dirty).map (fun r => (r.2, r.1.eos)) = some (true, some ((3, 1), 600)) ∧
    -- no provider node: nothing is created at the reachable position 1
    collect { x with oov := [] } ps [] = some ([⟨0, 1, 9, 1, 80⟩, ⟨0, 1, 1, 1, 100⟩, ⟨0, 3, 3, 3, 700⟩], false) ∧
    (buildLattice conn { x with oov := [] } dirty).map (fun r => (r.2, r.1.eos, r.1.full[1]?)) =
      some (false, none, some [⟨0, 1, 9, 1, 80⟩, ⟨0, 1, 1, 1, 100⟩]) := by
  refine ⟨by decide, by decide, by decide, by decide, by decide, by decide, by decide, by decide, by decide, by decide,
    by decide, by decide⟩

end C02
