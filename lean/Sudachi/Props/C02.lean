import Sudachi.Proofs.Lattice
/-!
# C02 — The chosen segmentation is a minimum-cost lattice path (Viterbi optimality)

Model: `Vit.connect`/`insert`/`build` (`lattice.rs: connect_node, insert`; `build_lattice` inserts
candidates position by position), `Vit.eosCost` (`connect_eos`).  `conn a b` is
`matrix.cost(left_word.right_id = a, right_word.left_id = b)`; costs are unbounded integers here
(the `i32` accumulator is C03's subject).  `F` is the list of candidate nodes in insertion order.

Hypotheses, both guaranteed by `build_lattice`: every candidate is non-empty (`WF`: `b < e`) and
candidates are inserted in non-decreasing order of their begin position.
A *covering sequence* is `ws` with `IsChain F bos ws` (every word a candidate, each beginning where
the previous ended, the first at 0) and `lastEnd bos ws = len`; its cost `chainCost conn bos ws`
is the sum of word costs plus connection costs including the BOS and EOS connections.
-/
namespace C02
open Vit

variable (conn : Nat → Nat → Int)

/-- every stored cumulative cost is the minimum over all candidate chains BOS → … → that node
(`none` iff no chain reaches it), and every candidate is stored in the row of its end -/
theorem viterbi_min (F : List Node) (hwf : WF F) (hs : F.Pairwise (fun a b => a.b ≤ b.b)) :
    (∀ e, ∀ ent ∈ build conn F init e, Opt conn F ent.1 ent.2) ∧
    (∀ m ∈ F, ∃ t, (m, t) ∈ build conn F init m.e) :=
  Vit.viterbi_min conn F hwf (ordered_of_sorted F hwf hs)

/-- **Optimality**: the final path cost is no larger than the cost of any sequence of candidate
words covering the text, sentence-start and sentence-end connections included -/
theorem no_cheaper_covering (F : List Node) (hwf : WF F) (hs : F.Pairwise (fun a b => a.b ≤ b.b))
    (len : Nat) (ws : List Node) (hc : IsChain F bos ws) (hl : lastEnd bos ws = len) :
    ∃ v, eosCost conn (build conn F init) len = some v ∧ v ≤ chainCost conn bos ws := by
  have h := eos_opt conn F hwf (ordered_of_sorted F hwf hs) len
  have hcomp : Complete conn F len (chainCost conn bos ws) := by
    have := chain_complete conn F ws bos 0 Reach.bos hc
    rw [hl] at this
    simpa using this
  cases hres : eosCost conn (build conn F init) len with
  | none => rw [hres] at h; exact absurd hcomp (h _)
  | some v => rw [hres] at h; exact ⟨v, rfl, h.2 _ hcomp⟩

/-- **Attainment**: the final path cost is the cost of some covering sequence of candidates -/
theorem eos_attained (F : List Node) (hwf : WF F) (hs : F.Pairwise (fun a b => a.b ≤ b.b))
    (len : Nat) (v : Int) (h : eosCost conn (build conn F init) len = some v) :
    ∃ ws, IsChain F bos ws ∧ lastEnd bos ws = len ∧ chainCost conn bos ws = v := by
  have ho := eos_opt conn F hwf (ordered_of_sorted F hwf hs) len
  rw [h] at ho
  obtain ⟨⟨m, t, hm, he, hv⟩, _⟩ := ho
  obtain ⟨ws, h1, h2, h3, _, _⟩ := complete_chain conn F hm
  refine ⟨ws, h1, by rw [h2, he], ?_⟩
  have := h3 (conn m.r 0)
  omega

/-- the search reports "disconnected" exactly when no covering sequence exists -/
theorem disconnected_iff (F : List Node) (hwf : WF F) (hs : F.Pairwise (fun a b => a.b ≤ b.b)) (len : Nat) :
    eosCost conn (build conn F init) len = none ↔ ¬ ∃ ws, IsChain F bos ws ∧ lastEnd bos ws = len := by
  constructor
  · intro h ⟨ws, hc, hl⟩
    obtain ⟨v, hv, _⟩ := no_cheaper_covering conn F hwf hs len ws hc hl
    rw [h] at hv; cases hv
  · intro h
    cases hres : eosCost conn (build conn F init) len with
    | none => rfl
    | some v =>
      obtain ⟨ws, h1, h2, _⟩ := eos_attained conn F hwf hs len v hres
      exact absurd ⟨ws, h1, h2⟩ h

/-- non-vacuity: three positions, five overlapping candidates, a negative word cost and negative connection costs -/
example :
    let conn : Nat → Nat → Int := fun a b => (3 : Int) * a - 2 * b
    let F : List Node := [⟨0, 1, 1, 1, 5⟩, ⟨0, 2, 2, 2, -3⟩, ⟨1, 2, 3, 3, 4⟩, ⟨1, 3, 1, 2, 7⟩, ⟨2, 3, 2, 1, 1⟩]
    WF F ∧ F.Pairwise (fun a b => a.b ≤ b.b) ∧
    eosCost conn (build conn F init) 3 = some (-1) ∧
    chainCost conn bos [⟨0, 2, 2, 2, -3⟩, ⟨2, 3, 2, 1, 1⟩] = -1 := by
  refine ⟨by intro n hn; simp at hn; rcases hn with rfl | rfl | rfl | rfl | rfl <;> decide, by decide, by decide, by decide⟩

end C02
