import Sudachi.Proofs.Lattice
/-!
# C02 — The chosen segmentation is a minimum-cost lattice path (Viterbi optimality)

Model: `Vit.connect`/`insert`/`build` (`lattice.rs: connect_node, insert`; `build_lattice` inserts
candidates position by position), `Vit.eosCost` (`connect_eos`).  `conn a b` is
`matrix.cost(left_word.right_id = a, right_word.left_id = b)`; costs are unbounded integers here
(the `i32` accumulator is C03's subject).  `F` is the list of candidate nodes in insertion order.

Hypotheses, both guaranteed by `build_lattice`: every candidate is non-empty (`WF`: `b < e`) and
candidates are inserted in non-decreasing order of their begin position.
A *covering sequence* is `ws` with `IsChain F bos ws` (every word a candidate, each beginning where
the previous ended, the first at 0) and `lastEnd bos ws = len`; its cost `chainCost conn bos ws`
is the sum of word costs plus connection costs including the BOS and EOS connections.

Back-pointers: the model recomputes the pointer of a node by `Vit.argmin` on the finished lattice
instead of storing it at insertion (`argmin_spec`, `stored_total_is_connect`: same value);
`Vit.bestPath` follows the pointers from EOS (`fill_top_path`).  `viterbi_path`, `total_prefix`,
`path_contiguous` are the theorems about the returned chain; `*_exec` restate them for the
vector-of-rows lattice the driver executes.
-/
namespace C02
open Vit

variable (conn : Nat → Nat → Int)

/-- every stored cumulative cost is the minimum over all candidate chains BOS → … → that node
(`none` iff no chain reaches it), and every candidate is stored in the row of its end -/
theorem viterbi_min (F : List Node) (hwf : WF F) (hs : F.Pairwise (fun a b => a.b ≤ b.b)) :
    (∀ e, ∀ ent ∈ build conn F init e, Opt conn F ent.1 ent.2) ∧
    (∀ m ∈ F, ∃ t, (m, t) ∈ build conn F init m.e) :=
  Vit.viterbi_min conn F hwf (ordered_of_sorted F hwf hs)

/-- **Optimality**: the final path cost is no larger than the cost of any sequence of candidate
words covering the text, sentence-start and sentence-end connections included -/
theorem no_cheaper_covering (F : List Node) (hwf : WF F) (hs : F.Pairwise (fun a b => a.b ≤ b.b))
    (len : Nat) (ws : List Node) (hc : IsChain F bos ws) (hl : lastEnd bos ws = len) :
    ∃ v, eosCost conn (build conn F init) len = some v ∧ v ≤ chainCost conn bos ws := by
  have h := eos_opt conn F hwf (ordered_of_sorted F hwf hs) len
  have hcomp : Complete conn F len (chainCost conn bos ws) := by
    have := chain_complete conn F ws bos 0 Reach.bos hc
    rw [hl] at this
    simpa using this
  cases hres : eosCost conn (build conn F init) len with
  | none => rw [hres] at h; exact absurd hcomp (h _)
  | some v => rw [hres] at h; exact ⟨v, rfl, h.2 _ hcomp⟩

/-- **Attainment**: the final path cost is the cost of some covering sequence of candidates -/
theorem eos_attained (F : List Node) (hwf : WF F) (hs : F.Pairwise (fun a b => a.b ≤ b.b))
    (len : Nat) (v : Int) (h : eosCost conn (build conn F init) len = some v) :
    ∃ ws, IsChain F bos ws ∧ lastEnd bos ws = len ∧ chainCost conn bos ws = v := by
  have ho := eos_opt conn F hwf (ordered_of_sorted F hwf hs) len
  rw [h] at ho
  obtain ⟨⟨m, t, hm, he, hv⟩, _⟩ := ho
  obtain ⟨ws, h1, h2, h3, _, _⟩ := complete_chain conn F hm
  refine ⟨ws, h1, by rw [h2, he], ?_⟩
  have := h3 (conn m.r 0)
  omega

/-- the search reports "disconnected" exactly when no covering sequence exists -/
theorem disconnected_iff (F : List Node) (hwf : WF F) (hs : F.Pairwise (fun a b => a.b ≤ b.b)) (len : Nat) :
    eosCost conn (build conn F init) len = none ↔ ¬ ∃ ws, IsChain F bos ws ∧ lastEnd bos ws = len := by
  constructor
  · intro h ⟨ws, hc, hl⟩
    obtain ⟨v, hv, _⟩ := no_cheaper_covering conn F hwf hs len ws hc hl
    rw [h] at hv; cases hv
  · intro h
    cases hres : eosCost conn (build conn F init) len with
    | none => rfl
    | some v =>
      obtain ⟨ws, h1, h2, _⟩ := eos_attained conn F hwf hs len v hres
      exact absurd ⟨ws, h1, h2⟩ h

/-! ## back-pointers: the returned path (`connect_node` index half, `fill_top_path`, `resolve_best_path`) -/

/-- **Back-pointer of `connect_node`.**  `argmin` (the `(prev_idx, min_cost)` pair of the Rust loop)
reports a position iff `connect` reports a cost, and it is the same cost; the position holds a
connected entry `(m, t)` with `v = t + conn m.r n.l + n.c`; no entry of the row offers less and every
EARLIER entry offers strictly more, i.e. `i` is the first index attaining the minimum (strict `<`). -/
theorem argmin_spec (row : List Entry) (n : Node) (v : Int) :
    ((∃ i, argmin conn row n = some (i, v)) ↔ connect conn row n = some v) ∧
    ∀ i, argmin conn row n = some (i, v) →
      ∃ m t, row[i]? = some (m, some t) ∧ v = t + conn m.r n.l + n.c ∧
        (∀ (j : Nat) (m' : Node) (t' : Int), row[j]? = some (m', some t') → v ≤ t' + conn m'.r n.l + n.c) ∧
        (∀ (j : Nat) (m' : Node) (t' : Int), j < i → row[j]? = some (m', some t') → v < t' + conn m'.r n.l + n.c) := by
  refine ⟨⟨?_, connect_argmin conn row n v⟩, ?_⟩
  · rintro ⟨i, hi⟩; rw [← argmin_connect, hi]; rfl
  · intro i hi
    obtain ⟨⟨m, t, hg, hv⟩, hmin, hfirst⟩ := argmin_some conn row n i v hi
    exact ⟨m, t, hg, hv, fun j m' t' hj => hmin j _ ⟨m', t', hj, rfl⟩,
      fun j m' t' hlt hj => hfirst j _ hlt ⟨m', t', hj, rfl⟩⟩

/-- **Stored totals are `connect_node` over the FINAL rows.**  In the fully built lattice every stored
entry `(n, t)` other than BOS has `t = connect conn (rows n.b) n` where `rows` is the finished lattice:
the row at `n.b` did not change after `n` was inserted (insertion order).  Hence recomputing the
back-pointer by `argmin` on the finished lattice gives the pointer `insert` stored. -/
theorem stored_total_is_connect (F : List Node) (hwf : WF F) (hs : F.Pairwise (fun a b => a.b ≤ b.b))
    (e : Nat) (n : Node) (t : Option Int) (h : (n, t) ∈ build conn F init e) (hn : n ≠ bos) :
    t = connect conn (build conn F init n.b) n :=
  stored_total conn F hwf (ordered_of_sorted F hwf hs) e (n, t) h hn

/-- **The returned path** (`viterbi_path` of DESIGN §3 C02).  When EOS is connected with cost `v`, the
chain obtained by following the back-pointers from EOS is a covering sequence of candidates (each a
candidate, the first beginning at 0, each beginning where the previous one ended, the last ending at
`len`) and its recomputed cost, BOS and EOS connections included, is exactly `v` — so by
`no_cheaper_covering` it is a minimum-cost covering sequence.  Termination of `fill_top_path`: the
walk reaches BOS within `len + 1` steps; any larger fuel returns the same path. -/
theorem viterbi_path (F : List Node) (hwf : WF F) (hs : F.Pairwise (fun a b => a.b ≤ b.b))
    (len : Nat) (v : Int) (h : eosCost conn (build conn F init) len = some v) :
    IsChain F bos (bestPath conn (build conn F init) len) ∧
    lastEnd bos (bestPath conn (build conn F init) len) = len ∧
    chainCost conn bos (bestPath conn (build conn F init) len) = v ∧
    ∀ fuel, len + 1 ≤ fuel →
      pathFrom conn (build conn F init) fuel (eosNode len) [] = bestPath conn (build conn F init) len := by
  have hord := ordered_of_sorted F hwf hs
  obtain ⟨done', hinv, _⟩ := build_inv conn F hwf hord
  have hst := stored_total conn F hwf hord
  have hp := pathFrom_spec conn F hwf (build conn F init) done' hinv hst len v (len + 1) (eosNode len) []
    (by simp [eosNode]) ⟨v, h⟩ (by
      intro m t hmem hc
      have hme := (hinv.sound _ (m, some t) hmem).1
      simp only [eosNode] at hme hc
      have hc' : eosCost conn (build conn F init) len = some (t + conn m.r 0 + 0) := hc
      rw [h] at hc'
      simp only [Option.some.injEq] at hc'
      exact ⟨trivial, hme, by simp only [chainCost]; omega, trivial⟩)
  refine ⟨hp.1, hp.2.1, hp.2.2.1, ?_⟩
  intro fuel hf
  obtain ⟨d, rfl⟩ := Nat.exists_eq_add_of_le hf
  exact pathFrom_fuel conn F hwf _ (fun e ent he => ⟨(hinv.sound e ent he).1, (hinv.sound e ent he).2.1⟩)
    (eosNode len) [] (len + 1) (by simp [eosNode]) d

/-- **Cumulative costs along the returned path** (`total_prefix`; what `Morpheme::total_cost` reports in
mode C).  For every prefix `p₁ ++ [n]` of the returned path, the node `n` is stored in the lattice with
the total `prefixCost conn bos (p₁ ++ [n])` = word costs + connection costs from BOS up to and
including `n`, WITHOUT the connection to EOS; and every entry stored for `n` carries that total. -/
theorem total_prefix (F : List Node) (hwf : WF F) (hs : F.Pairwise (fun a b => a.b ≤ b.b))
    (len : Nat) (v : Int) (h : eosCost conn (build conn F init) len = some v)
    (p₁ p₂ : List Node) (n : Node) (hp : bestPath conn (build conn F init) len = p₁ ++ n :: p₂) :
    (n, some (prefixCost conn bos (p₁ ++ [n]))) ∈ build conn F init n.e ∧
    ∀ t, (n, t) ∈ build conn F init n.e → t = some (prefixCost conn bos (p₁ ++ [n])) := by
  have hord := ordered_of_sorted F hwf hs
  obtain ⟨done', hinv, _⟩ := build_inv conn F hwf hord
  have hst := stored_total conn F hwf hord
  have hpath := pathFrom_spec conn F hwf (build conn F init) done' hinv hst len v (len + 1) (eosNode len) []
    (by simp [eosNode]) ⟨v, h⟩ (by
      intro m t hmem hc
      have hme := (hinv.sound _ (m, some t) hmem).1
      simp only [eosNode] at hme hc
      have hc' : eosCost conn (build conn F init) len = some (t + conn m.r 0 + 0) := hc
      rw [h] at hc'
      simp only [Option.some.injEq] at hc'
      exact ⟨trivial, hme, by simp only [chainCost]; omega, trivial⟩)
  have htight : Tight conn (build conn F init) bos 0 (p₁ ++ n :: p₂) := by
    have := hpath.2.2.2; unfold bestPath at hp; rw [hp] at this; exact this
  have hmem := tight_prefix conn (build conn F init) n p₂ p₁ bos 0 htight
  simp only [Int.zero_add] at hmem
  have hnF : n ∈ F := by
    have hc := hpath.1; unfold bestPath at hp; rw [hp] at hc
    exact isChain_mem F _ bos hc n (by simp)
  have hne : n ≠ bos := by
    intro hc; have := hwf n hnF; rw [hc] at this; simp [bos] at this
  refine ⟨hmem, ?_⟩
  intro t ht
  have e1 : t = connect conn (build conn F init n.b) n := hst n.e (n, t) ht hne
  have e2 : some (prefixCost conn bos (p₁ ++ [n])) = connect conn (build conn F init n.b) n :=
    hst n.e (n, some _) hmem hne
  rw [e1, e2]

/-- the complete path cost is the cumulative cost of the last word plus its connection to EOS -/
theorem path_cost_is_last_total_plus_eos (F : List Node) (hwf : WF F) (hs : F.Pairwise (fun a b => a.b ≤ b.b))
    (len : Nat) (v : Int) (h : eosCost conn (build conn F init) len = some v) :
    v = prefixCost conn bos (bestPath conn (build conn F init) len) +
        conn (lastNode bos (bestPath conn (build conn F init) len)).r 0 := by
  rw [← chainCost_prefix, (viterbi_path conn F hwf hs len v h).2.2.1]

/-- **Contiguity of the returned path** (`path_contiguous` of DESIGN §3 C01), in the form
`C01.surfaces_partition` consumes.  `tab` is any non-decreasing table indexed by character position
with `len < tab.length` (the character→byte table `mod_c2b` of `resolve_best_path`:
`byte_end = to_curr_byte_idx(node.end())`).  The nodes start at 0, each begins where the previous one
ended, ends strictly increase, the last ends at `len`; consequently the byte ends
`cuts = path.map (tab[·.e])` form a non-decreasing chain from `tab[0]` to `tab[len]` and every table
access is in range. -/
theorem path_contiguous (F : List Node) (hwf : WF F) (hs : F.Pairwise (fun a b => a.b ≤ b.b))
    (len : Nat) (v : Int) (h : eosCost conn (build conn F init) len = some v)
    (tab : List Nat) (htab : tab.Pairwise (· ≤ ·)) (hlen : len < tab.length) :
    let p := bestPath conn (build conn F init) len
    IsChain F bos p ∧ lastEnd bos p = len ∧ p.Pairwise (fun a b => a.e < b.e) ∧
    (((tab[0]?).getD 0) :: p.map (fun n => (tab[n.e]?).getD 0)).Pairwise (· ≤ ·) ∧
    (((tab[0]?).getD 0) :: p.map (fun n => (tab[n.e]?).getD 0)).getLast (by simp) = (tab[len]?).getD 0 ∧
    ∀ n ∈ p, n.e < tab.length := by
  intro p
  obtain ⟨h1, h2, _, _⟩ := viterbi_path conn F hwf hs len v h
  obtain ⟨c1, c2, c3⟩ := chain_cuts F hwf tab htab p h1 (by rw [h2]; exact hlen)
  refine ⟨h1, h2, (chain_ends F hwf p bos h1).2.1, ?_, ?_, c3⟩
  · simpa [bos] using c1
  · rw [h2] at c2; simpa [bos] using c2

/-! ### the same statements about the executed vector-of-rows lattice (`buildL`, what `vdriver` runs) -/

/-- the rows the driver computes are the rows the theorems speak about -/
theorem exec_rows (F : List Node) : rowAt (buildL conn F initL) = build conn F init := by
  rw [rowAt_buildL, rowAt_initL]

/-- `viterbi_path` for the executed lattice -/
theorem viterbi_path_exec (F : List Node) (hwf : WF F) (hs : F.Pairwise (fun a b => a.b ≤ b.b))
    (len : Nat) (v : Int) (h : eosCost conn (rowAt (buildL conn F initL)) len = some v) :
    IsChain F bos (bestPath conn (rowAt (buildL conn F initL)) len) ∧
    lastEnd bos (bestPath conn (rowAt (buildL conn F initL)) len) = len ∧
    chainCost conn bos (bestPath conn (rowAt (buildL conn F initL)) len) = v := by
  rw [exec_rows] at h ⊢
  obtain ⟨h1, h2, h3, _⟩ := viterbi_path conn F hwf hs len v h
  exact ⟨h1, h2, h3⟩

/-- `total_prefix` and `stored_total_is_connect` for the executed lattice -/
theorem total_prefix_exec (F : List Node) (hwf : WF F) (hs : F.Pairwise (fun a b => a.b ≤ b.b))
    (len : Nat) (v : Int) (h : eosCost conn (rowAt (buildL conn F initL)) len = some v)
    (p₁ p₂ : List Node) (n : Node) (hp : bestPath conn (rowAt (buildL conn F initL)) len = p₁ ++ n :: p₂) :
    (n, some (prefixCost conn bos (p₁ ++ [n]))) ∈ rowAt (buildL conn F initL) n.e ∧
    (∀ t, (n, t) ∈ rowAt (buildL conn F initL) n.e → t = some (prefixCost conn bos (p₁ ++ [n]))) ∧
    connect conn (rowAt (buildL conn F initL) n.b) n = some (prefixCost conn bos (p₁ ++ [n])) := by
  rw [exec_rows] at h hp ⊢
  obtain ⟨h1, h2⟩ := total_prefix conn F hwf hs len v h p₁ p₂ n hp
  refine ⟨h1, h2, ?_⟩
  have hnF : n ∈ F := by
    have hc := (viterbi_path conn F hwf hs len v h).1; rw [hp] at hc
    exact isChain_mem F _ bos hc n (by simp)
  have hne : n ≠ bos := by
    intro hc; have := hwf n hnF; rw [hc] at this; simp [bos] at this
  exact (stored_total_is_connect conn F hwf hs n.e n _ h1 hne).symm

/-- non-vacuity: three positions, five overlapping candidates, a negative word cost and negative connection costs -/
example :
    let conn : Nat → Nat → Int := fun a b => (3 : Int) * a - 2 * b
    let F : List Node := [⟨0, 1, 1, 1, 5⟩, ⟨0, 2, 2, 2, -3⟩, ⟨1, 2, 3, 3, 4⟩, ⟨1, 3, 1, 2, 7⟩, ⟨2, 3, 2, 1, 1⟩]
    WF F ∧ F.Pairwise (fun a b => a.b ≤ b.b) ∧
    eosCost conn (build conn F init) 3 = some (-1) ∧
    chainCost conn bos [⟨0, 2, 2, 2, -3⟩, ⟨2, 3, 2, 1, 1⟩] = -1 := by
  refine ⟨by intro n hn; simp at hn; rcases hn with rfl | rfl | rfl | rfl | rfl <;> decide, by decide, by decide, by decide⟩

/-- non-vacuity of the path theorems on the same lattice (executed vector-of-rows version): the
back-pointer walk returns the optimal chain `[0..2, 2..3]`; the totals stored along it are the prefix
sums `(0 - 4) - 3 = -7` and `-7 + (6 - 4) + 1 = -4`; with the EOS connection `3 - 0` the path costs
`-1`; and the tie rule of `argmin` picks the FIRST minimal connected entry -/
example :
    let conn : Nat → Nat → Int := fun a b => (3 : Int) * a - 2 * b
    let F : List Node := [⟨0, 1, 1, 1, 5⟩, ⟨0, 2, 2, 2, -3⟩, ⟨1, 2, 3, 3, 4⟩, ⟨1, 3, 1, 2, 7⟩, ⟨2, 3, 2, 1, 1⟩]
    bestPath conn (rowAt (buildL conn F initL)) 3 = [⟨0, 2, 2, 2, -3⟩, ⟨2, 3, 2, 1, 1⟩] ∧
    prefixCost conn bos [⟨0, 2, 2, 2, -3⟩] = -7 ∧
    prefixCost conn bos [⟨0, 2, 2, 2, -3⟩, ⟨2, 3, 2, 1, 1⟩] = -4 ∧
    rowAt (buildL conn F initL) 2 = [(⟨0, 2, 2, 2, -3⟩, some (-7)), (⟨1, 2, 3, 3, 4⟩, some 4)] ∧
    -- ties: two entries offering the same cost, the first one is the back-pointer
    argmin (fun _ _ => 0) [(⟨0, 1, 0, 0, 0⟩, some 5), (⟨0, 1, 1, 1, 0⟩, none), (⟨0, 1, 2, 2, 0⟩, some 3),
      (⟨0, 1, 3, 3, 0⟩, some 3)] ⟨1, 2, 0, 0, 1⟩ = some (2, 4) := by
  refine ⟨by decide, by decide, by decide, by decide, by decide⟩

/-- non-vacuity of `path_contiguous`: a character→byte table of a three-character text (1+3+2 bytes) -/
example : [0, 1, 4, 6].Pairwise (· ≤ ·) ∧ 3 < [0, 1, 4, 6].length ∧
    ([⟨0, 2, 2, 2, -3⟩, ⟨2, 3, 2, 1, 1⟩] : List Node).map (fun n => ([0, 1, 4, 6][n.e]?).getD 0) = [4, 6] := by
  refine ⟨by decide, by decide, by decide⟩


end C02
