import Sudachi.Proofs.Sentence
import Sudachi.Proofs.SentenceConv
import Sudachi.Proofs.SentenceSame
import Sudachi.Proofs.SentenceFix
import Sudachi.Proofs.SentenceTotal
import Sudachi.Proofs.SentenceBytes
import Sudachi.Proofs.SentenceRegex
import Sudachi.Proofs.SentenceIff
/-!
# C16 — Sentence splitting partitions the text and breaks only after terminators

Model: `Sentence.split` (`SentenceIter::next` iterated), `Sentence.getEos` (`SentenceDetector::get_eos`),
`Sentence.hasNonBreakWord` (`NonBreakChecker::has_non_break_word`), the five regular expressions as
direct matchers.  Quantifiers: every text (list of scalar values), every window limit `≥ 1`, with or
without a dictionary checker (any list of lexicons, each any list of byte-string keys).

`split … = .ok l` is the list of `(range.start, range.end, slice)` the iterator yields;
`.panic` = the Rust code panics (only possible in `has_non_break_word` when a key matches from inside
a character, which valid UTF-8 keys cannot: `checker_never_panics`); `.fuelOut` = the iterator did not stop after
`text.length` calls of `next`.

Second round (depth): `split_total_partition` (termination + panic-freedom + partition in one statement,
no fuel, for every checker whose keys are valid UTF-8), `no_slice_off_boundary` (the byte-offset
transcription `getEosB`/`splitB`, in which every `&s[a..b]` of the Rust code can panic, equals the
character-index model — no slice is ever off a boundary or out of range), `checker_never_panics`
(UTF-8 self-synchronisation), the window-edge clause (`no_break_at_window_edge_inside_word`,
`window_vs_whole_witness`) and declarative regex specifications of four of the patterns
(`*_regex_spec`).  The driver answers with the byte-offset functions.

Third round (depth): the converse clause is no longer `_partial`: `Exempt` is the exact exemption set of
the loop body (`loop_body_veto_iff`), `terminator_breaks_iff` says that `get_eos` answers the extended end
of the FIRST match in the window that is not exempt, `no_boundary_iff` that it is negative exactly when
every match in the window is exempt, `terminator_breaks_split` lifts this to the iterator; the window is a
visible hypothesis (`e0 ∈ matchEnds … (input.take limit)`), D13 stays a counterexample of the window-free
clause.  The veto direction of the byte look-back is proved for every text, i.e. every mix of 1-, 2-, 3-
and 4-byte characters (`checker_vetoes_word_within_lookback`, `no_break_inside_word_within_lookback[_split]`,
`checker_veto_iff_fix`).  SENTENCE_BREAKER with `find_iter` and SPACES with `find` are proved equal to the
leftmost-first (backtracking) semantics of their patterns, which here coincides with leftmost-longest
(`sentence_breaker_regex_spec`, `sentence_breaker_find_iter_spec`, `spaces_regex_spec`).

Every function takes the variant `v : CkVariant` of the `Ordering::Equal` arm of `has_non_break_word`:
`.cur` = the code as it was (`input[i..].chars().take(2).count() > 1`, returned at once — defect D12),
`.fix` = the repaired arm (`if input[i..end_byte].chars().take(2).count() > 1 { return true; }`).
The harness selects the variant by probing `sentence_detector.rs`.  Theorems that do not depend on the
checker's answer are stated for every `v`; the clauses about the checker are stated once per variant
(`…` for `.cur`, `…_fix` for `.fix`, the latter without the D12 exclusion).
-/
namespace C16
open Sentence

/-- **Partition and termination.**  For every text, every limit `≥ 1` and every checker: iteration
stops within `text.length` steps, and the produced ranges are non-empty, contiguous from byte 0 to
the byte length of the text, each range is exactly as long as its slice, and the slices concatenate
to the text. -/
theorem split_partition (v : CkVariant) (limit : Nat) (hl : 1 ≤ limit) (ck : Option (List (List (List Nat))))
    (text : Text) :
    split v limit ck text ≠ .fuelOut ∧
    ∀ l, split v limit ck text = .ok l →
      Contig 0 l (blen text) ∧ (l.map (·.chunk)).flatten = text := by
  refine ⟨splitFuel_terminates hl _ _ _ (Nat.le_refl _), ?_⟩
  intro l h
  have := splitFuel_ok hl _ _ _ _ h
  simpa using this

/-- **Ranges are on character boundaries and each sentence equals the text in its range**: every
produced sentence `x` splits the text as `pre ++ x.chunk ++ post` with `x.b` = byte length of `pre`
and `x.e` = byte length of `pre ++ x.chunk`; ranges are non-empty. -/
theorem sentences_are_slices (v : CkVariant) (limit : Nat) (hl : 1 ≤ limit) (ck : Option (List (List (List Nat))))
    (text : Text) (l : List Sent) (h : split v limit ck text = .ok l) :
    ∀ x ∈ l, ∃ pre post, text = pre ++ x.chunk ++ post ∧ x.b = blen pre ∧
      x.e = blen (pre ++ x.chunk) ∧ x.b < x.e := by
  obtain ⟨hc, hf⟩ := (split_partition v limit hl ck text).2 l h
  intro x hx
  obtain ⟨pre, post, hsplit, hb, he⟩ := contig_slice l 0 _ hc x hx
  rw [hf] at hsplit
  have hne : x.chunk ≠ [] := by
    have : ∀ (l : List Sent) (p q : Nat), Contig p l q → ∀ x ∈ l, x.chunk ≠ [] := by
      intro l
      induction l with
      | nil => intro _ _ _ x hx; simp at hx
      | cons y ys ih =>
        intro p q hc x hx
        simp only [List.mem_cons] at hx
        rcases hx with rfl | hx
        · exact hc.2.2.1
        · exact ih _ _ hc.2.2.2 x hx
    exact this l 0 _ hc x hx
  have := blen_pos_of_ne_nil hne
  refine ⟨pre, post, hsplit, by omega, by rw [blen_append]; omega, by omega⟩

/-- **Link between the iterator and `get_eos`**: every sentence except the last is a non-negative
answer of `get_eos` on the text from the start of that sentence. -/
theorem nonlast_is_get_eos (v : CkVariant) (limit : Nat) (hl : 1 ≤ limit) (ck : Option (List (List (List Nat))))
    (text : Text) (l : List Sent) (h : split v limit ck text = .ok l) :
    ∀ x ∈ l.dropLast, ∃ pre post, text = pre ++ x.chunk ++ post ∧ x.chunk ≠ [] ∧
      getEos v limit ck (x.chunk ++ post) = .ok (.pos x.chunk.length) :=
  splitFuel_link hl _ _ _ _ h

/-- a sentence ends with a terminator, optionally followed by closing brackets, commas or further
terminators -/
def EndsWithTerminator (u : Text) : Prop :=
  ∃ pre t tail, u = pre ++ t ++ tail ∧ IsTerminator t ∧ ∀ c ∈ tail, isTailChar c = true

/-- **Every sentence except the last ends with a sentence terminator** (`。？！♪…?!`, a period,
three or more `・`, two or more `<br>`/`<BR>`), optionally followed by closing brackets, commas or
further terminators. -/
theorem nonlast_ends_with_terminator (v : CkVariant) (limit : Nat) (hl : 1 ≤ limit)
    (ck : Option (List (List (List Nat)))) (text : Text) (l : List Sent)
    (h : split v limit ck text = .ok l) :
    ∀ x ∈ l.dropLast, EndsWithTerminator x.chunk := by
  intro x hx
  obtain ⟨pre, post, _, hne, hg⟩ := nonlast_is_get_eos v limit hl ck text l h x hx
  have hne' : x.chunk ++ post ≠ [] := by simp [hne]
  obtain ⟨p, t, tt, ext, hshape, hterm, htt, _, hext⟩ := getEos_pos_chunk hl hne' hg
  simp only [List.take_left'] at hshape
  refine ⟨p, t, tt ++ ext, by rw [hshape]; simp, hterm, ?_⟩
  intro c hc
  simp only [List.mem_append] at hc
  rcases hc with hc | hc
  · simp [isTailChar, htt c hc]
  · simp [isTailChar, hext c hc]

/-- **No break inside an unclosed bracket pair**: in every sentence except the last, the bracket
level (opening brackets minus closing ones, never below 0, counted from the start of the sentence)
is 0 at the end of the terminator, only non-opening characters follow, and the level at the break
is 0. -/
theorem no_break_in_open_bracket (v : CkVariant) (limit : Nat) (hl : 1 ≤ limit)
    (ck : Option (List (List (List Nat)))) (text : Text) (l : List Sent)
    (h : split v limit ck text = .ok l) :
    ∀ x ∈ l.dropLast, ∃ body ext, x.chunk = body ++ ext ∧ parenLevel body = 0 ∧
      (∀ c ∈ ext, isProhibitedBos c = true) ∧ parenLevel x.chunk = 0 := by
  intro x hx
  obtain ⟨pre, post, _, hne, hg⟩ := nonlast_is_get_eos v limit hl ck text l h x hx
  have hne' : x.chunk ++ post ≠ [] := by simp [hne]
  obtain ⟨p, t, tt, ext, hshape, _, _, hlev, hext⟩ := getEos_pos_chunk hl hne' hg
  simp only [List.take_left'] at hshape
  exact ⟨p ++ (t ++ tt), ext, hshape, hlev, hext, by rw [hshape]; exact parenLevel_append_tail _ _ hlev hext⟩

/-- **No break inside a multi-character dictionary word that contains or ends with the terminator**
(within the 30-byte look-back of the checker), **code as it was (`.cur`)**.  If `get_eos` with a checker answers a break after `e`
characters, then for every byte offset `i` in the look-back window and every non-empty key of any
lexicon that matches the input at `i`: the key ends before the break, or it ends exactly at the
break and starts inside the last character of the input (a one-character word at the end of the
text).  In particular no key crosses the break and no key of two or more characters ends at it. -/
theorem no_break_in_multichar_word (limit : Nat) (hl : 1 ≤ limit) (lexs : List (List (List Nat)))
    (input : Text) (hne : input ≠ []) (e : Nat)
    (h : getEos .cur limit (some lexs) input = .ok (.pos e)) :
    ∀ i, blen (input.take e) - 30 ≤ i → i < blen (input.take e) →
      ∀ lex ∈ lexs, ∀ key ∈ lex, key ≠ [] → key <+: (utf8 input).drop i →
        i + key.length < blen (input.take e) ∨
        (i + key.length = blen (input.take e) ∧ LastCharFrom input i) := by
  obtain ⟨k, n, pv, _, _, acc⟩ := getEos_pos hl hne h
  have hw := acc.noWord lexs rfl
  have hle := acc.le
  have htake : (input.take limit).take e = input.take e := by
    rw [List.take_take]
    congr 1
    simp only [List.length_take] at hle
    omega
  rw [htake] at hw
  intro i h1 h2 lex hlex key hkey hkne hpre
  exact hasNonBreakWord_false rfl hw i h1 h2 _ (key_in_lookup hlex hkey hkne hpre)

/-- the same for the sentences of the iterator: every sentence except the last was accepted by the
checker on the text from its start (`x.chunk ++ post`) -/
theorem no_break_in_multichar_word_split (limit : Nat) (hl : 1 ≤ limit)
    (lexs : List (List (List Nat))) (text : Text) (l : List Sent)
    (h : split .cur limit (some lexs) text = .ok l) :
    ∀ x ∈ l.dropLast, ∃ pre post, text = pre ++ x.chunk ++ post ∧
      ∀ i, blen x.chunk - 30 ≤ i → i < blen x.chunk →
        ∀ lex ∈ lexs, ∀ key ∈ lex, key ≠ [] → key <+: (utf8 (x.chunk ++ post)).drop i →
          i + key.length < blen x.chunk ∨
          (i + key.length = blen x.chunk ∧ LastCharFrom (x.chunk ++ post) i) := by
  intro x hx
  obtain ⟨pre, post, hsplit, hne, hg⟩ := nonlast_is_get_eos .cur limit hl _ text l h x hx
  refine ⟨pre, post, hsplit, ?_⟩
  have := no_break_in_multichar_word limit hl lexs (x.chunk ++ post) (by simp [hne]) _ hg
  simpa only [List.take_left'] using this

/-- **No break inside a multi-character dictionary word, repaired checker (`.fix`).**  If `get_eos`
with the repaired checker answers a break after `e` characters, then every non-empty key of any lexicon
that matches the input at a byte offset `i` of the 30-byte look-back ends before the break, or ends
exactly at the break and is exactly one character of the input (`OneCharWordAt`: the input is
`pre ++ c :: post`, `i` is the byte length of `pre`, the key is the UTF-8 form of `c`).  The D12
exclusion "…and starts inside the last character of the input" of the `.cur` theorem is gone: a
one-character word may end at a break anywhere in the text. -/
theorem no_break_in_multichar_word_fix (limit : Nat) (hl : 1 ≤ limit) (lexs : List (List (List Nat)))
    (input : Text) (hne : input ≠ []) (e : Nat)
    (h : getEos .fix limit (some lexs) input = .ok (.pos e)) :
    ∀ i, blen (input.take e) - 30 ≤ i → i < blen (input.take e) →
      ∀ lex ∈ lexs, ∀ key ∈ lex, key ≠ [] → key <+: (utf8 input).drop i →
        i + key.length < blen (input.take e) ∨
        (i + key.length = blen (input.take e) ∧ OneCharWordAt input i key) := by
  obtain ⟨k, n, pv, _, _, acc⟩ := getEos_pos hl hne h
  have hw := acc.noWord lexs rfl
  have hle := acc.le
  have htake : (input.take limit).take e = input.take e := by
    rw [List.take_take]
    congr 1
    simp only [List.length_take] at hle
    omega
  rw [htake] at hw
  exact (hasNonBreakWord_fix_false_iff lexs input _).mp hw

/-- the same for the sentences of the iterator with the repaired checker -/
theorem no_break_in_multichar_word_split_fix (limit : Nat) (hl : 1 ≤ limit)
    (lexs : List (List (List Nat))) (text : Text) (l : List Sent)
    (h : split .fix limit (some lexs) text = .ok l) :
    ∀ x ∈ l.dropLast, ∃ pre post, text = pre ++ x.chunk ++ post ∧
      ∀ i, blen x.chunk - 30 ≤ i → i < blen x.chunk →
        ∀ lex ∈ lexs, ∀ key ∈ lex, key ≠ [] → key <+: (utf8 (x.chunk ++ post)).drop i →
          i + key.length < blen x.chunk ∨
          (i + key.length = blen x.chunk ∧ OneCharWordAt (x.chunk ++ post) i key) := by
  intro x hx
  obtain ⟨pre, post, hsplit, hne, hg⟩ := nonlast_is_get_eos .fix limit hl _ text l h x hx
  refine ⟨pre, post, hsplit, ?_⟩
  have := no_break_in_multichar_word_fix limit hl lexs (x.chunk ++ post) (by simp [hne]) _ hg
  simpa only [List.take_left'] using this

/-- **The repaired checker, characterised (`.fix`).**  `has_non_break_word` lets the candidate break at
byte `eosB` pass (`.ok false`) **iff** every non-empty key that matches at a byte offset of the 30-byte
look-back ends before the break, or ends at it and is exactly one character of the input.  (For `.cur`
only the forward direction holds, and only with "at the very end of the text" added —
`d12_checker_counterexample`.) -/
theorem checker_passes_iff_fix (lexs : List (List (List Nat))) (input : Text) (eosB : Nat) :
    hasNonBreakWord .fix lexs input eosB = .ok false ↔
      ∀ i, eosB - 30 ≤ i → i < eosB →
        ∀ lex ∈ lexs, ∀ key ∈ lex, key ≠ [] → key <+: (utf8 input).drop i →
          i + key.length < eosB ∨ (i + key.length = eosB ∧ OneCharWordAt input i key) :=
  hasNonBreakWord_fix_false_iff lexs input eosB

/-- **A one-character dictionary entry never suppresses the break (`.fix`).**  When the repaired
checker vetoes the candidate break at byte `eosB`, there is a key in the look-back that crosses the
break, or a key that ends at it and is the UTF-8 form of two or more whole characters of the input
(`MultiCharWordAt`) — the veto is always "inside a multi-character dictionary word". -/
theorem checker_veto_is_multichar_word_fix (lexs : List (List (List Nat))) (input : Text) (eosB : Nat)
    (h : hasNonBreakWord .fix lexs input eosB = .ok true) :
    ∃ i, eosB - 30 ≤ i ∧ i < eosB ∧
      ∃ lex ∈ lexs, ∃ key ∈ lex, key ≠ [] ∧ key <+: (utf8 input).drop i ∧
        (eosB < i + key.length ∨ (i + key.length = eosB ∧ MultiCharWordAt input i key)) :=
  hasNonBreakWord_fix_true h

/-! ## the converse clause -/

/-- **Converse inside the window: the first match that is not vetoed decides.**
The clause of the property *a terminator that is not bracketed, not followed by a quoting particle, not an
itemisation header and not inside a multi-character dictionary word ends a sentence, for every window
limit* is **false** without a window condition (`d13_counterexample`; for the arm as it was also
`d12_counterexample`).  The exact form that holds is `terminator_breaks_iff` below (exemption set `Exempt`,
window condition as a hypothesis); this theorem and the next three are its one-directional corollaries
stated on the loop body, kept because they need no `ValidChecker` hypothesis.

Proved: `matchEnds 0 none 0 s` are the ends of the successive non-overlapping matches of
SENTENCE_BREAKER inside the window `s = input.take limit` (`match_ends_are_matches`).  If the loop
body does not veto one of them (`examine … ≠ .veto`; the vetoes are exactly bracket level, itemise
header, continued phrase and the checker's answer), then `get_eos` is not negative: it answers the
extended end of the first non-vetoed match, which is at or before that one — so a sentence ends at
that terminator or earlier (or the checker panics).  `find_iter_misses_no_terminator` shows that
`matchEnds` contains the end of *every* anchored match of SENTENCE_BREAKER in the window (a match that
starts inside an earlier, vetoed match ends where that match ends), and
`unvetoed_terminator_decides` combines the two.  Outside these statements by hypothesis: terminators
beyond the window (D13, `hm`); for `.cur` the checker's veto is not "inside a multi-character word" (D12),
for `.fix` it is (`terminator_breaks_fix`, `checker_veto_iff_fix`). -/
theorem first_unvetoed_match_decides (v : CkVariant) (limit : Nat) (ck : Option (List (List (List Nat))))
    (input : Text) (hne : input ≠ []) (e0 : Nat)
    (hm : e0 ∈ matchEnds 0 none 0 (input.take limit))
    (hv : examine v ck input (input.take limit) e0 ≠ .veto) :
    ∃ e0', e0' ∈ matchEnds 0 none 0 (input.take limit) ∧ e0' ≤ e0 ∧
      ((∃ e, examine v ck input (input.take limit) e0' = .accept e ∧ getEos v limit ck input = .ok (.pos e)) ∨
       (examine v ck input (input.take limit) e0' = .panic ∧ getEos v limit ck input = .panic)) :=
  first_unvetoed_decides hne hm hv

/-- Without a checker: a match of SENTENCE_BREAKER in the window whose end is at bracket level 0, whose
window is not an itemise header and which is not followed by a continued phrase (quote particle /
`1.と`) makes `get_eos` non-negative — the sentence ends at that terminator or earlier. -/
theorem terminator_breaks_no_checker (v : CkVariant) (limit : Nat) (input : Text) (hne : input ≠ []) (e0 : Nat)
    (hm : e0 ∈ matchEnds 0 none 0 (input.take limit))
    (h1 : parenLevel ((input.take limit).take e0) = 0)
    (h2 : isItemizeHeader (input.take limit) = false)
    (h3 : ∀ eos, eos = (if e0 < (input.take limit).length
              then e0 + prohibitedBos ((input.take limit).drop e0) else e0) →
            eos < (input.take limit).length → isContinuousPhrase (input.take limit) eos ≠ some true) :
    ∃ e, getEos v limit none input = .ok (.pos e) ∧ 1 ≤ e := by
  obtain ⟨e0', hm', _, h⟩ := first_unvetoed_decides (v := v) (ck := none) hne hm (not_vetoed_of h1 h2 h3)
  have hpos : 1 ≤ e0' := by have := matchEnds_lower _ _ _ _ e0' hm'; omega
  rcases h with ⟨e, hacc, hg⟩ | ⟨hp, _⟩
  · have hlen : e0' ≤ (input.take limit).length := by
      obtain ⟨j, n, pv, hb, hx⟩ := matchEnds_sound (s := input.take limit) _ 0 none 0 (by simp) e0' hm'
      have := (breakerAt_bounds hb).2
      simp only [List.length_drop] at this
      have h1n := (breakerAt_bounds hb).1
      omega
    have := (examine_accept hlen hacc).ext
    exact ⟨e, hg, by omega⟩
  · exact absurd hp (examine_none_no_panic hpos)

/-- **Converse with the repaired checker (`.fix`), without the D12 exclusion.**  A match of
SENTENCE_BREAKER in the window whose end is at bracket level 0, whose window is not an itemise header,
which is not followed by a continued phrase, and whose (extended) end is *not inside a multi-character
dictionary word* — no key found in the 30-byte look-back crosses it, and no key of two or more
characters ends at it — is not vetoed: `get_eos` answers the accept of the first non-vetoed match, at
or before it (or the checker panics on an earlier match).  One-character dictionary entries, the
terminator itself included, do not appear in the hypotheses: they never suppress the break.
The window is the hypothesis `hm` (the match lies inside `input.take limit`); without it the statement is
false (D13).  For `.cur` this statement is false (`d12_counterexample`). -/
theorem terminator_breaks_fix (limit : Nat) (lexs : List (List (List Nat)))
    (input : Text) (hne : input ≠ []) (e0 : Nat)
    (hm : e0 ∈ matchEnds 0 none 0 (input.take limit))
    (h1 : parenLevel ((input.take limit).take e0) = 0)
    (h2 : isItemizeHeader (input.take limit) = false)
    (h3 : ∀ eos, eos = (if e0 < (input.take limit).length
              then e0 + prohibitedBos ((input.take limit).drop e0) else e0) →
            eos < (input.take limit).length → isContinuousPhrase (input.take limit) eos ≠ some true)
    (h4 : ∀ eos, eos = (if e0 < (input.take limit).length
              then e0 + prohibitedBos ((input.take limit).drop e0) else e0) →
            ∀ i, blen ((input.take limit).take eos) - 30 ≤ i → i < blen ((input.take limit).take eos) →
              ∀ lex ∈ lexs, ∀ key ∈ lex, key ≠ [] → key <+: (utf8 input).drop i →
                ¬ (blen ((input.take limit).take eos) < i + key.length) ∧
                ¬ (i + key.length = blen ((input.take limit).take eos) ∧ MultiCharWordAt input i key)) :
    ∃ e0', e0' ∈ matchEnds 0 none 0 (input.take limit) ∧ e0' ≤ e0 ∧
      ((∃ e, examine .fix (some lexs) input (input.take limit) e0' = .accept e ∧
            getEos .fix limit (some lexs) input = .ok (.pos e)) ∨
       (examine .fix (some lexs) input (input.take limit) e0' = .panic ∧
            getEos .fix limit (some lexs) input = .panic)) := by
  refine first_unvetoed_decides hne hm (not_vetoed_of_checker h1 h2 h3 ?_)
  intro eos heos htrue
  obtain ⟨i, hi1, hi2, lex, hlex, key, hkey, hkne, hpre, hh⟩ := hasNonBreakWord_fix_true htrue
  obtain ⟨hn1, hn2⟩ := h4 eos heos i hi1 hi2 lex hlex key hkey hkne hpre
  rcases hh with hgt | hmulti
  · exact hn1 hgt
  · exact hn2 hmulti

/-- `matchEnds` reports only ends of matches of SENTENCE_BREAKER (`breakerAt`) inside the window -/
theorem match_ends_are_matches (s : Text) (e0 : Nat) (hm : e0 ∈ matchEnds 0 none 0 s) :
    ∃ j n pv, breakerAt pv (s.drop j) = some n ∧ e0 = j + n := by
  obtain ⟨j, n, pv, hb, hx⟩ := matchEnds_sound (s := s) _ 0 none 0 (by simp) e0 hm
  exact ⟨j, n, pv, by simpa using hb, by omega⟩

/-- **`find_iter` misses no terminator**: for every position `j` of the window at which
SENTENCE_BREAKER matches (with the true look-behind character `prevChar s j`), the end of that match is
one of the ends the loop examines — also when `j` lies inside an earlier match. -/
theorem find_iter_misses_no_terminator (s : Text) (j n : Nat)
    (hb : breakerAt (prevChar s j) (s.drop j) = some n) : j + n ∈ matchEnds 0 none 0 s :=
  matchEnds_complete (s := s) s 0 none 0 (by simp) (by simp [prevChar]) j n (by omega) hb

/-- Converse for an arbitrary terminator occurrence inside the window: if SENTENCE_BREAKER matches at
position `j` of the window and the loop body does not veto the end of that match, `get_eos` answers a
break that comes from a match ending at or before it (or the checker panics). -/
theorem unvetoed_terminator_decides (v : CkVariant) (limit : Nat) (ck : Option (List (List (List Nat))))
    (input : Text) (hne : input ≠ []) (j n : Nat)
    (hb : breakerAt (prevChar (input.take limit) j) ((input.take limit).drop j) = some n)
    (hv : examine v ck input (input.take limit) (j + n) ≠ .veto) :
    ∃ e0', e0' ∈ matchEnds 0 none 0 (input.take limit) ∧ e0' ≤ j + n ∧
      ((∃ e, examine v ck input (input.take limit) e0' = .accept e ∧ getEos v limit ck input = .ok (.pos e)) ∨
       (examine v ck input (input.take limit) e0' = .panic ∧ getEos v limit ck input = .panic)) :=
  first_unvetoed_decides hne (find_iter_misses_no_terminator _ j n hb) hv

/-! ## where the code violates the converse clause (D12: `.cur` only; D13 and the look-back: both) -/

/-- **D12** (converse clause, "the terminator being itself a one-character dictionary entry never
suppresses the break" — false on the code as it was, `.cur`): with a dictionary whose only key is `。`,
`あ。あ。あ` is one sentence. -/
theorem d12_counterexample :
    split .cur 4096 (some [[[0xE3, 0x80, 0x82]]]) [0x3042, 0x3002, 0x3042, 0x3002, 0x3042]
      = .ok [⟨0, 15, [0x3042, 0x3002, 0x3042, 0x3002, 0x3042]⟩] ∧
    split .cur 4096 none [0x3042, 0x3002, 0x3042, 0x3002, 0x3042]
      = .ok [⟨0, 6, [0x3042, 0x3002]⟩, ⟨6, 12, [0x3042, 0x3002]⟩, ⟨12, 15, [0x3042]⟩] := by
  decide

/-- D12 at its source (`.cur`): the checker vetoes the break after `あ。` (byte 6) although the only key that
matches there is the one-character word `。`; at the end of the text (`あ。`) it does not. -/
theorem d12_checker_counterexample :
    hasNonBreakWord .cur [[[0xE3, 0x80, 0x82]]] [0x3042, 0x3002, 0x3042] 6 = .ok true ∧
    hasNonBreakWord .cur [[[0xE3, 0x80, 0x82]]] [0x3042, 0x3002] 6 = .ok false := by
  decide

/-- **D12 repaired** (`.fix`): the same call now lets the break after `あ。` pass — the one-character
entry `。` no longer suppresses it — while a two-character entry `あ。` ending there still vetoes. -/
theorem d12_fixed_example :
    hasNonBreakWord .fix [[[0xE3, 0x80, 0x82]]] [0x3042, 0x3002, 0x3042] 6 = .ok false ∧
    hasNonBreakWord .fix [[[0xE3, 0x80, 0x82]]] [0x3042, 0x3002] 6 = .ok false ∧
    hasNonBreakWord .fix [[[0xE3, 0x81, 0x82, 0xE3, 0x80, 0x82]]] [0x3042, 0x3002, 0x3042] 6 = .ok true := by
  decide

/-- **D12 repaired, iterator level** (`.fix`): with a dictionary listing `。` (alone, or with `あ`),
`あ。あ。あ` is split after each `。`, exactly as without a checker. -/
theorem d12_fixed_split_example :
    split .fix 4096 (some [[[0xE3, 0x80, 0x82]]]) [0x3042, 0x3002, 0x3042, 0x3002, 0x3042]
      = .ok [⟨0, 6, [0x3042, 0x3002]⟩, ⟨6, 12, [0x3042, 0x3002]⟩, ⟨12, 15, [0x3042]⟩] ∧
    split .fix 4096 (some [[[0xE3, 0x80, 0x82], [0xE3, 0x81, 0x82]]]) [0x3042, 0x3002, 0x3042, 0x3002, 0x3042]
      = .ok [⟨0, 6, [0x3042, 0x3002]⟩, ⟨6, 12, [0x3042, 0x3002]⟩, ⟨12, 15, [0x3042]⟩] := by
  decide

/-- **Look-back limit** (clause "no break inside a multi-character dictionary word that ends with
the terminator" — false for words longer than 30 bytes, with either variant of the checker): with the 11-character
(33-byte) word `ああああああああああ。` in the dictionary, `ああああああああああ。い。` is split
right after that word; `no_break_in_multichar_word` therefore carries the 30-byte window. -/
theorem lookback_counterexample (v : CkVariant) :
    split v 4096 (some [[[0xE3, 0x81, 0x82, 0xE3, 0x81, 0x82, 0xE3, 0x81, 0x82, 0xE3, 0x81, 0x82,
        0xE3, 0x81, 0x82, 0xE3, 0x81, 0x82, 0xE3, 0x81, 0x82, 0xE3, 0x81, 0x82, 0xE3, 0x81, 0x82,
        0xE3, 0x81, 0x82, 0xE3, 0x80, 0x82]]])
      [0x3042, 0x3042, 0x3042, 0x3042, 0x3042, 0x3042, 0x3042, 0x3042, 0x3042, 0x3042, 0x3002, 0x3044, 0x3002]
      = .ok [⟨0, 33, [0x3042, 0x3042, 0x3042, 0x3042, 0x3042, 0x3042, 0x3042, 0x3042, 0x3042, 0x3042, 0x3002]⟩,
             ⟨33, 39, [0x3044, 0x3002]⟩] := by
  cases v <;> decide

/-- **D13** (converse clause with a small window — false on the unchanged code): limit 2,
`あああ。あ。あ` is one sentence although both `。` are unbracketed terminators; with limit 4 it is
split after each. -/
theorem d13_counterexample (v : CkVariant) :
    split v 2 none [0x3042, 0x3042, 0x3042, 0x3002, 0x3042, 0x3002, 0x3042]
      = .ok [⟨0, 21, [0x3042, 0x3042, 0x3042, 0x3002, 0x3042, 0x3002, 0x3042]⟩] ∧
    split v 4 none [0x3042, 0x3042, 0x3042, 0x3002, 0x3042, 0x3002, 0x3042]
      = .ok [⟨0, 12, [0x3042, 0x3042, 0x3042, 0x3002]⟩, ⟨12, 18, [0x3042, 0x3002]⟩, ⟨18, 21, [0x3042]⟩] := by
  cases v <;> decide

/-- the hypothesis `1 ≤ limit` of `split_partition` is needed: with limit 0 `get_eos` returns
`-0 = 0`, which `next` does not see as negative, and the iterator yields empty sentences forever -/
theorem limit_zero_counterexample (v : CkVariant) : split v 0 none [0x3042] = .fuelOut := by
  cases v <;> decide

/-! ## second round: totality, byte offsets, the window edge, regex specifications -/

/-- **Termination, panic-freedom and partition, full strength, no fuel.**  For every text (with or
without terminators, shorter or longer than the window), every window limit `≥ 1`, both variants of
the checker arm and every checker whose dictionary keys are valid UTF-8 (`ValidChecker`: no checker, or
every key is `utf8` of some text — the lexicon's keys are Rust `String`s): the iteration **produces** a
list of sentences (it neither panics nor runs on), the ranges are non-empty, contiguous from byte 0 to
the byte length of the text, each as long as its slice, and the slices concatenate to the text. -/
theorem split_total_partition (v : CkVariant) (limit : Nat) (hl : 1 ≤ limit)
    (ck : Option (List (List (List Nat)))) (hv : ValidChecker ck) (text : Text) :
    ∃ l, split v limit ck text = .ok l ∧ Contig 0 l (blen text) ∧ (l.map (·.chunk)).flatten = text := by
  obtain ⟨l, h⟩ := split_total (v := v) hl hv text
  exact ⟨l, h, (split_partition v limit hl ck text).2 l h⟩

/-- **The fuel of the model is irrelevant**: `split` runs `splitFuel` with `text.length` calls of `next`;
any larger number of calls gives the same answer (with `split_partition`: never `.fuelOut`). -/
theorem split_fuel_irrelevant (v : CkVariant) (limit : Nat) (hl : 1 ≤ limit)
    (ck : Option (List (List (List Nat)))) (text : Text) (fuel : Nat) (hf : text.length ≤ fuel) :
    splitFuel v limit ck fuel 0 text = split v limit ck text :=
  splitFuel_mono hl fuel text.length 0 text hf (Nat.le_refl _)

/-- **Why the iterator terminates (the measure)**: on a non-empty rest, a non-negative answer of
`get_eos` consumes at least one and at most all remaining characters, and a negative (provisional)
answer `-e` has `e ≥ 1` and makes `next` take the whole rest, after which the iterator is exhausted. -/
theorem next_consumes (v : CkVariant) (limit : Nat) (hl : 1 ≤ limit) (ck : Option (List (List (List Nat))))
    (c : Nat) (cs : Text) (position fuel : Nat) :
    (∀ e, getEos v limit ck (c :: cs) = .ok (.pos e) → 1 ≤ e ∧ e ≤ (c :: cs).length) ∧
    (∀ e, getEos v limit ck (c :: cs) = .ok (.neg e) → 1 ≤ e ∧
      splitFuel v limit ck (fuel + 1) position (c :: cs) =
        .ok [⟨position, position + blen (c :: cs), c :: cs⟩]) := by
  refine ⟨fun e h => getEos_pos_bounds hl (by simp) h, fun e h => ⟨getEos_neg_pos h, ?_⟩⟩
  simp [splitFuel, h]

/-- **What `strSlice` means**: the model's `&s[a..b]` answers a string exactly when `a ≤ b` are two
character boundaries inside `s` (`s = pre ++ t ++ post`, `a` = bytes of `pre`, `b` = bytes of
`pre ++ t`); in every other case it is `none`, which the byte-offset functions turn into `panic`. -/
theorem str_slice_iff (s t : Text) (a b : Nat) :
    strSlice s a b = some t ↔ ∃ pre post, s = pre ++ t ++ post ∧ blen pre = a ∧ blen pre + blen t = b :=
  strSlice_iff

/-- **No slice is ever off a character boundary or out of range** (stated over byte offsets).
`getEosB` / `splitB` transcribe `get_eos` / `SentenceIter::next` with the byte arithmetic of the Rust
code (`mat.end()`, `eos += prohibited_bos(..)`, `eos - last_char_len`, `position + rv as usize`,
`-(mat.end() as isize)`, `data.len()`), and every `&s[..eos]`, `&s[eos..]`, `&s[(eos - last_char_len)..]`,
`&data[position..]`, `&data[position..end]` is taken with `strSlice`, a `none` becoming `panic`.  For
**every** input, limit (0 included), variant and checker they equal the character-index functions
(offsets read through `blen (·.take ·)`): the additional panic outcomes do not exist. -/
theorem no_slice_off_boundary (v : CkVariant) (limit : Nat) (ck : Option (List (List (List Nat))))
    (text : Text) :
    getEosB v limit ck text = (getEos v limit ck text).mapR (eosValue text) ∧
    splitB v limit ck text = split v limit ck text :=
  ⟨getEosB_eq v limit ck text, splitB_eq v limit ck text⟩

/-- the full clause on the byte-offset functions (what the driver runs and the harness compares) -/
theorem split_bytes_total_partition (v : CkVariant) (limit : Nat) (hl : 1 ≤ limit)
    (ck : Option (List (List (List Nat)))) (hv : ValidChecker ck) (text : Text) :
    ∃ l, splitB v limit ck text = .ok l ∧ Contig 0 l (blen text) ∧ (l.map (·.chunk)).flatten = text ∧
      ∀ x ∈ l, strSlice text x.b x.e = some x.chunk := by
  obtain ⟨l, h, hc, hf⟩ := split_total_partition v limit hl ck hv text
  refine ⟨l, by rw [splitB_eq]; exact h, hc, hf, ?_⟩
  intro x hx
  obtain ⟨pre, post, hs, hb, he, _⟩ := sentences_are_slices v limit hl ck text l h x hx
  rw [str_slice_iff]
  exact ⟨pre, post, hs, hb.symm, by rw [he, blen_append]⟩

/-- **A dictionary match is a slice of whole characters** (UTF-8 self-synchronisation): when the keys
are valid UTF-8, every length the lookup reports at byte offset `i` of the text's bytes — `i` inside a
character included, the look-back may start there — belongs to a key that starts at a character
boundary and ends at one: `input[i..i+len]` never panics. -/
theorem dictionary_match_is_on_boundaries (lexs : List (List (List Nat))) (hv : ValidKeys lexs)
    (input : Text) (i len : Nat) (h : len ∈ lookupLens lexs ((utf8 input).drop i)) :
    ∃ pre w post, input = pre ++ w ++ post ∧ blen pre = i ∧ blen w = len :=
  lookup_sliceOk hv h

/-- **`has_non_break_word` never panics** for valid UTF-8 keys, both variants of the `Equal` arm, every
text and every candidate byte offset (was "not proved" in round 1). -/
theorem checker_never_panics (v : CkVariant) (lexs : List (List (List Nat))) (hv : ValidKeys lexs)
    (input : Text) (eosB : Nat) : hasNonBreakWord v lexs input eosB ≠ .panic :=
  hasNonBreakWord_no_panic v hv input eosB

/-- `get_eos` never panics (valid UTF-8 keys), any limit -/
theorem get_eos_never_panics (v : CkVariant) (limit : Nat) (ck : Option (List (List (List Nat))))
    (hv : ValidChecker ck) (input : Text) :
    getEos v limit ck input ≠ .panic ∧ getEosB v limit ck input ≠ .panic := by
  have h := getEos_no_panic (v := v) hv limit input
  refine ⟨h, ?_⟩
  rw [getEosB_eq]
  cases hg : getEos v limit ck input with
  | ok r => simp [Res.mapR]
  | panic => exact absurd hg h

/-- **The window edge** (clause "no break inside a multi-character dictionary word that contains the
terminator", for texts longer than the window).  `get_eos` looks for terminators in the first `limit`
characters only, but the checker is given the **whole** remaining text: if a dictionary key that
starts within the 30-byte look-back before the end of the window continues **beyond** the window
(`key <+: (utf8 input).drop i` is about all bytes of `input`, not of `input.take limit`), then
`get_eos` does not answer the window end as a sentence end — for both variants of the checker arm. -/
theorem no_break_at_window_edge_inside_word (v : CkVariant) (limit : Nat) (hl : 1 ≤ limit)
    (lexs : List (List (List Nat))) (input : Text) (hne : input ≠ [])
    (i : Nat) (lex : List (List Nat)) (hlex : lex ∈ lexs) (key : List Nat) (hkey : key ∈ lex)
    (hpre : key <+: (utf8 input).drop i)
    (h1 : blen (input.take limit) - 30 ≤ i) (h2 : i < blen (input.take limit))
    (h3 : blen (input.take limit) < i + key.length) :
    getEos v limit (some lexs) input ≠ .ok (.pos limit) := by
  intro h
  have hkne : key ≠ [] := by
    intro hn; subst hn; simp at h3; omega
  cases v with
  | cur =>
    have := no_break_in_multichar_word limit hl lexs input hne limit h i h1 h2 lex hlex key hkey hkne hpre
    omega
  | fix =>
    have := no_break_in_multichar_word_fix limit hl lexs input hne limit h i h1 h2 lex hlex key hkey hkne hpre
    omega

/-- **The checker must see the whole text, not the window** (the change `has_non_break_word(s, eos)`
instead of `(input, eos)` is a different function).  `ばな。なです。`, window 3, dictionary `{な。な}`:
the terminator is the last character of the window and lies inside the dictionary word; with the whole
text the loop body vetoes the candidate, with the window it would accept it; `get_eos` answers the
provisional `-9` and the text stays one sentence. -/
theorem window_vs_whole_witness (v : CkVariant) :
    let input : Text := [0x3070, 0x306A, 0x3002, 0x306A, 0x3067, 0x3059, 0x3002]
    let lexs : List (List (List Nat)) := [[[0xE3, 0x81, 0xAA, 0xE3, 0x80, 0x82, 0xE3, 0x81, 0xAA]]]
    examine v (some lexs) input (input.take 3) 3 = .veto ∧
    examine v (some lexs) (input.take 3) (input.take 3) 3 = .accept 3 ∧
    getEos v 3 (some lexs) input = .ok (.neg 3) ∧
    getEosB v 3 (some lexs) input = .ok (-9) ∧
    split v 3 (some lexs) input = .ok [⟨0, 21, input⟩] := by
  cases v <;> decide

/-- ITEMIZE_HEADER `^([AN])([DOT])$`: `isItemizeHeader` = "the whole window is in the language of
`([AN])([DOT])`" -/
theorem itemize_header_regex_spec (s : Text) : isItemizeHeader s = true ↔ reItemize.Matches s :=
  isItemizeHeader_spec s

/-- EOS_ITEMIZE_HEADER `([AN])([DOT])\z`: `endsWithItemize` (on the reversed text) = "some suffix of the
text is in the language of `([AN])([DOT])`" -/
theorem eos_itemize_header_regex_spec (s : Text) :
    endsWithItemize s.reverse = true ↔ ∃ pre m, s = pre ++ m ∧ reItemize.Matches m :=
  endsWithItemize_spec s

/-- PROHIBITED_BOS `\A([CLOSE COMMA PERIODS])+`: `prohibitedBos s` is the length of the longest prefix
of `s` in the language of `([…])+`, and 0 exactly when no prefix is in it -/
theorem prohibited_bos_regex_spec (s : Text) :
    prohibitedBos s ≤ s.length ∧
    (∀ m, m ≤ s.length → reProhibitedBos.Matches (s.take m) → m ≤ prohibitedBos s) ∧
    (prohibitedBos s = 0 → ∀ m, m ≤ s.length → ¬ reProhibitedBos.Matches (s.take m)) ∧
    (prohibitedBos s ≠ 0 → reProhibitedBos.Matches (s.take (prohibitedBos s))) :=
  prohibitedBos_spec s

/-- QUOTE_MARKER `(！|？|\!|\?|[CLOSE])(と|っ|です)` with `mat.start() == 0`: `quoteMarkerAt0` = "some
prefix of the haystack is in the language" -/
theorem quote_marker_regex_spec (s : Text) :
    quoteMarkerAt0 s = true ↔ ∃ m post, s = m ++ post ∧ reQuoteMarker.Matches m :=
  quoteMarkerAt0_spec s

/-- PARENTHESIS `([OPEN])|([CLOSE])` with `captures_iter`: the language consists of the one-character
strings over the two classes, and `parenLevel` is the loop body of `parenthesis_level` (`+1` when group
1 matched, else `-1` saturating at 0) folded over the matches in text order -/
theorem parenthesis_regex_spec (s : Text) :
    (∀ u, reParenthesis.Matches u ↔ ∃ c, u = [c] ∧ (isOpen c = true ∨ isClose c = true)) ∧
    parenLevel s = (s.filter (fun c => isOpen c || isClose c)).foldl parenBody 0 :=
  ⟨fun _ => reParenthesis_matches, parenLevel_spec s⟩

/-! ## third round: the byte look-back in the veto direction, the exact converse, the last two patterns -/

/-- **The checker vetoes every candidate inside a word that starts in the look-back** (byte level, both
variants).  `has_non_break_word` probes EVERY byte offset `i` with `eosB - 30 ≤ i < eosB` of the UTF-8
bytes of the whole remaining text — offsets inside a multi-byte character included, `eosB - 30` itself may
be one.  If a non-empty key of any lexicon is a prefix of the bytes at such an `i` and crosses the
candidate, or ends at it and consists of two or more whole characters, the answer is `true`.  The text is
arbitrary, so this holds for 1-, 2-, 3- and 4-byte characters and any mix (`width`), which is where the
30 BYTES differ from "10 characters" (seeded change C16c).  `eosB` is a character boundary, as every
candidate of `get_eos` is.  Beyond 30 bytes the statement is false: `lookback_counterexample` (D12b). -/
theorem checker_vetoes_word_within_lookback (v : CkVariant) (lexs : List (List (List Nat)))
    (hv : ValidKeys lexs) (input : Text) (eosB i : Nat) (lex : List (List Nat)) (hlex : lex ∈ lexs)
    (key : List Nat) (hkey : key ∈ lex) (hne : key ≠ []) (hpre : key <+: (utf8 input).drop i)
    (hE : ∃ e, eosB = blen (input.take e)) (h1 : eosB - 30 ≤ i) (h2 : i < eosB)
    (h3 : eosB < i + key.length ∨ (i + key.length = eosB ∧ MultiCharWordAt input i key)) :
    hasNonBreakWord v lexs input eosB = .ok true :=
  hasNonBreakWord_true_of_word v hv hlex hkey hne hpre hE h1 h2 h3

/-- a dictionary word `w` (its UTF-8 form is a key) occurs in `pre ++ w ++ post` right after `pre`; the
candidate after `e` characters lies inside it or at its end, `w` has two or more characters when it ends
there, and the word starts at most 30 BYTES before the candidate -/
def WordWithinLookback (lexs : List (List (List Nat))) (pre w post : Text) (e : Nat) : Prop :=
  (∃ lex ∈ lexs, utf8 w ∈ lex) ∧ pre.length < e ∧ e ≤ pre.length + w.length ∧
  (e = pre.length + w.length → 2 ≤ w.length) ∧
  blen ((pre ++ w ++ post).take e) ≤ blen pre + 30

/-- **No break inside a multi-character dictionary word that starts within the look-back**
(`get_eos` level, both variants, every encoding width): if the dictionary word `w` occurs in the remaining
text, contains or ends with the candidate position `e` (with two or more characters when it ends there)
and starts at most 30 bytes before it, `get_eos` does not answer `e`. -/
theorem no_break_inside_word_within_lookback (v : CkVariant) (limit : Nat) (hl : 1 ≤ limit)
    (lexs : List (List (List Nat))) (hv : ValidKeys lexs) (pre w post : Text) (e : Nat)
    (hw : WordWithinLookback lexs pre w post e) :
    getEos v limit (some lexs) (pre ++ w ++ post) ≠ .ok (.pos e) := by
  obtain ⟨⟨lex, hlex, hkey⟩, he1, he2, he3, he4⟩ := hw
  intro h
  have hne : pre ++ w ++ post ≠ [] := by
    intro hn
    have := congrArg List.length hn
    simp only [List.length_append, List.length_nil] at this
    omega
  obtain ⟨k, n, pv, _, _, acc⟩ := getEos_pos hl hne h
  have hfalse := acc.noWord lexs rfl
  have hle := acc.le
  have htake : ((pre ++ w ++ post).take limit).take e = (pre ++ w ++ post).take e := by
    rw [List.take_take]
    congr 1
    simp only [List.length_take] at hle
    omega
  rw [htake] at hfalse
  -- the candidate in bytes: the bytes of `pre` and of the first `e - pre.length` characters of `w`
  have hsplit : (pre ++ w ++ post).take e = pre ++ w.take (e - pre.length) := by
    rw [List.append_assoc, List.take_append, List.take_of_length_le (by omega),
      List.take_append_of_le_length (by omega)]
  have hwne : w ≠ [] := by
    intro hn; subst hn; simp at he2; omega
  have hkne : utf8 w ≠ [] := utf8_ne_nil hwne
  have hpre : utf8 w <+: (utf8 (pre ++ w ++ post)).drop (blen pre) := by
    rw [utf8_drop_split]; exact List.prefix_append _ _
  have hpos : blen pre < blen ((pre ++ w ++ post).take e) := by
    rw [hsplit, blen_append]
    have : w.take (e - pre.length) ≠ [] := by
      intro hn
      have := congrArg List.length hn
      simp only [List.length_take, List.length_nil] at this
      omega
    have := blen_pos_of_ne_nil this
    omega
  have hend : blen ((pre ++ w ++ post).take e) ≤ blen pre + (utf8 w).length := by
    rw [hsplit, blen_append, utf8_length]
    have := blen_take_le w (e - pre.length)
    omega
  have htrue := checker_vetoes_word_within_lookback v lexs hv (pre ++ w ++ post)
    (blen ((pre ++ w ++ post).take e)) (blen pre) lex hlex (utf8 w) hkey hkne hpre ⟨e, rfl⟩
    (by omega) hpos (by
      by_cases hlt : blen ((pre ++ w ++ post).take e) < blen pre + (utf8 w).length
      · exact Or.inl hlt
      · refine Or.inr ⟨by omega, pre, w, post, rfl, rfl, rfl, ?_⟩
        apply he3
        -- the candidate is at the end of `w` in bytes, hence in characters
        apply Classical.byContradiction
        intro hne'
        have hlt' : e - pre.length < w.length := by omega
        have := blen_take_lt hlt'
        rw [hsplit, blen_append, utf8_length] at hlt
        omega)
  rw [htrue] at hfalse
  cases hfalse

/-- the same for the sentences of the iterator: no sentence except possibly the last ends inside / at the
end of a multi-character dictionary word that starts within 30 bytes before the break (the text from the
start of the sentence is `pre ++ w ++ post'`, the sentence has `e` characters) -/
theorem no_break_inside_word_within_lookback_split (v : CkVariant) (limit : Nat) (hl : 1 ≤ limit)
    (lexs : List (List (List Nat))) (hv : ValidKeys lexs) (text : Text) (l : List Sent)
    (h : split v limit (some lexs) text = .ok l) :
    ∀ x ∈ l.dropLast, ∃ before post, text = before ++ x.chunk ++ post ∧
      ∀ pre w post', x.chunk ++ post = pre ++ w ++ post' →
        ¬ WordWithinLookback lexs pre w post' x.chunk.length := by
  intro x hx
  obtain ⟨before, post, hsplit, _, hg⟩ := nonlast_is_get_eos v limit hl _ text l h x hx
  refine ⟨before, post, hsplit, ?_⟩
  intro pre w post' heq hw
  rw [heq] at hg
  exact no_break_inside_word_within_lookback v limit hl lexs hv pre w post' _ hw hg

/-- **The repaired checker, both directions** (`.fix`, valid UTF-8 keys): it answers `true` **iff** the
candidate is inside a multi-character dictionary word it can see (`InsideWord`: a key found at a byte
offset of the 30-byte look-back crosses the candidate, or a key of two or more whole characters ends at
it). -/
theorem checker_veto_iff_fix (lexs : List (List (List Nat))) (hv : ValidKeys lexs) (input : Text) (eosB : Nat)
    (hE : ∃ e, eosB = blen (input.take e)) :
    hasNonBreakWord .fix lexs input eosB = .ok true ↔ InsideWord lexs input eosB := by
  have := blocked_fix_iff hv input eosB hE
  constructor
  · intro h; exact this.mp ⟨lexs, rfl, h⟩
  · intro h
    obtain ⟨l, hl, hh⟩ := this.mpr h
    cases hl
    exact hh

/-- **The loop body of `get_eos`, exactly** (both variants, valid UTF-8 keys): a match of SENTENCE_BREAKER
ending at character `e0 ≥ 1` of the window `s` is skipped (`continue`) **iff** it is in the exemption set
`Exempt`: (1) bracket level above 0 at its end, (2) the window is an itemisation header, (3) the extended
end is followed by a quoting particle / is an itemisation header followed by と, や, の, (4) the checker
answers `true` for the extended end — for `.fix` that is `InsideWord` (`checker_veto_iff_fix`).
Otherwise the loop returns the extended end `extEnd s e0`; it never panics. -/
theorem loop_body_veto_iff (v : CkVariant) (ck : Option (List (List (List Nat)))) (hv : ValidChecker ck)
    (input s : Text) (e0 : Nat) (h0 : 1 ≤ e0) :
    (examine v ck input s e0 = .veto ↔ Exempt v ck input s e0) ∧
    (¬ Exempt v ck input s e0 → examine v ck input s e0 = .accept (extEnd s e0)) := by
  refine ⟨examine_veto_iff hv input s h0, fun hn => ?_⟩
  rcases examine_cases (v := v) hv input s h0 with ⟨h1, _⟩ | ⟨_, h2⟩
  · exact absurd h1 hn
  · exact h2

/-- **Converse clause, exact, window condition as a hypothesis** (`terminator_breaks_iff`; both variants,
every limit `≥ 1`, valid UTF-8 keys).  `get_eos` answers the sentence end `e` **iff** `e` is the extended
end of a match `e0` of SENTENCE_BREAKER **in the window** `input.take limit` (`e0 ∈ matchEnds …`: what
`find_iter` yields, `sentence_breaker_find_iter_spec`; every anchored match end is among them,
`find_iter_misses_no_terminator`) that is **not exempt**, all earlier matches in the window being exempt.
So inside the window a terminator that is not bracketed, not an itemisation header, not continued by a
quoting particle and (for `.fix`) not inside a multi-character dictionary word DOES end a sentence — at
its own extended end or at that of an earlier such terminator; a one-character dictionary entry is not in
the exemption set.  A terminator beyond the window is not in `matchEnds (input.take limit)`: D13 is excluded
by this hypothesis and stays `d13_counterexample`. -/
theorem terminator_breaks_iff (v : CkVariant) (limit : Nat) (hl : 1 ≤ limit)
    (ck : Option (List (List (List Nat)))) (hv : ValidChecker ck) (input : Text) (hne : input ≠ []) (e : Nat) :
    getEos v limit ck input = .ok (.pos e) ↔
      ∃ e0 ∈ matchEnds 0 none 0 (input.take limit),
        ¬ Exempt v ck input (input.take limit) e0 ∧
        (∀ e0' ∈ matchEnds 0 none 0 (input.take limit), e0' < e0 → Exempt v ck input (input.take limit) e0') ∧
        e = extEnd (input.take limit) e0 :=
  getEos_pos_iff hv limit hl hne e

/-- the same when the whole remaining text fits the window (`input.length ≤ limit`): no window in the
statement -/
theorem terminator_breaks_iff_fits (v : CkVariant) (limit : Nat) (hl : 1 ≤ limit)
    (ck : Option (List (List (List Nat)))) (hv : ValidChecker ck) (input : Text) (hne : input ≠ [])
    (hfit : input.length ≤ limit) (e : Nat) :
    getEos v limit ck input = .ok (.pos e) ↔
      ∃ e0 ∈ matchEnds 0 none 0 input, ¬ Exempt v ck input input e0 ∧
        (∀ e0' ∈ matchEnds 0 none 0 input, e0' < e0 → Exempt v ck input input e0') ∧ e = extEnd input e0 := by
  have := terminator_breaks_iff v limit hl ck hv input hne e
  rwa [List.take_of_length_le hfit] at this

/-- **No boundary iff everything in the window is exempt**: `get_eos` returns a negative (provisional)
value exactly when every match of SENTENCE_BREAKER in the window is exempt — in particular when the window
holds no terminator, whatever follows it (this is the D13 situation, stated as what the code does). -/
theorem no_boundary_iff (v : CkVariant) (limit : Nat) (hl : 1 ≤ limit)
    (ck : Option (List (List (List Nat)))) (hv : ValidChecker ck) (input : Text) (hne : input ≠ []) :
    (∃ e, getEos v limit ck input = .ok (.neg e)) ↔
      ∀ e0 ∈ matchEnds 0 none 0 (input.take limit), Exempt v ck input (input.take limit) e0 :=
  getEos_neg_iff hv limit hl hne

/-- **Converse clause at the iterator**: for EVERY sentence `x` the iterator yields (the last one
included), with `rest = x.chunk ++ post` the text from its start: every match of SENTENCE_BREAKER in the
window of `rest` that is not exempt has its extended end at or behind the end of `x` — a non-exempt
terminator within the window of its sentence start is followed by a break no later than its extended
end. -/
theorem terminator_breaks_split (v : CkVariant) (limit : Nat) (hl : 1 ≤ limit)
    (ck : Option (List (List (List Nat)))) (hv : ValidChecker ck) (text : Text) (l : List Sent)
    (h : split v limit ck text = .ok l) :
    ∀ x ∈ l, ∃ pre post, text = pre ++ x.chunk ++ post ∧
      ∀ e0 ∈ matchEnds 0 none 0 ((x.chunk ++ post).take limit),
        ¬ Exempt v ck (x.chunk ++ post) ((x.chunk ++ post).take limit) e0 →
        x.chunk.length ≤ extEnd ((x.chunk ++ post).take limit) e0 := by
  intro x hx
  obtain ⟨pre, post, hsplit, hne, hg⟩ := splitFuel_link_all hl _ _ _ _ h x hx
  refine ⟨pre, post, hsplit, ?_⟩
  intro e0 hm hnE
  have hne' : x.chunk ++ post ≠ [] := by simp [hne]
  rcases hg with hg | ⟨hpost, e, hg⟩
  · obtain ⟨a, _, hna, hfirst, hea⟩ := (terminator_breaks_iff v limit hl ck hv _ hne' _).mp hg
    have hle : a ≤ e0 := by
      apply Classical.byContradiction
      intro hlt
      exact hnE (hfirst e0 hm (by omega))
    rw [hea]
    exact extEnd_mono _ hle
  · subst hpost
    rw [List.append_nil] at hm hnE ⊢
    have := (no_boundary_iff v limit hl ck hv _ hne).mp ⟨e, hg⟩ e0 hm
    exact absurd this hnE

/-- **SENTENCE_BREAKER, anchored** — `([PERIODS]|・{3,}+|(?<![AN])[DOT](?![AN COMMA]))[DOT PERIODS]*|(<br>|<BR>){2,}`
written as the `RX` value `reBreaker` (alternation in the order written, possessive `{3,}+`, greedy `*` and
`{2,}`, negative look-behind and look-ahead).  The hand-written `breakerAt` answers the FIRST length in
backtracking order (leftmost-first: what `fancy_regex` reports for a match starting here), and that length
is the LARGEST the pattern can take here, so leftmost-longest semantics would agree. -/
theorem sentence_breaker_regex_spec (prev : Option Nat) (l : Text) :
    (RX.run reBreaker prev l).head? = breakerAt prev l ∧
    ∀ m ∈ RX.run reBreaker prev l, ∃ n, breakerAt prev l = some n ∧ m ≤ n :=
  breakerAt_spec prev l

/-- **`SENTENCE_BREAKER.find_iter(&s)`**: the ends of the successive non-overlapping leftmost-first matches
of `reBreaker` in the window (`RX.findIter`: each search starts where the previous match ended, the
look-behind sees the whole haystack) are exactly the ends `matchEnds` that the loop of `get_eos` examines. -/
theorem sentence_breaker_find_iter_spec (s : Text) :
    (RX.findIter reBreaker (s.length + 1) 0 none s).map (·.2) = matchEnds 0 none 0 s :=
  matchEnds_findIter (s.length + 1) s 0 none (Nat.lt_succ_self _)

/-- **SPACES `.+\s+` with `find`**: `spacesEnd s` is the end of the leftmost-first match of `reSpaces` in the
window (`.` = any character but `\n`, both `+` greedy), `none` iff there is no match; and at every position
the first length in backtracking order is the largest, so leftmost-longest would agree. -/
theorem spaces_regex_spec (s : Text) :
    (RX.findFrom reSpaces 0 none s).map (·.2) = spacesEnd s ∧
    ∀ (l : Text) (prev : Option Nat), ∀ m ∈ RX.run reSpaces prev l,
      ∃ n, (RX.run reSpaces prev l).head? = some n ∧ m ≤ n := by
  refine ⟨?_, fun l prev => reSpaces_longest l prev⟩
  rw [spacesEnd_spec s 0 none]
  cases spacesEnd s with
  | none => rfl
  | some e => simp

/-- **What `suf=` of the answer line is**: the value of `get_eos` on the suffix of the text at each of its
first `sufCount` character positions (the slice `&text[b..]` never panics) — the harness computes the same
list with the real `SentenceDetector`, so every alignment of the 30-byte look-back and of the window
against the characters of a generated text is compared, not only the ones the iterator visits -/
theorem suffix_values_spec (v : CkVariant) (limit : Nat) (ck : Option (List (List (List Nat)))) (text : Text) :
    suffixValues v limit ck text =
      (List.range (min (text.length + 1) (sufCount text))).map (fun k =>
        match getEosB v limit ck (text.drop k) with
        | .panic => "PANIC"
        | .ok rv => toString rv) := by
  unfold suffixValues
  apply List.map_congr_left
  intro k _
  simp only [strSlice_tail]
  cases getEosB v limit ck (List.drop k text) <;> rfl

/-! ## non-vacuity -/

/-- the hypotheses of the theorems above are satisfiable and the conclusions are not trivially true:
a text with three sentences, brackets, a quote particle and a checker -/
example (v : CkVariant) :
    split v 8 (some [[[0x61, 0x2E, 0x62]]])
        [0xFF08, 0x3042, 0x3002, 0xFF09, 0x3002, 0x61, 0x2E, 0x62, 0x21, 0x3068, 0x3044, 0xFF01, 0x3046]
      = .ok [⟨0, 15, [0xFF08, 0x3042, 0x3002, 0xFF09, 0x3002]⟩,
             ⟨15, 28, [0x61, 0x2E, 0x62, 0x21, 0x3068, 0x3044, 0xFF01]⟩,
             ⟨28, 31, [0x3046]⟩] := by
  cases v <;> decide

/-- the hypotheses of the converse theorems are satisfiable: `あ。い` has one match, ending at 2,
which is not vetoed -/
example (v : CkVariant) : (2 : Nat) ∈ matchEnds 0 none 0 ([0x3042, 0x3002, 0x3044].take 4096) ∧
    examine v none [0x3042, 0x3002, 0x3044] ([0x3042, 0x3002, 0x3044].take 4096) 2 ≠ .veto ∧
    parenLevel (([0x3042, 0x3002, 0x3044].take 4096).take 2) = 0 ∧
    isItemizeHeader ([0x3042, 0x3002, 0x3044].take 4096) = false := by
  cases v <;> decide

/-- `。` inside the match `！。` (position 2 of `あ！。い`) is such an inner terminator occurrence -/
example : breakerAt (prevChar [0x3042, 0xFF01, 0x3002, 0x3044] 2) ([0x3042, 0xFF01, 0x3002, 0x3044].drop 2) = some 1 ∧
    matchEnds 0 none 0 [0x3042, 0xFF01, 0x3002, 0x3044] = [3] := by
  decide

example (v : CkVariant) : (1 : Nat) ≤ 8 ∧ ([0x3042] : Text) ≠ [] ∧ IsTerminator [0x3002] ∧
    IsTerminator [0x30FB, 0x30FB, 0x30FB] ∧
    IsTerminator [0x3C, 0x62, 0x72, 0x3E, 0x3C, 0x42, 0x52, 0x3E] ∧
    getEos v 4096 (some [[[0x3042, 0xE3, 0x80, 0x82]]]) [0x3042, 0x3002, 0x3042] = .ok (.pos 2) := by
  refine ⟨by decide, by decide, Or.inl ⟨_, rfl, Or.inl (by decide)⟩,
    Or.inr (Or.inl ⟨3, by decide, by decide⟩), Or.inr (Or.inr ⟨2, by decide, by decide, by decide⟩),
    by cases v <;> decide⟩

/-- the hypotheses of `terminator_breaks_fix` are satisfiable with a dictionary that lists the
terminator itself: `あ。あ` with `{。, あ}` — the match ending at 2 is at level 0, not continued, and the
only keys in the look-back are the one-character words `あ` (ends before the break) and `。` -/
example : (2 : Nat) ∈ matchEnds 0 none 0 ([0x3042, 0x3002, 0x3042].take 4096) ∧
    examine .fix (some [[[0xE3, 0x80, 0x82], [0xE3, 0x81, 0x82]]]) [0x3042, 0x3002, 0x3042]
      ([0x3042, 0x3002, 0x3042].take 4096) 2 = .accept 2 ∧
    examine .cur (some [[[0xE3, 0x80, 0x82], [0xE3, 0x81, 0x82]]]) [0x3042, 0x3002, 0x3042]
      ([0x3042, 0x3002, 0x3042].take 4096) 2 = .veto ∧
    OneCharWordAt [0x3042, 0x3002, 0x3042] 3 [0xE3, 0x80, 0x82] ∧
    MultiCharWordAt [0x3042, 0x3002, 0x3042] 0 [0xE3, 0x81, 0x82, 0xE3, 0x80, 0x82] := by
  refine ⟨by decide, by decide, by decide, ⟨[0x3042], 0x3002, [0x3042], rfl, by decide, by decide⟩,
    ⟨[], [0x3042, 0x3002], [0x3042], rfl, by decide, by decide, by decide⟩⟩

/-- `ValidKeys` / `ValidChecker` are satisfiable by a real dictionary (`{な。な, 。}`), and `strSlice`
does answer `none` off a boundary (so `panic` in the byte-offset functions is not vacuous) -/
example : ValidKeys [[utf8 [0x306A, 0x3002, 0x306A], utf8 [0x3002]]] ∧
    ValidChecker (some [[utf8 [0x306A, 0x3002, 0x306A]]]) ∧ ValidChecker none ∧
    strSlice [0x3042, 0x3002] 0 1 = none ∧ strSlice [0x3042, 0x3002] 3 7 = none ∧
    strSlice [0x3042, 0x3002] 4 3 = none ∧ strSlice [0x3042, 0x3002] 3 6 = some [0x3002] ∧
    isContinuousPhraseB [0x3042, 0x3002] 4 = none := by
  refine ⟨?_, ?_, trivial, by decide, by decide, by decide, by decide, by decide⟩
  · intro lex hlex key hkey
    simp only [List.mem_singleton] at hlex
    subst hlex
    simp only [List.mem_cons, List.not_mem_nil, or_false] at hkey
    rcases hkey with rfl | rfl
    · exact ⟨_, rfl⟩
    · exact ⟨_, rfl⟩
  · intro lex hlex key hkey
    simp only [List.mem_singleton] at hlex
    subst hlex
    simp only [List.mem_singleton] at hkey
    subst hkey
    exact ⟨_, rfl⟩

/-- a key that is not valid UTF-8 (a lone continuation byte `0x82`) does make the model's checker
panic: the hypothesis `ValidKeys` of `checker_never_panics` is needed -/
example : hasNonBreakWord .fix [[[0x82]]] [0x3042, 0x3002] 6 = .panic := by decide

/-- the hypotheses of `no_break_at_window_edge_inside_word` are satisfiable on a text longer than the
window: `ばな。なです。`, window 3 (9 bytes), the key `な。な` matches at byte 3 and ends at byte 12 -/
example :
    let input : Text := [0x3070, 0x306A, 0x3002, 0x306A, 0x3067, 0x3059, 0x3002]
    let key : List Nat := [0xE3, 0x81, 0xAA, 0xE3, 0x80, 0x82, 0xE3, 0x81, 0xAA]
    3 < input.length ∧ key <+: (utf8 input).drop 3 ∧ blen (input.take 3) - 30 ≤ 3 ∧
      3 < blen (input.take 3) ∧ blen (input.take 3) < 3 + key.length := by
  decide

/-- texts without any terminator, shorter and longer than the window, and the provisional boundary at
the last white space: `あいうえ` (limit 2 → `-6`, one sentence), `あい うえお` (limit 5 → `-7`) -/
example (v : CkVariant) :
    getEosB v 2 none [0x3042, 0x3044, 0x3046, 0x3048] = .ok (-6) ∧
    splitB v 2 none [0x3042, 0x3044, 0x3046, 0x3048] = .ok [⟨0, 12, [0x3042, 0x3044, 0x3046, 0x3048]⟩] ∧
    getEosB v 5 none [0x3042, 0x3044, 0x20, 0x3046, 0x3048, 0x304A] = .ok (-7) ∧
    splitB v 5 none [0x3042, 0x3044, 0x20, 0x3046, 0x3048, 0x304A] =
      .ok [⟨0, 16, [0x3042, 0x3044, 0x20, 0x3046, 0x3048, 0x304A]⟩] := by
  cases v <;> decide

/-- the regular-expression languages are inhabited: `1.` ∈ `([AN])([DOT])`, `）、。` ∈ `([CLOSE COMMA PERIODS])+`,
`！です` ∈ QUOTE_MARKER -/
example : reItemize.Matches [0x31, 0x2E] ∧ reProhibitedBos.Matches [0xFF09, 0x3001, 0x3002] ∧
    reQuoteMarker.Matches [0xFF01, 0x3067, 0x3059] ∧ prohibitedBos [0xFF09, 0x3001, 0x3002, 0x3042] = 3 := by
  refine ⟨reItemize_matches.mpr ⟨_, _, rfl, by decide, by decide⟩,
    matches_plus_cls.mpr ⟨by simp, by decide⟩,
    reQuoteMarker_matches.mpr ⟨_, Or.inl rfl, Or.inr (Or.inr rfl)⟩, by decide⟩

/-! ### third round -/

/-- **every encoding width, look-back start inside a character**: a dictionary word that starts within
30 bytes before the candidate is seen by the checker (`true`) — `w×29 !` (1-byte characters, the word
starts exactly 30 bytes before the candidate), `é` + `é×14 !` (2-byte, the look-back starts at byte 1 of
`é`), `あ` + `あ×8 abc!` (3-byte, byte 1 of `あ`), `𠮷` + `𠮷×7 !` (4-byte, byte 3 of `𠮷`) -/
example (v : CkVariant) :
    hasNonBreakWord v [[utf8 (List.replicate 29 0x77 ++ [0x21])]]
      (List.replicate 29 0x77 ++ [0x21] ++ [0x78]) 30 = .ok true ∧
    hasNonBreakWord v [[utf8 (List.replicate 14 0xE9 ++ [0x21])]]
      ([0xE9] ++ (List.replicate 14 0xE9 ++ [0x21]) ++ [0x78]) 31 = .ok true ∧
    hasNonBreakWord v [[utf8 (List.replicate 8 0x3042 ++ [0x61, 0x62, 0x63, 0x21])]]
      ([0x3042] ++ (List.replicate 8 0x3042 ++ [0x61, 0x62, 0x63, 0x21]) ++ [0x78]) 31 = .ok true ∧
    hasNonBreakWord v [[utf8 (List.replicate 7 0x20BB7 ++ [0x21])]]
      ([0x20BB7] ++ (List.replicate 7 0x20BB7 ++ [0x21]) ++ [0x78]) 33 = .ok true := by
  cases v <;> decide

/-- … and one byte further the word is no longer seen (`false`: the look-back limit D12b), for every width:
`w×30 !`, `é×15 !`, `あ×9 abc!`, `𠮷×7 。` are 31 bytes each, the candidate is at byte 31, the look-back
starts at byte 1 (inside the first character for the last three) and the word at byte 0 -/
example (v : CkVariant) :
    hasNonBreakWord v [[utf8 (List.replicate 30 0x77 ++ [0x21])]]
      (List.replicate 30 0x77 ++ [0x21] ++ [0x78]) 31 = .ok false ∧
    hasNonBreakWord v [[utf8 (List.replicate 15 0xE9 ++ [0x21])]]
      (List.replicate 15 0xE9 ++ [0x21] ++ [0x78]) 31 = .ok false ∧
    hasNonBreakWord v [[utf8 (List.replicate 9 0x3042 ++ [0x61, 0x62, 0x63, 0x21])]]
      (List.replicate 9 0x3042 ++ [0x61, 0x62, 0x63, 0x21] ++ [0x78]) 31 = .ok false ∧
    hasNonBreakWord v [[utf8 (List.replicate 7 0x20BB7 ++ [0x3002])]]
      (List.replicate 7 0x20BB7 ++ [0x3002] ++ [0x78]) 31 = .ok false := by
  cases v <;> decide

/-- the hypothesis `WordWithinLookback` is satisfiable for each width (the four words above, the candidate
at the end of the word) and `hE` (`eosB` is a character boundary) is what `get_eos` provides -/
example :
    WordWithinLookback [[utf8 (List.replicate 29 0x77 ++ [0x21])]] [] (List.replicate 29 0x77 ++ [0x21]) [0x78] 30 ∧
    WordWithinLookback [[utf8 (List.replicate 14 0xE9 ++ [0x21])]] [0xE9] (List.replicate 14 0xE9 ++ [0x21]) [0x78] 16 ∧
    WordWithinLookback [[utf8 (List.replicate 8 0x3042 ++ [0x61, 0x62, 0x63, 0x21])]] [0x3042]
      (List.replicate 8 0x3042 ++ [0x61, 0x62, 0x63, 0x21]) [0x78] 13 ∧
    WordWithinLookback [[utf8 (List.replicate 7 0x20BB7 ++ [0x21])]] [0x20BB7] (List.replicate 7 0x20BB7 ++ [0x21]) [0x78] 9 ∧
    -- a word that CONTAINS the terminator: `な。な` in `ばな。なです。`, candidate after 3 characters
    WordWithinLookback [[utf8 [0x306A, 0x3002, 0x306A]]] [0x3070] [0x306A, 0x3002, 0x306A] [0x3067, 0x3059, 0x3002] 3 ∧
    (∃ e, (31 : Nat) = blen (([0xE9] ++ (List.replicate 14 0xE9 ++ [0x21]) ++ [0x78]).take e)) := by
  refine ⟨⟨⟨_, List.Mem.head _, List.Mem.head _⟩, by decide, by decide, by decide, by decide⟩,
          ⟨⟨_, List.Mem.head _, List.Mem.head _⟩, by decide, by decide, by decide, by decide⟩,
          ⟨⟨_, List.Mem.head _, List.Mem.head _⟩, by decide, by decide, by decide, by decide⟩,
          ⟨⟨_, List.Mem.head _, List.Mem.head _⟩, by decide, by decide, by decide, by decide⟩,
          ⟨⟨_, List.Mem.head _, List.Mem.head _⟩, by decide, by decide, by decide, by decide⟩,
          ⟨16, by decide⟩⟩

/-- each of the four exemptions is inhabited and so is its complement: `（あ。` (bracket), the window `1.`
(itemisation header; never reached by the loop — the period after an alphanumeric is no match), `あ！と`
(quoting particle), `ばな。な` with `{な。な}` (inside a dictionary word); `あ。い` is not exempt and
`get_eos` answers its extended end -/
example (v : CkVariant) :
    Exempt v none [0xFF08, 0x3042, 0x3002] [0xFF08, 0x3042, 0x3002] 3 ∧
    Exempt v none [0x31, 0x2E] [0x31, 0x2E] 2 ∧
    Exempt v none [0x3042, 0xFF01, 0x3068] [0x3042, 0xFF01, 0x3068] 2 ∧
    Exempt v (some [[utf8 [0x306A, 0x3002, 0x306A]]]) [0x3070, 0x306A, 0x3002, 0x306A] [0x3070, 0x306A, 0x3002, 0x306A] 3 ∧
    InsideWord [[utf8 [0x306A, 0x3002, 0x306A]]] [0x3070, 0x306A, 0x3002, 0x306A] 9 ∧
    ¬ Exempt v none [0x3042, 0x3002, 0x3044] [0x3042, 0x3002, 0x3044] 2 ∧
    (2 : Nat) ∈ matchEnds 0 none 0 ([0x3042, 0x3002, 0x3044].take 4096) ∧
    getEos v 4096 none [0x3042, 0x3002, 0x3044] = .ok (.pos (extEnd [0x3042, 0x3002, 0x3044] 2)) := by
  refine ⟨Or.inl (by decide), Or.inr (Or.inl (by decide)), Or.inr (Or.inr (Or.inl ⟨by decide, by decide⟩)),
    Or.inr (Or.inr (Or.inr ⟨_, rfl, by cases v <;> decide⟩)), ?_, ?_, by decide, by cases v <;> decide⟩
  · exact ⟨3, by decide, by decide, _, List.Mem.head _, _, List.Mem.head _, by decide, by decide, Or.inl (by decide)⟩
  · rintro (h | h | ⟨_, h⟩ | ⟨_, h, _⟩)
    · revert h; decide
    · revert h; decide
    · revert h; decide
    · cases h

/-- the two patterns as data, run by the backtracking semantics: `。。a` (lengths 2 then 1), `・・・・。`
(possessive: only 5), a period after an alphanumeric (no match), `<br><BR><br>x` (12 then 8), the matches
`find_iter` yields in `あ。い！？う`, and SPACES on `あ い う` (backtracks to the last blank) and on
`あ\n\n い` (the line break and all white space behind it) -/
example :
    RX.run reBreaker (some 0x3042) [0x3002, 0x3002, 0x61] = [2, 1] ∧
    RX.run reBreaker none [0x30FB, 0x30FB, 0x30FB, 0x30FB, 0x3002] = [5, 4] ∧
    RX.run reBreaker (some 0x61) [0x2E, 0x3042] = [] ∧
    RX.run reBreaker (some 0x3042) [0x2E, 0x3042] = [1] ∧
    RX.run reBreaker none [0x3C, 0x62, 0x72, 0x3E, 0x3C, 0x42, 0x52, 0x3E, 0x3C, 0x62, 0x72, 0x3E, 0x78] = [12, 8] ∧
    RX.findIter reBreaker 7 0 none [0x3042, 0x3002, 0x3044, 0xFF01, 0xFF1F, 0x3046] = [(1, 2), (3, 5)] ∧
    RX.findFrom reSpaces 0 none [0x3042, 0x20, 0x3044, 0x20, 0x3046] = some (0, 4) ∧
    RX.findFrom reSpaces 0 none [0x3042, 0x0A, 0x0A, 0x20, 0x3044] = some (0, 4) ∧
    RX.findFrom reSpaces 0 none [0x0A, 0x3042, 0x3044] = none := by
  decide

end C16
