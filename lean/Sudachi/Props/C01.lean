import Sudachi.Proofs.Edit
import Sudachi.Proofs.Partition
import Sudachi.Proofs.PartitionUtf8
import Sudachi.Props.C02
import Sudachi.Model.TotalIO
/-!
# C01 — Morphemes partition the original text byte-for-byte (lossless surfaces)

Model: `EditM` (offset map through any number of edit batches, `Model/Edit.lean`).  A morpheme's
byte range in the original text is `m2o[b] .. m2o[e]` for its range `b..e` in the rewritten text
(`morpheme.rs: begin/end/surface`, `buffer/mod.rs: to_orig_byte_idx, orig_slice`), i.e.
`valAt l b .. valAt l e`, and its surface is that slice of the original bytes (`EditM.slice`).

What is proved here: for **every** original text, **every** admissible sequence of edit batches
(whatever plugin produced them) and **every** chain of token boundaries of the rewritten text that
starts at 0, ends at its length and is non-decreasing, the surfaces partition the original text.
That the token boundaries produced by the lattice search do form such a chain is proved in the
lattice model (`C02.path_contiguous`) and composed with the partition theorem here
(`lattice_tokens_partition`); for A/B splitting and the path-rewrite plugins it is the subject of the
split model (C09) and the rewrite model (C14); that the bundled input plugins emit admissible batches
is C07 (`…_edits_ok`).
-/
namespace C01
open EditM

/-- **Partition.**  With `cuts` the token end offsets (in the rewritten text) in text order:
the images of the cuts are non-decreasing (tokens are in text order and abut; empty ranges are
permitted), the first token begins at 0, the last ends at the original length, every boundary is
a character boundary of the original text, and the surfaces concatenate to the original text. -/
theorem surfaces_partition (o : List Nat) (hne : o ≠ []) (h0 : BoOf o 0)
    (bs : List (List (Edit Nat))) (l : List (P Nat))
    (hok : BatchesOk isStart (identFrom 0 o) bs) (lv : LenV) (h : commitAllV lv (identFrom 0 o) bs = some l)
    (cuts : List Nat) (hm : Mono (0 :: cuts))
    (hlast : (0 :: cuts).getLast (by simp) = (textOf l).length)
    (hb : ∀ c ∈ cuts, ∀ hc : c < l.length, isB isStart l[c]) :
    (pieces o 0 (cuts.map (valAt l))).flatten = o ∧
    valAt l 0 = 0 ∧
    valAt l ((0 :: cuts).getLast (by simp)) = o.length ∧
    (∀ c ∈ cuts, c < l.length → BoOf o (valAt l c)) ∧
    (∀ c ∈ cuts, c ≤ (textOf l).length → valAt l c ≤ o.length) := by
  have hi := commitAllV_inv lv isStart (BoOf o) o.length h0 bs _ l (ident_inv o hne) hok h
  refine ⟨surfaces_concat isStart o l hi cuts hm hlast, hi.first, ?_, ?_, ?_⟩
  · rw [hlast]; exact inv_last hi
  · intro c hc hlt; exact inv_boundary hi c hlt (hb c hc hlt)
  · intro c _ hle; exact inv_le_last hi c hle

/-- order of the images: a later cut never maps before an earlier one (tokens never overlap or
go backwards in the original text) -/
theorem images_monotone (o : List Nat) (hne : o ≠ []) (h0 : BoOf o 0)
    (bs : List (List (Edit Nat))) (l : List (P Nat))
    (hok : BatchesOk isStart (identFrom 0 o) bs) (lv : LenV) (h : commitAllV lv (identFrom 0 o) bs = some l)
    (i j : Nat) (hij : i ≤ j) (hj : j < l.length) : valAt l i ≤ valAt l j := by
  have hi := commitAllV_inv lv isStart (BoOf o) o.length h0 bs _ l (ident_inv o hne) hok h
  exact mono_valAt hi.mono hij hj

/-- the pieces are exactly the per-token surfaces: piece `k` is the slice between the images of
cut `k-1` and cut `k` -/
theorem pieces_are_slices (o : List Nat) (a b : Nat) (rest : List Nat) :
    pieces o a (b :: rest) = slice o a b :: pieces o b rest := rfl

/-- **Tokens straight from the lattice partition the original text** (`path_contiguous` of DESIGN §3
C01 composed with `surfaces_partition`).  `l` is the offset map after any admissible edit batches,
`t = textOf l` the rewritten text, whose first byte starts a character (`hstart`: it is UTF-8); the
lattice is built over the `nchars t` characters of `t` from any candidates `F` (non-empty, inserted by
begin position) with any connection costs, and EOS is connected.  The tokens are the nodes of the
back-pointer path (`fill_top_path`), their byte ends `cuts` are read from the character→byte table
(`resolve_best_path`: `to_curr_byte_idx(node.end())`, model `c2b t`), every table access in range.
Then the surfaces — slices of the original text between the images of consecutive cuts —
concatenate to the original text, the first token begins at 0, the last ends at the original length,
every token boundary is a character boundary of the original text and lies inside it. -/
theorem lattice_tokens_partition (o : List Nat) (hne : o ≠ []) (h0 : BoOf o 0)
    (bs : List (List (Edit Nat))) (l : List (P Nat))
    (hok : BatchesOk isStart (identFrom 0 o) bs) (lv : LenV) (h : commitAllV lv (identFrom 0 o) bs = some l)
    (hstart : BoOf (textOf l) 0)
    (conn : Nat → Nat → Int) (F : List Vit.Node) (hwf : Vit.WF F)
    (hs : F.Pairwise (fun a b => a.b ≤ b.b)) (v : Int)
    (heos : Vit.eosCost conn (Vit.build conn F Vit.init) (nchars (textOf l)) = some v) :
    let p := Vit.bestPath conn (Vit.build conn F Vit.init) (nchars (textOf l))
    let cuts := p.map (fun n => ((c2b (textOf l))[n.e]?).getD 0)
    (pieces o 0 (cuts.map (valAt l))).flatten = o ∧
    valAt l 0 = 0 ∧
    valAt l ((0 :: cuts).getLast (by simp)) = o.length ∧
    (∀ c ∈ cuts, BoOf o (valAt l c)) ∧
    (∀ c ∈ cuts, valAt l c ≤ o.length) ∧
    (∀ n ∈ p, n.e < (c2b (textOf l)).length) := by
  intro p cuts
  have hi := commitAllV_inv lv isStart (BoOf o) o.length h0 bs _ l (ident_inv o hne) hok h
  have hlenl := shape_length hi.shape
  obtain ⟨_, _, _, hmono, hlast, hin⟩ := C02.path_contiguous conn F hwf hs (nchars (textOf l)) v heos
    (c2b (textOf l)) (c2b_spec (textOf l)).1 (by rw [c2b_length]; omega)
  simp only [c2b_head (textOf l) hstart, c2b_last (textOf l), Option.getD_some] at hmono hlast
  -- every cut is an entry of the table, hence a character boundary of the rewritten text
  have hbo : ∀ c ∈ cuts, BoOf (textOf l) c := by
    intro c hc
    obtain ⟨n, hn, rfl⟩ := List.mem_map.mp hc
    have hlt := hin n hn
    rw [List.getElem?_eq_getElem hlt, Option.getD_some]
    exact (c2b_spec (textOf l)).2 _ (List.getElem_mem hlt)
  have hle : ∀ c ∈ cuts, c ≤ (textOf l).length := by
    intro c hc
    rcases hbo c hc with h1 | ⟨h1, _⟩ <;> omega
  obtain ⟨r1, r2, r3, r4, r5⟩ := surfaces_partition o hne h0 bs l hok lv h cuts hmono hlast
    (fun c hc hlt => isB_of_boOf hi.shape c (hbo c hc) hlt)
  exact ⟨r1, r2, r3, fun c hc => r4 c hc (by have := hle c hc; omega), fun c hc => r5 c hc (hle c hc), hin⟩

/-- non-vacuity: `宇宙人`, first character replaced by two characters (six bytes), tokens cut
after 3, 6 and 12 bytes of the rewritten text ↦ original ranges 0..3, 3..3 (empty), 3..9. -/
example :
    let o := [0xE5, 0xAE, 0x87, 0xE5, 0xAE, 0x99, 0xE4, 0xBA, 0xBA]
    let b1 : List (Edit Nat) := [⟨0, 3, [0xE3, 0x81, 0x82, 0xE3, 0x81, 0x84]⟩]
    (commitAll (identFrom 0 o) [b1]).map (fun l => [3, 6, 12].map (valAt l)) = some [3, 3, 9] := by
  decide

/-- non-vacuity of `lattice_tokens_partition`: `宇宙人` with the first two characters replaced by `あい`
(rewritten text `あい人`: 9 bytes, 3 characters, table `[0, 3, 6, 9]`), candidates `あ`, `あい`, `い`, `人`;
EOS is connected (cost 5), the lattice path is `あい|人`, its byte ends are 6 and 9 and their images in
the original text are 6 and 9. -/
example :
    let o := [0xE5, 0xAE, 0x87, 0xE5, 0xAE, 0x99, 0xE4, 0xBA, 0xBA]
    let b1 : List (Edit Nat) := [⟨0, 6, [0xE3, 0x81, 0x82, 0xE3, 0x81, 0x84]⟩]
    let F : List Vit.Node := [⟨0, 1, 1, 1, 5⟩, ⟨0, 2, 2, 2, 3⟩, ⟨1, 2, 1, 1, 5⟩, ⟨2, 3, 1, 1, 2⟩]
    let conn : Nat → Nat → Int := fun _ _ => 0
    (commitAll (identFrom 0 o) [b1]).map (fun l =>
      (textOf l, nchars (textOf l), c2b (textOf l),
       Vit.eosCost conn (Vit.build conn F Vit.init) (nchars (textOf l)),
       (Vit.bestPath conn (Vit.build conn F Vit.init) (nchars (textOf l))).map
          (fun n => valAt l (((c2b (textOf l))[n.e]?).getD 0))))
      = some ([0xE3, 0x81, 0x82, 0xE3, 0x81, 0x84, 0xE4, 0xBA, 0xBA], 3, [0, 3, 6, 9], some 5, [6, 9]) ∧
    BoOf [0xE3, 0x81, 0x82, 0xE3, 0x81, 0x84, 0xE4, 0xBA, 0xBA] 0 ∧
    Vit.WF F ∧ F.Pairwise (fun a b => a.b ≤ b.b) := by
  refine ⟨by decide, Or.inr ⟨by decide, by decide⟩,
    by intro n hn; simp at hn; rcases hn with rfl | rfl | rfl | rfl <;> decide, by decide⟩

/-! ## the whole analysis: every mode, every plugin stack, every dictionary -/

open Total Partition Oov in
/-- **`tokens_partition_original` — the property for the whole of `do_tokenize`.**  `Total.tokenize .d6fix lv cfg orig` is
the analysis as the driver executes it for C03's `pipe` lines (`start_build`, every input-text plugin followed by `commit`
with either length guard `lv`, `build`, `build_lattice` over the configured providers and lexicon `cfg`, the `i32` lattice,
`connect_eos`, `fill_top_path`, `resolve_best_path`, the word-info + path-rewrite stage `cfg.rewrite`, `split_path` with the
repaired `NodeSplitIterator::next`).  The split MODE and the DICTIONARY enter through `cfg.lex` and through the unit
lengths `cfg.rewrite` attaches to every token (none in mode C; ANY list of lengths in modes A/B — well-formedness of the
split declarations is NOT assumed), the PLUGIN STACKS through `cfg.inputPlugins`, `cfg.providers`, `cfg.rewrite`.

For every result `r` the analysis returns: either the normalised text is empty and there is no morpheme, or it is not
empty, there is at least one morpheme, EVERY accessor of EVERY morpheme is defined (`Total.access`: `begin`, `end`,
`begin_c`, `end_c`, `surface` — no index out of range, no `debug_assert`, no slice off a boundary: this is also the full
statement `morpheme_access_total` that `C03.morpheme_offsets_defined_partial` leaves open), and the ranges
`[begin, end)` are a partition of the ORIGINAL text (`IsPartition`: first begins at 0, each begins where the previous ended,
last ends at the length, none backwards, all on character boundaries, slices concatenate to the text), `surface()` is the
original text in `[begin, end)` and `begin_c`/`end_c` count the code points before `begin`/`end`.

Hypotheses that remain, each of them necessary as far as I can see:
* `horig`  the input begins with the first byte of a character (it is a `&str`);
* `hplug`  `Partition.PluginOk`: every input-text plugin emits sorted, non-overlapping, in-range edits on character starts
           and none on an empty text — `resolve_edits` checks none of it (C07 `*_edits_ok` for the bundled ones; third-party
           plugins are outside);
* `hutf`   the rewritten text has as many character starts as it decodes to characters (`modified` is a `String`; the
           model's decoder does not look at continuation bytes);
* `hmk`    the buffer is the modelled `InputBuffer::build` (gives candidates inside the text; C13 `built_buffer_well_formed`);
* `hrowsz` fewer than 65536 candidates end at one boundary (`u16` row index of the back-pointer, nothing in the code
           enforces it: `C03.u16_cast_wraps_counterexample`);
* `hrew`   the word-info / path-rewrite stage maps a tiling by forward tokens on character starts to such a tiling —
           discharged for every configured stack of `JoinNumericPlugin`/`JoinKatakanaOovPlugin` by C14
           (`rewrite_stack_tiles` below) and for the stage without plugin (`pipe_tokens_partition`).
No hypothesis on costs, on the connection matrix, on the length of the text or on the shape of the dictionary. -/
theorem tokens_partition_original (lv : LenV) (cfg : Cfg) (orig : List Nat) (horig : BoOf orig 0)
    (hplug : ∀ p ∈ cfg.inputPlugins, PluginOk orig p)
    (hutf : ∀ l0 l chars, startBuild orig = some l0 → rewriteInput lv cfg.inputPlugins l0 = .ok l →
      Wire.utf8Decode (textOf l) = some chars → chars.length = nchars (textOf l))
    (rv : Oov.Variant) (bowFix : Bool) (tab : List (Nat × Nat))
    (hmk : ∀ chars, Oov.mkBufV rv bowFix tab chars = some (cfg.mkBuf chars))
    (hrowsz : ∀ chars nodes, Reaches lv cfg orig chars → Oov.buildLattice cfg.providers cfg.lex (cfg.mkBuf chars) = .ok nodes →
      ∀ e, (nodes.map toVit).countP (fun n => n.e == e) ≤ 4294967295)
    (hrew : ∀ (tb2c tc2b : List Nat) (nc nb : Nat) path path', PathOk tb2c tc2b nc nb path → cfg.rewrite path = .ok path' →
      PathOk tb2c tc2b nc nb (path'.map (·.1)))
    (r : Result) (h : tokenize .d6fix lv cfg orig = .ok r) :
    (textOf r.tables = [] ∧ r.morphs = []) ∨
    (textOf r.tables ≠ [] ∧ r.morphs ≠ [] ∧ ∃ acs, accessAll orig r = .ok acs ∧
      IsPartition orig (acs.map (fun a => (a.b, a.e))) ∧
      ∀ a ∈ acs, a.sb = a.b ∧ a.se = a.e ∧ a.bc = nchars (orig.take a.b) ∧ a.ec = nchars (orig.take a.e)) := by
  refine Utf8Inv.tokens_partition_core lv cfg orig horig ?_ hutf rv bowFix tab hmk hrowsz hrew r h
  intro l0 l a1 a2
  refine ⟨rewriteInput_inv lv orig horig cfg.inputPlugins l0 l hplug (startBuild_bufInv orig l0 a1) a2, fun e0 => ?_⟩
  exact rewriteInput_empty lv orig cfg.inputPlugins l0 l hplug e0 a2

open Total Partition Oov in
/-- **`hrew` is a theorem for every configured stack of path-rewrite plugins** (C14 composed): with the word-info /
path-rewrite stage built from the C14 model (`Total.rewriteOfStack`: `JoinNumericPlugin` in either variant of its loop,
`JoinKatakanaOovPlugin`, any settings, any class table, any numeric parser, any order) a tiling by forward tokens on
character starts stays one — merged tokens begin where their block begins and end where it ends
(`Rewrite.rewriteAll_coarsens`, C14 `rewrite_stack_coarsens`/`text_preserved`).  `hinfo`: the word-info look-up leaves the
four offsets of a node alone. -/
theorem rewrite_stack_tiles (nv : Rewrite.NVariant) (cat : List Nat) (P : List Char → Rewrite.POut)
    (pls : List Rewrite.Plugin) (info : EditM.NodeRange → Rewrite.Node) (units : Rewrite.Node → List Nat)
    (hinfo : ∀ n, rng (info n) = n) (tb2c tc2b : List Nat) (nc nb : Nat)
    (path : List EditM.NodeRange) (path' : List (EditM.NodeRange × List Nat))
    (hp : PathOk tb2c tc2b nc nb path) (h : rewriteOfStack nv cat P pls info units path = .ok path') :
    PathOk tb2c tc2b nc nb (path'.map (·.1)) :=
  rewriteOfStack_pathOk nv cat P pls info units hinfo tb2c tc2b nc nb path path' hp h

open Total Partition Oov in
/-- **`tokens_partition_original` for the configuration a `pipe` case line is executed with** (`TotalIO.mkCfg`: the SAME
instance of the SAME function the driver runs against the real tokenizer in the C03 correspondence stream): `hmk` (buffer
over the compiled `char.def`) and `hrew` (word-info stage without path-rewrite plugin, ANY unit table = any split mode and
any — also ill-formed — split declarations) are discharged; `hutf` is stated in its honest form: the rewritten text IS the
UTF-8 encoding of the characters it decodes to (`Partition.nchars_encode`). -/
theorem pipe_tokens_partition (lv : LenV) (orig : List Nat) (horig : BoOf orig 0)
    (plugins : List (List Nat → Outcome (List (Edit Nat)))) (rv : Oov.Variant) (bowFix : Bool)
    (rs : List CharCat.CatRange) (ps : List Oov.Provider) (lex : List Oov.Word) (conn : Nat → Nat → Int)
    (units : EditM.NodeRange → List Nat)
    (hplug : ∀ p ∈ plugins, PluginOk orig p)
    (hutf : ∀ l0 l chars, startBuild orig = some l0 → rewriteInput lv plugins l0 = .ok l →
      Wire.utf8Decode (textOf l) = some chars → textOf l = TotalIO.encode chars)
    (hrowsz : ∀ chars nodes, Reaches lv (TotalIO.mkCfg plugins rv bowFix rs ps lex conn units) orig chars →
      Oov.buildLattice ps lex (TotalIO.mkBufOf rv bowFix (CharCat.compile rs) chars) = .ok nodes →
      ∀ e, (nodes.map toVit).countP (fun n => n.e == e) ≤ 4294967295)
    (r : Result) (h : tokenize .d6fix lv (TotalIO.mkCfg plugins rv bowFix rs ps lex conn units) orig = .ok r) :
    (textOf r.tables = [] ∧ r.morphs = []) ∨
    (textOf r.tables ≠ [] ∧ r.morphs ≠ [] ∧ ∃ acs, accessAll orig r = .ok acs ∧
      IsPartition orig (acs.map (fun a => (a.b, a.e))) ∧
      ∀ a ∈ acs, a.sb = a.b ∧ a.se = a.e ∧ a.bc = nchars (orig.take a.b) ∧ a.ec = nchars (orig.take a.e)) := by
  refine tokens_partition_original lv _ orig horig hplug ?_ rv bowFix (CharCat.compile rs) ?_ hrowsz ?_ r h
  · intro l0 l chars a1 a2 a3
    rw [hutf l0 l chars a1 a2 a3, nchars_encode]
  · intro chars
    show _ = some (TotalIO.mkBufOf rv bowFix (CharCat.compile rs) chars)
    unfold TotalIO.mkBufOf
    rw [mkBufV_compile_total rv bowFix rs chars]
  · intro tb2c tc2b nc nb path path' hp hh
    simp only [TotalIO.mkCfg, TotalIO.rewriteOf] at hh
    cases hh
    rw [List.map_map]
    have : ((fun x : EditM.NodeRange × List Nat => x.1) ∘ fun n => (n, units n)) = id := rfl
    rw [this, List.map_id]
    exact hp

/-- **Tokens straight from a RECYCLED lattice partition the original text** (C02 `recycled_path_contiguous` composed with
`surfaces_partition`): `s` is ANY previous state of `struct Lattice` (rows of an earlier, longer or shorter text, a stale
`eos`); after `reset`, the inserts of the candidates `F` of the rewritten text and a successful `connect_eos`
(`Vit.analyse … = some (s3, true)`) the nodes `resolve_best_path` reads through the STORED back-pointers, with their byte
ends read from `mod_c2b`, cut the original text into surfaces that concatenate to it, start at 0, end at its length and
lie on character boundaries — `lattice_tokens_partition` for a long-lived tokenizer (what seeded change C02b and the
recycled-analyser cases of the harness are about). -/
theorem recycled_lattice_tokens_partition (o : List Nat) (hne : o ≠ []) (h0 : BoOf o 0)
    (bs : List (List (Edit Nat))) (l : List (P Nat))
    (hok : BatchesOk isStart (identFrom 0 o) bs) (lv : LenV) (h : commitAllV lv (identFrom 0 o) bs = some l)
    (hstart : BoOf (textOf l) 0) (hpos : 0 < nchars (textOf l))
    (conn : Nat → Nat → Int) (s : Vit.Lat) (F : List Vit.Node) (hwf : Vit.WF F)
    (hs : F.Pairwise (fun a b => a.b ≤ b.b)) (hF : ∀ n ∈ F, n.e ≤ nchars (textOf l))
    (s3 : Vit.Lat) (ha : Vit.analyse conn s (nchars (textOf l)) F = some (s3, true)) :
    ∃ p, Vit.resolvePath s3 = some p ∧
      let cuts := (p.map (·.1)).map (fun n => ((c2b (textOf l))[n.e]?).getD 0)
      (pieces o 0 (cuts.map (valAt l))).flatten = o ∧
      valAt l 0 = 0 ∧
      valAt l ((0 :: cuts).getLast (by simp)) = o.length ∧
      (∀ c ∈ cuts, BoOf o (valAt l c)) ∧
      (∀ c ∈ cuts, valAt l c ≤ o.length) := by
  have hi := commitAllV_inv lv isStart (BoOf o) o.length h0 bs _ l (ident_inv o hne) hok h
  have hlenl := shape_length hi.shape
  obtain ⟨p, hp, _, _, hmono, hlast, hin⟩ := C02.recycled_path_contiguous conn s (nchars (textOf l)) hpos F hwf hs hF s3 ha
    (c2b (textOf l)) (c2b_spec (textOf l)).1 (by rw [c2b_length]; omega)
  simp only [c2b_head (textOf l) hstart, c2b_last (textOf l), Option.getD_some] at hmono hlast
  refine ⟨p, hp, ?_⟩
  intro cuts
  have hbo : ∀ c ∈ cuts, BoOf (textOf l) c := by
    intro c hc
    obtain ⟨n, hn, rfl⟩ := List.mem_map.mp hc
    obtain ⟨x, hx, rfl⟩ := List.mem_map.mp hn
    have hlt := hin x hx
    rw [List.getElem?_eq_getElem hlt, Option.getD_some]
    exact (c2b_spec (textOf l)).2 _ (List.getElem_mem hlt)
  have hle : ∀ c ∈ cuts, c ≤ (textOf l).length := by
    intro c hc
    rcases hbo c hc with h1 | ⟨h1, _⟩ <;> omega
  obtain ⟨r1, r2, r3, r4, r5⟩ := surfaces_partition o hne h0 bs l hok lv h cuts hmono hlast
    (fun c hc hlt => isB_of_boOf hi.shape c (hbo c hc) hlt)
  exact ⟨r1, r2, r3, fun c hc => r4 c hc (by have := hle c hc; omega), fun c hc => r5 c hc (hle c hc)⟩

/-! ## the bundled input-text plugins: `hplug` and `hutf` are theorems -/

open Total Partition Oov Utf8Inv in
/-- **`PluginOk` for every bundled input-text plugin, at BYTE level, relative to the UTF-8 invariant** (the clause of the
property "under every plugin configuration", for the plugins the repository ships).  `TotalIO.plugin a S c` is the function
of the current text (bytes) the driver runs for `DefaultInputTextPlugin` (`c = 'D'`), `ProlongedSoundMarkPlugin` (`'P'`) and
`IgnoreYomiganaPlugin` (any other tag) with ANY settings `S` and ANY Unicode facts `a`.  On every buffer whose offset map
satisfies the C08 invariant and whose text IS an encoding (`Utf8Inv.Enc`: `textOf l = TotalIO.encode cs`, the model's own
encoder) the plugin's edits are sorted, non-overlapping, in range and on character starts of the byte text, the text
`resolve_edits` writes is again an encoding, and nothing is replaced in an empty text.  (Without the invariant the statement
is false: on a byte text that is not an encoding a prefix sum of widths need not be a character start — which is why
`Partition.PluginOk`, quantified over every buffer, could not be proved for these plugins.) -/
theorem bundled_plugin_ok (orig : List Nat) (a : Array Normalize.Fact) (S : Normalize.Setup) (c : Char) :
    PluginOkJ Enc orig (TotalIO.plugin a S c) :=
  bundled_pluginOkJ orig a S c

open Total Partition Oov Utf8Inv in
/-- **the unrestricted `Partition.PluginOk` is FALSE for a bundled plugin** (why `hplug` could not be discharged as it was
stated, and why `bundled_plugin_ok` is relative to the UTF-8 invariant).  The buffer `start_build` makes of the six bytes
`C1 81 C1 81 C1 81` (overlong forms of `A`; not an encoding, never a Rust `&str`) satisfies the C08 invariant; the model's
decoder, which does not inspect continuation bytes, reads `AAA`; `ProlongedSoundMarkPlugin` with the mark `A` replaces code
points 0..3 = bytes 0..3 — and byte 3 is a continuation byte: `EditsB` fails. -/
theorem bundled_plugin_ok_needs_utf8_counterexample : ¬ PluginOk overlong (TotalIO.plugin exFacts markA 'P') := by
  intro h
  have hi := ident_inv overlong (by decide)
  obtain ⟨_, hb⟩ := h.adm (identFrom 0 overlong) _ hi (by rw [textOf_identFrom]; exact plugin_overlong)
  have := (hb ⟨0, 3, [0x41]⟩ (by simp)).2 (by decide)
  simp [overlong, identFrom, isB, isStart] at this

open Total Partition Oov Utf8Inv in
/-- **the UTF-8 invariant through every stack of bundled plugins** (induction over the stack; a rejected commit ends the
analysis, a text that was deleted completely is handed on unchanged): for an input that is an encoding (a `&str`), after
`start_build` and ANY list of bundled plugins with their commits (either length guard) the offset map satisfies the C08
invariant or the text is empty, the text has at most 65535 bytes and IS the encoding of a code-point list — in particular
it decodes (`hutf` of `C03.tokenize_total`) to as many characters as it has character starts (`hutf` of
`tokens_partition_original`). -/
theorem bundled_stack_utf8 (lv : LenV) (orig : List Nat) (horig : ∃ cs, orig = TotalIO.encode cs)
    (ps : List (List Nat → Outcome (List (Edit Nat)))) (hbundled : ∀ p ∈ ps, Bundled p)
    (l0 l : List (P Nat)) (hs : startBuild orig = some l0) (hr : rewriteInput lv ps l0 = .ok l) :
    BufInv orig l ∧ (∃ cs, textOf l = TotalIO.encode cs ∧ Wire.utf8Decode (textOf l) = some cs ∧ cs.length = nchars (textOf l)) := by
  obtain ⟨r1, ⟨cs, ht⟩, _⟩ := bundled_reach lv orig horig ps hbundled l0 l hs hr
  have hd : Wire.utf8Decode (textOf l) = some cs := by rw [ht]; exact decode_encode cs
  exact ⟨r1, cs, ht, hd, enc_hutf l ⟨cs, ht⟩ cs hd⟩

open Total Partition Oov Utf8Inv in
/-- **one batch of a bundled plugin: the byte text stays in step with C07's code-point text.**  If the text of the buffer is
the encoding of `cs`, the text after the plugin's batch is the encoding of `Normalize.applyEdits` of the plugin's C07 edit
list on `cs` — the function whose result C07 specifies (`default_eq_spec`, `psm_spec`, `yomigana_spec`). -/
theorem bundled_batch_text (orig : List Nat) (a : Array Normalize.Fact) (S : Normalize.Setup) (c : Char)
    (l : List (P Nat)) (cs : List Nat) (es : List (Edit Nat)) (hinv : Inv isStart (BoOf orig) orig.length l)
    (ht : textOf l = TotalIO.encode cs) (h : TotalIO.plugin a S c (textOf l) = .ok es) :
    ∃ t, Normalize.applyEdits (cpEdits a S c cs) cs = some t ∧ textOf (resolve l es) = TotalIO.encode t :=
  bundled_text_eq_applyEdits orig a S c l cs es hinv ht h

open Total Partition Oov Utf8Inv in
/-- **`tokens_partition_original_bundled` — the property for the whole of `do_tokenize` with NEITHER `hplug` NOR `hutf`**, for
every configuration whose input-text plugins are bundled ones (`hbundled`: every element of `cfg.inputPlugins` is
`TotalIO.plugin a S c` for some facts, settings and tag — any number of them in any order, the same plugin twice
included).  `horig` is now the `&str` guarantee in full: the input IS an encoding.  The other hypotheses are those of
`tokens_partition_original` (`hmk`, `hrowsz`, `hrew`: see there; `hrew` is `rewrite_stack_tiles` for the C14 stacks). -/
theorem tokens_partition_original_bundled (lv : LenV) (cfg : Cfg) (orig : List Nat)
    (horig : ∃ cs, orig = TotalIO.encode cs)
    (hbundled : ∀ p ∈ cfg.inputPlugins, Bundled p)
    (rv : Oov.Variant) (bowFix : Bool) (tab : List (Nat × Nat))
    (hmk : ∀ chars, Oov.mkBufV rv bowFix tab chars = some (cfg.mkBuf chars))
    (hrowsz : ∀ chars nodes, Reaches lv cfg orig chars → Oov.buildLattice cfg.providers cfg.lex (cfg.mkBuf chars) = .ok nodes →
      ∀ e, (nodes.map toVit).countP (fun n => n.e == e) ≤ 4294967295)
    (hrew : ∀ (tb2c tc2b : List Nat) (nc nb : Nat) path path', PathOk tb2c tc2b nc nb path → cfg.rewrite path = .ok path' →
      PathOk tb2c tc2b nc nb (path'.map (·.1)))
    (r : Result) (h : tokenize .d6fix lv cfg orig = .ok r) :
    (textOf r.tables = [] ∧ r.morphs = []) ∨
    (textOf r.tables ≠ [] ∧ r.morphs ≠ [] ∧ ∃ acs, accessAll orig r = .ok acs ∧
      IsPartition orig (acs.map (fun a => (a.b, a.e))) ∧
      ∀ a ∈ acs, a.sb = a.b ∧ a.se = a.e ∧ a.bc = nchars (orig.take a.b) ∧ a.ec = nchars (orig.take a.e)) := by
  have h0 : BoOf orig 0 := by
    obtain ⟨cs, hcs⟩ := horig
    have := boOf_byteOff cs 0
    rwa [byteOff_zero, ← hcs] at this
  refine tokens_partition_core lv cfg orig h0 ?_ ?_ rv bowFix tab hmk hrowsz hrew r h
  · intro l0 l a1 a2
    obtain ⟨r1, _, r3⟩ := bundled_reach lv orig horig cfg.inputPlugins hbundled l0 l a1 a2
    exact ⟨r1, r3⟩
  · intro l0 l chars a1 a2 a3
    obtain ⟨_, r2, _⟩ := bundled_reach lv orig horig cfg.inputPlugins hbundled l0 l a1 a2
    exact enc_hutf l r2 chars a3

/-! `C03.tokenize_total` with `hplug`/`hutf` discharged for bundled input-text plugins is stated next to the theorem it
specialises: **`C03.tokenize_total_bundled_plugins`** in `Props/C03.lean` (that file imports this one for
`tokens_partition_original`, so the corollary cannot live here without an import cycle); its proof uses `bundled_reach` and
`enc_decodes` of `Proofs/PartitionUtf8.lean` exactly as `tokens_partition_original_bundled` above does. -/

/-! ### non-vacuity of `horig` (encoded input) and `hbundled` -/

open Total Partition Oov Utf8Inv in
/-- `horig`: `あA` (4 bytes) is the encoding of its two code points; `hbundled`: the stack Default, ProlongedSoundMark,
IgnoreYomigana, Default again, over any facts and settings, consists of bundled plugins; and a bundled plugin DOES edit:
`ProlongedSoundMarkPlugin` (`exSetup`) replaces bytes 0..6 of `ーーA` by the three bytes of `ー` (`exPlugin_psm`) — an edit
whose end, 6, is a character start only because the text is an encoding -/
example (a : Array Normalize.Fact) (S : Normalize.Setup) :
    (∃ cs, [0xE3, 0x81, 0x82, 0x41] = TotalIO.encode cs) ∧
    (∀ p ∈ [TotalIO.plugin a S 'D', TotalIO.plugin a S 'P', TotalIO.plugin a S 'Y', TotalIO.plugin a S 'D'], Bundled p) ∧
    TotalIO.plugin exFacts exSetup 'P' (TotalIO.encode [0x30FC, 0x30FC, 0x41]) = .ok [⟨0, 6, [0xE3, 0x83, 0xBC]⟩] ∧
    TotalIO.encode [0x30FC, 0x30FC, 0x41] = [0xE3, 0x83, 0xBC, 0xE3, 0x83, 0xBC, 0x41] := by
  refine ⟨⟨[0x3042, 0x41], by decide⟩, ?_, exPlugin_psm, by decide⟩
  intro p hp
  simp only [List.mem_cons, List.not_mem_nil, or_false] at hp
  rcases hp with rfl | rfl | rfl | rfl <;> exact ⟨_, _, _, rfl⟩

/-! ### non-vacuity of the hypotheses of `tokens_partition_original` -/

open Total Partition Oov in
/-- `hplug`: `PluginOk` is satisfied by a plugin that changes the text (`bang` appends `!` to a non-empty text: an insertion
at the end, the byte length changes) and by one that returns no edit -/
example (orig : List Nat) : PluginOk orig bang ∧ PluginOk orig (fun _ => .ok []) :=
  ⟨bang_ok orig, ⟨fun l es _ h => by cases h; exact ⟨Nat.zero_le _, fun ed hed => by cases hed⟩, fun es h => by cases h; rfl⟩⟩

open Total Partition Oov in
/-- `hutf`, `hmk`, `hrowsz`, `hrew` hold together with `horig`, `hplug` for `Partition.partCfg` (plugin `bang`; words `a`,
`ab`; Simple provider; a word-info stage that declares the ILL-FORMED units `[1, 9]` for every two-character token) on the
text `ab`, either length guard -/
example (lv : LenV) :
    BoOf [97, 98] 0 ∧ (∀ p ∈ partCfg.inputPlugins, PluginOk [97, 98] p) ∧
    (∀ l0 l chars, startBuild [97, 98] = some l0 → rewriteInput lv partCfg.inputPlugins l0 = .ok l →
      Wire.utf8Decode (textOf l) = some chars → chars.length = nchars (textOf l)) ∧
    (∀ chars, Oov.mkBufV .forward true [] chars = some (partCfg.mkBuf chars)) ∧
    (∀ chars nodes, Reaches lv partCfg [97, 98] chars → Oov.buildLattice partCfg.providers partCfg.lex (partCfg.mkBuf chars) = .ok nodes →
      ∀ e, (nodes.map toVit).countP (fun n => n.e == e) ≤ 65535) ∧
    (∀ (tb2c tc2b : List Nat) (nc nb : Nat) path path', PathOk tb2c tc2b nc nb path → partCfg.rewrite path = .ok path' →
      PathOk tb2c tc2b nc nb (path'.map (·.1))) := by
  have hmk : ∀ chars, Oov.mkBufV .forward true [] chars = some (partCfg.mkBuf chars) :=
    fun chars => mkBufV_total .forward true [] (by simp [CharCat.fsts, CharCat.SInc]) chars
  have hl : ∀ l0 l, startBuild [97, 98] = some l0 → rewriteInput lv partCfg.inputPlugins l0 = .ok l →
      textOf l = [97, 98, 33] := by
    intro l0 l a1 a2
    have e0 : l0 = identFrom 0 [97, 98] := by
      simp [startBuild, MAX_LENGTH] at a1; exact a1.symm
    subst e0
    have : rewriteInput lv [bang] (identFrom 0 [97, 98]) = .ok [(some 97, 0), (some 98, 1), (some 33, 2), (none, 2)] := by
      cases lv <;> decide
    simp only [partCfg] at a2
    rw [this] at a2; cases a2; rfl
  refine ⟨Or.inr ⟨by decide, by decide⟩, ?_, ?_, hmk, ?_, ?_⟩
  · intro p hp
    simp only [partCfg, List.mem_singleton] at hp
    subst hp; exact bang_ok _
  · intro l0 l chars a1 a2 a3
    rw [hl l0 l a1 a2] at a3 ⊢
    simp [Wire.utf8Decode] at a3
    subst a3; decide
  · intro chars nodes hr hn e
    obtain ⟨l0, l, a1, a2, a3⟩ := hr
    rw [hl l0 l a1 a2] at a3
    simp [Wire.utf8Decode] at a3
    subst a3
    have hb := mkBufV_ok .forward true [] [97, 98, 33] _ (hmk [97, 98, 33])
    refine rows_small 8 _ _ _ hb.1 (by rw [hb.2.2]; decide) ?_ ?_ (by decide) nodes hn e
    · intro p hp
      simp only [partCfg, List.mem_singleton] at hp
      subst hp
      exact ⟨builtBuf_nil_bow .forward true _, by omega⟩
    · intro w hw
      simp only [partCfg, List.mem_cons, List.not_mem_nil, or_false] at hw
      rcases hw with rfl | rfl <;> simp
  · intro tb2c tc2b nc nb path path' hp hh
    simp only [partCfg] at hh
    cases hh
    rw [List.map_map]
    have : ((fun x : EditM.NodeRange × List Nat => x.1) ∘ fun n : EditM.NodeRange => (n, if n.ec = n.bc + 2 then [1, 9] else [])) = id := rfl
    rw [this, List.map_id]
    exact hp

open Total Partition Oov in
/-- … and the analysis of `ab` with that configuration: the text becomes `ab!`, the lattice path is `ab | !`, the
ill-formed units `[1, 9]` of `ab` are clamped (`a | b`), and the accessors give the partition `[0,1) [1,2) [2,2)` of the
ORIGINAL text — the inserted `!` is a morpheme with an empty range, which the property permits -/
example : (match tokenize .d6fix .final partCfg [97, 98] with
    | .ok r => (match accessAll [97, 98] r with | .ok acs => acs.map (fun a => (a.b, a.e, a.bc, a.ec, a.sb, a.se)) | _ => [])
    | _ => []) = [(0, 1, 0, 1, 0, 1), (1, 2, 1, 2, 1, 2), (2, 2, 2, 2, 2, 2)] := by
  have h1 : rewriteInput .final [bang] (identFrom 0 [97, 98]) = .ok [(some 97, 0), (some 98, 1), (some 33, 2), (none, 2)] := by decide
  simp [tokenize, startBuild, MAX_LENGTH, partCfg, h1, textOf, Wire.utf8Decode, builtBuf,
    CharCat.denF, CharCat.DEFAULT, Oov.fillCatContinuity, Oov.fillCatContinuityForward, Oov.scan, Oov.countdown]
  decide

open Total Partition in
/-- non-vacuity of `rewrite_stack_tiles`/`hinfo` and of `recycled_lattice_tokens_partition`'s extra hypothesis: a word-info
look-up that keeps the four offsets; `nchars` of `あい人` is positive -/
example : (∀ n : EditM.NodeRange, rng (⟨n.bc, n.ec, n.bb, n.eb, 0, 0, 0, 0, 0, 0, 0, 0, [], [], [], [], [], [], [], []⟩ : Rewrite.Node) = n) ∧
    0 < nchars [0xE3, 0x81, 0x82, 0xE3, 0x81, 0x84, 0xE4, 0xBA, 0xBA] :=
  ⟨fun _ => rfl, by decide⟩

end C01
