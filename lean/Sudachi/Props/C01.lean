import Sudachi.Proofs.Edit
import Sudachi.Props.C02
/-!
# C01 — Morphemes partition the original text byte-for-byte (lossless surfaces)

Model: `EditM` (offset map through any number of edit batches, `Model/Edit.lean`).  A morpheme's
byte range in the original text is `m2o[b] .. m2o[e]` for its range `b..e` in the rewritten text
(`morpheme.rs: begin/end/surface`, `buffer/mod.rs: to_orig_byte_idx, orig_slice`), i.e.
`valAt l b .. valAt l e`, and its surface is that slice of the original bytes (`EditM.slice`).

What is proved here: for **every** original text, **every** admissible sequence of edit batches
(whatever plugin produced them) and **every** chain of token boundaries of the rewritten text that
starts at 0, ends at its length and is non-decreasing, the surfaces partition the original text.
That the token boundaries produced by the lattice search do form such a chain is proved in the
lattice model (`C02.path_contiguous`) and composed with the partition theorem here
(`lattice_tokens_partition`); for A/B splitting and the path-rewrite plugins it is the subject of the
split model (C09) and the rewrite model (C14); that the bundled input plugins emit admissible batches
is C07 (`…_edits_ok`).
-/
namespace C01
open EditM

/-- **Partition.**  With `cuts` the token end offsets (in the rewritten text) in text order:
the images of the cuts are non-decreasing (tokens are in text order and abut; empty ranges are
permitted), the first token begins at 0, the last ends at the original length, every boundary is
a character boundary of the original text, and the surfaces concatenate to the original text. -/
theorem surfaces_partition (o : List Nat) (hne : o ≠ []) (h0 : BoOf o 0)
    (bs : List (List (Edit Nat))) (l : List (P Nat))
    (hok : BatchesOk isStart (identFrom 0 o) bs) (lv : LenV) (h : commitAllV lv (identFrom 0 o) bs = some l)
    (cuts : List Nat) (hm : Mono (0 :: cuts))
    (hlast : (0 :: cuts).getLast (by simp) = (textOf l).length)
    (hb : ∀ c ∈ cuts, ∀ hc : c < l.length, isB isStart l[c]) :
    (pieces o 0 (cuts.map (valAt l))).flatten = o ∧
    valAt l 0 = 0 ∧
    valAt l ((0 :: cuts).getLast (by simp)) = o.length ∧
    (∀ c ∈ cuts, c < l.length → BoOf o (valAt l c)) ∧
    (∀ c ∈ cuts, c ≤ (textOf l).length → valAt l c ≤ o.length) := by
  have hi := commitAllV_inv lv isStart (BoOf o) o.length h0 bs _ l (ident_inv o hne) hok h
  refine ⟨surfaces_concat isStart o l hi cuts hm hlast, hi.first, ?_, ?_, ?_⟩
  · rw [hlast]; exact inv_last hi
  · intro c hc hlt; exact inv_boundary hi c hlt (hb c hc hlt)
  · intro c _ hle; exact inv_le_last hi c hle

/-- order of the images: a later cut never maps before an earlier one (tokens never overlap or
go backwards in the original text) -/
theorem images_monotone (o : List Nat) (hne : o ≠ []) (h0 : BoOf o 0)
    (bs : List (List (Edit Nat))) (l : List (P Nat))
    (hok : BatchesOk isStart (identFrom 0 o) bs) (lv : LenV) (h : commitAllV lv (identFrom 0 o) bs = some l)
    (i j : Nat) (hij : i ≤ j) (hj : j < l.length) : valAt l i ≤ valAt l j := by
  have hi := commitAllV_inv lv isStart (BoOf o) o.length h0 bs _ l (ident_inv o hne) hok h
  exact mono_valAt hi.mono hij hj

/-- the pieces are exactly the per-token surfaces: piece `k` is the slice between the images of
cut `k-1` and cut `k` -/
theorem pieces_are_slices (o : List Nat) (a b : Nat) (rest : List Nat) :
    pieces o a (b :: rest) = slice o a b :: pieces o b rest := rfl

/-- **Tokens straight from the lattice partition the original text** (`path_contiguous` of DESIGN §3
C01 composed with `surfaces_partition`).  `l` is the offset map after any admissible edit batches,
`t = textOf l` the rewritten text, whose first byte starts a character (`hstart`: it is UTF-8); the
lattice is built over the `nchars t` characters of `t` from any candidates `F` (non-empty, inserted by
begin position) with any connection costs, and EOS is connected.  The tokens are the nodes of the
back-pointer path (`fill_top_path`), their byte ends `cuts` are read from the character→byte table
(`resolve_best_path`: `to_curr_byte_idx(node.end())`, model `c2b t`), every table access in range.
Then the surfaces — slices of the original text between the images of consecutive cuts —
concatenate to the original text, the first token begins at 0, the last ends at the original length,
every token boundary is a character boundary of the original text and lies inside it. -/
theorem lattice_tokens_partition (o : List Nat) (hne : o ≠ []) (h0 : BoOf o 0)
    (bs : List (List (Edit Nat))) (l : List (P Nat))
    (hok : BatchesOk isStart (identFrom 0 o) bs) (lv : LenV) (h : commitAllV lv (identFrom 0 o) bs = some l)
    (hstart : BoOf (textOf l) 0)
    (conn : Nat → Nat → Int) (F : List Vit.Node) (hwf : Vit.WF F)
    (hs : F.Pairwise (fun a b => a.b ≤ b.b)) (v : Int)
    (heos : Vit.eosCost conn (Vit.build conn F Vit.init) (nchars (textOf l)) = some v) :
    let p := Vit.bestPath conn (Vit.build conn F Vit.init) (nchars (textOf l))
    let cuts := p.map (fun n => ((c2b (textOf l))[n.e]?).getD 0)
    (pieces o 0 (cuts.map (valAt l))).flatten = o ∧
    valAt l 0 = 0 ∧
    valAt l ((0 :: cuts).getLast (by simp)) = o.length ∧
    (∀ c ∈ cuts, BoOf o (valAt l c)) ∧
    (∀ c ∈ cuts, valAt l c ≤ o.length) ∧
    (∀ n ∈ p, n.e < (c2b (textOf l)).length) := by
  intro p cuts
  have hi := commitAllV_inv lv isStart (BoOf o) o.length h0 bs _ l (ident_inv o hne) hok h
  have hlenl := shape_length hi.shape
  obtain ⟨_, _, _, hmono, hlast, hin⟩ := C02.path_contiguous conn F hwf hs (nchars (textOf l)) v heos
    (c2b (textOf l)) (c2b_spec (textOf l)).1 (by rw [c2b_length]; omega)
  simp only [c2b_head (textOf l) hstart, c2b_last (textOf l), Option.getD_some] at hmono hlast
  -- every cut is an entry of the table, hence a character boundary of the rewritten text
  have hbo : ∀ c ∈ cuts, BoOf (textOf l) c := by
    intro c hc
    obtain ⟨n, hn, rfl⟩ := List.mem_map.mp hc
    have hlt := hin n hn
    rw [List.getElem?_eq_getElem hlt, Option.getD_some]
    exact (c2b_spec (textOf l)).2 _ (List.getElem_mem hlt)
  have hle : ∀ c ∈ cuts, c ≤ (textOf l).length := by
    intro c hc
    rcases hbo c hc with h1 | ⟨h1, _⟩ <;> omega
  obtain ⟨r1, r2, r3, r4, r5⟩ := surfaces_partition o hne h0 bs l hok lv h cuts hmono hlast
    (fun c hc hlt => isB_of_boOf hi.shape c (hbo c hc) hlt)
  exact ⟨r1, r2, r3, fun c hc => r4 c hc (by have := hle c hc; omega), fun c hc => r5 c hc (hle c hc), hin⟩

/-- non-vacuity: `宇宙人`, first character replaced by two characters (six bytes), tokens cut
after 3, 6 and 12 bytes of the rewritten text ↦ original ranges 0..3, 3..3 (empty), 3..9. -/
example :
    let o := [0xE5, 0xAE, 0x87, 0xE5, 0xAE, 0x99, 0xE4, 0xBA, 0xBA]
    let b1 : List (Edit Nat) := [⟨0, 3, [0xE3, 0x81, 0x82, 0xE3, 0x81, 0x84]⟩]
    (commitAll (identFrom 0 o) [b1]).map (fun l => [3, 6, 12].map (valAt l)) = some [3, 3, 9] := by
  decide

/-- non-vacuity of `lattice_tokens_partition`: `宇宙人` with the first two characters replaced by `あい`
(rewritten text `あい人`: 9 bytes, 3 characters, table `[0, 3, 6, 9]`), candidates `あ`, `あい`, `い`, `人`;
EOS is connected (cost 5), the lattice path is `あい|人`, its byte ends are 6 and 9 and their images in
the original text are 6 and 9. -/
example :
    let o := [0xE5, 0xAE, 0x87, 0xE5, 0xAE, 0x99, 0xE4, 0xBA, 0xBA]
    let b1 : List (Edit Nat) := [⟨0, 6, [0xE3, 0x81, 0x82, 0xE3, 0x81, 0x84]⟩]
    let F : List Vit.Node := [⟨0, 1, 1, 1, 5⟩, ⟨0, 2, 2, 2, 3⟩, ⟨1, 2, 1, 1, 5⟩, ⟨2, 3, 1, 1, 2⟩]
    let conn : Nat → Nat → Int := fun _ _ => 0
    (commitAll (identFrom 0 o) [b1]).map (fun l =>
      (textOf l, nchars (textOf l), c2b (textOf l),
       Vit.eosCost conn (Vit.build conn F Vit.init) (nchars (textOf l)),
       (Vit.bestPath conn (Vit.build conn F Vit.init) (nchars (textOf l))).map
          (fun n => valAt l (((c2b (textOf l))[n.e]?).getD 0))))
      = some ([0xE3, 0x81, 0x82, 0xE3, 0x81, 0x84, 0xE4, 0xBA, 0xBA], 3, [0, 3, 6, 9], some 5, [6, 9]) ∧
    BoOf [0xE3, 0x81, 0x82, 0xE3, 0x81, 0x84, 0xE4, 0xBA, 0xBA] 0 ∧
    Vit.WF F ∧ F.Pairwise (fun a b => a.b ≤ b.b) := by
  refine ⟨by decide, Or.inr ⟨by decide, by decide⟩,
    by intro n hn; simp at hn; rcases hn with rfl | rfl | rfl | rfl <;> decide, by decide⟩

end C01
