import Sudachi.Proofs.Edit
/-!
# C01 — Morphemes partition the original text byte-for-byte (lossless surfaces)

Model: `EditM` (offset map through any number of edit batches, `Model/Edit.lean`).  A morpheme's
byte range in the original text is `m2o[b] .. m2o[e]` for its range `b..e` in the rewritten text
(`morpheme.rs: begin/end/surface`, `buffer/mod.rs: to_orig_byte_idx, orig_slice`), i.e.
`valAt l b .. valAt l e`, and its surface is that slice of the original bytes (`EditM.slice`).

What is proved here: for **every** original text, **every** admissible sequence of edit batches
(whatever plugin produced them) and **every** chain of token boundaries of the rewritten text that
starts at 0, ends at its length and is non-decreasing, the surfaces partition the original text.
That the token boundaries produced by the lattice search, A/B splitting and the path-rewrite
plugins do form such a chain is the subject of the lattice model (C02), the split model (C09) and the
rewrite model (C14); that the bundled input plugins emit admissible batches is C07 (`…_edits_ok`).
-/
namespace C01
open EditM

/-- **Partition.**  With `cuts` the token end offsets (in the rewritten text) in text order:
the images of the cuts are non-decreasing (tokens are in text order and abut; empty ranges are
permitted), the first token begins at 0, the last ends at the original length, every boundary is
a character boundary of the original text, and the surfaces concatenate to the original text. -/
theorem surfaces_partition (o : List Nat) (hne : o ≠ []) (h0 : BoOf o 0)
    (bs : List (List (Edit Nat))) (l : List (P Nat))
    (hok : BatchesOk isStart (identFrom 0 o) bs) (h : commitAll (identFrom 0 o) bs = some l)
    (cuts : List Nat) (hm : Mono (0 :: cuts))
    (hlast : (0 :: cuts).getLast (by simp) = (textOf l).length)
    (hb : ∀ c ∈ cuts, ∀ hc : c < l.length, isB isStart l[c]) :
    (pieces o 0 (cuts.map (valAt l))).flatten = o ∧
    valAt l 0 = 0 ∧
    valAt l ((0 :: cuts).getLast (by simp)) = o.length ∧
    (∀ c ∈ cuts, c < l.length → BoOf o (valAt l c)) ∧
    (∀ c ∈ cuts, c ≤ (textOf l).length → valAt l c ≤ o.length) := by
  have hi := commitAll_inv isStart (BoOf o) o.length h0 bs _ l (ident_inv o hne) hok h
  refine ⟨surfaces_concat isStart o l hi cuts hm hlast, hi.first, ?_, ?_, ?_⟩
  · rw [hlast]; exact inv_last hi
  · intro c hc hlt; exact inv_boundary hi c hlt (hb c hc hlt)
  · intro c _ hle; exact inv_le_last hi c hle

/-- order of the images: a later cut never maps before an earlier one (tokens never overlap or
go backwards in the original text) -/
theorem images_monotone (o : List Nat) (hne : o ≠ []) (h0 : BoOf o 0)
    (bs : List (List (Edit Nat))) (l : List (P Nat))
    (hok : BatchesOk isStart (identFrom 0 o) bs) (h : commitAll (identFrom 0 o) bs = some l)
    (i j : Nat) (hij : i ≤ j) (hj : j < l.length) : valAt l i ≤ valAt l j := by
  have hi := commitAll_inv isStart (BoOf o) o.length h0 bs _ l (ident_inv o hne) hok h
  exact mono_valAt hi.mono hij hj

/-- the pieces are exactly the per-token surfaces: piece `k` is the slice between the images of
cut `k-1` and cut `k` -/
theorem pieces_are_slices (o : List Nat) (a b : Nat) (rest : List Nat) :
    pieces o a (b :: rest) = slice o a b :: pieces o b rest := rfl

/-- non-vacuity: `宇宙人`, first character replaced by two characters (six bytes), tokens cut
after 3, 6 and 12 bytes of the rewritten text ↦ original ranges 0..3, 3..3 (empty), 3..9. -/
example :
    let o := [0xE5, 0xAE, 0x87, 0xE5, 0xAE, 0x99, 0xE4, 0xBA, 0xBA]
    let b1 : List (Edit Nat) := [⟨0, 3, [0xE3, 0x81, 0x82, 0xE3, 0x81, 0x84]⟩]
    (commitAll (identFrom 0 o) [b1]).map (fun l => [3, 6, 12].map (valAt l)) = some [3, 3, 9] := by
  decide

end C01
