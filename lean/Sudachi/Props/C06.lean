import Sudachi.Proofs.Build
import Sudachi.Proofs.BuildTotal
import Sudachi.Proofs.BuildLimits
/-!
# C06 — the dictionary compiler is total and never emits an invalid dictionary

Model: `Build.build` (`DictBuilder`: ANY sequence of `read_conn` / `read_lexicon` / `resolve` calls
— `Input.ops`, e.g. several lexicon parts with a `resolve` after some of them — and then `compile`)
over the records the `csv` reader delivers and the lines of the matrix text, with the writer as a
script executed against a sink that accepts `limit` bytes.  `Variant.current` is the code as it
stood, `Variant.repaired` the behaviour after the repairs D1–D5 (DESIGN §2.7) and the repair of the
builder's `resolved` flag (`Variant.rf`: `read_lexicon` clears it); `Variant.staleFlag` = D1–D5
repaired, flag as the code has it.
-/
namespace C06
open Build

/-! ## witnesses (concrete inputs) -/

/-- a 19-field lexicon row `surface,left,right,100,surface,名詞,普通名詞,一般,*,*,*,surface,surface,*,A,*,*,*,*` -/
def row (s l r : Str) : List Str :=
  [s, l, r, ['1', '0', '0'], s, ['名', '詞'], ['普', '通', '名', '詞'], ['一', '般'], ['*'], ['*'], ['*'],
   s, s, ['*'], ['A'], ['*'], ['*'], ['*'], ['*']]

/-- the matrix text `2 2\n0 0 1\n1 1 4\n` -/
def m22 : List (Option Str) :=
  [some ['2', ' ', '2', '\n'], some ['0', ' ', '0', ' ', '1', '\n'], some ['1', ' ', '1', ' ', '4', '\n']]

def x0 : Ext := ⟨[]⟩

/-- the records of one lexicon text, numbered from line 1 -/
def part (recs : List (List Str)) : Op := .lex ((List.range recs.length).map (· + 1) |>.zip recs) none

/-- the usual pipeline: read_conn (when there is a matrix) → read_lexicon → resolve → compile -/
def input (conn : Option (List (Option Str))) (recs : List (List Str)) : Input :=
  { base := Base.system, ops := (conn.map Op.conn).toList ++ [part recs, .resolve],
    descLen := 5, trieLen := 1024 }

/-- the inline split unit `あ,名詞,普通名詞,一般,*,*,*,あ` -/
def inlA : Str :=
  ['あ', ',', '名', '詞', ',', '普', '通', '名', '詞', ',', '一', '般', ',', '*', ',', '*', ',', '*', ',', 'あ']

/-- a C-mode row whose split-A field is `units` -/
def rowC (s : Str) (units : Str) : List Str := ((row s ['0'] ['0']).set 14 ['C']).set 15 units

/-- the witness of the stale `resolved` flag: `あ` and `ああ` (inline split `あ/あ`), `resolve()`,
then a second lexicon text `あああ` (inline split `あ/あ/あ`), compile -/
def staleInput : Input :=
  { base := Base.system,
    ops := [.conn m22, part [row ['あ'] ['0'] ['0'], rowC ['あ', 'あ'] (inlA ++ ['/'] ++ inlA)], .resolve,
            part [rowC ['あ', 'あ', 'あ'] (inlA ++ ['/'] ++ inlA ++ ['/'] ++ inlA)]],
    descLen := 5, trieLen := 1024 }

/-- `resolve()` before any lexicon text sets the flag as well -/
def resolveFirstInput : Input :=
  { base := Base.system,
    ops := [.conn m22, .resolve, part [row ['あ'] ['0'] ['0'], rowC ['あ', 'あ'] (inlA ++ ['/'] ++ inlA)]],
    descLen := 5, trieLen := 1024 }

set_option maxRecDepth 100000

/-! ## a sink failure is never reported as success -/

/-- **sink_failure** (full).  For every input and every failure offset `k` smaller than the size
of the dictionary the unlimited compilation produces, compiling into a sink that fails after `k`
bytes is an I/O error — never success, never another outcome. -/
theorem sink_failure (v : Variant) (x : Ext) (inp : Input) (n cnt k : Nat) (d : Dict)
    (h : build v x inp none = .ok n cnt d) (hk : k < n) :
    build v x inp (some k) = .err .compile .Io 0 := by
  obtain ⟨b, hp, hc⟩ := (build_ok_iff ..).1 h
  unfold build
  simp only [hp, finish, compile_sink_failure v b _ _ n k d hc hk]

/-- **sink_never_ok** (full).  Whatever the input, if compiling into a sink that accepts `k` bytes
reports success then everything was written: the unlimited run succeeds with the same size and
that size is at most `k`. -/
theorem sink_success_only_if_everything_fits (v : Variant) (x : Ext) (inp : Input) (n cnt k : Nat) (d : Dict)
    (h : build v x inp (some k) = .ok n cnt d) :
    build v x inp none = .ok n cnt d ∧ n ≤ k := by
  obtain ⟨b, hp, hc⟩ := (build_ok_iff ..).1 h
  have := compile_sink_ok v b _ _ n k d hc
  exact ⟨(build_ok_iff ..).2 ⟨b, hp, this.1⟩, this.2⟩

/-- a sink that accepts at least the size of the dictionary does not change the outcome -/
theorem sink_large_enough (v : Variant) (x : Ext) (inp : Input) (n cnt k : Nat) (d : Dict)
    (h : build v x inp none = .ok n cnt d) (hk : n ≤ k) :
    build v x inp (some k) = .ok n cnt d := by
  obtain ⟨b, hp, hc⟩ := (build_ok_iff ..).1 h
  exact (build_ok_iff ..).2 ⟨b, hp, compile_sink_enough v b _ _ n k d hc hk⟩

/-- non-vacuity of `sink_failure`: a two-word dictionary compiles to 1412 bytes (the size the real
compiler produces for this input, see the directed case `valid-2x2` of the harness) -/
example : ∃ d, build Variant.current x0 (input (some m22) [row ['あ'] ['0'] ['0'], row ['い'] ['1'] ['1']]) none
    = .ok 1412 0 d := ⟨_, rfl⟩

/-! ## totality: counterexamples on the code as it stands -/

/-- D1: the empty matrix text makes `ConnBuffer::read` panic (`todo!()`) -/
theorem compile_total_counterexample_d1 :
    build Variant.current x0 (input (some []) [row ['あ'] ['0'] ['0']]) none = .panic .conn .todoEmptyConn := by
  rfl

/-- D1 also for a text that consists of blank lines only -/
theorem compile_total_counterexample_d1_blank :
    build Variant.current x0 (input (some [some ['\n'], some [' ', '\n']]) []) none = .panic .conn .todoEmptyConn := by
  rfl

/-- D2: `2 2\n5 5 1\n` — coordinates beyond the declared size: index panic in `write_elem` -/
theorem compile_total_counterexample_d2 :
    build Variant.current x0
      (input (some [some ['2', ' ', '2', '\n'], some ['5', ' ', '5', ' ', '1', '\n']]) []) none
      = .panic .conn .connIndex := by
  rfl

/-- D2: a negative coordinate -/
theorem compile_total_counterexample_d2_negative :
    build Variant.current x0
      (input (some [some ['2', ' ', '2', '\n'], some ['-', '1', ' ', '0', ' ', '1', '\n']]) []) none
      = .panic .conn .connIndex := by
  rfl

/-- D4: a lexicon without an indexable row: assertion panic inside the trie builder -/
theorem compile_total_counterexample_d4 :
    build Variant.current x0 (input (some m22) [row ['あ'] ['-', '1'] ['-', '1']]) none
      = .panic .compile .emptyKeys := by
  rfl

/-- D4: the empty lexicon -/
theorem compile_total_counterexample_d4_empty :
    build Variant.current x0 (input (some m22) []) none = .panic .compile .emptyKeys := by
  rfl

/-- D5: a surface with `\u0000` reaches the trie builder -/
theorem compile_total_counterexample_d5 :
    build Variant.current x0
      (input (some m22) [row ['あ', '\\', 'u', '0', '0', '0', '0'] ['0'] ['0']]) none
      = .panic .compile .nulKey := by
  rfl

/-- the same inputs are errors after the repairs -/
theorem repaired_witnesses :
    build Variant.repaired x0 (input (some []) [row ['あ'] ['0'] ['0']]) none = .err .conn .InvalidConnSize 0 ∧
    build Variant.repaired x0
      (input (some [some ['2', ' ', '2', '\n'], some ['5', ' ', '5', ' ', '1', '\n']]) []) none
      = .err .conn .InvalidConnSize 2 ∧
    build Variant.repaired x0 (input (some m22) [row ['あ'] ['-', '1'] ['-', '1']]) none
      = .err .compile .TrieBuildFailure 0 ∧
    build Variant.repaired x0
      (input (some m22) [row ['あ', '\\', 'u', '0', '0', '0', '0'] ['0'] ['0']]) none
      = .err .lex .EmptySurface 1 := by
  refine ⟨rfl, rfl, rfl, rfl⟩

/-- the `resolved` flag goes stale: with D1–D5 repaired and the flag as the code has it (`resolve`
sets it, nothing clears it) a second `read_lexicon` with an inline split after `resolve()` passes
`check_if_resolved` and reaches `panic!("at this point there must not be unresolved splits")` of
`validate_entries` -/
theorem compile_total_counterexample_stale_resolved :
    build Variant.staleFlag x0 staleInput none = .panic .compile .unresolvedSplit := by
  rfl

/-- the same with `resolve()` called before the only lexicon text -/
theorem compile_total_counterexample_resolve_first :
    build Variant.staleFlag x0 resolveFirstInput none = .panic .compile .unresolvedSplit := by
  rfl

/-- with the flag cleared by `read_lexicon` both are the error `UnresolvedSplits`; calling
`resolve()` again after the last text compiles (7 resolved units in all) -/
theorem stale_resolved_repaired :
    build Variant.repaired x0 staleInput none = .err .compile .UnresolvedSplits 0 ∧
    build Variant.repaired x0 resolveFirstInput none = .err .compile .UnresolvedSplits 0 ∧
    ∃ n d, build Variant.repaired x0 { staleInput with ops := staleInput.ops ++ [.resolve] } none = .ok n 5 d := by
  refine ⟨rfl, rfl, _, _, rfl⟩

/-- **compile_total** (full for the repaired code).  With the repairs of the panics in place
(D1 `todo!()`, D2 unchecked matrix index, D4 empty key set, D5 NUL in an indexed surface, and the
`resolved` flag cleared by `read_lexicon`) the compilation of *every* input — ANY sequence of
`read_conn` / `read_lexicon` / `resolve` calls with any matrix lines, any records, any csv
failure, then `compile` with any description and any sink limit — ends in `ok` or `err`, never in
a panic: in particular the `panic!` branches of `validate_entries` / `validate_wid` are
unreachable.  On the code as it stood the statement is false:
`compile_total_counterexample_d1/_d2/_d4/_d5`, and with only D1–D5 repaired
`compile_total_counterexample_stale_resolved`. -/
theorem compile_total (v : Variant) (x : Ext) (inp : Input) (limit : Option Nat)
    (h1 : v.d1 = true) (h2 : v.d2 = true) (h4 : v.d4 = true) (h5 : v.d5 = true) (hrf : v.rf = true) :
    ∀ s w, build v x inp limit ≠ .panic s w :=
  build_no_panic x inp limit h1 h2 h4 h5 hrf

/-- instance for the fully repaired variant -/
theorem compile_total_repaired (x : Ext) (inp : Input) (limit : Option Nat) :
    ∀ s w, build Variant.repaired x inp limit ≠ .panic s w :=
  compile_total Variant.repaired x inp limit rfl rfl rfl rfl rfl

/-- **compile_total** for any variant, in particular the code as it stands (**partial**: the full
statement is `compile_total`; it is false for `Variant.current` and `Variant.staleFlag`).  Whatever
the sequence of calls and their inputs, a panic can only be one of the matrix reader (stage `conn`:
D1, D2), one of the two panics of the index step (D4 when the repair is absent, D5 when the repair
is absent) or — when `read_lexicon` does not clear the `resolved` flag — the `panic!` of
`validate_entries` about an unresolved split: reading the lexicon and resolving never panic, and
the `panic!` branch of `validate_wid` is unreachable. -/
theorem compile_total_partial (v : Variant) (x : Ext) (inp : Input) (limit : Option Nat) (s : Stage) (w : PanicWhy)
    (h : build v x inp limit = .panic s w) :
    s = .conn ∨ (s = .compile ∧ ((w = .emptyKeys ∧ v.d4 = false) ∨ (w = .nulKey ∧ v.d5 = false) ∨
      (w = .unresolvedSplit ∧ v.rf = false))) :=
  build_panic_kind h

/-! ## success ⇒ valid dictionary -/

/-- what `build` guarantees on success, in terms of the sizes the ids were validated against:
if `read_conn` was called (anywhere, any number of times) they are the sizes of the matrix that is
written, otherwise those the builder started with -/
theorem build_ok_valid {v : Variant} {x : Ext} {inp : Input} {limit : Option Nat} {n cnt : Nat} {d : Dict}
    (h : build v x inp limit = .ok n cnt d) :
    IdsUpper d ∧ (v.d3 = true → RightNonneg d) ∧ RefsOk d ∧
    ((∃ lines, Op.conn lines ∈ inp.ops) → d.maxLeft = d.conn.nl ∧ d.maxRight = d.conn.nr) ∧
    ((∀ lines, Op.conn lines ∉ inp.ops) →
      d.conn = Conn.empty ∧ d.maxLeft = inp.base.maxLeft ∧ d.maxRight = inp.base.maxRight) := by
  obtain ⟨b, hp, hc⟩ := (build_ok_iff ..).1 h
  obtain ⟨h1, h2, h3⟩ := compile_ok_valid hc
  obtain ⟨_, _, _, hd⟩ := (compile_ok_iff ..).1 hc
  obtain ⟨_, p2, p3⟩ := prepare_conn hp
  refine ⟨h1, h2, h3, ?_, ?_⟩
  · intro hl
    have := p2 hl
    subst hd; exact this
  · intro hn
    have := p3 hn
    subst hd; exact this

/-- **compile_valid**, connection ids (full for the repaired right-id check, `v.d3`).  If the
compilation of a dictionary whose matrix was read succeeds, every indexed entry's connection ids
lie inside the matrix that is written. -/
theorem compile_valid_ids (v : Variant) (x : Ext) (inp : Input) (limit : Option Nat) (n cnt : Nat) (d : Dict)
    (h3 : v.d3 = true) (lines : List (Option Str)) (hconn : Op.conn lines ∈ inp.ops)
    (h : build v x inp limit = .ok n cnt d) :
    ∀ e ∈ d.entries, e.shouldIndex = true →
      0 ≤ e.left ∧ e.left < d.conn.nl ∧ 0 ≤ e.right ∧ e.right < d.conn.nr := by
  obtain ⟨hu, hr, _, hm, _⟩ := build_ok_valid h
  obtain ⟨m1, m2⟩ := hm ⟨lines, hconn⟩
  intro e he hi
  have := hu e he
  refine ⟨by simpa [Entry.shouldIndex] using hi, by omega, hr h3 e he hi, by omega⟩

/-- the same for the code as it stands, without the clause `0 ≤ right` (**partial**: the full
statement is `compile_valid_ids`; it fails for `Variant.current`, see
`compile_valid_counterexample_d3`) -/
theorem compile_valid_ids_partial (v : Variant) (x : Ext) (inp : Input) (limit : Option Nat) (n cnt : Nat) (d : Dict)
    (lines : List (Option Str)) (hconn : Op.conn lines ∈ inp.ops)
    (h : build v x inp limit = .ok n cnt d) :
    ∀ e ∈ d.entries, e.shouldIndex = true → 0 ≤ e.left ∧ e.left < d.conn.nl ∧ e.right < d.conn.nr := by
  obtain ⟨hu, _, _, hm, _⟩ := build_ok_valid h
  obtain ⟨m1, m2⟩ := hm ⟨lines, hconn⟩
  intro e he hi
  have := hu e he
  refine ⟨by simpa [Entry.shouldIndex] using hi, by omega, by omega⟩

/-- D3: on the code as it stands a row with `left_id = 0, right_id = -1` compiles: an indexed
entry whose right id is outside the matrix -/
theorem compile_valid_counterexample_d3 :
    ∃ n d, build Variant.current x0 (input (some m22) [row ['あ'] ['0'] ['-', '1']]) none = .ok n 0 d ∧
      ∃ e ∈ d.entries, e.shouldIndex = true ∧ e.right < 0 :=
  ⟨_, _, rfl, _, List.mem_cons_self, rfl, by decide⟩

/-- … and is rejected after the repair -/
theorem compile_valid_d3_repaired :
    build Variant.repaired x0 (input (some m22) [row ['あ'] ['0'] ['-', '1']]) none
      = .err .compile .InvalidFieldSize 0 := by
  rfl

/-- user dictionaries: ids are inside the system dictionary's matrix (sizes of `Base`) -/
theorem compile_valid_ids_user (v : Variant) (x : Ext) (inp : Input) (limit : Option Nat) (n cnt : Nat) (d : Dict)
    (h3 : v.d3 = true) (hconn : ∀ lines, Op.conn lines ∉ inp.ops)
    (h : build v x inp limit = .ok n cnt d) :
    ∀ e ∈ d.entries, e.shouldIndex = true →
      0 ≤ e.left ∧ e.left < inp.base.maxLeft ∧ 0 ≤ e.right ∧ e.right < inp.base.maxRight := by
  obtain ⟨hu, hr, _, _, hm⟩ := build_ok_valid h
  obtain ⟨_, m1, m2⟩ := hm hconn
  intro e he hi
  have := hu e he
  refine ⟨by simpa [Entry.shouldIndex] using hi, by omega, hr h3 e he hi, by omega⟩

/-- **compile_valid**, references (full, every variant).  On success the dictionary form, every
split unit and every word-structure item of every entry points to an existing entry, and no
unresolved (inline) split is left. -/
theorem compile_valid_refs (v : Variant) (x : Ext) (inp : Input) (limit : Option Nat) (n cnt : Nat) (d : Dict)
    (h : build v x inp limit = .ok n cnt d) : RefsOk d :=
  (build_ok_valid h).2.2.1

/-- **compile_valid**, format limits (full, every variant).  On success every string written for
an entry has at most 32 767 UTF-16 units (the key at most 32 767 bytes), every array (splits, word
structure, synonym groups) and every homograph group of the index at most 127 items; the index is
not empty and no indexed key contains U+0000 (for the code as it stands the last two are what the
external trie builder needs in order not to panic / not to build a corrupt trie). -/
theorem compile_valid_limits (v : Variant) (x : Ext) (inp : Input) (limit : Option Nat) (n cnt : Nat) (d : Dict)
    (h : build v x inp limit = .ok n cnt d) : LimitsOk d := by
  obtain ⟨b, _, hc⟩ := (build_ok_iff ..).1 h
  exact compile_ok_limits hc

/-- **compile_valid** (full for the repaired right-id check): all clauses together for a dictionary
whose matrix was read. -/
theorem compile_valid (v : Variant) (x : Ext) (inp : Input) (limit : Option Nat) (n cnt : Nat) (d : Dict)
    (h3 : v.d3 = true) (lines : List (Option Str)) (hconn : Op.conn lines ∈ inp.ops)
    (h : build v x inp limit = .ok n cnt d) :
    (∀ e ∈ d.entries, e.shouldIndex = true →
      0 ≤ e.left ∧ e.left < d.conn.nl ∧ 0 ≤ e.right ∧ e.right < d.conn.nr) ∧ RefsOk d ∧ LimitsOk d :=
  ⟨compile_valid_ids v x inp limit n cnt d h3 lines hconn h, compile_valid_refs v x inp limit n cnt d h,
   compile_valid_limits v x inp limit n cnt d h⟩

/-- non-vacuity of `compile_valid`: the hypotheses hold for the two-word dictionary -/
example : ∃ n d, Variant.repaired.d3 = true ∧ Op.conn m22 ∈ (input (some m22) [row ['あ'] ['0'] ['0'], row ['い'] ['1'] ['1']]).ops ∧
    build Variant.repaired x0 (input (some m22) [row ['あ'] ['0'] ['0'], row ['い'] ['1'] ['1']]) none = .ok n 0 d :=
  ⟨_, _, rfl, List.mem_cons_self, rfl⟩

/-- … and for a lexicon read in two parts with a `resolve()` after each (the second part refers to
the first by an inline split and by a word id) -/
example : ∃ n d, Op.conn m22 ∈ ({ staleInput with ops := staleInput.ops ++ [.resolve] } : Input).ops ∧
    build Variant.repaired x0 { staleInput with ops := staleInput.ops ++ [.resolve] } none = .ok n 5 d :=
  ⟨_, _, List.mem_cons_self, rfl⟩

/-- the ids as the analyser uses them (`conn.cost(left.right_id, right.left_id)` with the first
argument bounded by `num_left`, the second by `num_right`) -/
def UseOk (d : Dict) : Prop :=
  ∀ e ∈ d.entries, e.shouldIndex = true → 0 ≤ e.right ∧ e.right < d.conn.nl ∧ 0 ≤ e.left ∧ e.left < d.conn.nr

/-- with a square matrix validated ids are usable ids -/
theorem square_use_ok (v : Variant) (x : Ext) (inp : Input) (limit : Option Nat) (n cnt : Nat) (d : Dict)
    (h3 : v.d3 = true) (lines : List (Option Str)) (hconn : Op.conn lines ∈ inp.ops)
    (h : build v x inp limit = .ok n cnt d) (hsq : d.conn.nl = d.conn.nr) : UseOk d := by
  intro e he hi
  have := compile_valid_ids v x inp limit n cnt d h3 lines hconn h e he hi
  omega

/-- D17: with the non-square matrix `3 1` the row `left_id = 2, right_id = 0` passes the
validation (also after the repairs) but its left id is outside the dimension the analyser bounds
it by -/
theorem nonsquare_use_counterexample :
    ∃ n d, build Variant.repaired x0
        (input (some [some ['3', ' ', '1', '\n'], some ['2', ' ', '0', ' ', '7', '\n']])
          [row ['あ'] ['2'] ['0']]) none = .ok n 0 d ∧ ¬ UseOk d :=
  ⟨_, _, rfl, fun h => absurd (h _ List.mem_cons_self rfl).2.2.2 (by decide)⟩

/-- N1: a system dictionary compiled without `read_conn` (the matrix is optional in the API)
gets a 0×0 matrix while ids are checked against `i16::MAX`: every indexed entry is outside -/
theorem no_matrix_counterexample :
    ∃ n d, build Variant.repaired x0 (input none [row ['あ'] ['0'] ['0']]) none = .ok n 0 d ∧
      d.conn = Conn.empty ∧ ∃ e ∈ d.entries, e.shouldIndex = true ∧ ¬ e.left < d.conn.nl :=
  ⟨_, _, rfl, rfl, _, List.mem_cons_self, rfl, by decide⟩

/-- a user-dictionary builder over a system dictionary with 7 words and a 3×3 matrix -/
def userBase : Base := ⟨[[['名', '詞'], ['普', '通', '名', '詞'], ['一', '般'], ['*'], ['*'], ['*']]], 3, 3, some 7, []⟩

/-- D8: a user-dictionary row that declares the dictionary form `U0` compiles (the validator reads
it as the reference (1, 0)); the stored raw value 0x10000000 is what the reader later uses as an
index into the user lexicon itself, far beyond its two entries -/
theorem userdict_dicform_counterexample :
    ∃ n d, build Variant.repaired x0
        { input none [row ['大', '阪'] ['0'] ['0'],
            (row ['大', '阪', '府'] ['1'] ['1']).set 13 ['U', '0']] with base := userBase } none = .ok n 0 d ∧
      ∃ e ∈ d.entries, e.dicForm ≠ WID_INVALID ∧ d.entries.length ≤ e.dicForm :=
  ⟨_, _, rfl, _, List.mem_cons_of_mem _ List.mem_cons_self, by decide, by decide⟩

/-- N3: `read_conn` on a user-dictionary builder replaces the sizes of the system dictionary's
matrix (here 3×3) the ids are validated against by those of the text it reads (9×9), although the
analyser connects user words through the system matrix: the row `left_id = 5, right_id = 5`
compiles (also after the repairs) -/
theorem userdict_read_conn_counterexample :
    ∃ n d, build Variant.repaired x0
        { input (some [some ['9', ' ', '9', '\n']]) [row ['大', '阪'] ['5'] ['5']] with base := userBase } none = .ok n 0 d ∧
      ∃ e ∈ d.entries, e.shouldIndex = true ∧ ¬ e.left < userBase.maxLeft :=
  ⟨_, _, rfl, _, List.mem_cons_self, rfl, by decide⟩

/-- non-vacuity of `compile_valid_ids_user`: the usual pipeline without a matrix has no `read_conn` -/
example : ∀ lines, Op.conn lines ∉ (input none [row ['あ'] ['0'] ['0']]).ops := by
  intro lines h
  simp [input, part] at h

end C06
