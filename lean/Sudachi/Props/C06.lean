import Sudachi.Proofs.Build
import Sudachi.Proofs.BuildTotal
import Sudachi.Proofs.BuildLimits
import Sudachi.Proofs.BuildKept
import Sudachi.Proofs.BuildShape
import Sudachi.Proofs.BuildCodec
import Sudachi.Props.C05
import Sudachi.Props.C03
/-!
# C06 — the dictionary compiler is total and never emits an invalid dictionary

Model: `Build.build` (`DictBuilder`: ANY sequence of `read_conn` / `read_lexicon` / `resolve` calls
— `Input.ops`, e.g. several lexicon parts with a `resolve` after some of them — and then `compile`)
over the records the `csv` reader delivers and the lines of the matrix text, with the writer as a
script executed against a sink that accepts `limit` bytes.  `Variant.current` is the code as it
stood, `Variant.repaired` the behaviour after the repairs D1–D5 (DESIGN §2.7) and the repair of the
builder's `resolved` flag (`Variant.rf`: `read_lexicon` clears it) — the repairs that have landed;
`Variant.staleFlag` = D1–D5 repaired, flag as the code has it; `Variant.full` = also the repairs
N1 (no matrix read: limits 0), N3 (`read_conn` on a user builder keeps the system sizes), S4 (the
matrix buffer is zeroed), S5 (the line buffer is cleared), S6 (the sizes follow the matrix buffer
also when `read_conn` failed).  `Op.connIgn` is a `read_conn` whose `Err` the caller ignores,
`Op.lexIgn` a `read_lexicon` whose `Err` the caller ignores: the builder goes on with the rows parsed
before the malformed one (`readLexB`, `readLexiconP`, `parseRecordLeft`).  `Variant.landed` = the
tree as it is now (everything above repaired); `s7` (the counter is raised after the last check of
`parse_record`) and `la` (S8: a lexicon text is read completely or not at all) are the two repairs
proposed for what a failing read leaves behind, both in `Variant.full`.
-/
namespace C06
open Build

/-! ## witnesses (concrete inputs) -/

/-- a 19-field lexicon row `surface,left,right,100,surface,名詞,普通名詞,一般,*,*,*,surface,surface,*,A,*,*,*,*` -/
def row (s l r : Str) : List Str :=
  [s, l, r, ['1', '0', '0'], s, ['名', '詞'], ['普', '通', '名', '詞'], ['一', '般'], ['*'], ['*'], ['*'],
   s, s, ['*'], ['A'], ['*'], ['*'], ['*'], ['*']]

/-- the matrix text `2 2\n0 0 1\n1 1 4\n` -/
def m22 : List (Option Str) :=
  [some ['2', ' ', '2', '\n'], some ['0', ' ', '0', ' ', '1', '\n'], some ['1', ' ', '1', ' ', '4', '\n']]

def x0 : Ext := ⟨[]⟩

/-- the records of one lexicon text, numbered from line 1 -/
def part (recs : List (List Str)) : Op := .lex ((List.range recs.length).map (· + 1) |>.zip recs) none

/-- the usual pipeline: read_conn (when there is a matrix) → read_lexicon → resolve → compile -/
def input (conn : Option (List (Option Str))) (recs : List (List Str)) : Input :=
  { base := Base.system, ops := (conn.map Op.conn).toList ++ [part recs, .resolve],
    descLen := 5, trieLen := 1024 }

/-- the inline split unit `あ,名詞,普通名詞,一般,*,*,*,あ` -/
def inlA : Str :=
  ['あ', ',', '名', '詞', ',', '普', '通', '名', '詞', ',', '一', '般', ',', '*', ',', '*', ',', '*', ',', 'あ']

/-- a C-mode row whose split-A field is `units` -/
def rowC (s : Str) (units : Str) : List Str := ((row s ['0'] ['0']).set 14 ['C']).set 15 units

/-- the witness of the stale `resolved` flag: `あ` and `ああ` (inline split `あ/あ`), `resolve()`,
then a second lexicon text `あああ` (inline split `あ/あ/あ`), compile -/
def staleInput : Input :=
  { base := Base.system,
    ops := [.conn m22, part [row ['あ'] ['0'] ['0'], rowC ['あ', 'あ'] (inlA ++ ['/'] ++ inlA)], .resolve,
            part [rowC ['あ', 'あ', 'あ'] (inlA ++ ['/'] ++ inlA ++ ['/'] ++ inlA)]],
    descLen := 5, trieLen := 1024 }

/-- `resolve()` before any lexicon text sets the flag as well -/
def resolveFirstInput : Input :=
  { base := Base.system,
    ops := [.conn m22, .resolve, part [row ['あ'] ['0'] ['0'], rowC ['あ', 'あ'] (inlA ++ ['/'] ++ inlA)]],
    descLen := 5, trieLen := 1024 }

set_option maxRecDepth 100000

/-! ## a sink failure is never reported as success -/

/-- **sink_failure** (full).  For every input and every failure offset `k` smaller than the size
of the dictionary the unlimited compilation produces, compiling into a sink that fails after `k`
bytes is an I/O error — never success, never another outcome. -/
theorem sink_failure (v : Variant) (x : Ext) (inp : Input) (n cnt k : Nat) (d : Dict)
    (h : build v x inp none = .ok n cnt d) (hk : k < n) :
    build v x inp (some k) = .err .compile .Io 0 := by
  obtain ⟨b, hp, hc⟩ := (build_ok_iff ..).1 h
  unfold build
  simp only [hp, finish, compile_sink_failure v b _ _ n k d hc hk]

/-- **sink_never_ok** (full).  Whatever the input, if compiling into a sink that accepts `k` bytes
reports success then everything was written: the unlimited run succeeds with the same size and
that size is at most `k`. -/
theorem sink_success_only_if_everything_fits (v : Variant) (x : Ext) (inp : Input) (n cnt k : Nat) (d : Dict)
    (h : build v x inp (some k) = .ok n cnt d) :
    build v x inp none = .ok n cnt d ∧ n ≤ k := by
  obtain ⟨b, hp, hc⟩ := (build_ok_iff ..).1 h
  have := compile_sink_ok v b _ _ n k d hc
  exact ⟨(build_ok_iff ..).2 ⟨b, hp, this.1⟩, this.2⟩

/-- a sink that accepts at least the size of the dictionary does not change the outcome -/
theorem sink_large_enough (v : Variant) (x : Ext) (inp : Input) (n cnt k : Nat) (d : Dict)
    (h : build v x inp none = .ok n cnt d) (hk : n ≤ k) :
    build v x inp (some k) = .ok n cnt d := by
  obtain ⟨b, hp, hc⟩ := (build_ok_iff ..).1 h
  exact (build_ok_iff ..).2 ⟨b, hp, compile_sink_enough v b _ _ n k d hc hk⟩

/-- non-vacuity of `sink_failure`: a two-word dictionary compiles to 1412 bytes (the size the real
compiler produces for this input, see the directed case `valid-2x2` of the harness) -/
example : ∃ d, build Variant.current x0 (input (some m22) [row ['あ'] ['0'] ['0'], row ['い'] ['1'] ['1']]) none
    = .ok 1412 0 d := ⟨_, rfl⟩

/-! ## totality: counterexamples on the code as it stands -/

/-- D1: the empty matrix text makes `ConnBuffer::read` panic (`todo!()`) -/
theorem compile_total_counterexample_d1 :
    build Variant.current x0 (input (some []) [row ['あ'] ['0'] ['0']]) none = .panic .conn .todoEmptyConn := by
  rfl

/-- D1 also for a text that consists of blank lines only -/
theorem compile_total_counterexample_d1_blank :
    build Variant.current x0 (input (some [some ['\n'], some [' ', '\n']]) []) none = .panic .conn .todoEmptyConn := by
  rfl

/-- D2: `2 2\n5 5 1\n` — coordinates beyond the declared size: index panic in `write_elem` -/
theorem compile_total_counterexample_d2 :
    build Variant.current x0
      (input (some [some ['2', ' ', '2', '\n'], some ['5', ' ', '5', ' ', '1', '\n']]) []) none
      = .panic .conn .connIndex := by
  rfl

/-- D2: a negative coordinate -/
theorem compile_total_counterexample_d2_negative :
    build Variant.current x0
      (input (some [some ['2', ' ', '2', '\n'], some ['-', '1', ' ', '0', ' ', '1', '\n']]) []) none
      = .panic .conn .connIndex := by
  rfl

/-- D4: a lexicon without an indexable row: assertion panic inside the trie builder -/
theorem compile_total_counterexample_d4 :
    build Variant.current x0 (input (some m22) [row ['あ'] ['-', '1'] ['-', '1']]) none
      = .panic .compile .emptyKeys := by
  rfl

/-- D4: the empty lexicon -/
theorem compile_total_counterexample_d4_empty :
    build Variant.current x0 (input (some m22) []) none = .panic .compile .emptyKeys := by
  rfl

/-- D5: a surface with `\u0000` reaches the trie builder -/
theorem compile_total_counterexample_d5 :
    build Variant.current x0
      (input (some m22) [row ['あ', '\\', 'u', '0', '0', '0', '0'] ['0'] ['0']]) none
      = .panic .compile .nulKey := by
  rfl

/-- the same inputs are errors after the repairs -/
theorem repaired_witnesses :
    build Variant.repaired x0 (input (some []) [row ['あ'] ['0'] ['0']]) none = .err .conn .InvalidConnSize 0 ∧
    build Variant.repaired x0
      (input (some [some ['2', ' ', '2', '\n'], some ['5', ' ', '5', ' ', '1', '\n']]) []) none
      = .err .conn .InvalidConnSize 2 ∧
    build Variant.repaired x0 (input (some m22) [row ['あ'] ['-', '1'] ['-', '1']]) none
      = .err .compile .TrieBuildFailure 0 ∧
    build Variant.repaired x0
      (input (some m22) [row ['あ', '\\', 'u', '0', '0', '0', '0'] ['0'] ['0']]) none
      = .err .lex .EmptySurface 1 := by
  refine ⟨rfl, rfl, rfl, rfl⟩

/-- the `resolved` flag goes stale: with D1–D5 repaired and the flag as the code has it (`resolve`
sets it, nothing clears it) a second `read_lexicon` with an inline split after `resolve()` passes
`check_if_resolved` and reaches `panic!("at this point there must not be unresolved splits")` of
`validate_entries` -/
theorem compile_total_counterexample_stale_resolved :
    build Variant.staleFlag x0 staleInput none = .panic .compile .unresolvedSplit := by
  rfl

/-- the same with `resolve()` called before the only lexicon text -/
theorem compile_total_counterexample_resolve_first :
    build Variant.staleFlag x0 resolveFirstInput none = .panic .compile .unresolvedSplit := by
  rfl

/-- with the flag cleared by `read_lexicon` both are the error `UnresolvedSplits`; calling
`resolve()` again after the last text compiles (7 resolved units in all) -/
theorem stale_resolved_repaired :
    build Variant.repaired x0 staleInput none = .err .compile .UnresolvedSplits 0 ∧
    build Variant.repaired x0 resolveFirstInput none = .err .compile .UnresolvedSplits 0 ∧
    ∃ n d, build Variant.repaired x0 { staleInput with ops := staleInput.ops ++ [.resolve] } none = .ok n 5 d := by
  refine ⟨rfl, rfl, _, _, rfl⟩

/-- **compile_total** (full for the repaired code).  With the repairs of the panics in place
(D1 `todo!()`, D2 unchecked matrix index, D4 empty key set, D5 NUL in an indexed surface, and the
`resolved` flag cleared by `read_lexicon`) the compilation of *every* input — ANY sequence of
`read_conn` / `read_lexicon` / `resolve` calls with any matrix lines, any records, any csv
failure, the `Err` of a `read_conn` or `read_lexicon` propagated or IGNORED (`Op.connIgn`,
`Op.lexIgn`: the builder goes on with what the failed call left, e.g. the rows before the malformed
one), then `compile` with any description and any sink limit — ends in `ok` or `err`, never in
a panic: in particular the `panic!` branches of `validate_entries` / `validate_wid` are
unreachable.  On the code as it stood the statement is false:
`compile_total_counterexample_d1/_d2/_d4/_d5`, and with only D1–D5 repaired
`compile_total_counterexample_stale_resolved`. -/
theorem compile_total (v : Variant) (x : Ext) (inp : Input) (limit : Option Nat)
    (h1 : v.d1 = true) (h2 : v.d2 = true) (h4 : v.d4 = true) (h5 : v.d5 = true) (hrf : v.rf = true) :
    ∀ s w, build v x inp limit ≠ .panic s w :=
  build_no_panic x inp limit h1 h2 h4 h5 hrf

/-- instance for the fully repaired variant -/
theorem compile_total_repaired (x : Ext) (inp : Input) (limit : Option Nat) :
    ∀ s w, build Variant.repaired x inp limit ≠ .panic s w :=
  compile_total Variant.repaired x inp limit rfl rfl rfl rfl rfl

/-- **compile_total** for any variant, in particular the code as it stands (**partial**: the full
statement is `compile_total`; it is false for `Variant.current` and `Variant.staleFlag`).  Whatever
the sequence of calls and their inputs, a panic can only be one of the matrix reader (stage `conn`:
D1, D2), one of the two panics of the index step (D4 when the repair is absent, D5 when the repair
is absent) or — when `read_lexicon` does not clear the `resolved` flag — the `panic!` of
`validate_entries` about an unresolved split: reading the lexicon and resolving never panic, and
the `panic!` branch of `validate_wid` is unreachable. -/
theorem compile_total_partial (v : Variant) (x : Ext) (inp : Input) (limit : Option Nat) (s : Stage) (w : PanicWhy)
    (h : build v x inp limit = .panic s w) :
    s = .conn ∨ (s = .compile ∧ ((w = .emptyKeys ∧ v.d4 = false) ∨ (w = .nulKey ∧ v.d5 = false) ∨
      (w = .unresolvedSplit ∧ v.rf = false))) :=
  build_panic_kind h

/-! ## success ⇒ valid dictionary -/

/-- what `build` guarantees on success, in terms of the sizes the ids were validated against -/
theorem build_ok_valid {v : Variant} {x : Ext} {inp : Input} {limit : Option Nat} {n cnt : Nat} {d : Dict}
    (h : build v x inp limit = .ok n cnt d) :
    IdsUpper d ∧ (v.d3 = true → RightNonneg d) ∧ RefsOk d ∧
    (SizesFollowMatrix v inp → d.maxLeft = d.conn.nl ∧ d.maxRight = d.conn.nr) ∧
    (SizesStay v inp → d.maxLeft = inp.base.initLeft v ∧ d.maxRight = inp.base.initRight v) ∧
    ((∀ lines, Op.conn lines ∉ inp.ops ∧ Op.connIgn lines ∉ inp.ops) → d.conn = Conn.empty) := by
  obtain ⟨b, hp, hc⟩ := (build_ok_iff ..).1 h
  obtain ⟨h1, h2, h3⟩ := compile_ok_valid hc
  obtain ⟨_, _, _, hd⟩ := (compile_ok_iff ..).1 hc
  obtain ⟨_, p2, p3, p4⟩ := prepare_conn hp
  refine ⟨h1, h2, h3, ?_, ?_, ?_⟩
  · rintro ⟨a1, a2, a3⟩
    have := p2 a1 a2 a3
    subst hd; exact this
  · intro hk
    have := p3 hk
    subst hd; exact this
  · intro hn
    have := p4 hn
    subst hd; exact this

/-- **compile_valid**, connection ids (full for the repaired right-id check, `v.d3`).  If the
compilation succeeds and the ids were validated against the matrix that is written
(`SizesFollowMatrix`: as the code stands that needs a `read_conn` and no ignored `Err`), every
indexed entry's connection ids lie inside the matrix that is written. -/
theorem compile_valid_ids (v : Variant) (x : Ext) (inp : Input) (limit : Option Nat) (n cnt : Nat) (d : Dict)
    (h3 : v.d3 = true) (hconn : SizesFollowMatrix v inp)
    (h : build v x inp limit = .ok n cnt d) :
    ∀ e ∈ d.entries, e.shouldIndex = true →
      0 ≤ e.left ∧ e.left < d.conn.nl ∧ 0 ≤ e.right ∧ e.right < d.conn.nr := by
  obtain ⟨hu, hr, _, hm, _⟩ := build_ok_valid h
  obtain ⟨m1, m2⟩ := hm hconn
  intro e he hi
  have := hu e he
  refine ⟨by simpa [Entry.shouldIndex] using hi, by omega, hr h3 e he hi, by omega⟩

/-- **compile_valid**, connection ids, with N1 and S6 repaired (full): for a SYSTEM dictionary
there is no hypothesis about the calls any more — no `read_conn`, `read_conn` late or twice,
`Err`s of `read_conn` ignored: whenever `compile` succeeds every indexed entry's connection ids
lie inside the matrix that is written.  False as the code stands: `no_matrix_counterexample`
(N1), `failed_read_conn_counterexample` (S6). -/
theorem compile_valid_ids_repaired (v : Variant) (x : Ext) (inp : Input) (limit : Option Nat) (n cnt : Nat) (d : Dict)
    (h3 : v.d3 = true) (hn1 : v.n1 = true) (hs6 : v.s6 = true) (hsys : inp.base.isUser = false)
    (h : build v x inp limit = .ok n cnt d) :
    ∀ e ∈ d.entries, e.shouldIndex = true →
      0 ≤ e.left ∧ e.left < d.conn.nl ∧ 0 ≤ e.right ∧ e.right < d.conn.nr :=
  compile_valid_ids v x inp limit n cnt d h3 ⟨Or.inr hsys, Or.inl hs6, Or.inl ⟨hn1, hsys⟩⟩ h

/-- the same for the code as it stands, without the clause `0 ≤ right` (**partial**: the full
statement is `compile_valid_ids`; it fails for `Variant.current`, see
`compile_valid_counterexample_d3`) -/
theorem compile_valid_ids_partial (v : Variant) (x : Ext) (inp : Input) (limit : Option Nat) (n cnt : Nat) (d : Dict)
    (hconn : SizesFollowMatrix v inp)
    (h : build v x inp limit = .ok n cnt d) :
    ∀ e ∈ d.entries, e.shouldIndex = true → 0 ≤ e.left ∧ e.left < d.conn.nl ∧ e.right < d.conn.nr := by
  obtain ⟨hu, _, _, hm, _⟩ := build_ok_valid h
  obtain ⟨m1, m2⟩ := hm hconn
  intro e he hi
  have := hu e he
  refine ⟨by simpa [Entry.shouldIndex] using hi, by omega, by omega⟩

/-- D3: on the code as it stands a row with `left_id = 0, right_id = -1` compiles: an indexed
entry whose right id is outside the matrix -/
theorem compile_valid_counterexample_d3 :
    ∃ n d, build Variant.current x0 (input (some m22) [row ['あ'] ['0'] ['-', '1']]) none = .ok n 0 d ∧
      ∃ e ∈ d.entries, e.shouldIndex = true ∧ e.right < 0 :=
  ⟨_, _, rfl, _, List.mem_cons_self, rfl, by decide⟩

/-- … and is rejected after the repair -/
theorem compile_valid_d3_repaired :
    build Variant.repaired x0 (input (some m22) [row ['あ'] ['0'] ['-', '1']]) none
      = .err .compile .InvalidFieldSize 0 := by
  rfl

/-- user dictionaries: ids are inside the system dictionary's matrix (sizes of `Base`) — as the
code stands when no `read_conn` was made on the user builder (`SizesStay`) -/
theorem compile_valid_ids_user (v : Variant) (x : Ext) (inp : Input) (limit : Option Nat) (n cnt : Nat) (d : Dict)
    (h3 : v.d3 = true) (huser : inp.base.isUser = true) (hconn : SizesStay v inp)
    (h : build v x inp limit = .ok n cnt d) :
    ∀ e ∈ d.entries, e.shouldIndex = true →
      0 ≤ e.left ∧ e.left < inp.base.maxLeft ∧ 0 ≤ e.right ∧ e.right < inp.base.maxRight := by
  obtain ⟨hu, hr, _, _, hm, _⟩ := build_ok_valid h
  obtain ⟨m1, m2⟩ := hm hconn
  simp only [Base.initLeft, Base.initRight, huser, ↓reduceIte] at m1 m2
  intro e he hi
  have := hu e he
  refine ⟨by simpa [Entry.shouldIndex] using hi, by omega, hr h3 e he hi, by omega⟩

/-- user dictionaries with N3 repaired (full): whatever calls were made on the user builder —
`read_conn` included, its `Err` ignored or not — a dictionary that compiles has the connection ids
of its indexed entries inside the SYSTEM dictionary's matrix, the one the analyser connects user
words through.  False as the code stands: `userdict_read_conn_counterexample`. -/
theorem compile_valid_ids_user_repaired (v : Variant) (x : Ext) (inp : Input) (limit : Option Nat) (n cnt : Nat) (d : Dict)
    (h3 : v.d3 = true) (hn3 : v.n3 = true) (huser : inp.base.isUser = true)
    (h : build v x inp limit = .ok n cnt d) :
    ∀ e ∈ d.entries, e.shouldIndex = true →
      0 ≤ e.left ∧ e.left < inp.base.maxLeft ∧ 0 ≤ e.right ∧ e.right < inp.base.maxRight :=
  compile_valid_ids_user v x inp limit n cnt d h3 huser (Or.inl ⟨hn3, huser⟩) h

/-- **compile_valid**, references (full, every variant).  On success the dictionary form, every
split unit and every word-structure item of every entry points to an existing entry, and no
unresolved (inline) split is left. -/
theorem compile_valid_refs (v : Variant) (x : Ext) (inp : Input) (limit : Option Nat) (n cnt : Nat) (d : Dict)
    (h : build v x inp limit = .ok n cnt d) : RefsOk d :=
  (build_ok_valid h).2.2.1

/-- **compile_valid**, format limits (full, every variant).  On success every string written for
an entry has at most 32 767 UTF-16 units (the key at most 32 767 bytes), every array (splits, word
structure, synonym groups) and every homograph group of the index at most 127 items; the index is
not empty and no indexed key contains U+0000 (for the code as it stands the last two are what the
external trie builder needs in order not to panic / not to build a corrupt trie). -/
theorem compile_valid_limits (v : Variant) (x : Ext) (inp : Input) (limit : Option Nat) (n cnt : Nat) (d : Dict)
    (h : build v x inp limit = .ok n cnt d) : LimitsOk d := by
  obtain ⟨b, _, hc⟩ := (build_ok_iff ..).1 h
  exact compile_ok_limits hc

/-- **compile_valid** (full for the repaired right-id check): all clauses together for a dictionary
whose ids were validated against the matrix that is written (as the code stands: a matrix was read
and no `Err` of `read_conn` ignored; with N1 and S6 repaired: every system dictionary,
`sizesFollow_repaired`). -/
theorem compile_valid (v : Variant) (x : Ext) (inp : Input) (limit : Option Nat) (n cnt : Nat) (d : Dict)
    (h3 : v.d3 = true) (hconn : SizesFollowMatrix v inp)
    (h : build v x inp limit = .ok n cnt d) :
    (∀ e ∈ d.entries, e.shouldIndex = true →
      0 ≤ e.left ∧ e.left < d.conn.nl ∧ 0 ≤ e.right ∧ e.right < d.conn.nr) ∧ RefsOk d ∧ LimitsOk d :=
  ⟨compile_valid_ids v x inp limit n cnt d h3 hconn h, compile_valid_refs v x inp limit n cnt d h,
   compile_valid_limits v x inp limit n cnt d h⟩

/-- non-vacuity of `compile_valid`: the hypotheses hold for the two-word dictionary -/
example : ∃ n d, Variant.repaired.d3 = true ∧
    SizesFollowMatrix Variant.repaired (input (some m22) [row ['あ'] ['0'] ['0'], row ['い'] ['1'] ['1']]) ∧
    build Variant.repaired x0 (input (some m22) [row ['あ'] ['0'] ['0'], row ['い'] ['1'] ['1']]) none = .ok n 0 d :=
  ⟨_, _, rfl, sizesFollow_pinned _ _ rfl m22 List.mem_cons_self (by intro l h; simp [input, part] at h), rfl⟩

/-- … and for a lexicon read in two parts with a `resolve()` after each (the second part refers to
the first by an inline split and by a word id) -/
example : ∃ n d, Op.conn m22 ∈ ({ staleInput with ops := staleInput.ops ++ [.resolve] } : Input).ops ∧
    build Variant.repaired x0 { staleInput with ops := staleInput.ops ++ [.resolve] } none = .ok n 5 d :=
  ⟨_, _, List.mem_cons_self, rfl⟩

/-- the ids as the analyser uses them (`conn.cost(left.right_id, right.left_id)` with the first
argument bounded by `num_left`, the second by `num_right`) -/
def UseOk (d : Dict) : Prop :=
  ∀ e ∈ d.entries, e.shouldIndex = true → 0 ≤ e.right ∧ e.right < d.conn.nl ∧ 0 ≤ e.left ∧ e.left < d.conn.nr

/-- with a square matrix validated ids are usable ids -/
theorem square_use_ok (v : Variant) (x : Ext) (inp : Input) (limit : Option Nat) (n cnt : Nat) (d : Dict)
    (h3 : v.d3 = true) (hconn : SizesFollowMatrix v inp)
    (h : build v x inp limit = .ok n cnt d) (hsq : d.conn.nl = d.conn.nr) : UseOk d := by
  intro e he hi
  have := compile_valid_ids v x inp limit n cnt d h3 hconn h e he hi
  omega

/-- D17: with the non-square matrix `3 1` the row `left_id = 2, right_id = 0` passes the
validation (also after the repairs) but its left id is outside the dimension the analyser bounds
it by -/
theorem nonsquare_use_counterexample :
    ∃ n d, build Variant.repaired x0
        (input (some [some ['3', ' ', '1', '\n'], some ['2', ' ', '0', ' ', '7', '\n']])
          [row ['あ'] ['2'] ['0']]) none = .ok n 0 d ∧ ¬ UseOk d :=
  ⟨_, _, rfl, fun h => absurd (h _ List.mem_cons_self rfl).2.2.2 (by decide)⟩

/-- N1: a system dictionary compiled without `read_conn` (the matrix is optional in the API)
gets a 0×0 matrix while ids are checked against `i16::MAX`: every indexed entry is outside
(`Variant.repaired` = the tree with the repairs that have landed) -/
theorem no_matrix_counterexample :
    ∃ n d, build Variant.repaired x0 (input none [row ['あ'] ['0'] ['0']]) none = .ok n 0 d ∧
      d.conn = Conn.empty ∧ ∃ e ∈ d.entries, e.shouldIndex = true ∧ ¬ e.left < d.conn.nl :=
  ⟨_, _, rfl, rfl, _, List.mem_cons_self, rfl, by decide⟩

/-- a user-dictionary builder over a system dictionary with 7 words and a 3×3 matrix -/
def userBase : Base := ⟨[[['名', '詞'], ['普', '通', '名', '詞'], ['一', '般'], ['*'], ['*'], ['*']]], 3, 3, some 7, []⟩

/-- D8: a user-dictionary row that declares the dictionary form `U0` compiles (the validator reads
it as the reference (1, 0)); the stored raw value 0x10000000 is what the reader later uses as an
index into the user lexicon itself, far beyond its two entries -/
theorem userdict_dicform_counterexample :
    ∃ n d, build Variant.repaired x0
        { input none [row ['大', '阪'] ['0'] ['0'],
            (row ['大', '阪', '府'] ['1'] ['1']).set 13 ['U', '0']] with base := userBase } none = .ok n 0 d ∧
      ∃ e ∈ d.entries, e.dicForm ≠ WID_INVALID ∧ d.entries.length ≤ e.dicForm :=
  ⟨_, _, rfl, _, List.mem_cons_of_mem _ List.mem_cons_self, by decide, by decide⟩

/-- N3: `read_conn` on a user-dictionary builder replaces the sizes of the system dictionary's
matrix (here 3×3) the ids are validated against by those of the text it reads (9×9), although the
analyser connects user words through the system matrix: the row `left_id = 5, right_id = 5`
compiles (also after the repairs) -/
theorem userdict_read_conn_counterexample :
    ∃ n d, build Variant.repaired x0
        { input (some [some ['9', ' ', '9', '\n']]) [row ['大', '阪'] ['5'] ['5']] with base := userBase } none = .ok n 0 d ∧
      ∃ e ∈ d.entries, e.shouldIndex = true ∧ ¬ e.left < userBase.maxLeft :=
  ⟨_, _, rfl, _, List.mem_cons_self, rfl, by decide⟩

/-- non-vacuity of `compile_valid_ids_user`: the usual pipeline without a matrix has no `read_conn` -/
example : userBase.isUser = true ∧ SizesStay Variant.repaired { input none [row ['あ'] ['0'] ['0']] with base := userBase } := by
  refine ⟨rfl, Or.inr ?_⟩
  intro lines
  constructor <;> (intro h; simp [input, part] at h)

/-! ## N1, N3 repaired -/

/-- N1 repaired: without a matrix no connection id is valid — the witness of
`no_matrix_counterexample` is rejected by `validate_entries` -/
theorem no_matrix_repaired :
    build Variant.full x0 (input none [row ['あ'] ['0'] ['0']]) none = .err .compile .InvalidFieldSize 0 := by
  rfl

/-- N3 repaired: the row of `userdict_read_conn_counterexample` is rejected (as it is without the
`read_conn`), the row with ids inside the system matrix still compiles -/
theorem userdict_read_conn_repaired :
    build Variant.full x0
        { input (some [some ['9', ' ', '9', '\n']]) [row ['大', '阪'] ['5'] ['5']] with base := userBase } none
      = .err .compile .InvalidFieldSize 0 ∧
    ∃ n d, build Variant.full x0
        { input (some [some ['9', ' ', '9', '\n']]) [row ['大', '阪'] ['1'] ['2']] with base := userBase } none
      = .ok n 0 d :=
  ⟨rfl, _, _, rfl⟩

/-- non-vacuity of `compile_valid_ids_repaired` / `compile_valid_ids_user_repaired` -/
example : Variant.full.d3 = true ∧ Variant.full.n1 = true ∧ Variant.full.s6 = true ∧ Variant.full.n3 = true ∧
    Base.system.isUser = false ∧ userBase.isUser = true ∧
    ∃ n d, build Variant.full x0 (input (some m22) [row ['あ'] ['0'] ['0'], row ['い'] ['1'] ['1']]) none = .ok n 0 d :=
  ⟨rfl, rfl, rfl, rfl, rfl, rfl, _, _, rfl⟩

/-! ## the matrix buffer between calls: S4 (stale cells), S5 (stale line), S6 (stale sizes) -/

/-- the matrix text `2 2\n0 0 7\n1 1 9\n` -/
def m22a : List (Option Str) :=
  [some ['2', ' ', '2', '\n'], some ['0', ' ', '0', ' ', '7', '\n'], some ['1', ' ', '1', ' ', '9', '\n']]

/-- calls, then one lexicon text and `resolve()` -/
def inputOps (ops : List Op) (recs : List (List Str)) : Input :=
  { base := Base.system, ops := ops ++ [part recs, .resolve], descLen := 5, trieLen := 1024 }

/-- S4: `read_conn("2 2\n0 0 7\n1 1 9\n")` then `read_conn("2 2\n")` — the second text lists no
cell, the matrix that is written still has the costs 7 and 9 of the first (`Vec::resize` keeps
them) -/
theorem stale_cells_counterexample :
    ∃ n d, build Variant.repaired x0
        (inputOps [.conn m22a, .conn [some ['2', ' ', '2', '\n']]] [row ['あ'] ['0'] ['0']]) none = .ok n 0 d ∧
      d.conn.cell 0 = 7 ∧ d.conn.cell 3 = 9 ∧
      (readConn Variant.repaired ConnBuf.new [some ['2', ' ', '2', '\n']]).1.conn.cell 0 = 0 :=
  ⟨_, _, rfl, rfl, rfl, rfl⟩

/-- S5, a retry fails: `read_conn("2 2\n0 0 x\n")` is an error (ignored by the caller), the
CORRECT text `2 2\n0 0 1\n` read next is rejected too — its header is appended to the line the
first call failed on — although a new builder accepts it -/
theorem stale_line_counterexample_retry :
    build Variant.repaired x0
        (inputOps [.connIgn [some ['2', ' ', '2', '\n'], some ['0', ' ', '0', ' ', 'x', '\n']],
                   .conn [some ['2', ' ', '2', '\n'], some ['0', ' ', '0', ' ', '1', '\n']]]
          [row ['あ'] ['0'] ['0']]) none = .err .conn .InvalidI16Literal 1 ∧
    ∃ n d, build Variant.repaired x0
        (inputOps [.conn [some ['2', ' ', '2', '\n'], some ['0', ' ', '0', ' ', '1', '\n']]]
          [row ['あ'] ['0'] ['0']]) none = .ok n 0 d :=
  ⟨rfl, _, _, rfl⟩

/-- S5, an invalid text is accepted: `read_conn("5 \n")` is an error (one number), then the text
`7\n0 0 1\n`, which a new builder rejects, is read as a 5×7 matrix and a row with ids (4, 6)
compiles -/
theorem stale_line_counterexample_accepts :
    (∃ n d, build Variant.repaired x0
        (inputOps [.connIgn [some ['5', ' ', '\n']],
                   .conn [some ['7', '\n'], some ['0', ' ', '0', ' ', '1', '\n']]]
          [row ['あ'] ['4'] ['6']]) none = .ok n 0 d ∧ d.conn.nl = 5 ∧ d.conn.nr = 7) ∧
    build Variant.repaired x0
        (inputOps [.conn [some ['7', '\n'], some ['0', ' ', '0', ' ', '1', '\n']]]
          [row ['あ'] ['4'] ['6']]) none = .err .conn .SplitFormatError 1 :=
  ⟨⟨_, _, rfl, rfl, rfl⟩, rfl⟩

/-- S6: `read_conn("3 3\n")`, then `read_conn("1 1\n0 0 x\n")` fails AFTER the buffer was resized to
1×1 (the `Err` is ignored); the row with ids (2, 2) is validated against 3×3 and compiles into a
dictionary whose matrix is 1×1 -/
theorem failed_read_conn_counterexample :
    ∃ n d, build Variant.repaired x0
        (inputOps [.conn [some ['3', ' ', '3', '\n']],
                   .connIgn [some ['1', ' ', '1', '\n'], some ['0', ' ', '0', ' ', 'x', '\n']]]
          [row ['あ'] ['2'] ['2']]) none = .ok n 0 d ∧
      d.conn.nl = 1 ∧ ∃ e ∈ d.entries, e.shouldIndex = true ∧ ¬ e.left < d.conn.nl :=
  ⟨_, _, rfl, rfl, _, List.mem_cons_self, rfl, by decide⟩

/-- the same inputs with S4, S5, S6 repaired: the second matrix is all zeros; the retry succeeds;
the invalid text is rejected; the row outside the 1×1 matrix is rejected -/
theorem stale_buffer_repaired :
    (∃ n d, build Variant.full x0
        (inputOps [.conn m22a, .conn [some ['2', ' ', '2', '\n']]] [row ['あ'] ['0'] ['0']]) none = .ok n 0 d ∧
      d.conn.cells = []) ∧
    (∃ n d, build Variant.full x0
        (inputOps [.connIgn [some ['2', ' ', '2', '\n'], some ['0', ' ', '0', ' ', 'x', '\n']],
                   .conn [some ['2', ' ', '2', '\n'], some ['0', ' ', '0', ' ', '1', '\n']]]
          [row ['あ'] ['0'] ['0']]) none = .ok n 0 d) ∧
    build Variant.full x0
        (inputOps [.connIgn [some ['5', ' ', '\n']],
                   .conn [some ['7', '\n'], some ['0', ' ', '0', ' ', '1', '\n']]]
          [row ['あ'] ['4'] ['6']]) none = .err .conn .SplitFormatError 1 ∧
    build Variant.full x0
        (inputOps [.conn [some ['3', ' ', '3', '\n']],
                   .connIgn [some ['1', ' ', '1', '\n'], some ['0', ' ', '0', ' ', 'x', '\n']]]
          [row ['あ'] ['2'] ['2']]) none = .err .compile .InvalidFieldSize 0 :=
  ⟨⟨_, _, rfl, rfl⟩, ⟨_, _, rfl⟩, rfl, rfl⟩

/-- **read_conn is a function of the text** — S5 repaired (full for the result): whether
`ConnBuffer::read` accepts a text, the error and line it rejects it with, the sizes of the matrix
and what it leaves in the line buffer are those a new `ConnBuffer` gives, whatever earlier calls
(failed or not) left behind.  False as the code stands: `stale_line_counterexample_retry`,
`stale_line_counterexample_accepts`. -/
theorem read_conn_result_fresh (v : Variant) (h5 : v.s5 = true) (buf : ConnBuf) (lines : List (Option Str)) :
    (readConn v buf lines).2 = (readConn v ConnBuf.new lines).2 ∧
    (readConn v buf lines).1.line = (readConn v ConnBuf.new lines).1.line ∧
    ((readConn v buf lines).2 = .ok () →
      (readConn v buf lines).1.conn.nl = (readConn v ConnBuf.new lines).1.conn.nl ∧
      (readConn v buf lines).1.conn.nr = (readConn v ConnBuf.new lines).1.conn.nr ∧
      (readConn v buf lines).1.conn.bytes = (readConn v ConnBuf.new lines).1.conn.bytes) :=
  readConn_result_fresh h5 buf lines

/-- … S4 and S5 repaired (full): and when it accepts the text, the whole buffer — sizes and every
cell — is the one a new `ConnBuffer` holds after reading the same text.  False as the code
stands: `stale_cells_counterexample`. -/
theorem read_conn_fresh (v : Variant) (h4 : v.s4 = true) (h5 : v.s5 = true) (buf : ConnBuf) (lines : List (Option Str)) :
    (readConn v buf lines).2 = (readConn v ConnBuf.new lines).2 ∧
    ((readConn v buf lines).2 = .ok () → (readConn v buf lines).1 = (readConn v ConnBuf.new lines).1) :=
  readConn_fresh h4 h5 buf lines

/-- **the matrix that is written is the matrix of the last text** (S4, S5 repaired; full): if the
calls are `… read_conn(text)? …` with no `read_conn` after it and `compile` succeeds, the matrix
of the dictionary (sizes and every cell) is what a new `ConnBuffer` holds after reading `text` —
nothing of earlier texts, accepted or rejected, is left in it.  False as the code stands:
`stale_cells_counterexample`, `stale_line_counterexample_accepts`. -/
theorem compile_matrix_is_last_text (v : Variant) (x : Ext) (inp : Input) (limit : Option Nat) (n cnt : Nat) (d : Dict)
    (h4 : v.s4 = true) (h5 : v.s5 = true) (pre post : List Op) (lines : List (Option Str))
    (hops : inp.ops = pre ++ Op.conn lines :: post)
    (hpost : ∀ l, Op.conn l ∉ post ∧ Op.connIgn l ∉ post)
    (h : build v x inp limit = .ok n cnt d) :
    (readConn v ConnBuf.new lines).2 = .ok () ∧ d.conn = (readConn v ConnBuf.new lines).1.conn := by
  obtain ⟨b, hp, hc⟩ := (build_ok_iff ..).1 h
  obtain ⟨_, _, _, hd⟩ := (compile_ok_iff ..).1 hc
  obtain ⟨buf, hok, hb⟩ := prepare_last_conn hp hops (noConn_of_not_mem hpost)
  obtain ⟨f1, f2⟩ := readConn_fresh h4 h5 buf lines
  refine ⟨f1 ▸ hok, ?_⟩
  subst hd
  simp only
  rw [hb, f2 hok]

/-- non-vacuity of `compile_matrix_is_last_text`: the witness of `stale_cells_counterexample` has
the shape and compiles -/
example : ∃ n d, build Variant.full x0
      (inputOps [.conn m22a, .conn [some ['2', ' ', '2', '\n']]] [row ['あ'] ['0'] ['0']]) none = .ok n 0 d ∧
    (inputOps [.conn m22a, .conn [some ['2', ' ', '2', '\n']]] [row ['あ'] ['0'] ['0']]).ops
      = [.conn m22a] ++ Op.conn [some ['2', ' ', '2', '\n']] :: [part [row ['あ'] ['0'] ['0']], .resolve] :=
  ⟨_, _, rfl, rfl⟩

/-! ## a `read_lexicon` that FAILS and whose `Err` the caller ignores (`Op.lexIgn`)

`LexiconReader::read_bytes` pushes every row it parsed before the malformed one; those rows have
raised `unresolved` and registered their POS; `DictBuilder::read_lexicon` clears `resolved` before it
looks at the result.  `Variant.landed` is the tree as it is now. -/

/-- the matrix text `1 1\n0 0 0\n` -/
def m11 : List (Option Str) := [some ['1', ' ', '1', '\n'], some ['0', ' ', '0', ' ', '0', '\n']]

/-- a row cut off after two fields, `い,0`: `NoRawField` -/
def shortRow : List Str := [['い'], ['0']]

/-- like `part`, but the caller ignores an `Err` -/
def partIgn (recs : List (List Str)) : Op := .lexIgn ((List.range recs.length).map (· + 1) |>.zip recs) none

/-- `read_conn`, `read_lexicon(あ ; ああ with inline あ/あ)`, `resolve()`, then a lexicon text whose
first row `あああ` (inline `あ/あ/あ`) is fine and whose second row is cut off — the `Err` is ignored —
then `compile` (the shape of seeded change C06b) -/
def failedReadInput : Input :=
  { base := Base.system,
    ops := [.conn m11, part [row ['あ'] ['0'] ['0'], rowC ['あ', 'あ'] (inlA ++ ['/'] ++ inlA)], .resolve,
            partIgn [rowC ['あ', 'あ', 'あ'] (inlA ++ ['/'] ++ inlA ++ ['/'] ++ inlA), shortRow]],
    descLen := 5, trieLen := 1024 }

/-- if the flag is NOT cleared by the failing `read_lexicon` (`rf = false`: nothing but `resolve`
touches it — for a failing read that is also what `let n = collect_r(result)?; if n > 0 { resolved =
false }` does) the row kept from the failed text reaches `validate_entries` with its inline units:
`compile` panics -/
theorem compile_total_counterexample_failed_read :
    build Variant.staleFlag x0 failedReadInput none = .panic .compile .unresolvedSplit := by
  rfl

/-- the tree as it is: the failing read has cleared the flag, `compile` answers `UnresolvedSplits`;
after one more `resolve()` the dictionary compiles and the row kept from the failed text is its
third entry (5 units resolved in all) -/
theorem failed_read_landed :
    build Variant.landed x0 failedReadInput none = .err .compile .UnresolvedSplits 0 ∧
    ∃ n d, build Variant.landed x0 { failedReadInput with ops := failedReadInput.ops ++ [.resolve] } none = .ok n 5 d ∧
      surfaces d.entries = [['あ'], ['あ', 'あ'], ['あ', 'あ', 'あ']] :=
  ⟨rfl, _, _, rfl, rfl⟩

/-- **read_lexicon clears the flag whatever its result** (full; `rf`): after `read_lexicon` — `Ok` or
`Err`, rows kept or not — `resolved` is `false`, and nothing but the reader and the flag changed -/
theorem read_lexicon_clears_flag (v : Variant) (x : Ext) (b : Builder) (recs : List (Nat × List Str)) (ce : Option Nat)
    (hrf : v.rf = true) :
    (readLexB v x b recs ce).1.resolved = false ∧
    (readLexB v x b recs ce).1.conn = b.conn ∧ (readLexB v x b recs ce).1.maxLeft = b.maxLeft ∧
    (readLexB v x b recs ce).1.maxRight = b.maxRight ∧ (readLexB v x b recs ce).1.connLine = b.connLine := by
  obtain ⟨f1, f2, f3, _, f5, f6⟩ := readLexB_frame v x b recs ce
  exact ⟨by rw [f6, hrf]; rfl, f1, f2, f3, f5⟩

/-- **what a failed read_lexicon keeps** (full; the code as it stands, `la = false`).  If
`read_lexicon` returns `Err(k)` at `line`, then either the csv reader failed — and ALL records it had
delivered are in the builder, exactly as a successful read of them leaves it — or the records split
into `pre`, the malformed record at `line`, and `post`, such that: every record of `pre` parsed
(state `st1` = what reading `pre` alone gives: one entry per record appended to the entries the
builder had); `parse_record` rejects the malformed record with `k` in that state; the entries left
are EXACTLY those of `st1` — nothing of the malformed record, nothing of `post`; every POS registered
up to `st1` keeps its id (the table left extends `st1.pos`: the malformed row may have registered
more); `unresolved` is at least `st1`'s (equal after the repair S7). -/
theorem failed_read_keeps (v : Variant) (x : Ext) (b : Builder) (recs : List (Nat × List Str)) (ce : Option Nat)
    (k : ErrKind) (line : Nat) (hla : v.la = false) (h : (readLexB v x b recs ce).2 = .err k line) :
    (k = .Csv ∧ ce = some line ∧ readLexicon v x b.lex recs = .ok (readLexB v x b recs ce).1.lex) ∨
    ∃ pre bad post st1, recs = pre ++ (line, bad) :: post ∧ readLexicon v x b.lex pre = .ok st1 ∧
      parseRecord v x st1 bad = .error k ∧
      (readLexB v x b recs ce).1.lex.entries = st1.entries ∧
      (∃ es, es.length = pre.length ∧ st1.entries = b.lex.entries ++ es) ∧
      st1.pos <+: (readLexB v x b recs ce).1.lex.pos ∧
      st1.unresolved ≤ (readLexB v x b recs ce).1.lex.unresolved ∧
      (v.s7 = true → (readLexB v x b recs ce).1.lex.unresolved = st1.unresolved) := by
  unfold readLexB at h ⊢
  cases hr : readLexiconP v x b.lex recs with
  | mk st r =>
    have hst : st = (readLexiconP v x b.lex recs).1 := by rw [hr]
    have hres : r = (readLexiconP v x b.lex recs).2 := by rw [hr]
    cases r with
    | ok u =>
      cases u
      cases ce with
      | none => simp [hr] at h
      | some l =>
        simp only [hr, Res.err.injEq] at h
        obtain ⟨rfl, rfl⟩ := h
        left
        refine ⟨rfl, rfl, ?_⟩
        simp only [hla]
        rw [hst]
        exact readLexiconP_ok hres.symm
    | panic w => simp [hr] at h
    | err k' l' =>
      simp only [hr, Res.err.injEq] at h
      obtain ⟨rfl, rfl⟩ := h
      right
      obtain ⟨pre, bad, post, st1, h1, h2, h3, h4⟩ := readLexiconP_err hres.symm
      obtain ⟨g1, g2, g3⟩ := parseRecordLeft_frame v x st1 bad
      have g4 := parseRecordLeft_pos_prefix v x st1 bad
      obtain ⟨k1, _, _⟩ := readLexicon_kept h2
      refine ⟨pre, bad, post, st1, h1, h2, h3, ?_, k1, ?_, ?_, ?_⟩ <;>
        simp only [hla, Bool.false_eq_true, ↓reduceIte, hst, h4]
      · exact g1
      · exact g4
      · exact g2
      · exact g3

/-- **a failed read_lexicon leaves nothing** — S8 repaired (`la`; full): entries, POS table and
`unresolved` are what they were before the call (only `resolved` is cleared).  False as the code
stands: `failed_read_retry_duplicates_counterexample`. -/
theorem failed_read_atomic (v : Variant) (x : Ext) (b : Builder) (recs : List (Nat × List Str)) (ce : Option Nat)
    (hla : v.la = true) (h : (readLexB v x b recs ce).2 ≠ .ok ()) :
    (readLexB v x b recs ce).1.lex = b.lex := by
  unfold readLexB at h ⊢
  cases hr : readLexiconP v x b.lex recs with
  | mk st r =>
    cases r with
    | ok u =>
      cases u
      cases ce with
      | none => simp [hr] at h
      | some l => simp [hla]
    | err k l => simp [hla]
    | panic w => simp [hla]

/-- **compile_total for pipelines with ignored read_lexicon failures** (full): with the panic
repairs and the flag cleared by `read_lexicon`, a sequence of calls that contains a `read_lexicon`
whose `Err` is ignored — whatever it kept — never makes the pipeline panic; the ignored call itself
does not panic and leaves the flag cleared.  (Instance of `compile_total`, which quantifies over all
sequences; stated for the shape the seeded change needs.)  False when the flag survives a failing
read: `compile_total_counterexample_failed_read`. -/
theorem compile_total_ignored_failures (v : Variant) (x : Ext) (inp : Input) (limit : Option Nat)
    (h1 : v.d1 = true) (h2 : v.d2 = true) (h4 : v.d4 = true) (h5 : v.d5 = true) (hrf : v.rf = true)
    (pre post : List Op) (recs : List (Nat × List Str)) (ce : Option Nat)
    (_hops : inp.ops = pre ++ Op.lexIgn recs ce :: post) :
    (∀ s w, build v x inp limit ≠ .panic s w) ∧
    ∀ b, (readLexB v x b recs ce).2.isPanic = false ∧ (readLexB v x b recs ce).1.resolved = false :=
  ⟨compile_total v x inp limit h1 h2 h4 h5 hrf,
   fun b => ⟨readLexB_no_panic v x b recs ce, (read_lexicon_clears_flag v x b recs ce hrf).1⟩⟩

/-- **compile_valid over pipelines with ignored read_lexicon failures** (full for the repaired
right-id check).  If the calls are `pre`, a `read_lexicon` whose `Err` is ignored, `post`, and
`compile` succeeds, then the rows the failed call left in the builder ARE rows of the dictionary
(their surfaces, in order, begin the dictionary's), and the dictionary is valid like any other:
connection ids of indexed entries inside the matrix, every reference resolved and pointing to an
existing entry, format limits respected — the rows kept from the failed text went through
`validate_entries` like the rest. -/
theorem compile_valid_ignored_failures (v : Variant) (x : Ext) (inp : Input) (limit : Option Nat) (n cnt : Nat) (d : Dict)
    (h3 : v.d3 = true) (hconn : SizesFollowMatrix v inp)
    (pre post : List Op) (recs : List (Nat × List Str)) (ce : Option Nat)
    (hops : inp.ops = pre ++ Op.lexIgn recs ce :: post)
    (h : build v x inp limit = .ok n cnt d) :
    (∃ b0 c0, runOps v x (Builder.init v inp.base, 0) pre = .ok (b0, c0) ∧
      surfaces (readLexB v x b0 recs ce).1.lex.entries <+: surfaces d.entries) ∧
    (∀ e ∈ d.entries, e.shouldIndex = true →
      0 ≤ e.left ∧ e.left < d.conn.nl ∧ 0 ≤ e.right ∧ e.right < d.conn.nr) ∧ RefsOk d ∧ LimitsOk d := by
  obtain ⟨b, hp, hc⟩ := (build_ok_iff ..).1 h
  obtain ⟨_, _, _, hd⟩ := (compile_ok_iff ..).1 hc
  obtain ⟨b0, c0, hb0, hs⟩ := prepare_lexIgn hp hops
  refine ⟨⟨b0, c0, hb0, ?_⟩, compile_valid v x inp limit n cnt d h3 hconn h⟩
  subst hd
  exact hs

/-- non-vacuity of `compile_total_ignored_failures`, `compile_valid_ignored_failures` and
`failed_read_keeps`: the witness has the shape, the ignored call fails with `NoRawField` at line 2
having kept a row, the flags of `Variant.landed` are the ones asked for, and with one more
`resolve()` it compiles under `SizesFollowMatrix` -/
example : failedReadInput.ops = [.conn m11, part [row ['あ'] ['0'] ['0'], rowC ['あ', 'あ'] (inlA ++ ['/'] ++ inlA)], .resolve]
      ++ Op.lexIgn ((List.range 2).map (· + 1) |>.zip [rowC ['あ', 'あ', 'あ'] (inlA ++ ['/'] ++ inlA ++ ['/'] ++ inlA), shortRow]) none :: [] ∧
    Variant.landed.d1 = true ∧ Variant.landed.d3 = true ∧ Variant.landed.rf = true ∧ Variant.landed.la = false ∧
    SizesFollowMatrix Variant.landed { failedReadInput with ops := failedReadInput.ops ++ [.resolve] } ∧
    (∃ n d, build Variant.landed x0 { failedReadInput with ops := failedReadInput.ops ++ [.resolve] } none = .ok n 5 d) ∧
    (readLexB Variant.landed x0 (Builder.init Variant.landed Base.system)
      ((List.range 2).map (· + 1) |>.zip [rowC ['あ', 'あ', 'あ'] (inlA ++ ['/'] ++ inlA ++ ['/'] ++ inlA), shortRow]) none).2
      = .err .NoRawField 2 :=
  ⟨rfl, rfl, rfl, rfl, rfl, sizesFollow_repaired _ _ rfl rfl rfl, ⟨_, _, rfl⟩, rfl⟩

/-- non-vacuity of `failed_read_atomic` -/
example : Variant.full.la = true ∧
    (readLexB Variant.full x0 (Builder.init Variant.full Base.system) [(1, row ['あ'] ['0'] ['0']), (2, shortRow)] none).2 ≠ .ok () :=
  ⟨rfl, by
    rw [show (readLexB Variant.full x0 (Builder.init Variant.full Base.system)
      [(1, row ['あ'] ['0'] ['0']), (2, shortRow)] none).2 = .err .NoRawField 2 from rfl]
    simp⟩

/-- calls, then `compile` (no `resolve()` appended) -/
def inputRaw (ops : List Op) : Input := { base := Base.system, ops := ops, descLen := 5, trieLen := 1024 }

/-- the row `,0,0,100,あ,…,C,<あ inline>/<あ inline>,*,*,*`: empty surface, two inline units -/
def emptySurfaceRow : List Str := (rowC [] (inlA ++ ['/'] ++ inlA)).set 4 ['あ']

/-- S7: the row rejected for its empty surface has raised `unresolved` (the `+=` sits before the
check): `compile` answers `UnresolvedSplits` although no entry has an inline unit — `resolve()`
finds nothing to resolve and then it compiles; after the repair S7 it compiles at once -/
theorem failed_row_bumps_unresolved_counterexample :
    build Variant.landed x0 (inputRaw [.conn m11, part [row ['あ'] ['0'] ['0']], partIgn [emptySurfaceRow]]) none
      = .err .compile .UnresolvedSplits 0 ∧
    (∃ n d, build Variant.landed x0 (inputRaw [.conn m11, part [row ['あ'] ['0'] ['0']], partIgn [emptySurfaceRow], .resolve]) none
      = .ok n 0 d) ∧
    (∃ n d, build { Variant.landed with s7 := true } x0
        (inputRaw [.conn m11, part [row ['あ'] ['0'] ['0']], partIgn [emptySurfaceRow]]) none = .ok n 0 d) :=
  ⟨rfl, ⟨_, _, rfl⟩, ⟨_, _, rfl⟩⟩

/-- the row `い,…,新品詞,…,A,0,…`: a new POS, A-mode with a split (`InvalidSplit`, detected after `pos_of`) -/
def newPosBadRow : List Str := ((row ['い'] ['0'] ['0']).set 5 ['新', '品', '詞']).set 15 ['0']

/-- the malformed row itself is half-registered: its POS stays in the table — the dictionary has
one entry and two POS rows; after the repair S8 one -/
theorem failed_row_registers_pos_counterexample :
    (∃ n d, build Variant.landed x0
        (inputRaw [.conn m11, part [row ['あ'] ['0'] ['0']], partIgn [newPosBadRow], .resolve]) none = .ok n 0 d ∧
      d.entries.length = 1 ∧ d.pos.length = 2) ∧
    (∃ n d, build Variant.full x0
        (inputRaw [.conn m11, part [row ['あ'] ['0'] ['0']], partIgn [newPosBadRow], .resolve]) none = .ok n 0 d ∧
      d.entries.length = 1 ∧ d.pos.length = 1) :=
  ⟨⟨_, _, rfl, rfl, rfl⟩, ⟨_, _, rfl, rfl, rfl⟩⟩

/-- S8: a text `あ ; い ; <cut-off row>` fails, the caller corrects it and reads `あ ; い ; う`: the
two rows the failed call kept are there twice (5 entries); after the repair S8 the dictionary has
the 3 rows of the corrected text -/
theorem failed_read_retry_duplicates_counterexample :
    (∃ n d, build Variant.landed x0
        (inputRaw [.conn m11, partIgn [row ['あ'] ['0'] ['0'], row ['い'] ['0'] ['0'], shortRow],
                   part [row ['あ'] ['0'] ['0'], row ['い'] ['0'] ['0'], row ['う'] ['0'] ['0']], .resolve]) none = .ok n 0 d ∧
      surfaces d.entries = [['あ'], ['い'], ['あ'], ['い'], ['う']]) ∧
    (∃ n d, build Variant.full x0
        (inputRaw [.conn m11, partIgn [row ['あ'] ['0'] ['0'], row ['い'] ['0'] ['0'], shortRow],
                   part [row ['あ'] ['0'] ['0'], row ['い'] ['0'] ['0'], row ['う'] ['0'] ['0']], .resolve]) none = .ok n 0 d ∧
      surfaces d.entries = [['あ'], ['い'], ['う']]) :=
  ⟨⟨_, _, rfl, rfl⟩, ⟨_, _, rfl, rfl⟩⟩

/-- a row kept from a failed text is validated like any other: `あ` declares the dictionary form 2,
the row with that number comes after the malformed one and was never read — `compile` rejects the
entry (`InvalidFieldSize` at entry 0) instead of emitting a dangling reference -/
theorem failed_read_kept_row_validated :
    build Variant.landed x0
      (inputRaw [.conn m11, partIgn [(row ['あ'] ['0'] ['0']).set 13 ['2'], shortRow, row ['う'] ['0'] ['0']], .resolve]) none
      = .err .compile .InvalidFieldSize 0 := by
  rfl


/-! ## success ⇒ the dictionary LOADS and ANALYSES (last clause of the property): the builder model composed with
C05's writer / loader (`Model/Codec*.lean`, `C05.dict_roundtrip`) and C03's pipeline (`Model/Total.lean`,
`C03.tokenize_total`) through `BuildLoad.toCodec` (`Model/BuildLoad.lean`, executed by the driver on every successful
case and compared with the real `DictionaryLoader`: token `load=` of the answer line)

Parameters of the file C06's builder model does not keep (`BuildLoad.Aux`): creation time (`u64`), description bytes
(C06 keeps their number: `hdesc`), trie blob of the external builder (C06 keeps its length; an array of `u32` units:
`htrie`), code variant of `write_word_info`.  `hbase`: the POS table a user builder starts from has at most 32768 rows
(what a dictionary built by this builder has; 0 for a system builder).  `hsize`: the file is smaller than 4 GiB (the
offsets are `u32`; nothing in the builder checks it - it bounds the trie blob as much as the input). -/

open BuildLoad in
/-- **compile_output_is_codec_file** (FULL).  For every sequence of calls the compiler accepts (any variant with the
right-id check `d3`; any sink), the emitted entries / POS table / matrix are a builder state of C05's writer model
that lies within the limits of the binary format (`Codec.FileOk`: `i16` parameters and matrix sizes, one `i16` per
cell, `u16` POS ids and POS-row count, six strings per POS row, strings of scalar values with ≤ 32767 UTF-16 units,
keys ≤ 32767 bytes, `u32` ids, ≤ 127 items per array and per homograph group, description ≤ 256 bytes) and passes
C05's `validateEntries`: the format limits are exactly what C06's `compile_valid` (limits, references, ids) plus the
types of the parsers establish. -/
theorem compile_output_is_codec_file (v : Variant) (x : Ext) (inp : Input) (limit : Option Nat) (n cnt : Nat) (d : Dict)
    (a : Aux) (h3 : v.d3 = true) (h : build v x inp limit = .ok n cnt d)
    (hbase : inp.base.pos0.length ≤ 32768)
    (hdesc : a.desc.length = inp.descLen) (htime : a.time < 18446744073709551616) (htrie : a.trie.length % 4 = 0)
    (hsize : (Codec.fileBytes (toCodec d inp.base.pos0.length a)).length < 4294967296) :
    Codec.FileOk (toCodec d inp.base.pos0.length a) ∧
    Codec.validateEntries (toCodec d inp.base.pos0.length a).dfOwn (toCodec d inp.base.pos0.length a).maxLeft
      (toCodec d inp.base.pos0.length a).maxRight (toCodec d inp.base.pos0.length a).numSystem
      (toCodec d inp.base.pos0.length a).entries = true := by
  obtain ⟨b, hp, hc⟩ := (build_ok_iff ..).1 h
  obtain ⟨hsh, hb⟩ := prepare_shape hp
  have hinv := prepare_inv hp
  refine ⟨?_, ?_⟩
  · have := fileOk_of_compile a hsh hinv hc (by rw [hb]; exact hbase) hdesc htime htrie (by rw [hb]; exact hsize)
    rw [hb] at this; exact this
  · obtain ⟨_, hv, _, hd⟩ := (compile_ok_iff ..).1 hc
    subst hd
    exact validateEntries_bridge h3 hv

open BuildLoad in
/-- **compile_ok_loads** (FULL).  `compile … = ok` ⇒ C05's writer emits the file for the same builder state, the
loader model (`read_system_dictionary` / `read_user_dictionary`: header, grammar block, lexicon block, every offset in
range) succeeds on it and returns what was declared: the POS rows the dictionary adds, the matrix sizes and EVERY cell
(`cellCost`: the last cost written to the cell, 0 if none), one word per entry, and for every entry its parameters
and its word-info record (headword, key length, POS id, split units, word structure, synonym groups).  These are the
quantities of the `load=` / `par=` tokens the driver prints and the harness compares with the real loader. -/
theorem compile_ok_loads (v : Variant) (x : Ext) (inp : Input) (limit : Option Nat) (n cnt : Nat) (d : Dict)
    (a : Aux) (h3 : v.d3 = true) (h : build v x inp limit = .ok n cnt d)
    (hbase : inp.base.pos0.length ≤ 32768)
    (hdesc : a.desc.length = inp.descLen) (htime : a.time < 18446744073709551616) (htrie : a.trie.length % 4 = 0)
    (hsize : (Codec.fileBytes (toCodec d inp.base.pos0.length a)).length < 4294967296) :
    ∃ ld g,
      Codec.compile (toCodec d inp.base.pos0.length a) = .ok (Codec.fileBytes (toCodec d inp.base.pos0.length a)) ∧
      loadFile d.numSystem.isSome (Codec.fileBytes (toCodec d inp.base.pos0.length a)) = .ok ld ∧
      ld.grammar = some g ∧
      g.posList = (d.pos.map (fun k => k.map str)).drop inp.base.pos0.length ∧
      g.numLeft = d.conn.nl.toNat ∧ g.numRight = d.conn.nr.toNat ∧
      (∀ l r, l < d.conn.nl.toNat → r < d.conn.nr.toNat → g.cost l r = .ok (cellCost d.conn l r)) ∧
      ld.lexicon.size = d.entries.length ∧
      ∀ i e, d.entries[i]? = some e →
        ld.lexicon.getParams i = .ok (e.left, e.right, e.cost) ∧
        ∃ wi, ld.lexicon.parseWordInfo i = .ok wi ∧ wi.surface = str e.headwordStr ∧
          wi.headWordLength = Build.utf8Len e.surface ∧ wi.posId = e.pos ∧
          wi.aUnitSplit = e.splitsA.map unitRaw ∧ wi.bUnitSplit = e.splitsB.map unitRaw ∧
          wi.wordStructure = e.wordStructure ∧ wi.synonymGroupIds = e.synonyms := by
  obtain ⟨hok, hval⟩ := compile_output_is_codec_file v x inp limit n cnt d a h3 h hbase hdesc htime htrie hsize
  obtain ⟨ld, g, c1, _, c3, _, _, _, _, g1, g2, g3, g4, g5, _, _, s1, s2⟩ :=
    C05.dict_roundtrip (toCodec d inp.base.pos0.length a) hok hval
  refine ⟨ld, g, c1, ?_, g1, g2, g3, g4, ?_, by rw [s1]; simp [toCodec], ?_⟩
  · unfold loadFile; exact c3
  · intro l r hl hr
    exact g5 (cellCost d.conn) (holds_matrixBytes d.conn) l r hl hr
  · intro i e hi
    have hi' : (toCodec d inp.base.pos0.length a).entries[i]? = some (entry e) := by simp [toCodec, hi]
    obtain ⟨p1, p2⟩ := s2 i (entry e) hi'
    refine ⟨p1, _, p2, entry_headwordS e, ?_, rfl, rfl, rfl, rfl, rfl⟩
    show Codec.utf8LenStr (str e.surface) = Build.utf8Len e.surface
    exact utf8Len_str e.surface

open BuildLoad in
/-- **compiled_dictionary_analyses** (FULL for system dictionaries with a square matrix; D8 and D17 are the two
exclusions, see below).  A system dictionary (`hsys`) compiled with ids validated against the matrix that is written
(`hconn`) whose matrix is square (`hsq`) loads (`compile_ok_loads`) and gives C03's analysis model what
`C03.tokenize_total` asks of a lexicon and a grammar:

* (ids, as USED by `connect`: `conn.cost(previous.right_id, next.left_id)`, first argument bounded by `num_left`, second
  by `num_right`, BOS/EOS have id 0) for every pair of indexed words and for BOS/EOS next to any indexed word the
  loaded matrix answers a cost without its debug assertion or a slice failure, and the cost is an `i16`;
* (references = `LexClosed`) `get_word_info(i)` (all fields, dictionary form resolved inside the lexicon) succeeds for
  every word;
* (`i16` costs) every word's cost is an `i16`; key lengths and unit counts are representable (`compile_ok_loads`);
* hence, for ANY analysis configuration whose lexicon and connection function are the loaded ones (`lexWords`,
  `connFn`), tokenizing any text never panics under the remaining named hypotheses of `C03.tokenize_total`
  (character definition `hmk`, providers `hprov`/`hregex`/`hprovcost`, plugins `hplug`/`hutf`/`hrew`/`hkeep`, D7
  `hbound`, `hrowsz`), which are not about the dictionary file.

Exclusions, each with its kernel-checked counterexample kept: **D17** non-square matrix -
`nonsquare_use_counterexample` (accepted ids outside the dimension the analyser bounds them by), so `hsq`; **D8** user
dictionary with a declared dictionary form - `userdict_dicform_counterexample`, `C05.user_dicform_counterexample`
(`get_word_info` panics), so `hsys` (a user dictionary is analysed through the layered lexicon set, C12's model). -/
theorem compiled_dictionary_analyses (v : Variant) (x : Ext) (inp : Input) (limit : Option Nat) (n cnt : Nat) (d : Dict)
    (a : Aux) (h3 : v.d3 = true) (hconn : SizesFollowMatrix v inp) (h : build v x inp limit = .ok n cnt d)
    (hsys : inp.base.numSystem = none) (hsq : d.conn.nl = d.conn.nr)
    (hbase : inp.base.pos0.length ≤ 32768)
    (hdesc : a.desc.length = inp.descLen) (htime : a.time < 18446744073709551616) (htrie : a.trie.length % 4 = 0)
    (hsize : (Codec.fileBytes (toCodec d inp.base.pos0.length a)).length < 4294967296) :
    ∃ ld g,
      Codec.readSystem (Codec.fileBytes (toCodec d inp.base.pos0.length a)) 0 = .ok ld ∧ ld.grammar = some g ∧
      -- connection ids as used
      (∀ e1 ∈ d.entries, ∀ e2 ∈ d.entries, e1.shouldIndex = true → e2.shouldIndex = true →
        (∃ c, g.cost e1.right.toNat e2.left.toNat = .ok c ∧ Total.I16 c) ∧
        (∃ c, g.cost 0 e2.left.toNat = .ok c ∧ Total.I16 c) ∧ (∃ c, g.cost e1.right.toNat 0 = .ok c ∧ Total.I16 c)) ∧
      -- word infos
      (∀ i, i < d.entries.length → ∃ wi, ld.lexicon.getWordInfo i = .ok wi) ∧
      -- costs
      (∀ w ∈ lexWords d, Total.I16 w.c) ∧ Total.I16Conn (connFn g) ∧
      -- analysis
      ∀ (lv : EditM.LenV) (cfg : Total.Cfg) (orig : List Nat) (rv : Oov.Variant) (bowFix : Bool) (tab : List (Nat × Nat)),
        cfg.lex = lexWords d → cfg.conn = connFn g →
        (∀ chars, Oov.mkBufV rv bowFix tab chars = some (cfg.mkBuf chars)) →
        cfg.providers ≠ [] →
        (∀ p ∈ cfg.providers, ∀ c, p = .regex c → c.skipEmpty = true) →
        (∀ p ∈ cfg.providers, Total.ProviderCostOk p) →
        (∀ p ∈ cfg.inputPlugins, ∀ t, Total.NoPanic (p t)) →
        (∀ l0 l, EditM.startBuild orig = some l0 → Total.rewriteInput lv cfg.inputPlugins l0 = .ok l →
          Wire.utf8Decode (EditM.textOf l) ≠ none) →
        (∀ chars, Total.Reaches lv cfg orig chars → chars.length ≤ 32767) →
        (∀ chars nodes, Total.Reaches lv cfg orig chars →
          Oov.buildLattice cfg.providers cfg.lex (cfg.mkBuf chars) = .ok nodes →
          ∀ e, (nodes.map Total.toVit).countP (fun n => n.e == e) ≤ 4294967295) →
        (∀ path, Total.NoPanic (cfg.rewrite path)) →
        (∀ (nb : Nat) path path', (∀ q ∈ path, q.eb ≤ nb) → cfg.rewrite path = .ok path' → ∀ p ∈ path', p.1.eb ≤ nb) →
        Total.NoPanic (Total.tokenize .d6fix lv cfg orig) := by
  obtain ⟨ld, g, _, hload, hg, _, hnl, hnr, hcost, hsz, _⟩ :=
    compile_ok_loads v x inp limit n cnt d a h3 h hbase hdesc htime htrie hsize
  obtain ⟨hok, hval⟩ := compile_output_is_codec_file v x inp limit n cnt d a h3 h hbase hdesc htime htrie hsize
  obtain ⟨b, hp, hc⟩ := (build_ok_iff ..).1 h
  obtain ⟨hsh, hb⟩ := prepare_shape hp
  have hdns : d.numSystem = none := by
    obtain ⟨_, _, _, hd⟩ := (compile_ok_iff ..).1 hc
    subst hd; show b.base.numSystem = none; rw [hb]; exact hsys
  have hrange : ∀ e ∈ d.entries, EntryRange e := by
    obtain ⟨_, _, _, hd⟩ := (compile_ok_iff ..).1 hc
    subst hd; exact fun e he => (hsh.1.2 e he).1
  have hcs : ConnShape d.conn := by
    obtain ⟨_, _, _, hd⟩ := (compile_ok_iff ..).1 hc
    subst hd; exact hsh.2
  have huse := square_use_ok v x inp limit n cnt d h3 hconn h hsq
  have hrefs := compile_valid_refs v x inp limit n cnt d h
  have hrd : Codec.readSystem (Codec.fileBytes (toCodec d inp.base.pos0.length a)) 0 = .ok ld := by
    simpa [loadFile, hdns] using hload
  -- a cost inside the matrix
  have hin : ∀ l r : Int, 0 ≤ l → l < d.conn.nl → 0 ≤ r → r < d.conn.nr →
      ∃ c, g.cost l.toNat r.toNat = .ok c ∧ Total.I16 c := by
    intro l r l0 l1 r0 r1
    exact ⟨_, hcost l.toNat r.toNat (by omega) (by omega), cellCost_range d.conn _ _⟩
  refine ⟨ld, g, hrd, hg, ?_, ?_, ?_, ?_, ?_⟩
  · intro e1 he1 e2 he2 i1 i2
    obtain ⟨a1, a2, _, _⟩ := huse e1 he1 i1
    obtain ⟨_, _, b3, b4⟩ := huse e2 he2 i2
    have hpos : (0 : Int) < d.conn.nl ∧ (0 : Int) < d.conn.nr := by omega
    refine ⟨hin _ _ a1 a2 b3 b4, ?_, ?_⟩
    · simpa using hin 0 _ (Int.le_refl 0) hpos.1 b3 b4
    · simpa using hin _ 0 a1 a2 (Int.le_refl 0) hpos.2
  · intro i hi
    obtain ⟨e, he⟩ : ∃ e, d.entries[i]? = some e := ⟨d.entries[i], by simp [hi]⟩
    have hmem := List.mem_of_getElem? he
    have hi' : (toCodec d inp.base.pos0.length a).entries[i]? = some (entry e) := by simp [toCodec, he]
    -- the dictionary form of a system dictionary: `*` or an existing entry of the same lexicon
    have hdf := (hrefs e hmem).1
    have hst : Codec.storeDf (toCodec d inp.base.pos0.length a).dfFix (entry e) = entry e := by
      apply Codec.storeDf_sys
      rcases hdf with h0 | h0
      · left; exact h0
      · right
        simp only [RefOk, hdns] at h0
        rw [(wid_bridge _).1]; exact h0.1
    by_cases hinv : e.dicForm = WID_INVALID
    · obtain ⟨ld', wi, r1, r2, _⟩ := C05.dict_roundtrip_dicform (toCodec d inp.base.pos0.length a) hok i (entry e) hi' none
        (Or.inl ⟨by rw [hst]; exact hinv, rfl⟩)
      have : ld' = ld := by
        have := hrd; unfold Codec.readSystem at this
        rw [r1] at this
        simp only [bind, Codec.Outcome.bind] at this
        split at this
        · injection this
        · simp at this
      subst this; exact ⟨wi, r2⟩
    · rcases hdf with h0 | h0
      · exact absurd h0 hinv
      · simp only [RefOk, hdns] at h0
        have hw : e.dicForm = Build.widWord e.dicForm := by
          have := h0.1; unfold Build.widDic Build.widWord Build.DIC_UNIT at *; omega
        have hlt : e.dicForm < d.entries.length := by rw [hw]; exact h0.2
        have h28 : e.dicForm < 268435456 := by
          have := h0.1; unfold Build.widDic Build.DIC_UNIT at this; omega
        by_cases hself : e.dicForm = i
        · obtain ⟨ld', wi, r1, r2, _⟩ := C05.dict_roundtrip_dicform (toCodec d inp.base.pos0.length a) hok i (entry e) hi' none
            (Or.inr (Or.inl ⟨by rw [hst]; exact hself, rfl⟩))
          have : ld' = ld := by
            have := hrd; unfold Codec.readSystem at this
            rw [r1] at this
            simp only [bind, Codec.Outcome.bind] at this
            split at this
            · injection this
            · simp at this
          subst this; exact ⟨wi, r2⟩
        · obtain ⟨t, ht⟩ : ∃ t, (toCodec d inp.base.pos0.length a).entries[e.dicForm]? = some t :=
            ⟨entry d.entries[e.dicForm], by simp [toCodec, hlt]⟩
          obtain ⟨ld', wi, r1, r2, _⟩ := C05.dict_roundtrip_dicform (toCodec d inp.base.pos0.length a) hok i (entry e) hi' (some t)
            (Or.inr (Or.inr ⟨by rw [hst]; show e.dicForm < 2147483648; omega, by rw [hst]; exact hself, t, by rw [hst]; exact ht, rfl⟩))
          have : ld' = ld := by
            have := hrd; unfold Codec.readSystem at this
            rw [r1] at this
            simp only [bind, Codec.Outcome.bind] at this
            split at this
            · injection this
            · simp at this
          subst this; exact ⟨wi, r2⟩
  · intro w hw
    simp only [lexWords, List.mem_map, List.mem_filter] at hw
    obtain ⟨e, ⟨he, _⟩, rfl⟩ := hw
    exact (hrange e he).2.2.1
  · intro l r
    unfold connFn
    by_cases hlr : l < d.conn.nl.toNat ∧ r < d.conn.nr.toNat
    · rw [hcost l r hlr.1 hlr.2]; exact cellCost_range d.conn l r
    · have : g.cost l r = .panic "debug_assert:conn" := by
        unfold Codec.Grammar.cost Codec.connCost
        rw [hnl, hnr]
        have : l ≥ d.conn.nl.toNat ∨ r ≥ d.conn.nr.toNat := by omega
        rw [if_pos this]
      rw [this]; exact ⟨by decide, by decide⟩
  · intro lv cfg orig rv bowFix tab hlex hcn hmk hprov hregex hprovcost hplug hutf hbound hrowsz hrew hkeep
    refine C03.tokenize_total lv cfg orig rv bowFix tab hmk hprov hregex ?_ hprovcost ?_ hplug hutf hbound hrowsz hrew hkeep
    · intro w hw
      rw [hlex] at hw
      simp only [lexWords, List.mem_map, List.mem_filter] at hw
      obtain ⟨e, ⟨he, _⟩, rfl⟩ := hw
      exact (hrange e he).2.2.1
    · rw [hcn]
      intro l r
      unfold connFn
      by_cases hlr : l < d.conn.nl.toNat ∧ r < d.conn.nr.toNat
      · rw [hcost l r hlr.1 hlr.2]; exact cellCost_range d.conn l r
      · have : g.cost l r = .panic "debug_assert:conn" := by
          unfold Codec.Grammar.cost Codec.connCost
          rw [hnl, hnr]
          have : l ≥ d.conn.nl.toNat ∨ r ≥ d.conn.nr.toNat := by omega
          rw [if_pos this]
        rw [this]; exact ⟨by decide, by decide⟩

/-! non-vacuity of the hypotheses of the three theorems above -/

/-- the two-word dictionary of `sink_failure`'s example (`あ` (0,0), `い` (1,1), matrix `2 2`) -/
def twoWords : Input := input (some m22) [row ['あ'] ['0'] ['0'], row ['い'] ['1'] ['1']]

/-- creation time, a 5-byte description, a 1024-byte trie blob (`twoWords.descLen`, `twoWords.trieLen`), repaired writer -/
def twoAux : BuildLoad.Aux := ⟨1600000000, List.replicate 5 97, List.replicate 1024 0, true⟩

set_option maxRecDepth 1000000 in
/-- all hypotheses of `compile_output_is_codec_file` / `compile_ok_loads` / `compiled_dictionary_analyses` hold together
for it on the tree as it is (`Variant.landed`); and the file C05's writer emits for the translated state has exactly the
1412 bytes C06's script counts (the size of the real compiler's output for this input) -/
example : ∃ d, Variant.landed.d3 = true ∧ build Variant.landed x0 twoWords none = .ok 1412 0 d ∧
    SizesFollowMatrix Variant.landed twoWords ∧ twoWords.base.numSystem = none ∧ d.conn.nl = d.conn.nr ∧
    twoWords.base.pos0.length ≤ 32768 ∧ twoAux.desc.length = twoWords.descLen ∧ twoAux.time < 18446744073709551616 ∧
    twoAux.trie.length % 4 = 0 ∧
    (Codec.fileBytes (BuildLoad.toCodec d twoWords.base.pos0.length twoAux)).length = 1412 :=
  ⟨_, rfl, rfl, sizesFollow_repaired _ _ rfl rfl (by simp [twoWords, input, Base.system, Base.isUser]), rfl, rfl, by decide, rfl, by decide, rfl, by decide⟩

/-- a configuration of the analysis model whose lexicon and connection function are the loaded ones exists (the other
hypotheses of `compiled_dictionary_analyses` are those of `C03.tokenize_total`, inhabited together there) -/
example (d : Dict) (g : Codec.Grammar) : ∃ cfg : Total.Cfg, cfg.lex = BuildLoad.lexWords d ∧ cfg.conn = BuildLoad.connFn g :=
  ⟨{ inputPlugins := [], mkBuf := fun _ => ⟨[], [], [], []⟩, providers := [], lex := BuildLoad.lexWords d, conn := BuildLoad.connFn g,
     rewrite := fun p => .ok (p.map (fun n => (n, []))) }, rfl, rfl⟩

end C06
