import Sudachi.Model.Build
/-!
# Line protocol of the dictionary-compiler model (C06)

`C06 build idx=<n> v=<5 bits d1..d5> rf=<cur|fix> fx=<7 bits n1 n3 s4 s5 s6 s7 s8> nd=<code points>
   user=<-|numSystem,maxLeft,maxRight> upos=<pos;…> usys=<word;…> ops=<op>|<op>|… desc=<n> trie=<n> ks=<-|all|n,…>`

* `rf` = handling of the builder's `resolved` flag (`cur`: only `resolve` sets it; `fix`:
  `read_lexicon` clears it); `fx` = which of the repairs N1, N3, S4, S5, S6, S7, S8 are present;
* an op is one call on the builder, in order: `C<hex of the matrix text>` = `read_conn(..)?`,
  `I<hex>` = `let _ = read_conn(..)` (an `Err` is ignored), `R` = `resolve`,
  `L<-|line of the csv failure>!<line,…>!<rec;…>` = `read_lexicon(..)?` (the records the csv
  reader delivered with their line numbers), `J…` (same payload) = `let _ = read_lexicon(..)`;
* a record is `h<hex>:h<hex>:…` (one item per field, hex of the UTF-8 bytes);
* a POS row is six such items; a system word is `h<surface>:<pos id>:<n|r<hex reading>>`;
* `ks` lists sink limits (bytes the sink accepts before failing) to try after the unlimited run;
  `all` = every limit from 0 to the output length + 1.  The answer is the unlimited outcome (a
  failure before `compile` is followed by `#<position of the failing op>`), then
  ` ign=<result>,…` (the results of the ignored calls that were made) when there is an `I` or `J`
  op; the result of an ignored `read_lexicon` is followed by `/<A>/<B>`: what the builder it left
  answers to `compile` (A) and to `resolve` then `compile` (B) — `ok:w<words>:p<own POS rows>`
  (B: `ok:r<resolved units>:w…:p…`), `err:<kind>:<line>@<stage>`, `PANIC`, `NULKEY`;
  followed by ` sink=<outcome>*<count>,…` (run-length encoded in the order of the limits).
  A success reports the written matrix as `mx=<cells that are not 0>:<Σ (index+1)·cost mod 1000003>`
  (cost as the unsigned 16-bit value stored).
-/
namespace Build

/-- split a byte string into lines, each with its terminating `\n` (`BufRead::read_line`) -/
def splitLinesGo : List Nat → List Nat → List (List Nat)
  | [], cur => if cur.isEmpty then [] else [cur.reverse]
  | b :: bs, cur => if b = 10 then (b :: cur).reverse :: splitLinesGo bs [] else splitLinesGo bs (b :: cur)

def splitLines (bs : List Nat) : List (List Nat) := splitLinesGo bs []

def isCont (b : Nat) : Bool := 0x80 ≤ b && b ≤ 0xBF

/-- strict UTF-8 decoding (`str::from_utf8`): `none` on any ill-formed sequence -/
def utf8Strict : List Nat → Option Str
  | [] => some []
  | b0 :: rest =>
    if b0 < 0x80 then (utf8Strict rest).map (Char.ofNat b0 :: ·)
    else if b0 < 0xC2 then none
    else if b0 < 0xE0 then
      match rest with
      | b1 :: r =>
        if isCont b1 then (utf8Strict r).map (Char.ofNat ((b0 - 0xC0) * 64 + (b1 - 0x80)) :: ·) else none
      | _ => none
    else if b0 < 0xF0 then
      match rest with
      | b1 :: b2 :: r =>
        let lo := if b0 = 0xE0 then 0xA0 else 0x80
        let hi := if b0 = 0xED then 0x9F else 0xBF
        if lo ≤ b1 && b1 ≤ hi && isCont b2 then
          (utf8Strict r).map (Char.ofNat ((b0 - 0xE0) * 4096 + (b1 - 0x80) * 64 + (b2 - 0x80)) :: ·)
        else none
      | _ => none
    else if b0 < 0xF5 then
      match rest with
      | b1 :: b2 :: b3 :: r =>
        let lo := if b0 = 0xF0 then 0x90 else 0x80
        let hi := if b0 = 0xF4 then 0x8F else 0xBF
        if lo ≤ b1 && b1 ≤ hi && isCont b2 && isCont b3 then
          (utf8Strict r).map
            (Char.ofNat ((b0 - 0xF0) * 262144 + (b1 - 0x80) * 4096 + (b2 - 0x80) * 64 + (b3 - 0x80)) :: ·)
        else none
      | _ => none
    else none
termination_by l => l.length

/-- `h<hex>` → string -/
def hexStr? (s : List Char) : Option Str :=
  match s with
  | 'h' :: r => (Wire.hexBytes? r).bind utf8Strict
  | _ => none

def fields? (s : List Char) : Option (List Str) := Wire.allSome ((Wire.splitOn ':' s).map hexStr?)

def records? (s : List Char) : Option (List (List Str)) := Wire.allSome ((Wire.items ';' s).map fields?)

def sysWord? (s : List Char) : Option SysWord :=
  match Wire.splitOn ':' s with
  | [a, b, c] =>
    match hexStr? a, Wire.nat? b with
    | some surface, some pos =>
      match c with
      | ['n'] => some ⟨surface, pos, none⟩
      | 'r' :: h => ((Wire.hexBytes? h).bind utf8Strict).map (fun r => ⟨surface, pos, some r⟩)
      | _ => none
    | _, _ => none
  | _ => none

def optNat? (s : List Char) : Option (Option Nat) :=
  if s = ['-'] then some none else (Wire.nat? s).map some

def variant? (s rf fx : List Char) : Option Variant :=
  match s, fx with
  | [a, b, c, d, e], [n1, n3, s4, s5, s6, s7, s8] =>
    if rf = ['c', 'u', 'r'] then
      some ⟨a = '1', b = '1', c = '1', d = '1', e = '1', false, n1 = '1', n3 = '1', s4 = '1', s5 = '1', s6 = '1',
        s7 = '1', s8 = '1'⟩
    else if rf = ['f', 'i', 'x'] then
      some ⟨a = '1', b = '1', c = '1', d = '1', e = '1', true, n1 = '1', n3 = '1', s4 = '1', s5 = '1', s6 = '1',
        s7 = '1', s8 = '1'⟩
    else none
  | _, _ => none

/-- payload of a `read_lexicon` op -/
def lexArgs? (r : List Char) : Option (List (Nat × List Str) × Option Nat) :=
  match Wire.splitOn '!' r with
  | [ce, lines, recs] =>
    match optNat? ce, Wire.natList? lines, records? recs with
    | some ce, some lines, some recs =>
      if recs.length ≠ lines.length then none else some (lines.zip recs, ce)
    | _, _, _ => none
  | _ => none

def op? (s : List Char) : Option Op :=
  match s with
  | ['R'] => some .resolve
  | 'C' :: h => (Wire.hexBytes? h).map (fun bs => .conn ((splitLines bs).map utf8Strict))
  | 'I' :: h => (Wire.hexBytes? h).map (fun bs => .connIgn ((splitLines bs).map utf8Strict))
  | 'L' :: r => (lexArgs? r).map (fun p => .lex p.1 p.2)
  | 'J' :: r => (lexArgs? r).map (fun p => .lexIgn p.1 p.2)
  | _ => none

def ops? (s : List Char) : Option (List Op) := Wire.allSome ((Wire.items '|' s).map op?)

def showKind : ErrKind → String
  | .InvalidSize => "InvalidSize" | .InvalidFieldSize => "InvalidFieldSize" | .Io => "Io"
  | .NoRawField => "NoRawField" | .Csv => "Csv" | .InvalidCharLiteral => "InvalidCharLiteral"
  | .InvalidI16Literal => "InvalidI16Literal" | .InvalidU32Literal => "InvalidU32Literal"
  | .InvalidWordId => "InvalidWordId" | .InvalidSplit => "InvalidSplit"
  | .SplitFormatError => "SplitFormatError" | .EmptySurface => "EmptySurface"
  | .PosLimitExceeded => "PosLimitExceeded" | .InvalidSplitWordReference => "InvalidSplitWordReference"
  | .UnresolvedSplits => "UnresolvedSplits" | .InvalidConnSize => "InvalidConnSize"
  | .WordIdTableNotBuilt => "WordIdTableNotBuilt" | .TrieBuildFailure => "TrieBuildFailure"
  | .InvalidDataFormat => "InvalidDataFormat" | .TooLargeWordId => "TooLargeWordId"

def showStage : Stage → String
  | .conn => "conn" | .lex => "lex" | .resolve => "resolve" | .compile => "compile"

/-- the writes that are still visible: the most recent one of every cell -/
def finalCells : List (Nat × Int) → List (Nat × Int)
  | [] => []
  | p :: ps => p :: (finalCells ps).filter (fun q => q.1 != p.1)

/-- the cost as the unsigned 16-bit value stored in the buffer -/
def u16OfCost (c : Int) : Nat := (c % 65536).toNat

/-- digest of the matrix content: number of cells that are not 0, weighted sum of the cells -/
def matrixDigest (c : Conn) : String :=
  let fin := (finalCells c.cells).map (fun p => (p.1, u16OfCost p.2))
  toString (fin.filter (fun p => p.2 != 0)).length ++ ":"
    ++ toString ((fin.foldl (fun acc p => acc + (p.1 + 1) * p.2) 0) % 1000003)

def showOutcome (base : Base) : Outcome → String
  | .ok n cnt d =>
    "ok len=" ++ toString n ++ " res=" ++ toString cnt ++ " words=" ++ toString d.entries.length
      ++ " pos=" ++ toString (d.pos.length - base.pos0.length)
      ++ " dims=" ++ toString d.conn.nl ++ "x" ++ toString d.conn.nr
      ++ " mx=" ++ matrixDigest d.conn
  | .err s .Io _ => "err:Io@" ++ showStage s
  | .err s k l => "err:" ++ showKind k ++ ":" ++ toString l ++ "@" ++ showStage s
  | .panic _ .nulKey => "NULKEY"
  | .panic s _ => "PANIC@" ++ showStage s

def showRes : Res Unit → String
  | .ok () => "ok"
  | .err .Io _ => "err:Io"
  | .err k l => "err:" ++ showKind k ++ ":" ++ toString l
  | .panic _ => "PANIC"

def Op.isIgn : Op → Bool
  | .connIgn _ => true
  | .lexIgn _ _ => true
  | _ => false

/-- what `compile` (unlimited sink) answers on a builder, as far as the probes of an ignored
`read_lexicon` show it: word and own-POS counts (`res` = `r<n>:` for probe B) -/
def probeCompile (v : Variant) (b : Builder) (res : String) : String :=
  match compile v b 0 0 none with
  | .ok (_, d) => "ok:" ++ res ++ "w" ++ toString d.entries.length ++ ":p" ++ toString (d.pos.length - b.base.pos0.length)
  | .err k l => "err:" ++ showKind k ++ ":" ++ toString l ++ "@compile"
  | .panic .nulKey => "NULKEY"
  | .panic _ => "PANIC"

/-- probe A: `compile` right after the ignored call; probe B: `resolve()` then `compile` (`cnt` =
units resolved by the calls before) -/
def probes (v : Variant) (b : Builder) (cnt : Nat) : String :=
  probeCompile v b "" ++ "/" ++
    (match resolve b with
    | .ok (b', n) => probeCompile v b' ("r" ++ toString (cnt + n) ++ ":")
    | .err k l => "err:" ++ showKind k ++ ":" ++ toString l ++ "@resolve"
    | .panic _ => "PANIC")

def showIgn (v : Variant) : Bool × (Builder × Nat) × Res Unit → String
  | (false, _, r) => showRes r
  | (true, s, r) => showRes r ++ "/" ++ probes v s.1 s.2

def shortOutcome : Outcome → String
  | .ok n _ _ => "ok:" ++ toString n
  | .err _ .Io _ => "err:Io"
  | .err _ k l => "err:" ++ showKind k ++ ":" ++ toString l
  | .panic _ .nulKey => "NULKEY"
  | .panic _ _ => "PANIC"

def rleGo : List String → String → Nat → List String
  | [], cur, n => [cur ++ "*" ++ toString n]
  | x :: xs, cur, n => if x = cur then rleGo xs cur (n + 1) else (cur ++ "*" ++ toString n) :: rleGo xs x 1

def rle : List String → String
  | [] => ""
  | x :: xs => Wire.joinWith "," (rleGo xs x 1)

def base? (user upos usys : List Char) : Option Base :=
  if user = ['-'] then some Base.system
  else
    match Wire.intList? user, records? upos, Wire.allSome ((Wire.items ';' usys).map sysWord?) with
    | some [n, ml, mr], some pos, some sys => some ⟨pos, ml, mr, some n.toNat, sys⟩
    | _, _, _ => none

/-- the limits to try: `-` none, `all` = 0..len+1 of the unlimited run, else the list -/
def limits? (ks : List Char) (unlimited : Outcome) : Option (List Nat) :=
  if ks = ['-'] then some []
  else if ks = ['a', 'l', 'l'] then
    match unlimited with
    | .ok n _ _ => some (List.range (n + 2))
    | _ => some []
  else Wire.natList? ks

/-- `extra base descLen trieLen outcome` is appended to the outcome of the unlimited run (the load prediction of
`Model/BuildLoad.lean`; this file knows nothing of the loader) -/
def handleWith (extra : Base → Nat → Nat → Outcome → String) (toks : List (List Char)) : String :=
  let g := fun k => Wire.kv? toks k
  match g "v", g "rf", g "nd", g "user", g "upos", g "usys", g "ops" with
  | some v, some rf, some nd, some user, some upos, some usys, some ops =>
    match g "desc", g "trie", g "ks", g "fx" with
    | some desc, some trie, some ks, some fx =>
      match variant? v rf fx, Wire.natList? nd, base? user upos usys, ops? ops with
      | some v, some nd, some base, some ops =>
        match Wire.nat? desc, Wire.nat? trie with
        | some desc, some trie =>
          let inp : Input := { base := base, ops := ops, descLen := desc, trieLen := trie }
          let x : Ext := ⟨nd.map Char.ofNat⟩
          let ign := if ops.any Op.isIgn then
              " ign=" ++ Wire.joinWith "," ((ignTrace v x (Builder.init v base, 0) ops).map (showIgn v)) else ""
          match prepare v x inp with
          | .error f =>
            let o := f.toOutcome
            let head := showOutcome base o ++ "#" ++ toString (failIdx v x (Builder.init v base, 0) ops 0) ++ ign
            (match limits? ks o with
            | none => "bad-op"
            | some [] => head
            | some l => head ++ " sink=" ++ rle (l.map (fun _ => shortOutcome o)))
          | .ok p =>
            let o := finish v p desc trie none
            match limits? ks o with
            | none => "bad-op"
            | some [] => showOutcome base o ++ extra base desc trie o ++ ign
            | some l =>
              showOutcome base o ++ extra base desc trie o ++ ign ++ " sink=" ++ rle (l.map (fun k => shortOutcome (finish v p desc trie (some k))))
        | _, _ => "bad-op"
      | _, _, _, _ => "bad-op"
    | _, _, _, _ => "bad-op"
  | _, _, _, _, _, _, _ => "bad-op"

def handle (toks : List (List Char)) : String := handleWith (fun _ _ _ _ => "") toks

end Build
