import Sudachi.Model.Wire
import Sudachi.Model.Edit
import Sudachi.Model.Lattice
import Sudachi.Model.Oov
/-!
# Model of the fixed-width side of the analysis path (property C03: tokenization is total)

What is new here (everything else on the analysis path is modelled in `Edit`, `Normalize`, `Oov`,
`Lattice`, `Rewrite`, `Numeric` and re-used):

* `analysis/lattice.rs`: `reset`/`connect_bos`, `connect_node` with **`i32` additions** (two of them,
  in the order `(total + connect) + node_cost`), the `i32::MAX` "not connected" sentinel, the
  back-pointer `NodeIdx::new(begin as u16, i as u32)` (row index `u32` since 9fb3dd8), `insert` (row indexing), `connect_eos`
  (`(len - 1) as u16`), `fill_top_path`, `node`;
* `analysis/stateful_tokenizer.rs`: `resolve_best_path` (`to_curr_byte_idx`, `as u16`), the stages of
  `do_tokenize` in their order with `?` propagation;
* `analysis/node.rs`: `NodeSplitIterator::next` in two variants (`SplitV`): `cur` = before the repair of D6
  (`byte_start + head_word_length`, `ch_idx(byte_end)` indexes `mod_b2c`, `as u16`), `d6fix` = the code that
  exists now (clamp to the parent's byte end, `mod_b2c`, then `mod_c2b`);
* `analysis/morpheme.rs`: `begin/end/begin_c/end_c/surface` with the `debug_assert!`s and the slice
  panics of `&original[a..b]`.

Machine integers are unbounded `Int`/`Nat` plus explicit fixed-width operations: `addW M` is a checked
addition in the range `[-M-1, M]` (`none` = overflow = panic of a debug build), `wrapW M` the wrapping
addition of a release build, `asU16` the `as u16` cast.  `M = I32_MAX` is the code; a small `M` gives
the small-width instance used by `C03.cost_overflow_counterexample`.
-/
namespace Total
open Oov (Outcome)

/-! ## fixed-width arithmetic -/

def I32_MAX : Int := 2147483647

/-- checked addition in `[-M-1, M]`; `none` = `attempt to add with overflow` -/
def addW (M : Int) (a b : Int) : Option Int :=
  if -M - 1 ≤ a + b ∧ a + b ≤ M then some (a + b) else none

/-- two's complement wrap into `[-M-1, M]` (release profile, `overflow-checks = false`) -/
def wrapW (M : Int) (x : Int) : Int := (x + (M + 1)) % (2 * (M + 1)) - (M + 1)

/-- the addition of the selected profile -/
def addP (checked : Bool) (M : Int) (a b : Int) : Option Int :=
  if checked then addW M a b else some (wrapW M (a + b))

def addI32 : Int → Int → Option Int := addW I32_MAX

/-- `x as u16` for a `usize` -/
def asU16 (n : Nat) : Nat := n % 65536

/-- `i as u32`: the row index of a back-pointer (`NodeIdx.index`; `u32` since the repair 9fb3dd8 in /repo — before it the
index was `i as u16` and wrapped in a row of more than 65536 candidates, `Props/C02.lean`/`C03.lean`:
`row_index_u16_wraps_counterexample`) -/
def asU32 (n : Nat) : Nat := n % 4294967296

/-- `NodeIdx::empty().index` = `u32::MAX` -/
def idxNone : Nat := 4294967295

/-! ## the lattice with `i32` totals -/

/-- one stored candidate: `ends_full[e][i]` (node), `ends[e][i].total_cost`, `indices[e][i]` -/
structure Entry where
  node : Vit.Node
  total : Int
  pe : Nat
  pi : Nat
deriving Repr, DecidableEq

/-- `connect_bos`: `ends[0].push(VNode::new(0, 0))` (no node, no index is stored for it) -/
def bosEntry : Entry := ⟨Vit.bos, 0, 65535, 65535⟩

variable (add : Int → Int → Option Int) (M : Int) (conn : Nat → Nat → Int)

/-- the loop of `connect_node`; state = (`min_cost`, `prev_idx.end`, `prev_idx.index`), `i` = the
enumerate counter.  `none` = one of the two additions overflowed. -/
def connGo (n : Vit.Node) : List Entry → Nat → Int × Nat × Nat → Option (Int × Nat × Nat)
  | [], _, st => some st
  | l :: rest, i, st =>
    if l.total = M then connGo n rest (i + 1) st            -- `!is_connected_to_bos()` → continue
    else match add l.total (conn l.node.r n.l) with        -- l_node.total_cost() + connect_cost
      | none => none
      | some x => match add x n.c with                     --                       … + node_cost
        | none => none
        | some nc =>
          if nc < st.1 then connGo n rest (i + 1) (nc, asU16 n.b, asU32 i)
          else connGo n rest (i + 1) st

/-- `Lattice::connect_node` on the row `ends[begin]` -/
def connectNode (row : List Entry) (n : Vit.Node) : Option (Int × Nat × Nat) :=
  connGo add M conn n row 0 (M, 65535, idxNone)

abbrev Rows := Array (List Entry)

/-- `Lattice::reset(len)` on a fresh lattice + `connect_bos` -/
def reset (len : Nat) : Rows := (Array.replicate (len + 1) []).setIfInBounds 0 [bosEntry]

/-- `Lattice::insert`: `connect_node` reads `ends[begin]`, then the three pushes index `[end]` -/
def insert (rows : Rows) (n : Vit.Node) : Outcome (Rows × Entry) :=
  match rows[n.b]? with
  | none => .panic "index"
  | some row =>
    match connectNode add M conn row n with
    | none => .panic "overflow"
    | some (c, pe, pi) =>
      match rows[n.e]? with
      | none => .panic "index"
      | some rowE => .ok (rows.setIfInBounds n.e (rowE ++ [⟨n, c, pe, pi⟩]), ⟨n, c, pe, pi⟩)

/-- all `insert`s of `build_lattice`, in order; the second component lists what was stored, in
insertion order (driver observation) -/
def buildAll : List Vit.Node → Rows → List Entry → Outcome (Rows × List Entry)
  | [], rows, acc => .ok (rows, acc.reverse)
  | n :: ns, rows, acc =>
    match insert add M conn rows n with
    | .ok (rows', e) => buildAll ns rows' (e :: acc)
    | .err k => .err k
    | .panic w => .panic w

/-- like `buildAll` but also reports how many nodes were stored before a panic (driver observation:
the lattice of the real tokenizer is still readable after the caught panic) -/
def buildCount : List Vit.Node → Rows → Nat → Int → Option Rows × Nat × Int × Option String
  | [], rows, k, s => (some rows, k, s, none)
  | n :: ns, rows, k, s =>
    match insert add M conn rows n with
    | .ok (rows', e) => buildCount ns rows' (k + 1) ((s * 31 + e.total) % 1000000007)
    | .err w => (none, k, s, some w)
    | .panic w => (none, k, s, some w)

/-- the EOS node of `connect_eos`: `Node::new((len-1) as u16, (len-1) as u16, 0, 0, 0, EOS)` with
`len = size = chars + 1` -/
def eosNode (nchars : Nat) : Vit.Node := ⟨asU16 nchars, asU16 nchars, 0, 0, 0⟩

/-- `Lattice::connect_eos`: `err Disconnect` when the minimum stays `i32::MAX` -/
def connectEos (rows : Rows) (nchars : Nat) : Outcome (Int × Nat × Nat) :=
  match rows[(eosNode nchars).b]? with
  | none => .panic "index"
  | some row =>
    match connectNode add M conn row (eosNode nchars) with
    | none => .panic "overflow"
    | some (c, pe, pi) => if c = M then .err "Disconnect" else .ok (c, pe, pi)

/-- the cost side of `build_lattice`: all inserts, then `connect_eos` -/
def latticeOutcome (nodes : List Vit.Node) (len : Nat) : Outcome (Int × Nat × Nat) :=
  match buildAll add M conn nodes (reset len) [] with
  | .ok (rows, _) => connectEos add M conn rows len
  | .err k => .err k
  | .panic w => .panic w

/-- `indices[e]` / `ends_full[e]`: row 0 of `ends` holds the BOS entry in front, the other two
vectors do not -/
def fullRow (rows : Rows) (e : Nat) : Option (List Entry) :=
  match rows[e]? with
  | none => none
  | some row => if e = 0 then some (row.drop 1) else some row

/-- `fill_top_path` (after the reversal): the entries of the best path in text order.  The Rust loop
is an unbounded `loop`; running out of fuel stands for non-termination. -/
def topPath (rows : Rows) : Nat → Nat × Nat → List Entry → Outcome (List Entry)
  | 0, _, _ => .panic "loop"
  | fuel + 1, (e, i), acc =>
    match fullRow rows e with
    | none => .panic "index"
    | some row =>
      match row[i]? with
      | none => .panic "index"
      | some ent =>                        -- `node(pid)` and `indices[e][i]` read the same slot
        if ent.pe ≠ 0 then topPath rows fuel (ent.pe, ent.pi) (ent :: acc)
        else .ok (ent :: acc)

/-- a node of the result path: character and byte range in the normalised text (`ResultNode`) -/
abbrev NodeRange := EditM.NodeRange

/-- `resolve_best_path`: `to_curr_byte_idx(begin) as u16`, `to_curr_byte_idx(end) as u16` -/
def resultNode (c2b : List Nat) (ent : Entry) : Outcome NodeRange :=
  match c2b[ent.node.b]?, c2b[ent.node.e]? with
  | some bb, some eb => .ok ⟨ent.node.b, ent.node.e, asU16 bb, asU16 eb⟩
  | _, _ => .panic "index"

def isPanic {α : Type} : Outcome α → Bool
  | .panic _ => true
  | _ => false

def mapM {α β : Type} (f : α → Outcome β) : List α → Outcome (List β)
  | [] => .ok []
  | a :: as => match f a with
    | .ok b => (match mapM f as with
      | .ok bs => .ok (b :: bs)
      | .err k => .err k
      | .panic w => .panic w)
    | .err k => .err k
    | .panic w => .panic w

/-! ## `NodeSplitIterator::next` -/

/-- which `NodeSplitIterator::next` is modelled: `cur` = the code before the commit
`fix: keep split units inside their parent token` (kept verbatim: it is the witness of D6),
`d6fix` = the code that exists now (the unit end is clamped to the parent's byte end and snapped back to
the start of a character).  The harness selects the variant by probing `analysis/node.rs`. -/
inductive SplitV where
  | cur | d6fix
deriving Repr, DecidableEq

/-- end of a non-last unit, `(char_end as u16, byte_end as u16)`; `bs` = `byte_offset`, `h` =
`head_word_length` of the unit, `byteEnd` = the parent's byte end.
* `cur`:   `byte_end = byte_start + head_word_length; char_end = self.text.ch_idx(byte_end)` (= `mod_b2c[byte_end]`);
* `d6fix`: `byte_end = (byte_start + head_word_length).min(self.byte_end); char_end = self.text.ch_idx(byte_end);
            byte_end = self.text.to_curr_byte_idx(char_end)` (= `mod_c2b[char_end]`). -/
def unitEnd (v : SplitV) (b2c c2b : List Nat) (byteEnd bs h : Nat) : Outcome (Nat × Nat) :=
  match v with
  | .cur =>
    match b2c[bs + h]? with            -- `self.text.ch_idx(byte_end)` = `mod_b2c[byte_end]`
    | none => .panic "index"
    | some ce => .ok (asU16 ce, asU16 (bs + h))
  | .d6fix =>
    match b2c[min (bs + h) byteEnd]? with
    | none => .panic "index"
    | some ce =>
      match c2b[ce]? with              -- `to_curr_byte_idx(char_end)` = `mod_c2b[char_end]`
      | none => .panic "index"
      | some be => .ok (asU16 ce, asU16 be)

/-- the units of one split, given by the `head_word_length` (bytes) of each unit's word info;
`cs`/`bs` = `char_offset`/`byte_offset` -/
def splitGo (v : SplitV) (b2c c2b : List Nat) (charEnd byteEnd : Nat) : List Nat → Nat → Nat → Outcome (List NodeRange)
  | [], _, _ => .ok []
  | [_], cs, bs => .ok [⟨cs, charEnd, bs, byteEnd⟩]
  | h :: u :: rest, cs, bs =>
    match unitEnd v b2c c2b byteEnd bs h with
    | .err k => .err k
    | .panic w => .panic w
    | .ok (ce, be) =>
      match splitGo v b2c c2b charEnd byteEnd (u :: rest) ce be with
      | .ok l => .ok (⟨cs, ce, bs, be⟩ :: l)
      | .err k => .err k
      | .panic w => .panic w

/-- `ResultNode::split` + the iterator, for a node with the given unit lengths -/
def split (v : SplitV) (b2c c2b : List Nat) (n : NodeRange) (units : List Nat) : Outcome (List NodeRange) :=
  splitGo v b2c c2b n.ec n.eb units n.bc n.bb

/-- `split_path`: nodes with at most one unit are kept -/
def splitPath (v : SplitV) (b2c c2b : List Nat) : List (NodeRange × List Nat) → Outcome (List NodeRange)
  | [] => .ok []
  | (n, units) :: rest =>
    match (if units.length ≤ 1 then .ok [n] else split v b2c c2b n units), splitPath v b2c c2b rest with
    | .ok a, .ok b => .ok (a ++ b)
    | .panic w, _ => .panic w
    | .err k, _ => .err k
    | _, .panic w => .panic w
    | _, .err k => .err k

/-! ## `Morpheme` accessors -/

structure Access where
  b : Nat
  e : Nat
  bc : Nat
  ec : Nat
  sb : Nat      -- surface = original[sb..se]
  se : Nat
deriving Repr, DecidableEq

/-- `s.is_char_boundary(i)` for a byte string -/
def isBoundary (t : List Nat) (i : Nat) : Bool :=
  i == t.length || (match t[i]? with | some b => EditM.isStart b | none => false)

/-- `Morpheme::surface()`: `orig_slice(bytes_range)`: two `debug_assert!(modified.is_char_boundary)`,
`m2o[start]..m2o[end]`, then `&original[a..b]` (panics unless `a ≤ b ≤ len` on boundaries) -/
def surfaceRange (orig : List Nat) (l : List (EditM.P Nat)) (n : NodeRange) : Outcome (Nat × Nat) :=
  if !isBoundary (EditM.textOf l) n.bb then .panic "start is off char boundary"
  else if !isBoundary (EditM.textOf l) n.eb then .panic "end is off char boundary"
  else match EditM.morphRangeB l n with
    | none => .panic "index"
    | some (a, b) =>
      if a ≤ b ∧ isBoundary orig a ∧ isBoundary orig b then .ok (a, b) else .panic "slice"

/-- `begin()`, `end()`, `begin_c()`, `end_c()`, `surface()` of one morpheme -/
def access (orig : List Nat) (l : List (EditM.P Nat)) (n : NodeRange) : Outcome Access :=
  match EditM.morphRangeC l n with
  | none => .panic "index"
  | some (b, e) =>
    match EditM.toOrigCharIdx orig l n.bc, EditM.toOrigCharIdx orig l n.ec with
    | some bc, some ec =>
      (match surfaceRange orig l n with
       | .ok (sb, se) => .ok ⟨b, e, bc, ec, sb, se⟩
       | .err k => .err k
       | .panic w => .panic w)
    | _, _ => .panic "to_orig_char_idx"

/-! ## `do_tokenize`: the stages in their order -/

/-- `rewrite_input`: every plugin sees the current text and its edits are committed at once
(`with_editor` → `commit`; `lv` = which length guard the tree has: `running` = limit 65535 checked after every
edit of the batch (the pinned code), `final` = checked on the length of the rewritten text (the repair)) -/
def rewriteInput (lv : EditM.LenV) : List (List Nat → Outcome (List (EditM.Edit Nat))) → List (EditM.P Nat) →
    Outcome (List (EditM.P Nat))
  | [], l => .ok l
  | p :: ps, l =>
    match p (EditM.textOf l) with
    | .ok es => (match EditM.commitV lv l es with
      | none => .err "TooLong"
      | some l' => rewriteInput lv ps l')
    | .err k => .err k
    | .panic w => .panic w

/-- `Node::new(ch_off as u16, end_c as u16, left_id as u16, right_id as u16, cost, …)` -/
def toVit (x : Oov.Node) : Vit.Node := ⟨asU16 x.b, asU16 x.e, asU16 x.l, asU16 x.r, x.c⟩

/-- what the analysis needs besides the text -/
structure Cfg where
  /-- input-text plugins: current text (bytes) ↦ edit batch -/
  inputPlugins : List (List Nat → Outcome (List (EditM.Edit Nat)))
  /-- `InputBuffer::build`: classes, run lengths and word-start flags of the characters -/
  mkBuf : List Nat → Oov.Buf
  providers : List Oov.Provider
  lex : List Oov.Word
  conn : Nat → Nat → Int
  /-- word info of the path (`get_word_info_subset`) + path-rewrite plugins: path ↦ path with, per
  node, the unit lengths of its split in the requested mode (`[]` = no split) -/
  rewrite : List NodeRange → Outcome (List (NodeRange × List Nat))

structure Result where
  tables : List (EditM.P Nat)
  morphs : List NodeRange

/-- `StatefulTokenizer::do_tokenize`; `v` = which `NodeSplitIterator::next` the tree has, `lv` = which length
guard `resolve_edits`/`commit` has (which `RegexOovProvider::provide_oov` it has is the field `skipEmpty` of the
provider's `Oov.RegexCfg`) -/
def tokenize (v : SplitV) (lv : EditM.LenV) (cfg : Cfg) (orig : List Nat) : Outcome Result :=
  match EditM.startBuild orig with
  | none => .err "TooLong"
  | some l0 =>
    match rewriteInput lv cfg.inputPlugins l0 with
    | .err k => .err k
    | .panic w => .panic w
    | .ok l =>
      let text := EditM.textOf l
      match Wire.utf8Decode text with
      | none => .panic "utf8"
      | some chars =>
        if chars.isEmpty then .ok ⟨l, []⟩ else
        let buf := cfg.mkBuf chars
        match Oov.buildLattice cfg.providers cfg.lex buf with
        | .err k => .err k
        | .panic w => .panic w
        | .ok nodes =>
          match buildAll addI32 I32_MAX cfg.conn (nodes.map toVit) (reset chars.length) [] with
          | .err k => .err k
          | .panic w => .panic w
          | .ok (rows, _) =>
            match connectEos addI32 I32_MAX cfg.conn rows chars.length with
            | .err k => .err k
            | .panic w => .panic w
            | .ok (_, pe, pi) =>
              match topPath rows (chars.length + 1) (pe, pi) [] with
              | .err k => .err k
              | .panic w => .panic w
              | .ok ents =>
                match mapM (resultNode (EditM.c2b text)) ents with
                | .err k => .err k
                | .panic w => .panic w
                | .ok path =>
                  match cfg.rewrite path with
                  | .err k => .err k
                  | .panic w => .panic w
                  | .ok path' =>
                    match splitPath v (EditM.b2c text) (EditM.c2b text) path' with
                    | .err k => .err k
                    | .panic w => .panic w
                    | .ok ms => .ok ⟨l, ms⟩

/-- number of morphemes of a successful analysis -/
def morphCount : Outcome Result → Option Nat
  | .ok r => some r.morphs.length
  | _ => none

/-- every accessor of every morpheme of a result -/
def accessAll (orig : List Nat) (r : Result) : Outcome (List Access) :=
  mapM (access orig r.tables) r.morphs

/-! ## driver -/

def showOutcomeTag {α : Type} : Outcome α → String
  | .ok _ => "ok"
  | .err k => "err:" ++ k
  | .panic _ => "PANIC"

def showEntry (e : Entry) : String :=
  toString e.total ++ ":" ++ toString e.pe ++ ":" ++ toString e.pi

/-- nodes given explicitly (`nodes=b:e:l:r:c;…`) or generated (`gen=chain:<n>:<first cost>:<cost>`: `n`
one-character nodes `i..i+1` with ids 0, the first with its own cost) -/
def caseNodes (toks : List (List Char)) : Option (List Vit.Node) :=
  match Wire.kv? toks "nodes" with
  | some ns => Wire.allSome ((Wire.items ';' ns).map Vit.parseNode)
  | none =>
    match Wire.kv? toks "gen" with
    | some g =>
      match Wire.splitOn ':' g with
      | [_, n, c0, c] =>
        match Wire.nat? n, Wire.int? c0, Wire.int? c with
        | some n, some c0, some c =>
          some ((List.range n).map (fun i => (⟨i, i + 1, 0, 0, if i = 0 then c0 else c⟩ : Vit.Node)))
        | _, _, _ => none
      | _ => none
    | none => none

/-- `C03 cost profile=<debug|release> len=<chars> conn=<nl>:<nr>:<cells> (nodes=…|gen=…) [sum=1]`
answer: `<ok|PANIC> n=<stored nodes> (ents=<total:pe:pi,…>|cks=<checksum of the totals>) eos=<cost:pe:pi|x|PANIC|->` -/
def handleCost (toks : List (List Char)) : String :=
  match Wire.kv? toks "profile", Wire.kv? toks "len", Wire.kv? toks "conn", caseNodes toks with
  | some pf, some ln, some cn, some nodes =>
    match Wire.nat? ln, Wire.splitOn ':' cn with
    | some len, [nl, _nr, cells] =>
      match Wire.nat? nl, Wire.intList? cells with
      | some numLeft, some cs =>
        let arr := cs.toArray
        let conn : Nat → Nat → Int := fun a b => arr.getD (b * numLeft + a) 0
        let checked := pf == "debug".toList
        let add := addP checked I32_MAX
        let summary := Wire.kv? toks "sum" == some ['1']
        if summary then
          let (rows?, k, s, stop) := buildCount add I32_MAX conn nodes (reset len) 0 0
          let head := (match stop with | none => "ok" | some _ => "PANIC") ++ " n=" ++ toString k ++ " cks=" ++ toString s
          match rows? with
          | none => head ++ " eos=-"
          | some rows =>
            head ++ " eos=" ++ (match connectEos add I32_MAX conn rows len with
              | .ok (c, pe, pi) => toString c ++ ":" ++ toString pe ++ ":" ++ toString pi
              | .err _ => "x"
              | .panic _ => "PANIC")
        else
          match buildAll add I32_MAX conn nodes (reset len) [] with
          | .ok (rows, ents) =>
            "ok n=" ++ toString ents.length ++ " ents=" ++ Wire.joinWith "," (ents.map showEntry) ++ " eos=" ++
              (match connectEos add I32_MAX conn rows len with
               | .ok (c, pe, pi) => toString c ++ ":" ++ toString pe ++ ":" ++ toString pi
               | .err _ => "x"
               | .panic _ => "PANIC")
          | .err k => "err:" ++ k
          | .panic _ =>
            let (_, k, s, _) := buildCount add I32_MAX conn nodes (reset len) 0 0
            "PANIC n=" ++ toString k ++ " cks=" ++ toString s ++ " eos=-"
      | _, _ => "bad-op"
    | _, _ => "bad-op"
  | _, _, _, _ => "bad-op"

/-- text given as hex or as `rep:<hex unit>:<count>` -/
def caseBytes (s : List Char) : Option (List Nat) :=
  match Wire.splitOn ':' s with
  | [r, u, n] =>
    if r == "rep".toList then
      match Wire.hexBytes? u, Wire.nat? n with
      | some u, some n => some ((List.replicate n u).flatten)
      | _, _ => none
    else none
  | [h] => Wire.hexBytes? h
  | _ => none

def parseEditR (s : List Char) : Option (EditM.Edit Nat) :=
  match Wire.splitOn '/' s with
  | [a, b, w] => match Wire.nat? a, Wire.nat? b, caseBytes w with
    | some a, some b, some w => some ⟨a, b, w⟩
    | _, _, _ => none
  | _ => none

def parseBatchesR (s : List Char) : Option (List (List (EditM.Edit Nat))) :=
  Wire.allSome ((Wire.items ';' s).map (fun b =>
    if b = ['-'] then some [] else Wire.allSome ((Wire.items ',' b).map parseEditR)))

/-- the batches in order; a rejected batch stops the run: (`false`, its index, the buffer as it was before it —
`commit` swaps the buffers only after the length check and `resolve_edits` consumes the pending edits on every exit) -/
def commitCount (lv : EditM.LenV) : List (EditM.P Nat) → List (List (EditM.Edit Nat)) → Nat → Bool × Nat × List (EditM.P Nat)
  | l, [], k => (true, k, l)
  | l, es :: rest, k => match EditM.commitV lv l es with
    | none => (false, k, l)
    | some l' => commitCount lv l' rest (k + 1)

def m2oCks (m : List Nat) : Nat := m.foldl (fun s v => (s * 31 + v) % 1000000007) 0

/-- `C03 limits orig=<bytes> batches=<s/e/bytes,…;…> commit=<running|final>`: `start_build` and the `commit`s at
the length limits (`commit` = which length guard the linked tree has, probed by the harness; absent = `running`).
answer: `ok len=<bytes> m2o=<entries> last=<m2o[len]> cks=<checksum of m2o>` | `err:TooLong at=start` |
`err:TooLong at=<batch k> after=ok:<bytes>:<entries>:<cks>` (the state a following editor call without edits sees:
unchanged) -/
def handleLimits (toks : List (List Char)) : String :=
  match Wire.kv? toks "orig", Wire.kv? toks "batches" with
  | some o, some b =>
    match caseBytes o, parseBatchesR b with
    | some orig, some batches =>
      match EditM.startBuild orig with
      | none => "err:TooLong at=start"
      | some l0 =>
        match commitCount (EditM.lenVOf toks) l0 batches 0 with
        | (false, k, l) =>
          let m := EditM.snds l
          "err:TooLong at=" ++ toString k ++ " after=ok:" ++ toString (EditM.textOf l).length ++ ":" ++ toString m.length ++
            ":" ++ toString (m2oCks m)
        | (true, _, l) =>
          let m := EditM.snds l
          "ok len=" ++ toString (EditM.textOf l).length ++ " m2o=" ++ toString m.length ++ " last=" ++
            toString (m.getLast?.getD 0) ++ " cks=" ++ toString (m2oCks m)
    | _, _ => "bad-op"
  | _, _ => "bad-op"

def showAccess (o : Outcome Access) : String :=
  match o with
  | .ok a => toString a.b ++ ":" ++ toString a.e ++ ":" ++ toString a.bc ++ ":" ++ toString a.ec ++ ":" ++
      toString a.sb ++ ":" ++ toString a.se
  | .err _ => "E"
  | .panic _ => "P"

def parseUnits (s : List Char) : Option (List Nat) :=
  if s = ['-'] then some [] else Wire.allSome ((Wire.items '+' s).map Wire.nat?)

/-- node with its split units: `bc:ec:bb:eb:<A units a+b+c|->:<B units|->` -/
def parseSplitNode (s : List Char) : Option (NodeRange × List Nat × List Nat) :=
  match Wire.splitOn ':' s with
  | [a, b, c, d, ua, ub] =>
    match Wire.nat? a, Wire.nat? b, Wire.nat? c, Wire.nat? d, parseUnits ua, parseUnits ub with
    | some a, some b, some c, some d, some ua, some ub => some (⟨a, b, c, d⟩, ua, ub)
    | _, _, _, _, _, _ => none
  | _ => none

def showSplit (v : SplitV) (orig : List Nat) (l : List (EditM.P Nat)) (b2c c2b : List Nat) (n : NodeRange) (units : List Nat) : String :=
  if units.isEmpty then "-" else
  match split v b2c c2b n units with
  | .ok subs => Wire.joinWith "+" (subs.map (fun s => showAccess (access orig l s)))
  | .err _ => "E"
  | .panic _ => "P"

/-- `C03 access orig=<hex> cur=<hex> m2o=<list> nodes=<bc:ec:bb:eb:unitsA:unitsB;…> split=<cur|d6fix>`
(`split` = which `NodeSplitIterator::next` the linked tree has, probed by the harness; absent = `cur`)
answer: per morpheme `begin:end:begin_c:end_c:surface range|P` `/` A-split results `/` B-split results -/
def handleAccess (toks : List (List Char)) : String :=
  match Wire.kv? toks "orig", Wire.kv? toks "cur", Wire.kv? toks "m2o", Wire.kv? toks "nodes" with
  | some o, some c, some m, some ns =>
    match Wire.hexBytes? o, Wire.hexBytes? c, Wire.natList? m, Wire.allSome ((Wire.items ';' ns).map parseSplitNode) with
    | some orig, some cur, some m2o, some nodes =>
      let l := EditM.pairUp cur m2o
      let b2c := EditM.b2c cur
      let c2b := EditM.c2b cur
      let v : SplitV := if Wire.kv? toks "split" == some "d6fix".toList then .d6fix else .cur
      "ok " ++ Wire.joinWith ";" (nodes.map (fun (n, ua, ub) =>
        showAccess (access orig l n) ++ "/" ++ showSplit v orig l b2c c2b n ua ++ "/" ++ showSplit v orig l b2c c2b n ub))
    | _, _, _, _ => "bad-op"
  | _, _, _, _ => "bad-op"


/-! ## the C01 observation of one analysis, computed from the path BEFORE `split_path` -/

/-- node of the path before `split_path`: `bc:ec:<key lengths of the declared units of the requested mode u1+u2+…|->` -/
def parsePathNode (s : List Char) : Option (Nat × Nat × List Nat) :=
  match Wire.splitOn ':' s with
  | [a, b, u] =>
    match Wire.nat? a, Wire.nat? b, parseUnits u with
    | some a, some b, some u => some (a, b, u)
    | _, _, _ => none
  | _ => none

def showNode (n : NodeRange) : String :=
  toString n.bc ++ ":" ++ toString n.ec ++ ":" ++ toString n.bb ++ ":" ++ toString n.eb

/-- `C01 part orig=<hex> cur=<hex> m2o=<list> path=<bc:ec:units;…> split=<cur|d6fix>`: what `do_tokenize` does from the
lattice path on and what the accessors of the result report.  The path is given by CHARACTER ranges (the lattice nodes of
the best path after the path-rewrite plugins, observed on a mode-C analysis of the same text) with the key lengths of the
units each word declares for the requested mode; the model computes the byte ranges (`resolve_best_path`: `resultNode`,
`mod_c2b` of `cur`), runs `split_path` (`splitPath`, `NodeSplitIterator::next` of the probed variant over `mod_b2c`/`mod_c2b`
of `cur`) and reads every morpheme back through `m2o` (`access`: `begin/end/begin_c/end_c/surface`).
answer: `ok nodes=<bc:ec:bb:eb;…> acc=<begin:end:begin_c:end_c:sb:se;…> surf=<hex of the concatenated surfaces>`;
`PANIC <stage>` where the model of the code panics -/
def handlePart (toks : List (List Char)) : String :=
  match Wire.kv? toks "orig", Wire.kv? toks "cur", Wire.kv? toks "m2o", Wire.kv? toks "path" with
  | some o, some c, some m, some ps =>
    match Wire.hexBytes? o, Wire.hexBytes? c, Wire.natList? m, Wire.allSome ((Wire.items ';' ps).map parsePathNode) with
    | some orig, some cur, some m2o, some path =>
      let l := EditM.pairUp cur m2o
      let tb2c := EditM.b2c cur
      let tc2b := EditM.c2b cur
      let v : SplitV := if Wire.kv? toks "split" == some "cur".toList then .cur else .d6fix
      match mapM (fun (p : Nat × Nat × List Nat) =>
          match resultNode tc2b ⟨⟨p.1, p.2.1, 0, 0, 0⟩, 0, 0, 0⟩ with
          | .ok n => (Outcome.ok (n, p.2.2) : Outcome (NodeRange × List Nat))
          | .err k => .err k
          | .panic w => .panic w) path with
      | .ok nodes =>
        (match splitPath v tb2c tc2b nodes with
         | .ok ms =>
           (match mapM (access orig l) ms with
            | .ok acs =>
              "ok nodes=" ++ Wire.joinWith ";" (ms.map showNode) ++ " acc=" ++ Wire.joinWith ";" (acs.map (fun a => showAccess (.ok a)))
                ++ " surf=" ++ EditM.showHex (acs.flatMap (fun a => EditM.slice orig a.sb a.se))
            | _ => "PANIC access")
         | _ => "PANIC split")
      | _ => "PANIC resolve"
    | _, _, _, _ => "bad-op"
  | _, _, _, _ => "bad-op"

def handle (op : List Char) (toks : List (List Char)) : String :=
  match String.ofList op with
  | "cost" => handleCost toks
  | "limits" => handleLimits toks
  | "access" => handleAccess toks
  | _ => "bad-op"

end Total
