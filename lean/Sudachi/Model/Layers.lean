import Sudachi.Model.Wire
/-!
# Model of layered dictionaries (property C12)

Mirrors, as they are written:

* `dic/word_id.rs`         — `WordId::{new, checked, oov, dic, word, is_oov, …}`, `Morpheme::dictionary_id`
* `dic/lexicon/mod.rs`     — `Lexicon::{set_dic_id, word_id, lookup}` (the trie enters as the list `hits`)
* `dic/lexicon_set.rs`     — `LexiconSet::{new, append, is_full, lookup, get_word_info_subset, update_dict_id}`
* `dic/grammar.rs`         — `get_part_of_speech_id`, `register_pos`, `merge`;  `util/user_pos.rs: handle_user_pos`
* `dic/dictionary.rs`      — `from_cfg_storage` (plugins register POS, then the user dictionaries are merged one by
                             one), `merge_user_dictionary` (offset = current POS count, append, then grammar merge;
                             `MergeVariant`: without / with the test that the merged POS list stays within `u16` ids)
* `dic/build/lexicon.rs`   — `preload_pos`, `pos_of`, `parse_record` (order of the POS registrations inside one row),
                             `parse_splits`/`parse_split`, `resolve_splits`, `validate_entries`, `write_pos_table`
* `dic/build/resolve.rs`   — `RawDictResolver`, `BinDictResolver`, `ChainedResolver`
* `dic/build/parse.rs`     — `parse_wordid` (`U` prefix = dictionary 1)

Strings (surfaces, readings, POS components) are interned natural numbers: only equality of strings is ever
used by the modelled code.  A part of speech is the list of its component strings (`Pos`).
-/
namespace Layers

inductive Err where
  | tooManyDictionaries | tooLargeDictionaryId | tooLargeWordId | invalidPos
  | invalidSplit | splitRef | fieldSize | invalidWordId | posLimit | invalidSize | garbled
  | invalidData | noOovPlugin | disconnect
deriving Repr, DecidableEq

inductive Outcome (α : Type) where
  | ok (a : α)
  | err (e : Err)
  | panic (why : String)
deriving Repr, DecidableEq

def Outcome.bind {α β : Type} (x : Outcome α) (f : α → Outcome β) : Outcome β :=
  match x with
  | .ok a => f a
  | .err e => .err e
  | .panic w => .panic w

instance : Monad Outcome where
  pure := Outcome.ok
  bind := Outcome.bind

/-- sequential `map` that stops at the first failure (a `for` loop with `?`) -/
def mapO {α β : Type} (f : α → Outcome β) : List α → Outcome (List β)
  | [] => .ok []
  | a :: as =>
    match f a with
    | .ok b => (match mapO f as with
      | .ok bs => .ok (b :: bs)
      | .err e => .err e
      | .panic w => .panic w)
    | .err e => .err e
    | .panic w => .panic w

/-! ## `WordId` (4 + 28 bits) -/

/-- `1 << 28` -/
def P28 : Nat := 268435456

/-- `MAX_DICTIONARIES` -/
def MAXD : Nat := 15

/-- `WORD_MASK` -/
def WORD_MASK : Nat := 0x0fffffff

/-- `WordId::new`: `((dic & 0xf) as u32) << 28 | (word & WORD_MASK)` — transcribed at the bit level (`&&&`, `<<<`, `|||`
on `Nat`; the operands are `u8`/`u32`, no bit is shifted out: `(dic & 0xf) << 28 < 2^32`).  The arithmetic reading
`(dic % 16) * 2^28 + word % 2^28` is the lemma `Layers.mkRaw_eq`. -/
def mkRaw (dic word : Nat) : Nat := ((dic &&& 0xf) <<< 28) ||| (word &&& WORD_MASK)

/-- `WordId::new` with its two `debug_assert_eq!` (debug build) -/
def widNew (dic word : Nat) : Outcome Nat :=
  if word ≥ P28 then .panic "debug_assert word & !WORD_MASK == 0"
  else if dic ≥ 16 then .panic "debug_assert dic & !0xf == 0"
  else .ok (mkRaw dic word)

/-- `WordId::checked` -/
def widChecked (dic word : Nat) : Outcome Nat :=
  if dic ≥ 16 then .err .tooLargeDictionaryId
  else if word ≥ P28 then .err .tooLargeWordId
  else widNew dic word

/-- `WordId::dic`: `(raw >> 28) as u8` (raw is a `u32`) -/
def dicOf (raw : Nat) : Nat := (raw >>> 28) % 256
/-- `WordId::word`: `raw & WORD_MASK` -/
def wordOf (raw : Nat) : Nat := raw &&& WORD_MASK
def isOov (raw : Nat) : Bool := dicOf raw == 15
def isSystem (raw : Nat) : Bool := dicOf raw == 0
def isUser (raw : Nat) : Bool := !(dicOf raw == 0 || dicOf raw == 15)
/-- `WordId::oov` -/
def widOov (posId : Nat) : Outcome Nat := widNew 15 posId
/-- `Morpheme::dictionary_id` -/
def dictionaryId (raw : Nat) : Int := if isOov raw then -1 else Int.ofNat (dicOf raw)

/-! ## `Lexicon` -/

/-- the fields of a stored word info that `LexiconSet` touches -/
structure Word where
  posId : Nat
  a : List Nat        -- a_unit_split, raw word ids as stored
  b : List Nat        -- b_unit_split
  w : List Nat        -- word_structure
deriving Repr, DecidableEq

structure Lexicon where
  words : List Word
  /-- `lex_id`, `u8::MAX` after `parse` -/
  lexId : Nat
  /-- what the trie + word-id table yield for the input under consideration: (word index, end) -/
  hits : List (Nat × Nat)
deriving Repr

/-- `Lexicon::set_dic_id` (`assert!(id < MAX_DICTIONARIES)`) -/
def Lexicon.setDicId (l : Lexicon) (id : Nat) : Outcome Lexicon :=
  if id < MAXD then .ok { l with lexId := id } else .panic "assert id < MAX_DICTIONARIES"

/-- `Lexicon::lookup`: every hit stamped with `WordId::new(self.lex_id, raw)` -/
def Lexicon.lookup (l : Lexicon) : Outcome (List (Nat × Nat)) :=
  if l.lexId ≥ MAXD then .panic "debug_assert lex_id < MAX_DICTIONARIES"
  else mapO (fun h => match widNew l.lexId h.1 with
      | .ok r => .ok (r, h.2)
      | .err e => .err e
      | .panic w => .panic w) l.hits

/-! ## `LexiconSet` -/

structure LexSet where
  lexicons : List Lexicon
  posOffsets : List Nat
  numSystemPos : Nat
deriving Repr

/-- `LexiconSet::new` -/
def LexSet.new (sys : Lexicon) (numSystemPos : Nat) : Outcome LexSet :=
  match sys.setDicId 0 with
  | .ok s => .ok ⟨[s], [0], numSystemPos⟩
  | .err e => .err e
  | .panic w => .panic w

def LexSet.isFull (s : LexSet) : Bool := s.lexicons.length ≥ MAXD

/-- `LexiconSet::append` -/
def LexSet.append (s : LexSet) (lex : Lexicon) (posOffset : Nat) : Outcome LexSet :=
  if s.isFull then .err .tooManyDictionaries
  else match lex.setDicId (s.lexicons.length % 256) with      -- `len as u8`
    | .ok l => .ok ⟨s.lexicons ++ [l], s.posOffsets ++ [posOffset], s.numSystemPos⟩
    | .err e => .err e
    | .panic w => .panic w

def concatO : List (Outcome (List (Nat × Nat))) → Outcome (List (Nat × Nat))
  | [] => .ok []
  | x :: xs =>
    match x with
    | .ok a => (match concatO xs with
      | .ok r => .ok (a ++ r)
      | .err e => .err e
      | .panic w => .panic w)
    | .err e => .err e
    | .panic w => .panic w

/-- `LexiconSet::lookup`: user dictionaries last-added first, then the system dictionary -/
def LexSet.lookup (s : LexSet) : Outcome (List (Nat × Nat)) :=
  concatO (s.lexicons.reverse.map Lexicon.lookup)

/-- `LexiconSet::update_dict_id` -/
def updateDictId (split : List Nat) (dictId : Nat) : Outcome (List Nat) :=
  mapO (fun id => if dicOf id > 0 then widChecked dictId (wordOf id) else .ok id) split

/-- `(x) as u16` -/
def asU16 (n : Nat) : Nat := n % 65536

/-- the POS fix-up of `get_word_info_subset` -/
def rebasePos (s : LexSet) (dictId posId : Nat) : Outcome Nat :=
  if dictId > 0 ∧ posId ≥ s.numSystemPos then
    match s.posOffsets[dictId]? with
    | some off => .ok (asU16 (posId - s.numSystemPos + off))
    | none => .panic "pos_offsets index out of bounds"
  else .ok posId

/-- `LexiconSet::get_word_info_subset(id, InfoSubset::all())` restricted to the fields it fixes up -/
def LexSet.getWordInfo (s : LexSet) (id : Nat) : Outcome Word :=
  let dictId := dicOf id
  match s.lexicons[dictId]? with
  | none => .panic "lexicons index out of bounds"
  | some lex =>
    match lex.words[wordOf id]? with
    | none => .panic "word index outside the word-info table"
    | some wi =>
      match rebasePos s dictId wi.posId with
      | .err e => .err e
      | .panic w => .panic w
      | .ok p =>
        match updateDictId wi.a dictId with
        | .err e => .err e
        | .panic w => .panic w
        | .ok a =>
          match updateDictId wi.b dictId with
          | .err e => .err e
          | .panic w => .panic w
          | .ok b =>
            match updateDictId wi.w dictId with
            | .err e => .err e
            | .panic w => .panic w
            | .ok ws => .ok ⟨p, a, b, ws⟩

/-! ## `Grammar` (the POS list) -/

abbrev Pos := List Nat

def POS_DEPTH : Nat := 6

/-- `pos1.iter().zip(pos2).all(|(a, b)| a == b)` -/
def posMatch (p1 p2 : Pos) : Bool := (p1.zip p2).all (fun ab => ab.1 == ab.2)

/-- `Grammar::get_part_of_speech_id` -/
def getPosId (g : List Pos) (p : Pos) : Option Nat :=
  if p.length ≠ POS_DEPTH then none else g.findIdx? (posMatch p)

/-- `Grammar::register_pos` -/
def registerPos (g : List Pos) (p : Pos) : Outcome (List Pos × Nat) :=
  if p.length ≠ POS_DEPTH then .err .invalidPos
  else match getPosId g p with
    | some id => .ok (g, id)
    | none => if g.length > 65535 then .err .invalidPos else .ok (g ++ [p], g.length)

/-- `handle_user_pos`; `allow = true` is `UserPosMode::Allow` -/
def handleUserPos (g : List Pos) (p : Pos) (allow : Bool) : Outcome (List Pos × Nat) :=
  match getPosId g p with
  | some id => .ok (g, id)
  | none => if allow then registerPos g p else .err .invalidPos

/-- all `handle_user_pos` calls of `Plugins::load`, in order; returns the grammar and the ids handed to the plugins -/
def loadPlugins : List Pos → List (Bool × Pos) → Outcome (List Pos × List Nat)
  | g, [] => .ok (g, [])
  | g, (allow, p) :: rest =>
    match handleUserPos g p allow with
    | .err e => .err e
    | .panic w => .panic w
    | .ok (g', id) =>
      match loadPlugins g' rest with
      | .err e => .err e
      | .panic w => .panic w
      | .ok (g'', ids) => .ok (g'', id :: ids)

/-! ## the dictionary builder (`DictBuilder::new_user` / `new_system`, `LexiconReader`) -/

/-- a split unit as written in the CSV: `U<n>`, `<n>`, or `surface,pos1..6,reading` -/
inductive CsvUnit where
  | ref (user : Bool) (n : Nat)
  | inline (surface : Nat) (pos : Pos) (reading : Nat)
deriving Repr, DecidableEq

structure Row where
  surface : Nat
  headword : Nat
  reading : Nat
  /-- 0 = A, 1 = B, 2 = C -/
  mode : Nat
  pos : Pos
  a : List CsvUnit
  b : List CsvUnit
  w : List (Bool × Nat)
deriving Repr

/-- `SplitUnit` -/
inductive SUnit where
  | ref (wid : Nat)
  | inline (surface : Nat) (pos : Nat) (reading : Option Nat)
deriving Repr, DecidableEq

/-- `RawLexiconEntry` (fields used here) -/
structure Entry where
  surface : Nat
  headword : Nat
  reading : Nat
  pos : Nat
  a : List SUnit
  b : List SUnit
  w : List Nat
deriving Repr

/-- the `IndexMap<StrPosEntry, u16>`: keys in insertion order with their values -/
abbrev PosMap := List (Pos × Nat)

def imGet (m : PosMap) (k : Pos) : Option Nat :=
  match m.find? (fun kv => kv.1 == k) with
  | some kv => some kv.2
  | none => none

/-- `IndexMap::insert`: an existing key keeps its place and gets the new value -/
def imInsert : PosMap → Pos → Nat → PosMap
  | [], k, v => [(k, v)]
  | (k', v') :: rest, k, v => if k' == k then (k', v) :: rest else (k', v') :: imInsert rest k v

structure Reader where
  pos : PosMap
  startPos : Nat
  entries : List Entry
  unresolved : Nat
deriving Repr

def preloadGo : PosMap → Nat → List Pos → PosMap
  | m, _, [] => m
  | m, i, p :: ps => preloadGo (imInsert m p (asU16 i)) (i + 1) ps

/-- `LexiconReader::preload_pos` on a fresh reader -/
def preloadPos (g : List Pos) : Reader :=
  let m := preloadGo [] 0 g
  ⟨m, m.length, [], 0⟩

/-- `MAX_POS_IDS` -/
def MAX_POS_IDS : Nat := 32767

/-- `LexiconReader::pos_of` -/
def posOf (m : PosMap) (p : Pos) : Outcome (PosMap × Nat) :=
  match imGet m p with
  | some id => .ok (m, id)
  | none =>
    if m.length > MAX_POS_IDS then .err .posLimit
    else .ok (imInsert m p (asU16 m.length), asU16 m.length)

/-- `parse_wordid`: `U<n>` is dictionary 1, `<n>` dictionary 0; the number must pass `WordId::checked(0, n)` -/
def parseWordId (user : Bool) (n : Nat) : Outcome Nat :=
  if n ≥ P28 then .err .invalidWordId
  else if user then widNew 1 n else widNew 0 n

def noneIfEqual (surface data : Nat) : Option Nat := if surface = data then none else some data

/-- `parse_split` -/
def parseSplit (m : PosMap) (u : CsvUnit) : Outcome (PosMap × SUnit) :=
  match u with
  | .ref user n =>
    match parseWordId user n with
    | .ok wid => .ok (m, .ref wid)
    | .err e => .err e
    | .panic w => .panic w
  | .inline s p r =>
    match posOf m p with
    | .ok (m', id) => .ok (m', .inline s id (noneIfEqual s r))
    | .err e => .err e
    | .panic w => .panic w

def parseSplitsGo : PosMap → List CsvUnit → Outcome (PosMap × List SUnit)
  | m, [] => .ok (m, [])
  | m, u :: us =>
    match parseSplit m u with
    | .err e => .err e
    | .panic w => .panic w
    | .ok (m', su) =>
      match parseSplitsGo m' us with
      | .err e => .err e
      | .panic w => .panic w
      | .ok (m'', sus) => .ok (m'', su :: sus)

/-- `MAX_ARRAY_LEN` -/
def MAX_ARRAY_LEN : Nat := 127

/-- `parse_splits` (the length test of `parse_slash_list` comes after every unit was parsed) -/
def parseSplits (m : PosMap) (us : List CsvUnit) : Outcome (PosMap × List SUnit) :=
  match parseSplitsGo m us with
  | .ok (m', sus) => if sus.length > MAX_ARRAY_LEN then .err .invalidSize else .ok (m', sus)
  | .err e => .err e
  | .panic w => .panic w

def countInline (l : List SUnit) : Nat :=
  (l.filter (fun u => match u with | .inline .. => true | .ref _ => false)).length

/-- `parse_wordid_list` -/
def parseWordIdList (l : List (Bool × Nat)) : Outcome (List Nat) :=
  match mapO (fun x => parseWordId x.1 x.2) l with
  | .ok r => if r.length > MAX_ARRAY_LEN then .err .invalidSize else .ok r
  | .err e => .err e
  | .panic w => .panic w

/-- `parse_record` + `read_record`: split-a, split-b, word structure, then the row's own POS, then the A-mode test -/
def readRow (r : Reader) (row : Row) : Outcome Reader :=
  match parseSplits r.pos row.a with
  | .err e => .err e
  | .panic w => .panic w
  | .ok (m1, sa) =>
    match parseSplits m1 row.b with
    | .err e => .err e
    | .panic w => .panic w
    | .ok (m2, sb) =>
      match parseWordIdList row.w with
      | .err e => .err e
      | .panic w => .panic w
      | .ok ws =>
        match posOf m2 row.pos with
        | .err e => .err e
        | .panic w => .panic w
        | .ok (m3, pid) =>
          if row.mode = 0 ∧ (!sa.isEmpty || !sb.isEmpty) then .err .invalidSplit
          else .ok { r with pos := m3,
                            entries := r.entries ++ [⟨row.surface, row.headword, row.reading, pid, sa, sb, ws⟩],
                            unresolved := r.unresolved + countInline sa + countInline sb }

def readRows : Reader → List Row → Outcome Reader
  | r, [] => .ok r
  | r, row :: rows =>
    match readRow r row with
    | .ok r' => readRows r' rows
    | .err e => .err e
    | .panic w => .panic w

/-- one line of a resolver index: surface key, POS id, reading (`None` when equal to the key), word id -/
structure IdxLine where
  surface : Nat
  pos : Nat
  reading : Option Nat
  wid : Nat
deriving Repr, DecidableEq

def rawIndexGo (dicId : Nat) : List Entry → Nat → List IdxLine
  | [], _ => []
  | e :: es, i => ⟨e.surface, e.pos, noneIfEqual e.surface e.reading, mkRaw dicId i⟩ :: rawIndexGo dicId es (i + 1)

/-- `RawDictResolver::new` (the per-surface `Vec`s keep the entry order; the index is searched by key first) -/
def rawIndex (entries : List Entry) (user : Bool) : List IdxLine :=
  rawIndexGo (if user then 1 else 0) entries 0

/-- a word of the prebuilt (system) dictionary as `BinDictResolver::new` sees it: `WordInfo.surface` (= the headword),
the POS id and the reading form -/
structure SysWord where
  headword : Nat
  pos : Nat
  reading : Nat
deriving Repr

def binIndexGo : List SysWord → Nat → List IdxLine
  | [], _ => []
  | e :: es, i => ⟨e.headword, e.pos, noneIfEqual e.headword e.reading, mkRaw 0 i⟩ :: binIndexGo es (i + 1)

/-- `BinDictResolver::new` -/
def binIndex (ws : List SysWord) : List IdxLine := binIndexGo ws 0

/-- `resolve_inline` of one resolver: first line of the surface's vector with equal POS and reading -/
def resolveIn (idx : List IdxLine) (surface pos : Nat) (reading : Option Nat) : Option Nat :=
  match idx.find? (fun l => l.surface == surface && l.pos == pos && l.reading == reading) with
  | some l => some l.wid
  | none => none

/-- `ChainedResolver::resolve_inline` (own entries first, then the prebuilt dictionary) -/
def resolveChained (own sys : List IdxLine) (surface pos : Nat) (reading : Option Nat) : Option Nat :=
  match resolveIn own surface pos reading with
  | some w => some w
  | none => resolveIn sys surface pos reading

/-- `resolve_split` -/
def resolveUnit (own sys : List IdxLine) (u : SUnit) : Outcome SUnit :=
  match u with
  | .ref w => .ok (.ref w)
  | .inline s p r =>
    match resolveChained own sys s p r with
    | some w => .ok (.ref w)
    | none => .err .splitRef

/-- `resolve_splits` -/
def resolveEntries (own sys : List IdxLine) : List Entry → Outcome (List Entry)
  | [] => .ok []
  | e :: es =>
    match mapO (resolveUnit own sys) e.a with
    | .err er => .err er
    | .panic w => .panic w
    | .ok a =>
      match mapO (resolveUnit own sys) e.b with
      | .err er => .err er
      | .panic w => .panic w
      | .ok b =>
        match resolveEntries own sys es with
        | .err er => .err er
        | .panic w => .panic w
        | .ok rest => .ok ({ e with a := a, b := b } :: rest)

/-- `validate_wid` -/
def validateWid (wid max0 max1 : Nat) : Outcome Unit :=
  if dicOf wid = 0 then (if wordOf wid ≥ max0 then .err .fieldSize else .ok ())
  else if dicOf wid = 1 then (if wordOf wid ≥ max1 then .err .fieldSize else .ok ())
  else .panic "invalid dictionary ID, should not happen"

def validateUnit (max0 max1 : Nat) (u : SUnit) : Outcome Unit :=
  match u with
  | .ref w => validateWid w max0 max1
  | .inline .. => .panic "at this point there must not be unresolved splits"

def allO {α : Type} (f : α → Outcome Unit) : List α → Outcome Unit
  | [] => .ok ()
  | a :: as =>
    match f a with
    | .ok _ => allO f as
    | .err e => .err e
    | .panic w => .panic w

/-- `validate_entries` (split / word-structure part; `numSystem = none` is `usize::MAX`: a system dictionary) -/
def validateEntries (numSystem : Option Nat) (entries : List Entry) : Outcome Unit :=
  let max0 := match numSystem with | none => entries.length | some x => x
  let max1 := match numSystem with | none => 0 | some _ => entries.length
  allO (fun e =>
    match allO (validateUnit max0 max1) e.a with
    | .err er => .err er
    | .panic w => .panic w
    | .ok _ =>
      match allO (validateUnit max0 max1) e.b with
      | .err er => .err er
      | .panic w => .panic w
      | .ok _ => allO (fun w => validateWid w max0 max1) e.w) entries

def unitWid (u : SUnit) : Nat := match u with | .ref w => w | .inline .. => 0

/-- a compiled dictionary: the POS table that was written (count, rows) and the word infos -/
structure Built where
  posCount : Nat
  posRows : List Pos
  words : List Word
deriving Repr, DecidableEq

/-- `write_pos_table` -/
def writePosTable (r : Reader) : Nat × List Pos :=
  (asU16 (r.pos.length - r.startPos), (r.pos.filter (fun kv => decide (kv.2 ≥ r.startPos))).map (·.1))

def entryWord (e : Entry) : Word := ⟨e.pos, e.a.map unitWid, e.b.map unitWid, e.w⟩

/-- `read_lexicon` + `resolve` + `compile` for a dictionary.  `pre = none`: system dictionary (`new_system`);
`pre = some (grammar, words)`: `new_user(system)` over a loaded dictionary with that POS list and those words. -/
def build (pre : Option (List Pos × List SysWord)) (rows : List Row) : Outcome Built :=
  let r0 : Reader := match pre with
    | none => ⟨[], 0, [], 0⟩
    | some (g, _) => preloadPos g
  match readRows r0 rows with
  | .err e => .err e
  | .panic w => .panic w
  | .ok r =>
    let own := rawIndex r.entries pre.isSome
    let sys := match pre with | none => [] | some (_, ws) => binIndex ws
    match (if r.unresolved > 0 then resolveEntries own sys r.entries else .ok r.entries) with
    | .err e => .err e
    | .panic w => .panic w
    | .ok es =>
      match validateEntries (pre.map (fun x => x.2.length)) es with
      | .err e => .err e
      | .panic w => .panic w
      | .ok _ =>
        let t := writePosTable { r with entries := es }
        .ok ⟨t.1, t.2, es.map entryWord⟩

/-! ### `DictBuilder::new_user(dic)`: what the builder takes from the loaded dictionary `dic`

Two versions of `new_user` + `LexiconReader::preload_pos` are modelled; the harness names the one of the tree it is
built against on every `stack` line (`pre=all|sys`).

* `all` (the pinned tree, kept verbatim): `preload_pos(dic.grammar())` inserts EVERY entry of `dic.grammar().pos_list`
  — also those registered at load time by OOV plugins — and `start_pos` is their count;
* `sysOnly` (repair of finding P1): `preload_pos(dic.grammar(), dic.lexicon().num_system_pos())` inserts only the
  first `num_system_pos` entries (`pos_list.iter().take(num_system_pos)`), i.e. the POS the loader will treat as
  system POS when the compiled dictionary is loaded. -/
inductive PreVariant where
  | all
  | sysOnly
deriving Repr, DecidableEq

/-- the loaded dictionary handed to `new_user`: `grammar().pos_list`, `lexicon().num_system_pos` (the field
`LexSet.numSystemPos`), and the words `BinDictResolver::new` reads -/
structure Base where
  posList : List Pos
  numSystemPos : Nat
  words : List SysWord
deriving Repr

/-- the `pre` argument of `build` the two versions of `new_user` produce -/
def preOf (v : PreVariant) (b : Base) : List Pos × List SysWord :=
  match v with
  | .all => (b.posList, b.words)
  | .sysOnly => (b.posList.take b.numSystemPos, b.words)

/-- `DictBuilder::new_user(base)` + `read_lexicon` + `resolve` + `compile` -/
def buildUser (v : PreVariant) (b : Base) (rows : List Row) : Outcome Built :=
  build (some (preOf v b)) rows

/-- `pos_list_parser`: reads `count` rows; a table with a different number of rows is not readable as written -/
def readPosTable (b : Built) : Outcome (List Pos) :=
  if b.posRows.length = b.posCount then .ok b.posRows else .err .garbled

/-! ## `JapaneseDictionary::from_cfg_storage` -/

structure Dict where
  posList : List Pos
  set : LexSet
deriving Repr

/-- `Grammar::merge`: `self.pos_list.extend(other.pos_list)` — every entry of the other list is appended, in order,
ALSO an entry the grammar already holds (registered by a plugin, declared by an earlier user dictionary or — never
written by the builder, but readable — a system POS): `LexiconSet` rebases positionally, so the copy is what the
dictionary's words name. -/
def grammarMerge (g other : List Pos) : List Pos := g ++ other

/-- the "clean-up" of `seeded/C12a`: skip the entries `get_part_of_speech_id` already finds (NOT the code; kept to
state what goes wrong with it, `C12.merge_skipping_known_counterexample`) -/
def grammarMergeSkip : List Pos → List Pos → List Pos
  | g, [] => g
  | g, p :: ps => if (getPosId g p).isSome then grammarMergeSkip g ps else grammarMergeSkip (g ++ [p]) ps

/-- `merge_user_dictionary`: `append(user_lexicon, pos_list.len())?`, then `grammar.merge` -/
def mergeUser (d : Dict) (ownPos : List Pos) (lex : Lexicon) : Outcome Dict :=
  match d.set.append lex d.posList.length with
  | .ok s => .ok ⟨grammarMerge d.posList ownPos, s⟩
  | .err e => .err e
  | .panic w => .panic w

def mergeAll : Dict → List (List Pos × Lexicon) → Outcome Dict
  | d, [] => .ok d
  | d, (own, lex) :: rest =>
    match mergeUser d own lex with
    | .ok d' => mergeAll d' rest
    | .err e => .err e
    | .panic w => .panic w

/-- `from_cfg_storage`: system dictionary (`LexiconSet::new` with the system POS count), plugin POS registration,
then the user dictionaries in order -/
def load (sysPos : List Pos) (sysLex : Lexicon) (plugs : List (Bool × Pos))
    (users : List (List Pos × Lexicon)) : Outcome Dict :=
  match LexSet.new sysLex sysPos.length with
  | .err e => .err e
  | .panic w => .panic w
  | .ok set =>
    match loadPlugins sysPos plugs with
    | .err e => .err e
    | .panic w => .panic w
    | .ok (g, _) => mergeAll ⟨g, set⟩ users

/-! ### `merge_user_dictionary` with and without the size test (finding P2)

Two versions of `JapaneseDictionary::merge_user_dictionary` are modelled; the harness names the one of the tree it is built
against on every `stack` / `poslimit` line (`mv=any|limit`).

* `unbounded` (the pinned tree, kept verbatim: `mergeUser` above): the user dictionary's POS table is appended whatever the
  size of the merged list.  `LexiconSet::get_word_info_subset` narrows the rebased id with `as u16` (`rebasePos`: `asU16`),
  so an entry at position ≥ 65 536 of the merged list cannot be named by any word;
* `limit` (repair of finding P2): before anything else is done with the user dictionary (before `update_cost`, `append`,
  `merge`) the load fails with `InvalidPartOfSpeech` if `pos_list.len() + user_pos_list.len() > u16::MAX as usize + 1`. -/
inductive MergeVariant where
  | unbounded
  | limit
deriving Repr, DecidableEq

/-- `u16::MAX as usize + 1`: the number of entries a `u16` POS id can address (ids `0 ..= 65535`) -/
def U16_IDS : Nat := 65536

/-- `merge_user_dictionary` of either tree (POS / lexicon part) -/
def mergeUserV (v : MergeVariant) (d : Dict) (ownPos : List Pos) (lex : Lexicon) : Outcome Dict :=
  match v with
  | .unbounded => mergeUser d ownPos lex
  | .limit =>
    if d.posList.length + ownPos.length > U16_IDS then .err .invalidPos
    else mergeUser d ownPos lex

def mergeAllV (v : MergeVariant) : Dict → List (List Pos × Lexicon) → Outcome Dict
  | d, [] => .ok d
  | d, (own, lex) :: rest =>
    match mergeUserV v d own lex with
    | .ok d' => mergeAllV v d' rest
    | .err e => .err e
    | .panic w => .panic w

/-- `from_cfg_storage` of either tree (`loadV .unbounded` is `load`: `Layers.loadV_unbounded`) -/
def loadV (v : MergeVariant) (sysPos : List Pos) (sysLex : Lexicon) (plugs : List (Bool × Pos))
    (users : List (List Pos × Lexicon)) : Outcome Dict :=
  match LexSet.new sysLex sysPos.length with
  | .err e => .err e
  | .panic w => .panic w
  | .ok set =>
    match loadPlugins sysPos plugs with
    | .err e => .err e
    | .panic w => .panic w
    | .ok (g, _) => mergeAllV v ⟨g, set⟩ users

/-- `Morpheme::part_of_speech_id` / `dictionary_id` of a path node: OOV nodes carry the POS id in the word part -/
def morphInfo (d : Dict) (raw : Nat) : Outcome (Int × Nat) :=
  if isOov raw then .ok (dictionaryId raw, asU16 (wordOf raw))
  else match d.set.getWordInfo raw with
    | .ok wi => .ok (dictionaryId raw, wi.posId)
    | .err e => .err e
    | .panic w => .panic w

end Layers
