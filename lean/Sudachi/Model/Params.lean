import Sudachi.Model.Wire
import Sudachi.Model.OovIO
/-!
# C20: range checks of plugin parameters at load time

Transcription of
* `util/check_params.rs` (`check_left_id`, `check_right_id`, `check_cost`),
* `util/user_pos.rs` (`handle_user_pos`) + `dic/grammar.rs` (`get_part_of_speech_id`, `register_pos`,
  `set_connect_cost`, `merge`),
* `dic/connect.rs` (`index`, `cost`, `update`, with the `debug_assert!`s as an explicit `panic`
  outcome in debug builds, and the unchecked read as `ub` in release builds),
* `plugin/oov/{simple_oov,regex_oov,mecab_oov}/mod.rs` `set_up` (order of the checks kept) and the
  node parameters `provide_oov` attaches,
* `plugin/connect_cost/inhibit_connection.rs` (`set_up`, `edit`),
* `dic/dictionary.rs: from_cfg_storage` (connection-cost plugins set up, OOV providers set up,
  `NoOOVPluginProvided`, edits, user dictionaries merged last),
* `analysis/lattice.rs: connect_node / insert / connect_eos` as far as the connection matrix is
  concerned (which `(left, right)` pairs reach `ConnectionMatrix::cost`).

Machine integers are `Int`/`Nat` with explicit casts (`asU16`, `asI16`, `i16AsUsize`) at exactly the
places the Rust casts.  The code variants that exist or are planned are selected by `Variant`:
`jsonGe` (`>=` in check_params, repair of D15a — rejected by the suite, kept for the theorems),
`unkGe` (`>=` in mecab_oov, repair of D15b), `inhChecked` (range check in
`InhibitConnectionPlugin::set_up`, repair of D16), `debug` (debug assertions on).
-/
namespace Params

/-- innermost `SudachiError` variant -/
inductive Kind
  | dataFormat   -- InvalidDataFormat
  | pos          -- InvalidPartOfSpeech
  | parseInt     -- ParseIntError
  | serde        -- SerdeError
  | noOov        -- NoOOVPluginProvided
  | catType      -- InvalidCharacterCategoryType
  | charCat      -- InvalidCharacterCategory
  | plugin       -- PluginError (a plugin's own regex does not compile)
  | lexSet       -- LexiconSetError (TooManyDictionaries: a 15th user dictionary)
  | grammar      -- InvalidDictionaryGrammar (the grammar section of the binary dictionary)
  | config       -- ConfigError (the `regex` of RegexOovProvider does not compile)
deriving DecidableEq, Repr

def Kind.name : Kind → String
  | .dataFormat => "InvalidDataFormat"
  | .pos => "InvalidPartOfSpeech"
  | .parseInt => "ParseIntError"
  | .serde => "SerdeError"
  | .noOov => "NoOOVPluginProvided"
  | .catType => "InvalidCharacterCategoryType"
  | .charCat => "InvalidCharacterCategory"
  | .plugin => "PluginError"
  | .lexSet => "LexiconSetError"
  | .grammar => "InvalidDictionaryGrammar"
  | .config => "ConfigError"

/-- result of a piece of Rust code: value, `Err(kind)`, crash, or undefined behaviour (unchecked
out-of-bounds read in a release build) -/
inductive Outcome (α : Type)
  | ok (a : α)
  | err (k : Kind)
  | crash
  | ub
deriving Repr, DecidableEq

namespace Outcome
@[simp] def bind {α β : Type} : Outcome α → (α → Outcome β) → Outcome β
  | ok a, f => f a
  | err k, _ => err k
  | crash, _ => crash
  | ub, _ => ub

instance : Monad Outcome where
  pure := ok
  bind := bind

@[simp] theorem pure_eq {α : Type} (a : α) : (pure a : Outcome α) = ok a := rfl
@[simp] theorem bind_eq {α β : Type} (x : Outcome α) (f : α → Outcome β) : (x >>= f) = x.bind f := rfl

theorem bind_eq_ok {α β : Type} {x : Outcome α} {f : α → Outcome β} {b : β} :
    x.bind f = ok b ↔ ∃ a, x = ok a ∧ f a = ok b := by
  cases x <;> simp [bind]
end Outcome

open Outcome

/-- which of the existing / planned code variants is modelled -/
structure Variant where
  jsonGe : Bool
  unkGe : Bool
  inhChecked : Bool
  debug : Bool
deriving Repr, DecidableEq

/-! ## casts -/

/-- `x as u16` -/
def asU16 (x : Int) : Nat := (x % 65536).toNat
/-- `x as i16` -/
def asI16 (x : Int) : Int :=
  let y := x % 65536
  if y ≥ 32768 then y - 65536 else y
/-- `x as usize` for a signed `x` (64-bit target) -/
def asUsize (x : Int) : Nat := (x % 18446744073709551616).toNat

/-! ## connection matrix (`dic/connect.rs`) -/

structure Matrix where
  nl : Nat
  nr : Nat
  /-- `data`, cell `(left, right)` stored at `right * nl + left` -/
  cells : List Int
deriving Repr, DecidableEq

/-- `ConnectionMatrix::index`; the three `debug_assert!`s exist only in debug builds -/
def Matrix.index (dbg : Bool) (m : Matrix) (left right : Nat) : Outcome Nat :=
  if dbg && !(left < m.nl) then crash
  else if dbg && !(right < m.nr) then crash
  else
    let i := right * m.nl + left
    if dbg && !(i < m.cells.length) then crash else ok i

/-- `ConnectionMatrix::cost`: `get_unchecked` — out of bounds is undefined behaviour -/
def Matrix.cost (dbg : Bool) (m : Matrix) (left right : Nat) : Outcome Int :=
  match m.index dbg left right with
  | ok i => match m.cells[i]? with
    | some c => ok c
    | none => ub
  | err k => err k
  | crash => crash
  | ub => ub

/-- `ConnectionMatrix::update` → `CowArray::set`: `s[offset] = value` is a checked `Vec` index -/
def Matrix.update (dbg : Bool) (m : Matrix) (left right : Nat) (v : Int) : Outcome Matrix :=
  match m.index dbg left right with
  | ok i => if i < m.cells.length then ok { m with cells := m.cells.set i v } else crash
  | err k => err k
  | crash => crash
  | ub => ub

/-! ## grammar: POS list + matrix -/

abbrev Pos := List (List Char)

structure Grammar where
  pos : List Pos
  conn : Matrix
deriving Repr

def INHIBITED : Int := 32767

/-- `pos1.iter().zip(pos2).all(|(a, b)| a == b)` -/
def posMatch (p1 p2 : Pos) : Bool := (p1.zip p2).all (fun ab => ab.1 == ab.2)

/-- `Grammar::get_part_of_speech_id` (`i as u16`) -/
def getPosId (posList : List Pos) (p : Pos) : Option Nat :=
  if p.length != 6 then none
  else
    let i := posList.findIdx (posMatch p)
    if i < posList.length then some (i % 65536) else none

/-- the lookup WITHOUT the arity guard `if pos1.len() != POS_DEPTH { return None; }` (seeded change
C20c: `pos_list.iter().position(|pos2| pos1.iter().zip(pos2).all(..))`).  `zip` stops at the shorter
sequence, so a list of fewer than six strings matches the first entry it is a prefix of.  Kept only
to be refuted in the kernel (`C20.unguarded_lookup_counterexample`); nothing dispatches to it. -/
def getPosIdU (posList : List Pos) (p : Pos) : Option Nat :=
  let i := posList.findIdx (posMatch p)
  if i < posList.length then some (i % 65536) else none

/-- `Grammar::register_pos` -/
def registerPos (posList : List Pos) (p : Pos) : Outcome (List Pos × Nat) :=
  if p.length != 6 then err .pos
  else match getPosId posList p with
    | some id => ok (posList, id)
    | none =>
      let newId := posList.length
      if newId > 65535 then err .pos
      else ok (posList ++ [p], newId % 65536)

inductive Mode | allow | forbid
deriving DecidableEq, Repr

/-- `handle_user_pos` -/
def handleUserPos (posList : List Pos) (p : Pos) (mode : Mode) : Outcome (List Pos × Nat) :=
  match getPosId posList p with
  | some id => ok (posList, id)
  | none =>
    match mode with
    | .allow => registerPos posList p
    | .forbid => err .pos

/-! ## `check_params.rs` -/

/-- `check_left_id` / `check_right_id` against the dimension `n`; `ge` = repaired comparison -/
def checkId (ge : Bool) (n : Nat) (x : Int) : Outcome Nat :=
  if x < 0 then err .dataFormat
  else
    let ux := x.toNat
    if (if ge then ux ≥ n else ux > n) then err .dataFormat
    else ok (asU16 x)

def checkLeftId (v : Variant) (m : Matrix) (x : Int) : Outcome Nat := checkId v.jsonGe m.nl x
def checkRightId (v : Variant) (m : Matrix) (x : Int) : Outcome Nat := checkId v.jsonGe m.nr x

/-- `check_cost` -/
def checkCost (x : Int) : Outcome Int :=
  if x < -32768 then err .dataFormat
  else if x > 32767 then err .dataFormat
  else ok (asI16 x)

/-! ## OOV providers -/

/-- what a provider stores / attaches to its nodes: left id, right id, cost, POS id -/
structure OovE where
  l : Nat
  r : Nat
  c : Int
  p : Nat
deriving Repr, DecidableEq

/-- raw `OOV` record of the MeCab provider (`i16` fields) -/
structure RawOov where
  l : Int
  r : Int
  c : Int
  p : Nat
deriving Repr, DecidableEq

/-- configuration of one provider, after `serde_json` -/
inductive ProvCfg
  | simple (pos : Pos) (l r c : Int) (mode : Mode)
  | regex (pos : Pos) (l r c : Int) (mode : Mode)
  | mecab (unk : List (List Char)) (mode : Mode)     -- lines of unk.def
deriving Repr

/-- loaded provider -/
inductive Prov
  | simple (e : OovE)
  | regex (e : OovE)
  | mecab (es : List (Nat × List RawOov))     -- `oov_list`, keyed by category, in insertion order
deriving Repr

/-- `SimpleOovPlugin::set_up`: POS first, then left, right, cost -/
def setUpSimple (v : Variant) (g : Grammar) (pos : Pos) (l r c : Int) (mode : Mode) :
    Outcome (Grammar × Prov) :=
  match handleUserPos g.pos pos mode with
  | ok (pl, pid) =>
    match checkLeftId v g.conn l with
    | ok l' =>
      match checkRightId v g.conn r with
      | ok r' =>
        match checkCost c with
        | ok c' => ok ({ g with pos := pl }, .simple ⟨l', r', c', pid⟩)
        | err k => err k | crash => crash | ub => ub
      | err k => err k | crash => crash | ub => ub
    | err k => err k | crash => crash | ub => ub
  | err k => err k | crash => crash | ub => ub

/-- `RegexOovProvider::set_up`: left, right, cost, then POS (the regex itself is always valid here) -/
def setUpRegex (v : Variant) (g : Grammar) (pos : Pos) (l r c : Int) (mode : Mode) :
    Outcome (Grammar × Prov) :=
  match checkLeftId v g.conn l with
  | ok l' =>
    match checkRightId v g.conn r with
    | ok r' =>
      match checkCost c with
      | ok c' =>
        match handleUserPos g.pos pos mode with
        | ok (pl, pid) => ok ({ g with pos := pl }, .regex ⟨l', r', c', pid⟩)
        | err k => err k | crash => crash | ub => ub
      | err k => err k | crash => crash | ub => ub
    | err k => err k | crash => crash | ub => ub
  | err k => err k | crash => crash | ub => ub

/-- `oov_list.get_mut(cat).push(oov)` / insert -/
def pushRaw (k : Nat) (d : RawOov) : List (Nat × List RawOov) → List (Nat × List RawOov)
  | [] => [(k, [d])]
  | (k', ds) :: rest => if k' = k then (k', ds ++ [d]) :: rest else (k', ds) :: pushRaw k d rest

/-- the range test of one `unk.def` id: `oov.left_id as usize > num_left()` (or `>=`) -/
def unkIdBad (ge : Bool) (n : Nat) (x : Int) : Bool :=
  if ge then asUsize x ≥ n else asUsize x > n

/-- body of the loop of `MeCabOovPlugin::read_oov` for one line; `ok none` = `continue`;
`cats` = the categories of char.def -/
def readOovLine (v : Variant) (cats : List (Nat × Oov.CatInfo)) (conn : Matrix) (mode : Mode)
    (line : List Char) (pl : List Pos) : Outcome (Option (List Pos × Nat × RawOov)) :=
  let line := Oov.trim line
  if line.isEmpty || line.head? == some '#' then ok none
  else
    let cols := Wire.splitOn ',' line
    if cols.length < 10 then err .dataFormat else
    match cols with
    | c0 :: c1 :: c2 :: c3 :: more =>
      match Oov.parseCatType c0 with
      | none => err .catType
      | some ct =>
        if (Oov.findKey ct cats).isNone then err .dataFormat else
        match Oov.parseI16 c1 with
        | none => err .parseInt
        | some l =>
        match Oov.parseI16 c2 with
        | none => err .parseInt
        | some r =>
        match Oov.parseI16 c3 with
        | none => err .parseInt
        | some c =>
        match handleUserPos pl (more.take 6) mode with
        | ok (pl', pid) =>
          if unkIdBad v.unkGe conn.nl l then err .dataFormat
          else if unkIdBad v.unkGe conn.nr r then err .dataFormat
          else ok (some (pl', ct, ⟨l, r, c, pid⟩))
        | err k => err k | crash => crash | ub => ub
    | _ => err .dataFormat

/-- `MeCabOovPlugin::read_oov` -/
def readOov (v : Variant) (cats : List (Nat × Oov.CatInfo)) (conn : Matrix) (mode : Mode) :
    List (List Char) → List Pos → List (Nat × List RawOov) → Outcome (List Pos × List (Nat × List RawOov))
  | [], pl, acc => ok (pl, acc)
  | line :: rest, pl, acc =>
    match readOovLine v cats conn mode line pl with
    | ok none => readOov v cats conn mode rest pl acc
    | ok (some (pl', ct, d)) => readOov v cats conn mode rest pl' (pushRaw ct d acc)
    | err k => err k | crash => crash | ub => ub

/-- `MeCabOovPlugin::set_up` -/
def setUpMecab (v : Variant) (cdef : List (List Char)) (g : Grammar) (unk : List (List Char)) (mode : Mode) :
    Outcome (Grammar × Prov) :=
  match Oov.readCharProp cdef [] with
  | none => err .charCat
  | some cats =>
    match readOov v cats g.conn mode unk g.pos [] with
    | ok (pl, es) => ok ({ g with pos := pl }, .mecab es)
    | err k => err k | crash => crash | ub => ub

def setUpProv (v : Variant) (cdef : List (List Char)) (g : Grammar) : ProvCfg → Outcome (Grammar × Prov)
  | .simple pos l r c mode => setUpSimple v g pos l r c mode
  | .regex pos l r c mode => setUpRegex v g pos l r c mode
  | .mecab unk mode => setUpMecab v cdef g unk mode

/-- `load_plugins_of::<dyn OovProviderPlugin>`: in configuration order, threading the grammar -/
def setUpProvs (v : Variant) (cdef : List (List Char)) : Grammar → List ProvCfg → Outcome (Grammar × List Prov)
  | g, [] => ok (g, [])
  | g, c :: rest =>
    match setUpProv v cdef g c with
    | ok (g', p) =>
      match setUpProvs v cdef g' rest with
      | ok (g'', ps) => ok (g'', p :: ps)
      | err k => err k | crash => crash | ub => ub
    | err k => err k | crash => crash | ub => ub

/-- `get_oov_node` / `Node::new(.., self.left_id, self.right_id, self.cost, oov(pos))` -/
def rawNode (d : RawOov) : OovE := ⟨asU16 d.l, asU16 d.r, d.c, d.p⟩

/-- every parameter tuple the provider can attach to a lattice node -/
def provNodes : Prov → List OovE
  | .simple e => [e]
  | .regex e => [e]
  | .mecab es => (es.map (fun kv => kv.2.map rawNode)).flatten

/-! ## inhibit-connection plugin -/

def fitsI16 (x : Int) : Bool := decide (-32768 ≤ x) && decide (x ≤ 32767)

/-- the range test of the repaired `set_up` -/
def pairInRange (m : Matrix) (p : Int × Int) : Bool :=
  !(decide (p.1 < 0) || decide (asUsize p.1 ≥ m.nl) || decide (p.2 < 0) || decide (asUsize p.2 ≥ m.nr))

/-- `InhibitConnectionPlugin::set_up`: `serde` into `Vec<(i16, i16)>`; the unchanged code checks nothing else -/
def inhSetUp (v : Variant) (g : Grammar) (pairs : List (Int × Int)) : Outcome (List (Int × Int)) :=
  if pairs.all (fun p => fitsI16 p.1 && fitsI16 p.2) then
    if v.inhChecked then
      (if pairs.all (pairInRange g.conn) then ok pairs else err .dataFormat)
    else ok pairs
  else err .serde

def inhSetUps (v : Variant) (g : Grammar) : List (List (Int × Int)) → Outcome (List (List (Int × Int)))
  | [] => ok []
  | ps :: rest =>
    match inhSetUp v g ps with
    | ok a =>
      match inhSetUps v g rest with
      | ok as => ok (a :: as)
      | err k => err k | crash => crash | ub => ub
    | err k => err k | crash => crash | ub => ub

/-- `Grammar::set_connect_cost(left: i16, right: i16, cost)`: `as u16` on both ids -/
def setConnectCost (dbg : Bool) (m : Matrix) (l r : Int) (c : Int) : Outcome Matrix :=
  m.update dbg (asU16 l) (asU16 r) c

/-- `InhibitConnectionPlugin::edit` -/
def inhEdit (dbg : Bool) : Matrix → List (Int × Int) → Outcome Matrix
  | m, [] => ok m
  | m, (l, r) :: rest =>
    match setConnectCost dbg m l r INHIBITED with
    | ok m' => inhEdit dbg m' rest
    | err k => err k | crash => crash | ub => ub

def inhEdits (dbg : Bool) : Matrix → List (List (Int × Int)) → Outcome Matrix
  | m, [] => ok m
  | m, ps :: rest =>
    match inhEdit dbg m ps with
    | ok m' => inhEdits dbg m' rest
    | err k => err k | crash => crash | ub => ub

/-! ## `JapaneseDictionary::from_cfg_storage` -/

structure Cfg where
  inh : List (List (Int × Int))
  oov : List ProvCfg
  /-- POS lists of the user dictionaries, in order -/
  userPos : List (List Pos)
deriving Repr

structure Loaded where
  g : Grammar
  provs : List Prov
deriving Repr

def load (v : Variant) (cdef : List (List Char)) (g : Grammar) (cfg : Cfg) : Outcome Loaded :=
  -- Plugins::load: connect_cost, (input_text), oov, (path_rewrite)
  match inhSetUps v g cfg.inh with
  | ok inh =>
    match setUpProvs v cdef g cfg.oov with
    | ok (g1, provs) =>
      if provs.isEmpty then err .noOov
      else
        -- for p in connect_cost.plugins() { p.edit(grammar) }
        match inhEdits v.debug g1.conn inh with
        | ok conn =>
          -- user dictionaries are merged last: Grammar::merge extends the POS list
          ok ⟨{ pos := g1.pos ++ cfg.userPos.flatten, conn := conn }, provs⟩
        | err k => err k | crash => crash | ub => ub
    | err k => err k | crash => crash | ub => ub
  | err k => err k | crash => crash | ub => ub

/-! ## lattice: which pairs reach `ConnectionMatrix::cost` (`analysis/lattice.rs`) -/

/-- a candidate node: begin, end (code-point boundaries), left id, right id -/
structure LNode where
  b : Nat
  e : Nat
  left : Nat
  right : Nat
deriving Repr, DecidableEq

/-- `ends[i]`: (right id, connected to BOS) of the nodes ending at boundary `i`, in insertion order -/
abbrev Ends := List (List (Nat × Bool))

/-- `connect_node`: one `conn.cost(l_node.right_id(), r_node.left_id())` per *connected* node ending
at `begin`; the result says whether a predecessor was found (`min_cost != i32::MAX`) -/
def connectNode (dbg : Bool) (m : Matrix) : List (Nat × Bool) → Nat → Bool → Outcome Bool
  | [], _, acc => ok acc
  | (r, c) :: rest, leftId, acc =>
    if !c then connectNode dbg m rest leftId acc
    else
      match m.cost dbg r leftId with
      | ok _ => connectNode dbg m rest leftId true
      | err k => err k | crash => crash | ub => ub

/-- `insert` for every candidate in order, then `connect_eos` (left id 0) at boundary `len`;
`self.ends[i]` is a checked index -/
def buildLattice (dbg : Bool) (m : Matrix) (len : Nat) : List LNode → Ends → Outcome Bool
  | [], ends =>
    match ends[len]? with
    | none => crash
    | some ls => connectNode dbg m ls 0 false
  | n :: rest, ends =>
    match ends[n.b]? with
    | none => crash
    | some ls =>
      match connectNode dbg m ls n.left false with
      | ok c =>
        match ends[n.e]? with
        | none => crash
        | some le => buildLattice dbg m len rest (ends.set n.e (le ++ [(n.right, c)]))
      | err k => err k | crash => crash | ub => ub

/-- `reset(len)` + `connect_bos`: `len + 1` rows, `ends[0] = [VNode(right_id = 0, cost 0)]` -/
def bosEnds (len : Nat) : Ends := [(0, true)] :: List.replicate len []

/-! ## wire -/

def parseMode (s : List Char) : Option Mode :=
  if s == "a".toList then some .allow else if s == "f".toList then some .forbid else none

def bytesOf (s : List Char) : Option (List Char) := (Wire.hexBytes? s).map (fun bs => bs.map Char.ofNat)

/-- hex of the components joined by `,` -/
def parsePos (s : List Char) : Option Pos := (bytesOf s).map (Wire.splitOn ',')

def parsePosList (s : List Char) : Option (List Pos) := Wire.allSome ((Wire.items ';' s).map parsePos)

def parsePair (s : List Char) : Option (Int × Int) :=
  match Wire.intTuple? s with
  | some [a, b] => some (a, b)
  | _ => none

/-- `I<l:r,l:r,...>` -/
def parseInh (s : List Char) : Option (List (Int × Int)) :=
  match s with
  | 'I' :: rest => Wire.allSome ((Wire.items ',' rest).map parsePair)
  | _ => none

def parseProv (s : List Char) : Option ProvCfg :=
  match Wire.splitOn ':' s with
  | [k, pos, l, r, c, m] =>
    match parsePos pos, Wire.int? l, Wire.int? r, Wire.int? c, parseMode m with
    | some pos, some l, some r, some c, some m =>
      if k == "S".toList then some (.simple pos l r c m)
      else if k == "R".toList then some (.regex pos l r c m)
      else none
    | _, _, _, _, _ => none
  | [k, unk, m] =>
    match bytesOf unk, parseMode m with
    | some unk, some m => if k == "M".toList then some (.mecab (Oov.lines unk) m) else none
    | _, _ => none
  | _ => none

def parseVariant (s : List Char) : Option Variant :=
  match s with
  | [a, b, c, d] => some ⟨a == '1', b == '1', c == '1', d == '1'⟩
  | _ => none

def hexDigit (n : Nat) : Char := if n < 10 then Char.ofNat (48 + n) else Char.ofNat (87 + n)

def hexOf (s : List Char) : String :=
  String.ofList (s.flatMap (fun c => [hexDigit (c.toNat / 16 % 16), hexDigit (c.toNat % 16)]))

def joinChars (sep : Char) : List (List Char) → List Char
  | [] => []
  | [x] => x
  | x :: xs => x ++ sep :: joinChars sep xs

def showPos (p : Pos) : String := hexOf (joinChars ',' p)

def showE (e : OovE) : String :=
  toString e.l ++ ":" ++ toString e.r ++ ":" ++ toString e.c ++ ":" ++ toString e.p

/-- categories probed by the harness, in the order of its probe text -/
def probeCats : List Nat := [1, 16, 32, 64, 128, 4]

def showProv : Prov → String
  | .simple e => "S:" ++ showE e
  | .regex e => "R:" ++ showE e
  | .mecab es =>
    "M:" ++ Wire.joinWith "," (probeCats.filterMap (fun ct =>
      match Oov.findKey ct es with
      | some ds => if ds.isEmpty then none else some (toString ct ++ "=" ++ Wire.joinWith "+" (ds.map (fun d => showE (rawNode d))))
      | none => none))

def showOutcome {α : Type} (f : α → String) : Outcome α → String
  | .ok a => f a
  | .err k => "err:" ++ k.name
  | .crash => "PANIC"
  | .ub => "UB"

def handleLoad (toks : List (List Char)) : String :=
  match Wire.kv? toks "v", Wire.kv? toks "nl", Wire.kv? toks "nr", Wire.kv? toks "conn", Wire.kv? toks "pos",
        Wire.kv? toks "cdef", Wire.kv? toks "inh", Wire.kv? toks "oov", Wire.kv? toks "upos" with
  | some v, some nl, some nr, some conn, some pos, some cdef, some inh, some oov, some upos =>
    match parseVariant v, Wire.nat? nl, Wire.nat? nr, Wire.intList? conn, parsePosList pos, bytesOf cdef,
          Wire.allSome ((Wire.items ';' inh).map parseInh), Wire.allSome ((Wire.items ';' oov).map parseProv),
          Wire.allSome ((Wire.items '|' upos).map parsePosList) with
    | some v, some nl, some nr, some cells, some pos, some cdef, some inh, some oov, some upos =>
      let g : Grammar := ⟨pos, ⟨nl, nr, cells⟩⟩
      showOutcome (fun (ld : Loaded) =>
        "ok npos=" ++ toString ld.g.pos.length ++
        " all=" ++ Wire.joinWith ";" (ld.g.pos.map showPos) ++
        " prov=" ++ Wire.joinWith ";" (ld.provs.map showProv) ++
        " conn=" ++ Wire.showInts ld.g.conn.cells)
        (load v (Oov.lines cdef) g ⟨inh, oov, upos⟩)
    | _, _, _, _, _, _, _, _, _ => "bad-op"
  | _, _, _, _, _, _, _, _, _ => "bad-op"

/-- `b:e:left:right` -/
def parseLNode (s : List Char) : Option LNode :=
  match Wire.natTuple? s with
  | some [b, e, l, r] => some ⟨b, e, l, r⟩
  | _ => none

/-- `C20 lat`: does building the lattice over these candidates index outside the matrix? -/
def handleLat (toks : List (List Char)) : String :=
  match Wire.kv? toks "dbg", Wire.kv? toks "nl", Wire.kv? toks "nr", Wire.kv? toks "ncell", Wire.kv? toks "len", Wire.kv? toks "nodes" with
  | some dbg, some nl, some nr, some nc, some len, some nodes =>
    match Wire.nat? nl, Wire.nat? nr, Wire.nat? nc, Wire.nat? len, Wire.allSome ((Wire.items ',' nodes).map parseLNode) with
    | some nl, some nr, some nc, some len, some nodes =>
      showOutcome (fun (c : Bool) => if c then "ok" else "err:Disconnect")
        (buildLattice (dbg == ['1']) ⟨nl, nr, List.replicate nc 0⟩ len nodes (bosEnds len))
    | _, _, _, _, _ => "bad-op"
  | _, _, _, _, _, _ => "bad-op"

def handle (op : List Char) (toks : List (List Char)) : String :=
  if op == "load".toList then handleLoad toks
  else if op == "lat".toList then handleLat toks
  else "bad-op"

end Params
