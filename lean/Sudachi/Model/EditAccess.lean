import Sudachi.Model.Edit
/-!
# Model of the read-only accessor family of `InputBuffer` (`input_text/buffer/mod.rs`, after `build`)

Property C08 (depth round).  The tables are those of `Model/Edit.lean`: the paired list `l` (`modified` bytes +
`m2o` with its sentinel entry), `c2b`/`b2c` of the rewritten text (`mod_c2b`/`mod_b2c`), `origB2C` of the original
(`m2o_2` after `fill_orig_b2c`, `none` = the `usize::MAX` marker).  Every accessor is transcribed with the
outcomes the Rust code (debug profile: `debug_assert!`, overflow checks, slice checks) can have:

* `Acc.ok v`     the value returned;
* `Acc.panic w`  index out of range (`[]` on a `Vec`), a `debug_assert!`, `attempt to subtract with overflow`, or a
                 `str` slice whose ends are inverted / out of range / off a character boundary.

The buffer is in state `RO` (all of these are called after `build`), so the state assertions are not modelled.
-/
namespace EditAcc
open EditM

inductive Acc (α : Type) where
  | ok (a : α)
  | panic (why : String)
deriving Repr, DecidableEq

/-- a built buffer: the original text and the paired list (`modified`, `m2o`) -/
structure Buf where
  orig : List Nat
  l : List (P Nat)

def Buf.cur (b : Buf) : List Nat := textOf b.l
def Buf.m2o (b : Buf) : List Nat := snds b.l
/-- `mod_chars.len()` -/
def Buf.nch (b : Buf) : Nat := nchars b.cur

/-- `str::is_char_boundary(i)`: `0`, `len`, or the offset of a byte that is not `0b10xxxxxx`; `false` beyond `len` -/
def isCharBoundary (t : List Nat) (i : Nat) : Bool :=
  i == 0 || i == t.length || (match t[i]? with | some x => isStart x | none => false)

/-- `v[i]` on a `Vec`/slice -/
def idx {α : Type} (v : List α) (i : Nat) (what : String) : Acc α :=
  match v[i]? with
  | some x => .ok x
  | none => .panic ("index out of bounds: " ++ what)

/-- `&s[a..b]` on a `str` -/
def strSlice (t : List Nat) (a b : Nat) : Acc (List Nat) :=
  if a ≤ b ∧ b ≤ t.length ∧ isCharBoundary t a = true ∧ isCharBoundary t b = true then .ok (slice t a b)
  else .panic "str slice"

/-- `curr_byte_offsets`: `&mod_c2b[0..len - 1]` (`mod_c2b` always holds its sentinel after `build`) -/
def currByteOffsets (b : Buf) : List Nat := (c2b b.cur).dropLast

/-- `get_original_index(index)`: `debug_assert!(modified.is_char_boundary(index)); m2o[index]` -/
def getOriginalIndex (b : Buf) (i : Nat) : Acc Nat :=
  if isCharBoundary b.cur i then idx b.m2o i "m2o" else .panic "debug_assert: off char boundary"

/-- `to_curr_byte_idx(index)`: `mod_c2b[index]` -/
def toCurrByteIdx (b : Buf) (ci : Nat) : Acc Nat := idx (c2b b.cur) ci "mod_c2b"

/-- `to_orig_byte_idx(index)`: `m2o[mod_c2b[index]]` -/
def toOrigByteIdxA (b : Buf) (ci : Nat) : Acc Nat :=
  match toCurrByteIdx b ci with
  | .ok bi => idx b.m2o bi "m2o"
  | .panic w => .panic w

/-- `to_orig_char_idx(index)`: `m2o_2[to_orig_byte_idx(index)]` with `debug_assert_ne!(res, usize::MAX)` -/
def toOrigCharIdxA (b : Buf) (ci : Nat) : Acc Nat :=
  match toOrigByteIdxA b ci with
  | .ok ob =>
    match idx (origB2C b.orig) ob "m2o_2" with
    | .ok (some c) => .ok c
    | .ok none => .panic "debug_assert_ne: usize::MAX marker"
    | .panic w => .panic w
  | .panic w => .panic w

/-- `ch_idx(idx)`: `mod_b2c[idx]` -/
def chIdx (b : Buf) (i : Nat) : Acc Nat := idx (b2c b.cur) i "mod_b2c"

/-- `char_distance(cpt, offset)`: `let end = (cpt + offset).min(mod_chars.len()); end - cpt` - saturates at the end of
the text; `cpt` beyond the end is `attempt to subtract with overflow` (debug profile) -/
def charDistance (b : Buf) (cpt off : Nat) : Acc Nat :=
  let e := Nat.min (cpt + off) b.nch
  if cpt ≤ e then .ok (e - cpt) else .panic "attempt to subtract with overflow"

/-- `to_orig(range)`: `m2o[range.start]..m2o[range.end]` (no check of the range itself) -/
def toOrig (b : Buf) (s e : Nat) : Acc (Nat × Nat) :=
  match idx b.m2o s "m2o", idx b.m2o e "m2o" with
  | .ok x, .ok y => .ok (x, y)
  | .panic w, _ => .panic w
  | _, .panic w => .panic w

/-- `curr_slice(range)`: `&modified[range]` -/
def currSlice (b : Buf) (s e : Nat) : Acc (List Nat) := strSlice b.cur s e

/-- `orig_slice(range)`: both ends asserted to be character boundaries of `modified`, then `&original[to_orig(range)]` -/
def origSlice (b : Buf) (s e : Nat) : Acc (List Nat) :=
  if isCharBoundary b.cur s = true ∧ isCharBoundary b.cur e = true then
    match toOrig b s e with
    | .ok (x, y) => strSlice b.orig x y
    | .panic w => .panic w
  else .panic "debug_assert: off char boundary"

/-- `curr_slice_c(range)` (character indices): `&modified[mod_c2b[start]..mod_c2b[end]]` -/
def currSliceC (b : Buf) (s e : Nat) : Acc (List Nat) :=
  match toCurrByteIdx b s, toCurrByteIdx b e with
  | .ok x, .ok y => strSlice b.cur x y
  | .panic w, _ => .panic w
  | _, .panic w => .panic w

/-- `orig_slice_c(range)` (character indices): `&original[to_orig_byte_idx(start)..to_orig_byte_idx(end)]` -/
def origSliceC (b : Buf) (s e : Nat) : Acc (List Nat) :=
  match toOrigByteIdxA b s, toOrigByteIdxA b e with
  | .ok x, .ok y => strSlice b.orig x y
  | .panic w, _ => .panic w
  | _, .panic w => .panic w

/-! ## `Morpheme` accessors on a node of the result (`analysis/morpheme.rs`), both routes -/

/-- what one morpheme reports: `begin()`, `end()` (character route), `begin_c()`, `end_c()`, and the range
`surface()` slices (byte route through `orig_slice`) -/
structure MorphAcc where
  b : Nat
  e : Nat
  bc : Nat
  ec : Nat
  surf : List Nat
deriving Repr, DecidableEq

/-- `Morpheme::{begin, end, begin_c, end_c, surface}` of a node with character range `n.bc..n.ec` and byte range
`n.bb..n.eb` of the rewritten text -/
def morpheme (b : Buf) (n : NodeRange) : Acc MorphAcc :=
  match toOrigByteIdxA b n.bc, toOrigByteIdxA b n.ec, toOrigCharIdxA b n.bc, toOrigCharIdxA b n.ec, origSlice b n.bb n.eb with
  | .ok x, .ok y, .ok cx, .ok cy, .ok s => .ok ⟨x, y, cx, cy, s⟩
  | .panic w, _, _, _, _ => .panic w
  | _, .panic w, _, _, _ => .panic w
  | _, _, .panic w, _, _ => .panic w
  | _, _, _, .panic w, _ => .panic w
  | _, _, _, _, .panic w => .panic w

/-- Python `Morpheme.begin()`, `.end()`, `len(m)` (`python/src/morpheme.rs`): `begin_c()`, `end_c()`, `end_c() - begin_c()`
(`usize` subtraction: inverted offsets panic in the debug profile) -/
def pyOffsets (b : Buf) (n : NodeRange) : Acc (Nat × Nat × Nat) :=
  match toOrigCharIdxA b n.bc, toOrigCharIdxA b n.ec with
  | .ok x, .ok y => if x ≤ y then .ok (x, y, y - x) else .panic "attempt to subtract with overflow"
  | .panic w, _ => .panic w
  | _, .panic w => .panic w

/-! ## driver -/

def showAcc (f : α → String) : Acc α → String
  | .ok a => f a
  | .panic _ => "P"

def showAccs (f : α → String) (l : List (Acc α)) : String := Wire.joinWith "," (l.map (showAcc f))

def parsePair (s : List Char) : Option (Nat × Nat) :=
  match Wire.natTuple? s with
  | some [a, b] => some (a, b)
  | _ => none

def parsePairs (s : List Char) : Option (List (Nat × Nat)) :=
  Wire.allSome ((Wire.items ';' s).map parsePair)

def showHexOrE (l : List Nat) : String := if l.isEmpty then "e" else showHex l

/-- `C08 acc orig=<hex> batches=<...> commit=<v> rb=<s:e;...> rc=<s:e;...> cd=<cpt:off;...>`
answer: `err:TooLong` or
`ok mid=<per state before the last batch: current()-hex/get_original_index at 0..len+1> goi=<get_original_index at every byte index 0..len+1> chi=<ch_idx at 0..len+2> tcb=<to_curr_byte_idx at 0..nc+2>
tob=<to_orig_byte_idx> toc=<to_orig_char_idx> cbo=<curr_byte_offsets> cd=<char_distance per query>
to=<to_orig per rb> os=<orig_slice per rb> cs=<curr_slice per rb> osc=<orig_slice_c per rc> csc=<curr_slice_c per rc>
py=<begin:end:len per rc>`;  `P` = panic -/
def handleAcc (toks : List (List Char)) : String :=
  match Wire.kv? toks "orig", Wire.kv? toks "batches", Wire.kv? toks "rb", Wire.kv? toks "rc", Wire.kv? toks "cd" with
  | some o, some bt, some rb, some rc, some cd =>
    match Wire.hexBytes? o, parseBatches bt, parsePairs rb, parsePairs rc, parsePairs cd with
    | some orig, some batches, some rbs, some rcs, some cds =>
      match startBuild orig with
      | none => "err:TooLong"
      | some l0 =>
        match commitAllV (lenVOf toks) l0 batches with
        | none => "err:TooLong"
        | some l =>
          let b : Buf := ⟨orig, l⟩
          let n := b.cur.length
          let nc := b.nch
          let sn := fun (x : Nat) => toString x
          -- the buffer BETWEEN the batches (state RW, what a plugin sees): `current()` and `get_original_index` everywhere
          let mids := (List.range batches.length).map (fun k =>
            match commitAllV (lenVOf toks) l0 (batches.take k) with
            | none => "x"
            | some lk =>
              let bk : Buf := ⟨orig, lk⟩
              showHexOrE bk.cur ++ "/" ++ showAccs sn ((List.range (bk.cur.length + 2)).map (getOriginalIndex bk)))
          "ok mid=" ++ Wire.joinWith ";" mids ++ " goi=" ++ showAccs sn ((List.range (n + 2)).map (getOriginalIndex b))
            ++ " chi=" ++ showAccs sn ((List.range (n + 3)).map (chIdx b))
            ++ " tcb=" ++ showAccs sn ((List.range (nc + 3)).map (toCurrByteIdx b))
            ++ " tob=" ++ showAccs sn ((List.range (nc + 3)).map (toOrigByteIdxA b))
            ++ " toc=" ++ showAccs sn ((List.range (nc + 3)).map (toOrigCharIdxA b))
            ++ " cbo=" ++ Wire.showNats (currByteOffsets b)
            ++ " cd=" ++ showAccs sn (cds.map (fun q => charDistance b q.1 q.2))
            ++ " to=" ++ showAccs (fun (p : Nat × Nat) => toString p.1 ++ ":" ++ toString p.2) (rbs.map (fun q => toOrig b q.1 q.2))
            ++ " os=" ++ showAccs showHexOrE (rbs.map (fun q => origSlice b q.1 q.2))
            ++ " cs=" ++ showAccs showHexOrE (rbs.map (fun q => currSlice b q.1 q.2))
            ++ " osc=" ++ showAccs showHexOrE (rcs.map (fun q => origSliceC b q.1 q.2))
            ++ " csc=" ++ showAccs showHexOrE (rcs.map (fun q => currSliceC b q.1 q.2))
            ++ " py=" ++ showAccs (fun (p : Nat × Nat × Nat) => toString p.1 ++ ":" ++ toString p.2.1 ++ ":" ++ toString p.2.2)
                  (rcs.map (fun q => pyOffsets b ⟨q.1, q.2, 0, 0⟩))
    | _, _, _, _, _ => "bad-op"
  | _, _, _, _, _ => "bad-op"

/-- `C08 morphc orig=<hex> cur=<hex> m2o=<list> nodes=<bc:ec:bb:eb;...>`  (whole analyses)
answer: `ok ms=<begin:end:begin_c:end_c:len:surface-hex per morpheme>` - every offset accessor of `Morpheme` (character route),
Python's `len(m)`, and `surface()` (byte route through `orig_slice`) recomputed from the dumped tables; `P` = an accessor panics -/
def handleMorphA (toks : List (List Char)) : String :=
  match Wire.kv? toks "orig", Wire.kv? toks "cur", Wire.kv? toks "m2o", Wire.kv? toks "nodes" with
  | some o, some c, some m, some ns =>
    match Wire.hexBytes? o, Wire.hexBytes? c, Wire.natList? m, Wire.allSome ((Wire.items ';' ns).map parseNode) with
    | some orig, some cur, some m2o, some nodes =>
      let b : Buf := ⟨orig, pairUp cur m2o⟩
      let one := fun (n : NodeRange) =>
        match morpheme b n, pyOffsets b n with
        | .ok a, .ok (_, _, len) =>
          toString a.b ++ ":" ++ toString a.e ++ ":" ++ toString a.bc ++ ":" ++ toString a.ec ++ ":" ++ toString len ++ ":" ++ showHexOrE a.surf
        | _, _ => "P"
      "ok ms=" ++ Wire.joinWith "," (nodes.map one)
    | _, _, _, _ => "bad-op"
  | _, _, _, _ => "bad-op"

/-- `C08 pyoff orig=<hex> cur=<hex> m2o=<list> nodes=<bc:ec:bb:eb;...>`  (the Python extension's `Morpheme.begin()/end()/len()`)
answer: `ok py=<begin:end:len per morpheme>`; `P` = the call panics (PanicException) -/
def handlePyOff (toks : List (List Char)) : String :=
  match Wire.kv? toks "orig", Wire.kv? toks "cur", Wire.kv? toks "m2o", Wire.kv? toks "nodes" with
  | some o, some c, some m, some ns =>
    match Wire.hexBytes? o, Wire.hexBytes? c, Wire.natList? m, Wire.allSome ((Wire.items ';' ns).map parseNode) with
    | some orig, some cur, some m2o, some nodes =>
      let b : Buf := ⟨orig, pairUp cur m2o⟩
      "ok py=" ++ showAccs (fun (p : Nat × Nat × Nat) => toString p.1 ++ ":" ++ toString p.2.1 ++ ":" ++ toString p.2.2)
        (nodes.map (pyOffsets b))
    | _, _, _, _ => "bad-op"
  | _, _, _, _ => "bad-op"

end EditAcc
