import Sudachi.Model.Lattice
/-!
# The RECYCLED lattice of `analysis/lattice.rs` (property C02, second round)

`Model/Lattice.lean` builds the lattice of ONE text from empty rows.  The real `Lattice` lives as long
as its tokenizer: three parallel row vectors (`ends : Vec<Vec<VNode>>`, `ends_full : Vec<Vec<Node>>`,
`indices : Vec<Vec<NodeIdx>>`) that never shrink, `size` bounding the valid rows, `eos`.  This file
transcribes that state and the operations on it as they are written:

* `resetVec` = `Lattice::reset_vec` (clear EVERY allocated row, then push empty rows up to `target`),
  `reset` = `Lattice::reset` (three `reset_vec`s, `eos = None`, `size = length + 1`, `connect_bos`);
* `connectNodeS` = `connect_node` (reads `ends[begin]`, returns `(prev_idx, min_cost)`; `NodeIdx::empty()`
  and `i32::MAX` when nothing is connected), `insertS` = `insert` (three pushes at `[end]`),
  `connectEosS` = `connect_eos`;
* `fillTopPath` = `fill_top_path` followed by the `reverse()` of `resolve_best_path`: it FOLLOWS THE STORED
  `indices`, nothing is recomputed; `nodeS` = `Lattice::node`; `resolvePath` = the `(inner, cost)` pairs that
  `resolve_best_path` turns into `ResultNode`s (`cost` is what `Morpheme::total_cost` reports in mode C).

Indexing a vector out of range is a panic in the Rust code: every such operation returns `Option`, `none` =
panic (for `fillTopPath` also: fuel exhausted = the `loop` did not terminate).  Nothing is totalised.
Costs are unbounded `Int`, `i32::MAX` is `none` (as in `Model/Lattice.lean`); the `as u16` casts of
`NodeIdx::new(begin as u16, i as u16)` are the identity below 65536 and are not modelled (trusted base of C02).

`resetVecK k` clears only the first `k` rows: `k = data.length` is the code, `k = min used target` is the
seeded change C02b (`seeded/C02b/patch.diff`), used by `C02.partial_clear_counterexample` only.
-/
namespace Vit

/-- `VNode { total_cost, right_id }`; `t = none` is `i32::MAX` (not connected to BOS) -/
structure VN where
  r : Nat
  t : Option Int
deriving DecidableEq, Repr

/-- `NodeIdx { end, index }` -/
abbrev Idx := Nat × Nat

/-- `NodeIdx::empty()`: `(u16::MAX, u32::MAX)` (the row index is `u32` since 9fb3dd8) -/
def idxEmpty : Idx := (65535, 4294967295)

/-- `struct Lattice` -/
structure Lat where
  ends : List (List VN)
  full : List (List Node)
  idx : List (List Idx)
  eos : Option (Idx × Int)
  size : Nat
deriving Repr

/-- `Lattice::default()` -/
def Lat.empty : Lat := ⟨[], [], [], none, 0⟩

/-- `reset_vec` clearing only the first `k` rows (`v.clear()` for `data.iter_mut().take(k)`), then
`if cur_len <= target { for _ in cur_len..target { data.push(Vec::with_capacity(16)) } }` -/
def resetVecK {α : Type} (k : Nat) (data : List (List α)) (target : Nat) : List (List α) :=
  let cleared := (data.take k).map (fun _ => ([] : List α)) ++ data.drop k
  if cleared.length ≤ target then cleared ++ List.replicate (target - cleared.length) [] else cleared

/-- `Lattice::reset_vec`: `for v in data.iter_mut() { v.clear() }` — every allocated row -/
def resetVec {α : Type} (data : List (List α)) (target : Nat) : List (List α) :=
  resetVecK data.length data target

/-- `data[k].push(a)`; `none` = index out of bounds -/
def pushAt {α : Type} : List (List α) → Nat → α → Option (List (List α))
  | [], _, _ => none
  | row :: rest, 0, a => some ((row ++ [a]) :: rest)
  | row :: rest, k + 1, a => (pushAt rest k a).map (row :: ·)

/-- `connect_bos`: `self.ends[0].push(VNode::new(0, 0))` -/
def connectBos (s : Lat) : Option Lat :=
  (pushAt s.ends 0 ⟨0, some 0⟩).map (fun e => { s with ends := e })

/-- `Lattice::reset(length)` -/
def reset (s : Lat) (length : Nat) : Option Lat :=
  connectBos { ends := resetVec s.ends (length + 1), full := resetVec s.full (length + 1),
               idx := resetVec s.idx (length + 1), eos := none, size := length + 1 }

/-- the seeded variant C02b: `let used = self.size;` … `take(used.min(target))` -/
def resetSeed (s : Lat) (length : Nat) : Option Lat :=
  let k := min s.size (length + 1)
  connectBos { ends := resetVecK k s.ends (length + 1), full := resetVecK k s.full (length + 1),
               idx := resetVecK k s.idx (length + 1), eos := none, size := length + 1 }

variable (conn : Nat → Nat → Int)

/-- the loop of `connect_node` over `self.ends[begin].iter().enumerate()`; state = `(prev_idx, min_cost)` -/
def connGoS (n : Node) : List VN → Nat → Idx × Option Int → Idx × Option Int
  | [], _, st => st
  | l :: rest, i, st =>
    match l.t with
    | none => connGoS n rest (i + 1) st                       -- `!is_connected_to_bos()` → continue
    | some t =>
      let nc := t + conn l.r n.l + n.c
      match st.2 with
      | none => connGoS n rest (i + 1) ((n.b, i), some nc)    -- `new_cost < i32::MAX`
      | some m => if nc < m then connGoS n rest (i + 1) ((n.b, i), some nc) else connGoS n rest (i + 1) st

/-- `Lattice::connect_node`; `none` = `self.ends[begin]` out of bounds -/
def connectNodeS (s : Lat) (n : Node) : Option (Idx × Option Int) :=
  match s.ends[n.b]? with
  | none => none
  | some row => some (connGoS conn n row 0 (idxEmpty, none))

/-- `Lattice::insert` -/
def insertS (s : Lat) (n : Node) : Option Lat :=
  match connectNodeS conn s n with
  | none => none
  | some (p, c) =>
    match pushAt s.ends n.e ⟨n.r, c⟩ with
    | none => none
    | some e' =>
      match pushAt s.idx n.e p with
      | none => none
      | some i' =>
        match pushAt s.full n.e n with
        | none => none
        | some f' => some { s with ends := e', idx := i', full := f' }

/-- all `insert`s of `build_lattice`, in order -/
def buildS : List Node → Lat → Option Lat
  | [], s => some s
  | n :: ns, s =>
    match insertS conn s n with
    | none => none
    | some s' => buildS ns s'

/-- `Lattice::connect_eos`: `none` = panic (`size - 1` underflow, index), `(s, false)` = `Err(EosBosDisconnect)`
(state untouched), `(s', true)` = `Ok(())` with `eos` set -/
def connectEosS (s : Lat) : Option (Lat × Bool) :=
  if s.size = 0 then none else
  match connectNodeS conn s (eosNode (s.size - 1)) with
  | none => none
  | some (_, none) => some (s, false)
  | some (p, some c) => some ({ s with eos := some (p, c) }, true)

/-- the `loop` of `fill_top_path`: `prev_idx = indices[idx.end][idx.index]`; `acc` is already in text order -/
def walkS (s : Lat) : Nat → Idx → List Idx → Option (List Idx)
  | 0, _, _ => none
  | fuel + 1, id, acc =>
    match s.idx[id.1]? with
    | none => none
    | some row =>
      match row[id.2]? with
      | none => none
      | some prev => if prev.1 ≠ 0 then walkS s fuel prev (prev :: acc) else some acc

/-- `fill_top_path` + `reverse()`: the stored back-pointers from `eos`, in text order; fuel `size` -/
def fillTopPath (s : Lat) : Option (List Idx) :=
  match s.eos with
  | none => some []
  | some (id, _) => walkS s s.size id [id]

/-- `Lattice::node(id)`: `(&ends_full[e][i], ends[e][i].total_cost)` — the SAME index in both vectors -/
def nodeS (s : Lat) (id : Idx) : Option (Node × Option Int) :=
  match s.full[id.1]?, s.ends[id.1]? with
  | some fr, some er =>
    match fr[id.2]?, er[id.2]? with
    | some n, some v => some (n, v.t)
    | _, _ => none
  | _, _ => none

def nodesS (s : Lat) : List Idx → Option (List (Node × Option Int))
  | [] => some []
  | id :: rest =>
    match nodeS s id with
    | none => none
    | some x => (nodesS s rest).map (x :: ·)

/-- `resolve_best_path`: the `(inner, cost)` of every `ResultNode`, in text order -/
def resolvePath (s : Lat) : Option (List (Node × Option Int)) :=
  match fillTopPath s with
  | none => none
  | some ids => nodesS s ids

/-- `reset(length)`, all inserts, `connect_eos` -/
def analyse (s : Lat) (len : Nat) (F : List Node) : Option (Lat × Bool) :=
  match reset s len with
  | none => none
  | some s1 =>
    match buildS conn F s1 with
    | none => none
    | some s2 => connectEosS conn s2

/-! ## driver -/

def parseVN (s : List Char) : Option VN :=
  match Wire.splitOn ':' s with
  | [r, t] =>
    match Wire.nat? r with
    | none => none
    | some r' => if t = ['x'] then some ⟨r', none⟩ else (Wire.int? t).map (fun v => ⟨r', some v⟩)
  | _ => none

def parseIdx (s : List Char) : Option Idx :=
  match Wire.natTuple? s with
  | some [a, b] => some (a, b)
  | _ => none

/-- rows separated by `/`, entries by `;`; `-` = no row at all -/
def parseRows {α : Type} (f : List Char → Option α) (s : List Char) : Option (List (List α)) :=
  if s = ['-'] then some [] else
  Wire.allSome ((Wire.splitOn '/' s).map (fun r => Wire.allSome ((Wire.items ';' r).map f)))

def parseEos (s : List Char) : Option (Option (Idx × Int)) :=
  if s = ['x'] then some none else
  match Wire.intTuple? s with
  | some [e, i, c] => some (some ((e.toNat, i.toNat), c))
  | _ => none

def parseLat (toks : List (List Char)) : Option Lat :=
  match Wire.kv? toks "pe", Wire.kv? toks "pf", Wire.kv? toks "pi", Wire.kv? toks "ps", Wire.kv? toks "po" with
  | some pe, some pf, some pi, some ps, some po =>
    match parseRows parseVN pe, parseRows parseNode pf, parseRows parseIdx pi, Wire.nat? ps, parseEos po with
    | some e, some f, some i, some sz, some eo => some ⟨e, f, i, eo, sz⟩
    | _, _, _, _, _ => none
  | _, _, _, _, _ => none

def showIdx (p : Idx) : String := toString p.1 ++ ":" ++ toString p.2

/-- the valid row `e` as the verif hook `Lattice::verif_rows` reports it: `ends_full[e][i]`,
`ends[e][i + off].total_cost` (`off = 1` in row 0: the BOS entry), `indices[e][i]`; `none` = the hook would
index out of bounds -/
def showRow (s : Lat) (e : Nat) : Option String :=
  match s.full[e]?, s.ends[e]?, s.idx[e]? with
  | some fr, some er, some ir =>
    let off := if e = 0 then 1 else 0
    let cells := (List.range fr.length).map (fun i =>
      match fr[i]?, er[i + off]?, ir[i]? with
      | some n, some v, some p => some (showNode n ++ ":" ++ showOptInt v.t ++ ":" ++ showIdx p)
      | _, _, _ => none)
    (Wire.allSome cells).map (Wire.joinWith ";")
  | _, _, _ => none

/-- `Lattice::verif_row_lens` over ALL allocated rows (also those past `size`) -/
def showLens (s : Lat) : Option String :=
  if s.ends.length = s.full.length ∧ s.full.length = s.idx.length then
    some (Wire.joinWith "," ((List.range s.ends.length).map (fun e =>
      match s.ends[e]?, s.full[e]?, s.idx[e]? with
      | some a, some b, some c => toString a.length ++ ":" ++ toString b.length ++ ":" ++ toString c.length
      | _, _, _ => "?")))
  else none

/-- `C02 lattice full=<0|1> ok=<0|1> len=<chars> conn=<num_left>:<num_right>:<cells> nodes=<b:e:l:r:c;…>
ps=<size> po=<eos e:i:c|x> pe=<ends rows r:t;…/…> pf=<ends_full rows b:e:l:r:c;…/…> pi=<indices rows e:i;…/…>`:
`p*` is the complete state of the real lattice BEFORE this text (all allocated rows; `-` = a new tokenizer,
no rows), `nodes` the candidates of this text in insertion-compatible order.  The driver executes
`reset(len)` on that state, every `insert`, and (when `full=1`) `connect_eos`, `fill_top_path`, `node`.
Answer: `ok size=<n> lens=<|ends[e]|:|ends_full[e]|:|indices[e]|,… all allocated rows>
rows=<valid rows: b:e:l:r:c:total:pe:pi;…/…> [eos=<e:i:cost|x> path=<cost recomputed along the stored
back-pointer path|x> nodes=<b:e:l:r:c:stored total;…|x> mc=<the `cost` of every `ResultNode` of `resolve_best_path`,
compared with `Morpheme::total_cost` of the real morpheme list; x when the tokenizer returned an error (`ok=0`)>]`;
`PANIC` where the Rust code would index out of bounds. -/
def handleRec (toks : List (List Char)) : String :=
  match Wire.kv? toks "len", Wire.kv? toks "conn", Wire.kv? toks "nodes", parseLat toks with
  | some ln, some cn, some ns, some prev =>
    match Wire.nat? ln, Wire.splitOn ':' cn, Wire.allSome ((Wire.items ';' ns).map parseNode) with
    | some len, [nl, _nr, cells], some nodes =>
      match Wire.nat? nl, Wire.intList? cells with
      | some numLeft, some cs =>
        let arr := cs.toArray
        let conn : Nat → Nat → Int := fun a b => arr.getD (b * numLeft + a) 0
        let full := !(Wire.kv? toks "full" == some ['0'])
        match reset prev len with
        | none => "PANIC"
        | some s1 =>
          match buildS conn nodes s1 with
          | none => "PANIC"
          | some s2 =>
            -- `full=0`: the builder returned before `connect_eos` (or `connect_eos` failed): `eos` stays `None`
            let fin : Option (Lat × Bool) := if full then connectEosS conn s2 else some (s2, false)
            match fin with
            | none => "PANIC"
            | some (s3, _) =>
              match showLens s3, Wire.allSome ((List.range s3.size).map (showRow s3)) with
              | some lens, some rows =>
                let head := "ok size=" ++ toString s3.size ++ " lens=" ++ lens ++ " rows=" ++ Wire.joinWith "/" rows
                if !full then head else
                match s3.eos with
                | none => head ++ " eos=x path=x nodes=x mc=x"
                | some (id, c) =>
                  match resolvePath s3 with
                  | none => "PANIC"
                  | some p =>
                    head ++ " eos=" ++ showIdx id ++ ":" ++ toString c ++
                      " path=" ++ toString (chainCost conn bos (p.map (·.1))) ++
                      " nodes=" ++ Wire.joinWith ";" (p.map (fun x => showNode x.1 ++ ":" ++ showOptInt x.2)) ++
                      " mc=" ++ (if Wire.kv? toks "ok" == some ['0'] then "x" else Wire.joinWith "," (p.map (fun x => showOptInt x.2)))
              | _, _ => "PANIC"
      | _, _ => "bad-op"
    | _, _, _ => "bad-op"
  | _, _, _, _ => "bad-op"

end Vit
