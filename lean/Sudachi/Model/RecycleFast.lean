import Sudachi.Model.Recycle
/-!
# The EXECUTED representation of the recycled lattice (C10): `Array (Array E)` rows

`Recycle.Lattice` keeps the three row vectors as `List (List E)`; `pushRow`/`rowAt` walk to the addressed row, so
replaying one analysis of `n` characters costs `O(n²)` list cells (75 s for one 16 383-character text).  The
theorems of C10 speak about that list model.  The driver executes the functions of this file instead: the rows
are arrays (`rows[k].push(x)` is `Array.modify`, `rows[k]` an index), everything else of the tokenizer state is
the record of `Model/Recycle.lean` itself.  `Proofs/RecycleFast.lean` proves the executed functions EQUAL to the
list model through the abstraction `LatA.toL` (`C10.executed_step_eq_model`, `executed_history_eq_model`), the
way C02's `rowAt_buildL` ties its vector-of-rows lattice to the functional one.

Only `build_lattice` (reset, position loop, `connect_eos`) needs an array transcription: no other operation
writes the lattice; `resolve_best_path` reads the rows below `size` once per analysis (one conversion, linear).
-/
namespace Recycle

abbrev Rows (E : Type) := Array (Array E)

/-- abstraction: the list-of-lists the theorems speak about -/
def Rows.toL {E : Type} (r : Rows E) : List (List E) := r.toList.map Array.toList

/-- `reset_vec` on arrays: every existing row cleared, rows added up to `target`, never dropped -/
def resetVecA {E : Type} (rows : Rows E) (target : Nat) : Rows E :=
  let cleared := rows.map (fun _ => (#[] : Array E))
  if cleared.size ≤ target then cleared ++ Array.replicate (target - cleared.size) #[] else cleared

/-- `rows[k].push(x)` (out of range: no-op, as `pushRow`) -/
def pushRowA {E : Type} (rows : Rows E) (k : Nat) (x : E) : Rows E := rows.modify k (fun r => r.push x)

/-- `rows[k]` as the list a payload reads (out of range: empty, as `rowAt`) -/
def rowAtA {E : Type} (rows : Rows E) (k : Nat) : List E :=
  match rows[k]? with
  | some r => r.toList
  | none => []

/-- is `rows[k]` empty? (`has_previous_node` without building the list) -/
def rowEmptyA {E : Type} (rows : Rows E) (k : Nat) : Bool :=
  match rows[k]? with
  | some r => r.isEmpty
  | none => true

structure LatA (E : Type) where
  ends : Rows E
  endsFull : Rows E
  indices : Rows E
  eos : Option E
  size : Nat

def LatA.empty {E : Type} : LatA E := ⟨#[], #[], #[], none, 0⟩

def LatA.toL {E : Type} (l : LatA E) : Lattice E :=
  ⟨l.ends.toL, l.endsFull.toL, l.indices.toL, l.eos, l.size⟩

/-- `Lattice::reset` + `connect_bos` -/
def LatA.reset {E : Type} (P : Payload E) (l : LatA E) (length : Nat) : LatA E :=
  { ends := pushRowA (resetVecA l.ends (length + 1)) 0 P.bos,
    endsFull := resetVecA l.endsFull (length + 1),
    indices := resetVecA l.indices (length + 1),
    eos := none, size := length + 1 }

/-- `Lattice::insert` -/
def LatA.insert {E : Type} (P : Payload E) (l : LatA E) (begin : Nat) (c : Nat × E) : LatA E :=
  let r := P.connect (rowAtA l.ends begin) c.2
  { l with ends := pushRowA l.ends c.1 r.2, indices := pushRowA l.indices c.1 r.1,
           endsFull := pushRowA l.endsFull c.1 c.2 }

/-- one iteration of the position loop of `build_lattice` -/
def buildStepA {E : Type} (P : Payload E) (inp : Input E) (st : List E × LatA E) (off : Nat) :
    (List E × LatA E) × Outcome :=
  if rowEmptyA st.2.ends off then (st, .ok) else
  let cs := P.cands inp.view off
  let oov := ([] : List E) ++ cs.map (·.2)
  let lat := cs.foldl (fun l c => LatA.insert P l off c) st.2
  if cs.isEmpty then ((oov, lat), .err .disconnect) else ((oov, lat), .ok)

def buildLoopA {E : Type} (P : Payload E) (inp : Input E) :
    List Nat → List E × LatA E → (List E × LatA E) × Outcome
  | [], st => (st, .ok)
  | off :: rest, st =>
    match buildStepA P inp st off with
    | (st', .ok) => buildLoopA P inp rest st'
    | r => r

/-- `connect_eos` -/
def LatA.connectEos {E : Type} (P : Payload E) (l : LatA E) : LatA E × Outcome :=
  match P.eosOf (rowAtA l.ends (l.size - 1)) with
  | none => (l, .err .disconnect)
  | some e => ({ l with eos := some e }, .ok)

/-- `build_lattice`; the tokenizer record's own `lattice` field is not used by the executed path -/
def Tok.buildLatticeA {E : Type} (P : Payload E) (t : Tok E) (la : LatA E) : (Tok E × LatA E) × Outcome :=
  let lat := LatA.reset P la t.input.modChars.length
  match buildLoopA P t.input (List.range (t.input.modC2b.length - 1)) (t.oov, lat) with
  | ((oov, lat), .ok) =>
    let r := LatA.connectEos P lat
    (({ t with oov := oov }, r.1), r.2)
  | ((oov, lat), o) => (({ t with oov := oov }, lat), o)

/-- `do_tokenize` -/
def Tok.doTokenizeA {E : Type} (P : Payload E) (t : Tok E) (la : LatA E) : (Tok E × LatA E) × Outcome :=
  match Input.prepare P t.input with
  | (i, .ok) =>
    let t := { t with input := i }
    if t.input.modified.isEmpty then ((t, la), .ok) else
    match Tok.buildLatticeA P t la with
    | ((t, la), .ok) =>
      -- `resolve_best_path` and the rest read the lattice, they do not write it
      let r := Tok.resolveAndRewrite P { t with lattice := la.toL }
      (({ r.1 with lattice := t.lattice }, la), r.2)
    | r => r
  | (i, o) => (({ t with input := i }, la), o)

/-- the executed state: the world of `Model/Recycle.lean` whose `tok.lattice` field is a placeholder, and the
lattice as arrays -/
structure XWorld (E : Type) where
  w : World E
  lat : LatA E

/-- abstraction to the world the theorems speak about -/
def XWorld.abs {E : Type} (x : XWorld E) : World E :=
  { x.w with tok := { x.w.tok with lattice := x.lat.toL } }

def XWorld.init {E : Type} (m : Mode) : XWorld E := ⟨World.init m, LatA.empty⟩

/-- one API call on the executed state -/
def XWorld.step {E : Type} (v : ResetVariant) (P : Payload E) (x : XWorld E) (op : Op E) : XWorld E × Outcome :=
  match op with
  | .analyse text =>
    let r := Tok.doTokenizeA P (x.w.tok.resetWith v text) x.lat
    (⟨{ x.w with tok := r.1.1 }, r.1.2⟩, r.2)
  | op =>
    -- no other operation reads or writes the lattice
    let r := x.w.step v P op
    (⟨r.1, x.lat⟩, r.2)

def XWorld.run {E : Type} (v : ResetVariant) (x : XWorld E) : List (Payload E × Op E) → XWorld E
  | [] => x
  | (P, op) :: rest => XWorld.run v (x.step v P op).1 rest

end Recycle
