import Sudachi.Model.Params
/-!
# C20, second layer: the plugin settings as `serde_json` hands them over

`Model/Params.lean` starts from typed settings (`i64` ids and costs).  This file puts in front of it
what the code does before: `serde_json::from_value::<PluginSettings>(…)` of EVERY bundled plugin,
i.e. the typing and the range of every parameter a configuration can carry:

* OOV providers: `oovPOS`/`pos` (`Vec<String>`), `leftId`/`rightId`/`cost` (`i64`), `userPOS`
  (`allow`/`forbid`, default forbid), RegexOovProvider `maxLength` (`usize`, default 32) and
  `boundaries` (`strict`/`relaxed`, default strict);
* input text: IgnoreYomigana `leftBrackets`/`rightBrackets` (`Vec<char>`), `maxYomiganaLength`
  (`usize`, becomes the bound of a counted repetition of a regex), ProlongedSoundMark
  `prolongedSoundMarks` (`Vec<char>`, becomes a character class), `replacementSymbol`
  (`Option<String>`);
* path rewrite: JoinKatakanaOov `oovPOS` (`Vec<String>`, looked up, never registered), `minLength`
  (`usize`); JoinNumeric `enableNormalize` (`Option<bool>`) and its fixed POS;
* the order of `Plugins::load` (connect_cost, input_text, oov, path_rewrite), `NoOOVPluginProvided`
  after all four, edits, user dictionaries;
* user dictionaries: the connection ids of their words (`dic/dictionary.rs: merge_user_dictionary`
  reads them but checks nothing — variant `udic` is the repair);
* the one place where an accepted numeric parameter is used in fixed-width arithmetic afterwards:
  `RegexOovProvider::provide_oov` computes `offset + self.max_length` (variant `sat` is the repair
  `saturating_add`).
-/
namespace Params
open Outcome

/-- a value of a plugin's settings object as `serde_json` sees it -/
inductive JF
  | absent                          -- the key is not there
  | null
  | int (x : Int)                   -- integer literal, any size
  | float                           -- a number with fraction or exponent
  | bool
  | str (s : List Char)
  | strs (xs : List (List Char))    -- array of strings
  | other                           -- anything else (array with a non-string member, object)
deriving Repr, DecidableEq

def U64MAX : Int := 18446744073709551615
def I64MAX : Int := 9223372036854775807
def I64MIN : Int := -9223372036854775808

/-- `serde_json` stores an integer literal as `u64` / `i64` when it fits and as `f64` otherwise;
an `i64` field accepts the first two when they fit `i64` -/
def deI64 : JF → Option Int
  | .int x => if I64MIN ≤ x ∧ x ≤ I64MAX then some x else none
  | _ => none

/-- a `usize` field (64-bit target) -/
def deUsize : JF → Option Nat
  | .int x => if 0 ≤ x ∧ x ≤ U64MAX then some x.toNat else none
  | _ => none

/-- `#[serde(default = …)] usize` -/
def deUsizeD (d : Nat) : JF → Option Nat
  | .absent => some d
  | j => deUsize j

/-- `#[serde(default)] userPOS: UserPosMode` (`rename_all = "lowercase"`) -/
def deMode : JF → Option Mode
  | .absent => some .forbid
  | .str s => if s == "allow".toList then some .allow else if s == "forbid".toList then some .forbid else none
  | _ => none

/-- `#[serde(default)] boundaries: BoundaryMode`; `true` = relaxed -/
def deBoundary : JF → Option Bool
  | .absent => some false
  | .str s => if s == "strict".toList then some false else if s == "relaxed".toList then some true else none
  | _ => none

/-- `Vec<String>` (required) -/
def deStrs : JF → Option (List (List Char))
  | .strs xs => some xs
  | _ => none

/-- number of `char`s of a string given as UTF-8 bytes (one `Char` per byte on the wire): bytes that
are not continuation bytes -/
def charCount (s : List Char) : Nat := (s.filter (fun c => c.toNat / 64 != 2)).length

/-- `Vec<char>` (required): every member a string of exactly one character -/
def deChars : JF → Option (List (List Char))
  | .strs xs => if xs.all (fun s => charCount s == 1) then some xs else none
  | _ => none

/-- `Option<bool>` / `Option<String>`: absent and null are `None` -/
def deOptBool : JF → Bool
  | .absent => true | .null => true | .bool => true | _ => false
def deOptStr : JF → Bool
  | .absent => true | .null => true | .str _ => true | _ => false

/-! ## OOV providers -/

inductive ROov
  | simple (pos l r c mode : JF)
  /-- `rx` = the `regex` setting (`String`, required), `dbgf` = `debug` (`#[serde(default)] bool`),
  `rxOk` = the verdict of the regex crate on `"^" + regex` (a parameter: the harness asks the crate) -/
  | regex (pos l r c mode maxLen bnd rx dbgf : JF) (rxOk : Bool)
  | mecab (unk : List (List Char)) (mode : JF)
deriving Repr

/-- settings of the regex provider that `Params.Prov` does not carry -/
structure RxExtra where
  maxLen : Nat
  relaxed : Bool
  /-- the pattern compiles (`RegexBuilder::new(..).build()` is the LAST step of `set_up`) -/
  rxOk : Bool := true
deriving Repr, DecidableEq

def noExtra : RxExtra := ⟨0, false, true⟩

/-- `#[serde(default)] debug: bool` -/
def deBoolD : JF → Bool
  | .absent => true | .bool => true | _ => false

/-- `regex: String` (required) -/
def deStr : JF → Bool
  | .str _ => true | _ => false

/-- `serde_json::from_value::<PluginSettings>` of the three providers -/
def deserOov : ROov → Option (ProvCfg × RxExtra)
  | .simple pos l r c mode =>
    match deStrs pos, deI64 l, deI64 r, deI64 c, deMode mode with
    | some pos, some l, some r, some c, some mode => some (.simple pos l r c mode, noExtra)
    | _, _, _, _, _ => none
  | .regex pos l r c mode maxLen bnd rx dbgf rxOk =>
    if deStr rx && deBoolD dbgf then
      match deStrs pos, deI64 l, deI64 r, deI64 c, deMode mode, deUsizeD 32 maxLen, deBoundary bnd with
      | some pos, some l, some r, some c, some mode, some ml, some b => some (.regex pos l r c mode, ⟨ml, b, rxOk⟩)
      | _, _, _, _, _, _, _ => none
    else none
  | .mecab unk mode =>
    match deMode mode with
    | some mode => some (.mecab unk mode, noExtra)
    | none => none

/-- `set_up` of one provider: deserialise, then the typed checks of `Params.setUpProv`; the regex
provider compiles its pattern after everything else (ids, cost, POS — a new POS is already registered
when the pattern turns out to be invalid, but the load fails as a whole) -/
def setUpROov (v : Variant) (cdef : List (List Char)) (g : Grammar) (r : ROov) : Outcome (Grammar × (Prov × RxExtra)) :=
  match deserOov r with
  | none => err .serde
  | some (cfg, x) => (setUpProv v cdef g cfg).bind (fun gp => if x.rxOk then ok (gp.1, (gp.2, x)) else err .config)

def setUpROovs (v : Variant) (cdef : List (List Char)) : Grammar → List ROov → Outcome (Grammar × List (Prov × RxExtra))
  | g, [] => ok (g, [])
  | g, r :: rest =>
    (setUpROov v cdef g r).bind (fun gp =>
      (setUpROovs v cdef gp.1 rest).bind (fun gps => ok (gps.1, gp.2 :: gps.2)))

/-! ## input text plugins -/

/-- `lim` of `yomigana`: the size limit of the `regex` crate for THIS plugin instance, as a
parameter of the model: the largest bound `n` for which the crate compiles
`K([l]R{1,n}[r])` over the character classes of the char.def in use and these bracket sets (the
compiled program may not exceed the crate's default size limit; the number depends on the bracket
sets: 27 863 … 27 866 for the ones the harness uses).  It is an input of the model — the harness
MEASURES it with the `regex` crate directly (its own transcription of `make_regex`'s pattern,
bisection) whenever `maxYomiganaLength` lies in the band 20 000 … 40 000 where the limit is; the
theorems hold for every value of it. -/
inductive RInput
  | yomigana (lb rb maxLen : JF) (lim : Nat)
  | prolonged (marks repl : JF)
deriving Repr

/-- `IgnoreYomiganaPlugin::set_up`: deserialise, then `make_regex`: an empty bracket set gives an
unclosed class, `{1,0}` an invalid repetition, a bound above the crate's size limit `lim` an error -/
def setUpInput : RInput → Outcome Unit
  | .yomigana lb rb ml lim =>
    match deChars lb, deChars rb, deUsize ml with
    | some lb, some rb, some n =>
      if lb.isEmpty || rb.isEmpty || n == 0 || n > lim then err .plugin else ok ()
    | _, _, _ => err .serde
  | .prolonged marks repl =>
    match deChars marks, deOptStr repl with
    | some ms, true => if ms.isEmpty then err .plugin else ok ()
    | _, _ => err .serde

def setUpInputs : List RInput → Outcome Unit
  | [] => ok ()
  | r :: rest => (setUpInput r).bind (fun _ => setUpInputs rest)

/-! ## path rewrite plugins -/

inductive RPath
  | katakana (pos minLen : JF)
  | numeric (en : JF)
deriving Repr

/-- what the plugin keeps: POS id and `min_length` (0 for JoinNumeric) -/
def setUpPath (numPos : Pos) (pl : List Pos) : RPath → Outcome (Nat × Nat)
  | .katakana pos ml =>
    match deStrs pos, deUsize ml with
    | some pos, some n =>
      match getPosId pl pos with
      | some id => ok (id, n)
      | none => err .pos
    | _, _ => err .serde
  | .numeric en =>
    if deOptBool en then
      match getPosId pl numPos with
      | some id => ok (id, 0)
      | none => err .pos
    else err .serde

def setUpPaths (numPos : Pos) (pl : List Pos) : List RPath → Outcome (List (Nat × Nat))
  | [] => ok []
  | r :: rest => (setUpPath numPos pl r).bind (fun a => (setUpPaths numPos pl rest).bind (fun as => ok (a :: as)))

/-! ## connection-cost plugin: `inhibitPair` as `serde_json` sees it -/

/-- the value of `inhibitPair` (`Vec<(i16, i16)>`, required) -/
inductive RInh
  | absent                              -- no `inhibitPair` key: missing field
  | other                               -- not an array (null, number, string, object)
  | pairs (ms : List (List JF))         -- an array; every member as the list of its elements
                                        -- (a member that is not an array is given as `[.other]`)
deriving Repr

/-- an `i16` element -/
def deI16 : JF → Option Int
  | .int x => if -32768 ≤ x ∧ x ≤ 32767 then some x else none
  | _ => none

/-- a `(i16, i16)` member: an array of exactly two `i16`s -/
def dePair : List JF → Option (Int × Int)
  | [a, b] =>
    match deI16 a, deI16 b with
    | some x, some y => some (x, y)
    | _, _ => none
  | _ => none

def dePairs : List (List JF) → Option (List (Int × Int))
  | [] => some []
  | m :: rest =>
    match dePair m, dePairs rest with
    | some p, some ps => some (p :: ps)
    | _, _ => none

def deInh : RInh → Option (List (Int × Int))
  | .pairs ms => dePairs ms
  | _ => none

/-- `InhibitConnectionPlugin::set_up` of every configured plugin, in order: deserialise, then the typed code -/
def inhSetUpsR (v : Variant) (g : Grammar) : List RInh → Outcome (List (List (Int × Int)))
  | [] => ok []
  | r :: rest =>
    match deInh r with
    | none => err .serde
    | some ps => (inhSetUp v g ps).bind (fun a => (inhSetUpsR v g rest).bind (fun as => ok (a :: as)))

/-! ## user dictionaries -/

/-- a user dictionary as far as C20 is concerned: its own POS list and the `(left_id, right_id)`
of every word (`i16`, `-1` = not indexed) -/
structure UDic where
  pos : List Pos
  words : List (Int × Int)
deriving Repr

/-- second set of code variants: `sat` = `offset.saturating_add(max_length)` in the regex provider,
`udic` = `merge_user_dictionary` validates the connection ids of the user words -/
structure Variant2 where
  sat : Bool
  udic : Bool
deriving Repr, DecidableEq

/-- the test of the repaired `merge_user_dictionary` for one word -/
def udicBad (m : Matrix) (w : Int × Int) : Bool :=
  decide (w.1 ≥ 0) && (decide (asUsize w.1 ≥ m.nl) || decide (w.2 < 0) || decide (asUsize w.2 ≥ m.nr))

/-- `MAX_DICTIONARIES` of `dic/lexicon/mod.rs`: the system dictionary and at most 14 user dictionaries -/
def MAX_DICTIONARIES : Nat := 15

/-- `for udic in user_dicts { dic = dic.merge_user_dictionary(udic)? }`; `nd` = number of lexicons
already in the `LexiconSet` (1 = the system dictionary).  Order inside `merge_user_dictionary`: the
connection ids of the words (variant `udic`), the size of the merged POS list (at most 65 536
entries, so that every POS id stays a `u16`; C12's generator reaches it, C20's does not),
`LexiconSet::append` (`TooManyDictionaries` for a 15th user dictionary), `Grammar::merge`. -/
def mergeUsers (v2 : Variant2) (m : Matrix) : Nat → List Pos → List UDic → Outcome (List Pos)
  | _, pl, [] => ok pl
  | nd, pl, u :: rest =>
    if v2.udic && u.words.any (udicBad m) then err .dataFormat
    else if pl.length + u.pos.length > 65536 then err .pos
    else if nd ≥ MAX_DICTIONARIES then err .lexSet
    else mergeUsers v2 m (nd + 1) (pl ++ u.pos) rest

/-- `(left_id as u16, right_id as u16)` of the indexed words: what `Node::new` gets from the lexicon -/
def userNodes (us : List UDic) : List (Nat × Nat) :=
  ((us.map (fun u => u.words)).flatten.filter (fun w => decide (w.1 ≥ 0))).map (fun w => (asU16 w.1, asU16 w.2))

/-! ## the whole load -/

structure RCfg where
  inh : List RInh
  input : List RInput
  oov : List ROov
  path : List RPath
  users : List UDic
deriving Repr

structure LoadedR where
  g : Grammar
  provs : List (Prov × RxExtra)
  paths : List (Nat × Nat)
deriving Repr

/-- `JapaneseDictionary::from_cfg_storage` with every bundled plugin kind -/
def loadR (v : Variant) (v2 : Variant2) (cdef : List (List Char)) (numPos : Pos) (g : Grammar)
    (cfg : RCfg) : Outcome LoadedR :=
  (inhSetUpsR v g cfg.inh).bind (fun inh =>
  (setUpInputs cfg.input).bind (fun _ =>
  (setUpROovs v cdef g cfg.oov).bind (fun gp =>
  (setUpPaths numPos gp.1.pos cfg.path).bind (fun paths =>
  if gp.2.isEmpty then err .noOov
  else
    (inhEdits v.debug gp.1.conn inh).bind (fun conn =>
    (mergeUsers v2 conn 1 gp.1.pos cfg.users).bind (fun pl =>
    ok ⟨⟨pl, conn⟩, gp.2, paths⟩))))))

/-! ## `RegexOovProvider::provide_oov`: the slice the pattern is matched against -/

def TWO64 : Nat := 18446744073709551616

/-- `let end = chars.len().min(offset + self.max_length); curr_slice_c(offset..end)`:
the addition overflows `usize` (panic with overflow checks, wrap-around without), and a slice whose
end lies before its start panics in every build -/
def regexEnd (sat dbg : Bool) (maxLen offset len : Nat) : Outcome Nat :=
  let sum := offset + maxLen
  let s : Outcome Nat :=
    if sum < TWO64 then ok sum
    else if sat then ok (TWO64 - 1)
    else if dbg then crash
    else ok (sum - TWO64)
  s.bind (fun s => let e := min len s; if e < offset then crash else ok e)

/-- the probe of the harness: pattern `.`, so a match is the first character of a non-empty slice;
result = end of the node, `none` = no node -/
def regexAsk (sat dbg : Bool) (x : RxExtra) (offset len : Nat) : Outcome (Option Nat) :=
  (regexEnd sat dbg x.maxLen offset len).bind (fun e => if e > offset then ok (some (offset + 1)) else ok none)

/-- the signed comparison of seeded change C20b (`oov.left_id >= num_left as i16`), kept only to be
refuted in the kernel: it accepts every negative id -/
def unkIdBadSigned (n : Nat) (x : Int) : Bool := decide (x ≥ asI16 n)

/-! ## wire -/

def parseItem (s : List Char) : Option (List Char) :=
  match s with
  | 'x' :: rest => if rest.isEmpty then some [] else bytesOf rest
  | _ => none

/-- `-` absent, `N` null, `F` float, `B` bool, `O` other, `I<int>`, `S<hex>`, `Lx<hex>/x<hex>/…` (`L` alone = `[]`) -/
def parseJF (s : List Char) : Option JF :=
  match s with
  | ['-'] => some .absent
  | ['N'] => some .null
  | ['F'] => some .float
  | ['B'] => some .bool
  | ['O'] => some .other
  | 'I' :: rest => (Wire.int? rest).map .int
  | 'S' :: rest => if rest.isEmpty then some (.str []) else (bytesOf rest).map .str
  | 'L' :: rest => (Wire.allSome ((Wire.items '/' rest).map parseItem)).map .strs
  | _ => none

/-- a member of `inhibitPair`: `E` = `[]`, otherwise its elements joined by `+` -/
def parseMember (s : List Char) : Option (List JF) :=
  if s == ['E'] then some [] else Wire.allSome ((Wire.splitOn '+' s).map parseJF)

/-- `J-` absent, `JO` not an array, `J<member>,<member>,…` (`J` alone = `[]`) -/
def parseRInh (s : List Char) : Option RInh :=
  match s with
  | ['J', '-'] => some .absent
  | ['J', 'O'] => some .other
  | 'J' :: rest => (Wire.allSome ((Wire.items ',' rest).map parseMember)).map .pairs
  | _ => none

def parseROov (s : List Char) : Option ROov :=
  match Wire.splitOn ':' s with
  | [k, pos, l, r, c, m] =>
    if k == "S".toList then
      match parseJF pos, parseJF l, parseJF r, parseJF c, parseJF m with
      | some pos, some l, some r, some c, some m => some (.simple pos l r c m)
      | _, _, _, _, _ => none
    else none
  | [k, pos, l, r, c, m, ml, b, rx, dbgf, okf] =>
    if k == "R".toList then
      match parseJF pos, parseJF l, parseJF r, parseJF c, parseJF m, parseJF ml, parseJF b, parseJF rx, parseJF dbgf with
      | some pos, some l, some r, some c, some m, some ml, some b, some rx, some dbgf =>
        some (.regex pos l r c m ml b rx dbgf (okf == ['1']))
      | _, _, _, _, _, _, _, _, _ => none
    else none
  | [k, unk, m] =>
    if k == "M".toList then
      match bytesOf unk, parseJF m with
      | some unk, some m => some (.mecab (Oov.lines unk) m)
      | _, _ => none
    else none
  | _ => none

def parseRInput (s : List Char) : Option RInput :=
  match Wire.splitOn ':' s with
  | [k, a, b, c, lim] =>
    if k == "Y".toList then
      match parseJF a, parseJF b, parseJF c, Wire.nat? lim with
      | some a, some b, some c, some lim => some (.yomigana a b c lim)
      | _, _, _, _ => none
    else none
  | [k, a, b] =>
    if k == "P".toList then
      match parseJF a, parseJF b with
      | some a, some b => some (.prolonged a b)
      | _, _ => none
    else none
  | _ => none

def parseRPath (s : List Char) : Option RPath :=
  match Wire.splitOn ':' s with
  | [k, a, b] =>
    if k == "K".toList then
      match parseJF a, parseJF b with
      | some a, some b => some (.katakana a b)
      | _, _ => none
    else none
  | [k, a] =>
    if k == "N".toList then (parseJF a).map .numeric else none
  | _ => none

def parseWord (s : List Char) : Option (Int × Int) :=
  match Wire.splitOn '.' s with
  | [a, b] => match Wire.int? a, Wire.int? b with
    | some a, some b => some (a, b)
    | _, _ => none
  | _ => none

/-- `<pos;pos;…>@<l.r,l.r,…>` -/
def parseUDic (s : List Char) : Option UDic :=
  match Wire.splitOn '@' s with
  | [p, w] =>
    match parsePosList p, Wire.allSome ((Wire.items ',' w).map parseWord) with
    | some p, some w => some ⟨p, w⟩
    | _, _ => none
  | _ => none

def showAsk : Outcome (Option Nat) → String
  | .ok (some e) => toString e
  | .ok none => "-"
  | .err k => "err:" ++ k.name
  | .crash => "P"
  | .ub => "UB"

/-- regex providers additionally report what `provide_oov` does at offsets 0 and 1 of the probe text -/
def showProvR (sat dbg : Bool) (probeLen : Nat) (px : Prov × RxExtra) : String :=
  match px.1 with
  | .regex e =>
    let a0 := regexAsk sat dbg px.2 0 probeLen
    let a1 := regexAsk sat dbg px.2 1 probeLen
    let seen := match a0, a1 with
      | .ok (some _), _ => true
      | _, .ok (some _) => true
      | _, _ => false
    "R:" ++ (if seen then showE e else "?") ++ "/" ++ showAsk a0 ++ "/" ++ showAsk a1
  | p => showProv p

def handleRLoad (toks : List (List Char)) : String :=
  match Wire.kv? toks "v", Wire.kv? toks "w", Wire.kv? toks "nl", Wire.kv? toks "nr", Wire.kv? toks "conn", Wire.kv? toks "pos",
        Wire.kv? toks "cdef", Wire.kv? toks "inh", Wire.kv? toks "oov", Wire.kv? toks "inp", Wire.kv? toks "path",
        Wire.kv? toks "udic", Wire.kv? toks "numpos", Wire.kv? toks "plen" with
  | some v, some w, some nl, some nr, some conn, some pos, some cdef, some inh, some oov, some inp, some path,
    some udic, some numpos, some plen =>
    match parseVariant v, w, Wire.nat? nl, Wire.nat? nr, Wire.intList? conn, parsePosList pos, bytesOf cdef,
          Wire.allSome ((Wire.items ';' inh).map parseRInh), Wire.allSome ((Wire.items ';' oov).map parseROov),
          Wire.allSome ((Wire.items ';' inp).map parseRInput), Wire.allSome ((Wire.items ';' path).map parseRPath),
          Wire.allSome ((Wire.items '|' udic).map parseUDic), parsePos numpos, Wire.nat? plen with
    | some v, [s, u], some nl, some nr, some cells, some pos, some cdef, some inh, some oov, some inp, some path,
      some udic, some numpos, some plen =>
      let g : Grammar := ⟨pos, ⟨nl, nr, cells⟩⟩
      let v2 : Variant2 := ⟨s == '1', u == '1'⟩
      showOutcome (fun (ld : LoadedR) =>
        "ok npos=" ++ toString ld.g.pos.length ++
        " all=" ++ Wire.joinWith ";" (ld.g.pos.map showPos) ++
        " prov=" ++ Wire.joinWith ";" (ld.provs.map (showProvR v2.sat v.debug plen)) ++
        " conn=" ++ Wire.showInts ld.g.conn.cells)
        (loadR v v2 (Oov.lines cdef) numpos g ⟨inh, inp, oov, path, udic⟩)
    | _, _, _, _, _, _, _, _, _, _, _, _, _, _ => "bad-op"
  | _, _, _, _, _, _, _, _, _, _, _, _, _, _ => "bad-op"

def handle2 (op : List Char) (toks : List (List Char)) : String :=
  if op == "rload".toList then handleRLoad toks else handle op toks

end Params
