import Sudachi.Model.Wire
/-!
# C04 — dictionary lookup: double-array trie, packed word-id table, index builder, lexicon set

Mirrors (line by line, as the code stands):

* `dic/lexicon/trie.rs` — unit decoding (`has_leaf`, `value`, `label`, `offset`), `Trie::get`
  (debug assertion `index < len`, unchecked read otherwise), `common_prefix_iterator`,
  `TrieEntryIter::next` (as a recursive function over the remaining bytes);
* `dic/lexicon/word_id_table.rs` — `WordIdTable::entries` / `WordIdIter` (count byte, unaligned
  little-endian `u32`s, reads relative to the start of the *whole* buffer plus the table offset);
* `dic/lexicon/mod.rs` — `Lexicon::parse` up to and including the word-id table, `set_dic_id`,
  `word_id` (`WordId::new`, with its two debug assertions), `Lexicon::lookup` (flat-map);
* `dic/lexicon_set.rs` — `LexiconSet::new/append` (dictionary ids by position, at most 15),
  `LexiconSet::lookup` (all lexicons, reverse order);
* `dic/build/index.rs`, `dic/build/mod.rs: write_index`, `dic/build/primitives.rs: write_u32_array`
  — `IndexBuilder::add` (insertion-ordered grouping), `build_word_id_table` (records, offsets),
  `build_trie` up to the call of the external builder, `should_index` (`left_id >= 0`);
* `analysis/mlist.rs: MorphemeList::lookup` — filter `entry.end == query.len()`; `mlLookup`: the call on a
  (recycled) list: length guard of `start_build`, `ch_idx(query.len())`, one node per entry APPENDED to
  the nodes the list already holds (`mlClear` = `MorphemeList::clear`);
* `dic/build/lexicon.rs: parse_record` (surface test: not empty, no U+0000), `build_trie` (empty key set =
  `Err`), `write_index` (the bytes written: unit count, units, table size, table) — `compileIndex`,
  `indexBytes`.

Outcomes: `Option`, `none` = the Rust code panics (debug assertion) or reads outside the buffer
(undefined behaviour in release builds) resp. returns `Err` for the parsers/builders.  Bytes and
trie units are `Nat`s held in `Array`s (O(1) reads in the driver).

The external double-array builder (`yada`) is *not* modelled: `checkTrie` (below) is a checker for
its output whose soundness is proved in `Proofs/Trie.lean`.
-/
namespace Trie

abbrev Arr := Array Nat

/-! ## trie.rs -/

/-- `Trie::has_leaf` -/
def hasLeaf (u : Nat) : Bool := (u >>> 8) &&& 1 == 1
/-- `Trie::value` -/
def value (u : Nat) : Nat := u &&& (2^31 - 1)
/-- `Trie::label` -/
def label (u : Nat) : Nat := u &&& (2^31 ||| 0xFF)
/-- `Trie::offset` -/
def offset (u : Nat) : Nat := (u >>> 10) <<< ((u &&& (1 <<< 9)) >>> 6)

/-- one iteration of the `for` loop of `TrieEntryIter::next` up to the leaf test -/
inductive Step where
  /-- `self.get(node_pos)` outside the array: debug assertion / UB -/
  | oob
  /-- `label(unit) != k`: `return None` -/
  | stop
  /-- continue at `pos` (already xor-ed with the unit's offset); `leaf` = `has_leaf(unit)` -/
  | go (pos : Nat) (leaf : Bool)
deriving Repr, DecidableEq

/-- `g` selects the variant of the code: `false` = the loop as it stands (every byte, also 0, is
looked up in the array); `true` = a guard `if *k == 0 { return None; }` in front of it (the
candidate repair of finding N1; the harness probes the linked implementation and tells the driver
which variant it is talking to). -/
def step (g : Bool) (a : Arr) (pos k : Nat) : Step :=
  if g && k == 0 then .stop else
  let p := pos ^^^ k
  match a[p]? with
  | none => .oob
  | some u => if label u ≠ k then .stop else .go (p ^^^ offset u) (hasLeaf u)

/-- `TrieEntryIter` drained: every `(value, end)` it yields, in order; `i` = absolute index of the
next byte.  `none` = a read left the array. -/
def run (g : Bool) (a : Arr) : Nat → Nat → List Nat → Option (List (Nat × Nat))
  | _, _, [] => some []
  | pos, i, k :: ks =>
    match step g a pos k with
    | .oob => none
    | .stop => some []
    | .go pos' leaf =>
      if leaf then
        match a[pos']? with
        | none => none
        | some v =>
          match run g a pos' (i+1) ks with
          | none => none
          | some r => some ((value v, i+1) :: r)
      else run g a pos' (i+1) ks

/-- `Trie::common_prefix_iterator(input, offset)` drained (`for i in offset..len`: nothing when
`offset ≥ len`) -/
def commonPrefix (g : Bool) (a : Arr) (input : List Nat) (off : Nat) : Option (List (Nat × Nat)) :=
  match a[0]? with
  | none => none
  | some u => run g a (offset u) off (input.drop off)

/-! ## word_id_table.rs -/

/-- unaligned little-endian `u32` at byte index `i` -/
def readU32 (b : Arr) (i : Nat) : Option Nat :=
  match b[i]?, b[i+1]?, b[i+2]?, b[i+3]? with
  | some b0, some b1, some b2, some b3 => some (b0 + 256 * b1 + 65536 * b2 + 16777216 * b3)
  | _, _, _, _ => none

/-- `WordIdIter` drained: `n` values starting at byte `p` -/
def readIds (b : Arr) : Nat → Nat → Option (List Nat)
  | _, 0 => some []
  | p, n+1 =>
    match readU32 b p with
    | none => none
    | some x =>
      match readIds b (p+4) n with
      | none => none
      | some r => some (x :: r)

/-- `WordIdTable::entries(index)`; `base` = `self.offset` (start of the table inside the buffer) -/
def entries (b : Arr) (base idx : Nat) : Option (List Nat) :=
  match b[idx + base]? with
  | none => none
  | some cnt => readIds b (idx + base + 1) cnt

/-! ## lexicon/mod.rs -/

structure Lex where
  trie : Arr
  buf : Arr
  tblSize : Nat
  tblOff : Nat
  lexId : Nat
deriving Repr

def decodeUnits (b : Arr) (start : Nat) : Nat → Option (List Nat)
  | 0 => some []
  | n+1 =>
    match readU32 b start with
    | none => none
    | some u =>
      match decodeUnits b (start+4) n with
      | none => none
      | some r => some (u :: r)

/-- `Lexicon::parse(buf, original_offset, _)` up to the word-id table (word parameters and word
infos are not needed for lookup).  `none` = `Err`. -/
def parseLex (buf : Arr) (off : Nat) : Option Lex :=
  match readU32 buf off with
  | none => none
  | some trieSize =>
    let offset := off + 4
    let trieEnd := offset + trieSize * 4
    if buf.size < trieEnd then none else
    match decodeUnits buf offset trieSize with
    | none => none
    | some units =>
      let offset := offset + 4 * trieSize
      match readU32 buf offset with
      | none => none
      | some tblSize =>
        some { trie := units.toArray, buf := buf, tblSize := tblSize, tblOff := offset + 4, lexId := 255 }

def MAX_DICTIONARIES : Nat := 15
def WORD_MASK : Nat := 0x0fffffff

/-- `WordId::new(dic, word)`; `none` = one of its two `debug_assert_eq!` fires -/
def wordId (dic word : Nat) : Option Nat :=
  if word / (WORD_MASK + 1) ≠ 0 then none
  else if dic / 16 ≠ 0 then none
  else some (((dic &&& 0xf) <<< 28) ||| (word &&& WORD_MASK))

def stamp (dic : Nat) : List Nat → Option (List Nat)
  | [] => some []
  | w :: ws =>
    match wordId dic w with
    | none => none
    | some x =>
      match stamp dic ws with
      | none => none
      | some r => some (x :: r)

/-- `flat_map` of `Lexicon::lookup` over the trie entries -/
def expand (l : Lex) : List (Nat × Nat) → Option (List (Nat × Nat))
  | [] => some []
  | (v, e) :: rest =>
    match entries l.buf l.tblOff v with
    | none => none
    | some ids =>
      match stamp l.lexId ids with
      | none => none
      | some wids =>
        match expand l rest with
        | none => none
        | some r => some (wids.map (fun w => (w, e)) ++ r)

/-- `Lexicon::lookup(input, offset)` drained: `(word id, end)` -/
def lexLookup (g : Bool) (l : Lex) (input : List Nat) (off : Nat) : Option (List (Nat × Nat)) :=
  if ¬ l.lexId < MAX_DICTIONARIES then none else
  match commonPrefix g l.trie input off with
  | none => none
  | some es => expand l es

/-! ## lexicon_set.rs -/

/-- `LexiconSet::new(system)` followed by `append` for every further lexicon: dictionary id =
position; `none` = `TooManyDictionaries` (or the `assert!` of `set_dic_id`) -/
def mkSet (ls : List Lex) : Option (List Lex) :=
  if ls.length > MAX_DICTIONARIES then none
  else some (ls.zipIdx.map (fun (l, i) => { l with lexId := i }))

def lookupIn (g : Bool) : List Lex → List Nat → Nat → Option (List (Nat × Nat))
  | [], _, _ => some []
  | l :: ls, input, off =>
    match lexLookup g l input off with
    | none => none
    | some r =>
      match lookupIn g ls input off with
      | none => none
      | some rs => some (r ++ rs)

/-- `LexiconSet::lookup`: `self.lexicons.iter().rev().flat_map(..)` -/
def setLookup (g : Bool) (ls : List Lex) (input : List Nat) (off : Nat) : Option (List (Nat × Nat)) :=
  lookupIn g ls.reverse input off

/-- `MorphemeList::lookup`: the entries of `lex.lookup(query, 0)` with `entry.end == query.len()` -/
def exactLookup (g : Bool) (ls : List Lex) (query : List Nat) : Option (List (Nat × Nat)) :=
  match setLookup g ls query 0 with
  | none => none
  | some r => some (r.filter (fun we => we.2 == query.length))

/-! ## build/index.rs, build/mod.rs write_index, primitives.rs write_u32_array -/

/-- one source row as far as the index is concerned: surface bytes and left id -/
structure Entry where
  key : List Nat
  left : Int
deriving Repr

/-- `RawLexiconEntry::should_index` -/
def shouldIndex (e : Entry) : Bool := e.left ≥ 0

abbrev Groups := List (List Nat × List Nat)

/-- `IndexBuilder::add`: `self.data.entry(key).or_default().ids.push(id)` on an insertion-ordered map -/
def addKey : Groups → List Nat → Nat → Groups
  | [], k, id => [(k, [id])]
  | (k', ids) :: rest, k, id =>
    if k' = k then (k', ids ++ [id]) :: rest else (k', ids) :: addKey rest k id

/-- the loop of `write_index`: `WordId::checked(0, i as u32)?` then `index.add`; `none` = `Err` -/
def indexGo : Nat → List Entry → Groups → Option Groups
  | _, [], g => some g
  | i, e :: es, g =>
    if shouldIndex e then
      let w := i % 4294967296
      if w / (WORD_MASK + 1) ≠ 0 then none
      else indexGo (i+1) es (addKey g e.key w)
    else indexGo (i+1) es g

def buildIndex (es : List Entry) : Option Groups := indexGo 0 es []

/-- `u32::to_le_bytes` -/
def le32 (n : Nat) : List Nat := [n % 256, n / 256 % 256, n / 65536 % 256, n / 16777216 % 256]

/-- `write_u32_array` for a list that passed the length test -/
def record (ids : List Nat) : List Nat := ids.length :: ids.flatMap le32

/-- `build_word_id_table` (records in insertion order, `entry.offset = result.len()`, `Err` when a
key has more than 127 ids) followed by the loop of `build_trie` (`Err` when an offset exceeds
`u32::MAX`): the table bytes and the `(key, offset)` list handed (after sorting) to the external
double-array builder.  `off` = bytes already written. -/
def tableFrom (off : Nat) : Groups → Option (List Nat × List (List Nat × Nat))
  | [] => some ([], [])
  | (k, ids) :: gs =>
    if ids.length > 127 then none
    else if off > 4294967295 then none
    else
      let rec_ := record ids
      match tableFrom (off + rec_.length) gs with
      | none => none
      | some (t, es) => some (rec_ ++ t, (k, off) :: es)

/-- what `write_index` produces before the external builder runs -/
def buildTable (es : List Entry) : Option (List Nat × List (List Nat × Nat)) :=
  match buildIndex es with
  | none => none
  | some g => tableFrom 0 g

/-! ## build/lexicon.rs `parse_record` (surface test), `build_trie` (empty key set), `write_index` (bytes) -/

/-- `lexicon.rs: parse_record`: `if surface.is_empty() || surface.contains('\0') { return Err(EmptySurface) }`
— tested on every row, indexed or not (U+0000 is the only scalar whose UTF-8 form contains byte 0);
`parse.rs: unescape_cow → check_str_len`: a field of more than `MAX_DIC_STRING_LEN = 32767` bytes is
`InvalidSize` (tested on the escaped field; unescaping only shortens), which makes the later test
of `write_word_info` (`u16w.write_len(w, self.surface.len())`) unreachable -/
def surfaceOk (e : Entry) : Bool :=
  !e.key.isEmpty && e.key.all (fun b => b != 0) && decide (e.key.length ≤ 32767)

/-- From the source rows to what `write_index` hands to the external double-array builder, and the
word-id table: the reader's surface test on every row, `buildTable`, then `build_trie`'s
`if trie_entries.is_empty() { return Err(TrieBuildFailure) }`.  `none` = `Err`. -/
def compileIndex (es : List Entry) : Option (List Nat × List (List Nat × Nat)) :=
  if es.all surfaceOk then
    match buildTable es with
    | none => none
    | some (t, ents) => if ents.isEmpty then none else some (t, ents)
  else none

/-- the bytes `write_index` writes, given the units the external builder returned:
`(trie.len() / 4) as u32` little-endian, the units, `word_id_table.len() as u32`, the table
(`le32` truncates like the `as u32` casts do) -/
def indexBytes (units tbl : List Nat) : List Nat :=
  le32 units.length ++ units.flatMap le32 ++ le32 tbl.length ++ tbl

/-! ## analysis/mlist.rs: `MorphemeList::lookup` on a list that is reused -/

/-- a `ResultNode` as `MorphemeList::lookup` fills it: `Node::new(0, end_chars, ..)`,
`ResultNode::new(node, 0, 0, query.len(), info)`: character range, byte range, word id -/
structure RNode where
  beginC : Nat
  endC : Nat
  beginB : Nat
  endB : Nat
  wid : Nat
deriving Repr, DecidableEq

/-- `input_text/buffer/mod.rs: MAX_LENGTH = u16::MAX / 4 * 3` -/
def MAX_LENGTH : Nat := 49149

/-- `input.ch_idx(query.len())` after `reset(); push_str(query); start_build(); build(grammar)` (no
input-text plugin runs in `lookup`): the number of characters of the query = its bytes that are
not UTF-8 continuation bytes (`10xxxxxx`) -/
def chCount (q : List Nat) : Nat := (q.filter (fun b => b / 64 != 2)).length

inductive MlOut where
  /-- a look-up panicked / read outside a buffer -/
  | panic
  /-- `start_build`: `Err(InputTooLong)`; the node list is not touched -/
  | tooLong
  /-- `Ok(count)`; `nodes` = the whole list afterwards -/
  | ok (count : Nat) (nodes : List RNode)
deriving Repr, DecidableEq

/-- `MorphemeList::lookup(query, subset)` on a list that holds `nodes`.  `rep` selects the variant
of the code: `false` = as it stands, the function does NOT clear the list (its callers do:
`python/src/dictionary.rs: lookup`, `tests/common: entries`) although it replaces the list's input
text, so nodes that were in the list now point into another text (observation O1 of the report);
`true` = the candidate repair `self.nodes.mut_data().clear()` as the first statement (so a rejected
query leaves an empty list: `runQueries`).  The
harness probes the linked code (`ml=append|replace` on the line). -/
def mlLookup (g : Bool) (rep : Bool) (ls : List Lex) (nodes : List RNode) (q : List Nat) : MlOut :=
  if q.length > MAX_LENGTH then .tooLong else
  match exactLookup g ls q with
  | none => .panic
  | some r =>
    let new := r.map (fun we => ({ beginC := 0, endC := chCount q, beginB := 0, endB := q.length, wid := we.1 } : RNode))
    .ok new.length ((if rep then [] else nodes) ++ new)

/-- `MorphemeList::clear` -/
def mlClear (_nodes : List RNode) : List RNode := []

/-! ## the checker for the external builder's output -/

/-- keys that continue with byte `b`, with that byte removed (Brzozowski derivative of the key set) -/
def deriv (b : Nat) (ks : List (List Nat × Nat)) : List (List Nat × Nat) :=
  ks.filterMap (fun kv =>
    match kv.1 with
    | c :: r => if c = b then some (r, kv.2) else none
    | [] => none)

/-- Node check: from state `pos`, reached by a prefix `p` whose remaining keys are `ks` (keys with
prefix `p`, `p` stripped): for every byte `b` in 1..255 (byte 0 is the double array's own
terminator label: the arrays the builder produces are NOT correct for it, see
`C04.nul_skipped_counterexample`), the transition exists iff some key continues with
`b`; the unit reached has a leaf iff `p ++ [b]` is a key, and then the value unit holds that key's
value; recursively for the node reached.  `fuel` bounds the depth (longest key + 1). -/
def checkNode (a : Arr) : Nat → Nat → List (List Nat × Nat) → Bool
  | 0, _, _ => false
  | fuel+1, pos, ks =>
    (List.range 255).all (fun b' =>
      let b := b' + 1
      let sub := deriv b ks
      match step false a pos b with
      | .oob => false
      | .stop => sub.isEmpty
      | .go pos' leaf =>
        !sub.isEmpty &&
        (match sub.find? (fun kv => kv.1.isEmpty) with
         | some kv => leaf && (match a[pos']? with
                               | some u => value u == kv.2
                               | none => false)
         | none => !leaf) &&
        checkNode a fuel pos' sub)

def maxLen (ks : List (List Nat × Nat)) : Nat := ks.foldl (fun m kv => max m kv.1.length) 0

/-- the proved checker: `arr` is a correct double array for `keys` -/
def checkTrie (a : Arr) (keys : List (List Nat × Nat)) : Bool :=
  match a[0]? with
  | none => false
  | some u => checkNode a (maxLen keys + 1) (offset u) keys

/-! ## line protocol -/

/-- tail-recursive split (lines of this property are up to megabytes long) -/
def splitTR (sep : Char) (s : List Char) : List (List Char) :=
  go s [] []
where
  go : List Char → List Char → List (List Char) → List (List Char)
    | [], cur, acc => (cur.reverse :: acc).reverse
    | c :: cs, cur, acc => if c = sep then go cs [] (cur.reverse :: acc) else go cs (c :: cur) acc

def itemsTR (sep : Char) (s : List Char) : List (List Char) :=
  if s.isEmpty then [] else splitTR sep s

def hexToArray (s : List Char) : Option Arr :=
  go s #[]
where
  go : List Char → Arr → Option Arr
    | [], acc => some acc
    | [_], _ => none
    | x :: y :: rest, acc =>
      match Wire.hexDigitVal? x, Wire.hexDigitVal? y with
      | some p, some q => go rest (acc.push (p * 16 + q))
      | _, _ => none

def allSomeTR {α : Type} (l : List (Option α)) : Option (List α) :=
  go l []
where
  go : List (Option α) → List α → Option (List α)
    | [], acc => some acc.reverse
    | none :: _, _ => none
    | some a :: r, acc => go r (a :: acc)

def parseEntry (s : List Char) : Option Entry :=
  match splitTR ':' s with
  | [k, l] =>
    match hexToArray k, Wire.int? l with
    | some kb, some li => some { key := kb.toList, left := li }
    | _, _ => none
  | _ => none

def parseEntries (s : List Char) : Option (List Entry) :=
  allSomeTR ((itemsTR ';' s).map parseEntry)

def showPairs (l : List (Nat × Nat)) : String :=
  Wire.joinWith "," (l.map (fun p => toString p.1 ++ ":" ++ toString p.2))

def showRes : Option (List (Nat × Nat)) → String
  | none => "P"
  | some l => showPairs l

/-- results at offsets `0 ..= len+1`; only non-empty ones are printed as `off>wid:end,..` -/
def showAllOffsets (f : Nat → Option (List (Nat × Nat))) (len : Nat) : String :=
  let rs := (List.range (len + 2)).filterMap (fun off =>
    match f off with
    | some [] => none
    | r => some (toString off ++ ">" ++ showRes r))
  Wire.joinWith ";" rs

def b2s (b : Bool) : String := if b then "1" else "0"

/-- `nul=stop` on the line: the linked implementation has the NUL guard -/
def guardOf (toks : List (List Char)) : Bool :=
  match Wire.kv? toks "nul" with
  | some v => String.ofList v == "stop"
  | none => false

structure Loaded where
  lex : Lex
  tblOk : Bool
  chk : Bool
  /-- the bytes of the lexicon up to the end of the word-id table are exactly what the model of
  `write_index` writes for the source rows and the units of the external builder -/
  wrOk : Bool

/-- one lexicon of a world: compiled bytes (from the lexicon start to the end of the word-id
table) + source rows -/
def loadOne (bytes : List Char) (src : List Char) : Option Loaded :=
  match hexToArray bytes, parseEntries src with
  | some buf, some es =>
    match parseLex buf 0, compileIndex es with
    | some lx, some (tbl, ents) =>
      let actual := (buf.extract lx.tblOff (lx.tblOff + lx.tblSize)).toList
      some { lex := lx, tblOk := actual == tbl && buf.size == lx.tblOff + lx.tblSize, chk := checkTrie lx.trie ents,
             wrOk := indexBytes lx.trie.toList tbl == buf.toList }
    | _, _ => none
  | _, _ => none

def loadAll (toks : List (List Char)) (n : Nat) : Option (List Loaded) :=
  allSomeTR ((List.range n).map (fun d =>
    match Wire.kv? toks ("l" ++ toString d), Wire.kv? toks ("s" ++ toString d) with
    | some b, some s => loadOne b s
    | _, _ => none))

/-- one exact query: `c:<hex>` = `list.clear(); list.lookup(q)`, `k:<hex>` = `list.lookup(q)` on the
list as the previous query left it -/
def parseQuery (s : List Char) : Option (Bool × List Nat) :=
  match s with
  | m :: ':' :: h =>
    match hexToArray h with
    | some b => if m = 'c' then some (true, b.toList) else if m = 'k' then some (false, b.toList) else none
    | none => none
  | _ => none

def showNode (n : RNode) : String :=
  toString n.beginC ++ ":" ++ toString n.endC ++ ":" ++ toString n.beginB ++ ":" ++ toString n.endB

/-- `<count>/<word ids of the whole list>/<ranges of the last count nodes>` -/
def showMl : MlOut → String
  | .panic => "P"
  | .tooLong => "ETooLong"
  | .ok n nodes =>
    toString n ++ "/" ++ Wire.joinWith "," (nodes.map (fun x => toString x.wid)) ++ "/" ++
      Wire.joinWith "," ((nodes.drop (nodes.length - n)).map showNode)

/-- the exact queries of a world in order, on ONE node list -/
def runQueries (g rep : Bool) (set : List Lex) : List RNode → List (Bool × List Nat) → List String
  | _, [] => []
  | nodes, (clr, q) :: rest =>
    let nodes0 := if clr then mlClear nodes else nodes
    let r := mlLookup g rep set nodes0 q
    let nodes1 := match r with
      | .ok _ ns => ns
      | _ => if rep then [] else nodes0
    showMl r :: runQueries g rep set nodes1 rest

/-- `ml=replace` on the line: the linked `MorphemeList::lookup` clears the list itself -/
def mlRepOf (toks : List (List Char)) : Bool :=
  match Wire.kv? toks "ml" with
  | some v => String.ofList v == "replace"
  | none => false

/-- `C04 world idx= n=<k> l0=<hex> s0=<key:left;..> .. texts=<hex;hex..> exact=<c|k:hex;..>` -/
def handleWorld (toks : List (List Char)) : String :=
  match (Wire.kv? toks "n").bind Wire.nat?, Wire.kv? toks "texts", Wire.kv? toks "exact" with
  | some n, some ts, some xs =>
    match loadAll toks n, allSomeTR ((itemsTR ';' ts).map hexToArray), allSomeTR ((itemsTR ';' xs).map parseQuery) with
    | some lds, some texts, some queries =>
      match mkSet (lds.map (·.lex)) with
      | none => "err:set"
      | some set =>
        let sizes := Wire.joinWith "," (lds.map (fun l => toString l.lex.trie.size ++ ":" ++ toString l.lex.tblSize))
        let tb := Wire.joinWith "," (lds.map (fun l => b2s l.tblOk))
        let ck := Wire.joinWith "," (lds.map (fun l => b2s l.chk))
        let look := Wire.joinWith "|" (texts.map (fun t =>
          let tl := t.toList
          showAllOffsets (fun off => setLookup (guardOf toks) set tl off) tl.length))
        let wr := Wire.joinWith "," (lds.map (fun l => b2s l.wrOk))
        let ex := Wire.joinWith "|" (runQueries (guardOf toks) (mlRepOf toks) set [] queries)
        "ok sizes=" ++ sizes ++ " tbl=" ++ tb ++ " chk=" ++ ck ++ " wr=" ++ wr ++ " look=" ++ look ++ " exact=" ++ ex
    | _, _, _ => "bad-op"
  | _, _, _ => "bad-op"

/-- `C04 build idx= src=<key:left;..>`: does the index builder accept the rows? -/
def handleBuild (toks : List (List Char)) : String :=
  match (Wire.kv? toks "src").bind parseEntries with
  | some es =>
    match compileIndex es with
    | none => "err"
    | some (t, ents) => "ok tbl=" ++ toString t.length ++ " keys=" ++ toString ents.length
  | none => "bad-op"

/-- `C04 trie idx= units=<nat list> text=<hex>`: raw traversal of an arbitrary array at every offset -/
def handleTrie (toks : List (List Char)) : String :=
  match (Wire.kv? toks "units").bind (fun s => allSomeTR ((itemsTR ',' s).map Wire.nat?)), (Wire.kv? toks "text").bind hexToArray with
  | some us, some t =>
    let a := us.toArray
    let tl := t.toList
    "ok " ++ showAllOffsets (fun off => commonPrefix (guardOf toks) a tl off) tl.length
  | _, _ => "bad-op"

/-- `C04 wid idx= bytes=<hex> base=<n> at=<n,n,..>`: `WordIdTable::entries` on an arbitrary buffer -/
def handleWid (toks : List (List Char)) : String :=
  match (Wire.kv? toks "bytes").bind hexToArray, (Wire.kv? toks "base").bind Wire.nat?, (Wire.kv? toks "at").bind Wire.natList? with
  | some b, some base, some ats =>
    "ok " ++ Wire.joinWith ";" (ats.map (fun i =>
      match entries b base i with
      | none => "P"
      | some ids => Wire.showNats ids))
  | _, _, _ => "bad-op"

def handle (op : List Char) (toks : List (List Char)) : String :=
  match String.ofList op with
  | "world" => handleWorld toks
  | "build" => handleBuild toks
  | "trie" => handleTrie toks
  | "wid" => handleWid toks
  | _ => "bad-op"

end Trie
