import Sudachi.Model.Wire
/-!
# Model of the path-rewrite plugins  (property C14)

Mirrors, as they are in the tree,

* `sudachi/src/analysis/node.rs`: `concat_nodes`, `concat_oov_nodes`;
* `sudachi/src/plugin/path_rewrite/join_katakana_oov/mod.rs`: `rewrite_gen` and its helpers;
* `sudachi/src/plugin/path_rewrite/join_numeric/mod.rs`: `concat`, `rewrite_gen` (two code variants,
  `NVariant`: `cur` = the loop as it is in the pinned tree, `fix` = the repair of finding F2, which
  restarts a run only when the separator flag was still set);
* `sudachi/src/analysis/stateful_tokenizer.rs:150-154`: the plugins are applied in configured order
  (`rewriteAll`).

A path is a `List Node`; a node carries every field of the Rust `ResultNode` that the plugins read
or write (character range, byte range, word id, costs, connection ids and the raw `WordInfoData`
strings).  The input buffer enters only through `mod_cat` (`cat : List Nat`, one class mask per
character of the modified text).  The numeric parser (`NumericParser`, property C15) is a
**parameter**: `P : List Char → POut` gives, for the string of all characters fed to a freshly
cleared parser, the number of accepted characters, the error state, the result of `done()` and the
normalised rendering (exactly the tuple returned by the hook `join_numeric::verif_parse`).

Index-restarting loops take fuel; running out of fuel is the explicit outcome `Outcome.fuel`.
-/
namespace Rewrite

inductive Outcome (α : Type) where
  | ok : α → Outcome α
  | err : Outcome α       -- `Err(SudachiError::InvalidRange)`
  | panic : Outcome α     -- index out of bounds / arithmetic overflow (debug build)
  | fuel : Outcome α      -- the loop did not finish within the given fuel
deriving Repr, DecidableEq

namespace Outcome
@[inline] def bind {α β : Type} (x : Outcome α) (f : α → Outcome β) : Outcome β :=
  match x with
  | .ok a => f a
  | .err => .err
  | .panic => .panic
  | .fuel => .fuel
end Outcome

instance : Monad Outcome where
  pure := .ok
  bind := Outcome.bind

structure Node where
  b : Nat            -- begin, characters of the modified text
  e : Nat            -- end
  bb : Nat           -- begin_bytes
  eb : Nat           -- end_bytes
  wid : Nat          -- raw word id (dictionary id in the top 4 bits)
  tc : Int           -- total_cost
  left : Nat
  right : Nat
  cost : Int
  pos : Nat          -- WordInfoData.pos_id
  hwl : Nat          -- head_word_length
  dfw : Int          -- dictionary_form_word_id
  aSplit : List Nat  -- a_unit_split, b_unit_split, word_structure (raw word ids), synonym_group_ids
  bSplit : List Nat
  wStruct : List Nat
  syn : List Nat
  surface : List Char   -- raw WordInfoData strings (may be empty = "same as surface")
  norm : List Char
  reading : List Char
  dform : List Char
deriving Repr, DecidableEq

/-! ## category masks -/
def NUMERIC : Nat := 16
def KATAKANA : Nat := 128
def KANJINUMERIC : Nat := 256
def NOOOVBOW : Nat := 1073741824
def CAT_ALL : Nat := 4294967295     -- `CategoryType::all()`

/-- `InputBuffer::cat_of_range`: AND of the masks of the characters, empty set for an empty range;
`none` = slice index out of range (panic) -/
def catOfRange (cat : List Nat) (b e : Nat) : Option Nat :=
  if b ≥ e then some 0
  else if e > cat.length then none
  else some (((cat.drop b).take (e - b)).foldl (fun a c => a &&& c) CAT_ALL)

/-- `WordInfo::normalized_form` -/
def normForm (n : Node) : List Char := if n.norm.isEmpty then n.surface else n.norm

/-- `WordId::is_oov`: dictionary id 15 -/
def widIsOov (w : Nat) : Bool := w / 268435456 == 15
def isOov (n : Node) : Bool := widIsOov n.wid

def WID_INVALID : Nat := 4294967295
def MAX_WORD : Nat := 268435455

/-! ## `node.rs` -/

def sumHwl (blk : List Node) : Nat := blk.foldl (fun a n => a + n.hwl) 0
def catSurface (blk : List Node) : List Char := blk.flatMap (·.surface)

/-- the slice `path[begin..end]` -/
def block (path : List Node) (b e : Nat) : List Node := (path.drop b).take (e - b)

/-- node built by `concat_nodes` from first node `f`, last node `l` and the block -/
def mergedNode (f l : Node) (blk : List Node) (nf : Option (List Char)) : Node :=
  { b := f.b, e := l.e, bb := f.bb, eb := l.eb, wid := WID_INVALID, tc := l.tc,
    left := 65535, right := 65535, cost := 32767, pos := f.pos, hwl := sumHwl blk, dfw := -1,
    aSplit := [], bSplit := [], wStruct := [], syn := [],     -- `..Default::default()`
    surface := catSurface blk,
    norm := match nf with
      | some s => s
      | none => blk.flatMap (·.norm),
    reading := blk.flatMap (·.reading),
    dform := blk.flatMap (·.dform) }

/-- `concat_nodes(path, begin, end, normalized_form)` -/
def concatNodes (path : List Node) (b e : Nat) (nf : Option (List Char)) : Outcome (List Node) :=
  if b ≥ e then .err
  else match path[e - 1]?, path[b]? with
    | some l, some f =>
      if l.eb < f.bb then .panic                 -- `end_bytes - beg_bytes` (usize)
      else
        let blk := block path b e
        if sumHwl blk ≥ 65536 then .panic         -- `head_word_length += …` (u16)
        else .ok (path.take b ++ mergedNode f l blk nf :: path.drop e)
    | _, _ => .panic

def maxWid (blk : List Node) : Nat := blk.foldl (fun a n => if a < n.wid then n.wid else a) 0

def mergedOovNode (f l : Node) (blk : List Node) (posId : Nat) : Node :=
  let w := maxWid blk
  { b := f.b, e := l.e, bb := f.bb, eb := l.eb,
    wid := if widIsOov w then w else (w / 268435456) * 268435456 + MAX_WORD,
    tc := l.tc, left := 65535, right := 65535, cost := 32767, pos := posId, hwl := sumHwl blk,
    dfw := -1, aSplit := [], bSplit := [], wStruct := [], syn := [],
    surface := catSurface blk, norm := catSurface blk, reading := [], dform := catSurface blk }

/-- `concat_oov_nodes(path, begin, end, pos_id)` -/
def concatOovNodes (path : List Node) (b e : Nat) (posId : Nat) : Outcome (List Node) :=
  if b ≥ e then .err
  else match path[e - 1]?, path[b]? with
    | some l, some f =>
      if l.eb < f.bb then .panic
      else
        let blk := block path b e
        if sumHwl blk ≥ 65536 then .panic
        else .ok (path.take b ++ mergedOovNode f l blk posId :: path.drop e)
    | _, _ => .panic

/-! ## `join_katakana_oov` -/

structure KCfg where
  oovPos : Nat
  minLength : Nat
deriving Repr

/-- `is_katakana_node` -/
def isKatakana (cat : List Nat) (n : Node) : Outcome Bool :=
  match catOfRange cat n.b n.e with
  | none => .panic
  | some c => .ok (c &&& KATAKANA == KATAKANA)

/-- `can_oov_bow_node` -/
def canOovBow (cat : List Nat) (n : Node) : Outcome Bool :=
  match cat[n.b]? with
  | none => .panic
  | some c => .ok (!(c &&& NOOOVBOW == NOOOVBOW))

/-- `is_shorter`: `num_codepts() < min_length` with `num_codepts = end - begin` (usize) -/
def isShorter (cfg : KCfg) (n : Node) : Outcome Bool :=
  if n.e < n.b then .panic else .ok (n.e - n.b < cfg.minLength)

/-- backwards scan `begin = i-1; loop { if begin<0 break; if !kat(path[begin]) {begin+=1; break}; begin-=1 }`,
run over the reversed prefix; `k = begin + 1` -/
def scanBackL (cat : List Nat) : List Node → Nat → Outcome Nat
  | [], _ => .ok 0
  | n :: rest, k =>
    match isKatakana cat n with
    | .ok true => scanBackL cat rest (k - 1)
    | .ok false => .ok k
    | .err => .err | .panic => .panic | .fuel => .fuel

def scanBack (cat : List Nat) (path : List Node) (i : Nat) : Outcome Nat :=
  scanBackL cat (path.take i).reverse i

/-- forward scan `end = i+1; loop { if end >= len break; if !kat(path[end]) break; end += 1 }` -/
def scanFwdL (cat : List Nat) : List Node → Nat → Outcome Nat
  | [], e => .ok e
  | n :: rest, e =>
    match isKatakana cat n with
    | .ok true => scanFwdL cat rest (e + 1)
    | .ok false => .ok e
    | .err => .err | .panic => .panic | .fuel => .fuel

def scanFwd (cat : List Nat) (path : List Node) (i : Nat) : Outcome Nat :=
  scanFwdL cat (path.drop (i + 1)) (i + 1)

/-- `while begin != end && !can_oov_bow_node(path[begin]) { begin += 1 }` over `path[begin..end]` -/
def skipBowL (cat : List Nat) : List Node → Nat → Outcome Nat
  | [], b => .ok b
  | n :: rest, b =>
    match canOovBow cat n with
    | .ok false => skipBowL cat rest (b + 1)
    | .ok true => .ok b
    | .err => .err | .panic => .panic | .fuel => .fuel

def skipBow (cat : List Nat) (path : List Node) (b e : Nat) : Outcome Nat :=
  skipBowL cat (block path b e) b

/-- what one iteration of the outer loop decides -/
inductive KStep where
  | next                       -- `i += 1; continue`
  | join (b e : Nat)           -- concat_oov_nodes(path, b, e); i = b + 1; i += 1
deriving Repr, DecidableEq

/-- body of the outer loop for index `i` -/
def kstep (cfg : KCfg) (cat : List Nat) (path : List Node) (i : Nat) (node : Node) : Outcome KStep :=
  (if isOov node then Outcome.ok true else isShorter cfg node).bind fun cand =>
  if !cand then .ok .next else
  (isKatakana cat node).bind fun kt =>
  if !kt then .ok .next else
  (scanBack cat path i).bind fun b0 =>
  (scanFwd cat path i).bind fun e =>
  (skipBow cat path b0 e).bind fun b =>
  if e - b > 1 then .ok (.join b e) else .ok .next

/-- `JoinKatakanaOovPlugin::rewrite_gen` -/
def kloop (cfg : KCfg) (cat : List Nat) : Nat → List Node → Nat → Outcome (List Node)
  | 0, _, _ => .fuel
  | fuel + 1, path, i =>
    if i ≥ path.length then .ok path
    else match path[i]? with
      | none => .panic
      | some node =>
        match kstep cfg cat path i node with
        | .ok .next => kloop cfg cat fuel path (i + 1)
        | .ok (.join b e) =>
          (match concatOovNodes path b e cfg.oovPos with
           | .ok p' => kloop cfg cat fuel p' (b + 2)
           | .err => .err | .panic => .panic | .fuel => .fuel)
        | .err => .err | .panic => .panic | .fuel => .fuel

/-- fuel that always suffices (`C14.katakana_terminates`) -/
def kFuel (path : List Node) : Nat := path.length + 1

def joinKatakana (cfg : KCfg) (cat : List Nat) (path : List Node) : Outcome (List Node) :=
  kloop cfg cat (kFuel path) path 0

/-! ## `join_numeric` -/

/-- outcome of feeding a string to a cleared `NumericParser` (= `verif_parse`):
`n` accepted characters, error state (0 NONE, 1 POINT, 2 COMMA) after the failing `append` or, if all
characters were accepted, after `done()`; `done` and the rendering after `done()`. -/
structure POut where
  n : Nat
  err : Nat
  done : Bool
  norm : List Char
deriving Repr, DecidableEq

def E_POINT : Nat := 1
def E_COMMA : Nat := 2

structure NCfg where
  numPos : Nat
  enableNormalize : Bool
deriving Repr

/-- `JoinNumericPlugin::concat`; `acc` = the characters the parser has consumed -/
def nconcat (cfg : NCfg) (P : List Char → POut) (path : List Node) (b e : Nat) (acc : List Char) :
    Outcome (List Node) :=
  match path[b]? with
  | none => .panic
  | some f =>
    if f.pos != cfg.numPos then .ok path
    else if e < b then .panic                   -- `end - begin` (usize) is evaluated in both branches below
    else if cfg.enableNormalize then
      let nf := (P acc).norm
      if e - b > 1 || nf != normForm f then concatNodes path b e (some nf) else .ok path
    else if e - b > 1 then concatNodes path b e none
    else .ok path

/-- code variants of `rewrite_gen`'s reaction to a failing `parser.append`:

* `cur` — the pinned tree: `if error_state == COMMA { comma_as_digit = false; i = begin_idx - 1 }
  else if error_state == POINT { period_as_digit = false; i = begin_idx - 1 }`;
* `fix` — the repair of F2: `if error_state == COMMA && comma_as_digit { … } else if
  error_state == POINT && period_as_digit { … }` (restart only if the flag was still set).

The harness selects the variant by probing the source it is built against (token `nv=` of the case
line, default `cur`). -/
inductive NVariant where
  | cur
  | fix
deriving Repr, DecidableEq

structure NState where
  path : List Node
  i : Int
  beginIdx : Int
  comma : Bool          -- comma_as_digit
  period : Bool         -- period_as_digit
  acc : List Char       -- characters appended since the last `parser.clear()`
deriving Repr, DecidableEq

/-- UTF-8 width of a scalar value -/
def utf8Width (c : Char) : Nat :=
  if c.toNat < 128 then 1 else if c.toNat < 2048 then 2 else if c.toNat < 65536 then 3 else 4

def utf8Len (s : List Char) : Nat := s.foldl (fun a c => a + utf8Width c) 0

def isNumericCat (c : Nat) : Bool := c &&& (NUMERIC ||| KANJINUMERIC) != 0

/-- one iteration of `while i < path.len() as i32 - 1 { … }` (the caller has checked the guard) -/
def nstep (v : NVariant) (cfg : NCfg) (cat : List Nat) (P : List Char → POut) (st : NState) :
    Outcome NState :=
  let i := st.i + 1
  if i < 0 then .panic else
  match st.path[i.toNat]? with
  | none => .panic
  | some node =>
    match catOfRange cat node.b node.e with
    | none => .panic
    | some ctypes =>
      let s := normForm node
      if isNumericCat ctypes || (st.comma && s == [',']) || (st.period && s == ['.']) then
        -- `if begin_idx < 0 { parser.clear(); begin_idx = i }`
        let bi := if st.beginIdx < 0 then i else st.beginIdx
        let acc0 := if st.beginIdx < 0 then [] else st.acc
        -- `for c in s.chars() { if !parser.append(&c) { … break } }`
        let acc := acc0 ++ s
        let out := P acc
        if out.n < acc.length then
          -- append failed (begin_idx >= 0 holds here)
          match v with
          | .cur =>
            if out.err == E_COMMA then
              .ok { st with i := bi - 1, beginIdx := -1, comma := false, acc := acc }
            else if out.err == E_POINT then
              .ok { st with i := bi - 1, beginIdx := -1, period := false, acc := acc }
            else
              .ok { st with i := i, beginIdx := -1, acc := acc }
          | .fix =>
            if out.err == E_COMMA && st.comma then
              .ok { st with i := bi - 1, beginIdx := -1, comma := false, acc := acc }
            else if out.err == E_POINT && st.period then
              .ok { st with i := bi - 1, beginIdx := -1, period := false, acc := acc }
            else
              .ok { st with i := i, beginIdx := -1, acc := acc }
        else
          .ok { st with i := i, beginIdx := bi, acc := acc }
      else
        let c : Option Char := if utf8Len s == 1 then s.head? else none   -- `char::MAX` = none
        let fin (path : List Node) (i : Int) : Outcome NState :=
          .ok { path := path, i := i, beginIdx := -1,
                comma := if !st.comma && c != some ',' then true else st.comma,
                period := if !st.period && c != some '.' then true else st.period,
                acc := st.acc }
        if st.beginIdx ≥ 0 then
          let out := P st.acc
          if out.done then
            match nconcat cfg P st.path st.beginIdx.toNat i.toNat st.acc with
            | .ok p' => fin p' (st.beginIdx + 1)
            | .err => .err | .panic => .panic | .fuel => .fuel
          else
            if i.toNat < 1 then .panic else
            match st.path[i.toNat - 1]? with
            | none => .panic
            | some prev =>
              let ss := normForm prev
              if (out.err == E_COMMA && ss == [',']) || (out.err == E_POINT && ss == ['.']) then
                match nconcat cfg P st.path st.beginIdx.toNat (i.toNat - 1) st.acc with
                | .ok p' => fin p' (st.beginIdx + 2)
                | .err => .err | .panic => .panic | .fuel => .fuel
              else fin st.path i
        else fin st.path i

/-- `// process last part` -/
def ntail (cfg : NCfg) (P : List Char → POut) (st : NState) : Outcome (List Node) :=
  if st.beginIdx ≥ 0 then
    let len := st.path.length
    let out := P st.acc
    if out.done then nconcat cfg P st.path st.beginIdx.toNat len st.acc
    else
      if len < 1 then .panic else
      match st.path[len - 1]? with
      | none => .panic
      | some last =>
        let ss := normForm last
        if (out.err == E_COMMA && ss == [',']) || (out.err == E_POINT && ss == ['.']) then
          nconcat cfg P st.path st.beginIdx.toNat (len - 1) st.acc
        else .ok st.path
  else .ok st.path

/-- `JoinNumericPlugin::rewrite_gen` -/
def nloop (v : NVariant) (cfg : NCfg) (cat : List Nat) (P : List Char → POut) :
    Nat → NState → Outcome (List Node)
  | 0, _ => .fuel
  | fuel + 1, st =>
    if st.i < (st.path.length : Int) - 1 then
      match nstep v cfg cat P st with
      | .ok st' => nloop v cfg cat P fuel st'
      | .err => .err | .panic => .panic | .fuel => .fuel
    else ntail cfg P st

def nInit (path : List Node) : NState :=
  { path := path, i := -1, beginIdx := -1, comma := true, period := true, acc := [] }

/-- fuel used by the driver.  For the variant `fix` it is never exhausted
(`C14.join_numeric_total`: every iteration moves the start of the current run forward, or clears one
of the two flags, or advances the index); for `cur` no amount suffices on some inputs
(`C14.numeric_rewrite_diverges_counterexample`) and running out is reported as `HANG`. -/
def nFuel (path : List Node) : Nat := 4 * (path.length + 1) * (path.length + 1) + 8

def joinNumeric (v : NVariant) (cfg : NCfg) (cat : List Nat) (P : List Char → POut) (path : List Node) :
    Outcome (List Node) :=
  nloop v cfg cat P (nFuel path) (nInit path)

/-! ## the plugin stack (`for plugin in path_rewrite_plugins { path = plugin.rewrite(..)? }`) -/

inductive Plugin where
  | numeric (cfg : NCfg)
  | katakana (cfg : KCfg)
deriving Repr

def applyPlugin (v : NVariant) (cat : List Nat) (P : List Char → POut) (pl : Plugin) (path : List Node) :
    Outcome (List Node) :=
  match pl with
  | .numeric cfg => joinNumeric v cfg cat P path
  | .katakana cfg => joinKatakana cfg cat path

def rewriteAll (v : NVariant) (cat : List Nat) (P : List Char → POut) :
    List Plugin → List Node → Outcome (List Node)
  | [], path => .ok path
  | pl :: rest, path =>
    match applyPlugin v cat P pl path with
    | .ok p' => rewriteAll v cat P rest p'
    | .err => .err | .panic => .panic | .fuel => .fuel

/-! ## A/B splitting of the rewritten path (`stateless_tokenizer.rs:111 split_path`, called by
`do_tokenize` right after the plugin loop)

`NodeSplitIterator` (the units of ONE node: word infos of the unit ids read from the lexicon, ranges
from the head-word lengths — property C09, `Model/Split.lean`) enters as the parameter
`U : Mode → Node → List Node`; what is modelled here is which nodes of the rewritten path are handed
to it at all: `split_len = node.num_splits(mode); if split_len <= 1 { push(node) } else { extend(split) }`. -/

inductive Mode where
  | A | B | C
deriving Repr, DecidableEq

/-- `ResultNode::num_splits` -/
def numSplits (m : Mode) (n : Node) : Nat :=
  match m with
  | .A => n.aSplit.length
  | .B => n.bSplit.length
  | .C => 0

/-- body of the loop of `split_path` -/
def splitNode (U : Mode → Node → List Node) (m : Mode) (n : Node) : List Node :=
  if numSplits m n ≤ 1 then [n] else U m n

/-- `split_path(dict, path, mode, subset, input)` -/
def splitPath (U : Mode → Node → List Node) (m : Mode) (path : List Node) : List Node :=
  match m with
  | .C => path                                   -- `if mode == Mode::C { return Ok(path) }`
  | _ => path.flatMap (splitNode U m)

/-- `do_tokenize` from the best path on: the plugin loop, then `split_path` -/
def analyse (v : NVariant) (cat : List Nat) (P : List Char → POut) (U : Mode → Node → List Node)
    (pls : List Plugin) (m : Mode) (path : List Node) : Outcome (List Node) :=
  match rewriteAll v cat P pls path with
  | .ok q => .ok (splitPath U m q)
  | .err => .err | .panic => .panic | .fuel => .fuel

/-! ## driver entry -/

def hexStr? (s : List Char) : Option (List Char) :=
  match Wire.hexBytes? s with
  | none => none
  | some bytes => (Wire.utf8Decode bytes).map (fun l => l.map Char.ofNat)

def utf8Encode (c : Char) : List Nat :=
  let n := c.toNat
  if n < 128 then [n]
  else if n < 2048 then [192 + n / 64, 128 + n % 64]
  else if n < 65536 then [224 + n / 4096, 128 + (n / 64) % 64, 128 + n % 64]
  else [240 + n / 262144, 128 + (n / 4096) % 64, 128 + (n / 64) % 64, 128 + n % 64]

def hexDigit (n : Nat) : Char :=
  if n < 10 then Char.ofNat (48 + n) else Char.ofNat (87 + n)

def showHexStr (s : List Char) : String :=
  String.ofList (s.flatMap (fun c => (utf8Encode c).flatMap (fun b => [hexDigit (b / 16), hexDigit (b % 16)])))

/-- `b:e:bb:eb:wid:tc:left:right:cost:pos:hwl:dfw:A:B:W:S:surface:norm:reading:dform`
(`A`, `B`, `W`, `S` = comma-separated id lists, possibly empty) -/
def parseNode (s : List Char) : Option Node :=
  match Wire.items ':' s with
  | [b, e, bb, eb, wid, tc, l, r, c, pos, hwl, dfw, nA, nB, nW, nS, sf, nm, rd, df] =>
    match Wire.nat? b, Wire.nat? e, Wire.nat? bb, Wire.nat? eb, Wire.nat? wid, Wire.int? tc with
    | some b, some e, some bb, some eb, some wid, some tc =>
      match Wire.nat? l, Wire.nat? r, Wire.int? c, Wire.nat? pos, Wire.nat? hwl, Wire.int? dfw with
      | some l, some r, some c, some pos, some hwl, some dfw =>
        match Wire.natList? nA, Wire.natList? nB, Wire.natList? nW, Wire.natList? nS with
        | some nA, some nB, some nW, some nS =>
          match hexStr? sf, hexStr? nm, hexStr? rd, hexStr? df with
          | some sf, some nm, some rd, some df =>
            some { b := b, e := e, bb := bb, eb := eb, wid := wid, tc := tc, left := l, right := r,
                   cost := c, pos := pos, hwl := hwl, dfw := dfw, aSplit := nA, bSplit := nB,
                   wStruct := nW, syn := nS, surface := sf, norm := nm, reading := rd, dform := df }
          | _, _, _, _ => none
        | _, _, _, _ => none
      | _, _, _, _, _, _ => none
    | _, _, _, _, _, _ => none
  | _ => none

def showNode (n : Node) : String :=
  Wire.joinWith ":" [toString n.b, toString n.e, toString n.bb, toString n.eb, toString n.wid,
    toString n.tc, toString n.left, toString n.right, toString n.cost, toString n.pos,
    toString n.hwl, toString n.dfw, Wire.showNats n.aSplit, Wire.showNats n.bSplit,
    Wire.showNats n.wStruct, Wire.showNats n.syn,
    showHexStr n.surface, showHexStr n.norm, showHexStr n.reading, showHexStr n.dform]

def showPath (p : List Node) : String := Wire.joinWith ";" (p.map showNode)

/-- `JoinNumericPlugin::set_up`: `self.enable_normalize = settings.enableNormalize.unwrap_or(true)` — the setting as
it is written in the configuration (`none` = the key is absent) -/
def enableNormalizeOf (setting : Option Bool) : Bool :=
  match setting with
  | some b => b
  | none => true

/-- `N:<0|1|empty>:<numPos>` (empty = `enableNormalize` is not in the settings) or `K:<minLength>:<oovPos>` -/
def parsePlugin (s : List Char) : Option Plugin :=
  match Wire.items ':' s with
  | [['N'], en, np] =>
    if en.isEmpty then
      match Wire.nat? np with
      | some np => some (.numeric { numPos := np, enableNormalize := enableNormalizeOf none })
      | none => none
    else
    match Wire.nat? en, Wire.nat? np with
    | some en, some np => some (.numeric { numPos := np, enableNormalize := enableNormalizeOf (some (en != 0)) })
    | _, _ => none
  | [['K'], ml, op] =>
    match Wire.nat? ml, Wire.nat? op with
    | some ml, some op => some (.katakana { oovPos := op, minLength := ml })
    | _, _ => none
  | _ => none

/-- parser table entry `<query hex>:<n>:<err>:<done>:<norm hex>` -/
def parsePq (s : List Char) : Option (List Char × POut) :=
  match Wire.items ':' s with
  | [q, n, er, dn, nm] =>
    match hexStr? q, Wire.nat? n, Wire.nat? er, Wire.nat? dn, hexStr? nm with
    | some q, some n, some er, some dn, some nm => some (q, { n := n, err := er, done := dn != 0, norm := nm })
    | _, _, _, _, _ => none
  | _ => none

/-- marker outcome for a query that the shipped table does not contain (shows up as a mismatch) -/
def missing : POut := { n := 0, err := 99, done := false, norm := ['?'] }

def tableP (tab : List (List Char × POut)) (q : List Char) : POut :=
  match tab.find? (fun p => p.1 == q) with
  | some p => p.2
  | none => missing

def showOutcome (o : Outcome (List Node)) : String :=
  match o with
  | .ok p => "ok " ++ showPath p
  | .err => "err"
  | .panic => "PANIC"
  | .fuel => "HANG"

/-- token `nv=cur|fix`: which variant of the numeric loop the tree under test has; absent = `cur`;
anything else is rejected -/
def parseVariant (t : Option (List Char)) : Option NVariant :=
  match t with
  | none => some .cur
  | some s => if s == "cur".toList then some .cur else if s == "fix".toList then some .fix else none

/-- unit table entry `<b>|<e>|<wid>|<node>;<node>;…`: what `NodeSplitIterator` yields for the node
with that range and word id (observed on the un-rewritten analysis in the same mode) -/
def parseUnits (s : List Char) : Option ((Nat × Nat × Nat) × List Node) :=
  match Wire.items '|' s with
  | [b, e, w, ns] =>
    match Wire.nat? b, Wire.nat? e, Wire.nat? w, Wire.allSome ((Wire.items ';' ns).map parseNode) with
    | some b, some e, some w, some ns => some ((b, e, w), ns)
    | _, _, _, _ => none
  | _ => none

/-- a node that the shipped table does not contain yields no units (shows up as a mismatch) -/
def tableU (tab : List ((Nat × Nat × Nat) × List Node)) (n : Node) : List Node :=
  match tab.find? (fun p => p.1 == (n.b, n.e, n.wid)) with
  | some p => p.2
  | none => []

def parseUnitTab (t : Option (List Char)) : Option (Option (List ((Nat × Nat × Nat) × List Node))) :=
  match t with
  | none => some none
  | some s => (Wire.allSome ((Wire.items '/' s).map parseUnits)).map some

/-! ### outcome class of every plugin run (op `plug`: the plugins are called one by one on a path that need not
come from the analyser, each call under `catch_unwind`) -/

def classOf (o : Outcome (List Node)) : String :=
  match o with
  | .ok _ => "ok"
  | .err => "err"
  | .panic => "PANIC"
  | .fuel => "HANG"

/-- the plugin loop with the outcome class of every run; it stops at the first run that is not `ok`
(`path = plugin.rewrite(..)?`).  The second component is `rewriteAll` (`Rewrite.rewriteTrace_snd`). -/
def rewriteTrace (v : NVariant) (cat : List Nat) (P : List Char → POut) :
    List Plugin → List Node → List String × Outcome (List Node)
  | [], path => ([], .ok path)
  | pl :: rest, path =>
    match applyPlugin v cat P pl path with
    | .ok p' =>
      let r := rewriteTrace v cat P rest p'
      ("ok" :: r.1, r.2)
    | o => ([classOf o], o)

/-- `C14 plug idx=.. trace=1 [nv=cur|fix] cat=<masks> plugins=<p;p..> path=<node;..> pq=<entry;..>`;
answer `runs=<class,class..> <ok path | err | PANIC | HANG>` -/
def handleTrace (toks : List (List Char)) : String :=
  match Wire.kv? toks "cat", Wire.kv? toks "plugins", Wire.kv? toks "path", Wire.kv? toks "pq",
        parseVariant (Wire.kv? toks "nv") with
  | some c, some pl, some pa, some pq, some v =>
    match Wire.natList? c, Wire.allSome ((Wire.items ';' pl).map parsePlugin),
          Wire.allSome ((Wire.items ';' pa).map parseNode), Wire.allSome ((Wire.items ';' pq).map parsePq) with
    | some cat, some plugins, some path, some tab =>
      let r := rewriteTrace v cat (tableP tab) plugins path
      "runs=" ++ Wire.joinWith "," r.1 ++ " " ++ showOutcome r.2
    | _, _, _, _ => "bad-op"
  | _, _, _, _, _ => "bad-op"

/-- `C14 stack idx=.. [nv=cur|fix] cat=<masks> plugins=<p;p..> path=<node;..> pq=<entry;..>
[ua=<units/..>] [ub=<units/..>]`; answer `ok <mode-C path>[ A=<mode-A path>][ B=<mode-B path>]`;
with the token `trace=1`: `handleTrace` -/
def handle (toks : List (List Char)) : String :=
  if (Wire.kv? toks "trace").isSome then handleTrace toks else
  match Wire.kv? toks "cat", Wire.kv? toks "plugins", Wire.kv? toks "path", Wire.kv? toks "pq",
        parseVariant (Wire.kv? toks "nv") with
  | some c, some pl, some pa, some pq, some v =>
    match Wire.natList? c, Wire.allSome ((Wire.items ';' pl).map parsePlugin),
          Wire.allSome ((Wire.items ';' pa).map parseNode), Wire.allSome ((Wire.items ';' pq).map parsePq),
          parseUnitTab (Wire.kv? toks "ua"), parseUnitTab (Wire.kv? toks "ub") with
    | some cat, some plugins, some path, some tab, some ua, some ub =>
      let U : Mode → Node → List Node := fun m n =>
        match m, ua, ub with
        | .A, some t, _ => tableU t n
        | .B, _, some t => tableU t n
        | _, _, _ => []
      match analyse v cat (tableP tab) U plugins .C path with
      | .ok q =>
        let sa := match ua with
          | some _ => " A=" ++ showOutcome (analyse v cat (tableP tab) U plugins .A path)
          | none => ""
        let sb := match ub with
          | some _ => " B=" ++ showOutcome (analyse v cat (tableP tab) U plugins .B path)
          | none => ""
        "ok " ++ showPath q ++ sa ++ sb
      | o => showOutcome o
    | _, _, _, _, _, _ => "bad-op"
  | _, _, _, _, _ => "bad-op"

end Rewrite
