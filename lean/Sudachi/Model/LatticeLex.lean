import Sudachi.Model.LatticeRec
/-!
# `LatticeBuilder::build_lattice` with the DICTIONARY inside the model (property C02, third round)

`Model/LatticeRec.lean` is handed the candidate list.  Here the position loop of `build_lattice`
(`analysis/stateful_tokenizer.rs`) is transcribed on top of the recycled lattice `Vit.Lat`:

```
self.lattice.reset(self.input.current_chars().len());
for (ch_off, &byte_off) in self.input.curr_byte_offsets().iter().enumerate() {
    if !self.lattice.has_previous_node(ch_off) { continue; }
    for e in self.lexicon.lookup(input_bytes, byte_off) {
        if (e.end < input_bytes.len()) && !self.input.can_bow(e.end) { continue; }
        let (left_id, right_id, cost) = self.lexicon.get_word_param(e.word_id);
        let end_c = self.input.ch_idx(e.end);
        … Node::new(ch_off as u16, end_c as u16, left_id as u16, right_id as u16, cost, e.word_id) …
        self.lattice.insert(node, self.matrix);
    }
    … OOV providers (C13), each node inserted …
    if created.is_empty() { return Err(SudachiError::EosBosDisconnect); }
}
self.lattice.connect_eos(self.matrix)?;
```

* `LexiconSet::lookup` enters by its C04 contract (`C04.lookup_spec`): `dictLookup` is the naive scan of the source rows —
  dictionaries from the last to the first, within a dictionary by increasing key length, within a key in row order,
  `word id = dictionary · 2²⁸ + row` (`Proofs/LatticeLex.lean: dictLookup_eq_spec` shows it IS C04's `specSetFrom`).
* `get_word_param(word_id)` = the `(left, right, cost)` columns of row `word_id.word()` of dictionary `word_id.dic()`;
  `left_id as u16` is `toU16`.  An id without a row is an index panic (`none`).
* `can_bow(e.end)` = `mod_bow[e.end]`, `ch_idx(e.end)` = `mod_b2c[e.end]`, `curr_byte_offsets()` = `mod_c2b` without its last
  entry; an access out of range is a panic (`none`).
* `has_previous_node(i)` = `self.ends.get(i).map(|d| !d.is_empty()).unwrap_or(false)` reads the `ends` vector of the
  RECYCLED state (not bounded by `size`).
* the OOV providers are C13's subject: what they pushed at a position is data of the case (`oov`, every node with
  its begin position); `created.is_empty()` is "nothing was inserted at this position" (every word has a positive
  length, so `CreatedWords::add_word` sets a bit).
* `ConnectionMatrix::index` = `right * num_left + left` on the cells of the matrix TEXT, `InhibitConnectionPlugin::edit`
  = `update(left, right, i16::MAX)` for every configured pair, in order (`connOf`).

`ch_off as u16` / `end_c as u16` are the identity for texts the tokenizer accepts (at most 49149 bytes) and are not modelled.
-/
namespace Vit

/-- one source row of a dictionary as far as the builder is concerned: surface bytes and the three parameter columns;
`left < 0` = the row is not indexed -/
structure DWord where
  key : List Nat
  left : Int
  right : Int
  cost : Int
deriving DecidableEq, Repr

/-- `x as u16` for an `i16` -/
def toU16 (x : Int) : Nat := (x % 65536).toNat

/-- rows of one dictionary that are indexed under `key`, in row order (row numbers from `i`) -/
def idsOfKey : Nat → List DWord → List Nat → List Nat
  | _, [], _ => []
  | i, e :: es, key => if decide (0 ≤ e.left) && e.key == key then i :: idsOfKey (i + 1) es key else idsOfKey (i + 1) es key

/-- `Lexicon::lookup(input, off)` of dictionary number `d`, `t` = the bytes from `off`: one entry `(word id, end)` for every
indexed row whose key is a prefix, by increasing key length, rows in order -/
def lexLookupD (d : Nat) (es : List DWord) (off : Nat) (t : List Nat) : List (Nat × Nat) :=
  (List.range t.length).flatMap (fun l =>
    (idsOfKey 0 es (t.take (l + 1))).map (fun i => (d * 268435456 + i, off + l + 1)))

/-- `LexiconSet::lookup`: `self.lexicons.iter().rev().flat_map(..)`; `d` = number of the first dictionary of the list -/
def dictLookupFrom (d : Nat) : List (List DWord) → Nat → List Nat → List (Nat × Nat)
  | [], _, _ => []
  | es :: rest, off, t => dictLookupFrom (d + 1) rest off t ++ lexLookupD d es off t

/-- what the builder has besides the lattice -/
structure BIn where
  text : List Nat                 -- bytes of the normalised text
  nchars : Nat                    -- `current_chars().len()`
  c2b : List Nat                  -- `mod_c2b` (one entry per character + the end)
  b2c : List Nat                  -- `mod_b2c`
  bow : List Bool                 -- `mod_bow`, per byte
  dicts : List (List DWord)       -- system dictionary first, then the user dictionaries
  oov : List Node                 -- everything the OOV providers pushed, in insertion order
deriving Repr

def dictLookup (x : BIn) (off : Nat) : List (Nat × Nat) := dictLookupFrom 0 x.dicts off (x.text.drop off)

/-- `get_word_param(word_id)`: `lexicons[dic].word_params[3·word ..]`; `none` = out of range -/
def wordParam (x : BIn) (w : Nat) : Option DWord := (x.dicts[w / 268435456]?).bind (·[w % 268435456]?)

/-- one `LexiconEntry` of the look-up at character `o`: `none` = a panic (index), `some none` = skipped by the
`can_bow` test, `some (some (word id, node))` = inserted -/
def candOf (x : BIn) (o : Nat) (we : Nat × Nat) : Option (Option (Nat × Node)) :=
  let skip : Option Bool := if we.2 < x.text.length then (x.bow[we.2]?).map (fun b => !b) else some false
  match skip with
  | none => none
  | some true => some none
  | some false =>
    match wordParam x we.1, x.b2c[we.2]? with
    | some p, some ec => some (some (we.1, ⟨o, ec, toU16 p.left, toU16 p.right, p.cost⟩))
    | _, _ => none

def candsGo (x : BIn) (o : Nat) : List (Nat × Nat) → Option (List (Nat × Node))
  | [] => some []
  | we :: rest =>
    match candOf x o we, candsGo x o rest with
    | some none, some r => some r
    | some (some c), some r => some (c :: r)
    | _, _ => none

/-- the dictionary words inserted at character `o` (byte `bo`), with their word ids, in insertion order -/
def lexCands (x : BIn) (o bo : Nat) : Option (List (Nat × Node)) := candsGo x o (dictLookup x bo)

/-- what the providers pushed at `o` -/
def oovAt (x : BIn) (o : Nat) : List Node := x.oov.filter (fun n => n.b == o)

/-- everything inserted at `o`: dictionary words first, then the providers' nodes -/
def candsAt (x : BIn) (o bo : Nat) : Option (List Node) :=
  (lexCands x o bo).map (fun lc => lc.map (·.2) ++ oovAt x o)

/-- `curr_byte_offsets().iter().enumerate()`; `none` = `mod_c2b` empty (`len - 1` underflows) -/
def positions (x : BIn) : Option (List (Nat × Nat)) :=
  if x.c2b.isEmpty then none else some (x.c2b.dropLast.zipIdx.map (fun p => (p.2, p.1)))

/-- `Lattice::has_previous_node` -/
def hasPrev (s : Lat) (i : Nat) : Bool :=
  match s.ends[i]? with
  | some d => !d.isEmpty
  | none => false

variable (conn : Nat → Nat → Int)

/-- the position loop on the lattice state; `(s, true)` = the loop ran to its end, `(s, false)` = it returned
`Err(EosBosDisconnect)` at a position where nothing was created, `none` = a panic -/
def buildLatS (x : BIn) : List (Nat × Nat) → Lat → Option (Lat × Bool)
  | [], s => some (s, true)
  | (o, bo) :: rest, s =>
    if !hasPrev s o then buildLatS x rest s else
    match candsAt x o bo with
    | none => none
    | some new =>
      match buildS conn new s with
      | none => none
      | some s' => if new.isEmpty then some (s', false) else buildLatS x rest s'

/-- `build_lattice` on ANY previous lattice state: `reset`, the loop, `connect_eos` (only when the loop ran to its end).
The flag is `true` for `Ok(())`, `false` for `Err(EosBosDisconnect)` -/
def buildLattice (x : BIn) (s : Lat) : Option (Lat × Bool) :=
  match reset s x.nchars, positions x with
  | some s1, some ps =>
    match buildLatS conn x ps s1 with
    | none => none
    | some (s2, false) => some (s2, false)
    | some (s2, true) => connectEosS conn s2
  | _, _ => none

/-! ### the same candidates as a list (what the optimality theorems quantify over) -/

/-- `has_previous_node` on the nodes inserted so far: the BOS entry of row 0 or a node ending at `p` -/
def reachable (acc : List Node) (p : Nat) : Bool := p == 0 || acc.any (fun n => n.e == p)

/-- the insertion sequence of the loop: all nodes inserted so far, and whether the loop ran to its end -/
def collect (x : BIn) : List (Nat × Nat) → List Node → Option (List Node × Bool)
  | [], acc => some (acc, true)
  | (o, bo) :: rest, acc =>
    if !reachable acc o then collect x rest acc else
    match candsAt x o bo with
    | none => none
    | some new => if new.isEmpty then some (acc, false) else collect x rest (acc ++ new)

/-! ### the connection matrix: cells of the matrix text, edited by the `InhibitConnectionPlugin`s -/

/-- `ConnectionMatrix::update(left, right, i16::MAX)` for every pair, in order; `index = right * num_left + left` -/
def inhibit (numLeft : Nat) (cells : Array Int) (pairs : List (Nat × Nat)) : Array Int :=
  pairs.foldl (fun a p => a.setIfInBounds (p.2 * numLeft + p.1) 32767) cells

/-- `ConnectionMatrix::cost(left, right)` -/
def connOf (numLeft : Nat) (cells : Array Int) : Nat → Nat → Int := fun a b => cells.getD (b * numLeft + a) 0

/-! ## driver -/

def parseDWord (s : List Char) : Option DWord :=
  match Wire.splitOn ':' s with
  | [k, l, r, c] =>
    match Wire.hexBytes? k, Wire.int? l, Wire.int? r, Wire.int? c with
    | some k', some l', some r', some c' => some ⟨k', l', r', c'⟩
    | _, _, _, _ => none
  | _ => none

def parseDicts (s : List Char) : Option (List (List DWord)) :=
  Wire.allSome ((Wire.splitOn '|' s).map (fun d => Wire.allSome ((Wire.items ';' d).map parseDWord)))

def parsePair (s : List Char) : Option (Nat × Nat) :=
  match Wire.natTuple? s with
  | some [a, b] => some (a, b)
  | _ => none

def parseBIn (toks : List (List Char)) : Option BIn :=
  match Wire.kv? toks "txt", Wire.kv? toks "len", Wire.kv? toks "c2b", Wire.kv? toks "b2c", Wire.kv? toks "bow",
      Wire.kv? toks "dic", Wire.kv? toks "oov" with
  | some t, some n, some c, some b, some w, some d, some o =>
    match Wire.hexBytes? t, Wire.nat? n, Wire.natList? c, Wire.natList? b, parseDicts d,
        Wire.allSome ((Wire.items ';' o).map parseNode) with
    | some t', some n', some c', some b', some d', some o' => some ⟨t', n', c', b', w.map (· == '1'), d', o'⟩
    | _, _, _, _, _, _ => none
  | _, _, _, _, _, _, _ => none

/-- the dictionary words accepted at every processed position, by end (stable): `o:wid.e,wid.e;…`; the loop stops at
the first processed position where nothing was created -/
def showLexGo (x : BIn) (F : List Node) : List (Nat × Nat) → List String
  | [] => []
  | p :: rest =>
    if !reachable F p.1 then showLexGo x F rest else
    match lexCands x p.1 p.2 with
    | none => ["?"]
    | some lc =>
      if lc.isEmpty && (oovAt x p.1).isEmpty then [] else
      (if lc.isEmpty then [] else
        [toString p.1 ++ ":" ++ Wire.joinWith "," ((List.range (x.nchars + 1)).flatMap (fun e =>
          (lc.filter (fun c => c.2.e == e)).map (fun c => toString c.1 ++ "." ++ toString e)))]) ++ showLexGo x F rest

def showLex (x : BIn) (ps : List (Nat × Nat)) (F : List Node) : String := Wire.joinWith ";" (showLexGo x F ps)

/-- `C02 build len=<chars> conn=<num_left>:<num_right>:<cells of the matrix text> inh=<a:b;…> txt=<hex> c2b= b2c= bow=<0/1…>
dic=<key hex:left:right:cost;…|…> oov=<b:e:l:r:c;…> ok=<0|1> ps= po= pe= pf= pi=` (the previous lattice state as in
`handleRec`).  The driver executes `build_lattice` on that state — `reset`, the position loop with its own dictionary
look-up, `can_bow` filter, `get_word_param`, `ch_idx`, every `insert`, `connect_eos` — then `fill_top_path`, `node`.
Answer: `<ok|Disconnect> size= lens= rows= lex=<o:wid.e,…;…> [eos= path= nodes= mc=]`. -/
def handleLex (toks : List (List Char)) : String :=
  match Wire.kv? toks "conn", Wire.kv? toks "inh", parseBIn toks, parseLat toks with
  | some cn, some inh, some x, some prev =>
    match Wire.splitOn ':' cn, Wire.allSome ((Wire.items ';' inh).map parsePair) with
    | [nl, _nr, cells], some pairs =>
      match Wire.nat? nl, Wire.intList? cells with
      | some numLeft, some cs =>
        let conn := connOf numLeft (inhibit numLeft cs.toArray pairs)
        match buildLattice conn x prev, positions x with
        | some (s3, okb), some ps =>
          match showLens s3, Wire.allSome ((List.range s3.size).map (showRow s3)) with
          | some lens, some rows =>
            let F := (s3.full.take s3.size).flatten
            let head := (if okb then "ok" else "Disconnect") ++ " size=" ++ toString s3.size ++ " lens=" ++ lens ++
              " rows=" ++ Wire.joinWith "/" rows ++ " lex=" ++ showLex x ps F
            match s3.eos with
            | none => head ++ " eos=x path=x nodes=x mc=x"
            | some (id, c) =>
              match resolvePath s3 with
              | none => "PANIC"
              | some p =>
                head ++ " eos=" ++ showIdx id ++ ":" ++ toString c ++
                  " path=" ++ toString (chainCost conn bos (p.map (·.1))) ++
                  " nodes=" ++ Wire.joinWith ";" (p.map (fun x => showNode x.1 ++ ":" ++ showOptInt x.2)) ++
                  " mc=" ++ (if Wire.kv? toks "ok" == some ['0'] then "x" else Wire.joinWith "," (p.map (fun x => showOptInt x.2)))
          | _, _ => "PANIC"
        | _, _ => "PANIC"
      | _, _ => "bad-op"
    | _, _ => "bad-op"
  | _, _, _, _ => "bad-op"

end Vit
