import Sudachi.Model.Wire
/-!
# Recycling discipline of `StatefulTokenizer` + `InputBuffer` + `Lattice` + `MorphemeList`  (property C10)

Anchors: `analysis/stateful_tokenizer.rs` (`reset`, `do_tokenize`, `resolve_best_path`, `swap_result`,
`set_mode`, `set_subset`, `LatticeBuilder::build_lattice`), `analysis/lattice.rs` (`reset_vec`, `reset`,
`insert`, `connect_eos`), `input_text/buffer/mod.rs` (`reset`, `start_build`, `with_editor`, `commit`,
`refresh_chars`, `build`, `fill_cat_continuity`, `fill_orig_b2c`), `analysis/mlist.rs`
(`collect_results`, `split_into`, `assign_input`, `lookup`, `clear`, `empty`, `empty_clone`).

Every recycled field is an explicit list; every operation is the literal sequence of buffer events
(`clear`, `extend`/`push`, `resize`, indexed write, `swap`, `take`, `drain`, early `return Err`).
What is pushed (the *payload*) is an abstract function of the fields that phase reads, collected in
`Payload`; the element type `E` is abstract.  `modified_2` is private and has no accessor, so no payload
receives it (`Input.view`); input-text plugins run while `m2o_2` is scratch and do not receive it either.

Idealisations (documented, see REPORT): `pushRow`/`applyWrites` ignore an out-of-range index where the Rust
would panic (candidate ends and table writes are in range by C02/C08/C13); `RefCell` double borrows
(`MorphemeListBorrowed`) cannot happen in a sequential history and are not modelled.
-/
namespace Recycle

inductive BufState | clean | rw | ro
deriving DecidableEq, Repr, Inhabited

inductive Mode | A | B | C
deriving DecidableEq, Repr, Inhabited

inductive Err | tooLong | disconnect | other
deriving DecidableEq, Repr

/-- result of one API call; `panic` = the Rust unwinds (`unwrap` on `None`, `debug_assert`) -/
inductive Outcome | ok | err (e : Err) | panic
deriving DecidableEq, Repr

/-! ## `InfoSubset` -/

structure Subset where
  surface : Bool
  headLen : Bool
  pos : Bool
  norm : Bool
  dicForm : Bool
  reading : Bool
  splitA : Bool
  splitB : Bool
  wordStruct : Bool
  syn : Bool
deriving DecidableEq, Repr

namespace Subset
def all : Subset := ⟨true, true, true, true, true, true, true, true, true, true⟩
def empty : Subset := ⟨false, false, false, false, false, false, false, false, false, false⟩
def union (a b : Subset) : Subset :=
  ⟨a.surface || b.surface, a.headLen || b.headLen, a.pos || b.pos, a.norm || b.norm, a.dicForm || b.dicForm,
   a.reading || b.reading, a.splitA || b.splitA, a.splitB || b.splitB, a.wordStruct || b.wordStruct, a.syn || b.syn⟩
/-- `InfoSubset::normalize` -/
def normalize (s : Subset) : Subset :=
  let s := if s.reading || s.norm || s.dicForm then { s with surface := true } else s
  if s.splitA || s.splitB then { s with headLen := true } else s
/-- flag inclusion -/
def le (a b : Subset) : Bool :=
  (!a.surface || b.surface) && (!a.headLen || b.headLen) && (!a.pos || b.pos) && (!a.norm || b.norm) &&
  (!a.dicForm || b.dicForm) && (!a.reading || b.reading) && (!a.splitA || b.splitA) && (!a.splitB || b.splitB) &&
  (!a.wordStruct || b.wordStruct) && (!a.syn || b.syn)
def ofMode : Mode → Subset
  | .A => { empty with splitA := true }
  | .B => { empty with splitB := true }
  | .C => empty
end Subset

/-! ## `InputBuffer` -/

structure Input (E : Type) where
  original : List E
  modified : List E
  modified2 : List E
  m2o : List E
  m2o2 : List E
  modChars : List E
  modC2b : List E
  modB2c : List E
  modBow : List E
  modCat : List E
  modCatCont : List E
  replaces : List E
  state : BufState

/-- `InputBuffer::default()` -/
def Input.empty {E : Type} : Input E := ⟨[], [], [], [], [], [], [], [], [], [], [], [], .clean⟩

/-- what code outside `buffer/mod.rs` can read: everything but the private scratch string -/
def Input.view {E : Type} (i : Input E) : Input E := { i with modified2 := [] }

/-- what an input-text plugin reads (RW phase): neither scratch buffer -/
def Input.editView {E : Type} (i : Input E) : Input E := { i with modified2 := [], m2o2 := [] }

/-- an input-text plugin: `uses_chars()` and the replacements `rewrite_impl` pushes (or its `Err`) -/
structure Plugin (E : Type) where
  usesChars : Bool
  edits : Input E → Option (List E)

/-- payload of a path phase: the pushed nodes or the way the phase ends early -/
inductive PathRes (E : Type)
  | nodes (l : List E)
  | fail          -- `return Err(..)` through `?`
  | unwind        -- a panic inside the phase (e.g. `NodeSplitIterator::next` … `.unwrap()`, indexing)

/-- Everything the buffers are filled with, as functions of the fields the filling phase reads. -/
structure Payload (E : Type) where
  /-- `MAX_LENGTH` (49 149) and `REALLY_MAX_LENGTH` (65 535) -/
  maxLen : Nat
  reallyMax : Nat
  /-- `0..modified.len()+1` -/
  identMap : List E → List E
  /-- `modified.chars()` -/
  chars : List E → List E
  plugins : List (Plugin E)
  /-- `resolve_edits(modified, m2o, replaces)`: text appended to `modified_2`, entries appended to `m2o_2`,
      resulting size -/
  resolve : List E → List E → List E → List E × List E × Nat
  cats : List E → List E
  c2b : List E → List E
  b2c : List E → List E
  /-- `mod_c2b.push(self.mod_b2c.len())` reads the *field* -/
  lenElem : List E → E
  b2cLast : List E → E
  bowDefault : E
  bowWrites : List E → List (Nat × E)
  contDefault : E
  /-- `fill_cat_continuity` reads the whole `mod_cat` field -/
  contWrites : List E → List (Nat × E)
  ob2cDefault : E
  ob2cWrites : List E → List (Nat × E)
  /-- BOS entry of `ends[0]` -/
  bos : E
  /-- lexicon + OOV candidates starting at a character offset, in insertion order: (end, node) -/
  cands : Input E → Nat → List (Nat × E)
  /-- `connect_node`: reads the row `ends[begin]`; returns (back pointer, VNode) -/
  connect : List E → E → E × E
  /-- `connect_eos` on the row `ends[size-1]`: `none` = cost `i32::MAX` -/
  eosOf : List E → Option E
  /-- `fill_top_path`: reads `eos` and `indices` (rows below `size`) -/
  fillTop : Option E → List (List E) → List E
  /-- loop of `resolve_best_path`: one `ResultNode` per id (reads lattice rows below `size`, the input, the subset) -/
  pathNodes : Subset → Input E → List (List E) → List (List E) → List E → PathRes E
  /-- path-rewrite plugins followed by `split_path` -/
  rewritePath : Mode → Subset → Input E → List E → PathRes E
  /-- `split_into`: `node.split(mode, lexicon, subset, input)`; `[]` = `num_splits == 0` -/
  splitNodes : Mode → Subset → Input E → E → List E
  /-- `lookup`: nodes pushed and whether `get_word_info_subset` failed on the way -/
  lookupNodes : List E → Subset → List E × Bool
  /-- `MorphemeList::lookup` writes its `subset` argument into the list's part (repair 171a12c) -/
  lookupSets : Bool := false

/-- `InputBuffer::reset` (the caller then writes the text into `original`) -/
def Input.reset {E : Type} (i : Input E) : Input E :=
  { i with original := [], modified := [], m2o := [], modChars := [], modC2b := [], modB2c := [],
           modBow := [], modCat := [], modCatCont := [], state := .clean }

/-- `start_build` -/
def Input.startBuild {E : Type} (P : Payload E) (i : Input E) : Input E × Outcome :=
  if i.original.length > P.maxLen then (i, .err .tooLong)
  else if i.state ≠ .clean then (i, .panic)             -- debug_assert_eq!(state, Clean)
  else
    let modified := i.modified ++ i.original            -- push_str
    ({ i with state := .rw, modified := modified, m2o := i.m2o ++ P.identMap modified }, .ok)

/-- `refresh_chars` -/
def Input.refreshChars {E : Type} (P : Payload E) (i : Input E) : Input E :=
  if i.modChars.isEmpty then { i with modChars := i.modChars ++ P.chars i.modified } else i

/-- `commit` -/
def Input.commit {E : Type} (P : Payload E) (i : Input E) : Input E × Outcome :=
  if i.replaces.isEmpty then (i, .ok) else
  let i1 := { i with modChars := [], modified2 := [], m2o2 := [] }
  let r := P.resolve i1.modified i1.m2o i1.replaces
  -- `edits.drain(..)`: emptied on both exits of `resolve_edits`
  let i2 := { i1 with modified2 := i1.modified2 ++ r.1, m2o2 := i1.m2o2 ++ r.2.1, replaces := [] }
  if r.2.2 > P.reallyMax then (i2, .err .tooLong)
  else ({ i2 with modified := i2.modified2, modified2 := i2.modified, m2o := i2.m2o2, m2o2 := i2.m2o }, .ok)

/-- `with_editor` -/
def Input.withEditor {E : Type} (P : Payload E) (pl : Plugin E) (i : Input E) : Input E × Outcome :=
  if i.state ≠ .rw then (i, .panic) else                -- debug_assert_eq!(state, RW)
  match pl.edits i.editView with
  | some eds => Input.commit P { i with replaces := i.replaces ++ eds }
  | none => ({ i with replaces := [] }, .err .other)    -- rollback

/-- `InputTextPlugin::rewrite` -/
def Input.rewrite {E : Type} (P : Payload E) (pl : Plugin E) (i : Input E) : Input E × Outcome :=
  Input.withEditor P pl (if pl.usesChars then Input.refreshChars P i else i)

/-- `rewrite_input`: every plugin in order, `?` after each -/
def Input.rewriteAll {E : Type} (P : Payload E) : List (Plugin E) → Input E → Input E × Outcome
  | [], i => (i, .ok)
  | pl :: rest, i =>
    match Input.rewrite P pl i with
    | (i', .ok) => Input.rewriteAll P rest i'
    | r => r

/-- `Vec::resize` -/
def resize {E : Type} (l : List E) (n : Nat) (d : E) : List E :=
  (l ++ List.replicate (n - l.length) d).take n

/-- indexed writes `v[k] = x` -/
def applyWrites {E : Type} (l : List E) : List (Nat × E) → List E
  | [] => l
  | (k, v) :: ws => applyWrites (l.set k v) ws

/-- `build` (with `fill_cat_continuity`, `fill_orig_b2c`) -/
def Input.build {E : Type} (P : Payload E) (i : Input E) : Input E × Outcome :=
  if i.state ≠ .rw then (i, .panic) else                -- debug_assert_eq!(state, RW)
  let bow0 := resize i.modBow i.modified.length P.bowDefault
  let modChars := ([] : List E) ++ P.chars i.modified   -- clear(); push per char
  let modCat := i.modCat ++ P.cats i.modified
  let b2c := i.modB2c ++ P.b2c i.modified
  let c2b := i.modC2b ++ P.c2b i.modified ++ [P.lenElem b2c]
  let b2c := b2c ++ [P.b2cLast i.modified]
  let bow := applyWrites bow0 (P.bowWrites i.modified)
  let cont := if modChars.isEmpty then i.modCatCont
              else applyWrites (resize i.modCatCont modChars.length P.contDefault) (P.contWrites modCat)
  let m2o2 := applyWrites (resize ([] : List E) (i.original.length + 1) P.ob2cDefault) (P.ob2cWrites i.original)
  ({ i with state := .ro, modChars := modChars, modCat := modCat, modB2c := b2c, modC2b := c2b, modBow := bow,
            modCatCont := cont, m2o2 := m2o2 }, .ok)

/-! ## `Lattice` -/

structure Lattice (E : Type) where
  ends : List (List E)
  endsFull : List (List E)
  indices : List (List E)
  eos : Option E
  size : Nat

def Lattice.empty {E : Type} : Lattice E := ⟨[], [], [], none, 0⟩

/-- `reset_vec`: every existing row cleared, rows added up to `target`, never dropped -/
def resetVec {E : Type} (rows : List (List E)) (target : Nat) : List (List E) :=
  let cleared := rows.map (fun _ => ([] : List E))
  if cleared.length ≤ target then cleared ++ List.replicate (target - cleared.length) [] else cleared

/-- `rows[k].push(x)` -/
def pushRow {E : Type} : List (List E) → Nat → E → List (List E)
  | [], _, _ => []
  | r :: rs, 0, x => (r ++ [x]) :: rs
  | r :: rs, k + 1, x => r :: pushRow rs k x

def rowAt {E : Type} : List (List E) → Nat → List E
  | [], _ => []
  | r :: _, 0 => r
  | _ :: rs, k + 1 => rowAt rs k

/-- `Lattice::reset` + `connect_bos` -/
def Lattice.reset {E : Type} (P : Payload E) (l : Lattice E) (length : Nat) : Lattice E :=
  { ends := pushRow (resetVec l.ends (length + 1)) 0 P.bos,
    endsFull := resetVec l.endsFull (length + 1),
    indices := resetVec l.indices (length + 1),
    eos := none, size := length + 1 }

/-- `Lattice::insert` -/
def Lattice.insert {E : Type} (P : Payload E) (l : Lattice E) (begin : Nat) (c : Nat × E) : Lattice E :=
  let r := P.connect (rowAt l.ends begin) c.2
  { l with ends := pushRow l.ends c.1 r.2, indices := pushRow l.indices c.1 r.1,
           endsFull := pushRow l.endsFull c.1 c.2 }

/-- `has_previous_node` -/
def Lattice.hasPrev {E : Type} (l : Lattice E) (i : Nat) : Bool := !(rowAt l.ends i).isEmpty

/-- one iteration of the position loop of `build_lattice` on (oov scratch, lattice) -/
def buildStep {E : Type} (P : Payload E) (inp : Input E) (st : List E × Lattice E) (off : Nat) :
    (List E × Lattice E) × Outcome :=
  if !st.2.hasPrev off then (st, .ok) else
  let cs := P.cands inp.view off
  let oov := ([] : List E) ++ cs.map (·.2)                       -- node_buffer.clear(); pushes
  let lat := cs.foldl (fun l c => Lattice.insert P l off c) st.2
  if cs.isEmpty then ((oov, lat), .err .disconnect) else ((oov, lat), .ok)

def buildLoop {E : Type} (P : Payload E) (inp : Input E) :
    List Nat → List E × Lattice E → (List E × Lattice E) × Outcome
  | [], st => (st, .ok)
  | off :: rest, st =>
    match buildStep P inp st off with
    | (st', .ok) => buildLoop P inp rest st'
    | r => r

/-- `connect_eos` -/
def Lattice.connectEos {E : Type} (P : Payload E) (l : Lattice E) : Lattice E × Outcome :=
  match P.eosOf (rowAt l.ends (l.size - 1)) with
  | none => (l, .err .disconnect)
  | some e => ({ l with eos := some e }, .ok)

/-! ## `StatefulTokenizer` -/

structure Tok (E : Type) where
  input : Input E
  oov : List E
  lattice : Lattice E
  topPathIds : List E
  topPath : Option (List E)
  subset : Subset
  mode : Mode

/-- `StatefulTokenizer::create` -/
def Tok.create {E : Type} (m : Mode) : Tok E :=
  ⟨Input.empty, [], Lattice.empty, [], some [], Subset.all, m⟩

/-- `set_mode` -/
def Tok.setMode {E : Type} (t : Tok E) (m : Mode) : Tok E :=
  { t with subset := t.subset.union (Subset.ofMode m), mode := m }

/-- `set_subset` -/
def Tok.setSubset {E : Type} (t : Tok E) (s : Subset) : Tok E :=
  let ms := Subset.ofMode t.mode
  { t with subset := ((s.union ms).normalize).union ms }

/-- Which `StatefulTokenizer::reset` is modelled.  `cur` = the tree as it was
(`self.top_path.as_mut().map(|p| p.clear())`: only an EXISTING path is cleared, a path taken by an
analysis that failed afterwards stays `None`); `fix` = the repair of the C10 defect
(`self.top_path.get_or_insert_with(Vec::new).clear()`: the path is re-created when it is missing).
The driver reads the variant from the token `reset_variant=cur|fix` of the case line (default `cur`);
the harness sets it by probing `stateful_tokenizer.rs`. -/
inductive ResetVariant | cur | fix
deriving DecidableEq, Repr, Inhabited

/-- first statement of `reset` on the field `top_path` -/
def resetPath {E : Type} (v : ResetVariant) (p : Option (List E)) : Option (List E) :=
  match v with
  | .cur => p.map (fun _ => [])                          -- as_mut().map(|p| p.clear())
  | .fix => some []                                      -- get_or_insert_with(Vec::new).clear()

/-- `reset`, then the caller's `push_str(text)` -/
def Tok.resetWith {E : Type} (v : ResetVariant) (t : Tok E) (text : List E) : Tok E :=
  let i := t.input.reset
  { t with topPath := resetPath v t.topPath, oov := [], input := { i with original := i.original ++ text } }

/-- `build_lattice` -/
def Tok.buildLattice {E : Type} (P : Payload E) (t : Tok E) : Tok E × Outcome :=
  let lat := Lattice.reset P t.lattice t.input.modChars.length
  match buildLoop P t.input (List.range (t.input.modC2b.length - 1)) (t.oov, lat) with
  | ((oov, lat), .ok) =>
    let r := Lattice.connectEos P lat
    ({ t with oov := oov, lattice := r.1 }, r.2)
  | ((oov, lat), o) => ({ t with oov := oov, lattice := lat }, o)

/-- `resolve_best_path` followed by the rest of `do_tokenize` -/
def Tok.resolveAndRewrite {E : Type} (P : Payload E) (t : Tok E) : Tok E × Outcome :=
  let path0 := t.topPath.getD []                        -- mem::replace(.., None).unwrap_or_else(Vec::new)
  let ids := (t.topPathIds ++ P.fillTop t.lattice.eos (t.lattice.indices.take t.lattice.size)).reverse
  let t := { t with topPath := none, topPathIds := [] } -- drain(..) empties on every exit
  match P.pathNodes t.subset t.input.view (t.lattice.endsFull.take t.lattice.size)
          (t.lattice.ends.take t.lattice.size) ids with
  | .fail => (t, .err .other)
  | .unwind => (t, .panic)
  | .nodes ns =>
    match P.rewritePath t.mode t.subset t.input.view (path0 ++ ns) with
    | .fail => (t, .err .other)
    | .unwind => (t, .panic)
    | .nodes p => ({ t with topPath := some p }, .ok)

/-- first three statements of `do_tokenize`: `start_build()?; rewrite_input()?; build(grammar)?` -/
def Input.prepare {E : Type} (P : Payload E) (i : Input E) : Input E × Outcome :=
  match Input.startBuild P i with
  | (i, .ok) =>
    match Input.rewriteAll P P.plugins i with
    | (i, .ok) => Input.build P i
    | r => r
  | r => r

/-- `do_tokenize` -/
def Tok.doTokenize {E : Type} (P : Payload E) (t : Tok E) : Tok E × Outcome :=
  match Input.prepare P t.input with
  | (i, .ok) =>
    let t := { t with input := i }
    if t.input.modified.isEmpty then (t, .ok) else
    match Tok.buildLattice P t with
    | (t, .ok) => Tok.resolveAndRewrite P t
    | r => r
  | (i, o) => ({ t with input := i }, o)

/-- one analysis as every caller does it: `reset().push_str(text); do_tokenize()` -/
def Tok.analyse {E : Type} (v : ResetVariant) (P : Payload E) (t : Tok E) (text : List E) : Tok E × Outcome :=
  Tok.doTokenize P (t.resetWith v text)

/-! ## `MorphemeList`s sharing `InputPart`s (`Rc<RefCell<InputPart>>`) -/

structure Part (E : Type) where
  input : Input E
  subset : Subset

structure MList (E : Type) where
  part : Nat
  nodes : List E

structure World (E : Type) where
  tok : Tok E
  parts : List (Part E)
  lists : List (MList E)
  /-- ghost: the last field request passed to `set_subset` (not a Rust field) -/
  request : Option Subset

def World.init {E : Type} (m : Mode) : World E := ⟨Tok.create m, [], [], none⟩

/-- `InputPart::default()` -/
def Part.default {E : Type} (P : Payload E) : Part E := ⟨(Input.startBuild P Input.empty).1, Subset.all⟩

inductive Op (E : Type)
  | setMode (m : Mode)
  | setSubset (s : Subset)
  | analyse (text : List E)
  | collect (j : Nat)
  | newList
  | emptyClone (j : Nat)
  | clear (j : Nat)
  | splitInto (i idx : Nat) (m : Mode) (j : Nat)
  | lookup (j : Nat) (query : List E)

/-- `collect_results` → `swap_result` -/
def World.collect {E : Type} (w : World E) (j : Nat) : World E × Outcome :=
  match w.lists[j]? with
  | none => (w, .ok)
  | some L =>
    match w.parts[L.part]? with
    | none => (w, .ok)
    | some p =>
      -- std::mem::swap(&mut self.input, input)
      let tok1 := { w.tok with input := p.input }
      let p1 : Part E := { p with input := w.tok.input }
      match w.tok.topPath with
      | none => ({ w with tok := tok1, parts := w.parts.set L.part p1 }, .panic)   -- .as_mut().unwrap()
      | some path =>
        -- std::mem::swap(top_path, result); *subset = self.subset
        ({ w with tok := { tok1 with topPath := some L.nodes },
                  parts := w.parts.set L.part { p1 with subset := w.tok.subset },
                  lists := w.lists.set j { L with nodes := path } }, .ok)

/-- `split_into(mode, idx, out)`; `i = j` is ruled out by the borrow checker -/
def World.splitInto {E : Type} (P : Payload E) (w : World E) (i idx : Nat) (m : Mode) (j : Nat) : World E × Outcome :=
  if i = j then (w, .ok) else
  match w.lists[i]?, w.lists[j]? with
  | some Li, some Lj =>
    match Li.nodes[idx]?, w.parts[Li.part]? with
    | some node, some p =>
      let ns := P.splitNodes m p.subset p.input.view node
      if ns.isEmpty then (w, .ok)
      else ({ w with lists := w.lists.set j { part := Li.part, nodes := Lj.nodes ++ ns } }, .ok)
    | none, _ => (w, .panic)                                  -- `self.node(index)` out of range
    | _, _ => (w, .ok)
  | _, _ => (w, .ok)

/-- `lookup(query, subset)` -/
def World.lookup {E : Type} (P : Payload E) (w : World E) (j : Nat) (q : List E) (s : Subset) : World E × Outcome :=
  match w.lists[j]? with
  | none => (w, .ok)
  | some L =>
    match w.parts[L.part]? with
    | none => (w, .ok)
    | some p0 =>
      -- repaired `lookup` (171a12c) records the subset of the call in the list's part FIRST (`part.subset = subset`);
      -- the pinned code left the subset of the last `collect_results` (payload flag `lookupSets`, set by the harness probe)
      let p : Part E := { input := p0.input, subset := if P.lookupSets then s else p0.subset }
      let i0 := p.input.reset
      let i0 := { i0 with original := i0.original ++ q }
      match Input.startBuild P i0 with
      | (i1, .ok) =>
        match Input.build P i1 with
        | (i2, .ok) =>
          let r := P.lookupNodes q s
          ({ w with parts := w.parts.set L.part { p with input := i2 },
                    lists := w.lists.set j { L with nodes := L.nodes ++ r.1 } },
           if r.2 then .ok else .err .other)
        | (i2, o) => ({ w with parts := w.parts.set L.part { p with input := i2 } }, o)
      | (i1, o) => ({ w with parts := w.parts.set L.part { p with input := i1 } }, o)

def World.step {E : Type} (v : ResetVariant) (P : Payload E) (w : World E) : Op E → World E × Outcome
  | .setMode m => ({ w with tok := w.tok.setMode m }, .ok)
  | .setSubset s => ({ w with tok := w.tok.setSubset s, request := some s }, .ok)
  | .analyse text => let r := w.tok.analyse v P text; ({ w with tok := r.1 }, r.2)
  | .collect j => w.collect j
  | .newList => ({ w with parts := w.parts ++ [Part.default P], lists := w.lists ++ [⟨w.parts.length, []⟩] }, .ok)
  | .emptyClone j =>
    match w.lists[j]? with
    | none => (w, .ok)
    | some L => ({ w with lists := w.lists ++ [⟨L.part, []⟩] }, .ok)
  | .clear j =>
    match w.lists[j]? with
    | none => (w, .ok)
    | some L => ({ w with lists := w.lists.set j { L with nodes := [] } }, .ok)
  | .splitInto i idx m j => w.splitInto P i idx m j
  | .lookup j q => w.lookup P j q Subset.all

/-- a history: every operation carries the payload it was executed with (one fixed `P` in practice; the
    theorems do not need that) -/
def World.run {E : Type} (v : ResetVariant) (w : World E) : List (Payload E × Op E) → World E
  | [] => w
  | (P, op) :: rest => World.run v (w.step v P op).1 rest

/-! ## the Python binding: `Tokenizer.tokenize(text, mode=None, out=None)` (python/src/tokenizer.rs) -/

/-- `PyTokenizer::tokenize`: `default_mode = mode.map(|m| set_mode(m))`; a scope guard restores the mode on EVERY exit
(`?` of the analysis, `?` of `collect_results`, unwinding); `reset().push_str(text); do_tokenize()?`; the result goes
into `out` or into a new `MorphemeList::empty`; `collect_results(..)?`.  `lists.length` = the index the new list gets. -/
def World.pyTokenize {E : Type} (v : ResetVariant) (P : Payload E) (w : World E) (mode : Option Mode) (out : Option Nat)
    (text : List E) : World E × Outcome :=
  let default := w.tok.mode
  let w1 := match mode with
    | some m => (w.step v P (.setMode m)).1
    | none => w
  let restore := fun (u : World E) => match mode with
    | some _ => (u.step v P (.setMode default)).1
    | none => u
  match w1.step v P (.analyse text) with
  | (w2, .ok) =>
    match out with
    | none =>
      let r := (w2.step v P .newList).1.step v P (.collect w2.lists.length)
      (restore r.1, r.2)
    | some j =>
      let r := w2.step v P (.collect j)
      (restore r.1, r.2)
  | (w2, o) => (restore w2, o)

/-- the calls of one `tokenize` as a plain history (`analysisOk` = did `do_tokenize` return Ok) -/
def pyOps {E : Type} (P : Payload E) (default : Mode) (nLists : Nat) (mode : Option Mode) (out : Option Nat)
    (text : List E) (analysisOk : Bool) : List (Payload E × Op E) :=
  (match mode with | some m => [(P, Op.setMode m)] | none => []) ++ [(P, Op.analyse text)] ++
  (if analysisOk then
    (match out with | none => [(P, Op.newList), (P, Op.collect nLists)] | some j => [(P, Op.collect j)]) else []) ++
  (match mode with | some _ => [(P, Op.setMode default)] | none => [])

/-- the tokenizer a caller would create for the same mode and field request -/
def Tok.freshFor {E : Type} (m : Mode) : Option Subset → Tok E
  | none => Tok.create m
  | some s => (Tok.create m).setSubset s

end Recycle
