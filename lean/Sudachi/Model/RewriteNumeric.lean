import Sudachi.Model.Rewrite
import Sudachi.Model.Numeric
/-!
# The numeral joiner with the numeral parser inside  (property C15, op `pipe`)

`Model/Rewrite.lean` (property C14) transcribes `JoinNumericPlugin::rewrite_gen` / `concat` /
`concat_nodes` with the `NumericParser` as a PARAMETER `P : List Char → POut` (answered per case line
by the real parser through the hook `verif_parse`).  `Model/Numeric.lean` (property C15) transcribes
the parser itself (`CHAR_TO_NUM`, `append`, `done`, `error_state`, `get_normalized`, `clear`).

This file closes the gap: `numericP` IS the parameter, computed by the parser model, and
`joinNumeral` is `Rewrite.joinNumeric` run with it — the `comma_as_digit` / `period_as_digit`
handling, the restarts, the trailing-separator back-off and `enable_normalize` are the ones of
`Rewrite.nstep` / `ntail` / `nconcat`, nothing is re-transcribed here.  No parser answer is shipped on
the case line: from the nodes of the un-joined path (ranges, part-of-speech ids, stored surfaces and
normalised forms), the class masks of the characters and the plugin's settings the model computes
which nodes are joined and the normalised form of every joined token.

`P acc` stands for "the parser after `clear()` and the characters `acc`": `n` accepted characters and
the error state after the failing `append`, or — all accepted — the result of `done()`, the error
state after it and `get_normalized()`.  That the real plugin uses ONE parser object with `clear()`
at the start of every run, and that this is the same as a fresh parser per run, is
`C15.reused_parser_is_fresh`.
-/
namespace RewriteNumeric
open Rewrite

/-- The parameter `P` of `Rewrite.joinNumeric`, computed by the parser model.  The number of accepted
characters and the error state of a rejected `append` come from `feed` alone (the plugin calls
`done()` / `get_normalized()` only when it closes a run).  `none` of `getNormalized` is the parser
model's panic outcome; it is reported by `rewrite` below (`parserPanics`), never read here. -/
def numericP (v : Numeric.Variant) (s : List Char) : POut :=
  match Numeric.Parser.new.feed v s 0 with
  | (n, false, p) => { n := n, err := p.err.code, done := false, norm := [] }
  | (n, true, p) =>
    match p.done v with
    | (d, q) =>
      { n := n, err := q.err.code, done := d,
        norm := match q.getNormalized v with
          | some r => r
          | none => [] }

/-- `Rewrite.joinNumeric` with the parser model inside -/
def joinNumeral (v : Numeric.Variant) (nv : NVariant) (cfg : NCfg) (cat : List Nat) (path : List Node) :
    Outcome (List Node) :=
  joinNumeric nv cfg cat (numericP v) path

/-! ## the parser model's panic outcome

`Numeric.verifParse v s = none` means: some `StringNumber` operation of the model would have panicked
in Rust (`usize` underflow in `normalize_scale`, `String::insert` past the end, `unwrap` of an empty
`last()`).  `POut` has no such outcome, so the strings the loop can possibly feed are checked
beforehand: a run starts at some node and consists of consecutive candidate nodes, so every string
fed to the parser is a prefix (by nodes) of the longest stretch of candidates from some start.
This over-approximates (the plugin calls `done()` only at the end of a run); no case has ever
produced the outcome. -/

/-- candidate under SOME setting of the two flags -/
def candNode (cat : List Nat) (n : Node) : Bool :=
  match catOfRange cat n.b n.e with
  | some ct => isNumericCat ct || normForm n == [','] || normForm n == ['.']
  | none => false

/-- the accumulated strings along the stretch of candidates at the head of the list -/
def stretchQueries (cat : List Nat) : List Node → List Char → List (List Char)
  | [], _ => []
  | n :: rest, acc =>
    if candNode cat n then (acc ++ normForm n) :: stretchQueries cat rest (acc ++ normForm n) else []

def queries (cat : List Nat) (path : List Node) : List (List Char) :=
  (List.range path.length).flatMap fun b => stretchQueries cat (path.drop b) []

def parserPanics (v : Numeric.Variant) (cat : List Nat) (path : List Node) : Bool :=
  (queries cat path).any fun s => (Numeric.verifParse v s).isNone

/-- `JoinNumericPlugin::rewrite` as the driver answers it -/
def rewrite (v : Numeric.Variant) (nv : NVariant) (cfg : NCfg) (cat : List Nat) (path : List Node) :
    Outcome (List Node) :=
  if parserPanics v cat path then .panic else joinNumeral v nv cfg cat path

/-! ## driver entry -/

/-- what the harness reads off a token of the real result: character range, part-of-speech id,
`Morpheme::normalized_form()` -/
def showTok (n : Node) : String :=
  toString n.b ++ ":" ++ toString n.e ++ ":" ++ toString n.pos ++ ":" ++ Numeric.showCps "." (normForm n)

/-- `C15 pipe idx=.. fix=<six 0/1> nv=cur|fix plugin=N:<0|1|empty>:<numeral pos id> cat=<masks>
path=<node;node;…>` (nodes in the wire format of `Rewrite.parseNode`, settings as `Rewrite.parsePlugin`)
→ `ok toks=<b:e:pos:normalised form;…>` / `err` / `PANIC` / `HANG` -/
def handle (toks : List (List Char)) : String :=
  match Numeric.variant? toks, parseVariant (Wire.kv? toks "nv"), Wire.kv? toks "plugin", Wire.kv? toks "cat",
        Wire.kv? toks "path" with
  | some v, some nv, some pl, some c, some pa =>
    match parsePlugin pl, Wire.natList? c, Wire.allSome ((Wire.items ';' pa).map parseNode) with
    | some (.numeric cfg), some cat, some path =>
      match rewrite v nv cfg cat path with
      | .ok q => "ok toks=" ++ Wire.joinWith ";" (q.map showTok)
      | .err => "err"
      | .panic => "PANIC"
      | .fuel => "HANG"
    | _, _, _ => "bad-op"
  | _, _, _, _, _ => "bad-op"

end RewriteNumeric
