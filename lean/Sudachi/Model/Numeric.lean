import Sudachi.Model.Wire
/-!
# Numeral parser and numeral joining (C15)

Transcription of
* `join_numeric/numeric_parser/string_number.rs`  → `SN` (`StringNumber`)
* `join_numeric/numeric_parser/mod.rs`            → `Parser` (`NumericParser`)
* `join_numeric/mod.rs` (`concat`, `rewrite_gen`)  → `concat`, `loop`, `rewrite`

The parser carries one switch per repair of the findings F1–F6 (`Variant`): `false` is the code as
pinned, transcribed verbatim, `true` the behaviour after `fix_F<n>.patch`.  The harness probes the
tree it is linked against and names the variant on every case line (`fix=<six 0/1>`).

Conventions: the significand is the Rust `String` of ASCII digits as a `List Char`; `point: i32`
with the sentinel `-1` is `Option Nat` (the Rust only ever tests `point >= 0` / `< 0`); `scale: usize`
is `Nat`.  Places where the Rust would panic (`String::insert` past the end, `usize` underflow,
`unwrap` of an empty `last()`, slice indexing) produce `none` / the `panic` outcome.
-/
namespace Numeric

/-! ## StringNumber -/

structure SN where
  sig : List Char := []
  scale : Nat := 0
  point : Option Nat := none
  allZero : Bool := true
  /-- sticky: an operation on this number would have panicked in Rust (usize underflow) -/
  bad : Bool := false
deriving Repr, DecidableEq, Inhabited

namespace SN

def new : SN := {}

/-- `clear` resets every field (the `bad` flag is model-only and is not reset, it is sticky) -/
def clear (s : SN) : SN := { sig := [], scale := 0, point := none, allZero := true, bad := s.bad }

def isZero (s : SN) : Bool := s.sig.isEmpty

/-- `i.to_string()` for `0 ≤ i ≤ 9` -/
def digitChar (i : Nat) : Char := Char.ofNat (48 + i)

def append (s : SN) (i : Nat) : SN :=
  { s with allZero := if i != 0 then false else s.allZero, sig := s.sig ++ [digitChar i] }

/-- `shift_scale(i)`; every caller passes `-n` for a unit code `n < 0`, so `i > 0` and the `i32`
round trip `(scale as i32 + i) as usize` is the plain sum (below 2^31) -/
def shiftScale (s : SN) (i : Nat) : SN :=
  let s1 := if s.isZero then { s with sig := s.sig ++ ['1'] } else s
  { s1 with scale := s1.scale + i }

def normalizeScale (s : SN) : SN :=
  match s.point with
  | some p =>
    -- n_scale = len - point (i32); negative only if point > len, then `as usize` underflows
    if p > s.sig.length then
      -- n_scale < 0 ≤ scale: else-branch, `scale -= n_scale as usize` overflows
      { s with bad := true }
    else
      let nScale := s.sig.length - p
      if nScale > s.scale then { s with point := some (p + s.scale), scale := 0 }
      else { s with scale := s.scale - nScale, point := none }
  | none => s

def fillZero (s : SN) (n : Nat) : SN := { s with sig := s.sig ++ List.replicate n '0' }

/-- `int_length(&mut self)`: normalises, then reads -/
def intLength (s : SN) : SN × Nat :=
  let s := s.normalizeScale
  match s.point with
  | some p => (s, p)
  | none => (s, s.sig.length + s.scale)

/-- `self.add(&mut number)`: result, new `self`, new `number` (normalised by `int_length`) -/
def add (self number : SN) : Bool × SN × SN :=
  if number.isZero then (true, self, number)
  else if self.isZero then
    (true, { self with sig := self.sig ++ number.sig, scale := number.scale, point := number.point }, number)
  else
    let self := self.normalizeScale
    let (number, length) := number.intLength
    if self.scale ≥ length then
      let self := self.fillZero (self.scale - length)
      let self := match number.point with
        | some p => { self with point := some (self.sig.length + p) }
        | none => self
      (true, { self with sig := self.sig ++ number.sig, scale := number.scale }, number)
    else (false, self, number)

def setPoint (s : SN) : Bool × SN :=
  if s.scale == 0 && s.point.isNone then (true, { s with point := some s.sig.length })
  else (false, s)

def insertAt (l : List Char) (i : Nat) (c : Char) : List Char := l.take i ++ c :: l.drop i

/-- number of trailing `'0'` -/
def nLastZero (l : List Char) : Nat := (l.reverse.takeWhile (· == '0')).length

/-- `to_string(&mut self)`; `none` = panic -/
def toStr (s : SN) : Option (List Char) :=
  if s.isZero then some ['0'] else
  let s := s.normalizeScale
  if s.bad then none
  else if s.scale > 0 then some (s.sig ++ List.replicate s.scale '0')
  else match s.point with
    | some p =>
      if p > s.sig.length then none else
      let sig := insertAt s.sig p '.'
      let sig := if p == 0 then '0' :: sig else sig
      let sig := sig.take (sig.length - nLastZero sig)
      match sig.getLast? with
      | none => none
      | some c => if c == '.' then some sig.dropLast else some sig
    | none => some s.sig

end SN

/-! ## NumericParser -/

/-- behaviour switches: `true` = after the repair of the finding with that number
* `f1` `check_comma` refuses a separator when `tmp` already has its point ("1.5,000")
* `f2` a unit directly after the point is rejected with POINT ("1.千5")
* `f3` a unit directly after an incomplete separator group is rejected with COMMA ("1,千")
* `f4` `last_large_unit`: a large unit has to be smaller than the previous one ("十万一万")
* `f5` `has_unit`: `get_normalized` strips the leading zeros of a numeral with units ("0.1万")
* `f6` `done()` returns before it touches the error state when the additions failed ("7十九三.") -/
structure Variant where
  f1 : Bool
  f2 : Bool
  f3 : Bool
  f4 : Bool
  f5 : Bool
  f6 : Bool
deriving DecidableEq, Repr, Inhabited

/-- the code as pinned (findings F1–F6 present) -/
def Variant.pinned : Variant := ⟨false, false, false, false, false, false⟩
/-- all six repairs -/
def Variant.repaired : Variant := ⟨true, true, true, true, true, true⟩

inductive Err | none | point | comma
deriving Repr, DecidableEq, Inhabited

def Err.code : Err → Nat
  | .none => 0 | .point => 1 | .comma => 2

structure Parser where
  digitLength : Nat := 0
  isFirstDigit : Bool := true
  hasComma : Bool := false
  hasHangingPoint : Bool := false
  err : Err := .none
  total : SN := {}
  subtotal : SN := {}
  tmp : SN := {}
  /-- `last_large_unit` (repair F4 only; never written by the pinned variant) -/
  lastLarge : Option Int := none
  /-- `has_unit` (repair F5 only; never written by the pinned variant) -/
  hasUnit : Bool := false
deriving Repr, DecidableEq, Inhabited

/-- `CHAR_TO_NUM` -/
def charToNum (c : Char) : Option Int :=
  if c = '〇' then some 0 else if c = '一' then some 1 else if c = '二' then some 2
  else if c = '三' then some 3 else if c = '四' then some 4 else if c = '五' then some 5
  else if c = '六' then some 6 else if c = '七' then some 7 else if c = '八' then some 8
  else if c = '九' then some 9 else if c = '十' then some (-1) else if c = '百' then some (-2)
  else if c = '千' then some (-3) else if c = '万' then some (-4) else if c = '億' then some (-8)
  else if c = '兆' then some (-12)
  else if '0' ≤ c ∧ c ≤ '9' then some (Int.ofNat (c.toNat - 48))
  else none

def isSmallUnit (n : Int) : Bool := decide (-3 ≤ n) && decide (n < 0)
def isLargeUnit (n : Int) : Bool := decide (n < -3)

namespace Parser

def new : Parser := {}

def clear (p : Parser) : Parser :=
  { digitLength := 0, isFirstDigit := true, hasComma := false, hasHangingPoint := false, err := .none,
    total := p.total.clear, subtotal := p.subtotal.clear, tmp := p.tmp.clear,
    lastLarge := none, hasUnit := false }

def checkComma (v : Variant) (p : Parser) : Bool :=
  if p.isFirstDigit then false
  else if v.f1 && p.tmp.point.isSome then false
  else if !p.hasComma then decide (p.digitLength ≤ 3) && !p.tmp.isZero && !p.tmp.allZero
  else p.digitLength == 3

/-- `matches!(self.last_large_unit, Some(last) if n <= last)` (units are negated exponents) -/
def notSmaller (p : Parser) (n : Int) : Bool :=
  match p.lastLarge with
  | some last => decide (n ≤ last)
  | none => false

def append (v : Variant) (p : Parser) (c : Char) : Bool × Parser :=
  if c = '.' then
    let p := { p with hasHangingPoint := true }
    if p.isFirstDigit then (false, { p with err := .point })
    else if p.hasComma && !p.checkComma v then (false, { p with err := .comma })
    else
      let (ok, t) := p.tmp.setPoint
      if !ok then (false, { p with tmp := t, err := .point })
      else (true, { p with tmp := t, hasComma := false })
  else if c = ',' then
    if !p.checkComma v then (false, { p with err := .comma })
    else (true, { p with hasComma := true, digitLength := 0 })
  else
    match charToNum c with
    | none => (false, p)
    | some n =>
      if v.f2 && decide (n < 0) && p.hasHangingPoint then (false, { p with err := .point })
      else if v.f3 && decide (n < 0) && p.hasComma && p.digitLength != 3 then (false, { p with err := .comma })
      else if isSmallUnit n then
        let tmp := p.tmp.shiftScale (-n).toNat
        let (ok, sub, tmp) := p.subtotal.add tmp
        if !ok then (false, { p with subtotal := sub, tmp := tmp })
        else (true, { p with subtotal := sub, tmp := tmp.clear, isFirstDigit := true, digitLength := 0,
                             hasComma := false, hasUnit := v.f5 || p.hasUnit })
      else if isLargeUnit n then
        if v.f4 && p.notSmaller n then (false, p)
        else
        let (ok, sub, tmp) := p.subtotal.add p.tmp
        if !ok || sub.isZero then (false, { p with subtotal := sub, tmp := tmp })
        else
          let sub := sub.shiftScale (-n).toNat
          let (ok2, tot, sub) := p.total.add sub
          if !ok2 then (false, { p with total := tot, subtotal := sub, tmp := tmp })
          else (true, { p with total := tot, subtotal := sub.clear, tmp := tmp.clear, isFirstDigit := true,
                               digitLength := 0, hasComma := false,
                               lastLarge := if v.f4 then some n else p.lastLarge,
                               hasUnit := v.f5 || p.hasUnit })
      else
        (true, { p with tmp := p.tmp.append n.toNat, isFirstDigit := false,
                        digitLength := p.digitLength + 1, hasHangingPoint := false })

def done (v : Variant) (p : Parser) : Bool × Parser :=
  let (r1, sub, tmp) := p.subtotal.add p.tmp
  let (ret, p) :=
    if r1 then
      let (r2, tot, sub) := p.total.add sub
      (r2, { p with total := tot, subtotal := sub, tmp := tmp })
    else (false, { p with subtotal := sub, tmp := tmp })
  if v.f6 && !ret then (false, p)
  else if p.hasHangingPoint then (false, { p with err := .point })
  else if p.hasComma && p.digitLength != 3 then (false, { p with err := .comma })
  else (ret, p)

/-- `trim_start_matches('0')`, then a `0` again in front of nothing or of the point -/
def stripLeadingZeros (s : List Char) : List Char :=
  let t := s.dropWhile (· == '0')
  match t with
  | [] => ['0']
  | c :: _ => if c == '.' then '0' :: t else t

def getNormalized (v : Variant) (p : Parser) : Option (List Char) :=
  match p.total.toStr with
  | none => none
  | some s => some (if v.f5 && p.hasUnit then stripLeadingZeros s else s)

/-- feed characters until one is rejected: `(accepted count, all accepted, parser)` -/
def feed (v : Variant) (p : Parser) : List Char → Nat → Nat × Bool × Parser
  | [], n => (n, true, p)
  | c :: cs, n =>
    match p.append v c with
    | (true, p') => feed v p' cs (n + 1)
    | (false, p') => (n, false, p')

/-- some number of the parser was marked as "would have panicked" -/
def anyBad (p : Parser) : Bool := p.total.bad || p.subtotal.bad || p.tmp.bad

end Parser

/-- `verif_parse`: `(n, err, done, normalized)`; `none` = panic -/
def verifParse (v : Variant) (text : List Char) : Option (Nat × Nat × Bool × List Char) :=
  match Parser.new.feed v text 0 with
  | (n, false, p) => if p.anyBad then none else some (n, p.err.code, false, [])
  | (n, true, p) =>
    let (d, p) := p.done v
    if p.anyBad then none else
    match p.getNormalized v with
    | none => none
    | some s => some (n, p.err.code, d, s)

/-- `parse` of DESIGN §3: the normalised string when the whole text is accepted and `done()` holds -/
def parse (v : Variant) (text : List Char) : Option (List Char) :=
  match verifParse v text with
  | some (_, _, true, s) => some s
  | _ => none

/-! ## one parser object used for several texts (`clear()` between them)

`JoinNumericPlugin::rewrite_gen` creates ONE parser per sentence and calls `clear()` at the start of
every numeric run.  `to_string(&mut self)` (called by `get_normalized`) writes the rendering back
into the significand of `total`, so the object that reaches `clear()` is the mutated one. -/

/-- `to_string(&mut self)` with its effect on `self`: the significand becomes the rendering (the
zero number returns early and is not touched) -/
def SN.toStrMut (s : SN) : Option (List Char × SN) :=
  if s.isZero then some (['0'], s) else
  match s.toStr with
  | none => none
  | some r => some (r, { s.normalizeScale with sig := r })

/-- `get_normalized(&mut self)` with its effect on `total` -/
def Parser.getNormalizedMut (v : Variant) (p : Parser) : Option (List Char × Parser) :=
  match p.total.toStrMut with
  | none => none
  | some (s, t) => some (if v.f5 && p.hasUnit then Parser.stripLeadingZeros s else s, { p with total := t })

/-- the body of `verif_parse` on a parser that is already there (no `clear()` here): the parser
afterwards and the observation `(n, err, done, normalized)`; `none` = panic -/
def runOn (v : Variant) (p : Parser) (text : List Char) : Parser × Option (Nat × Nat × Bool × List Char) :=
  match p.feed v text 0 with
  | (n, false, p) => (p, if p.anyBad then none else some (n, p.err.code, false, []))
  | (n, true, p) =>
    let (d, p) := p.done v
    if p.anyBad then (p, none) else
    match p.getNormalizedMut v with
    | none => (p, none)
    | some (s, p') => (p', some (n, p.err.code, d, s))

/-- `verif_parse_seq`: the texts one after the other through ONE parser, `clear()` between two texts -/
def seqGo (v : Variant) : Parser → List (List Char) → Option (List (Nat × Nat × Bool × List Char))
  | _, [] => some []
  | p, t :: ts =>
    match runOn v p t with
    | (_, none) => none
    | (p', some r) => (seqGo v p'.clear ts).map (r :: ·)

def verifParseSeq (v : Variant) (texts : List (List Char)) : Option (List (Nat × Nat × Bool × List Char)) :=
  seqGo v Parser.new texts

/-! ## The plugin: `concat`, `rewrite_gen` -/

structure Node where
  b : Nat
  e : Nat
  /-- `WordInfoData::surface` (the headword) -/
  surf : List Char
  /-- `WordInfoData::normalized_form`, stored EMPTY when it equals the headword (dictionary words)
  and for out-of-vocabulary nodes -/
  raw : List Char
  /-- `word_info.pos_id() == numeric_pos_id` -/
  numPos : Bool
deriving Repr, DecidableEq, Inhabited

/-- `WordInfo::normalized_form()`: falls back to the surface when the stored form is empty -/
def Node.norm (n : Node) : List Char := if n.raw.isEmpty then n.surf else n.raw

inductive Outcome (α : Type) where
  | ok (a : α) | err | panic | fuel
deriving Repr

/-- `concat_nodes(path, begin, end, normalized_form)` restricted to the observed fields -/
def concatNodes (path : List Node) (b e : Nat) (norm : Option (List Char)) : Outcome (List Node) :=
  if b ≥ e then .err else
  match path[b]?, path[e - 1]? with
  | some nb, some ne =>
    let mid := (path.drop b).take (e - b)
    -- `None`: the STORED forms are concatenated (`borrow_data().normalized_form`), not the accessor
    let nf := match norm with
      | some s => s
      | none => mid.flatMap (·.raw)
    .ok (path.take b ++ { b := nb.b, e := ne.e, surf := mid.flatMap (·.surf), raw := nf, numPos := nb.numPos }
          :: path.drop e)
  | _, _ => .panic

/-- `JoinNumericPlugin::concat` -/
def concat (v : Variant) (enableNormalize : Bool) (path : List Node) (b e : Nat) (p : Parser) : Outcome (List Node) :=
  match path[b]? with
  | none => .panic
  | some nb =>
    if !nb.numPos then .ok path
    else if enableNormalize then
      match p.getNormalized v with
      | none => .panic
      | some nf =>
        if e - b > 1 || nf != nb.norm then concatNodes path b e (some nf) else .ok path
    else if e - b > 1 then concatNodes path b e none
    else .ok path

/-- bit 1 = NUMERIC, bit 2 = KANJINUMERIC (projection of the category mask, sent by the harness);
`cat_of_range`: AND over the characters of the range, empty for an empty range -/
def catOfRange (cats : List Nat) (b e : Nat) : Nat :=
  if b ≥ e then 0 else ((cats.drop b).take (e - b)).foldl (· &&& ·) 3

structure St where
  path : List Node
  /-- `i + 1` (the Rust `i` starts at -1) -/
  j : Nat
  begin : Option Nat
  commaAsDigit : Bool
  periodAsDigit : Bool
  parser : Parser

/-- feed the characters of one node; `none` = all accepted -/
def feedNode (v : Variant) (p : Parser) : List Char → Parser × Bool
  | [] => (p, true)
  | c :: cs =>
    match p.append v c with
    | (true, p') => feedNode v p' cs
    | (false, p') => (p', false)

/-- one iteration of the `while` loop for `i = st.j` (already incremented) -/
def step (v : Variant) (en : Bool) (cats : List Nat) (st : St) : Outcome St :=
  let i := st.j
  match st.path[i]? with
  | none => .panic
  | some node =>
    let ctypes := catOfRange cats node.b node.e
    let s := node.norm
    if ctypes != 0 || (st.commaAsDigit && s == [',']) || (st.periodAsDigit && s == ['.']) then
      let (parser, begin) := match st.begin with
        | none => (st.parser.clear, i)
        | some b => (st.parser, b)
      let (parser, ok) := feedNode v parser s
      if ok then .ok { st with parser := parser, begin := some begin, j := i + 1 }
      else
        -- begin_idx >= 0 holds here; the run is restarted only if the flag was still set (8ae89d4)
        if parser.err = .comma && st.commaAsDigit then
          .ok { st with parser := parser, commaAsDigit := false, j := begin, begin := none }
        else if parser.err = .point && st.periodAsDigit then
          .ok { st with parser := parser, periodAsDigit := false, j := begin, begin := none }
        else .ok { st with parser := parser, begin := none, j := i + 1 }
    else
      let cIsComma := s == [',']
      let cIsPeriod := s == ['.']
      let after (path : List Node) (parser : Parser) (j : Nat) : St :=
        { path := path, parser := parser, j := j, begin := none,
          commaAsDigit := if !st.commaAsDigit && !cIsComma then true else st.commaAsDigit,
          periodAsDigit := if !st.periodAsDigit && !cIsPeriod then true else st.periodAsDigit }
      match st.begin with
      | none => .ok (after st.path st.parser (i + 1))
      | some b =>
        let (d, parser) := st.parser.done v
        if d then
          match concat v en st.path b i parser with
          | .ok path => .ok (after path parser (b + 2))
          | .err => .err | .panic => .panic | .fuel => .fuel
        else
          if i = 0 then .panic else
          match st.path[i - 1]? with
          | none => .panic
          | some prev =>
            let ss := prev.norm
            if (parser.err = .comma && ss == [',']) || (parser.err = .point && ss == ['.']) then
              match concat v en st.path b (i - 1) parser with
              | .ok path => .ok (after path parser (b + 3))
              | .err => .err | .panic => .panic | .fuel => .fuel
            else .ok (after st.path parser (i + 1))

def loop (v : Variant) (en : Bool) (cats : List Nat) : Nat → St → Outcome St
  | 0, st => if st.j < st.path.length then .fuel else .ok st
  | fuel + 1, st =>
    if st.j < st.path.length then
      match step v en cats st with
      | .ok st' => loop v en cats fuel st'
      | .err => .err | .panic => .panic | .fuel => .fuel
    else .ok st

/-- the part after the loop -/
def tail (v : Variant) (en : Bool) (st : St) : Outcome (List Node) :=
  match st.begin with
  | none => .ok st.path
  | some b =>
    let len := st.path.length
    let (d, parser) := st.parser.done v
    if d then concat v en st.path b len parser
    else
      if len = 0 then .panic else
      match st.path[len - 1]? with
      | none => .panic
      | some last =>
        let ss := last.norm
        if (parser.err = .comma && ss == [',']) || (parser.err = .point && ss == ['.']) then
          concat v en st.path b (len - 1) parser
        else .ok st.path

def rewriteFuel (n : Nat) : Nat := 4 * (n + 2) * (n + 2) + 16

def rewrite (v : Variant) (en : Bool) (cats : List Nat) (path : List Node) : Outcome (List Node) :=
  match loop v en cats (rewriteFuel path.length)
      { path := path, j := 0, begin := none, commaAsDigit := true, periodAsDigit := true, parser := Parser.new } with
  | .ok st => tail v en st
  | .err => .err | .panic => .panic | .fuel => .fuel

/-! ## driver entry -/

/-- `fix=<six 0/1>`: which repairs the tree under test carries; absent = the pinned code -/
def variant? (toks : List (List Char)) : Option Variant :=
  match Wire.kv? toks "fix" with
  | none => some Variant.pinned
  | some s =>
    match s.map (· == '1') with
    | [a, b, c, d, e, f] => if s.all (fun x => x == '0' || x == '1') then some ⟨a, b, c, d, e, f⟩ else none
    | _ => none

def cpList? (sep : Char) (s : List Char) : Option (List Char) :=
  (Wire.allSome ((Wire.items sep s).map Wire.nat?)).map (·.map Char.ofNat)

def showCps (sep : String) (s : List Char) : String :=
  Wire.joinWith sep (s.map (fun c => toString c.toNat))

def node? (s : List Char) : Option Node :=
  match Wire.splitOn ':' s with
  | [b, e, p, n, sf] =>
    match Wire.nat? b, Wire.nat? e, Wire.nat? p, cpList? '.' n, cpList? '.' sf with
    | some b, some e, some p, some n, some sf => some { b := b, e := e, surf := sf, raw := n, numPos := p != 0 }
    | _, _, _, _, _ => none
  | _ => none

def showNodes (l : List Node) : String :=
  Wire.joinWith ";" (l.map (fun n => toString n.b ++ ":" ++ toString n.e ++ ":" ++ showCps "." n.norm))

/-- every line carries `fix=<six 0/1>` (see `variant?`)
    `C15 parse idx=.. s=<code points>` → `n=<n> err=<e> done=<0|1> norm=<code points>`
    `C15 seq idx=.. ts=<code points;code points;...>` → `r=<n>:<e>:<done>:<code points>|...` (one parser, `clear()` between the texts)
    `C15 pipeline idx=.. en=<0|1> cats=<masks> path=<b:e:numpos:stored-norm cps:surface cps;...>` → `ok toks=<b:e:cps;...>` -/
def handle (op : List Char) (toks : List (List Char)) : String :=
  match variant? toks with
  | none => "bad-op"
  | some v =>
  match String.ofList op with
  | "parse" =>
    match Wire.kv? toks "s" with
    | some s =>
      match cpList? ',' s with
      | some text =>
        match verifParse v text with
        | none => "PANIC"
        | some (n, e, d, norm) =>
          "n=" ++ toString n ++ " err=" ++ toString e ++ " done=" ++ (if d then "1" else "0") ++ " norm=" ++ showCps "," norm
      | none => "bad-op"
    | none => "bad-op"
  | "seq" =>
    match Wire.kv? toks "ts" with
    | some ts =>
      match Wire.allSome ((Wire.items ';' ts).map (cpList? ',')) with
      | some texts =>
        match verifParseSeq v texts with
        | none => "PANIC"
        | some rs =>
          "r=" ++ Wire.joinWith "|" (rs.map (fun (n, e, d, norm) =>
            toString n ++ ":" ++ toString e ++ ":" ++ (if d then "1" else "0") ++ ":" ++ showCps "," norm))
      | none => "bad-op"
    | none => "bad-op"
  | "pipeline" =>
    match Wire.kv? toks "en", Wire.kv? toks "cats", Wire.kv? toks "path" with
    | some en, some cats, some path =>
      match Wire.nat? en, Wire.natList? cats, Wire.allSome ((Wire.items ';' path).map node?) with
      | some en, some cats, some path =>
        match rewrite v (en != 0) cats path with
        | .ok p => "ok toks=" ++ showNodes p
        | .err => "err"
        | .panic => "PANIC"
        | .fuel => "FUEL"
      | _, _, _ => "bad-op"
    | _, _, _ => "bad-op"
  | _ => "bad-op"

end Numeric
