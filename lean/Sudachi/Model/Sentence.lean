import Sudachi.Model.Wire
/-!
# Model of `sudachi/src/sentence_detector.rs` and `sudachi/src/sentence_splitter.rs` (property C16)

Text is a `List Nat` of Unicode scalar values.  A Rust `&str` slice `s[a..b]` at byte offsets is the
sub-list between the corresponding character indices; a byte offset is `blen` of the prefix, so the
model computes in **character indices** and converts to bytes (`blen`) exactly where the Rust code
handles byte offsets (`mat.end()`, `eos`, `position`).  `has_non_break_word` is byte based in the
Rust (30-byte look-back that may start inside a character, trie lookup on `&[u8]`) and is modelled
on the UTF-8 bytes.  Its `Ordering::Equal` arm exists in two variants (`CkVariant`): `cur`, the code
as it was (defect D12), and `fix`, the repaired arm; every function from `checkEntries` up to `split`
takes the variant, and the driver reads it from the token `ck_variant=cur|fix` (default `cur`).

The second half of the file (`strSlice`, `examineB`, `scanB`, `getEosB`, `splitFuelB`) is the same code
transcribed over **byte offsets**, where every `&s[a..b]` can panic; the driver runs that half, and
`Proofs/SentenceBytes.lean` proves it equal to the character-index half.

The regular expressions are transcribed as direct matchers (see the comment on each); all seven are proved
equal to a specification written after the pattern text in `Proofs/SentenceRegex.lean` (five against the
language of the pattern, SENTENCE_BREAKER with `find_iter` and SPACES with `find` against the leftmost-first
backtracking semantics `RX.run` of the pattern, which for these two coincides with leftmost-longest).
`fancy_regex`/`regex` semantics used: leftmost-first (backtracking order) matching, greedy
quantifiers, `find_iter` = successive non-overlapping matches, look-behind/look-ahead see the whole
haystack `s` (the current slice cut to `limit` characters), `.` excludes `\n` only, `\s` is the
Unicode `White_Space` property, `$`/`\z` match only at the very end.
-/
namespace Sentence

abbrev Text := List Nat

/-! ## character classes (the `const` strings of sentence_detector.rs) -/

/-- `PERIODS = "。？！♪…\\?\\!"` -/
def isPeriod (c : Nat) : Bool :=
  c = 0x3002 || c = 0xFF1F || c = 0xFF01 || c = 0x266A || c = 0x2026 || c = 0x3F || c = 0x21

/-- `DOT = "\\.．"` -/
def isDot (c : Nat) : Bool := c = 0x2E || c = 0xFF0E

/-- the character of `CDOTS = "・{3,}"` -/
def isCdot (c : Nat) : Bool := c = 0x30FB

/-- `COMMA = ",，、"` -/
def isComma (c : Nat) : Bool := c = 0x2C || c = 0xFF0C || c = 0x3001

/-- `ALPHABET_OR_NUMBER = "a-zA-Z0-9ａ-ｚＡ-Ｚ０-９〇一二三四五六七八九十百千万億兆"` -/
def isAN (c : Nat) : Bool :=
  (0x61 ≤ c && c ≤ 0x7A) || (0x41 ≤ c && c ≤ 0x5A) || (0x30 ≤ c && c ≤ 0x39) ||
  (0xFF41 ≤ c && c ≤ 0xFF5A) || (0xFF21 ≤ c && c ≤ 0xFF3A) || (0xFF10 ≤ c && c ≤ 0xFF19) ||
  c = 0x3007 || c = 0x4E00 || c = 0x4E8C || c = 0x4E09 || c = 0x56DB || c = 0x4E94 || c = 0x516D ||
  c = 0x4E03 || c = 0x516B || c = 0x4E5D || c = 0x5341 || c = 0x767E || c = 0x5343 || c = 0x4E07 ||
  c = 0x5104 || c = 0x5146

/-- `OPEN_PARENTHESIS = "\\(\\{｛\\[（「【『［≪〔“"` -/
def isOpen (c : Nat) : Bool :=
  c = 0x28 || c = 0x7B || c = 0xFF5B || c = 0x5B || c = 0xFF08 || c = 0x300C || c = 0x3010 ||
  c = 0x300E || c = 0xFF3B || c = 0x226A || c = 0x3014 || c = 0x201C

/-- `CLOSE_PARENTHESIS = "\\)\\}\\]）」｝】』］〕≫”"` -/
def isClose (c : Nat) : Bool :=
  c = 0x29 || c = 0x7D || c = 0x5D || c = 0xFF09 || c = 0x300D || c = 0xFF5D || c = 0x3011 ||
  c = 0x300F || c = 0xFF3D || c = 0x3015 || c = 0x226B || c = 0x201D

/-- `[{DOT}{PERIODS}]`: the trailing class of SENTENCE_BREAKER -/
def isDotOrPeriod (c : Nat) : Bool := isDot c || isPeriod c

/-- `[{CLOSE_PARENTHESIS}{COMMA}{PERIODS}]`: the class of PROHIBITED_BOS -/
def isProhibitedBos (c : Nat) : Bool := isClose c || isComma c || isPeriod c

/-- `\s` of the `regex` crate in Unicode mode: the `White_Space` property -/
def isSpace (c : Nat) : Bool :=
  (0x09 ≤ c && c ≤ 0x0D) || c = 0x20 || c = 0x85 || c = 0xA0 || c = 0x1680 ||
  (0x2000 ≤ c && c ≤ 0x200A) || c = 0x2028 || c = 0x2029 || c = 0x202F || c = 0x205F || c = 0x3000

/-! ## UTF-8 -/

/-- `char::len_utf8` -/
def width (c : Nat) : Nat := if c < 0x80 then 1 else if c < 0x800 then 2 else if c < 0x10000 then 3 else 4

/-- byte length of a text (`str::len`) -/
def blen : Text → Nat
  | [] => 0
  | c :: cs => width c + blen cs

def utf8Enc (c : Nat) : List Nat :=
  if c < 0x80 then [c]
  else if c < 0x800 then [0xC0 + c / 64, 0x80 + c % 64]
  else if c < 0x10000 then [0xE0 + c / 4096, 0x80 + (c / 64) % 64, 0x80 + c % 64]
  else [0xF0 + c / 262144, 0x80 + (c / 4096) % 64, 0x80 + (c / 64) % 64, 0x80 + c % 64]

/-- `str::as_bytes` -/
def utf8 : Text → List Nat
  | [] => []
  | c :: cs => utf8Enc c ++ utf8 cs

/-! ## the regular expressions -/

/-- length of the longest prefix whose characters satisfy `p` (a greedy `[class]*`) -/
def spanLen (p : Nat → Bool) : Text → Nat
  | [] => 0
  | c :: cs => if p c then spanLen p cs + 1 else 0

/-- number of leading `<br>` / `<BR>` units (greedy `(<br>|<BR>)*`) -/
def isBrTag (a b c d : Nat) : Bool :=
  a = 0x3C && d = 0x3E && ((b = 0x62 && c = 0x72) || (b = 0x42 && c = 0x52))

def brUnits : Text → Nat
  | a :: b :: c :: d :: rest => if isBrTag a b c d then brUnits rest + 1 else 0
  | _ => 0

/-- `(?<![AN])`: the character before the position, if any, is not alphanumeric -/
def notAfterAN : Option Nat → Bool
  | none => true
  | some p => !isAN p

/-- `(?![AN COMMA])`: the character at the position, if any, is neither alphanumeric nor a comma -/
def notBeforeANComma : Text → Bool
  | [] => true
  | c :: _ => !(isAN c || isComma c)

/-- SENTENCE_BREAKER anchored at the head of `l`, `prev` = the character before it in the haystack:
`([PERIODS]|・{3,}+|(?<![AN])[DOT](?![AN COMMA]))[DOT PERIODS]*|(<br>|<BR>){2,}`.
Result: length of the match in characters.  The alternatives are tried in the order written; their
first characters are disjoint, and nothing after a greedy part can fail, so there is no
backtracking into a shorter match. -/
def breakerAt (prev : Option Nat) : Text → Option Nat
  | [] => none
  | c :: rest =>
    if isPeriod c then some (1 + spanLen isDotOrPeriod rest)
    else if isCdot c then
      let n := 1 + spanLen isCdot rest
      if 3 ≤ n then some (n + spanLen isDotOrPeriod (rest.drop (n - 1))) else none
    else if isDot c then
      if notAfterAN prev && notBeforeANComma rest then some (1 + spanLen isDotOrPeriod rest) else none
    else if c = 0x3C then
      let k := brUnits (c :: rest)
      if 2 ≤ k then some (4 * k) else none
    else none

/-- `parenthesis_level`: PARENTHESIS.captures_iter visits every bracket character left to right -/
def parenStep (level : Nat) (c : Nat) : Nat :=
  if isOpen c then level + 1
  else if isClose c then (if level > 0 then level - 1 else level)
  else level

def parenLevel (s : Text) : Nat := s.foldl parenStep 0

/-- `prohibited_bos`: `\A([CLOSE COMMA PERIODS])+`, 0 when there is no match (characters here, the
Rust returns the byte length of the same prefix) -/
def prohibitedBos (s : Text) : Nat := spanLen isProhibitedBos s

/-- ITEMIZE_HEADER `^([AN])([DOT])$` on the whole window -/
def isItemizeHeader : Text → Bool
  | [a, d] => isAN a && isDot d
  | _ => false

/-- QUOTE_MARKER `(！|？|\!|\?|[CLOSE])(と|っ|です)` matching at offset 0 of its haystack.
(`find` returns the leftmost match, whose start is 0 iff there is a match at 0.) -/
def startsParticle : Text → Bool
  | a :: rest =>
    a = 0x3068 || a = 0x3063 ||                                        -- と, っ
    (a = 0x3067 && (match rest with | b :: _ => b = 0x3059 | [] => false))  -- です
  | [] => false

def quoteMarkerAt0 : Text → Bool
  | c :: rest => (c = 0xFF01 || c = 0xFF1F || c = 0x21 || c = 0x3F || isClose c) && startsParticle rest
  | [] => false

/-- EOS_ITEMIZE_HEADER `([AN])([DOT])\z`: the text ends with an alphanumeric and a dot.
`rev` is the text reversed. -/
def endsWithItemize (rev : Text) : Bool :=
  match rev with
  | d :: a :: _ => isDot d && isAN a
  | _ => false

/-- `is_continuous_phrase(s, eos)`, called with `0 < eos < s.len()`.
`s[(eos - last_char_len)..]` is `s.drop (eos - 1)`; `s[eos..].chars().nth(0)` is `s[eos]`.
`none` = one of the two `unwrap()`s panics (never, see `Proofs/Sentence.lean`). -/
def isContinuousPhrase (s : Text) (eos : Nat) : Option Bool :=
  if eos = 0 then none else
  if quoteMarkerAt0 (s.drop (eos - 1)) then some true else
  match s.drop eos with
  | [] => none
  | c :: _ => some ((c = 0x3068 || c = 0x3084 || c = 0x306E) && endsWithItemize (s.take eos).reverse)

/-- SPACES `.+\s+` on the window, `find`: end of the leftmost-first match in characters.
The match starts at the first character that is not `\n` (position `a`).  Greedy `.+` runs to the end
of that line; if the line is terminated by `\n` the `\s+` part takes that `\n` and all white space
after it.  Otherwise `.+` backtracks to the last white-space character after `a` on that (final)
line and the match ends right behind it. -/
def lastSpaceEnd : Text → Option Nat
  -- for a text without `\n`: 1 + index of the last white-space character, if any
  | [] => none
  | c :: cs =>
    match lastSpaceEnd cs with
    | some e => some (e + 1)
    | none => if isSpace c then some 1 else none

def spacesFrom : Text → Option Nat
  -- the list starts at position `a` (a character that is not `\n`)
  | [] => none
  | c :: cs =>
    let line := spanLen (fun x => x != 0x0A) (c :: cs)
    if line < (c :: cs).length then
      some (line + spanLen isSpace ((c :: cs).drop line))
    else
      (lastSpaceEnd cs).map (· + 1)

def spacesEnd : Text → Option Nat
  | [] => none
  | c :: cs => if c = 0x0A then (spacesEnd cs).map (· + 1) else spacesFrom (c :: cs)

/-! ## outcomes -/

inductive Res (α : Type) where
  | ok : α → Res α
  | panic : Res α
deriving Repr, DecidableEq

/-! ## `NonBreakChecker::has_non_break_word` -/

/-- `Lexicon::lookup(input_bytes, i)` of one lexicon entered by its contract (property C04): the
ends of all keys that are prefixes of `input_bytes[i..]`, shortest first.  `rest = input_bytes[i..]`;
the result lists the key lengths. -/
def keyLens (lex : List (List Nat)) (rest : List Nat) : List Nat :=
  (List.range' 1 rest.length).filter (fun n => lex.contains (rest.take n))

/-- `LexiconSet::lookup`: the lexicons in lookup order (user dictionaries, last added first, then
the system dictionary) -/
def lookupLens (lexs : List (List (List Nat))) (rest : List Nat) : List Nat :=
  lexs.flatMap (fun lex => keyLens lex rest)

/-- `input[i..].chars().take(2).count()` computed as the number of characters after byte offset `i`
(capped by the caller); `none` = `i` is not a character boundary (the slice panics) -/
def charsFromByte : Text → Nat → Option Nat
  | t, 0 => some t.length
  | [], _ + 1 => none
  | c :: cs, i + 1 => if i + 1 < width c then none else charsFromByte cs (i + 1 - width c)

/-- which `Ordering::Equal` arm of `has_non_break_word` the model mirrors.
`cur`: `Ordering::Equal => return input[i..].chars().take(2).count() > 1,` (the code as it was, D12);
`fix`: `Ordering::Equal => { if input[i..end_byte].chars().take(2).count() > 1 { return true; } }`
(the repaired code: the matched word, and the loop goes on when it has one character). -/
inductive CkVariant where
  | cur : CkVariant
  | fix : CkVariant
deriving Repr, DecidableEq

/-- `t[..j].chars().count()`; `none` = `j` is not a character boundary of `t` (or is beyond its end) -/
def charsToByte : Text → Nat → Option Nat
  | _, 0 => some 0
  | [], _ + 1 => none
  | c :: cs, j + 1 => if j + 1 < width c then none else (charsToByte cs (j + 1 - width c)).map (· + 1)

/-- `t[i..j].chars().count()` for `i ≤ j`; `none` = `i` or `j` is not a character boundary -/
def charsInSlice : Text → Nat → Nat → Option Nat
  | t, 0, j => charsToByte t j
  | [], _ + 1, _ => none
  | c :: cs, i + 1, j => if i + 1 < width c then none else charsInSlice cs (i + 1 - width c) (j - width c)

/-- `input[i..j].chars().count()`; `none` = the slice panics (`i > j`, or an end off a boundary) -/
def sliceChars (input : Text) (i j : Nat) : Option Nat :=
  if j < i then none else charsInSlice input i j

/-- the inner `for entry in lookup(..)`; `none` = fell through -/
def checkEntries (v : CkVariant) (input : Text) (eosByte i : Nat) : List Nat → Option (Res Bool)
  | [] => none
  | len :: more =>
    let endByte := i + len
    if endByte > eosByte then some (.ok true)
    else if endByte = eosByte then
      match v with
      | .cur =>
        -- `return input[i..].chars().take(2).count() > 1`  (D12: the rest of the input, not the word)
        some (match charsFromByte input i with
              | none => .panic
              | some r => .ok (decide (min r 2 > 1)))
      | .fix =>
        -- `if input[i..end_byte].chars().take(2).count() > 1 { return true; }`, else the next entry
        match sliceChars input i endByte with
        | none => some .panic
        | some r => if min r 2 > 1 then some (.ok true) else checkEntries v input eosByte i more
    else checkEntries v input eosByte i more

/-- the outer `for i in lookup_start..eos_byte` -/
def nonBreakLoop (v : CkVariant) (lexs : List (List (List Nat))) (input : Text) (bytes : List Nat)
    (eosByte : Nat) : List Nat → Res Bool
  | [] => .ok false
  | i :: is =>
    match checkEntries v input eosByte i (lookupLens lexs (bytes.drop i)) with
    | some r => r
    | none => nonBreakLoop v lexs input bytes eosByte is

def LOOKUP_BYTE_LENGTH : Nat := 10 * 3

/-- `has_non_break_word(input, length)` with `self.bos = 0` (the splitter never changes `bos`) -/
def hasNonBreakWord (v : CkVariant) (lexs : List (List (List Nat))) (input : Text) (eosByte : Nat) :
    Res Bool :=
  let lookupStart := max LOOKUP_BYTE_LENGTH eosByte - LOOKUP_BYTE_LENGTH
  nonBreakLoop v lexs input (utf8 input) eosByte (List.range' lookupStart (eosByte - lookupStart))

/-! ## `SentenceDetector::get_eos` -/

/-- result of `get_eos` in characters of the input: `pos e` = `Ok(e as bytes)`, `neg e` = `Ok(-(e as bytes))` -/
inductive Eos where
  | pos : Nat → Eos
  | neg : Nat → Eos
deriving Repr, DecidableEq

/-- outcome of examining one match of SENTENCE_BREAKER ending at character `eos0` of the window `s` -/
inductive Cand where
  | accept : Nat → Cand     -- `return Ok(eos)`
  | veto : Cand             -- `continue`
  | panic : Cand
deriving Repr, DecidableEq

/-- body of `for mat in SENTENCE_BREAKER.find_iter(&s)`; `checker = none` is `Option::None` -/
def examine (v : CkVariant) (checker : Option (List (List (List Nat)))) (input s : Text) (eos0 : Nat) :
    Cand :=
  if parenLevel (s.take eos0) > 0 then .veto else
  let eos := if eos0 < s.length then eos0 + prohibitedBos (s.drop eos0) else eos0
  if isItemizeHeader s then .veto else
  match (if eos < s.length then isContinuousPhrase s eos else some false) with
  | none => .panic
  | some true => .veto
  | some false =>
    match checker with
    | none => .accept eos
    | some lexs =>
      match hasNonBreakWord v lexs input (blen (s.take eos)) with
      | .panic => .panic
      | .ok true => .veto
      | .ok false => .accept eos

/-- `find_iter` + loop body.  `k` = characters of `s` before the list, `prev` = the character before
it, `skip` = remaining characters of the last (vetoed) match, which `find_iter` does not revisit. -/
def scan (v : CkVariant) (checker : Option (List (List (List Nat)))) (input s : Text) :
    Nat → Option Nat → Nat → Text → Option Cand
  | _, _, _, [] => none
  | k, _, skip + 1, c :: rest => scan v checker input s (k + 1) (some c) skip rest
  | k, prev, 0, c :: rest =>
    match breakerAt prev (c :: rest) with
    | none => scan v checker input s (k + 1) (some c) 0 rest
    | some n =>
      match examine v checker input s (k + n) with
      | .veto => scan v checker input s (k + 1) (some c) (n - 1) rest
      | r => some r

/-- `Ok(-(n as isize))`: for `n = 0` this is `Ok(0)`, which the caller does not see as negative -/
def negOf (n : Nat) : Eos := if n = 0 then .pos 0 else .neg n

def getEos (v : CkVariant) (limit : Nat) (checker : Option (List (List (List Nat)))) (input : Text) :
    Res Eos :=
  if input.isEmpty then .ok (.pos 0) else
  let s := input.take limit
  let inputExceedsLimit := decide (blen s < blen input)
  match scan v checker input s 0 none 0 s with
  | some (.accept e) => .ok (.pos e)
  | some .panic => .panic
  | some .veto => .panic   -- unreachable: `scan` never returns a veto
  | none =>
    if inputExceedsLimit then
      match spacesEnd s with
      | some e => .ok (negOf e)
      | none => .ok (negOf s.length)
    else .ok (negOf s.length)

/-- the `isize` that the Rust function returns -/
def eosValue (input : Text) : Eos → Int
  | .pos e => Int.ofNat (blen (input.take e))
  | .neg e => - Int.ofNat (blen (input.take e))

/-! ## `SentenceIter::next` iterated -/

structure Sent where
  b : Nat          -- range.start (bytes)
  e : Nat          -- range.end (bytes)
  chunk : Text     -- real_slice
deriving Repr, DecidableEq

inductive SplitRes where
  | ok : List Sent → SplitRes
  | panic : SplitRes
  | fuelOut : SplitRes     -- the iterator did not finish within the given number of `next` calls
deriving Repr, DecidableEq

def SplitRes.cons (x : Sent) : SplitRes → SplitRes
  | .ok l => .ok (x :: l)
  | r => r

/-- `fuel` calls of `next`; `position` in bytes, `rest = data[position..]` -/
def splitFuel (v : CkVariant) (limit : Nat) (checker : Option (List (List (List Nat)))) :
    Nat → Nat → Text → SplitRes
  | _, _, [] => .ok []                                   -- `position == data.len()` → `None`
  | 0, _, _ :: _ => .fuelOut
  | fuel + 1, position, c :: cs =>
    let rest := c :: cs
    match getEos v limit checker rest with
    | .panic => .panic                                   -- `.unwrap()` / slicing
    | .ok (.neg _) =>                                    -- `rv < 0` → `end = data.len()`
      .ok [⟨position, position + blen rest, rest⟩]
    | .ok (.pos e) =>
      let endB := position + blen (rest.take e)
      SplitRes.cons ⟨position, endB, rest.take e⟩ (splitFuel v limit checker fuel endB (rest.drop e))

/-- the whole iteration; for `limit ≥ 1` every step consumes at least one character
(`Proofs/Sentence.lean`), so `text.length` calls suffice.  (`limit = 0`: `get_eos` returns `-0 = 0`,
`next` yields an empty sentence without advancing, forever — `C16.limit_zero_counterexample`.) -/
def split (v : CkVariant) (limit : Nat) (checker : Option (List (List (List Nat)))) (text : Text) :
    SplitRes :=
  splitFuel v limit checker text.length 0 text

/-! ## the same code over byte offsets (what the Rust code really computes with)

`get_eos` and `SentenceIter::next` handle **byte** offsets and slice `&str`s with them; a slice whose
end is not a character boundary, or lies beyond the string, panics.  The functions above compute in
character indices, where that cannot be expressed.  The `…B` functions below mirror the Rust
arithmetic literally (`eos += prohibited_bos(..)`, `eos - last_char_len`, `position + rv as usize`,
`-(mat.end() as isize)`), take every slice with `strSlice` (= `none` when the Rust slice would panic)
and answer `panic` then.  `Proofs/SentenceBytes.lean` proves them equal to the character-index
functions — i.e. no slice ever panics — and the driver runs the byte versions. -/

/-- `&s[a..b]` at byte offsets; `none` = the slice panics: `a > b`, `b > s.len()`, or `a`/`b` inside a
character (`charsToByte` = number of characters before a byte offset, `none` off a boundary / beyond
the end) -/
def strSlice (s : Text) (a b : Nat) : Option Text :=
  if b < a then none else
  match charsToByte s a, charsToByte s b with
  | some i, some j => some ((s.take j).drop i)
  | _, _ => none

/-- `prohibited_bos(s)`: `mat.end()` in bytes, 0 without a match -/
def prohibitedBosB (t : Text) : Nat := blen (t.take (prohibitedBos t))

/-- `is_continuous_phrase(s, eos)` with `eos` in bytes.  `none` = a panic: a slice off a boundary, one of
the two `unwrap()`s on `None`, or `eos - last_char_len` underflowing. -/
def isContinuousPhraseB (s : Text) (eos : Nat) : Option Bool :=
  match strSlice s 0 eos with                                     -- `s[..eos]`
  | none => none
  | some head =>
    match head.getLast? with                                      -- `.chars().last().unwrap()`
    | none => none
    | some lc =>
      let lastCharLen := width lc                                 -- `.to_string().len()`
      if eos < lastCharLen then none else                         -- `eos - last_char_len` (usize)
      match strSlice s (eos - lastCharLen) (blen s) with          -- `s[(eos - last_char_len)..]`
      | none => none
      | some q =>
        if quoteMarkerAt0 q then some true else
        match strSlice s eos (blen s) with                        -- `s[eos..]`
        | none => none
        | some [] => none                                         -- `.chars().nth(0).unwrap()`
        | some (c :: _) =>
          some ((c = 0x3068 || c = 0x3084 || c = 0x306E) && endsWithItemize head.reverse)

/-- body of `for mat in SENTENCE_BREAKER.find_iter(&s)` with `eos0 = mat.end()` in bytes;
`.accept eos` carries the returned byte offset -/
def examineB (v : CkVariant) (checker : Option (List (List (List Nat)))) (input s : Text) (eos0 : Nat) :
    Cand :=
  match strSlice s 0 eos0 with                                    -- `parenthesis_level(&s[..eos])`
  | none => .panic
  | some head =>
    if parenLevel head > 0 then .veto else
    match (if eos0 < blen s then                                  -- `if eos < s.len()`
             (strSlice s eos0 (blen s)).map (fun t => eos0 + prohibitedBosB t)   -- `eos += prohibited_bos(&s[eos..])`
           else some eos0) with
    | none => .panic
    | some eos =>
      if isItemizeHeader s then .veto else
      match (if eos < blen s then isContinuousPhraseB s eos else some false) with
      | none => .panic
      | some true => .veto
      | some false =>
        match checker with
        | none => .accept eos
        | some lexs =>
          match hasNonBreakWord v lexs input eos with             -- `ck.has_non_break_word(input, eos)`
          | .panic => .panic
          | .ok true => .veto
          | .ok false => .accept eos

/-- `scan` with the byte offset `kb` of the current position carried along (`mat.end()` is a byte
offset: `kb` + the bytes of the match) -/
def scanB (v : CkVariant) (checker : Option (List (List (List Nat)))) (input s : Text) :
    Nat → Option Nat → Nat → Text → Option Cand
  | _, _, _, [] => none
  | kb, _, skip + 1, c :: rest => scanB v checker input s (kb + width c) (some c) skip rest
  | kb, prev, 0, c :: rest =>
    match breakerAt prev (c :: rest) with
    | none => scanB v checker input s (kb + width c) (some c) 0 rest
    | some n =>
      match examineB v checker input s (kb + blen ((c :: rest).take n)) with
      | .veto => scanB v checker input s (kb + width c) (some c) (n - 1) rest
      | r => some r

/-- `get_eos`: the returned `isize` -/
def getEosB (v : CkVariant) (limit : Nat) (checker : Option (List (List (List Nat)))) (input : Text) :
    Res Int :=
  if input.isEmpty then .ok 0 else
  let s := input.take limit                                       -- `input.chars().take(self.limit).collect()`
  let inputExceedsLimit := decide (blen s < blen input)           -- `s.len() < input.len()`
  match scanB v checker input s 0 none 0 s with
  | some (.accept e) => .ok (Int.ofNat e)                         -- `return Ok(eos as isize)`
  | some .panic => .panic
  | some .veto => .panic   -- unreachable
  | none =>
    if inputExceedsLimit then
      match spacesEnd s with
      | some e => .ok (- Int.ofNat (blen (s.take e)))             -- `Ok(-(mat.end() as isize))`
      | none => .ok (- Int.ofNat (blen s))
    else .ok (- Int.ofNat (blen s))                               -- `Ok(-(s.len() as isize))`

/-- `fuel` calls of `SentenceIter::next` on `data`, `position` in bytes -/
def splitFuelB (v : CkVariant) (limit : Nat) (checker : Option (List (List (List Nat)))) (data : Text) :
    Nat → Nat → SplitRes
  | 0, position => if position = blen data then .ok [] else .fuelOut
  | fuel + 1, position =>
    if position = blen data then .ok [] else                      -- `position == data.len()` → `None`
    match strSlice data position (blen data) with                 -- `&self.data[self.position..]`
    | none => .panic
    | some slice =>
      match getEosB v limit checker slice with
      | .panic => .panic                                          -- `.unwrap()`
      | .ok rv =>
        let endB := if rv < 0 then blen data else position + rv.toNat
        match strSlice data position endB with                    -- `&self.data[range.clone()]`
        | none => .panic
        | some real => SplitRes.cons ⟨position, endB, real⟩ (splitFuelB v limit checker data fuel endB)

/-- the whole iteration over byte offsets -/
def splitB (v : CkVariant) (limit : Nat) (checker : Option (List (List (List Nat)))) (text : Text) :
    SplitRes :=
  splitFuelB v limit checker text text.length 0

/-- the value of `get_eos` on the rest of the text at the start of every sentence (what each call of
`next` saw); the last one is the negative (provisional) answer unless the text ends with a break -/
def stepValues (v : CkVariant) (limit : Nat) (checker : Option (List (List (List Nat)))) (text : Text)
    (l : List Sent) : List String :=
  l.map (fun x =>
    match strSlice text x.b (blen text) with
    | none => "PANIC"
    | some rest =>
      match getEosB v limit checker rest with
      | .panic => "PANIC"
      | .ok rv => toString rv)

/-- how many suffixes of the text the answer line reports (`suf=`): the first 40 character boundaries
(8 for texts longer than 200 characters), the end of the text included when it is among them -/
def sufCount (text : Text) : Nat := if text.length > 200 then 8 else 40

/-- the value of `get_eos` on `text[b..]` for the first `sufCount` character boundaries `b` — every
alignment of the 30-byte look-back and of the window against the characters of the text, not only the
ones the iterator happens to visit -/
def suffixValues (v : CkVariant) (limit : Nat) (checker : Option (List (List (List Nat)))) (text : Text) :
    List String :=
  (List.range (min (text.length + 1) (sufCount text))).map (fun k =>
    match strSlice text (blen (text.take k)) (blen text) with       -- `&text[b..]`
    | none => "PANIC"
    | some rest =>
      match getEosB v limit checker rest with
      | .panic => "PANIC"
      | .ok rv => toString rv)

/-! ## driver entry -/

def showSents (l : List Sent) : String :=
  Wire.joinWith "," (l.map (fun x => toString x.b ++ ":" ++ toString x.e))

def parseLexs (s : List Char) : Option (List (List (List Nat))) :=
  Wire.allSome ((Wire.items ';' s).map (fun lx => Wire.allSome ((Wire.items ',' lx).map Wire.hexBytes?)))

/-- the token `ck_variant=cur|fix` of the case line; `cur` when the token is absent.
The harness writes `fix` when the tree it is built against has the repaired `Ordering::Equal` arm. -/
def parseVariant (toks : List (List Char)) : Option CkVariant :=
  match Wire.kv? toks "ck_variant" with
  | none => some .cur
  | some w => if w = "cur".toList then some .cur else if w = "fix".toList then some .fix else none

/-- `C16 split idx=<n> limit=<n> ck=<0|1> [ck_variant=cur|fix] lex=<hex,hex;hex,...> text=<code points>`
→ `ok eos=<isize> ranges=<b:e,...> steps=<isize,...> suf=<isize,...>` computed by the byte-offset functions -/
def handle (toks : List (List Char)) : String :=
  match Wire.kv? toks "limit", Wire.kv? toks "ck", Wire.kv? toks "lex", Wire.kv? toks "text" with
  | some l, some ck, some lx, some t =>
    match Wire.nat? l, Wire.nat? ck, parseLexs lx, Wire.natList? t, parseVariant toks with
    | some limit, some ckn, some lexs, some text, some v =>
      let checker := if ckn = 0 then none else some lexs
      let eos := match getEosB v limit checker text with
        | .panic => "PANIC"
        | .ok r => toString r
      let (sp, steps) := match splitB v limit checker text with
        | .panic => ("PANIC", "-")
        | .fuelOut => ("NONTERMINATION", "-")
        | .ok l => (showSents l, Wire.joinWith "," (stepValues v limit checker text l))
      "ok eos=" ++ eos ++ " ranges=" ++ sp ++ " steps=" ++ steps ++
        " suf=" ++ Wire.joinWith "," (suffixValues v limit checker text)
    | _, _, _, _, _ => "bad-op"
  | _, _, _, _ => "bad-op"

end Sentence
