import Sudachi.Model.Wire
import Sudachi.Model.Edit
/-!
# Model of the command-line tool (`sudachi-cli/src/main.rs`, `analysis.rs`, `output.rs`) and of the
mode handling of the Python tokenizer (`python/src/tokenizer.rs`)  — property C19

Everything the library computes (sentence splitting, tokenisation, morpheme fields) enters as
*parameters* (`Lib`): C19 is about the glue — line handling, `strip_eol`, the three analysis
modes, the two output formats, and the Python per-call mode override.
-/
namespace Cli

abbrev Bytes := List Nat

/-- what the formatters read from one morpheme -/
structure Morph where
  surface : Bytes
  pos : List Bytes
  norm : Bytes
  dictForm : Bytes
  reading : Bytes
  dictId : Int
  synonyms : List Nat
  isOov : Bool
deriving Repr

/-- `InfoSubset::all()` (ten flag bits) -/
def subsetAll : Nat := 1023

/-- what `reset(); push_str(text); do_tokenize(); collect_results()` gives for one text -/
inductive TokRes
  | ok (ms : List Morph) (dump : Bytes)   -- the morphemes; `dump` = what a debug tokenizer `println!`s meanwhile
  | err (dump : Bytes)                    -- `do_tokenize` returned `Err` (after printing `dump`)
  | missing                               -- driver only: the shipped table has no entry for the text
deriving Repr

/-- the library, as seen by the CLI -/
structure Lib where
  split : Bytes → List Bytes                -- `SentenceSplitter::split` (sentences in order)
  tokenize : Nat → Bytes → TokRes           -- analysis with the given `InfoSubset` bits in the CLI's mode

inductive StripVariant | cur | fix
deriving DecidableEq, Repr

/-- `strip_eol` as written: the guards are `len > 1` -/
def stripEolCur (l : Bytes) : Bytes :=
  if l.length > 1 ∧ l.getLast? = some 10 then
    let l1 := l.dropLast
    if l1.length > 1 ∧ l1.getLast? = some 13 then l1.dropLast else l1
  else l

/-- `strip_eol` with the guards `len > 0` (repair of D14) -/
def stripEolFix (l : Bytes) : Bytes :=
  if l.length > 0 ∧ l.getLast? = some 10 then
    let l1 := l.dropLast
    if l1.length > 0 ∧ l1.getLast? = some 13 then l1.dropLast else l1
  else l

def stripEol : StripVariant → Bytes → Bytes
  | .cur => stripEolCur
  | .fix => stripEolFix

/-- `BufRead::read_line` until it returns 0: every line keeps its terminator; a final line without
terminator is returned when non-empty -/
def linesGo : Bytes → Bytes → List Bytes
  | [], cur => if cur.isEmpty then [] else [cur.reverse]
  | b :: rest, cur => if b = 10 then (b :: cur).reverse :: linesGo rest [] else linesGo rest (b :: cur)

def lines (file : Bytes) : List Bytes := linesGo file []

def sepJoin (sep : Bytes) : List Bytes → Bytes
  | [] => []
  | [x] => x
  | x :: xs => x ++ sep ++ sepJoin sep xs

def asciiBytes (s : String) : Bytes := s.toList.map Char.toNat

/-- `{:?}` of `&[u32]` -/
def debugU32s (l : List Nat) : Bytes :=
  asciiBytes "[" ++ sepJoin (asciiBytes ", ") (l.map (fun n => asciiBytes (toString n))) ++ asciiBytes "]"

/-- `write_morpheme_basic` (+ `write_morpheme_extended` with `-a`) + newline -/
def simpleLine (all : Bool) (m : Morph) : Bytes :=
  m.surface ++ [9] ++ sepJoin [44] m.pos ++ [9] ++ m.norm ++
  (if all then
    [9] ++ m.dictForm ++ [9] ++ m.reading ++ [9] ++ asciiBytes (toString m.dictId) ++ [9] ++ debugU32s m.synonyms ++
      (if m.isOov then asciiBytes "\t(OOV)" else [])
   else []) ++ [10]

/-- `Simple::write` -/
def simpleOut (all : Bool) (ms : List Morph) : Bytes :=
  (ms.map (simpleLine all)).flatten ++ asciiBytes "EOS\n"

/-- `Wakachi::write` -/
def wakatiOut (ms : List Morph) : Bytes :=
  if ms.isEmpty then [10] else sepJoin [32] (ms.map (·.surface)) ++ [10]

inductive SplitMode | default | only | none
deriving DecidableEq, Repr

structure Flags where
  wakati : Bool
  all : Bool
  split : SplitMode
  strip : StripVariant
  debug : Bool := false        -- `-d`
  toFile : Bool := false       -- `-o <path>`

def format (f : Flags) (ms : List Morph) : Bytes :=
  if f.wakati then wakatiOut ms else simpleOut f.all ms

/-- `SudachiOutput::subset()` of the selected writer.  DEAD CODE: nothing calls it. -/
def outputSubset (f : Flags) : Nat :=
  if f.wakati then 0 else if f.all then 4 + 8 + 16 + 32 + 512 else 4 + 8

/-- the subset the analysis runs with: `StatefulTokenizer::create` starts from `InfoSubset::all()` and
`Analysis::set_subset` is never called by `main` -/
def cliSubset (_f : Flags) : Nat := subsetAll

/-- process exit: 0, or 101 (a panic of the main thread: `unwrap_or_else(|e| panic!(..))`, `expect`) -/
inductive Exit | ok | panic | miss
deriving DecidableEq, Repr

/-- what one `analyze` call emits: bytes printed by the debug tokenizer (straight to stdout), bytes written to
`writer` (a `BufWriter`), and whether it returned -/
structure Emit where
  dumps : Bytes
  outs : Bytes
  exit : Exit
deriving Repr

/-- `AnalyzeNonSplitted::analyze`: a tokenizer error is a panic, nothing is written for the failing text -/
def analyzeOne (lib : Lib) (f : Flags) (text : Bytes) : Emit :=
  match lib.tokenize (cliSubset f) text with
  | .ok ms d => ⟨if f.debug then d else [], format f ms, .ok⟩
  | .err d => ⟨if f.debug then d else [], [], .panic⟩
  | .missing => ⟨[], [], .miss⟩

/-- `AnalyzeSplitted::analyze`: the sentences in order; the first failing one ends the process -/
def analyzeSents (lib : Lib) (f : Flags) : List Bytes → Emit
  | [] => ⟨[], [], .ok⟩
  | s :: rest =>
    let e := analyzeOne lib f s
    if e.exit = .ok then
      let r := analyzeSents lib f rest
      ⟨e.dumps ++ r.dumps, e.outs ++ r.outs, r.exit⟩
    else e

/-- `Analysis::analyze` for the three modes (`SplitSentencesOnly` owns no tokenizer: no dumps, no errors) -/
def analyzeLine (lib : Lib) (f : Flags) (text : Bytes) : Emit :=
  match f.split with
  | .only => ⟨[], (lib.split text).flatten, .ok⟩
  | .none => analyzeOne lib f text
  | .default => analyzeSents lib f (lib.split text)

/-- the read loop: one `Emit` per line read, stopping after the first line that panics -/
def runLines (lib : Lib) (f : Flags) : List Bytes → List Emit
  | [] => []
  | l :: rest =>
    let e := analyzeLine lib f (stripEol f.strip l)
    if e.exit = .ok then e :: runLines lib f rest else [e]

def exitOf : List Emit → Exit
  | [] => .ok
  | [e] => e.exit
  | _ :: rest => exitOf rest

/-- what the process leaves behind -/
structure Out where
  stdout : Bytes
  file : Option Bytes      -- contents of the `-o` file; `none` = not requested or never created
  exit : Exit
deriving Repr, DecidableEq

/-- `sudachi [flags] [-o out] [file]`.  `inOk`: the input file can be opened (always true for stdin), `outOk`:
the output file can be created.  Input is opened first, then the output, then the dictionary is loaded.
Results go through a `BufWriter` that is flushed after every line when it wraps stdout, at the end otherwise,
and by its `Drop` while a panic unwinds; the debug tokenizer prints with `println!` (line buffered, immediate).
So on stdout the dumps of a line precede the results of that line (as long as the results of one line stay below
the writer's 8 KiB capacity: assumption A-BUF, kept by the generator); with `-o` stdout carries the dumps only. -/
def run (lib : Lib) (f : Flags) (inOk outOk : Bool) (file : Bytes) : Out :=
  if !inOk then ⟨[], none, .panic⟩
  else if f.toFile && !outOk then ⟨[], none, .panic⟩
  else
    let evs := runLines lib f (lines file)
    if f.toFile then ⟨(evs.map (·.dumps)).flatten, some (evs.map (·.outs)).flatten, exitOf evs⟩
    else ⟨(evs.map (fun e => e.dumps ++ e.outs)).flatten, none, exitOf evs⟩

/-! ## Python tokenizer: per-call mode override (`tokenize(text, mode=…, out=…)`) -/

inductive Mode | A | B | C
deriving DecidableEq, Repr

structure PyTok where
  mode : Mode          -- the mode the tokenizer was created with / currently holds
deriving Repr

/-- one `tokenize` call: the override is installed, the analysis runs (and may fail), and the
scope guard restores the previous mode on every exit path.  Returns the new state and the mode
the analysis ran in. -/
def pyTokenize (t : PyTok) (override : Option Mode) (_fails : Bool) : PyTok × Mode :=
  match override with
  | none => (t, t.mode)
  | some m =>
    let prev := t.mode
    let t1 : PyTok := { mode := m }     -- `set_mode(m)` returns `prev`
    let ran := t1.mode
    ({ mode := prev }, ran)             -- guard: `set_mode(prev)`, also when the analysis failed

def pyRun (t : PyTok) : List (Option Mode × Bool) → PyTok × List Mode
  | [] => (t, [])
  | (o, f) :: rest =>
    let (t1, ran) := pyTokenize t o f
    let (t2, rs) := pyRun t1 rest
    (t2, ran :: rs)

/-! ## driver -/

def unhex (s : List Char) : Option Bytes := Wire.hexBytes? s

def parseMorph (s : List Char) : Option Morph :=
  match Wire.splitOn '/' s with
  | [su, po, no, df, rd, di, sy, oo] =>
    match unhex su, Wire.allSome ((Wire.items '+' po).map unhex), unhex no, unhex df, unhex rd, Wire.int? di,
          Wire.allSome ((Wire.items '+' sy).map Wire.nat?) with
    | some su, some po, some no, some df, some rd, some di, some sy =>
      some ⟨su, po, no, df, rd, di, sy, oo = ['1']⟩
    | _, _, _, _, _, _, _ => none
  | _ => none

/-- table entries: `S<hex text>=<hex>,<hex>,…` (sentences), `T<subset>:<hex text>=<hex dump>=<morph>,<morph>,…`
(analysis succeeded), `E<subset>:<hex text>=<hex dump>` (analysis failed) -/
inductive Entry
  | sents (text : Bytes) (ss : List Bytes)
  | toks (subset : Nat) (text : Bytes) (r : TokRes)

def parseKey (s : List Char) : Option (Nat × Bytes) :=
  match Wire.splitOn ':' s with
  | [b, t] => match Wire.nat? b, unhex t with
    | some b, some t => some (b, t)
    | _, _ => none
  | _ => none

def parseEntry (s : List Char) : Option Entry :=
  match s with
  | 'S' :: rest =>
    match Wire.splitOn '=' rest with
    | [t, v] => match unhex t, Wire.allSome ((Wire.items ',' v).map unhex) with
      | some t, some ss => some (.sents t ss)
      | _, _ => none
    | _ => none
  | 'T' :: rest =>
    match Wire.splitOn '=' rest with
    | [k, d, v] => match parseKey k, unhex d, Wire.allSome ((Wire.items ',' v).map parseMorph) with
      | some (b, t), some d, some ms => some (.toks b t (.ok ms d))
      | _, _, _ => none
    | _ => none
  | 'E' :: rest =>
    match Wire.splitOn '=' rest with
    | [k, d] => match parseKey k, unhex d with
      | some (b, t), some d => some (.toks b t (.err d))
      | _, _ => none
    | _ => none
  | _ => none

/-- a text without `S` entry has no sentences recorded: the driver then answers `bad-table` through `missing` -/
def libOf (es : List Entry) : Lib where
  split := fun t => match es.findSome? (fun e => match e with | .sents t' ss => if t' = t then some ss else none | _ => none) with
    | some ss => ss
    | none => [[0xff, 0xfe, 0xfd]]     -- not UTF-8: no `T` entry can exist for it
  tokenize := fun b t => match es.findSome? (fun e => match e with | .toks b' t' r => if b' = b ∧ t' = t then some r else none | _ => none) with
    | some r => r
    | none => .missing

def showExit : Exit → String | .ok => "0" | .panic => "101" | .miss => "bad-table"

def parseMode (s : List Char) : Option Mode :=
  match s with | ['A'] => some .A | ['B'] => some .B | ['C'] => some .C | _ => none

def showMode : Mode → String | .A => "A" | .B => "B" | .C => "C"

/-- `C19 cli w=<0|1> a=<0|1> d=<0|1> o=<0|1> in=<0|1> outp=<0|1> split=<default|only|none> strip=<cur|fix> file=<hex> tab=<entry;entry;…>`
      → `exit=<0|101> out=<hex> file=<hex|->`   (`src=` — file or stdin — is carried on the line and ignored: the model is the same)
    `C19 pymode init=<A|B|C> calls=<-|A|B|C>:<0|1>,…` → `ok final=<mode> ran=<modes>` -/
def handle (op : List Char) (toks : List (List Char)) : String :=
  if op = "cli".toList then
    match Wire.kv? toks "w", Wire.kv? toks "a", Wire.kv? toks "split", Wire.kv? toks "strip", Wire.kv? toks "file", Wire.kv? toks "tab",
          Wire.kv? toks "d", Wire.kv? toks "o", Wire.kv? toks "in", Wire.kv? toks "outp" with
    | some w, some a, some sp, some st, some fl, some tb, some d, some o, some inn, some outp =>
      let split? : Option SplitMode := if sp = "default".toList then some .default else if sp = "only".toList then some .only
        else if sp = "none".toList then some .none else none
      let strip? : Option StripVariant := if st = "cur".toList then some .cur else if st = "fix".toList then some .fix else none
      match split?, strip?, unhex fl, Wire.allSome ((Wire.items ';' tb).map parseEntry) with
      | some split, some strip, some file, some es =>
        let r := run (libOf es) ⟨w = ['1'], a = ['1'], split, strip, d = ['1'], o = ['1']⟩ (inn = ['1']) (outp = ['1']) file
        if r.exit = .miss then "bad-table" else
        "exit=" ++ showExit r.exit ++ " out=" ++ EditM.showHex r.stdout ++ " file=" ++
          (match r.file with | some b => EditM.showHex b | none => "-")
      | _, _, _, _ => "bad-op"
    | _, _, _, _, _, _, _, _, _, _ => "bad-op"
  else if op = "pymode".toList then
    match Wire.kv? toks "init", Wire.kv? toks "calls" with
    | some i, some cs =>
      let call? (s : List Char) : Option (Option Mode × Bool) :=
        match Wire.splitOn ':' s with
        | [m, f] => if m = ['-'] then some (none, f = ['1']) else (parseMode m).map (fun m => (some m, f = ['1']))
        | _ => none
      match parseMode i, Wire.allSome ((Wire.items ',' cs).map call?) with
      | some m, some calls =>
        let (t, ran) := pyRun ⟨m⟩ calls
        "ok final=" ++ showMode t.mode ++ " ran=" ++ Wire.joinWith "," (ran.map showMode)
      | _, _ => "bad-op"
    | _, _ => "bad-op"
  else "bad-op"

end Cli
