import Sudachi.Model.Wire
import Sudachi.Model.Edit
/-!
# Model of the command-line tool (`sudachi-cli/src/main.rs`, `analysis.rs`, `output.rs`) and of the
mode handling of the Python tokenizer (`python/src/tokenizer.rs`)  — property C19

Everything the library computes (sentence splitting, tokenisation, morpheme fields) enters as
*parameters* (`Lib`): C19 is about the glue — line handling, `strip_eol`, the three analysis
modes, the two output formats, and the Python per-call mode override.
-/
namespace Cli

abbrev Bytes := List Nat

/-- what the formatters read from one morpheme -/
structure Morph where
  surface : Bytes
  pos : List Bytes
  norm : Bytes
  dictForm : Bytes
  reading : Bytes
  dictId : Int
  synonyms : List Nat
  isOov : Bool
deriving Repr

/-- the library, as seen by the CLI: `none` = the model was not given this text -/
structure Lib where
  split : Bytes → Option (List Bytes)        -- `SentenceSplitter::split` (sentences in order)
  tokenize : Bytes → Option (List Morph)     -- `reset; do_tokenize; collect_results` in the CLI's mode

inductive StripVariant | cur | fix
deriving DecidableEq, Repr

/-- `strip_eol` as written: the guards are `len > 1` -/
def stripEolCur (l : Bytes) : Bytes :=
  if l.length > 1 ∧ l.getLast? = some 10 then
    let l1 := l.dropLast
    if l1.length > 1 ∧ l1.getLast? = some 13 then l1.dropLast else l1
  else l

/-- `strip_eol` with the guards `len > 0` (repair of D14) -/
def stripEolFix (l : Bytes) : Bytes :=
  if l.length > 0 ∧ l.getLast? = some 10 then
    let l1 := l.dropLast
    if l1.length > 0 ∧ l1.getLast? = some 13 then l1.dropLast else l1
  else l

def stripEol : StripVariant → Bytes → Bytes
  | .cur => stripEolCur
  | .fix => stripEolFix

/-- `BufRead::read_line` until it returns 0: every line keeps its terminator; a final line without
terminator is returned when non-empty -/
def linesGo : Bytes → Bytes → List Bytes
  | [], cur => if cur.isEmpty then [] else [cur.reverse]
  | b :: rest, cur => if b = 10 then (b :: cur).reverse :: linesGo rest [] else linesGo rest (b :: cur)

def lines (file : Bytes) : List Bytes := linesGo file []

def sepJoin (sep : Bytes) : List Bytes → Bytes
  | [] => []
  | [x] => x
  | x :: xs => x ++ sep ++ sepJoin sep xs

def asciiBytes (s : String) : Bytes := s.toList.map Char.toNat

/-- `{:?}` of `&[u32]` -/
def debugU32s (l : List Nat) : Bytes :=
  asciiBytes "[" ++ sepJoin (asciiBytes ", ") (l.map (fun n => asciiBytes (toString n))) ++ asciiBytes "]"

/-- `write_morpheme_basic` (+ `write_morpheme_extended` with `-a`) + newline -/
def simpleLine (all : Bool) (m : Morph) : Bytes :=
  m.surface ++ [9] ++ sepJoin [44] m.pos ++ [9] ++ m.norm ++
  (if all then
    [9] ++ m.dictForm ++ [9] ++ m.reading ++ [9] ++ asciiBytes (toString m.dictId) ++ [9] ++ debugU32s m.synonyms ++
      (if m.isOov then asciiBytes "\t(OOV)" else [])
   else []) ++ [10]

/-- `Simple::write` -/
def simpleOut (all : Bool) (ms : List Morph) : Bytes :=
  (ms.map (simpleLine all)).flatten ++ asciiBytes "EOS\n"

/-- `Wakachi::write` -/
def wakatiOut (ms : List Morph) : Bytes :=
  if ms.isEmpty then [10] else sepJoin [32] (ms.map (·.surface)) ++ [10]

inductive SplitMode | default | only | none
deriving DecidableEq, Repr

structure Flags where
  wakati : Bool
  all : Bool
  split : SplitMode
  strip : StripVariant

def format (f : Flags) (ms : List Morph) : Bytes :=
  if f.wakati then wakatiOut ms else simpleOut f.all ms

def allSomeB : List (Option Bytes) → Option Bytes
  | [] => some []
  | none :: _ => none
  | some a :: rest => (allSomeB rest).map (a ++ ·)

/-- `Analysis::analyze` for the three modes; `none` = the library table lacks an entry -/
def analyzeLine (lib : Lib) (f : Flags) (text : Bytes) : Option Bytes :=
  match f.split with
  | .only => (lib.split text).map List.flatten
  | .none => (lib.tokenize text).map (format f)
  | .default =>
    match lib.split text with
    | none => none
    | some sents => allSomeB (sents.map (fun s => (lib.tokenize s).map (format f)))

/-- stdout of `sudachi [flags] file` -/
def run (lib : Lib) (f : Flags) (file : Bytes) : Option Bytes :=
  allSomeB ((lines file).map (fun l => analyzeLine lib f (stripEol f.strip l)))

/-! ## Python tokenizer: per-call mode override (`tokenize(text, mode=…, out=…)`) -/

inductive Mode | A | B | C
deriving DecidableEq, Repr

structure PyTok where
  mode : Mode          -- the mode the tokenizer was created with / currently holds
deriving Repr

/-- one `tokenize` call: the override is installed, the analysis runs (and may fail), and the
scope guard restores the previous mode on every exit path.  Returns the new state and the mode
the analysis ran in. -/
def pyTokenize (t : PyTok) (override : Option Mode) (_fails : Bool) : PyTok × Mode :=
  match override with
  | none => (t, t.mode)
  | some m =>
    let prev := t.mode
    let t1 : PyTok := { mode := m }     -- `set_mode(m)` returns `prev`
    let ran := t1.mode
    ({ mode := prev }, ran)             -- guard: `set_mode(prev)`, also when the analysis failed

def pyRun (t : PyTok) : List (Option Mode × Bool) → PyTok × List Mode
  | [] => (t, [])
  | (o, f) :: rest =>
    let (t1, ran) := pyTokenize t o f
    let (t2, rs) := pyRun t1 rest
    (t2, ran :: rs)

/-! ## driver -/

def unhex (s : List Char) : Option Bytes := Wire.hexBytes? s

def parseMorph (s : List Char) : Option Morph :=
  match Wire.splitOn '/' s with
  | [su, po, no, df, rd, di, sy, oo] =>
    match unhex su, Wire.allSome ((Wire.items '+' po).map unhex), unhex no, unhex df, unhex rd, Wire.int? di,
          Wire.allSome ((Wire.items '+' sy).map Wire.nat?) with
    | some su, some po, some no, some df, some rd, some di, some sy =>
      some ⟨su, po, no, df, rd, di, sy, oo = ['1']⟩
    | _, _, _, _, _, _, _ => none
  | _ => none

/-- table entries: `S<hex text>=<hex>,<hex>,…` (sentences) and `T<hex text>=<morph>,<morph>,…` -/
inductive Entry
  | sents (text : Bytes) (ss : List Bytes)
  | toks (text : Bytes) (ms : List Morph)

def parseEntry (s : List Char) : Option Entry :=
  match s with
  | 'S' :: rest =>
    match Wire.splitOn '=' rest with
    | [t, v] => match unhex t, Wire.allSome ((Wire.items ',' v).map unhex) with
      | some t, some ss => some (.sents t ss)
      | _, _ => none
    | _ => none
  | 'T' :: rest =>
    match Wire.splitOn '=' rest with
    | [t, v] => match unhex t, Wire.allSome ((Wire.items ',' v).map parseMorph) with
      | some t, some ms => some (.toks t ms)
      | _, _ => none
    | _ => none
  | _ => none

def libOf (es : List Entry) : Lib where
  split := fun t => es.findSome? (fun e => match e with | .sents t' ss => if t' = t then some ss else none | _ => none)
  tokenize := fun t => es.findSome? (fun e => match e with | .toks t' ms => if t' = t then some ms else none | _ => none)

def parseMode (s : List Char) : Option Mode :=
  match s with | ['A'] => some .A | ['B'] => some .B | ['C'] => some .C | _ => none

def showMode : Mode → String | .A => "A" | .B => "B" | .C => "C"

/-- `C19 cli w=<0|1> a=<0|1> split=<default|only|none> strip=<cur|fix> file=<hex> tab=<entry;entry;…>` → `ok out=<hex>`
    `C19 pymode init=<A|B|C> calls=<-|A|B|C>:<0|1>,…` → `ok final=<mode> ran=<modes>` -/
def handle (op : List Char) (toks : List (List Char)) : String :=
  if op = "cli".toList then
    match Wire.kv? toks "w", Wire.kv? toks "a", Wire.kv? toks "split", Wire.kv? toks "strip", Wire.kv? toks "file", Wire.kv? toks "tab" with
    | some w, some a, some sp, some st, some fl, some tb =>
      let split? : Option SplitMode := if sp = "default".toList then some .default else if sp = "only".toList then some .only
        else if sp = "none".toList then some .none else none
      let strip? : Option StripVariant := if st = "cur".toList then some .cur else if st = "fix".toList then some .fix else none
      match split?, strip?, unhex fl, Wire.allSome ((Wire.items ';' tb).map parseEntry) with
      | some split, some strip, some file, some es =>
        match run (libOf es) ⟨w = ['1'], a = ['1'], split, strip⟩ file with
        | some out => "ok out=" ++ EditM.showHex out
        | none => "bad-table"
      | _, _, _, _ => "bad-op"
    | _, _, _, _, _, _ => "bad-op"
  else if op = "pymode".toList then
    match Wire.kv? toks "init", Wire.kv? toks "calls" with
    | some i, some cs =>
      let call? (s : List Char) : Option (Option Mode × Bool) :=
        match Wire.splitOn ':' s with
        | [m, f] => if m = ['-'] then some (none, f = ['1']) else (parseMode m).map (fun m => (some m, f = ['1']))
        | _ => none
      match parseMode i, Wire.allSome ((Wire.items ',' cs).map call?) with
      | some m, some calls =>
        let (t, ran) := pyRun ⟨m⟩ calls
        "ok final=" ++ showMode t.mode ++ " ran=" ++ Wire.joinWith "," (ran.map showMode)
      | _, _ => "bad-op"
    | _, _ => "bad-op"
  else "bad-op"

end Cli
