import Sudachi.Model.Total
import Sudachi.Model.OovIO
import Sudachi.Model.Normalize
/-!
# C03: the WHOLE pipeline `Total.tokenize` executed by the driver (op `pipe`)

`Total.tokenize` composes the stages of `do_tokenize`; its parameters (`Total.Cfg`) are instantiated here from one
case line with the models the other properties tie component by component:

* `inputPlugins`  the three bundled input-text plugins of `Model/Normalize.lean` (C07: `defaultEdits`, `psmEdits`,
  `yomiEdits`, code-point edits) turned into the BYTE edits `InputEditor::replace_ref` records (offsets = prefix sums of
  the UTF-8 widths, replacement = UTF-8 of the replacement) and committed by `EditM.commitV` (C08);
* `mkBuf`         `Oov.mkBufV` (C13/C17: character classes from the shipped `char.def`, run table, word-start flags);
* `providers`, `lex`  as in C13's `lat` line (same tokens); `conn` as in the `cost` line;
* `rewrite`       word-info look-up without path-rewrite plugins: the node keeps its range and gets the unit key
  lengths of its A or B split (`lexu=`, per lexicon row) for the requested mode.  `Total.Cfg.rewrite` sees only node
  RANGES, so the table range ↦ units is taken from the best path of the model's own lattice (`bestEntries`: the same
  functions in the same order as `Total.tokenize`); a path entry is identified with the first lexicon row of that
  surface, ids and cost (equal rows are inserted in row order and `connect_node` keeps the first minimum).

The answer is the outcome class of `Total.tokenize` and, for `ok`, every morpheme's node range and accessors
(`Total.access`: begin/end/begin_c/end_c/surface range in the ORIGINAL text) — what the real tokenizer reports for the
same text, dictionary and configuration.
-/
namespace TotalIO
open Oov (Outcome)

/-! ## UTF-8 -/

def utf8Enc (c : Nat) : List Nat :=
  if c < 0x80 then [c]
  else if c < 0x800 then [0xC0 + c / 64, 0x80 + c % 64]
  else if c < 0x10000 then [0xE0 + c / 4096, 0x80 + c / 64 % 64, 0x80 + c % 64]
  else [0xF0 + c / 262144, 0x80 + c / 4096 % 64, 0x80 + c / 64 % 64, 0x80 + c % 64]

def encode (cs : List Nat) : List Nat := cs.flatMap utf8Enc

/-- byte offset of the code point with index `k` -/
def byteOff (cs : List Nat) (k : Nat) : Nat := ((cs.take k).map Normalize.utf8w).sum

/-- `replace_ref(m.start()..m.end(), …)` / `replace_char(…)`: the plugins address the current text by byte ranges -/
def toByteEdits (cs : List Nat) (es : List Normalize.Edit) : List (EditM.Edit Nat) :=
  es.map (fun e => ⟨byteOff cs e.s, byteOff cs e.e, encode e.rep⟩)

/-! ## input-text plugins -/

/-- one bundled plugin (`D` default, `P` prolonged sound mark, anything else ignore-yomigana) as a function of the
current text (bytes); a character without shipped Unicode facts is an error of the case line, not defaulted -/
def plugin (a : Array Normalize.Fact) (S : Normalize.Setup) (p : Char) (bytes : List Nat) :
    Outcome (List (EditM.Edit Nat)) :=
  match Wire.utf8Decode bytes with
  | none => .err "bad-utf8"        -- unreachable in the Rust: a plugin is handed a `&str`; `Total.tokenize` itself reports
                                   -- a rewritten text that does not decode as `panic "utf8"`
  | some cs =>
    if !Normalize.covered a cs then .err "bad-facts" else
    let U := Normalize.uniOf a
    let es : List Normalize.Edit :=
      if p = 'D' then (match S.table with | some T => Normalize.defaultEdits U T S.earliest cs | none => [])
      else if p = 'P' then Normalize.psmEdits S.marks S.rep cs
      else
        let Y : Normalize.Yomi := ⟨fun c => match Normalize.findFact a c with | some f => f.kanji | none => false,
                                   fun c => match Normalize.findFact a c with | some f => f.kana | none => false,
                                   S.yl, S.yr, S.yn⟩
        Normalize.yomiEdits Y cs
    .ok (toByteEdits cs es)

/-! ## word info: split units per lexicon row -/

structure LexU where
  w : Oov.Word
  ua : List Nat
  ub : List Nat

inductive Mode where
  | a | b | c
deriving DecidableEq

def unitsOf (m : Mode) (x : LexU) : List Nat :=
  match m with
  | .a => x.ua
  | .b => x.ub
  | .c => []

/-- the best path of the model's lattice: the stages of `Total.tokenize` up to `fill_top_path`, same functions, same
order; `none` when the analysis ends before (error, panic, empty text) -/
def bestEntries (lv : EditM.LenV) (cfg : Total.Cfg) (orig : List Nat) : Option (List Nat × List Total.Entry) :=
  match EditM.startBuild orig with
  | none => none
  | some l0 =>
    match Total.rewriteInput lv cfg.inputPlugins l0 with
    | .ok l =>
      match Wire.utf8Decode (EditM.textOf l) with
      | none => none
      | some chars =>
        if chars.isEmpty then none else
        match Oov.buildLattice cfg.providers cfg.lex (cfg.mkBuf chars) with
        | .ok nodes =>
          match Total.buildAll Total.addI32 Total.I32_MAX cfg.conn (nodes.map Total.toVit) (Total.reset chars.length) [] with
          | .ok (rows, _) =>
            match Total.connectEos Total.addI32 Total.I32_MAX cfg.conn rows chars.length with
            | .ok (_, pe, pi) =>
              match Total.topPath rows (chars.length + 1) (pe, pi) [] with
              | .ok ents => some (chars, ents)
              | _ => none
            | _ => none
          | _ => none
        | _ => none
    | _ => none

/-- range ↦ units of the lexicon row the path entry stands for (`[]` for OOV nodes and rows without a split) -/
def unitTable (m : Mode) (lexu : List LexU) (chars : List Nat) (ents : List Total.Entry) : List ((Nat × Nat) × List Nat) :=
  ents.map (fun ent =>
    let sf := (chars.take ent.node.e).drop ent.node.b
    let u := match lexu.find? (fun x => x.w.surface == sf && x.w.l == ent.node.l && x.w.r == ent.node.r && x.w.c == ent.node.c) with
      | some x => unitsOf m x
      | none => []
    ((ent.node.b, ent.node.e), u))

def lookupUnits (tab : List ((Nat × Nat) × List Nat)) (n : Total.NodeRange) : List Nat :=
  match tab.find? (fun p => p.1.1 == n.bc && p.1.2 == n.ec) with
  | some p => p.2
  | none => []

/-- `MorphemeList::get_internal_cost`: `last.total_cost() - first.total_cost()` in `i32` (`P` = `attempt to subtract with
overflow` of a checked build).  A path node reports its lattice total; a node made by `NodeSplitIterator` reports
`i32::MAX` in the pinned tree (`inherit = false`: `ResultNode::new(inner, i32::MAX, …)`) and the total of the node it was
split from after the repair (`inherit = true`).  The first morpheme belongs to the first path node, the last one to the last. -/
def unitTotal (inherit : Bool) (tab : List ((Nat × Nat) × List Nat)) (e : Total.Entry) : Int :=
  if !inherit && (lookupUnits tab ⟨e.node.b, e.node.e, 0, 0⟩).length ≥ 2 then Total.I32_MAX else e.total

/-- `none` = the subtraction overflows (panic of a checked build) -/
def internalCostV (checked inherit : Bool) (tab : List ((Nat × Nat) × List Nat)) (first last : Total.Entry) : Option Int :=
  Total.addP checked Total.I32_MAX (unitTotal inherit tab last) (-(unitTotal inherit tab first))

def internalCost (checked inherit : Bool) (tab : List ((Nat × Nat) × List Nat)) (ents : List Total.Entry) (nmorphs : Nat) : String :=
  if nmorphs = 0 then "0" else
  match ents.head?, ents.getLast? with
  | some f, some l =>
    match internalCostV checked inherit tab f l with
    | some v => toString v
    | none => "P"
  | _, _ => "?"

/-! ## the lattice behind the path: row sizes, and the OOV word id / POS id a path node carries -/

/-- the stages of `Total.tokenize` up to `fill_top_path` once more (same functions, same order), keeping the candidate
list `build_lattice` inserted and the position `(row, index)` of the last path entry (`connect_eos`'s back-pointer) -/
def latticeDetail (lv : EditM.LenV) (cfg : Total.Cfg) (orig : List Nat) :
    Option (List Nat × List Oov.Node × List Total.Entry × (Nat × Nat)) :=
  match EditM.startBuild orig with
  | none => none
  | some l0 =>
    match Total.rewriteInput lv cfg.inputPlugins l0 with
    | .ok l =>
      match Wire.utf8Decode (EditM.textOf l) with
      | none => none
      | some chars =>
        if chars.isEmpty then none else
        match Oov.buildLattice cfg.providers cfg.lex (cfg.mkBuf chars) with
        | .ok nodes =>
          match Total.buildAll Total.addI32 Total.I32_MAX cfg.conn (nodes.map Total.toVit) (Total.reset chars.length) [] with
          | .ok (rows, _) =>
            match Total.connectEos Total.addI32 Total.I32_MAX cfg.conn rows chars.length with
            | .ok (_, pe, pi) =>
              match Total.topPath rows (chars.length + 1) (pe, pi) [] with
              | .ok ents => some (chars, nodes, ents, (pe, pi))
              | _ => none
            | _ => none
          | _ => none
        | _ => none
    | _ => none

/-- number of candidates ending at boundary `e` = `ends_full[e].len()` after `build_lattice` (`Lattice::insert` pushes a
node into the row of its end) -/
def rowLen (nodes : List Oov.Node) (e : Nat) : Nat := (nodes.map Total.toVit).countP (fun x => x.e == e)

/-- the longest row of the lattice over a text of `n` characters (the quantity `hrowsz` bounds by 65535) -/
def maxRow (nodes : List Oov.Node) (n : Nat) : Nat := (List.range (n + 1)).foldl (fun m e => max m (rowLen nodes e)) 0

/-- `ends_full[e][i]`: the `i`-th inserted candidate that ends at `e` -/
def candAt (nodes : List Oov.Node) (e i : Nat) : Option Oov.Node := (nodes.filter (fun x => (Total.toVit x).e == e))[i]?

/-- position `(row, index)` of every path entry: an entry's back-pointer is the position of its predecessor, the last
entry's position is the back-pointer of EOS -/
def pathPositions (ents : List Total.Entry) (last : Nat × Nat) : List (Nat × Nat) :=
  (ents.drop 1).map (fun x => (x.pe, x.pi)) ++ [last]

/-- what an OOV morpheme reports as `part_of_speech_id()`: the provider puts `WordId::oov(pos)` on the node,
`resolve_best_path` synthesises `WordInfoData { pos_id: word_id.word() as u16, … }` -/
def oovPosId (x : Oov.Node) : Nat := Oov.widWord (Oov.wordIdOov x.pos) % 65536

/-- the OOV nodes of the best path with the POS id their morpheme reports: `<begin_c>:<end_c>:<pos_id>` (`?` = the
back-pointer does not address a candidate: cannot happen, `C03.lattice_index_in_range`) -/
def oovItems (nodes : List Oov.Node) (ents : List Total.Entry) (last : Nat × Nat) : List String :=
  (ents.zip (pathPositions ents last)).filterMap (fun (ent, pos) =>
    match candAt nodes pos.1 pos.2 with
    | some x => if x.oov then some (toString ent.node.b ++ ":" ++ toString ent.node.e ++ ":" ++ toString (oovPosId x)) else none
    | none => some "?")

/-! ## the configuration the driver executes -/

/-- `InputBuffer::build` over the class table `tab`; a character without class (impossible for a compiled table: C17)
leaves the class vector empty, and `cats[offset]` then panics in the builder -/
def mkBufOf (v : Oov.Variant) (bowFix : Bool) (tab : List (Nat × Nat)) (cs : List Nat) : Oov.Buf :=
  match Oov.mkBufV v bowFix tab cs with
  | some b => b
  | none => ⟨cs, [], [], []⟩

/-- word-info look-up without path-rewrite plugin: every node keeps its range and gets its split units -/
def rewriteOf (units : Total.NodeRange → List Nat) (p : List Total.NodeRange) : Outcome (List (Total.NodeRange × List Nat)) :=
  .ok (p.map (fun n => (n, units n)))

/-- the `Total.Cfg` of a `pipe` line -/
def mkCfg (plugins : List (List Nat → Outcome (List (EditM.Edit Nat)))) (v : Oov.Variant) (bowFix : Bool)
    (rs : List CharCat.CatRange) (ps : List Oov.Provider) (lex : List Oov.Word) (conn : Nat → Nat → Int)
    (units : Total.NodeRange → List Nat) : Total.Cfg :=
  ⟨plugins, mkBufOf v bowFix (CharCat.compile rs), ps, lex, conn, rewriteOf units⟩

/-! ## the case line -/

/-- `rwdef=` → `def=` for `Normalize.setup?` (`cdef=` is the character definition of C13/C17) -/
def normToks (toks : List (List Char)) : List (List Char) :=
  toks.filterMap (fun t =>
    match Wire.stripPrefix? "def=".toList t with
    | some _ => none
    | none => match Wire.stripPrefix? "rwdef=".toList t with
      | some v => some ("def=".toList ++ v)
      | none => some t)

/-- `lexu=<ua>/<ub>;…` aligned with `lex=` (`a+b+c` byte lengths, `-` = no split) -/
def parseLexU (lex : List Oov.Word) (s : List Char) : Option (List LexU) :=
  match Wire.allSome ((Wire.items ';' s).map (fun it =>
    match Wire.splitOn '/' it with
    | [a, b] => (match Total.parseUnits a, Total.parseUnits b with
      | some a, some b => some (a, b)
      | _, _ => none)
    | _ => none)) with
  | none => none
  | some us => if us.length = lex.length then some ((lex.zip us).map (fun p => ⟨p.1, p.2.1, p.2.2⟩)) else none

def parseConn (s : List Char) : Option (Nat → Nat → Int) :=
  match Wire.splitOn ':' s with
  | [nl, _nr, cells] =>
    match Wire.nat? nl, Wire.intList? cells with
    | some numLeft, some cs =>
      let arr := cs.toArray
      some (fun a b => match arr[b * numLeft + a]? with | some v => v | none => 0)
    | _, _ => none
  | _ => none

def parseMode (toks : List (List Char)) : Mode :=
  match Wire.kv? toks "mode" with
  | some ['A'] => .a
  | some ['B'] => .b
  | _ => .c

def showRange (n : Total.NodeRange) : String :=
  toString n.bc ++ ":" ++ toString n.ec ++ ":" ++ toString n.bb ++ ":" ++ toString n.eb

/-- the configuration of a case line without the word-info table -/
def caseCfg (toks : List (List Char)) : Option (Option (Total.Cfg × List LexU)) :=
  match Wire.kv? toks "cdef", Wire.kv? toks "provs", Wire.kv? toks "lex", Wire.kv? toks "lexu",
        (Wire.kv? toks "conn").bind parseConn, Wire.kv? toks "uni" with
  | some cd, some provs, some lex, some lexu, some conn, some u =>
    match Wire.hexBytes? cd, Wire.allSome ((Wire.items '.' provs).map (Oov.parseProvider toks)),
          Wire.allSome ((Wire.items ';' lex).map Oov.parseWord), Normalize.facts? u, Normalize.setup? (normToks toks) with
    | some cdBytes, some ps, some lex, some facts, some (pipe, def?, S) =>
      match Wire.allSome ps, CharCat.parseLines (Wire.splitOn '\n' (Oov.bytesToChars cdBytes)), parseLexU lex lexu with
      | some ps, .ok rs, some lexU =>
        if ps.isEmpty || !Normalize.loadOk pipe def? S then some none else
        some (some (mkCfg (pipe.map (plugin facts S)) (Oov.parseVariant toks) (Wire.kv? toks "bow" == some "fix".toList)
          rs ps lex conn (fun _ => []), lexU))
      | none, _, _ => some none
      | _, .error _, _ => some none
      | _, _, _ => none
    | _, _, _, _, _ => none
  | _, _, _, _, _, _ => none

/-- `C03 pipe orig=<hex> mode=<A|B|C> cdef=<hex char.def> variant= bow= provs=… <provider tokens> lex=… lexu=… conn=nl:nr:cells
pipe=<D|P|Y…> early= rwdef=<hex rewrite.def> pm= pr= yl= yr= yn= uni=<facts> split=<cur|d6fix> commit=<running|final>`
profile=<debug|release> ucost=<max|parent>`
answer: `ok n=<morphemes> <bc:ec:bb:eb/begin:end:begin_c:end_c:sb:se;…> cost=<get_internal_cost|P> rows=<longest row of the
lattice> oov=<begin_c:end_c:part_of_speech_id of every OOV morpheme|->` | `err:<kind>` | `PANIC` | `err:setup` -/
def handlePipe (toks : List (List Char)) : String :=
  match Wire.kv? toks "orig", caseCfg toks with
  | some o, some c =>
    match Wire.hexBytes? o, c with
    | some _, none => "err:setup"
    | some orig, some (cfg0, lexU) =>
      let lv := EditM.lenVOf toks
      let v : Total.SplitV := if Wire.kv? toks "split" == some "d6fix".toList then .d6fix else .cur
      let best := bestEntries lv cfg0 orig
      let tab := match best with
        | some (chars, ents) => unitTable (parseMode toks) lexU chars ents
        | none => []
      let cfg : Total.Cfg := { cfg0 with rewrite := rewriteOf (lookupUnits tab) }
      match Total.tokenize v lv cfg orig with
      | .panic _ => "PANIC"
      | .err k => "err:" ++ k
      | .ok r =>
        "ok n=" ++ toString r.morphs.length ++ " " ++
          Wire.joinWith ";" (r.morphs.map (fun n => showRange n ++ "/" ++ Total.showAccess (Total.access orig r.tables n))) ++
          " cost=" ++ internalCost (Wire.kv? toks "profile" != some "release".toList) (Wire.kv? toks "ucost" == some "parent".toList)
            tab (match best with | some (_, ents) => ents | none => []) r.morphs.length ++
          (match latticeDetail lv cfg0 orig with
           | some (chars, nodes, ents, last) =>
             let items := oovItems nodes ents last
             " rows=" ++ toString (maxRow nodes chars.length) ++ " oov=" ++ (if items.isEmpty then "-" else Wire.joinWith "," items)
           | none => " rows=0 oov=-")
    | none, _ => "bad-op"
  | _, _ => "bad-op"

def handle (op : List Char) (toks : List (List Char)) : String :=
  if op == "pipe".toList then handlePipe toks else Total.handle op toks

end TotalIO
