import Sudachi.Model.Codec
/-!
# The CSV reader `LexiconReader::read_bytes` configures (property C05)

`csv::ReaderBuilder::new().has_headers(false).trim(Trim::None).flexible(true)`: delimiter `,`, quote `"`
with `""` as the escaped quote (`double_quote`), no escape character, **no comment character**, terminator
"any of `\r`, `\n`, `\r\n`" (`Terminator::CRLF`), records of any number of fields, a UTF-8 byte order mark at
the very start of the input is dropped.  The function below is the NFA of `csv-core` (`Reader::transition_nfa`,
`transition_final_nfa`, `strip_utf8_bom`) with its epsilon moves folded in, run over scalar values (every special
byte is ASCII, so running over UTF-8 bytes and decoding the fields afterwards gives the same fields).

The driver splits the CSV TEXT of every case with this function (token `csv=`); the harness prints the records
of the real reader next to it (`rec=`), so the reader's configuration is tied on every line.
-/
namespace Codec

inductive CsvSt where
  | startRecord | startField | inField | inQuoted | inDq | crlf
deriving Repr, DecidableEq

/-- reader state between two input characters; `cur`, `fields`, `recs` are kept reversed -/
structure CsvAcc where
  st : CsvSt := .startRecord
  cur : Str := []
  fields : List Str := []
  recs : List (List Str) := []
deriving Repr, DecidableEq

/-- `Terminator::CRLF.equals` -/
def csvIsTerm (c : Nat) : Bool := c = 13 || c = 10

/-- `EndFieldDelim`: the current field is complete, the next one starts -/
def csvEndField (a : CsvAcc) : CsvAcc :=
  { a with st := .startField, cur := [], fields := a.cur.reverse :: a.fields }

/-- `EndFieldTerm` → `InRecordTerm` on the terminator `c`: the field and the record are complete; `\r` goes on to
`CRLF` (a directly following `\n` belongs to the same terminator) -/
def csvEndRecord (a : CsvAcc) (c : Nat) : CsvAcc :=
  { st := if c = 13 then .crlf else .startRecord, cur := [], fields := [],
    recs := (a.cur.reverse :: a.fields).reverse :: a.recs }

/-- `StartField` -/
def csvFieldStart (a : CsvAcc) (c : Nat) : CsvAcc :=
  if c = 34 then { a with st := .inQuoted }
  else if c = 44 then csvEndField a
  else if csvIsTerm c then csvEndRecord a c
  else { a with st := .inField, cur := c :: a.cur }

/-- `StartRecord`: terminators (empty lines) are discarded; there is no comment state -/
def csvRecordStart (a : CsvAcc) (c : Nat) : CsvAcc :=
  if csvIsTerm c then { a with st := .startRecord } else csvFieldStart a c

def csvStep (a : CsvAcc) (c : Nat) : CsvAcc :=
  match a.st with
  | .startRecord => csvRecordStart a c
  | .crlf => if c = 10 then { a with st := .startRecord } else csvRecordStart a c
  | .startField => csvFieldStart a c
  | .inField =>
    if c = 44 then csvEndField a else if csvIsTerm c then csvEndRecord a c else { a with cur := c :: a.cur }
  | .inQuoted => if c = 34 then { a with st := .inDq } else { a with cur := c :: a.cur }
  | .inDq =>
    if c = 34 then { a with st := .inQuoted, cur := 34 :: a.cur }
    else if c = 44 then csvEndField a
    else if csvIsTerm c then csvEndRecord a c
    else { a with st := .inField, cur := c :: a.cur }

/-- `transition_final_nfa`: the end of the input completes a record unless the reader is between records -/
def csvFinal (a : CsvAcc) : List (List Str) :=
  match a.st with
  | .startRecord | .crlf => a.recs.reverse
  | _ => ((a.cur.reverse :: a.fields).reverse :: a.recs).reverse

/-- `strip_utf8_bom` (first read only) -/
def csvStripBom : Str → Str
  | 0xFEFF :: rest => rest
  | s => s

/-- all records of a CSV text, in order -/
def csvRecords (text : Str) : List (List Str) :=
  csvFinal ((csvStripBom text).foldl csvStep {})

end Codec
