import Sudachi.Model.Wire
import Sudachi.Model.CharCat
/-!
# Model of the out-of-vocabulary machinery (property C13)

Mirrors, as written:
* `input_text/buffer/mod.rs`: `build` (the `can_bow` state machine), `fill_cat_continuity`
  (**backward, narrowing** = the code that exists; **forward** = the candidate repair; the
  declarative left-to-right `runsSpec`), `get_word_candidate_length`;
* `analysis/created.rs`: `CreatedWords` (64-bit mask, saturating shift, `Yes/No/Maybe`);
* `plugin/oov/{mecab_oov,simple_oov,regex_oov}/mod.rs`: the definition-file readers and `provide_oov`;
* `analysis/stateful_tokenizer.rs`: `LatticeBuilder::build_lattice` / `provide_oovs` (provider loop, skip at
  NOOOVBOW/NOOOVBOW2, re-invocation of the last provider, `EosBosDisconnect`), OOV word-info synthesis of
  `resolve_best_path` together with the accessors of `WordInfo`/`Morpheme`/`WordId` it is read through;
* `bitflags 2.5` `Flags::iter` (order in which the classes of a character are visited).

Character classes come from `CharCat` (C17).  Positions are code-point indices exactly as in the Rust
(`offset - char idx`); the byte-indexed `mod_bow` is rebuilt from the per-character flags and the UTF-8
widths only for the `buf` observation.
-/
namespace Oov

/-! ## outcomes -/

inductive Outcome (α : Type) where
  | ok (a : α)
  | err (kind : String)
  | panic (why : String)
deriving Repr, DecidableEq

def Outcome.bind {α β : Type} (x : Outcome α) (f : α → Outcome β) : Outcome β :=
  match x with
  | .ok a => f a
  | .err k => .err k
  | .panic w => .panic w

instance : Monad Outcome where
  pure := Outcome.ok
  bind := Outcome.bind

/-! ## category constants (`dic/category_type.rs`) -/

def NOOOVBOW : Nat := 1073741824      -- 1 << 30
def NOOOVBOW2 : Nat := 2147483648     -- 1 << 31
def ALL : Nat := 1073741823           -- 0x3fffffff
def ALPHA : Nat := 32
def GREEK : Nat := 512
def CYRILLIC : Nat := 1024
/-- `ALPHA | GREEK | CYRILLIC` -/
def nonStarting : Nat := 1568

/-- the named flags in declaration order (`Flags::FLAGS`) -/
def flagDefs : List Nat :=
  [1, 2, 4, 8, 16, 32, 64, 128, 256, 512, 1024, 2048, 4096, 8192, 16384, NOOOVBOW, NOOOVBOW2, ALL]

/-- `bitflags::iter::Iter::next` unrolled: named flags contained in `source` that still intersect
`remaining`, in declaration order; whatever is left is yielded as one final value. -/
def iterGo (source : Nat) : List Nat → Nat → List Nat
  | [], rem => if rem ≠ 0 then [rem] else []
  | f :: fs, rem =>
    if rem = 0 then []
    else if source &&& f = f ∧ rem &&& f ≠ 0 then f :: iterGo source fs (rem ^^^ (rem &&& f))
    else iterGo source fs rem

/-- `CategoryType::iter` -/
def flagsIter (cat : Nat) : List Nat := iterGo cat flagDefs cat

/-! ## `InputBuffer::build`: word-start permission -/

/-- the `can_bow` chain of `build`, one flag per character; state = (`next_bow`, `prev_cat`).
`chainBan = false`: the pinned code — a character banned by the preceding NOOOVBOW2 character resets
the flag without looking at its own class; `chainBan = true`: the repaired code — such a character, when
it is NOOOVBOW2 itself, bans its successor too. -/
def bowGoV (chainBan : Bool) : List Nat → Bool → Nat → List Bool
  | [], _, _ => []
  | cat :: rest, nextBow, prev =>
    if !nextBow then false :: bowGoV chainBan rest (if chainBan then cat &&& NOOOVBOW2 == 0 else true) cat
    else if cat &&& NOOOVBOW2 ≠ 0 then false :: bowGoV chainBan rest false cat
    else if cat &&& NOOOVBOW ≠ 0 then false :: bowGoV chainBan rest true cat
    else if cat &&& nonStarting ≠ 0 then (cat &&& prev == 0) :: bowGoV chainBan rest true cat
    else true :: bowGoV chainBan rest true cat

/-- the pinned code -/
def bowGo : List Nat → Bool → Nat → List Bool := bowGoV false

def bowTable (cats : List Nat) : List Bool := bowGo cats true 0

/-- the repaired code -/
def bowTableFix (cats : List Nat) : List Bool := bowGoV true cats true 0

def utf8Width (c : Nat) : Nat := if c < 0x80 then 1 else if c < 0x800 then 2 else if c < 0x10000 then 3 else 4

/-- `mod_bow`: `resize(len, false)` then `mod_bow[bidx] = can_bow` at every character start -/
def bowBytes : List Nat → List Bool → List Bool
  | c :: cs, b :: bs => b :: List.replicate (utf8Width c - 1) false ++ bowBytes cs bs
  | _, _ => []

/-! ## `fill_cat_continuity` -/

/-- the loop `for i in (0..len-1).rev()` over the reversed prefix; `k` = `mod_cat_continuity[i+1]` -/
def bwdLoop : List Nat → Nat → Nat → List Nat → List Nat
  | [], _, _, acc => acc
  | cur :: more, cat, k, acc =>
    if cur &&& cat ≠ 0 then bwdLoop more (cur &&& cat) (k + 1) ((k + 1) :: acc)
    else bwdLoop more cur 1 (1 :: acc)

/-- the code that exists: single pass from the back, narrowing the running class set -/
def fillCatContinuityBackward (cats : List Nat) : List Nat :=
  match cats.reverse with
  | [] => []
  | last :: revRest => bwdLoop revRest last 1 [1]

/-- inner `while end < len` of the forward pass: how many further characters join the run -/
def scan (cat : Nat) : List Nat → Nat
  | [] => 0
  | c :: rest => if cat &&& c = 0 then 0 else 1 + scan (cat &&& c) rest

theorem scan_le (cat : Nat) (l : List Nat) : scan cat l ≤ l.length := by
  induction l generalizing cat with
  | nil => simp [scan]
  | cons c rest ih =>
    simp only [scan]
    split
    · omega
    · have := ih (cat &&& c); simp only [List.length_cons]; omega

/-- `for i in start..end { cont[i] = end - i }` -/
def countdown : Nat → List Nat
  | 0 => []
  | k + 1 => (k + 1) :: countdown k

/-- the candidate repair: greedy left-to-right pass -/
def fillCatContinuityForward : List Nat → List Nat
  | [] => []
  | c :: rest => countdown (scan c rest + 1) ++ fillCatContinuityForward (rest.drop (scan c rest))
termination_by l => l.length
decreasing_by simp only [List.length_drop, List.length_cons]; omega

/-! ### the declarative left-to-right run computation (`runsSpec`) -/

/-- some class is shared by all characters of the (non-empty) stretch -/
def hasCommon : List Nat → Bool
  | [] => false
  | c :: l => l.foldl (· &&& ·) c != 0

/-- the largest `k' ≤ k` such that the first `k'` characters keep a class in common; a run is never
shorter than one character -/
def largestCommon (cats : List Nat) : Nat → Nat
  | 0 => 1
  | k + 1 => if hasCommon (cats.take (k + 1)) then k + 1 else largestCommon cats k

theorem largestCommon_pos (cats : List Nat) (k : Nat) : 1 ≤ largestCommon cats k := by
  induction k with
  | zero => simp [largestCommon]
  | succ k ih => simp only [largestCommon]; split <;> omega

/-- length of the run that starts at the head of `cats`: the maximal stretch with a common class -/
def runLen (cats : List Nat) : Nat := largestCommon cats cats.length

/-- runs determined left to right from the start of the text; every position gets the distance to
the end of its run -/
def runsSpec : List Nat → List Nat
  | [] => []
  | c :: rest => countdown (runLen (c :: rest)) ++ runsSpec (rest.drop (runLen (c :: rest) - 1))
termination_by l => l.length
decreasing_by
  have := largestCommon_pos (c :: rest) (c :: rest).length
  simp only [List.length_drop, List.length_cons]; omega

inductive Variant where
  | backward | forward | spec
deriving Repr, DecidableEq

/-- what the current tree does -/
def defaultVariant : Variant := .backward

def fillCatContinuity (v : Variant) (cats : List Nat) : List Nat :=
  match v with
  | .backward => fillCatContinuityBackward cats
  | .forward => fillCatContinuityForward cats
  | .spec => runsSpec cats

/-! ## the built buffer -/

structure Buf where
  chars : List Nat
  cats : List Nat
  cont : List Nat
  bow : List Bool      -- per character (value of `mod_bow` at the character's first byte)
deriving Repr, DecidableEq

def mkBufV (v : Variant) (bowFix : Bool) (tab : List (Nat × Nat)) (chars : List Nat) : Option Buf :=
  match Wire.allSome (chars.map (CharCat.lookup tab)) with
  | none => none
  | some cats => some ⟨chars, cats, fillCatContinuity v cats, if bowFix then bowTableFix cats else bowTable cats⟩

def mkBuf (v : Variant) (tab : List (Nat × Nat)) (chars : List Nat) : Option Buf := mkBufV v false tab chars

/-- number of leading characters that cannot start a word -/
def nextBow : List Bool → Nat
  | [] => 0
  | b :: bs => if b then 0 else 1 + nextBow bs

/-- `get_word_candidate_length`; `none` = `char_len - char_idx` underflows (debug panic) -/
def wordCandidateLength (bow : List Bool) (idx : Nat) : Option Nat :=
  if idx < bow.length then some (1 + nextBow (bow.drop (idx + 1)))
  else if idx = bow.length then some 0 else none

/-! ## `CreatedWords` -/

inductive HasWord where
  | yes | no | maybe
deriving Repr, DecidableEq

/-- `CreatedWords::single` for a positive length -/
def single (len : Nat) : Nat := 1 <<< (min (len - 1) 63)

def addWord (m len : Nat) : Nat := m ||| single len

def hasWord (m len : Nat) : HasWord :=
  if m &&& single len = 0 then .no else if len ≥ 64 then .maybe else .yes

/-! ## nodes -/

structure Node where
  b : Nat
  e : Nat
  l : Nat
  r : Nat
  c : Int
  oov : Bool
  pos : Nat      -- `WordId::oov(pos).word()` for OOV nodes; 0 for lexicon nodes
deriving Repr, DecidableEq

/-! ## MeCab provider -/

structure CatInfo where
  ctype : Nat
  invoke : Bool
  group : Bool
  length : Nat
deriving Repr, DecidableEq

structure OovDef where
  l : Nat
  r : Nat
  c : Int
  pos : Nat
deriving Repr, DecidableEq

structure MecabCfg where
  cats : List (Nat × CatInfo)          -- HashMap keyed by the parsed class set
  oovs : List (Nat × List OovDef)      -- HashMap class -> lines in file order
  /-- which `provide_oov_gen` is modelled: `false` = the pinned code (at the end of the text `char_distance` saturates and
  the 1..n loop pushes the last candidate again for every further `i`), `true` = the repair `fix: the MeCab OOV provider
  stops its 1..n candidates at the end of the text` (`|| sublength < i`).  Not a setting of the plugin: the harness probes
  `plugin/oov/mecab_oov/mod.rs` and puts `mstop=1` on the case line for the repaired tree. -/
  stopAtEnd : Bool := false
deriving Repr, DecidableEq

def findKey {α : Type} (k : Nat) : List (Nat × α) → Option α
  | [] => none
  | (k', v) :: rest => if k' = k then some v else findKey k rest

/-- `get_oov_node` -/
def mkNode (b e : Nat) (d : OovDef) : Node := ⟨b, e, d.l, d.r, d.c, true, d.pos⟩

/-- `for i in 1..=length { sublength = char_distance(offset, i); if sublength > llength {break}; … }`;
`cnt` = iterations left, `i` = loop variable; `stop` = the repaired test `sublength > llength || sublength < i` -/
def lenLoop (stop : Bool) (oovs : List OovDef) (offset n llength : Nat) : Nat → Nat → List Node
  | 0, _ => []
  | cnt + 1, i =>
    let sub := min (offset + i) n - offset
    if sub > llength || (stop && sub < i) then []
    else oovs.map (mkNode offset (offset + sub)) ++ lenLoop stop oovs offset n llength cnt (i + 1)

/-- body of `for ctype in input.cat_at_char(offset).iter()` -/
def mecabClass (cfg : MecabCfg) (n offset charLen : Nat) (created : Nat) (ct : Nat) : List Node :=
  match findKey ct cfg.cats with
  | none => []
  | some ci =>
    if !ci.invoke && created ≠ 0 then []
    else match findKey ci.ctype cfg.oovs with
      | none => []
      | some oovs =>
        let grp := if ci.group then oovs.map (mkNode offset (offset + charLen)) else []
        let llength := if ci.group then charLen - 1 else charLen
        grp ++ lenLoop cfg.stopAtEnd oovs offset n llength ci.length 1

/-- `MeCabOovPlugin::provide_oov_gen`; indexing out of range panics -/
def mecabProvide (cfg : MecabCfg) (buf : Buf) (offset created : Nat) : Outcome (List Node) :=
  match buf.cont[offset]?, buf.cats[offset]? with
  | some charLen, some cat =>
    if charLen = 0 then .ok []
    else .ok ((flagsIter cat).flatMap (mecabClass cfg buf.chars.length offset charLen created))
  | _, _ => .panic "index"

/-! ## Simple provider -/

structure SimpleCfg where
  l : Nat
  r : Nat
  c : Int
  pos : Nat
deriving Repr, DecidableEq

def simpleProvide (cfg : SimpleCfg) (buf : Buf) (offset created : Nat) : Outcome (List Node) :=
  if created ≠ 0 then .ok []
  else match wordCandidateLength buf.bow offset with
    | none => .panic "underflow"
    | some len => .ok [⟨offset, offset + len, cfg.l, cfg.r, cfg.c, true, cfg.pos⟩]

/-! ## Regex provider

The `regex` crate is not modelled; the harness only configures patterns of the shape
`[set]{min,max}` or `[set]{min,max}|[set']{min',max'}` (`set` spelled with `\x{…}` escapes), whose
leftmost-first match on the slice is computed directly: `set_up` prefixes `^`, which anchors the
first alternative only. -/

structure Alt where
  set : List Nat
  min : Nat
  max : Option Nat
deriving Repr, DecidableEq

/-- greedy `[set]{0,max}` prefix length -/
def greedy (set : List Nat) : Option Nat → List Nat → Nat
  | some 0, _ => 0
  | _, [] => 0
  | mx, c :: rest => if set.contains c then 1 + greedy set (mx.map (· - 1)) rest else 0

def altMatch (a : Alt) (s : List Nat) : Option Nat :=
  let k := greedy a.set a.max s
  if k ≥ a.min then some k else none

/-- `regex.find(slice)` followed by the `m.start() != 0 → Ok(0)` test: `some k` = a match `[0,k)` -/
def regexFind (alts : List Alt) (s : List Nat) : Option Nat :=
  alts.findSome? (fun a => altMatch a s)

structure RegexCfg where
  l : Nat
  r : Nat
  c : Int
  pos : Nat
  alts : List Alt
  maxLength : Nat
  strict : Bool
  /-- which `provide_oov` is modelled: `false` = the pinned code (an empty match reaches
  `CreatedWords::single(0)`: debug assertion), `true` = the repair `fix: the regex OOV provider ignores an empty
  match` (`if match_length == 0 { return Ok(0) }`).  Not a setting of the plugin: the harness probes
  `plugin/oov/regex_oov/mod.rs` and puts `rxempty=skip` on the case line for the repaired tree. -/
  skipEmpty : Bool := false
deriving Repr, DecidableEq

/-- the strict-boundary test at the head of `provide_oov`: `some false` = "no discontinuity" (return `Ok(0)`);
`none` = index panic -/
def regexAtBoundary (cfg : RegexCfg) (buf : Buf) (offset : Nat) : Option Bool :=
  if cfg.strict && offset > 0 then
    match buf.cont[offset]?, buf.cont[offset - 1]? with
    | some t, some p => some (t + 1 != p)
    | _, _ => none
  else some true

def regexNode (cfg : RegexCfg) (offset k : Nat) : Node := ⟨offset, offset + k, cfg.l, cfg.r, cfg.c, true, cfg.pos⟩

/-- the rest of `provide_oov`: slice of at most `max_length` characters, match, created-length test
(with the linear scan over `result` for `Maybe`) -/
def regexCore (cfg : RegexCfg) (buf : Buf) (offset created : Nat) (existing : List Node) : Outcome (List Node) :=
  if offset > buf.chars.length then .panic "slice" else
  match regexFind cfg.alts ((buf.chars.take (min buf.chars.length (offset + cfg.maxLength))).drop offset) with
  | none => .ok []
  | some k =>
    if k = 0 then (if cfg.skipEmpty then .ok [] else .panic "CreatedWords::single(0)") else
    match hasWord created k with
    | .yes => .ok []
    | .no => .ok [regexNode cfg offset k]
    | .maybe => if existing.any (fun x => x.e == offset + k) then .ok [] else .ok [regexNode cfg offset k]

/-- `RegexOovProvider::provide_oov`; `existing` = the nodes already in the buffer (`result`) -/
def regexProvide (cfg : RegexCfg) (buf : Buf) (offset created : Nat) (existing : List Node) : Outcome (List Node) :=
  match regexAtBoundary cfg buf offset with
  | none => .panic "index"
  | some false => .ok []
  | some true => regexCore cfg buf offset created existing

/-! ## providers and the lattice builder -/

inductive Provider where
  | mecab (cfg : MecabCfg)
  | simple (cfg : SimpleCfg)
  | regex (cfg : RegexCfg)
deriving Repr, DecidableEq

def provide (p : Provider) (buf : Buf) (offset created : Nat) (existing : List Node) : Outcome (List Node) :=
  match p with
  | .mecab cfg => mecabProvide cfg buf offset created
  | .simple cfg => simpleProvide cfg buf offset created
  | .regex cfg => regexProvide cfg buf offset created existing

/-- `for idx in start_size..start_size+num_provided { other = other.add_word(len) … }` -/
def addAll (created : Nat) (nodes : List Node) : Nat :=
  nodes.foldl (fun m x => addWord m (x.e - x.b)) created

/-- `provide_oovs`: state = (`created`, node buffer) -/
def provideOovs (p : Provider) (buf : Buf) (offset : Nat) (st : Nat × List Node) : Outcome (Nat × List Node) :=
  match provide p buf offset st.1 st.2 with
  | .ok new => .ok (addAll st.1 new, st.2 ++ new)
  | .err k => .err k
  | .panic w => .panic w

def provideAll (ps : List Provider) (buf : Buf) (offset : Nat) (st : Nat × List Node) : Outcome (Nat × List Node) :=
  match ps with
  | [] => .ok st
  | p :: rest =>
    match provideOovs p buf offset st with
    | .ok st' => provideAll rest buf offset st'
    | .err k => .err k
    | .panic w => .panic w

structure Word where
  surface : List Nat
  l : Nat
  r : Nat
  c : Int
deriving Repr, DecidableEq

def isPrefix : List Nat → List Nat → Bool
  | [], _ => true
  | _ :: _, [] => false
  | a :: as, b :: bs => a == b && isPrefix as bs

/-- `lexicon.lookup(bytes, byte_off)` entered by its specification (C04: exactly the indexed entries that
are prefixes of the rest of the text), followed by the builder's `can_bow(e.end)` filter -/
def lexNodes (lex : List Word) (buf : Buf) (offset : Nat) : List Node :=
  let rest := buf.chars.drop offset
  let n := buf.chars.length
  (lex.filter (fun w => !w.surface.isEmpty && isPrefix w.surface rest)).filterMap (fun w =>
    let e := offset + w.surface.length
    let node : Node := ⟨offset, e, w.l, w.r, w.c, false, 0⟩
    if e < n then
      match buf.bow[e]? with
      | some false => none
      | _ => some node
    else some node)

/-- dictionary words, then `for provider in oov_providers` unless the character is NOOOVBOW/NOOOVBOW2 -/
def afterLoop (ps : List Provider) (lex : List Word) (buf : Buf) (offset cat : Nat) : Outcome (Nat × List Node) :=
  if cat &&& (NOOOVBOW ||| NOOOVBOW2) = 0 then
    provideAll ps buf offset (addAll 0 (lexNodes lex buf offset), lexNodes lex buf offset)
  else .ok (addAll 0 (lexNodes lex buf offset), lexNodes lex buf offset)

/-- `if created.is_empty() { provider = oov_providers.last().unwrap(); … }` -/
def fallback (ps : List Provider) (buf : Buf) (offset : Nat) (st : Nat × List Node) : Outcome (Nat × List Node) :=
  if st.1 = 0 then
    match ps.getLast? with
    | none => .panic "unwrap"
    | some p => provideOovs p buf offset st
  else .ok st

/-- `if created.is_empty() { return Err(EosBosDisconnect) }` -/
def finish (st : Nat × List Node) : Outcome (List Node) :=
  if st.1 = 0 then .err "Disconnect" else .ok st.2

/-- one iteration of the `for (ch_off, byte_off)` loop for a position with a previous node -/
def stepAt (ps : List Provider) (lex : List Word) (buf : Buf) (offset : Nat) : Outcome (List Node) :=
  match buf.cats[offset]? with
  | none => .panic "index"
  | some cat => (afterLoop ps lex buf offset cat).bind (fun st1 => (fallback ps buf offset st1).bind finish)

/-- `has_previous_node(p)`: the BOS entry at 0 or a node ending at `p` -/
def reachable (nodes : List Node) (p : Nat) : Bool := p == 0 || nodes.any (fun x => x.e == p)

/-- the position loop of `build_lattice`; `nodes` = everything inserted so far -/
def buildFrom (ps : List Provider) (lex : List Word) (buf : Buf) : List Nat → List Node → Outcome (List Node)
  | [], nodes => .ok nodes
  | p :: rest, nodes =>
    if !reachable nodes p then buildFrom ps lex buf rest nodes
    else match stepAt ps lex buf p with
      | .ok new => buildFrom ps lex buf rest (nodes ++ new)
      | .err k => .err k
      | .panic w => .panic w

/-- `build_lattice` (connection costs do not influence which nodes exist; `connect_eos` fails when no
node ends at the end of the text) -/
def buildLattice (ps : List Provider) (lex : List Word) (buf : Buf) : Outcome (List Node) :=
  match buildFrom ps lex buf (List.range buf.chars.length) [] with
  | .ok nodes => if reachable nodes buf.chars.length then .ok nodes else .err "Disconnect"
  | .err k => .err k
  | .panic w => .panic w

/-! ## the builder with its provider calls recorded

`build_lattice` decides per position (i) whether the provider list is run at all — by the CLASS of the
character at the position (`cat_at_char(ch_off)` ∩ {NOOOVBOW, NOOOVBOW2}), not by `can_bow` —, (ii) in which
order and with which `created` mask / node buffer every provider is called, (iii) whether the last provider
is called once more.  The functions below are the same loop as `stepAt`/`buildFrom`/`buildLattice` but keep
every `provide_oov` call (`Call`); `Proofs/Oov.lean` shows that forgetting the calls gives back
`stepAt`/`buildLattice` (`stepAtT_nodes`, `buildLatticeT_nodes`).  The driver prints the calls, the harness
observes them on the real builder through wrapped providers. -/

/-- one `plugin.provide_oov(input, offset, other_words, result)` made by `provide_oovs` -/
structure Call where
  /-- position of the provider in `oov_providers` -/
  idx : Nat
  /-- `char_offset` -/
  offset : Nat
  /-- `other_words` -/
  created : Nat
  /-- `result.len()` on entry (`start_size`) -/
  pre : Nat
  /-- the nodes the provider pushed -/
  out : List Node
deriving Repr, DecidableEq

/-- `provide_oovs` for the provider at index `i` -/
def provideOovsT (i : Nat) (p : Provider) (buf : Buf) (offset : Nat) (st : Nat × List Node) :
    Outcome ((Nat × List Node) × Call) :=
  match provide p buf offset st.1 st.2 with
  | .ok new => .ok ((addAll st.1 new, st.2 ++ new), ⟨i, offset, st.1, st.2.length, new⟩)
  | .err k => .err k
  | .panic w => .panic w

/-- `for provider in self.oov_providers`; `i` = index of the head of `ps` in the configured list -/
def provideAllT (ps : List Provider) (i : Nat) (buf : Buf) (offset : Nat) (st : Nat × List Node) :
    Outcome ((Nat × List Node) × List Call) :=
  match ps with
  | [] => .ok (st, [])
  | p :: rest =>
    match provideOovsT i p buf offset st with
    | .ok (st', c) =>
      match provideAllT rest (i + 1) buf offset st' with
      | .ok (st'', cs) => .ok (st'', c :: cs)
      | .err k => .err k
      | .panic w => .panic w
    | .err k => .err k
    | .panic w => .panic w

/-- what happened at one position that has a previous node -/
structure PosTrace where
  pos : Nat
  /-- the character's class allowed the provider loop (`!cat.intersects(NOOOVBOW | NOOOVBOW2)`) -/
  asked : Bool
  /-- dictionary words (after the `can_bow(e.end)` filter) -/
  lexN : List Node
  /-- the calls of the provider loop, in order -/
  calls : List Call
  /-- the extra call of the last provider when nothing had been created -/
  fb : Option Call
  /-- everything inserted into the lattice at this position -/
  nodes : List Node
deriving Repr, DecidableEq

/-- `the character at `offset` lets the provider loop run` -/
def asksProviders (cat : Nat) : Bool := cat &&& (NOOOVBOW ||| NOOOVBOW2) == 0

/-- one iteration of the position loop, calls recorded -/
def stepAtT (ps : List Provider) (lex : List Word) (buf : Buf) (offset : Nat) : Outcome PosTrace :=
  match buf.cats[offset]? with
  | none => .panic "index"
  | some cat =>
    let lexN := lexNodes lex buf offset
    let st0 : Nat × List Node := (addAll 0 lexN, lexN)
    let loop : Outcome ((Nat × List Node) × List Call) :=
      if asksProviders cat then provideAllT ps 0 buf offset st0 else .ok (st0, [])
    match loop with
    | .err k => .err k
    | .panic w => .panic w
    | .ok (st1, calls) =>
      if st1.1 = 0 then
        match ps.getLast? with
        | none => .panic "unwrap"
        | some p =>
          match provideOovsT (ps.length - 1) p buf offset st1 with
          | .err k => .err k
          | .panic w => .panic w
          | .ok (st2, c) =>
            if st2.1 = 0 then .err "Disconnect"
            else .ok ⟨offset, asksProviders cat, lexN, calls, some c, st2.2⟩
      else .ok ⟨offset, asksProviders cat, lexN, calls, none, st1.2⟩

/-- the position loop, one `PosTrace` per position with a previous node -/
def buildFromT (ps : List Provider) (lex : List Word) (buf : Buf) :
    List Nat → List Node → List PosTrace → Outcome (List Node × List PosTrace)
  | [], nodes, tr => .ok (nodes, tr)
  | p :: rest, nodes, tr =>
    if !reachable nodes p then buildFromT ps lex buf rest nodes tr
    else match stepAtT ps lex buf p with
      | .ok t => buildFromT ps lex buf rest (nodes ++ t.nodes) (tr ++ [t])
      | .err k => .err k
      | .panic w => .panic w

def buildLatticeT (ps : List Provider) (lex : List Word) (buf : Buf) : Outcome (List Node × List PosTrace) :=
  match buildFromT ps lex buf (List.range buf.chars.length) [] [] with
  | .ok (nodes, tr) => if reachable nodes buf.chars.length then .ok (nodes, tr) else .err "Disconnect"
  | .err k => .err k
  | .panic w => .panic w

/-- every `provide_oov` call of a run, in the order they were made -/
def allCalls (tr : List PosTrace) : List Call :=
  tr.flatMap (fun t => t.calls ++ t.fb.toList)

/-! ## the builder with its provider calls recorded ALSO when the run fails

`buildLatticeT` drops the trace when a step returns `Err`/panics.  The functions below are the same loop once more,
returning the completed `provide_oov` calls (those that returned `Ok`, in the order they were made) TOGETHER with the
outcome, so that the calls made before an `EosBosDisconnect` / a panic are part of the answer as well.
`Proofs/OovRead.lean` shows: the outcome is `buildLattice`'s, and on success the calls are `allCalls` of
`buildLatticeT` (`buildLatticeP_outcome`, `buildLatticeP_calls`). -/

/-- `for provider in self.oov_providers`, calls kept on failure (a call that fails is not a completed call) -/
def provideAllP (ps : List Provider) (i : Nat) (buf : Buf) (offset : Nat) (st : Nat × List Node) :
    List Call × Outcome (Nat × List Node) :=
  match ps with
  | [] => ([], .ok st)
  | p :: rest =>
    match provideOovsT i p buf offset st with
    | .ok (st', c) =>
      let r := provideAllP rest (i + 1) buf offset st'
      (c :: r.1, r.2)
    | .err k => ([], .err k)
    | .panic w => ([], .panic w)

/-- one iteration of the position loop: completed calls + outcome -/
def stepAtP (ps : List Provider) (lex : List Word) (buf : Buf) (offset : Nat) : List Call × Outcome (List Node) :=
  match buf.cats[offset]? with
  | none => ([], .panic "index")
  | some cat =>
    let lexN := lexNodes lex buf offset
    let st0 : Nat × List Node := (addAll 0 lexN, lexN)
    let loop : List Call × Outcome (Nat × List Node) :=
      if asksProviders cat then provideAllP ps 0 buf offset st0 else ([], .ok st0)
    match loop.2 with
    | .err k => (loop.1, .err k)
    | .panic w => (loop.1, .panic w)
    | .ok st1 =>
      if st1.1 = 0 then
        match ps.getLast? with
        | none => (loop.1, .panic "unwrap")
        | some p =>
          match provideOovsT (ps.length - 1) p buf offset st1 with
          | .err k => (loop.1, .err k)
          | .panic w => (loop.1, .panic w)
          | .ok (st2, c) =>
            if st2.1 = 0 then (loop.1 ++ [c], .err "Disconnect")
            else (loop.1 ++ [c], .ok st2.2)
      else (loop.1, .ok st1.2)

/-- the position loop: all completed calls so far + outcome -/
def buildFromP (ps : List Provider) (lex : List Word) (buf : Buf) :
    List Nat → List Node → List Call → List Call × Outcome (List Node)
  | [], nodes, cs => (cs, .ok nodes)
  | p :: rest, nodes, cs =>
    if !reachable nodes p then buildFromP ps lex buf rest nodes cs
    else
      let r := stepAtP ps lex buf p
      match r.2 with
      | .ok new => buildFromP ps lex buf rest (nodes ++ new) (cs ++ r.1)
      | .err k => (cs ++ r.1, .err k)
      | .panic w => (cs ++ r.1, .panic w)

/-- `build_lattice`: every completed `provide_oov` call + the outcome (`connect_eos` makes no call) -/
def buildLatticeP (ps : List Provider) (lex : List Word) (buf : Buf) : List Call × Outcome (List Node) :=
  let r := buildFromP ps lex buf (List.range buf.chars.length) [] []
  match r.2 with
  | .ok nodes => if reachable nodes buf.chars.length then (r.1, .ok nodes) else (r.1, .err "Disconnect")
  | .err k => (r.1, .err k)
  | .panic w => (r.1, .panic w)

/-! ## OOV word info (`resolve_best_path`, `WordId`, `WordInfo`, `Morpheme`) -/

/-- `WordId::oov(pos_id)` = `WordId::new(0xF, pos_id)` -/
def wordIdOov (pos : Nat) : Nat := 15 * 268435456 + pos % 268435456
def widDic (raw : Nat) : Nat := raw / 268435456
def widWord (raw : Nat) : Nat := raw % 268435456
def widIsOov (raw : Nat) : Bool := widDic raw == 15

structure OovInfo where
  isOov : Bool
  dictionaryId : Int
  posId : Nat
  surface : List Nat
  normalizedForm : List Nat
  dictionaryForm : List Nat
  readingForm : List Nat
deriving Repr, DecidableEq

/-- what a morpheme built from an OOV node `[b,e)` with raw word id `raw` reports: the synthesised
`WordInfoData { pos_id: word() as u16, surface: curr_slice_c(b..e), ..Default::default() }` read through the
accessors (empty form = surface) -/
def oovInfo (chars : List Nat) (b e raw : Nat) : OovInfo :=
  let slice := (chars.take e).drop b
  let normalized : List Nat := []
  let dictionary : List Nat := []
  let reading : List Nat := []
  { isOov := widIsOov raw
    dictionaryId := if widIsOov raw then -1 else Int.ofNat (widDic raw)
    posId := widWord raw % 65536
    surface := slice
    normalizedForm := if normalized.isEmpty then slice else normalized
    dictionaryForm := if dictionary.isEmpty then slice else dictionary
    readingForm := if reading.isEmpty then slice else reading }

end Oov
