import Sudachi.Model.Recycle
import Sudachi.Model.Total
import Sudachi.Model.TotalIO
/-!
# The recycling discipline INSTANTIATED with the concrete pipeline  (property C10, the lift of C01/C02/C03/… to
long-lived tokenizers)

`Model/Recycle.lean` is generic in what is pushed into the recycled buffers (`Recycle.Payload`).  Here the payload
functions are the phases of the concrete pipeline model `Total.tokenize` (`Model/Total.lean`), in the granularity the
discipline model asks for:

| `Payload` field                         | phase of `Total.tokenize`                                                        |
|-----------------------------------------|-----------------------------------------------------------------------------------|
| `maxLen`, `identMap`                    | `EditM.startBuild` (`MAX_LENGTH`, `identFrom`)                                    |
| `plugins`, `resolve`, `reallyMax`       | `Total.rewriteInput`: every `cfg.inputPlugins` entry, `EditM.commitV lv`          |
| `chars` … `ob2cWrites`                  | `InputBuffer::build`: `Wire.utf8Decode`, `cfg.mkBuf`, `EditM.c2b/b2c/origB2C`      |
| `cands`                                 | one position of `Oov.buildLattice` (`Oov.stepAt` over `cfg.providers`, `cfg.lex`) + `Total.toVit` |
| `bos`, `connect`                        | `Total.bosEntry`, `Total.connectNode addI32 I32_MAX cfg.conn` (one `Total.insert`) |
| `eosOf`                                 | `Total.connectEos`                                                                 |
| `fillTop`                               | `Total.topPath` over the stored back pointers                                      |
| `pathNodes`                             | `Total.mapM (Total.resultNode (EditM.c2b text))` (`resolve_best_path`)              |
| `rewritePath`                           | `cfg.rewrite` (word info + path-rewrite plugins) then `Total.splitPath v`          |
| `splitNodes`                            | `Total.split v` of one node (`split_into`)                                         |

One element type `Elem` carries everything a buffer can hold.  `m2o` entries are the PAIRS of `Model/Edit.lean`
(`EditM.P Nat`: the map entry together with the byte it belongs to, `none` = sentinel) - the paired-list model C08's
theorems are about; the Rust `m2o` is their second component.  The later phases read the rewritten text from the field
`modified` and recompute the tables they index (`EditM.c2b`, `EditM.b2c`, `cfg.mkBuf`) exactly as `Total.tokenize` does;
the tables `build` stores in the buffer have the lengths of the Rust tables (what `build_lattice`'s loop bound and
`OffsetsInRange` depend on).  Failures the discipline model idealises away (an `i32` overflow or an out-of-range row
inside `Lattice::insert`: `pushRow` ignores them) are carried as poisoned elements that make the path phase unwind.

`Dict` = `Total.Cfg` with the word-info/rewrite stage as a function of (mode, effective field subset): the only part of
the configuration the two tokenizer settings reach.
-/
namespace RecycleTotal
open Recycle

inductive Elem
  | nat (n : Nat)
  | pair (p : EditM.P Nat)
  | edit (e : EditM.Edit Nat)
  | vn (n : Vit.Node)
  | ent (e : Total.Entry)
  | rn (n : Total.NodeRange)
  | poison

def Elem.nat? : Elem → Option Nat | .nat n => some n | _ => none
def Elem.pair? : Elem → Option (EditM.P Nat) | .pair p => some p | _ => none
def Elem.edit? : Elem → Option (EditM.Edit Nat) | .edit e => some e | _ => none
def Elem.ent? : Elem → Option Total.Entry | .ent e => some e | _ => none
def Elem.rn? : Elem → Option Total.NodeRange | .rn n => some n | _ => none
def Elem.isEnt : Elem → Bool | .ent _ => true | _ => false

def nats (l : List Elem) : List Nat := l.filterMap Elem.nat?
def pairs (l : List Elem) : List (EditM.P Nat) := l.filterMap Elem.pair?
def edits (l : List Elem) : List (EditM.Edit Nat) := l.filterMap Elem.edit?
def ents (l : List Elem) : List Total.Entry := l.filterMap Elem.ent?
def rns (l : List Elem) : List Total.NodeRange := l.filterMap Elem.rn?

/-- the configuration: `Total.Cfg` with the word-info / path-rewrite stage depending on mode and field subset -/
structure Dict where
  inputPlugins : List (List Nat → Oov.Outcome (List (EditM.Edit Nat)))
  mkBuf : List Nat → Oov.Buf
  providers : List Oov.Provider
  lex : List Oov.Word
  conn : Nat → Nat → Int
  rewrite : Mode → Subset → List Total.NodeRange → Oov.Outcome (List (Total.NodeRange × List Nat))

/-- the configuration `Total.tokenize` runs with for a tokenizer in mode `m` with effective subset `s` -/
def Dict.cfg (D : Dict) (m : Mode) (s : Subset) : Total.Cfg :=
  ⟨D.inputPlugins, D.mkBuf, D.providers, D.lex, D.conn, D.rewrite m s⟩

/-- the characters of the rewritten text (`modified.chars()`); a byte string that does not decode has none -/
def charsOf (modified : List Elem) : List Nat :=
  match Wire.utf8Decode (nats modified) with
  | some cs => cs
  | none => []

/-- `indices` (no BOS entry in row 0) ↦ the rows `Total.topPath` reads (`Total.fullRow` skips the BOS entry of row 0) -/
def rowsOf : List (List Elem) → Total.Rows
  | [] => #[]
  | r0 :: rs => ((Total.bosEntry :: ents r0) :: rs.map ents).toArray

def pathResOf (f : List Total.NodeRange → List Elem) : Oov.Outcome (List Total.NodeRange) → PathRes Elem
  | .ok l => .nodes (f l)
  | .err _ => .fail
  | .panic _ => .unwind

/-- an input-text plugin of `Total.Cfg` as a plugin of the discipline model: it reads the current text, its edits are the
replacements pushed into `replaces`; `Err` (and a panic, which the discipline model has no outcome for) = `None` -/
def mkPlugin (p : List Nat → Oov.Outcome (List (EditM.Edit Nat))) : Plugin Elem :=
  { usesChars := false,
    edits := fun i => match p (nats i.modified) with
      | .ok es => some (es.map .edit)
      | _ => none }

def payload (v : Total.SplitV) (lv : EditM.LenV) (D : Dict) : Payload Elem where
  maxLen := EditM.MAX_LENGTH
  reallyMax := EditM.REALLY_MAX_LENGTH
  identMap := fun modified => (EditM.identFrom 0 (nats modified)).map .pair
  chars := fun modified => (charsOf modified).map .nat
  plugins := D.inputPlugins.map mkPlugin
  resolve := fun _ m2o reps =>
    match EditM.commitV lv (pairs m2o) (edits reps) with
    | some l => ((EditM.textOf l).map .nat, l.map .pair, (EditM.textOf l).length)
    | none => ([], [], EditM.REALLY_MAX_LENGTH + 1)
  cats := fun modified => (D.mkBuf (charsOf modified)).cats.map .nat
  c2b := fun modified =>
    (List.range (charsOf modified).length).map (fun k => .nat (((EditM.c2b (nats modified))[k]?).getD 0))
  b2c := fun modified => (EditM.b2cFrom 0 (nats modified)).map .nat
  lenElem := fun l => .nat l.length
  b2cLast := fun modified => .nat (if EditM.nchars (nats modified) = 0 then 1 else EditM.nchars (nats modified))
  bowDefault := .nat 0
  bowWrites := fun modified =>
    ((EditM.c2bFrom 0 (nats modified)).zip (D.mkBuf (charsOf modified)).bow).map
      (fun p => (p.1, .nat (if p.2 then 1 else 0)))
  contDefault := .nat 0
  contWrites := fun _ => []
  ob2cDefault := .nat 0
  ob2cWrites := fun original =>
    let tab := EditM.origB2C (nats original)
    (List.range tab.length).filterMap (fun k => match tab[k]? with
      | some (some x) => some (k, .nat x)
      | _ => none)
  bos := .ent Total.bosEntry
  cands := fun inp off =>
    match Oov.stepAt D.providers D.lex (D.mkBuf (charsOf inp.modified)) off with
    | .ok new => new.map (fun x => ((Total.toVit x).e, Elem.vn (Total.toVit x)))
    | _ => []
  connect := fun row node =>
    match node with
    | .vn n =>
      match Total.connectNode Total.addI32 Total.I32_MAX D.conn (ents row) n with
      | some (c, pe, pi) => (.ent ⟨n, c, pe, pi⟩, .ent ⟨n, c, pe, pi⟩)
      | none => (.poison, .poison)                       -- `attempt to add with overflow`
    | e => (e, e)
  eosOf := fun row =>
    if row.all Elem.isEnt then
      match Total.connectNode Total.addI32 Total.I32_MAX D.conn (ents row) (Total.eosNode 0) with
      | some (c, _, pi) => if c = Total.I32_MAX then none else some (.ent ⟨Total.eosNode 0, c, 0, pi⟩)
      | none => some .poison
    else some .poison
  fillTop := fun eos indices =>
    match eos with
    | some (.ent e) =>
      let n := indices.length - 1
      if indices.all (fun r => r.all Elem.isEnt) then
        match Total.topPath (rowsOf indices) (n + 1) (Total.asU16 (Total.asU16 n), e.pi) [] with
        | .ok es => es.reverse.map .ent
        | _ => [.poison]
      else [.poison]
    | _ => [.poison]
  pathNodes := fun _ inp _ _ ids =>
    if ids.all Elem.isEnt then
      pathResOf (fun l => l.map .rn) (Total.mapM (Total.resultNode (EditM.c2b (nats inp.modified))) (ents ids))
    else .unwind
  rewritePath := fun m s inp path =>
    match D.rewrite m s (rns path) with
    | .ok path' =>
      pathResOf (fun l => l.map .rn)
        (Total.splitPath v (EditM.b2c (nats inp.modified)) (EditM.c2b (nats inp.modified)) path')
    | .err _ => .fail
    | .panic _ => .unwind
  splitNodes := fun m s inp node =>
    match node with
    | .rn n =>
      match D.rewrite m s [n] with
      | .ok [(n', units)] =>
        if units.length ≤ 1 then []
        else match Total.split v (EditM.b2c (nats inp.modified)) (EditM.c2b (nats inp.modified)) n' units with
          | .ok l => l.map .rn
          | _ => []
      | _ => []
    | _ => []
  lookupNodes := fun _ _ => ([], true)
  lookupSets := true

/-! ## what a caller reads -/

/-- the morphemes (node ranges in the rewritten text) of a result path -/
def morphsOf (t : Tok Elem) : Option (List Total.NodeRange) := t.topPath.map rns

/-- the offset tables of an input buffer as the paired list of `Model/Edit.lean` -/
def tablesOf (i : Input Elem) : List (EditM.P Nat) := pairs i.m2o

/-- a tokenizer created now for mode `m` with effective subset `s` -/
def newTok (m : Mode) (s : Subset) : Tok Elem := { Tok.create m with subset := s }

/-- one analysis on a NEW tokenizer -/
def analyseNew (v : Total.SplitV) (lv : EditM.LenV) (D : Dict) (m : Mode) (s : Subset) (text : List Nat) : Tok Elem × Outcome :=
  (newTok m s).analyse .fix (payload v lv D) (text.map .nat)

/-- outcome class of `Total.tokenize` in the vocabulary of the discipline model -/
def classOf {α : Type} : Oov.Outcome α → Outcome
  | .ok _ => .ok
  | .err k => if k = "TooLong" then .err .tooLong else if k = "Disconnect" then .err .disconnect else .err .other
  | .panic _ => .panic

def rangeEq (a b : Total.NodeRange) : Bool := a.bc == b.bc && a.ec == b.ec && a.bb == b.bb && a.eb == b.eb

def rangesEq : List Total.NodeRange → List Total.NodeRange → Bool
  | [], [] => true
  | a :: as, b :: bs => rangeEq a b && rangesEq as bs
  | _, _ => false

/-- **the bridge, as a Boolean**: the discipline model run with the concrete payload on a new tokenizer gives the
outcome class of `Total.tokenize` and, when Ok, its morphemes and offset tables.  The driver evaluates it on every
analysis of every `hpipe` line (`sim=`), the theorems of `Props/C10.lean` take it as the hypothesis `Bridge`. -/
def bridgeHolds (v : Total.SplitV) (lv : EditM.LenV) (D : Dict) (m : Mode) (s : Subset) (text : List Nat) : Bool :=
  let a := analyseNew v lv D m s text
  match Total.tokenize v lv (D.cfg m s) text with
  | .ok r =>
    a.2 == .ok && (match morphsOf a.1 with | some ms => rangesEq ms r.morphs | none => false) &&
      tablesOf a.1.input == r.tables
  | o => a.2 == classOf o

/-! ## driver: `C10 hpipe` -/

def modeIO : Mode → TotalIO.Mode
  | .A => .a
  | .B => .b
  | .C => .c

/-- the `Dict` of an `hpipe` line for one text: `TotalIO.caseCfg` (C03's `pipe` tokens) with the unit table of the
text's own best path for each of the three modes (as `TotalIO.handlePipe` builds it for the line's mode) -/
def dictOf (lv : EditM.LenV) (cfg0 : Total.Cfg) (lexU : List TotalIO.LexU) (text : List Nat) : Dict :=
  let best := TotalIO.bestEntries lv cfg0 text
  let tab := fun (m : Mode) => match best with
    | some (chars, es) => TotalIO.unitTable (modeIO m) lexU chars es
    | none => []
  let ta := tab .A
  let tb := tab .B
  ⟨cfg0.inputPlugins, cfg0.mkBuf, cfg0.providers, cfg0.lex, cfg0.conn,
   fun m _ => match m with
     | .A => TotalIO.rewriteOf (TotalIO.lookupUnits ta)
     | .B => TotalIO.rewriteOf (TotalIO.lookupUnits tb)
     | .C => TotalIO.rewriteOf (TotalIO.lookupUnits [])⟩

def showOutcome : Outcome → String
  | .ok => "ok"
  | .err .tooLong => "err:TooLong"
  | .err .disconnect => "err:Disconnect"
  | .err .other => "err:Other"
  | .panic => "PANIC"

def modeOfNat (n : Nat) : Mode := if n % 3 = 0 then .C else if n % 3 = 1 then .A else .B

/-- the history of an `hpipe` line on ONE tokenizer and ONE result list: per text `set_mode; reset+push_str; do_tokenize;
collect_results` (when Ok).  Answers per analysis the outcome and, when Ok, what the list shows; `sim` stays true while
every analysis also satisfies `bridgeHolds` for the state's mode and subset. -/
def replay (rv : ResetVariant) (v : Total.SplitV) (lv : EditM.LenV) (cfg0 : Total.Cfg) (lexU : List TotalIO.LexU) :
    World Elem → List (Nat × List Nat) → List String → Bool → List String × Bool
  | _, [], acc, sim => (acc.reverse, sim)
  | w, (m, text) :: rest, acc, sim =>
    let D := dictOf lv cfg0 lexU text
    let P := payload v lv D
    let w1 := (w.step rv P (.setMode (modeOfNat m))).1
    let a := w1.step rv P (.analyse (text.map .nat))
    let sim' := sim && bridgeHolds v lv D w1.tok.mode w1.tok.subset text
    match a.2 with
    | .ok =>
      let c := a.1.step rv P (.collect 0)
      let shown := match c.2, c.1.lists[0]? with
        | .ok, some L => "ok:" ++ Wire.joinWith "," ((rns L.nodes).map TotalIO.showRange)
        | .ok, none => "ok:?"
        | o, _ => "collect:" ++ showOutcome o
      replay rv v lv cfg0 lexU c.1 rest (shown :: acc) sim'
    | o => replay rv v lv cfg0 lexU a.1 rest (showOutcome o :: acc) sim'

/-- `;`-separated `<mode number>:<hex text>` -/
def parseTexts (s : List Char) : Option (List (Nat × List Nat)) :=
  Wire.allSome ((Wire.items ';' s).map (fun it =>
    match Wire.splitOn ':' it with
    | [m, h] => (match Wire.nat? m, (if h = ['-'] then some [] else Wire.hexBytes? h) with
      | some m, some t => some (m, t)
      | _, _ => none)
    | _ => none))

/-- `C10 hpipe idx=N mode0=<n> texts=<m:hex;…> reset_variant=cur|fix <the world tokens of a C03 pipe line>`
answer: `ok <per analysis: ok:<bc:ec:bb:eb,…> | err:<kind> | PANIC>|… sim=<1|0>` -/
def handleHPipe (toks : List (List Char)) : String :=
  match Wire.kv? toks "texts", Wire.kv? toks "mode0", TotalIO.caseCfg toks with
  | some ts, some m0, some c =>
    match parseTexts ts, Wire.nat? m0, c with
    | some _, some _, none => "err:setup"
    | some texts, some m0, some (cfg0, lexU) =>
      let lv := EditM.lenVOf toks
      let v : Total.SplitV := if Wire.kv? toks "split" == some "d6fix".toList then .d6fix else .cur
      let rv : ResetVariant := if Wire.kv? toks "reset_variant" == some "fix".toList then .fix else .cur
      let P0 := payload v lv (dictOf lv cfg0 lexU [])
      let w0 := ((World.init (E := Elem) (modeOfNat m0)).step rv P0 .newList).1
      let r := replay rv v lv cfg0 lexU w0 texts [] true
      "ok " ++ Wire.joinWith "|" r.1 ++ " sim=" ++ (if r.2 then "1" else "0")
    | _, _, _ => "bad-op"
  | _, _, _ => "bad-op"

end RecycleTotal
