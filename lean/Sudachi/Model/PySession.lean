import Sudachi.Model.Recycle
import Sudachi.Model.RecycleIO
import Sudachi.Model.PyGlue
/-!
# Python SESSIONS: result lists sharing input cells (`Rc<RefCell<InputPart>>`) — property C19

The world is C10's `Recycle.World`: one tokenizer, `parts` = the input cells, `lists` = the `MorphemeList`s, each
pointing to a cell (`MList.part`).  Two lists SHARE a cell iff they have the same `part`.  This file adds the three
Python entry points that move lists between cells, as the binding executes them:

* `Tokenizer.tokenize(text, mode=, out=)` = `World.pyTokenize` (C10): `collect_results` SWAPS the CONTENT of `out`'s
  cell with the tokenizer's buffer — every list sharing that cell now reads the new text (it is *stale*);
* `Morpheme.split(mode, out=, add_single=)` (`python/src/morpheme.rs`): `out` = the given list or an `empty_clone` of the
  morpheme's list; `out.clear()`; `split_into` RE-POINTS `out` to the parent's cell (`assign_input`) only when it
  writes units; `copy_slice` (add_single) re-points as well; otherwise `out` is only cleared and keeps its own cell;
* `Dictionary.lookup(surface, out=)` (`python/src/dictionary.rs`): `out` = the given list or a new one; `clear()`;
  `MorphemeList::lookup` rewrites the content of `out`'s cell in place (also when it fails).

A list created for a call that then raises is dropped with the exception (Python never sees it): the world is returned
unchanged in that case.  `Ret` is what Python gets: a list (its index) or an exception class.

The second half is the READ model: what `Morpheme.begin()/end()/raw_surface()` answer for a node against the CURRENT
content of its list's cell (index tables of the `InputBuffer`, debug build: the `debug_assert`s are live) — for a
stale list that is data of the new text or a `PanicException`, never a crash.
-/
namespace PySession
open Recycle

/-- what Python gets back from one call -/
inductive Ret
  | list (j : Nat)
  | exc (kind : String)
deriving DecidableEq, Repr

def retOf (j : Nat) : Outcome → Ret
  | .ok => .list j
  | .err _ => .exc "SudachiError"
  | .panic => .exc "PanicException"

/-- index of the list a call writes: the `out` list or the one it creates -/
def outIdx {E : Type} (w : World E) : Option Nat → Nat
  | some j => j
  | none => w.lists.length

/-- `Tokenizer.tokenize(text, mode=, out=)` -/
def tokenize {E : Type} (v : ResetVariant) (P : Payload E) (w : World E) (mode : Option Mode) (out : Option Nat)
    (text : List E) : World E × Ret :=
  let r := w.pyTokenize v P mode out text
  (r.1, retOf (outIdx w out) r.2)

/-- `MorphemeList::copy_slice(idx, idx+1, out)`: `out.assign_input(self)` first, then the slice is appended -/
def copySlice {E : Type} (w : World E) (i idx j : Nat) : World E × Outcome :=
  match w.lists[i]?, w.lists[j]? with
  | some Li, some Lj =>
    match Li.nodes[idx]? with
    | some node => ({ w with lists := w.lists.set j { part := Li.part, nodes := Lj.nodes ++ [node] } }, .ok)
    | none => ({ w with lists := w.lists.set j { Lj with part := Li.part } }, .panic)      -- `data[start..end]`
  | _, _ => (w, .ok)

structure SplitArgs where
  modeOk : Bool                 -- `extract_mode` accepts the argument
  mode : Mode
  out : Option Nat
  addSingle : Option Bool       -- `None` ⇒ `unwrap_or(true)`
  /-- payload fact: `NodeSplitIterator::next` panics on the way (possible only when the parent list is stale: the unit
  ends are looked up in the NEW text's `mod_b2c`); the units pushed before it stay in `out` -/
  unwinds : Bool := false
deriving Repr

/-- a list created for a call is dropped when the call raises (Python never sees it): the world is then as before -/
def dropNew {E : Type} (w : World E) (out : Option Nat) (r : World E × Ret) : World E × Ret :=
  match r.2 with
  | .list _ => r
  | .exc _ => (if out.isSome then r.1 else w, r.2)

def hasNodes {E : Type} (w : World E) (j : Nat) : Bool :=
  match w.lists[j]? with
  | some L => !L.nodes.isEmpty
  | none => false

/-- `split` after the out cell is chosen and cleared: `split_into`, then `copy_slice` for `add_single` -/
def splitCore {E : Type} (P : Payload E) (w1 : World E) (i idx : Nat) (a : SplitArgs) (j : Nat) : World E × Ret :=
  match w1.splitInto P i idx a.mode j with
  | (w2, .ok) =>
    if a.unwinds then (w2, .exc "PanicException") else
    if PyGlue.addSingleOf a.addSingle && !hasNodes w2 j then            -- `!splitted`: `out` was cleared before
      match copySlice w2 i idx j with
      | (w3, .ok) => (w3, .list j)
      | (w3, _) => (w3, .exc "PanicException")
    else (w2, .list j)
  | (w2, _) => (w2, .exc "PanicException")                    -- `self.node(index)`: `out` is already cleared

/-- the out cell of `split`: the given list, or `list.empty_clone(py)` -/
def splitCell {E : Type} (P : Payload E) (w : World E) (i : Nat) : Option Nat → World E
  | some _ => w
  | none => (w.step .fix P (.emptyClone i)).1

/-- `Morpheme.split(mode, out=, add_single=)` of the morpheme `(i, idx)` -/
def split {E : Type} (P : Payload E) (w : World E) (i idx : Nat) (a : SplitArgs) : World E × Ret :=
  if !a.modeOk then (w, .exc "SudachiError")
  else if a.out = some i then (w, .exc "Exception")                     -- `try_borrow_mut`: "out was used twice"
  else
    let j := outIdx w a.out
    let w1 := ((splitCell P w i a.out).step .fix P (.clear j)).1        -- `out_ref.clear()`
    dropNew w a.out (splitCore P w1 i idx a j)

/-- the out cell of `lookup`: the given list, or `PyMorphemeListWrapper::new(dict)` -/
def lookupCell {E : Type} (P : Payload E) (w : World E) : Option Nat → World E
  | some _ => w
  | none => (w.step .fix P .newList).1

/-- `Dictionary.lookup(surface, out=)` -/
def lookup {E : Type} (P : Payload E) (w : World E) (q : List E) (out : Option Nat) : World E × Ret :=
  let j := outIdx w out
  let w1 := ((lookupCell P w out).step .fix P (.clear j)).1             -- `out_list.clear()`
  let r := w1.lookup P j q Subset.all
  dropNew w out (r.1, retOf j r.2)

inductive Call (E : Type)
  | tokenize (mode : Option Mode) (out : Option Nat) (text : List E)
  | split (i idx : Nat) (a : SplitArgs)
  | lookup (q : List E) (out : Option Nat)

def step {E : Type} (v : ResetVariant) (P : Payload E) (w : World E) : Call E → World E × Ret
  | .tokenize mode out text => tokenize v P w mode out text
  | .split i idx a => split P w i idx a
  | .lookup q out => lookup P w q out

/-- a session: every call carries the payload (= what the library computes) it is executed with -/
def run {E : Type} (v : ResetVariant) (w : World E) : List (Payload E × Call E) → World E × List Ret
  | [] => (w, [])
  | (P, c) :: rest =>
    let r := step v P w c
    let rr := run v r.1 rest
    (rr.1, r.2 :: rr.2)

/-! ## sharing and staleness -/

/-- the list and the CURRENT content of the cell it points to -/
def cellOf {E : Type} (w : World E) (j : Nat) : Option (MList E × Input E) :=
  match w.lists[j]? with
  | none => none
  | some L =>
    match w.parts[L.part]? with
    | none => none
    | some p => some (L, p.input)

/-- two lists share a cell -/
def shares {E : Type} (w : World E) (j k : Nat) : Bool :=
  match w.lists[j]?, w.lists[k]? with
  | some a, some b => a.part == b.part
  | _, _ => false

/-- the text a cell holds is identified by the first element of `original` (the driver tags every text with the number
of the call that brought it) -/
def cellTag {E : Type} (i : Input E) : Option E := i.original.head?

/-- ghost state of a session: for every list the tag of the cell content its nodes were written for -/
structure Sess (E : Type) where
  w : World E
  made : List (Option E)

/-- list `j` is STALE: it has morphemes and its cell no longer holds the text they were made for -/
def Sess.stale {E : Type} [DecidableEq E] (s : Sess E) (j : Nat) : Bool :=
  match cellOf s.w j, s.made[j]? with
  | some (L, inp), some t => !L.nodes.isEmpty && t != cellTag inp
  | _, _ => false

/-- one call in a session.  `tokenize` / `lookup`: the list the call returned is (re)made for the content its cell holds
now.  `split`: what lands in the out list (units, a copy of the morpheme, the units pushed before a panic) derives from the
PARENT's nodes, so it inherits the text the parent was made for — a split of a stale list is stale. -/
def Sess.step {E : Type} (v : ResetVariant) (P : Payload E) (s : Sess E) (c : Call E) : Sess E × Ret :=
  let r := PySession.step v P s.w c
  let made := s.made ++ List.replicate (r.1.lists.length - s.made.length) none
  match c, r.2 with
  | .split i _ a, _ =>
    let parent : Option E := match s.made[i]? with | some t => t | none => none
    (⟨r.1, made.set (outIdx s.w a.out) parent⟩, r.2)
  | _, .list j =>
    let t := match cellOf r.1 j with
      | some (_, inp) => cellTag inp
      | none => none
    (⟨r.1, made.set j t⟩, r.2)
  | _, .exc _ => (⟨r.1, made⟩, r.2)

/-! ## what Python READS from a morpheme of a list (debug build) -/

/-- the index tables of the `InputBuffer` a cell holds -/
structure Tabs where
  state : Nat                   -- 0 Clean, 1 RW, 2 RO
  orig : List Nat               -- bytes of `original`
  modified : List Nat           -- bytes of `modified`
  m2o : List Nat
  c2b : List Nat                -- `mod_c2b`
  ob2c : List Nat               -- `m2o_2` after `build` (orig byte → orig char, `usize::MAX` inside a character)
deriving Repr

def usizeMax : Nat := 18446744073709551615

/-- `str::is_char_boundary` -/
def isBoundary (s : List Nat) (i : Nat) : Bool :=
  i == s.length || (match s[i]? with | some b => b / 64 != 2 | none => false)

/-- `to_orig_byte_idx` (mod char → orig byte): `debug_assert_ne!(state, Clean)`, `mod_c2b[index]`, `m2o[byte_idx]` -/
def origByteIdx (t : Tabs) (ci : Nat) : Option Nat :=
  if t.state = 0 then none else
  match t.c2b[ci]? with
  | none => none
  | some b => t.m2o[b]?

/-- `to_orig_char_idx`: then `m2o_2[b_idx]`, `debug_assert_ne!(res, usize::MAX)` -/
def origCharIdx (t : Tabs) (ci : Nat) : Option Nat :=
  match origByteIdx t ci with
  | none => none
  | some b =>
    match t.ob2c[b]? with
    | none => none
    | some r => if r = usizeMax then none else some r

/-- `orig_slice(range)`: state, the two `is_char_boundary` assertions on `modified`, `m2o[start]..m2o[end]`, the `str`
slice of `original` (ordered, in range, on character boundaries) -/
def origSlice (t : Tabs) (bb eb : Nat) : Option (List Nat) :=
  if t.state = 0 then none
  else if !isBoundary t.modified bb || !isBoundary t.modified eb then none
  else match t.m2o[bb]?, t.m2o[eb]? with
    | some a, some b =>
      if a ≤ b ∧ b ≤ t.orig.length ∧ isBoundary t.orig a = true ∧ isBoundary t.orig b = true
      then some ((t.orig.drop a).take (b - a)) else none
    | _, _ => none

/-- a result node as far as the accessors need it: begin/end in characters and in bytes of the normalised text -/
structure NodeR where
  bc : Nat
  ec : Nat
  bb : Nat
  eb : Nat
deriving Repr

/-- node identity of the driver: the four offsets (< 2^16 each) and a tag above them -/
def NodeR.ofNat (n : Nat) : NodeR := ⟨n % 65536, n / 65536 % 65536, n / 4294967296 % 65536, n / 281474976710656 % 65536⟩

def obsOf (f : α → String) : Option α → PyGlue.Obs
  | some a => .val (f a)
  | none => .exc "PanicException"

def hex2 (b : Nat) : String :=
  let d := fun (k : Nat) => (if k < 10 then Char.ofNat (48 + k) else Char.ofNat (87 + k))
  String.ofList [d (b / 16 % 16), d (b % 16)]

def hexOf (bs : List Nat) : String := String.join (bs.map hex2)

/-- `Morpheme.begin()`, `.end()`, `.raw_surface()` -/
def readNode (t : Tabs) (n : NodeR) : List PyGlue.Obs :=
  [obsOf toString (origCharIdx t n.bc), obsOf toString (origCharIdx t n.ec), obsOf hexOf (origSlice t n.bb n.eb)]

/-- a `Morpheme(list, index)` object kept by Python: `list.get(index)` then `node(index)` is a `Vec` index -/
def readKept (t : Tabs) (nodes : List Nat) (index : Nat) : List PyGlue.Obs :=
  match nodes[index]? with
  | none => [.exc "PanicException", .exc "PanicException", .exc "PanicException"]
  | some n => readNode t (NodeR.ofNat n)

/-! ## driver: `C19 pysess idx=N rv=fix|cur mode=m calls=<call>/<call>/… kept=<call>:<index>,… tabs=<k>:<orig>:<mod>:<m2o>:<c2b>:<ob2c>;…` (the state of a cell's buffer is the MODEL's)

Element type `Nat`.  A text is `256+k :: zeros(byte length)` where `k` is the number of the call that passes it (the tag
identifies the cell content; the limits of the payload are shifted by one).  Node ids pack the offsets (`NodeR.ofNat`).
Calls: `T@<mode|->@<out|->@<bytes>@<ids>`  (ids = the library's result nodes, `-` = none/rejected),
`S@<list>@<idx>@<modeok><mode>@<out|->@<add: 1|0|->@<ids of the units>@<unwinds>`, `L@<out|->@<bytes>@<ids>@<ok>`.
Answer per call: `<ret>;<list>,<list>…` with `<list>` = `c<canonical cell>.<s|f|->.<n>[<reads>]`. -/

def natOr0 (s : List Char) : Nat := match Wire.nat? s with | some n => n | none => 0

def idsOf (s : List Char) : List Nat :=
  if s = ['-'] then [] else (Wire.items ',' s).map natOr0

def optNat (s : List Char) : Option Nat := if s = ['-'] then none else Wire.nat? s

def textOf (k nbytes : Nat) : List Nat := (256 + k) :: IO.zeros nbytes

/-- the library as far as a session needs it: one pseudo-character per text, the result nodes / units / found words of
this call as measured by the harness on the library -/
def payloadFor (nodes splitNs lookNs : List Nat) (lookOk : Bool) : Payload Nat :=
  { IO.payloadWith (fun off => if off = 0 then [1] else []) [] true (.nodes nodes) splitNs lookNs lookOk with
    maxLen := 49150, reallyMax := 65536,
    chars := fun m => if m.isEmpty then [] else [0],
    cats := fun m => if m.isEmpty then [] else [0],
    c2b := fun m => if m.isEmpty then [] else [0],
    lookupSets := true }

def parseCall (k : Nat) (s : List Char) : Option (Payload Nat × Call Nat) :=
  match Wire.splitOn '@' s with
  | [['T'], m, o, nb, ids] =>
    let mode : Option Mode := (Wire.nat? m).map IO.modeOf
    some (payloadFor (idsOf ids) [] [] true, .tokenize mode (optNat o) (textOf k (natOr0 nb)))
  | [['S'], l, ix, md, o, ad, ids, uw] =>
    let modeOk := md.head? = some '1'
    let mode := IO.modeOf (natOr0 md.tail)
    let add : Option Bool := if ad = ['1'] then some true else if ad = ['0'] then some false else none
    some (payloadFor [] (idsOf ids) [] true, .split (natOr0 l) (natOr0 ix) ⟨modeOk, mode, optNat o, add, uw = ['1']⟩)
  | [['L'], o, nb, ids, ok] =>
    some (payloadFor [] [] (idsOf ids) (ok = ['1']), .lookup (textOf k (natOr0 nb)) (optNat o))
  | _ => none

def parseTabs (s : List Char) : Option (Nat × Tabs) :=
  match Wire.splitOn ':' s with
  | [k, o, m, m2o, c2b, ob] =>
    let nl := fun (x : List Char) => if x = ['-'] then [] else (Wire.items '.' x).map natOr0
    match Wire.nat? k, Wire.hexBytes? o, Wire.hexBytes? m with
    | some k, some o, some m => some (k, ⟨2, o, m, nl m2o, nl c2b, nl ob⟩)
    | _, _, _ => none
  | _ => none

def stateNum : BufState → Nat
  | .clean => 0
  | .rw => 1
  | .ro => 2

/-- the default `InputPart` (state RW, `m2o = [0]`, nothing built) and any cell whose tables were not shipped -/
def defaultTabs : Tabs := ⟨1, [], [], [0], [], []⟩

def tabsFor (tabs : List (Nat × Tabs)) (inp : Input Nat) : Tabs :=
  match cellTag inp with
  | none => defaultTabs
  | some t => match tabs.find? (fun x => x.1 + 256 == t) with
    | some x => { x.2 with state := stateNum inp.state }
    | none => { defaultTabs with state := stateNum inp.state }

def showObs3 (l : List PyGlue.Obs) : String :=
  Wire.joinWith ":" (l.map (fun o => match o with | .val s => s | .exc _ => "!" | .unspecified => "?" | .crash => "CRASH"))

/-- canonical cell numbers: cells are numbered in the order of the first list that points to them -/
def canon (parts : List Nat) : List Nat :=
  let firsts := parts.foldl (fun acc p => if acc.contains p then acc else acc ++ [p]) ([] : List Nat)
  parts.map (fun p => firsts.idxOf p)

def showState (tabs : List (Nat × Tabs)) (s : Sess Nat) (kept : List (Nat × Nat)) : String :=
  let cs := canon (s.w.lists.map (·.part))
  let ls := (List.range s.w.lists.length).map (fun j =>
    match cellOf s.w j with
    | none => "?"
    | some (L, inp) =>
      let t := tabsFor tabs inp
      let fl := if L.nodes.isEmpty then "-" else if s.stale j then "s" else "f"
      "c" ++ toString (match cs[j]? with | some c => c | none => 0) ++ "." ++ fl ++ "." ++ toString L.nodes.length ++ "[" ++
        Wire.joinWith "," (L.nodes.map (fun n => showObs3 (readNode t (NodeR.ofNat n)))) ++ "]")
  let ks := kept.map (fun (j, ix) =>
    match cellOf s.w j with
    | none => "?"
    | some (L, inp) => showObs3 (readKept (tabsFor tabs inp) L.nodes ix))
  Wire.joinWith "," ls ++ ";k=" ++ Wire.joinWith "," ks

def showRet : Ret → String
  | .list j => "ok:" ++ toString j
  | .exc k => "exc:" ++ k

def modeName : Mode → String | .A => "A" | .B => "B" | .C => "C"

def replay (v : ResetVariant) (tabs : List (Nat × Tabs)) (keeps : List (Nat × Nat)) :
    Nat → Sess Nat → List (Nat × Nat) → List (Option (Payload Nat × Call Nat)) → List String
  | _, _, _, [] => []
  | k, s, kept, c :: rest =>
    match c with
    | none => ["bad-call"]
    | some (P, call) =>
      let r := s.step v P call
      -- `keep`: Python keeps the last morpheme of the list this call returned
      let kept := match r.2, keeps.find? (fun x => x.1 == k) with
        | .list j, some x => kept ++ [(j, x.2)]
        | _, _ => kept
      (showRet r.2 ++ ";" ++ modeName r.1.w.tok.mode ++ ";" ++ showState tabs r.1 kept) :: replay v tabs keeps (k + 1) r.1 kept rest

def handle (toks : List (List Char)) : String :=
  match (Wire.kv? toks "mode").bind Wire.nat?, Wire.kv? toks "calls", Wire.kv? toks "tabs", Wire.kv? toks "kept" with
  | some m, some cs, some ts, some ks =>
    let v : ResetVariant := if Wire.kv? toks "rv" = some "cur".toList then .cur else .fix
    let calls := (Wire.items '/' cs).zipIdx.map (fun (c, k) => parseCall k c)
    let tabs := ((Wire.items ';' ts).filterMap parseTabs)
    let keeps := (Wire.items ',' ks).filterMap (fun x => match Wire.natTuple? x with | some [a, b] => some (a, b) | _ => none)
    "ok " ++ Wire.joinWith "|" (replay v tabs keeps 0 ⟨World.init (IO.modeOf m), []⟩ [] calls)
  | _, _, _, _ => "bad-op"

end PySession
