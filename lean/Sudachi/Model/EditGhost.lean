import Sudachi.Model.Edit
/-!
# `resolve_edits` with GHOST state: where every byte of the rewritten text comes from (C08, `unreplaced_exact`)

`EditM.resolve` is `edit.rs: resolve_edits`.  This file runs the SAME loop on bytes that carry a ghost `Tag`:

* `org = some k`  the byte is byte `k` of the ORIGINAL text and no replacement ever wrote it (copied by every batch);
                  `none` = written by a replacement (`add_replace`);
* `att = some d`  a DELETION RUN is attached after this byte: the last thing `resolve_edits` did after copying/writing this
                  byte was to skip replaced text without writing anything (`add_replace` with an empty `with`), once or several
                  times in a row or in later batches; `d` = the offset of the ORIGINAL text where the image of the last skipped
                  span ends (`source_mapping[what.end]`);
* `lead = true`   the byte has been the FIRST entry of the result of a non-empty batch ("first byte of mapping MUST be 0").

The ghost state is write-only: no map value and no byte depends on it, erasing it gives back `EditM.resolve`
(`Proofs/EditGhost.lean: commitAllVG_erase`).  The driver prints it for every `C08 edits` line together with the image
`[startOf, endOf)` it PREDICTS for every unreplaced byte from the ghost state alone; the harness compares the prediction with
`get_original_index` / the `m2o` table of the real buffer and the provenance with its own naive bookkeeping.
-/
namespace EditG
open EditM

structure Tag where
  org : Option Nat
  att : Option Nat
  lead : Bool
deriving Repr, DecidableEq

/-- a byte of the rewritten text with its ghost state -/
abbrev GB := Nat × Tag

/-- ghost state of a byte written by a replacement -/
def noTag : Tag := ⟨none, none, false⟩

/-- a deletion run ending at original offset `d` is attached after this entry (the sentinel entry carries no ghost) -/
def setAtt (d : Nat) : P GB → P GB
  | (some (b, t), v) => (some (b, { t with att := some d }), v)
  | (none, v) => (none, v)

/-- mark the LAST entry written so far (nothing to mark when nothing has been written: a leading deletion) -/
def attach (d : Nat) : List (P GB) → List (P GB)
  | [] => []
  | [p] => [setAtt d p]
  | p :: q :: r => p :: attach d (q :: r)

/-- the replacement bytes of an edit, ghost-tagged "written by a replacement" -/
def tagE (ed : Edit Nat) : Edit GB := ⟨ed.s, ed.e, ed.w.map (fun b => (b, noTag))⟩

/-- `add_replace` returns early (`with.is_empty()`) and something was skipped -/
def isDel (ed : Edit Nat) : Bool := ed.w.isEmpty && decide (ed.s < ed.e)

/-- main loop of `resolve_edits` (`EditM.go`) with the ghost bookkeeping of deletions -/
def goG (l : List (P GB)) : Nat → List (Edit Nat) → List (P GB) → List (P GB)
  | start, [], acc => acc ++ l.drop start
  | start, ed :: es, acc =>
    goG l ed.e es
      (if isDel ed then attach (valAt l ed.e) (acc ++ slice l start ed.s)
       else acc ++ slice l start ed.s ++ repl l (tagE ed))

/-- first entry of the mapping MUST be 0 (`EditM.force0`); ghost: the entry has been a first entry -/
def force0G : List (P GB) → List (P GB)
  | [] => []
  | (some (b, t), _) :: r => (some (b, { t with lead := true }), 0) :: r
  | (none, _) :: r => (none, 0) :: r

def resolveG (l : List (P GB)) (es : List (Edit Nat)) : List (P GB) := force0G (goG l 0 es [])

/-- `InputBuffer::commit` (`EditM.commitV`) on ghost-tagged bytes -/
def commitVG (v : LenV) (l : List (P GB)) (es : List (Edit Nat)) : Option (List (P GB)) :=
  if es.isEmpty then some l
  else if lenGuard v REALLY_MAX_LENGTH ((l.length : Int) - 1) es then some (resolveG l es) else none

def commitAllVG (v : LenV) (l : List (P GB)) : List (List (Edit Nat)) → Option (List (P GB))
  | [] => some l
  | es :: rest => match commitVG v l es with
    | none => none
    | some l' => commitAllVG v l' rest

/-- `start_build` (`EditM.identFrom`): every byte is byte `k` of the original, nothing attached -/
def ghostIdentFrom : Nat → List Nat → List (P GB)
  | k, [] => [(none, k)]
  | k, b :: bs => (some (b, ⟨some k, none, false⟩), k) :: ghostIdentFrom (k + 1) bs

def ghostIdent (o : List Nat) : List (P GB) := ghostIdentFrom 0 o

/-! ## the image predicted from the ghost state alone -/

/-- start of the image of unreplaced byte `k` -/
def startOf (t : Tag) (k : Nat) : Nat := if t.lead then 0 else k

/-- end of the image of unreplaced byte `k`: its own end, or the end of the deletion run attached after it -/
def endOf (t : Tag) (k : Nat) : Nat :=
  match t.att with
  | none => k + 1
  | some d => d

/-! ## driver -/

/-- ghost state of the bytes of the rewritten text, in order (the sentinel entry has none) -/
def tagsOf (lg : List (P GB)) : List Tag := lg.filterMap (fun p => p.1.map (·.2))

def flags (f : Tag → Bool) (ts : List Tag) : String := String.ofList (ts.map (fun t => if f t then '1' else '0'))

/-- `i:start:end` for every unreplaced byte, `i` = its offset in the rewritten text -/
def predicted : Nat → List Tag → List String
  | _, [] => []
  | i, t :: ts =>
    match t.org with
    | some k => (toString i ++ ":" ++ toString (startOf t k) ++ ":" ++ toString (endOf t k)) :: predicted (i + 1) ts
    | none => predicted (i + 1) ts

/-- the ghost tokens of an answer line:
`prov=<per byte: original offset, or r = written by a replacement> del=<per byte: 1 = a deletion run is attached after it>
lead=<per byte: 1 = has been a first entry> uimg=<i:start:end;... predicted image of every unreplaced byte>` -/
def ghostTokens (lg : List (P GB)) : String :=
  let ts := tagsOf lg
  " prov=" ++ Wire.joinWith "," (ts.map (fun t => match t.org with | some k => toString k | none => "r"))
    ++ " del=" ++ flags (fun t => t.att.isSome) ts
    ++ " lead=" ++ flags (fun t => t.lead) ts
    ++ " uimg=" ++ Wire.joinWith ";" (predicted 0 ts)

/-- `C08 edits orig=<hex> batches=<…> [commit=running|final]`: the answer of `EditM.handle` (the executed, untagged run) followed
by the ghost tokens of the ghost-tagged run of the same batches -/
def handle (toks : List (List Char)) : String :=
  let base := EditM.handle toks
  match Wire.kv? toks "orig", Wire.kv? toks "batches" with
  | some o, some b =>
    match Wire.hexBytes? o, parseBatches b with
    | some orig, some batches =>
      match startBuild orig with
      | none => base
      | some _ =>
        match commitAllVG (lenVOf toks) (ghostIdent orig) batches with
        | none => base
        | some lg => base ++ ghostTokens lg
    | _, _ => base
  | _, _ => base

end EditG
