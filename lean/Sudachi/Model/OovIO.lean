import Sudachi.Model.Oov
import Sudachi.Model.OovTables
/-!
# C13: definition-file readers of the MeCab provider and the driver entry

`read_character_property` / `read_oov` of `plugin/oov/mecab_oov/mod.rs` are transcribed on byte
strings (one `Char` per byte: every token the readers compare is compared byte-wise, so UTF-8 never
has to be decoded).  `bitflags::parser::from_str` is transcribed for names and `|`.
-/
namespace Oov

/-! ## small text helpers

The readers are parametrised by the white-space predicate `ws` of `str::trim` / `split_whitespace`: the driver decodes
the files (strict UTF-8, as `BufRead::lines` does) and runs them with Unicode `White_Space` (`isWsU`); `Wire.isWs` (ASCII)
is the instance used on byte strings (C20's model). -/

/-- `char::is_whitespace`: the Unicode property `White_Space` -/
def isWsU (c : Char) : Bool :=
  let n := c.toNat
  (9 ≤ n && n ≤ 13) || n == 32 || n == 0x85 || n == 0xA0 || n == 0x1680 || (0x2000 ≤ n && n ≤ 0x200A) ||
  n == 0x2028 || n == 0x2029 || n == 0x202F || n == 0x205F || n == 0x3000

def trimW (ws : Char → Bool) (s : List Char) : List Char := CharCat.trimW ws s

def trim (s : List Char) : List Char := trimW Wire.isWs s

/-- `str::split_whitespace` for a given white-space predicate -/
def wordsW (ws : Char → Bool) (s : List Char) : List (List Char) :=
  (go s [] []).reverse
where
  go : List Char → List Char → List (List Char) → List (List Char)
    | [], cur, acc => if cur.isEmpty then acc else cur.reverse :: acc
    | c :: cs, cur, acc =>
      if ws c then (if cur.isEmpty then go cs [] acc else go cs [] (cur.reverse :: acc))
      else go cs (c :: cur) acc

/-- `BufRead::lines`: split at `\n`, a final empty piece is not a line, a trailing `\r` is removed -/
def lines (text : List Char) : List (List Char) :=
  let ps := Wire.splitOn '\n' text
  let ps := match ps.reverse with
    | [] :: rest => rest.reverse
    | _ => ps
  ps.map (fun l => match l.reverse with
    | '\r' :: r => r.reverse
    | _ => l)

/-- `String::from_utf8` (what `BufRead::lines` applies to every line): well-formed UTF-8 only — no stray continuation
byte, no overlong form (`C0`, `C1`, `E0 80..9F`, `F0 80..8F`), no surrogate (`ED A0..BF`), nothing above U+10FFFF.
State: continuation bytes still expected (`need`), value so far, and the range the NEXT continuation byte must lie in
(only the first continuation byte of a sequence is restricted further than `80..BF`). -/
def utf8Go : List Nat → Nat → Nat → Nat → Nat → Option (List Nat)
  | [], need, _, _, _ => if need = 0 then some [] else none
  | b :: rest, 0, _, _, _ =>
    if b < 0x80 then (utf8Go rest 0 0 0 0).map (b :: ·)
    else if b < 0xC2 then none
    else if b < 0xE0 then utf8Go rest 1 (b - 0xC0) 0x80 0xBF
    else if b < 0xF0 then utf8Go rest 2 (b - 0xE0) (if b = 0xE0 then 0xA0 else 0x80) (if b = 0xED then 0x9F else 0xBF)
    else if b < 0xF5 then utf8Go rest 3 (b - 0xF0) (if b = 0xF0 then 0x90 else 0x80) (if b = 0xF4 then 0x8F else 0xBF)
    else none
  | b :: rest, need + 1, acc, lo, hi =>
    if lo ≤ b ∧ b ≤ hi then
      if need = 0 then (utf8Go rest 0 0 0 0).map ((acc * 64 + (b - 0x80)) :: ·)
      else utf8Go rest need (acc * 64 + (b - 0x80)) 0x80 0xBF
    else none

def utf8Strict (bs : List Nat) : Option (List Nat) := utf8Go bs 0 0 0 0

/-- the lines of a file as `reader.lines()` yields them, decoded; `none` = some line is not UTF-8 (`line?` is `Err`) -/
def linesU (text : List Char) : Option (List (List Char)) :=
  Wire.allSome ((lines text).map (fun l => (utf8Strict (l.map Char.toNat)).map (·.map Char.ofNat)))

/-- `bitflags::parser::from_str::<CategoryType>`: names and hex literals (`0x…`, `from_bits_retain`) joined by `|`
(`CharCat.catOfStrW?`, shared with the range lines of char.def) -/
def parseCatTypeW (ws : Char → Bool) (s : List Char) : Option Nat := CharCat.catOfStrW? ws s

def parseCatType (s : List Char) : Option Nat := CharCat.catOfStr? s

/-- `str::parse::<u32>` (optional `+`) -/
def parseU32 (s : List Char) : Option Nat :=
  let d := match s with
    | '+' :: r => r
    | _ => s
  match Wire.nat? d with
  | some n => if n < 4294967296 then some n else none
  | none => none

/-- `str::parse::<i16>` -/
def parseI16 (s : List Char) : Option Int :=
  let v : Option Int := match s with
    | '+' :: r => (Wire.nat? r).map Int.ofNat
    | '-' :: r => (Wire.nat? r).map (fun n => - Int.ofNat n)
    | _ => (Wire.nat? s).map Int.ofNat
  match v with
  | some x => if -32768 ≤ x ∧ x ≤ 32767 then some x else none
  | none => none

/-- `read_character_property`; `none` = `Err` -/
def readCharPropW (ws : Char → Bool) : List (List Char) → List (Nat × CatInfo) → Option (List (Nat × CatInfo))
  | [], acc => some acc
  | line :: rest, acc =>
    let line := trimW ws line
    if line.isEmpty || line.head? == some '#' || line.take 2 == ['0', 'x'] then readCharPropW ws rest acc
    else
      match wordsW ws line with
      | c0 :: c1 :: c2 :: c3 :: _ =>
        match parseCatTypeW ws c0 with
        | none => none
        | some ct =>
          if (findKey ct acc).isSome then none
          else match parseU32 c3 with
            | none => none
            | some len => readCharPropW ws rest (acc ++ [(ct, ⟨ct, c1 == ['1'], c2 == ['1'], len⟩)])
      | _ => none

/-- the reader on byte strings (ASCII white space) -/
def readCharProp (ls : List (List Char)) (acc : List (Nat × CatInfo)) : Option (List (Nat × CatInfo)) :=
  readCharPropW Wire.isWs ls acc

/-- `oov_list.get_mut(cat).push(oov)` / insert -/
def pushOov (k : Nat) (d : OovDef) : List (Nat × List OovDef) → List (Nat × List OovDef)
  | [] => [(k, [d])]
  | (k', ds) :: rest => if k' = k then (k', ds ++ [d]) :: rest else (k', ds) :: pushOov k d rest

/-- `Grammar::get_part_of_speech_id` -/
def posIndex (pos : List (List (List Char))) (want : List (List Char)) : Option Nat :=
  let i := pos.findIdx (· == want)
  if i < pos.length then some i else none

/-- `read_oov` with `userPOS: forbid`; `none` = `Err` -/
def readOov (ws : Char → Bool) (ge : Bool) (cats : List (Nat × CatInfo)) (pos : List (List (List Char))) (numLeft numRight : Nat) :
    List (List Char) → List (Nat × List OovDef) → Option (List (Nat × List OovDef))
  | [], acc => some acc
  | line :: rest, acc =>
    let line := trimW ws line
    if line.isEmpty || line.head? == some '#' then readOov ws ge cats pos numLeft numRight rest acc
    else
      let cols := Wire.splitOn ',' line
      if cols.length < 10 then none else
      match cols with
      | c0 :: c1 :: c2 :: c3 :: more =>
        match parseCatTypeW ws c0 with
        | none => none
        | some ct =>
          if (findKey ct cats).isNone then none else
          match parseI16 c1, parseI16 c2, parseI16 c3, posIndex pos (more.take 6) with
          | some l, some r, some c, some p =>
            -- `oov.left_id as usize > num_left()` in the pinned tree (`ge = false`), `>=` after the repair of D15b;
            -- a negative id becomes huge
            if l < 0 || l.toNat > numLeft || (ge && l.toNat == numLeft) then none
            else if r < 0 || r.toNat > numRight || (ge && r.toNat == numRight) then none
            else readOov ws ge cats pos numLeft numRight rest (pushOov ct ⟨l.toNat, r.toNat, c, p⟩ acc)
          | _, _, _, _ => none
      | _ => none

/-! ## wire decoding -/

def bytesToChars (bs : List Nat) : List Char := bs.map Char.ofNat

def dotNats? (s : List Char) : Option (List Nat) := Wire.allSome ((Wire.items '.' s).map Wire.nat?)

def parseVariant (toks : List (List Char)) : Variant :=
  match Wire.kv? toks "variant" with
  | some v =>
    if v == "fwd".toList then .forward else if v == "bwd".toList then .backward
    else if v == "spec".toList then .spec else defaultVariant
  | none => defaultVariant

/-- the grammar's character table and the built buffer of the case -/
def caseBuf (toks : List (List Char)) : Option (Option Buf) :=
  match Wire.kv? toks "def", Wire.kv? toks "text" with
  | some d, some t =>
    match Wire.hexBytes? d, Wire.natList? t with
    | some bytes, some chars =>
      match CharCat.parseLines (Wire.splitOn '\n' (bytesToChars bytes)) with
      | .error _ => some none
      | .ok rs => some (mkBufV (parseVariant toks) (Wire.kv? toks "bow" == some "fix".toList) (CharCat.compile rs) chars)
    | _, _ => none
  | _, _ => none

/-- `p=l:r:c:pos` -/
def parseP (s : List Char) : Option (Nat × Nat × Int × Nat) :=
  match Wire.items ':' s with
  | [l, r, c, p] =>
    match Wire.nat? l, Wire.nat? r, Wire.int? c, Wire.nat? p with
    | some l, some r, some c, some p => some (l, r, c, p)
    | _, _, _, _ => none
  | _ => none

/-- `min:max+1:cp.cp.cp` (`0` = unbounded) -/
def parseAlt (s : List Char) : Option Alt :=
  match Wire.items ':' s with
  | [mn, mx, set] =>
    match Wire.nat? mn, Wire.nat? mx, dotNats? set with
    | some mn, some mx, some set => some ⟨set, mn, if mx = 0 then none else some (mx - 1)⟩
    | _, _, _ => none
  | _ => none

def parseMecab (toks : List (List Char)) : Option (Option MecabCfg) :=
  match Wire.kv? toks "mdef", Wire.kv? toks "unk", Wire.kv? toks "poslist", Wire.kv? toks "nl", Wire.kv? toks "nr" with
  | some md, some unk, some pl, some nl, some nr =>
    match Wire.hexBytes? md, Wire.hexBytes? unk, Wire.hexBytes? pl, Wire.nat? nl, Wire.nat? nr with
    | some md, some unk, some pl, some nl, some nr =>
      -- the three files are decoded line by line as `reader.lines()` does: a line that is not UTF-8 is `Err`
      match linesU (bytesToChars md), linesU (bytesToChars unk), linesU (bytesToChars pl) with
      | some mdl, some unkl, some pll =>
        let pos := pll.map (Wire.splitOn ',')
        match readCharPropW isWsU mdl [] with
        | none => some none
        | some cats =>
          match readOov isWsU (Wire.kv? toks "unkge" == some ['1']) cats pos nl nr unkl [] with
          | none => some none
          | some oovs => some (some ⟨cats, oovs, Wire.kv? toks "mstop" == some ['1']⟩)
      | _, _, _ => some none
    | _, _, _, _, _ => none
  | _, _, _, _, _ => none

def parseSimple (toks : List (List Char)) : Option SimpleCfg :=
  match (Wire.kv? toks "sp").bind parseP with
  | some (l, r, c, p) => some ⟨l, r, c, p⟩
  | none => none

def parseRegex (toks : List (List Char)) : Option RegexCfg :=
  match (Wire.kv? toks "rp").bind parseP, Wire.kv? toks "re", (Wire.kv? toks "maxlen").bind Wire.nat?,
        (Wire.kv? toks "strict").bind Wire.nat? with
  | some (l, r, c, p), some re, some ml, some st =>
    match Wire.allSome ((Wire.items ';' re).map parseAlt) with
    | some alts => some ⟨l, r, c, p, alts, ml, st != 0, Wire.kv? toks "rxempty" == some "skip".toList⟩
    | none => none
  | _, _, _, _ => none

/-- `some none` = the plugin fails to set up -/
def parseProvider (toks : List (List Char)) (kind : List Char) : Option (Option Provider) :=
  if kind == ['m'] then (parseMecab toks).map (·.map Provider.mecab)
  else if kind == ['s'] then (parseSimple toks).map (fun c => some (Provider.simple c))
  else if kind == ['r'] then (parseRegex toks).map (fun c => some (Provider.regex c))
  else none

/-! ## answers -/

def showNode (x : Node) : String :=
  Wire.joinWith ":" [toString x.b, toString x.e, toString x.l, toString x.r, toString x.c, toString x.pos]

def showNodes (l : List Node) : String :=
  if l.isEmpty then "_" else Wire.joinWith "," (l.map showNode)

def showBools (l : List Bool) : String := String.ofList (l.map (fun b => if b then '1' else '0'))

/-- `hist=<text>;<text>`: the earlier texts of a recycled object (code points, `e` = the empty text, a trailing `*` = the
result was collected - immaterial for a bare buffer) -/
def parseHist (s : List Char) : Option (List (List Nat)) :=
  Wire.allSome ((Wire.items ';' s).map (fun it =>
    let it := if it.getLast? == some '*' then it.dropLast else it
    if it == ['e'] then some [] else Wire.natList? it))

/-- the tables of ONE `InputBuffer` that held the earlier texts (`reset` + `build` each, `Model/OovTables.lean`) and then the
text of the case -/
def caseTables (toks : List (List Char)) : Option (Option Tables) :=
  match Wire.kv? toks "def", Wire.kv? toks "text", Wire.kv? toks "hist" with
  | some d, some t, some h =>
    match Wire.hexBytes? d, Wire.natList? t, parseHist h with
    | some bytes, some chars, some hist =>
      match CharCat.parseLines (Wire.splitOn '\n' (bytesToChars bytes)) with
      | .error _ => some none
      | .ok rs =>
        let tab := CharCat.compile rs
        let v := parseVariant toks
        let fix := Wire.kv? toks "bow" == some "fix".toList
        some ((hist ++ [chars]).foldl (fun acc cs => acc.bind (fun tb =>
          (Wire.allSome (cs.map (CharCat.lookup tab))).bind (fun cats => tb.next v fix cs cats))) (some Tables.empty))
    | _, _, _ => none
  | _, _, _ => none

/-- a `buf` line with `hist=`: the answer is read from the byte tables of the recycled object -/
def handleBufRecycled (toks : List (List Char)) : String :=
  match caseTables toks with
  | none => "bad-op"
  | some none => "err"
  | some (some t) =>
    let wcl := (List.range t.chars.length).map (fun i => match t.wordCandidateLength i with
      | some k => toString k
      | none => "P")
    "ok cats=" ++ Wire.showNats t.cat ++ " cont=" ++ Wire.showNats t.cont ++
    " bow=" ++ showBools t.bow ++ " wcl=" ++ Wire.joinWith "," wcl

def handleBuf (toks : List (List Char)) : String :=
  if (Wire.kv? toks "hist").isSome then handleBufRecycled toks else
  match caseBuf toks with
  | none => "bad-op"
  | some none => "err"
  | some (some buf) =>
    let wcl := (List.range buf.chars.length).map (fun i => match wordCandidateLength buf.bow i with
      | some k => toString k
      | none => "P")
    "ok cats=" ++ Wire.showNats buf.cats ++ " cont=" ++ Wire.showNats buf.cont ++
    " bow=" ++ showBools (bowBytes buf.chars buf.bow) ++ " wcl=" ++ Wire.joinWith "," wcl

/-- `off:mask:e.e.e` -/
def parseQuery (s : List Char) : Option (Nat × Nat × List Nat) :=
  match Wire.splitOn ':' s with
  | [o, m, es] =>
    match Wire.nat? o, Wire.nat? m, dotNats? es with
    | some o, some m, some es => some (o, m, es)
    | _, _, _ => none
  | _ => none

def handleProv (toks : List (List Char)) : String :=
  match caseBuf toks, Wire.kv? toks "kind", Wire.kv? toks "q" with
  | some (some buf), some kind, some q =>
    match parseProvider toks kind, Wire.allSome ((Wire.items ';' q).map parseQuery) with
    | some none, _ => "err:setup"
    | some (some p), some qs =>
      "ok " ++ Wire.joinWith ";" (qs.map (fun (o, m, es) =>
        let existing : List Node := es.map (fun e => ⟨o, e, 0, 0, 0, false, 0⟩)
        match provide p buf o m existing with
        | .ok ns => showNodes ns
        | .err _ => "E"
        | .panic _ => "P"))
    | _, _ => "bad-op"
  | some none, _, _ => "err"
  | _, _, _ => "bad-op"

/-- lexicographic order on `(e, l, r, c, oov, pos)` -/
def nodeLe (x y : Node) : Bool :=
  if x.e ≠ y.e then x.e < y.e
  else if x.l ≠ y.l then x.l < y.l
  else if x.r ≠ y.r then x.r < y.r
  else if x.c ≠ y.c then x.c < y.c
  else if x.oov ≠ y.oov then !x.oov
  else x.pos ≤ y.pos

def insertNode (x : Node) : List Node → List Node
  | [] => [x]
  | y :: ys => if nodeLe x y then x :: y :: ys else y :: insertNode x ys

def sortNodes (l : List Node) : List Node := l.foldr insertNode []

def showLatNode (x : Node) : String :=
  Wire.joinWith ":" [toString x.e, toString x.l, toString x.r, toString x.c, if x.oov then "1" else "0", toString x.pos]

/-- `idx~offset~created~pre~nodes`: one `provide_oov` call of the builder -/
def showCall (c : Call) : String :=
  Wire.joinWith "~" [toString c.idx, toString c.offset, toString c.created, toString c.pre, showNodes c.out]

def parseWord (s : List Char) : Option Word :=
  match Wire.items ':' s with
  | [sf, l, r, c] =>
    match dotNats? sf, Wire.nat? l, Wire.nat? r, Wire.int? c with
    | some sf, some l, some r, some c => some ⟨sf, l, r, c⟩
    | _, _, _, _ => none
  | _ => none

def handleLat (toks : List (List Char)) : String :=
  match caseBuf toks, Wire.kv? toks "provs", Wire.kv? toks "lex" with
  | some (some buf), some provs, some lex =>
    match Wire.allSome ((Wire.items '.' provs).map (parseProvider toks)), Wire.allSome ((Wire.items ';' lex).map parseWord) with
    | some ps, some lex =>
      match Wire.allSome ps with
      | none => "err:setup"
      | some ps =>
        if ps.isEmpty then "err:setup" else
        if buf.chars.isEmpty then "ok " else
        -- every completed `provide_oov` call is printed, also when the run ends in `Err` / a panic
        let run := buildLatticeP ps lex buf
        let calls := " calls=" ++ Wire.joinWith "+" (run.1.map showCall)
        match run.2 with
        | .panic _ => "PANIC" ++ calls
        | .err k => "err:" ++ k ++ calls
        | .ok nodes =>
          let per := (List.range buf.chars.length).filterMap (fun p =>
            let here := sortNodes (nodes.filter (fun x => x.b == p))
            if here.isEmpty then none
            else some (toString p ++ "=" ++ Wire.joinWith "," (here.map showLatNode)))
          "ok " ++ Wire.joinWith ";" per ++ calls
    | _, _ => "bad-op"
  | some none, _, _ => "err"
  | _, _, _ => "bad-op"

def handleInfo (toks : List (List Char)) : String :=
  match (Wire.kv? toks "text").bind Wire.natList?, (Wire.kv? toks "b").bind Wire.nat?,
        (Wire.kv? toks "e").bind Wire.nat?, (Wire.kv? toks "raw").bind Wire.nat? with
  | some chars, some b, some e, some raw =>
    let i := oovInfo chars b e raw
    "ok oov=" ++ (if i.isOov then "1" else "0") ++ " dic=" ++ toString i.dictionaryId ++ " pos=" ++ toString i.posId ++
    " surf=" ++ Wire.showNats i.surface ++ " norm=" ++ Wire.showNats i.normalizedForm ++
    " dform=" ++ Wire.showNats i.dictionaryForm ++ " read=" ++ Wire.showNats i.readingForm
  | _, _, _, _ => "bad-op"

/-- `C13 <op> idx=… key=value …` -/
def handle (op : List Char) (toks : List (List Char)) : String :=
  if op == "buf".toList then handleBuf toks
  else if op == "prov".toList then handleProv toks
  else if op == "lat".toList then handleLat toks
  else if op == "info".toList then handleInfo toks
  else "bad-op"

end Oov
