import Sudachi.Model.Oov
/-!
# C13: definition-file readers of the MeCab provider and the driver entry

`read_character_property` / `read_oov` of `plugin/oov/mecab_oov/mod.rs` are transcribed on byte
strings (one `Char` per byte: every token the readers compare is compared byte-wise, so UTF-8 never
has to be decoded).  `bitflags::parser::from_str` is transcribed for names and `|`.
-/
namespace Oov

/-! ## small text helpers -/

def trim (s : List Char) : List Char :=
  ((s.dropWhile Wire.isWs).reverse.dropWhile Wire.isWs).reverse

/-- `BufRead::lines`: split at `\n`, a final empty piece is not a line, a trailing `\r` is removed -/
def lines (text : List Char) : List (List Char) :=
  let ps := Wire.splitOn '\n' text
  let ps := match ps.reverse with
    | [] :: rest => rest.reverse
    | _ => ps
  ps.map (fun l => match l.reverse with
    | '\r' :: r => r.reverse
    | _ => l)

/-- `bitflags::parser::from_str::<CategoryType>` (names joined by `|`; hex literals are not generated) -/
def parseCatType (s : List Char) : Option Nat :=
  if (trim s).isEmpty then some 0 else
  (Wire.splitOn '|' s).foldl (fun acc f =>
    match acc with
    | none => none
    | some a =>
      let f := trim f
      if f.isEmpty then none else
      match CharCat.catOfName? f with
      | some c => some (a ||| c)
      | none => none) (some 0)

/-- `str::parse::<u32>` (optional `+`) -/
def parseU32 (s : List Char) : Option Nat :=
  let d := match s with
    | '+' :: r => r
    | _ => s
  match Wire.nat? d with
  | some n => if n < 4294967296 then some n else none
  | none => none

/-- `str::parse::<i16>` -/
def parseI16 (s : List Char) : Option Int :=
  let v : Option Int := match s with
    | '+' :: r => (Wire.nat? r).map Int.ofNat
    | '-' :: r => (Wire.nat? r).map (fun n => - Int.ofNat n)
    | _ => (Wire.nat? s).map Int.ofNat
  match v with
  | some x => if -32768 ≤ x ∧ x ≤ 32767 then some x else none
  | none => none

/-- `read_character_property`; `none` = `Err` -/
def readCharProp : List (List Char) → List (Nat × CatInfo) → Option (List (Nat × CatInfo))
  | [], acc => some acc
  | line :: rest, acc =>
    let line := trim line
    if line.isEmpty || line.head? == some '#' || line.take 2 == ['0', 'x'] then readCharProp rest acc
    else
      match Wire.words line with
      | c0 :: c1 :: c2 :: c3 :: _ =>
        match parseCatType c0 with
        | none => none
        | some ct =>
          if (findKey ct acc).isSome then none
          else match parseU32 c3 with
            | none => none
            | some len => readCharProp rest (acc ++ [(ct, ⟨ct, c1 == ['1'], c2 == ['1'], len⟩)])
      | _ => none

/-- `oov_list.get_mut(cat).push(oov)` / insert -/
def pushOov (k : Nat) (d : OovDef) : List (Nat × List OovDef) → List (Nat × List OovDef)
  | [] => [(k, [d])]
  | (k', ds) :: rest => if k' = k then (k', ds ++ [d]) :: rest else (k', ds) :: pushOov k d rest

/-- `Grammar::get_part_of_speech_id` -/
def posIndex (pos : List (List (List Char))) (want : List (List Char)) : Option Nat :=
  let i := pos.findIdx (· == want)
  if i < pos.length then some i else none

/-- `read_oov` with `userPOS: forbid`; `none` = `Err` -/
def readOov (ge : Bool) (cats : List (Nat × CatInfo)) (pos : List (List (List Char))) (numLeft numRight : Nat) :
    List (List Char) → List (Nat × List OovDef) → Option (List (Nat × List OovDef))
  | [], acc => some acc
  | line :: rest, acc =>
    let line := trim line
    if line.isEmpty || line.head? == some '#' then readOov ge cats pos numLeft numRight rest acc
    else
      let cols := Wire.splitOn ',' line
      if cols.length < 10 then none else
      match cols with
      | c0 :: c1 :: c2 :: c3 :: more =>
        match parseCatType c0 with
        | none => none
        | some ct =>
          if (findKey ct cats).isNone then none else
          match parseI16 c1, parseI16 c2, parseI16 c3, posIndex pos (more.take 6) with
          | some l, some r, some c, some p =>
            -- `oov.left_id as usize > num_left()` in the pinned tree (`ge = false`), `>=` after the repair of D15b;
            -- a negative id becomes huge
            if l < 0 || l.toNat > numLeft || (ge && l.toNat == numLeft) then none
            else if r < 0 || r.toNat > numRight || (ge && r.toNat == numRight) then none
            else readOov ge cats pos numLeft numRight rest (pushOov ct ⟨l.toNat, r.toNat, c, p⟩ acc)
          | _, _, _, _ => none
      | _ => none

/-! ## wire decoding -/

def bytesToChars (bs : List Nat) : List Char := bs.map Char.ofNat

def dotNats? (s : List Char) : Option (List Nat) := Wire.allSome ((Wire.items '.' s).map Wire.nat?)

def parseVariant (toks : List (List Char)) : Variant :=
  match Wire.kv? toks "variant" with
  | some v =>
    if v == "fwd".toList then .forward else if v == "bwd".toList then .backward
    else if v == "spec".toList then .spec else defaultVariant
  | none => defaultVariant

/-- the grammar's character table and the built buffer of the case -/
def caseBuf (toks : List (List Char)) : Option (Option Buf) :=
  match Wire.kv? toks "def", Wire.kv? toks "text" with
  | some d, some t =>
    match Wire.hexBytes? d, Wire.natList? t with
    | some bytes, some chars =>
      match CharCat.parseLines (Wire.splitOn '\n' (bytesToChars bytes)) with
      | .error _ => some none
      | .ok rs => some (mkBufV (parseVariant toks) (Wire.kv? toks "bow" == some "fix".toList) (CharCat.compile rs) chars)
    | _, _ => none
  | _, _ => none

/-- `p=l:r:c:pos` -/
def parseP (s : List Char) : Option (Nat × Nat × Int × Nat) :=
  match Wire.items ':' s with
  | [l, r, c, p] =>
    match Wire.nat? l, Wire.nat? r, Wire.int? c, Wire.nat? p with
    | some l, some r, some c, some p => some (l, r, c, p)
    | _, _, _, _ => none
  | _ => none

/-- `min:max+1:cp.cp.cp` (`0` = unbounded) -/
def parseAlt (s : List Char) : Option Alt :=
  match Wire.items ':' s with
  | [mn, mx, set] =>
    match Wire.nat? mn, Wire.nat? mx, dotNats? set with
    | some mn, some mx, some set => some ⟨set, mn, if mx = 0 then none else some (mx - 1)⟩
    | _, _, _ => none
  | _ => none

def parseMecab (toks : List (List Char)) : Option (Option MecabCfg) :=
  match Wire.kv? toks "mdef", Wire.kv? toks "unk", Wire.kv? toks "poslist", Wire.kv? toks "nl", Wire.kv? toks "nr" with
  | some md, some unk, some pl, some nl, some nr =>
    match Wire.hexBytes? md, Wire.hexBytes? unk, Wire.hexBytes? pl, Wire.nat? nl, Wire.nat? nr with
    | some md, some unk, some pl, some nl, some nr =>
      let pos := (lines (bytesToChars pl)).map (Wire.splitOn ',')
      match readCharProp (lines (bytesToChars md)) [] with
      | none => some none
      | some cats =>
        match readOov (Wire.kv? toks "unkge" == some ['1']) cats pos nl nr (lines (bytesToChars unk)) [] with
        | none => some none
        | some oovs => some (some ⟨cats, oovs⟩)
    | _, _, _, _, _ => none
  | _, _, _, _, _ => none

def parseSimple (toks : List (List Char)) : Option SimpleCfg :=
  match (Wire.kv? toks "sp").bind parseP with
  | some (l, r, c, p) => some ⟨l, r, c, p⟩
  | none => none

def parseRegex (toks : List (List Char)) : Option RegexCfg :=
  match (Wire.kv? toks "rp").bind parseP, Wire.kv? toks "re", (Wire.kv? toks "maxlen").bind Wire.nat?,
        (Wire.kv? toks "strict").bind Wire.nat? with
  | some (l, r, c, p), some re, some ml, some st =>
    match Wire.allSome ((Wire.items ';' re).map parseAlt) with
    | some alts => some ⟨l, r, c, p, alts, ml, st != 0, Wire.kv? toks "rxempty" == some "skip".toList⟩
    | none => none
  | _, _, _, _ => none

/-- `some none` = the plugin fails to set up -/
def parseProvider (toks : List (List Char)) (kind : List Char) : Option (Option Provider) :=
  if kind == ['m'] then (parseMecab toks).map (·.map Provider.mecab)
  else if kind == ['s'] then (parseSimple toks).map (fun c => some (Provider.simple c))
  else if kind == ['r'] then (parseRegex toks).map (fun c => some (Provider.regex c))
  else none

/-! ## answers -/

def showNode (x : Node) : String :=
  Wire.joinWith ":" [toString x.b, toString x.e, toString x.l, toString x.r, toString x.c, toString x.pos]

def showNodes (l : List Node) : String :=
  if l.isEmpty then "_" else Wire.joinWith "," (l.map showNode)

def showBools (l : List Bool) : String := String.ofList (l.map (fun b => if b then '1' else '0'))

def handleBuf (toks : List (List Char)) : String :=
  match caseBuf toks with
  | none => "bad-op"
  | some none => "err"
  | some (some buf) =>
    let wcl := (List.range buf.chars.length).map (fun i => match wordCandidateLength buf.bow i with
      | some k => toString k
      | none => "P")
    "ok cats=" ++ Wire.showNats buf.cats ++ " cont=" ++ Wire.showNats buf.cont ++
    " bow=" ++ showBools (bowBytes buf.chars buf.bow) ++ " wcl=" ++ Wire.joinWith "," wcl

/-- `off:mask:e.e.e` -/
def parseQuery (s : List Char) : Option (Nat × Nat × List Nat) :=
  match Wire.splitOn ':' s with
  | [o, m, es] =>
    match Wire.nat? o, Wire.nat? m, dotNats? es with
    | some o, some m, some es => some (o, m, es)
    | _, _, _ => none
  | _ => none

def handleProv (toks : List (List Char)) : String :=
  match caseBuf toks, Wire.kv? toks "kind", Wire.kv? toks "q" with
  | some (some buf), some kind, some q =>
    match parseProvider toks kind, Wire.allSome ((Wire.items ';' q).map parseQuery) with
    | some none, _ => "err:setup"
    | some (some p), some qs =>
      "ok " ++ Wire.joinWith ";" (qs.map (fun (o, m, es) =>
        let existing : List Node := es.map (fun e => ⟨o, e, 0, 0, 0, false, 0⟩)
        match provide p buf o m existing with
        | .ok ns => showNodes ns
        | .err _ => "E"
        | .panic _ => "P"))
    | _, _ => "bad-op"
  | some none, _, _ => "err"
  | _, _, _ => "bad-op"

/-- lexicographic order on `(e, l, r, c, oov, pos)` -/
def nodeLe (x y : Node) : Bool :=
  if x.e ≠ y.e then x.e < y.e
  else if x.l ≠ y.l then x.l < y.l
  else if x.r ≠ y.r then x.r < y.r
  else if x.c ≠ y.c then x.c < y.c
  else if x.oov ≠ y.oov then !x.oov
  else x.pos ≤ y.pos

def insertNode (x : Node) : List Node → List Node
  | [] => [x]
  | y :: ys => if nodeLe x y then x :: y :: ys else y :: insertNode x ys

def sortNodes (l : List Node) : List Node := l.foldr insertNode []

def showLatNode (x : Node) : String :=
  Wire.joinWith ":" [toString x.e, toString x.l, toString x.r, toString x.c, if x.oov then "1" else "0", toString x.pos]

/-- `idx~offset~created~pre~nodes`: one `provide_oov` call of the builder -/
def showCall (c : Call) : String :=
  Wire.joinWith "~" [toString c.idx, toString c.offset, toString c.created, toString c.pre, showNodes c.out]

def parseWord (s : List Char) : Option Word :=
  match Wire.items ':' s with
  | [sf, l, r, c] =>
    match dotNats? sf, Wire.nat? l, Wire.nat? r, Wire.int? c with
    | some sf, some l, some r, some c => some ⟨sf, l, r, c⟩
    | _, _, _, _ => none
  | _ => none

def handleLat (toks : List (List Char)) : String :=
  match caseBuf toks, Wire.kv? toks "provs", Wire.kv? toks "lex" with
  | some (some buf), some provs, some lex =>
    match Wire.allSome ((Wire.items '.' provs).map (parseProvider toks)), Wire.allSome ((Wire.items ';' lex).map parseWord) with
    | some ps, some lex =>
      match Wire.allSome ps with
      | none => "err:setup"
      | some ps =>
        if ps.isEmpty then "err:setup" else
        if buf.chars.isEmpty then "ok " else
        match buildLatticeT ps lex buf with
        | .panic _ => "PANIC"
        | .err k => "err:" ++ k
        | .ok (nodes, tr) =>
          let per := (List.range buf.chars.length).filterMap (fun p =>
            let here := sortNodes (nodes.filter (fun x => x.b == p))
            if here.isEmpty then none
            else some (toString p ++ "=" ++ Wire.joinWith "," (here.map showLatNode)))
          "ok " ++ Wire.joinWith ";" per ++ " calls=" ++ Wire.joinWith "+" ((allCalls tr).map showCall)
    | _, _ => "bad-op"
  | some none, _, _ => "err"
  | _, _, _ => "bad-op"

def handleInfo (toks : List (List Char)) : String :=
  match (Wire.kv? toks "text").bind Wire.natList?, (Wire.kv? toks "b").bind Wire.nat?,
        (Wire.kv? toks "e").bind Wire.nat?, (Wire.kv? toks "raw").bind Wire.nat? with
  | some chars, some b, some e, some raw =>
    let i := oovInfo chars b e raw
    "ok oov=" ++ (if i.isOov then "1" else "0") ++ " dic=" ++ toString i.dictionaryId ++ " pos=" ++ toString i.posId ++
    " surf=" ++ Wire.showNats i.surface ++ " norm=" ++ Wire.showNats i.normalizedForm ++
    " dform=" ++ Wire.showNats i.dictionaryForm ++ " read=" ++ Wire.showNats i.readingForm
  | _, _, _, _ => "bad-op"

/-- `C13 <op> idx=… key=value …` -/
def handle (op : List Char) (toks : List (List Char)) : String :=
  if op == "buf".toList then handleBuf toks
  else if op == "prov".toList then handleProv toks
  else if op == "lat".toList then handleLat toks
  else if op == "info".toList then handleInfo toks
  else "bad-op"

end Oov
