import Sudachi.Model.Oov
/-!
# The tables of a LONG-LIVED `InputBuffer` (C13, round e)

`Model/Oov.lean` describes one built buffer by one value per CHARACTER (`Buf`).  The Rust object is recycled: the same
`Vec`s serve every text a tokenizer analyses (`reset` = `clear()` on each of them, `build` = `resize` + writes / `push`),
and the word-start table `mod_bow` has one entry per BYTE of which `build` writes only the entries at character starts.
This file transcribes that discipline, table by table, and `get_word_candidate_length` / `can_bow` with the byte
indirection through `mod_c2b` they really use:

```
reset():   original/modified/m2o/mod_chars/mod_c2b/mod_b2c/mod_bow/mod_cat/mod_cat_continuity .clear()
build():   mod_chars.clear(); mod_bow.resize(modified.len(), false);
           for (chidx, (bidx, ch)) in modified.char_indices().enumerate() {
               mod_chars.push(ch); mod_cat.push(cat); mod_c2b.push(bidx); mod_b2c.extend(repeat(last_chidx).take(bidx - last_offset));
               … mod_bow[bidx] = can_bow; }
           mod_b2c.extend(repeat(last_chidx).take(modified.len() - last_offset));
           mod_c2b.push(mod_b2c.len()); mod_b2c.push(last_chidx + 1);
           fill_cat_continuity():  if mod_chars.is_empty() { return }  mod_cat_continuity.resize(mod_cat.len(), 1); every index written
get_word_candidate_length(char_idx):
           for i in (char_idx + 1)..char_len { let byte_idx = mod_c2b[i]; if can_bow(byte_idx) { return i - char_idx; } }
           char_len - char_idx
can_bow(offset) = mod_bow[offset]
```
-/
namespace Oov

/-- `Vec::resize(n, v)`: truncates or extends -/
def vecResize {α : Type} (l : List α) (n : Nat) (v : α) : List α :=
  l.take n ++ List.replicate (n - l.length) v

/-- `modified.len()` -/
def byteLen : List Nat → Nat
  | [] => 0
  | c :: cs => utf8Width c + byteLen cs

/-- what one `build` appends to `mod_c2b`: the byte offset of every character, then the sentinel (the byte length) -/
def c2bFrom : Nat → List Nat → List Nat
  | off, [] => [off]
  | off, c :: cs => off :: c2bFrom (off + utf8Width c) cs

/-- what one `build` appends to `mod_b2c` before the sentinel: the index of the character every byte belongs to -/
def b2cFrom : Nat → List Nat → List Nat
  | _, [] => []
  | i, c :: cs => List.replicate (utf8Width c) i ++ b2cFrom (i + 1) cs

/-- the tables of the object (the ones the OOV providers read) -/
structure Tables where
  chars : List Nat     -- mod_chars
  c2b : List Nat       -- mod_c2b
  b2c : List Nat       -- mod_b2c
  bow : List Bool      -- mod_bow, one entry per BYTE
  cat : List Nat       -- mod_cat
  cont : List Nat      -- mod_cat_continuity
deriving Repr, DecidableEq

/-- `InputBuffer::new()` -/
def Tables.empty : Tables := ⟨[], [], [], [], [], []⟩

/-- `InputBuffer::reset`: every table is cleared -/
def Tables.reset (t : Tables) : Tables :=
  { t with chars := [], c2b := [], b2c := [], bow := [], cat := [], cont := [] }

/-- the `reset` of seeded change C13e: `mod_bow` is NOT cleared ("build() resizes it and writes every character start") -/
def Tables.resetKeepBow (t : Tables) : Tables := { t.reset with bow := t.bow }

/-- the writes `mod_bow[bidx] = can_bow` of the loop, in text order; `none` = index out of range (the Rust panics) -/
def writeBow : List Bool → Nat → List Nat → List Bool → Option (List Bool)
  | t, _, [], _ => some t
  | t, off, c :: cs, f :: fs => if off < t.length then writeBow (t.set off f) (off + utf8Width c) cs fs else none
  | _, _, _ :: _, [] => none

/-- `for i in 0..new.len() { old[i] = new[i] }` on a table that is long enough -/
def overwrite {α : Type} (old new : List α) : List α := new ++ old.drop new.length

/-- `InputBuffer::build` on WHATEVER the tables hold (`cats` = the class set `get_category_types` returns per character) -/
def Tables.build (v : Variant) (bowFix : Bool) (t : Tables) (chars cats : List Nat) : Option Tables :=
  let cat := t.cat ++ cats
  match writeBow (vecResize t.bow (byteLen chars) false) 0 chars (if bowFix then bowTableFix cats else bowTable cats) with
  | none => none
  | some bow => some {
      chars := chars
      c2b := t.c2b ++ c2bFrom 0 chars
      b2c := t.b2c ++ b2cFrom 0 chars ++ [(chars.length - 1) + 1]
      bow := bow
      cat := cat
      cont := if chars.isEmpty then t.cont else overwrite (vecResize t.cont cat.length 1) (fillCatContinuity v cat) }

/-- one analysis on a recycled object: `reset` + `build` -/
def Tables.next (v : Variant) (bowFix : Bool) (t : Tables) (chars cats : List Nat) : Option Tables :=
  t.reset.build v bowFix chars cats

/-- the same with the `reset` of seeded change C13e -/
def Tables.nextKeepBow (v : Variant) (bowFix : Bool) (t : Tables) (chars cats : List Nat) : Option Tables :=
  t.resetKeepBow.build v bowFix chars cats

/-- `can_bow(offset)`; `none` = index out of range -/
def Tables.canBow (t : Tables) (offset : Nat) : Option Bool := t.bow[offset]?

/-- `can_bow(mod_c2b[i])`: the word-start permission of CHARACTER `i` -/
def Tables.canBowChar (t : Tables) (i : Nat) : Option Bool :=
  match t.c2b[i]? with
  | none => none
  | some b => t.canBow b

/-- the loop `for i in (char_idx + 1)..char_len`; fuel = `char_len - i` -/
def wclLoop (t : Tables) (charIdx : Nat) : Nat → Nat → Option Nat
  | 0, _ => some (t.chars.length - charIdx)
  | fuel + 1, i =>
    match t.canBowChar i with
    | none => none
    | some true => some (i - charIdx)
    | some false => wclLoop t charIdx fuel (i + 1)

/-- `get_word_candidate_length(char_idx)`; `none` = a panic (index out of range, `char_len - char_idx` underflows) -/
def Tables.wordCandidateLength (t : Tables) (charIdx : Nat) : Option Nat :=
  if charIdx ≤ t.chars.length then wclLoop t charIdx (t.chars.length - (charIdx + 1)) (charIdx + 1) else none

/-- index of the first `true` (`iter().position(|&b| b)`) -/
def firstTrue : List Bool → Option Nat
  | [] => none
  | b :: bs => if b then some 0 else (firstTrue bs).map (· + 1)

/-- `get_word_candidate_length` of seeded change C13e: `mod_bow[from..]` is scanned BYTE by byte and the hit is mapped back
with `mod_b2c` -/
def Tables.wordCandidateLengthByteScan (t : Tables) (charIdx : Nat) : Option Nat :=
  match t.c2b[charIdx + 1]? with
  | none => none
  | some frm =>
    if frm ≤ t.bow.length then
      match firstTrue (t.bow.drop frm) with
      | some dist => (t.b2c[frm + dist]?).map (· - charIdx)
      | none => some (t.chars.length - charIdx)
    else none

/-- the Simple provider on the tables of the object -/
def simpleProvideT (cfg : SimpleCfg) (t : Tables) (offset created : Nat) : Outcome (List Node) :=
  if created ≠ 0 then .ok []
  else match t.wordCandidateLength offset with
    | none => .panic "index"
    | some len => .ok [⟨offset, offset + len, cfg.l, cfg.r, cfg.c, true, cfg.pos⟩]

end Oov
