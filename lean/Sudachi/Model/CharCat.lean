import Sudachi.Model.Wire
/-!
# Model of `sudachi/src/dic/character_category.rs`  (property C17; classes are reused by C13)

The two parallel Rust vectors `boundaries` / `categories` are modelled as one list of pairs
`(right boundary, category of the interval ending there)`; the trailing `DEFAULT` entry of
`categories` is implicit in `denF` and explicit in `categoriesVec`.
-/
namespace CharCat

structure CatRange where
  b : Nat      -- begin (inclusive)
  e : Nat      -- end (exclusive: the inclusive end of the definition line + 1)
  c : Nat      -- category bit mask
deriving Repr, DecidableEq

def DEFAULT : Nat := 1

/-- BTreeSet insert -/
def insertSorted (x : Nat) : List Nat → List Nat
  | [] => [x]
  | y :: ys => if x < y then x :: y :: ys else if x = y then y :: ys else y :: insertSorted x ys

/-- `collect_boundaries` -/
def collectBoundaries (rs : List CatRange) : List Nat :=
  rs.foldl (fun acc r => insertSorted r.e (insertSorted r.b acc)) []

def orWhile (re c : Nat) : List (Nat × Nat) → List (Nat × Nat)
  | [] => []
  | (b, x) :: rest => if b > re then (b, x) :: rest else (b, x ||| c) :: orWhile re c rest

/-- Rust: `start_idx = binary_search(begin) + 1; for i in start_idx.. { if boundaries[i] > end {break}; cats[i] |= c }` -/
def applyRange (r : CatRange) : List (Nat × Nat) → List (Nat × Nat)
  | [] => []
  | (b, x) :: rest => if b = r.b then (b, x) :: orWhile r.e r.c rest else (b, x) :: applyRange r rest

def applyAll (rs : List CatRange) (l : List (Nat × Nat)) : List (Nat × Nat) :=
  rs.foldl (fun l r => applyRange r l) l

def initCats (bs : List Nat) : List (Nat × Nat) := bs.map (fun b => (b, 0))

/-- `categories[0] = DEFAULT` -/
def setFirst : List (Nat × Nat) → List (Nat × Nat)
  | [] => []
  | (b, _) :: rest => (b, DEFAULT) :: rest

def mergeGo (lb lc : Nat) : List (Nat × Nat) → List (Nat × Nat)
  | [] => [(lb, lc)]
  | (b, x) :: rest => if x = lc then mergeGo b lc rest else (lb, lc) :: mergeGo b x rest

/-- merge successive ranges of the same category -/
def merge : List (Nat × Nat) → List (Nat × Nat)
  | [] => []
  | (b, c) :: rest => mergeGo b c rest

/-- replace empty categories with default -/
def finalize (l : List (Nat × Nat)) : List (Nat × Nat) :=
  l.map (fun p => (p.1, if p.2 = 0 then DEFAULT else p.2))

def compile (rs : List CatRange) : List (Nat × Nat) :=
  finalize (merge (setFirst (applyAll rs (initCats (collectBoundaries rs)))))

def fsts (l : List (Nat × Nat)) : List Nat := l.map (·.1)
def snds (l : List (Nat × Nat)) : List Nat := l.map (·.2)

/-- the Rust `categories` vector: one more element than `boundaries`, the last one DEFAULT -/
def categoriesVec (tab : List (Nat × Nat)) : List Nat := snds tab ++ [DEFAULT]

/-- The `while size > 1` loop of `core::slice::binary_search_by`, transcribed from the standard library
of the toolchain in use (rustc 1.95.0, `library/core/src/slice/mod.rs`):
```text
let mut size = self.len(); if size == 0 { return Err(0); }
let mut base = 0usize;
while size > 1 {
    let half = size / 2;  let mid = base + half;
    let cmp = f(self.get_unchecked(mid));                         // f = |p| p.cmp(x)
    base = hint::select_unpredictable(cmp == Greater, base, mid); // = if cmp == Greater { base } else { mid }
    size -= half;
}
let cmp = f(self.get_unchecked(base));
if cmp == Equal { Ok(base) } else { Err(base + (cmp == Less) as usize) }
```
`fuel` only makes the recursion structural (`size` strictly decreases while it is `> 1`; `bsearch`
passes `fuel = size`).  `none` = a `get_unchecked` outside the slice (undefined behaviour in Rust);
`Proofs/CharCat.lean: bsearch_in_range` proves that it never happens, for any slice. -/
def bsLoop (l : List Nat) (x : Nat) : Nat → Nat → Nat → Option Nat
  | 0, _, base => some base
  | fuel + 1, size, base =>
    if size > 1 then
      let half := size / 2
      let mid := base + half
      match l[mid]? with
      | none => none
      | some p => bsLoop l x fuel (size - half) (if p > x then base else mid)
    else some base

/-- `slice::binary_search(&x)` = `binary_search_by(|p| p.cmp(x))`:
`(i, true)` = `Ok(i)`, `(i, false)` = `Err(i)` -/
def bsearch (l : List Nat) (x : Nat) : Option (Nat × Bool) :=
  if l.length = 0 then some (0, false) else
  match bsLoop l x l.length l.length 0 with
  | none => none
  | some base =>
    match l[base]? with
    | none => none
    | some p =>
      if p = x then some (base, true)
      else some (base + (if p < x then 1 else 0), false)

/-- `get_category_types` -/
def lookup (tab : List (Nat × Nat)) (x : Nat) : Option Nat :=
  if tab.isEmpty then some DEFAULT else
  match bsearch (fsts tab) x with
  | none => none
  | some r => if r.2 then (categoriesVec tab)[r.1 + 1]? else (categoriesVec tab)[r.1]?

/-! ## definition file parser (`read_character_definition`) -/

inductive LoadErr where
  | invalidFormat | invalidChar | invalidType | parseInt
  | panicOverflow     -- `u32 + 1` on 0xFFFFFFFF: `attempt to add with overflow` (debug build)
deriving Repr, DecidableEq

def catNames : List (String × Nat) :=
  [("DEFAULT", 1), ("SPACE", 2), ("KANJI", 4), ("SYMBOL", 8), ("NUMERIC", 16), ("ALPHA", 32),
   ("HIRAGANA", 64), ("KATAKANA", 128), ("KANJINUMERIC", 256), ("GREEK", 512), ("CYRILLIC", 1024),
   ("USER1", 2048), ("USER2", 4096), ("USER3", 8192), ("USER4", 16384),
   ("NOOOVBOW", 1073741824), ("NOOOVBOW2", 2147483648), ("ALL", 1073741823)]

def catOfName? (s : List Char) : Option Nat :=
  (catNames.find? (fun p => p.1.toList = s)).map (·.2)

/-- `char::from_u32(n).is_some()` -/
def isScalar (n : Nat) : Bool := n < 0xD800 || (0xE000 ≤ n && n ≤ 0x10FFFF)

/-- `trim_start_matches("0x")` -/
def stripAll0x : List Char → List Char
  | '0' :: 'x' :: rest => stripAll0x rest
  | s => s

/-- split on the two-character separator `..` -/
def splitDotDot (s : List Char) : List (List Char) :=
  (go s [] []).reverse
where
  go : List Char → List Char → List (List Char) → List (List Char)
    | [], cur, acc => cur.reverse :: acc
    | '.' :: '.' :: rest, cur, acc => go rest [] (cur.reverse :: acc)
    | c :: rest, cur, acc => go rest (c :: cur) acc

def u32hex? (s : List Char) : Option Nat :=
  match Wire.hex? (stripAll0x s) with
  | some n => if n < 4294967296 then some n else none
  | none => none

def parseCats : List (List Char) → Nat → Except LoadErr Nat
  | [], acc => .ok acc
  | w :: ws, acc =>
    match w with
    | '#' :: _ => .ok acc
    | _ => match catOfName? w with
      | some c => parseCats ws (acc ||| c)
      | none => .error .invalidType

/-- one line: `none` = skipped line -/
def parseLine (line : List Char) : Except LoadErr (Option CatRange) :=
  let cols := Wire.words line
  match cols with
  | [] => .ok none
  | c0 :: rest =>
    if !(c0.take 2 == ['0', 'x']) then .ok none
    else if rest.isEmpty then .error .invalidFormat
    else
      let r := splitDotDot c0
      match r with
      | [] => .error .invalidFormat
      | r0 :: rr =>
        match u32hex? r0 with
        | none => .error .parseInt
        | some b =>
          let e? : Option Nat := match rr with
            | [] => some (b + 1)
            | r1 :: _ => (u32hex? r1).map (· + 1)
          match e? with
          | none => .error .parseInt
          | some e =>
            if e ≥ 4294967296 then .error .panicOverflow
            else if b ≥ e then .error .invalidFormat
            else if !isScalar b then .error .invalidChar
            else if !isScalar e then .error .invalidChar
            else match parseCats rest 0 with
              | .error er => .error er
              | .ok c => .ok (some ⟨b, e, c⟩)

def parseLines : List (List Char) → Except LoadErr (List CatRange)
  | [] => .ok []
  | l :: ls =>
    match parseLine l with
    | .error e => .error e
    | .ok none => parseLines ls
    | .ok (some r) => match parseLines ls with
      | .error e => .error e
      | .ok rs => .ok (r :: rs)

/-! ## driver entry -/

def showTab (tab : List (Nat × Nat)) : String :=
  Wire.joinWith "," (tab.map (fun p => toString p.1 ++ ":" ++ toString p.2))

def showOptNats (l : List (Option Nat)) : String :=
  Wire.joinWith "," (l.map (fun o => match o with | some n => toString n | none => "OOB"))

/-- `C17 chardef def=<hex of file> probe=<nat list>` -/
def handle (toks : List (List Char)) : String :=
  match Wire.kv? toks "def", Wire.kv? toks "probe" with
  | some d, some p =>
    match Wire.hexBytes? d, Wire.natList? p with
    | some bytes, some probes =>
      let text := bytes.map Char.ofNat
      match parseLines (Wire.splitOn '\n' text) with
      | .error .panicOverflow => "PANIC"
      | .error _ => "err"
      | .ok rs =>
        let tab := compile rs
        "ok tab=" ++ showTab tab ++ " last=" ++ toString DEFAULT ++ " cats=" ++ showOptNats (probes.map (lookup tab))
    | _, _ => "bad-op"
  | _, _ => "bad-op"

end CharCat
