import Sudachi.Model.Wire
/-!
# Model of `sudachi/src/dic/character_category.rs`  (property C17; classes are reused by C13)

The two parallel Rust vectors `boundaries` / `categories` are modelled as one list of pairs
`(right boundary, category of the interval ending there)`; the trailing `DEFAULT` entry of
`categories` is implicit in `denF` and explicit in `categoriesVec`.
-/
namespace CharCat

structure CatRange where
  b : Nat      -- begin (inclusive)
  e : Nat      -- end (exclusive: the inclusive end of the definition line + 1)
  c : Nat      -- category bit mask
deriving Repr, DecidableEq

def DEFAULT : Nat := 1

/-- BTreeSet insert -/
def insertSorted (x : Nat) : List Nat → List Nat
  | [] => [x]
  | y :: ys => if x < y then x :: y :: ys else if x = y then y :: ys else y :: insertSorted x ys

/-- `collect_boundaries` -/
def collectBoundaries (rs : List CatRange) : List Nat :=
  rs.foldl (fun acc r => insertSorted r.e (insertSorted r.b acc)) []

def orWhile (re c : Nat) : List (Nat × Nat) → List (Nat × Nat)
  | [] => []
  | (b, x) :: rest => if b > re then (b, x) :: rest else (b, x ||| c) :: orWhile re c rest

/-- Rust: `start_idx = binary_search(begin) + 1; for i in start_idx.. { if boundaries[i] > end {break}; cats[i] |= c }` -/
def applyRange (r : CatRange) : List (Nat × Nat) → List (Nat × Nat)
  | [] => []
  | (b, x) :: rest => if b = r.b then (b, x) :: orWhile r.e r.c rest else (b, x) :: applyRange r rest

def applyAll (rs : List CatRange) (l : List (Nat × Nat)) : List (Nat × Nat) :=
  rs.foldl (fun l r => applyRange r l) l

def initCats (bs : List Nat) : List (Nat × Nat) := bs.map (fun b => (b, 0))

/-- `categories[0] = DEFAULT` -/
def setFirst : List (Nat × Nat) → List (Nat × Nat)
  | [] => []
  | (b, _) :: rest => (b, DEFAULT) :: rest

def mergeGo (lb lc : Nat) : List (Nat × Nat) → List (Nat × Nat)
  | [] => [(lb, lc)]
  | (b, x) :: rest => if x = lc then mergeGo b lc rest else (lb, lc) :: mergeGo b x rest

/-- merge successive ranges of the same category -/
def merge : List (Nat × Nat) → List (Nat × Nat)
  | [] => []
  | (b, c) :: rest => mergeGo b c rest

/-- replace empty categories with default -/
def finalize (l : List (Nat × Nat)) : List (Nat × Nat) :=
  l.map (fun p => (p.1, if p.2 = 0 then DEFAULT else p.2))

def compile (rs : List CatRange) : List (Nat × Nat) :=
  finalize (merge (setFirst (applyAll rs (initCats (collectBoundaries rs)))))

def fsts (l : List (Nat × Nat)) : List Nat := l.map (·.1)
def snds (l : List (Nat × Nat)) : List Nat := l.map (·.2)

/-- the Rust `categories` vector: one more element than `boundaries`, the last one DEFAULT -/
def categoriesVec (tab : List (Nat × Nat)) : List Nat := snds tab ++ [DEFAULT]

/-- The `while size > 1` loop of `core::slice::binary_search_by`, transcribed from the standard library
of the toolchain in use (rustc 1.95.0, `library/core/src/slice/mod.rs`):
```text
let mut size = self.len(); if size == 0 { return Err(0); }
let mut base = 0usize;
while size > 1 {
    let half = size / 2;  let mid = base + half;
    let cmp = f(self.get_unchecked(mid));                         // f = |p| p.cmp(x)
    base = hint::select_unpredictable(cmp == Greater, base, mid); // = if cmp == Greater { base } else { mid }
    size -= half;
}
let cmp = f(self.get_unchecked(base));
if cmp == Equal { Ok(base) } else { Err(base + (cmp == Less) as usize) }
```
`fuel` only makes the recursion structural (`size` strictly decreases while it is `> 1`; `bsearch`
passes `fuel = size`).  `none` = a `get_unchecked` outside the slice (undefined behaviour in Rust);
`Proofs/CharCat.lean: bsearch_in_range` proves that it never happens, for any slice. -/
def bsLoop (l : List Nat) (x : Nat) : Nat → Nat → Nat → Option Nat
  | 0, _, base => some base
  | fuel + 1, size, base =>
    if size > 1 then
      let half := size / 2
      let mid := base + half
      match l[mid]? with
      | none => none
      | some p => bsLoop l x fuel (size - half) (if p > x then base else mid)
    else some base

/-- `slice::binary_search(&x)` = `binary_search_by(|p| p.cmp(x))`:
`(i, true)` = `Ok(i)`, `(i, false)` = `Err(i)` -/
def bsearch (l : List Nat) (x : Nat) : Option (Nat × Bool) :=
  if l.length = 0 then some (0, false) else
  match bsLoop l x l.length l.length 0 with
  | none => none
  | some base =>
    match l[base]? with
    | none => none
    | some p =>
      if p = x then some (base, true)
      else some (base + (if p < x then 1 else 0), false)

/-- `get_category_types` -/
def lookup (tab : List (Nat × Nat)) (x : Nat) : Option Nat :=
  if tab.isEmpty then some DEFAULT else
  match bsearch (fsts tab) x with
  | none => none
  | some r => if r.2 then (categoriesVec tab)[r.1 + 1]? else (categoriesVec tab)[r.1]?

/-! ## `CharacterCategory::iter()` (`CharCategoryIter::next`)

Items are `(start, end, classes)` of the half-open `Range<char>` `start..end`.  With the paired table
`[(b₀,c₀), …, (bₙ₋₁,cₙ₋₁)]` (`cᵢ = categories[i]`, `categories[n] = DEFAULT`) the iterator yields, for
`current = 0, 1, …, n`:
```text
current == len      : (char(boundaries.last().unwrap()) .. char::MAX, *categories.last().unwrap())
current == 0        : (0 .. char(boundaries[0]),                       categories[0])
otherwise           : (char(boundaries[current-1]) .. char(boundaries[current]), categories[current])
```
`none` = a panic: the first branch is tested first, so on the EMPTY table (`len == 0`, a definition
without any range line) `current == 0 == len` takes `boundaries.last().unwrap()` on an empty vector;
`char::from_u32(..).unwrap()` panics on a boundary that is not a scalar value. -/

/-- `char::from_u32(n).is_some()` -/
def isScalar (n : Nat) : Bool := n < 0xD800 || (0xE000 ≤ n && n ≤ 0x10FFFF)

/-- `char::MAX as u32` -/
def charMax : Nat := 0x10FFFF

/-- the items for `current = k+1, …, len`, `prev = boundaries[k]` -/
def iterGo (prev : Nat) : List (Nat × Nat) → Option (List (Nat × Nat × Nat))
  | [] => if isScalar prev then some [(prev, charMax, DEFAULT)] else none
  | (b, c) :: rest =>
    if isScalar prev && isScalar b then (iterGo b rest).map ((prev, b, c) :: ·) else none

def iterRanges : List (Nat × Nat) → Option (List (Nat × Nat × Nat))
  | [] => none
  | (b, c) :: rest => if isScalar b then (iterGo b rest).map ((0, b, c) :: ·) else none

/-- The two `CharCategoryIter::next` in use: `cur` = the pinned code (panics on the table without
boundaries), `fix` = the delivered repair `fix_iter_empty.patch` (one range `0..char::MAX` with
`categories[0]`).  The harness probes `CharacterCategory::default().iter().next()` of the tree it is
linked against and names the variant on every case line (`itv=`). -/
inductive IterV where
  | cur | fix
deriving Repr, DecidableEq

def iterRangesV : IterV → List (Nat × Nat) → Option (List (Nat × Nat × Nat))
  | .fix, [] => some [(0, charMax, DEFAULT)]
  | _, tab => iterRanges tab

/-! ## definition file reader (`from_reader` / `read_character_definition`)

Transcribed piece by piece: `BufRead::lines` (segmentation at `\n`, UTF-8 validation of every segment,
one `\r` removed before a removed `\n`), `str::trim` / `split_whitespace` (Unicode `White_Space`),
`str::split("..")`, `trim_start_matches("0x")`, `u32::from_str_radix(_, 16)` (rustc 1.95.0
`from_ascii_radix`: optional `+`, error kinds), the `+ 1` that overflows in a debug build,
the three range checks, `take_while` not-a-comment, and `CategoryType::from_str` =
`bitflags::parser::from_str` (bitflags 2.5: `|`-separated names or `0x` hex numbers, unknown bits kept). -/

/-- `core::num::IntErrorKind` as produced by `u32::from_str_radix` -/
inductive IntErr where
  | empty | invalidDigit | posOverflow
deriving Repr, DecidableEq

inductive LoadErr where
  | io                              -- `line?`: the segment is not valid UTF-8
  | invalidFormat                   -- `Error::InvalidFormat(i)`
  | invalidChar (c : Nat)           -- `Error::InvalidChar(c, i)`
  | invalidType (elem : List Char)  -- `Error::InvalidCategoryType(i, elem)`
  | parseInt (k : IntErr)           -- `SudachiError::ParseIntError`
  | panicOverflow     -- `u32 + 1` on 0xFFFFFFFF: `attempt to add with overflow` (debug build)
  | panicUnreachable  -- `r[0]` on an empty vector / `chars().next().unwrap()` on an empty column: proved unreachable
deriving Repr, DecidableEq

def catNames : List (String × Nat) :=
  [("DEFAULT", 1), ("SPACE", 2), ("KANJI", 4), ("SYMBOL", 8), ("NUMERIC", 16), ("ALPHA", 32),
   ("HIRAGANA", 64), ("KATAKANA", 128), ("KANJINUMERIC", 256), ("GREEK", 512), ("CYRILLIC", 1024),
   ("USER1", 2048), ("USER2", 4096), ("USER3", 8192), ("USER4", 16384),
   ("NOOOVBOW", 1073741824), ("NOOOVBOW2", 2147483648), ("ALL", 1073741823)]

/-- `Flags::from_name`: the declared constants in declaration order, exact (case-sensitive) match -/
def catOfName? (s : List Char) : Option Nat :=
  (catNames.find? (fun p => p.1.toList = s)).map (·.2)

/-- `char::is_whitespace` (Unicode `White_Space`) -/
def isWhite (c : Char) : Bool :=
  let n := c.toNat
  (9 ≤ n && n ≤ 13) || n = 0x20 || n = 0x85 || n = 0xA0 || n = 0x1680 || (0x2000 ≤ n && n ≤ 0x200A) ||
  n = 0x2028 || n = 0x2029 || n = 0x202F || n = 0x205F || n = 0x3000

def trimStart : List Char → List Char
  | [] => []
  | c :: cs => if isWhite c then trimStart cs else c :: cs

/-- `str::trim` -/
def trim (s : List Char) : List Char := (trimStart (trimStart s).reverse).reverse

/-- `str::split_whitespace` -/
def splitWhitespace (s : List Char) : List (List Char) :=
  (go s [] []).reverse
where
  go : List Char → List Char → List (List Char) → List (List Char)
    | [], cur, acc => if cur.isEmpty then acc else cur.reverse :: acc
    | c :: cs, cur, acc =>
      if isWhite c then (if cur.isEmpty then go cs [] acc else go cs [] (cur.reverse :: acc))
      else go cs (c :: cur) acc

/-- `trim_start_matches("0x")` -/
def stripAll0x : List Char → List Char
  | '0' :: 'x' :: rest => stripAll0x rest
  | s => s

/-- `str::split("..")`: non-overlapping matches of the two-character separator, left to right -/
def splitDotDot (s : List Char) : List (List Char) :=
  (go s [] []).reverse
where
  go : List Char → List Char → List (List Char) → List (List Char)
    | [], cur, acc => cur.reverse :: acc
    | '.' :: '.' :: rest, cur, acc => go rest [] (cur.reverse :: acc)
    | c :: rest, cur, acc => go rest (c :: cur) acc

/-- the digit loop of `from_ascii_radix` (radix 16, `u32`): `to_digit` first (`InvalidDigit`), then
`checked_mul`, then `checked_add` (`PosOverflow`).  For at most 8 digits the standard library runs the
same loop without the checks (`can_not_overflow`); there the checks below cannot fire. -/
def radixGo : List Char → Nat → Except IntErr Nat
  | [], acc => .ok acc
  | c :: cs, acc =>
    match Wire.hexDigitVal? c with
    | none => .error .invalidDigit
    | some d =>
      if acc * 16 ≥ 4294967296 then .error .posOverflow
      else if acc * 16 + d ≥ 4294967296 then .error .posOverflow
      else radixGo cs (acc * 16 + d)

/-- `u32::from_str_radix(s, 16)` -/
def u32FromStrRadix16 (s : List Char) : Except IntErr Nat :=
  match s with
  | [] => .error .empty
  | ['+'] => .error .invalidDigit
  | ['-'] => .error .invalidDigit
  | '+' :: rest => radixGo rest 0
  | _ => radixGo s 0

/-- the loop of `bitflags::parser::from_str` over the `|`-separated parts -/
def flagsGo : List (List Char) → Nat → Option Nat
  | [], acc => some acc
  | f :: fs, acc =>
    let f := trim f
    if f.isEmpty then none            -- `ParseError::empty_flag()`
    else match Wire.stripPrefix? ['0', 'x'] f with
      | some h =>                     -- `from_bits_retain(parse_hex(h))`
        match u32FromStrRadix16 h with
        | .ok bits => flagsGo fs (acc ||| bits)
        | .error _ => none
      | none =>
        match catOfName? f with
        | some c => flagsGo fs (acc ||| c)
        | none => none

/-- `CategoryType::from_str` = `bitflags::parser::from_str::<CategoryType>` -/
def categoryFromStr (s : List Char) : Option Nat :=
  if (trim s).isEmpty then some 0 else flagsGo (Wire.splitOn '|' s) 0

def u32hex? (s : List Char) : Option Nat :=
  match Wire.hex? (stripAll0x s) with
  | some n => if n < 4294967296 then some n else none
  | none => none

/-- `u32::from_str_radix(s, 16)` as used by `bitflags::parser::ParseHex for u32` (optional `+`) -/
def hexU32? (s : List Char) : Option Nat :=
  let d := match s with
    | '+' :: r => r
    | _ => s
  match Wire.hex? d with
  | some n => if n < 4294967296 then some n else none
  | none => none

/-- `str::trim` for a given white-space predicate -/
def trimW (ws : Char → Bool) (s : List Char) : List Char :=
  ((s.dropWhile ws).reverse.dropWhile ws).reverse

/-- `str::trim` on ASCII white space -/
def trimWs (s : List Char) : List Char := trimW Wire.isWs s

/-- one `|`-separated piece of `bitflags::parser::from_str`: a hex literal `0x…` (`from_bits_retain`) or a flag name -/
def flagOfPiece? (f : List Char) : Option Nat :=
  match f with
  | '0' :: 'x' :: h => hexU32? h
  | _ => catOfName? f

/-- `bitflags::parser::from_str::<CategoryType>` (= `CategoryType::from_str`, `str::parse`): empty input is the empty
set, otherwise every `|`-separated piece, trimmed, must be a non-empty hex literal or flag name; the pieces are united.
`ws` = what `str::trim` removes (Unicode `White_Space` when the text is decoded, ASCII white space on byte strings). -/
def catOfStrW? (ws : Char → Bool) (s : List Char) : Option Nat :=
  if (trimW ws s).isEmpty then some 0 else
  (Wire.splitOn '|' s).foldl (fun acc f =>
    match acc with
    | none => none
    | some a =>
      let f := trimW ws f
      if f.isEmpty then none else
      match flagOfPiece? f with
      | some c => some (a ||| c)
      | none => none) (some 0)

def catOfStr? (s : List Char) : Option Nat := catOfStrW? Wire.isWs s

/-- `cols[1..].iter().take_while(|e| e.chars().next().unwrap() != '#')` + `insert(elem.parse()?)` -/
def parseCats : List (List Char) → Nat → Except LoadErr Nat
  | [], acc => .ok acc
  | w :: ws, acc =>
    match w with
    | [] => .error .panicUnreachable
    | '#' :: _ => .ok acc
    | _ => match categoryFromStr w with
      | some c => parseCats ws (acc ||| c)
      | none => .error (.invalidType w)

def parseHexField (s : List Char) : Except LoadErr Nat :=
  match u32FromStrRadix16 (stripAll0x s) with
  | .error k => .error (.parseInt k)
  | .ok n => .ok n

/-- the body of the `for` loop for one (already decoded) line: `none` = `continue` -/
def parseLine (line : List Char) : Except LoadErr (Option CatRange) :=
  let line := trim line
  if line.isEmpty || line.head? == some '#' || !(line.take 2 == ['0', 'x']) then .ok none
  else
    match splitWhitespace line with
    | [] => .error .invalidFormat
    | [_] => .error .invalidFormat
    | c0 :: rest =>
      match splitDotDot c0 with
      | [] => .error .panicUnreachable
      | r0 :: rr =>
        match parseHexField r0 with
        | .error er => .error er
        | .ok b =>
          let e? : Except LoadErr Nat := match rr with
            | [] => .ok (b + 1)
            | r1 :: _ => match parseHexField r1 with
              | .error er => .error er
              | .ok n => .ok (n + 1)
          match e? with
          | .error er => .error er
          | .ok e =>
            if e ≥ 4294967296 then .error .panicOverflow
            else if b ≥ e then .error .invalidFormat
            else if !isScalar b then .error (.invalidChar b)
            else if !isScalar e then .error (.invalidChar e)
            else match parseCats rest 0 with
              | .error er => .error er
              | .ok c => .ok (some ⟨b, e, c⟩)

/-- the loop over decoded lines; the error carries the 0-based line number `i` of `enumerate()` -/
def parseLinesFrom (i : Nat) : List (List Char) → Except (Nat × LoadErr) (List CatRange)
  | [] => .ok []
  | l :: ls =>
    match parseLine l with
    | .error e => .error (i, e)
    | .ok none => parseLinesFrom (i + 1) ls
    | .ok (some r) => match parseLinesFrom (i + 1) ls with
      | .error e => .error e
      | .ok rs => .ok (r :: rs)

def parseLines (ls : List (List Char)) : Except (Nat × LoadErr) (List CatRange) := parseLinesFrom 0 ls

/-! ### bytes to lines: `BufRead::lines` -/

/-- segments of `read_until(b'\n')`: the flag says that the segment was terminated by `\n`
(a last segment without `\n` is yielded only when it is not empty) -/
def splitSegments (bs : List Nat) : List (List Nat × Bool) :=
  go bs []
where
  go : List Nat → List Nat → List (List Nat × Bool)
    | [], cur => if cur.isEmpty then [] else [(cur.reverse, false)]
    | b :: rest, cur => if b = 10 then (cur.reverse, true) :: go rest [] else go rest (b :: cur)

def isCont (b : Nat) : Bool := 0x80 ≤ b && b ≤ 0xBF

/-- `core::str::from_utf8` (validation as in `run_utf8_validation`: shortest form, no surrogates,
at most U+10FFFF) followed by decoding; `none` = `Utf8Error` -/
def utf8Strict : List Nat → Option (List Nat)
  | [] => some []
  | b0 :: rest =>
    if b0 < 0x80 then (utf8Strict rest).map (b0 :: ·)
    else if b0 < 0xC2 then none
    else if b0 < 0xE0 then
      match rest with
      | b1 :: r => if isCont b1 then (utf8Strict r).map (((b0 - 0xC0) * 64 + (b1 - 0x80)) :: ·) else none
      | _ => none
    else if b0 < 0xF0 then
      match rest with
      | b1 :: b2 :: r =>
        let ok1 := if b0 = 0xE0 then 0xA0 ≤ b1 && b1 ≤ 0xBF
                   else if b0 = 0xED then 0x80 ≤ b1 && b1 ≤ 0x9F else isCont b1
        if ok1 && isCont b2 then
          (utf8Strict r).map (((b0 - 0xE0) * 4096 + (b1 - 0x80) * 64 + (b2 - 0x80)) :: ·)
        else none
      | _ => none
    else if b0 < 0xF5 then
      match rest with
      | b1 :: b2 :: b3 :: r =>
        let ok1 := if b0 = 0xF0 then 0x90 ≤ b1 && b1 ≤ 0xBF
                   else if b0 = 0xF4 then 0x80 ≤ b1 && b1 ≤ 0x8F else isCont b1
        if ok1 && isCont b2 && isCont b3 then
          (utf8Strict r).map (((b0 - 0xF0) * 262144 + (b1 - 0x80) * 4096 + (b2 - 0x80) * 64 + (b3 - 0x80)) :: ·)
        else none
      | _ => none
    else none

def dropLastCR (s : List Char) : List Char :=
  match s.reverse with
  | '\r' :: r => r.reverse
  | _ => s

/-- one item of `lines()`: validate, drop the `\n` (already cut) and one `\r` before it -/
def decodeSegment (seg : List Nat × Bool) : Option (List Char) :=
  match utf8Strict seg.1 with
  | none => none
  | some cps =>
    let s := cps.map Char.ofNat
    some (if seg.2 then dropLastCR s else s)

/-- `read_character_definition` over the segments: decoding and parsing interleave (the iterator is
lazy), so the FIRST failing line decides, whether it is not UTF-8 or not well-formed -/
def readFrom (i : Nat) : List (List Nat × Bool) → Except (Nat × LoadErr) (List CatRange)
  | [] => .ok []
  | seg :: segs =>
    match decodeSegment seg with
    | none => .error (i, .io)
    | some l =>
      match parseLine l with
      | .error e => .error (i, e)
      | .ok none => readFrom (i + 1) segs
      | .ok (some r) => match readFrom (i + 1) segs with
        | .error e => .error e
        | .ok rs => .ok (r :: rs)

/-- `CharacterCategory::read_character_definition(bytes)` -/
def readDef (bytes : List Nat) : Except (Nat × LoadErr) (List CatRange) := readFrom 0 (splitSegments bytes)

/-! ## driver entry -/

def showTab (tab : List (Nat × Nat)) : String :=
  Wire.joinWith "," (tab.map (fun p => toString p.1 ++ ":" ++ toString p.2))

def showOptNats (l : List (Option Nat)) : String :=
  Wire.joinWith "," (l.map (fun o => match o with | some n => toString n | none => "OOB"))

def showIter : Option (List (Nat × Nat × Nat)) → String
  | none => "PANIC"
  | some items => Wire.joinWith "," (items.map (fun t => toString t.1 ++ ":" ++ toString t.2.1 ++ ":" ++ toString t.2.2))

def showIntErr : IntErr → String
  | .empty => "Empty" | .invalidDigit => "InvalidDigit" | .posOverflow => "PosOverflow"

def showErr (i : Nat) : LoadErr → String
  | .io => "err:Io"
  | .invalidFormat => "err:InvalidFormat:" ++ toString i
  | .invalidChar c => "err:InvalidChar:" ++ toString c ++ ":" ++ toString i
  | .invalidType w => "err:InvalidType:" ++ toString i ++ ":" ++ Wire.joinWith "." (w.map (fun c => toString c.toNat))
  | .parseInt k => "err:ParseInt:" ++ showIntErr k
  | .panicOverflow => "PANIC"
  | .panicUnreachable => "PANIC"

/-! ## the category column of `InputBuffer::build` (`input_text/buffer/mod.rs`)

`build` walks `self.modified.char_indices()` and pushes `cats.get_category_types(ch)` to `mod_cat` for every
character, in text order; nothing else writes `mod_cat`.  `cat_at_char(i)` is `self.mod_cat[i]`,
`cat_of_range(s..e)` is `CategoryType::empty()` for an empty range and otherwise the fold of `&` over
`self.mod_cat[s..e]` starting from `CategoryType::all()` (= every bit of the `u32`: `ALL | NOOOVBOW | NOOOVBOW2`).
`none` = panic (index / slice out of range; a panicking look-up). -/

/-- `CategoryType::all().bits()` -/
def ALL_BITS : Nat := 0xFFFFFFFF

/-- `mod_cat` after `build`: one `get_category_types` per character of the text, pushed left to right -/
def bufferCats (tab : List (Nat × Nat)) : List Nat → Option (List Nat)
  | [] => some []
  | ch :: rest =>
    match lookup tab ch with
    | none => none
    | some c => (bufferCats tab rest).map (c :: ·)

/-- `InputTextIndex::cat_at_char` -/
def catAtChar (modCat : List Nat) (i : Nat) : Option Nat := modCat[i]?

/-- `InputTextIndex::cat_of_range` -/
def catOfRange (modCat : List Nat) (s e : Nat) : Option Nat :=
  if e ≤ s then some 0
  else if modCat.length < e then none
  else some (((modCat.drop s).take (e - s)).foldl (fun a b => a &&& b) ALL_BITS)

def showOptNat : Option Nat → String
  | some n => toString n
  | none => "PANIC"

/-- one text of `C17 buffer`: the classes at every character, `PANIC` when `build` panics -/
def showBufferText (tab : List (Nat × Nat)) (text : List Nat) : String :=
  match bufferCats tab text with
  | none => "PANIC"
  | some mc => Wire.joinWith "," ((List.range text.length).map (fun i => showOptNat (catAtChar mc i)))

/-- one range query `t:s:e` of `C17 buffer` -/
def showBufferRange (tab : List (Nat × Nat)) (texts : List (List Nat)) (q : List Nat) : String :=
  match q with
  | [t, s, e] =>
    match texts[t]? with
    | none => "bad-op"
    | some text =>
      match bufferCats tab text with
      | none => "PANIC"
      | some mc => showOptNat (catOfRange mc s e)
  | _ => "bad-op"

/-- `C17 buffer def=<hex of file> texts=<cp,cp;cp,..> rng=<text:start:end,..>`: every text is given to one
`InputBuffer::build` with the loaded definition; answer = `cat_at_char` of every position of every text and
`cat_of_range` of every query -/
def handleBuffer (toks : List (List Char)) : String :=
  match Wire.kv? toks "def", Wire.kv? toks "texts", Wire.kv? toks "rng" with
  | some d, some t, some r =>
    match Wire.hexBytes? d, Wire.allSome ((Wire.items ';' t).map Wire.natList?),
          Wire.allSome ((Wire.items ',' r).map Wire.natTuple?) with
    | some bytes, some texts, some qs =>
      match readDef bytes with
      | .error (i, e) => showErr i e
      | .ok rs =>
        let tab := compile rs
        "ok cats=" ++ Wire.joinWith ";" (texts.map (showBufferText tab))
          ++ " rng=" ++ Wire.joinWith "," (qs.map (showBufferRange tab texts))
    | _, _, _ => "bad-op"
  | _, _, _ => "bad-op"

/-- `C17 chardef def=<hex of file> probe=<nat list>` -/
def handle (toks : List (List Char)) : String :=
  match Wire.kv? toks "def", Wire.kv? toks "probe" with
  | some d, some p =>
    match Wire.hexBytes? d, Wire.natList? p with
    | some bytes, some probes =>
      match readDef bytes with
      | .error (i, e) => showErr i e
      | .ok rs =>
        let tab := compile rs
        let v := if Wire.kv? toks "itv" == some "fix".toList then IterV.fix else IterV.cur
        "ok iter=" ++ showIter (iterRangesV v tab) ++ " cats=" ++ showOptNats (probes.map (lookup tab))
    | _, _ => "bad-op"
  | _, _ => "bad-op"

end CharCat
